import A2Verif.Lemmas.Packing
import A2Verif.Lemmas.PackText
import A2Verif.Lemmas.PackJson
import A2Verif.Lemmas.PackPascalPack
import A2Verif.Lemmas.PackRecMain
import A2Verif.Lemmas.PackReuse
/-!
# C13 — file packing encodings are exact inverse pairs

Part 1: `FileImage` core (`sequence`/`desequence`/eof) and the binary, token and raw packers of the
five file systems.  All statements are about the executable model `A2Verif.Model.Packing`, which the
harness family `c13` compares byte for byte with the real a2kit code.

The model carries three *variants* (`Variant`): for each of the three places where the code at HEAD
violates the refusal clause (DOS 3.x 16-bit length header, ProDOS 24-bit eof, `deduce_address`
panics) the behaviour as written and the behaviour after the proposed repair.  The positive
theorems are about `allChecked` (all three repaired); the `…_at_head` theorems prove, with concrete
witnesses, that the property is false of the code as written.  The harness probes which variant
the code under test exhibits and compares against that one.
-/
namespace A2Verif.C13
open A2Verif.Packing

/-! ## `sequence` / `desequence` / eof -/

/-- **Clause: raw bytes survive chunking.**  Cutting any byte string into chunks and concatenating
the chunks in key order returns the string (any positive chunk length). -/
theorem sequence_desequence (f : FImg) (d : Bytes) (hn : 0 < f.chunkLen) :
    sequence (desequence f d) = d :=
  Packing.sequence_desequence f d hn

example : sequence (desequence (newFimg .dos 3 []) [1,2,3,4,5,6,7]) = [1,2,3,4,5,6,7] := by decide

/-- **Shape of `desequence`** (no padding of the last chunk): empty data gives no chunk at all;
otherwise the keys are `0,1,…,⌈len/n⌉-1`, every chunk is non-empty and at most `n` long, and every
chunk but the last is exactly `n` long. -/
theorem desequence_shape (f : FImg) (d : Bytes) (hn : 0 < f.chunkLen) :
    (d = [] → (desequence f d).chunks = []) ∧
    (d ≠ [] →
      (desequence f d).chunks.map Prod.fst = List.range' 0 ((d.length + f.chunkLen - 1) / f.chunkLen) ∧
      (∀ p ∈ (desequence f d).chunks, p.2 ≠ [] ∧ p.2.length ≤ f.chunkLen) ∧
      (∀ pre last, (desequence f d).chunks = pre ++ [last] → ∀ p ∈ pre, p.2.length = f.chunkLen)) := by
  constructor
  · intro h; simp [desequence, h]
  · intro h
    have hc : (desequence f d).chunks = chunksFrom d.length f.chunkLen 0 d := by simp [desequence, h]
    rw [hc]
    exact ⟨chunksFrom_keys _ hn _ _ _ (Nat.le_refl _) h, chunksFrom_bounds _ hn _ _ _ h,
      fun pre last hp => chunksFrom_full _ _ _ _ pre last hp⟩

example : (desequence (newFimg .dos 3 []) [1,2,3,4,5,6,7]).chunks = [(0,[1,2,3]),(1,[4,5,6]),(2,[7])] := by decide

/-- **eof bookkeeping**: the stored eof reads back as the data length modulo the width of the eof
field (`eof.len()` bytes, at most 8 are read). -/
theorem eof_desequence (f : FImg) (d : Bytes) :
    getEof (desequence f d) = d.length % 256 ^ (min 8 f.eof.length) :=
  getEof_desequence f d

/-- what `unpack_bin/unpack_tok/unpack_raw(trunc)` return for the eof-based file systems, for ALL lengths -/
theorem eof_unpack_general (f g : FImg) (x : Bytes) (hn : 0 < f.chunkLen)
    (hc : g.chunks = (desequence f x).chunks) (he : g.eof = (desequence f x).eof) :
    sequenceLimited g (getEof g) = x.take (x.length % 256 ^ (min 8 f.eof.length)) := by
  have hs : sequence g = x := by
    unfold sequence; rw [hc]; exact Packing.sequence_desequence f x hn
  have hg : getEof g = x.length % 256 ^ (min 8 f.eof.length) := by
    unfold getEof; rw [he]; exact getEof_desequence f x
  rw [sequenceLimited_eq_take, hs, hg]

/-! ## DOS 3.x -/

theorem take_mod_of_lt (d : Bytes) (m : Nat) (h : d.length < m) : d.take (d.length % m) = d := by
  rw [Nat.mod_eq_of_lt h]; exact List.take_length

theorem u16_bytes (v : Nat) : v % 256 + 256 * (v / 256 % 256) = v % 65536 := by omega

theorem dosPackBin_ok (v : DosLen) (f : FImg) (d : Bytes) (a : Nat) (t : Bytes) (ha : a < 65536)
    (hnot : ¬ (v = .checked ∧ 65536 ≤ d.length)) :
    dosPackBin v f d (some a) t = .ok { desequence f (u16le a ++ u16le d.length ++ d ++ t) with fsType := [4] } := by
  unfold dosPackBin
  simp only []
  rw [if_neg (Nat.not_le.mpr ha), if_neg hnot]

theorem prodosPackBin_ok (v : EofLen) (f : FImg) (d : Bytes) (a : Nat) (t : Bytes) (ha : a < 65536)
    (hnot : ¬ prodosTooLong v (d ++ t).length) :
    prodosPackBin v f d (some a) t =
      .ok { desequence f (d ++ t) with fsType := [6], access := [prodosAccess], aux := u16le a } := by
  unfold prodosPackBin
  rw [if_neg hnot]
  simp only []
  rw [if_neg (Nat.not_le.mpr ha)]

theorem prodosPackBin_long (f : FImg) (d : Bytes) (addr : Option Nat) (t : Bytes)
    (h : 2 ^ 24 ≤ (d ++ t).length) : prodosPackBin .checked f d addr t = .err := by
  unfold prodosPackBin
  rw [if_pos ⟨rfl, h⟩]

theorem prodosPackBin_short (f : FImg) (d : Bytes) (addr : Option Nat) (t : Bytes)
    (h : ¬ 2 ^ 24 ≤ (d ++ t).length) : prodosPackBin .checked f d addr t =
      match addr with
      | none => .err
      | some a => if 65536 ≤ a then .err
        else .ok { desequence f (d ++ t) with fsType := [6], access := [prodosAccess], aux := u16le a } := by
  unfold prodosPackBin
  rw [if_neg (fun h' => h h'.2)]
  cases addr <;> rfl

theorem prodosPackBin_short_some (f : FImg) (d : Bytes) (a : Nat) (t : Bytes)
    (h : ¬ 2 ^ 24 ≤ (d ++ t).length) : prodosPackBin .checked f d (some a) t =
      if 65536 ≤ a then .err
        else .ok { desequence f (d ++ t) with fsType := [6], access := [prodosAccess], aux := u16le a } :=
  prodosPackBin_short f d (some a) t h

/-- **DOS 3.x binary, all lengths, both variants**: whenever packing succeeds, unpacking returns
the first `len mod 65536` bytes, and (chunks of at least 3 bytes) the load address. -/
theorem dos_bin_general (v : DosLen) (f : FImg) (d : Bytes) (a : Nat) (t : Bytes)
    (hn : 0 < f.chunkLen) (ha : a < 65536) (hv : v = .wrapping ∨ d.length < 65536) :
    ∃ g, dosPackBin v f d (some a) t = .ok g ∧ dosUnpackBin g = .ok (d.take (d.length % 65536)) ∧
      (3 ≤ f.chunkLen → dosLoadAddrBin g = some a) := by
  have hnot : ¬ (v = .checked ∧ 65536 ≤ d.length) := by
    rintro ⟨h1, h2⟩
    rcases hv with h | h
    · rw [h] at h1; cases h1
    · omega
  refine ⟨_, dosPackBin_ok v f d a t ha hnot, ?_, ?_⟩
  · unfold dosUnpackBin
    have hs : sequence { desequence f (u16le a ++ u16le d.length ++ d ++ t) with fsType := [4] }
        = u16le a ++ u16le d.length ++ d ++ t := Packing.sequence_desequence f _ hn
    rw [hs]
    simp only [u16le, List.cons_append, List.nil_append]
    have hk : d.length % 256 + 256 * (d.length / 256 % 256) = d.length % 65536 := u16_bytes _
    have hle : d.length % 65536 ≤ d.length := Nat.mod_le _ _
    simp only [hk, List.length_append]
    rw [if_neg (by omega), List.take_append_of_le_length hle]
  · intro h3
    unfold dosLoadAddrBin
    have hne : u16le a ++ u16le d.length ++ d ++ t ≠ [] := by simp [u16le]
    have hc : ({ desequence f (u16le a ++ u16le d.length ++ d ++ t) with fsType := [4] } : FImg).chunks
        = chunksFrom (u16le a ++ u16le d.length ++ d ++ t).length f.chunkLen 0 (u16le a ++ u16le d.length ++ d ++ t) :=
      desequence_chunks_of_ne f _ hne
    simp only [if_true]
    rw [hc, getChunk_chunksFrom_zero _ _ _ (by simp [u16le])]
    obtain ⟨k, hk⟩ : ∃ k, f.chunkLen = k + 3 := ⟨f.chunkLen - 3, by omega⟩
    simp only [hk, u16le, List.cons_append, List.nil_append, List.take_succ_cons]
    have : a % 256 + 256 * (a / 256 % 256) = a := by omega
    simp [this]

/-- **Clause: binary data with its load address (DOS 3.x).**  If packing succeeds, unpacking
returns exactly the data, and the load address is recovered. -/
theorem dos_bin_roundtrip (f g : FImg) (d : Bytes) (addr : Option Nat) (t : Bytes) (hn : 0 < f.chunkLen)
    (h : dosPackBin .checked f d addr t = .ok g) :
    dosUnpackBin g = .ok d ∧ (3 ≤ f.chunkLen → ∃ a, addr = some a ∧ dosLoadAddrBin g = some a) := by
  cases addr with
  | none => simp [dosPackBin] at h
  | some a =>
    by_cases ha : 65536 ≤ a
    · simp [dosPackBin, ha] at h
    · by_cases hd : 65536 ≤ d.length
      · simp [dosPackBin, ha, hd] at h
      · obtain ⟨g', hp, hu, hl⟩ := dos_bin_general .checked f d a t hn (by omega) (Or.inr (by omega))
        rw [hp] at h
        cases h
        rw [take_mod_of_lt d 65536 (by omega)] at hu
        exact ⟨hu, fun h3 => ⟨a, rfl, hl h3⟩⟩

example : ∃ g, dosPackBin .checked (newFimg .dos 256 []) [1,2,3] (some 0x300) [] = .ok g ∧
    dosUnpackBin g = .ok [1,2,3] ∧ dosLoadAddrBin g = some 0x300 := ⟨_, rfl, by decide, by decide⟩

/-- **Clause: refusal (DOS 3.x binary).**  Packing never panics, and fails exactly when the input
is unrepresentable: no load address, address ≥ 64 KiB, or length ≥ 64 KiB. -/
theorem dos_bin_refusal (f : FImg) (d : Bytes) (addr : Option Nat) (t : Bytes) :
    dosPackBin .checked f d addr t ≠ .panic ∧
    (dosPackBin .checked f d addr t = .err ↔
      (addr = none ∨ (∃ a, addr = some a ∧ 65536 ≤ a) ∨ 65536 ≤ d.length)) := by
  cases addr with
  | none => simp [dosPackBin]
  | some a =>
    by_cases ha : 65536 ≤ a <;> by_cases hd : 65536 ≤ d.length <;> simp [dosPackBin, ha, hd]

/-- **The code at HEAD violates the property (DESIGN §9 item 11).**  `pack_bin` of 70 000 bytes
succeeds and `unpack_bin` returns 4 464 bytes. -/
theorem dos_bin_wraps_at_head (f : FImg) (hn : 0 < f.chunkLen) :
    ∃ g, dosPackBin .wrapping f (List.replicate 70000 0) (some 768) [] = .ok g ∧
      dosUnpackBin g = .ok (List.replicate 4464 0) ∧
      dosUnpackBin g ≠ .ok (List.replicate 70000 0) := by
  obtain ⟨g, hp, hu, _⟩ := dos_bin_general .wrapping f (List.replicate 70000 0) 768 [] hn (by omega) (Or.inl rfl)
  have hu' : dosUnpackBin g = .ok (List.replicate 4464 0) := by
    rw [hu, List.length_replicate, List.take_replicate]; rfl
  refine ⟨g, hp, hu', ?_⟩
  rw [hu']
  intro h
  injection h with h
  have := congrArg List.length h
  simp only [List.length_replicate] at this
  omega

/-- DOS 3.x tokens, all lengths, both variants -/
theorem dos_tok_general (v : DosLen) (f : FImg) (d : Bytes) (l : Lang) (t : Bytes)
    (hn : 0 < f.chunkLen) (hl : l ≠ .other) (hv : v = .wrapping ∨ d.length < 65536) :
    ∃ g, dosPackTok v f d l t = .ok g ∧ dosUnpackTok g = .ok (d.take (d.length % 65536)) := by
  have hnot : ¬ (v = .checked ∧ 65536 ≤ d.length) := by
    rintro ⟨h1, h2⟩
    rcases hv with h | h
    · rw [h] at h1; cases h1
    · omega
  have key : ∀ ty : Bytes, dosUnpackTok { desequence f (u16le d.length ++ (d ++ t)) with fsType := ty }
      = .ok (d.take (d.length % 65536)) := by
    intro ty
    unfold dosUnpackTok
    have hs : sequence { desequence f (u16le d.length ++ (d ++ t)) with fsType := ty }
        = u16le d.length ++ (d ++ t) := Packing.sequence_desequence f _ hn
    rw [hs]
    simp only [u16le, List.cons_append, List.nil_append]
    have hk : d.length % 256 + 256 * (d.length / 256 % 256) = d.length % 65536 := u16_bytes _
    have hle : d.length % 65536 ≤ d.length := Nat.mod_le _ _
    simp only [hk, List.length_append]
    rw [if_neg (by omega), List.take_append_of_le_length hle]
  cases l with
  | other => exact absurd rfl hl
  | applesoft => exact ⟨_, by unfold dosPackTok; rw [if_neg hnot], key _⟩
  | integer => exact ⟨_, by unfold dosPackTok; rw [if_neg hnot], key _⟩

/-- **Clause: token streams (DOS 3.x).** -/
theorem dos_tok_roundtrip (f g : FImg) (d : Bytes) (l : Lang) (t : Bytes) (hn : 0 < f.chunkLen)
    (h : dosPackTok .checked f d l t = .ok g) : dosUnpackTok g = .ok d := by
  by_cases hd : 65536 ≤ d.length
  · simp [dosPackTok, hd] at h
  · cases l with
    | other => simp [dosPackTok, hd] at h
    | applesoft =>
      obtain ⟨g', hp, hu⟩ := dos_tok_general .checked f d .applesoft t hn (by simp) (Or.inr (by omega))
      rw [hp] at h; cases h
      rwa [take_mod_of_lt d 65536 (by omega)] at hu
    | integer =>
      obtain ⟨g', hp, hu⟩ := dos_tok_general .checked f d .integer t hn (by simp) (Or.inr (by omega))
      rw [hp] at h; cases h
      rwa [take_mod_of_lt d 65536 (by omega)] at hu

example : ∃ g, dosPackTok .checked (newFimg .dos 2 []) [9,8,7,0,0] .applesoft [5] = .ok g ∧
    dosUnpackTok g = .ok [9,8,7,0,0] := ⟨_, rfl, by decide⟩

/-- **Clause: refusal (DOS 3.x tokens).** -/
theorem dos_tok_refusal (f : FImg) (d : Bytes) (l : Lang) (t : Bytes) :
    dosPackTok .checked f d l t ≠ .panic ∧
    (dosPackTok .checked f d l t = .err ↔ (l = .other ∨ 65536 ≤ d.length)) := by
  by_cases hd : 65536 ≤ d.length <;> cases l <;> simp [dosPackTok, hd]

/-- the token header wraps at HEAD as well -/
theorem dos_tok_wraps_at_head (f : FImg) (hn : 0 < f.chunkLen) :
    ∃ g, dosPackTok .wrapping f (List.replicate 65536 7) .applesoft [] = .ok g ∧ dosUnpackTok g = .ok [] := by
  obtain ⟨g, hp, hu⟩ := dos_tok_general .wrapping f (List.replicate 65536 7) .applesoft [] hn (by simp) (Or.inl rfl)
  refine ⟨g, hp, ?_⟩
  rw [hu, List.length_replicate, List.take_replicate]; rfl

/-- **Clause: raw bytes (DOS 3.x)** — for every byte string -/
theorem dos_raw_roundtrip (f : FImg) (d : Bytes) (trunc : Bool) (hn : 0 < f.chunkLen) :
    ∃ g, dosPackRaw f d = .ok g ∧ dosUnpackRaw g trunc = .ok d :=
  ⟨_, rfl, congrArg Res.ok (Packing.sequence_desequence f d hn : sequence { desequence f d with fsType := [0] } = d)⟩

/-! ## the eof-based file systems (ProDOS, Pascal, CP/M, FAT) -/

/-- width of the eof field that `new_fimg` creates -/
def eofWidth : Fs → Nat
  | .dos => 0
  | .prodos => 3
  | _ => 4

theorem newFimg_eof_width (fs : Fs) (n : Nat) (p : List Nat) : (newFimg fs n p).eof.length = eofWidth fs := by
  cases fs <;> rfl

/-- **ProDOS binary, all lengths, both variants** -/
theorem prodos_bin_general (v : EofLen) (f : FImg) (d : Bytes) (a : Nat) (t : Bytes)
    (hn : 0 < f.chunkLen) (ha : a < 65536) (hv : v = .wrapping ∨ (d ++ t).length < 2 ^ 24) :
    ∃ g, prodosPackBin v f d (some a) t = .ok g ∧
      unpackBin .prodos g = .ok ((d ++ t).take ((d ++ t).length % 256 ^ (min 8 f.eof.length))) ∧
      prodosLoadAddr g = a := by
  have hnot : ¬ prodosTooLong v (d ++ t).length := by
    rintro ⟨h1, h2⟩
    rcases hv with h | h
    · rw [h] at h1; cases h1
    · omega
  refine ⟨_, prodosPackBin_ok v f d a t ha hnot, ?_, ?_⟩
  · exact congrArg Res.ok (eof_unpack_general f _ (d ++ t) hn rfl rfl)
  · simp only [prodosLoadAddr, getAux, truncLe, u16le, List.take, leVal]
    omega

/-- **Clause: binary data with its load address (ProDOS).** -/
theorem prodos_bin_roundtrip (f g : FImg) (d : Bytes) (addr : Option Nat) (t : Bytes) (hn : 0 < f.chunkLen)
    (hw : f.eof.length = 3) (h : prodosPackBin .checked f d addr t = .ok g) :
    unpackBin .prodos g = .ok (d ++ t) ∧ ∃ a, addr = some a ∧ prodosLoadAddr g = a := by
  by_cases hl : 2 ^ 24 ≤ (d ++ t).length
  · rw [prodosPackBin_long f d addr t hl] at h; cases h
  · rw [prodosPackBin_short f d addr t hl] at h
    cases addr with
    | none => cases h
    | some a =>
      by_cases ha : 65536 ≤ a
      · simp only [ha, if_true] at h; cases h
      · obtain ⟨g', hp, hu, hla⟩ := prodos_bin_general .checked f d a t hn (by omega) (Or.inr (by omega))
        rw [prodosPackBin_short f d (some a) t hl] at hp
        rw [hp] at h; cases h
        rw [hw] at hu
        have h24 : (256 : Nat) ^ (min 8 3) = 2 ^ 24 := by decide
        rw [h24, take_mod_of_lt _ _ (by omega)] at hu
        exact ⟨hu, a, rfl, hla⟩

example : ∃ g, prodosPackBin .checked (newFimg .prodos 512 []) [1,2,3] (some 0x2000) [] = .ok g ∧
    unpackBin .prodos g = .ok [1,2,3] ∧ prodosLoadAddr g = 0x2000 := ⟨_, rfl, by decide, by decide⟩

/-- **Clause: refusal (ProDOS binary).** -/
theorem prodos_bin_refusal (f : FImg) (d : Bytes) (addr : Option Nat) (t : Bytes) :
    prodosPackBin .checked f d addr t ≠ .panic ∧
    (prodosPackBin .checked f d addr t = .err ↔
      (addr = none ∨ (∃ a, addr = some a ∧ 65536 ≤ a) ∨ 2 ^ 24 ≤ (d ++ t).length)) := by
  by_cases hl : 2 ^ 24 ≤ (d ++ t).length
  · rw [prodosPackBin_long f d addr t hl]
    exact ⟨(fun h => by cases h), fun _ => Or.inr (Or.inr hl), fun _ => rfl⟩
  · cases addr with
    | none =>
      rw [prodosPackBin_short f d none t hl]
      exact ⟨(fun h => by cases h), fun _ => Or.inl rfl, fun _ => rfl⟩
    | some a =>
      rw [prodosPackBin_short_some f d a t hl]
      by_cases ha : 65536 ≤ a
      · rw [if_pos ha]
        exact ⟨(fun h => by cases h), fun _ => Or.inr (Or.inl ⟨a, rfl, ha⟩), fun _ => rfl⟩
      · rw [if_neg ha]
        refine ⟨(fun h => by cases h), (fun h => by cases h), ?_⟩
        rintro (h | ⟨a', h1, h2⟩ | h)
        · cases h
        · cases h1; exact absurd h2 ha
        · exact absurd h hl

/-- **The code at HEAD violates the property (ProDOS).**  A 16 MiB file (one byte more than ProDOS
can store) is accepted and unpacks to nothing: the 24-bit eof wrapped to 0. -/
theorem prodos_bin_wraps_at_head (f : FImg) (hn : 0 < f.chunkLen) (hw : f.eof.length = 3) :
    ∃ g, prodosPackBin .wrapping f (List.replicate (2 ^ 24) 1) (some 8192) [] = .ok g ∧
      unpackBin .prodos g = .ok [] := by
  obtain ⟨g, hp, hu, _⟩ := prodos_bin_general .wrapping f (List.replicate (2 ^ 24) 1) 8192 [] hn (by omega) (Or.inl rfl)
  refine ⟨g, hp, ?_⟩
  rw [hu, hw]
  have h24 : (256 : Nat) ^ (min 8 3) = 2 ^ 24 := by decide
  rw [h24, List.append_nil, List.length_replicate, Nat.mod_self, List.take_zero]

theorem prodosPackTok_long (dv : Deduce) (f : FImg) (d : Bytes) (l : Lang) (t : Bytes)
    (h : 2 ^ 24 ≤ (d ++ t).length) : prodosPackTok .checked dv f d l t = .err := by
  unfold prodosPackTok
  rw [if_pos ⟨rfl, h⟩]

theorem prodosPackTok_short (dv : Deduce) (f : FImg) (d : Bytes) (l : Lang) (t : Bytes)
    (h : ¬ 2 ^ 24 ≤ (d ++ t).length) : prodosPackTok .checked dv f d l t =
      match l with
      | .applesoft =>
        match deduce dv d with
        | some a => .ok { desequence f (d ++ t) with access := [prodosAccess], fsType := [0xfc], aux := u16le a }
        | none => .panic
      | .integer => .ok { desequence f (d ++ t) with access := [prodosAccess], fsType := [0xfa], aux := [0, 0] }
      | .other => .err := by
  unfold prodosPackTok
  rw [if_neg (fun h' => h h'.2)]
  cases l
  · simp only []
    cases deduce dv d <;> rfl
  · rfl
  · rfl

/-- ProDOS tokens: success ⇒ exact round trip -/
theorem prodos_tok_roundtrip (f g : FImg) (d : Bytes) (l : Lang) (t : Bytes) (dv : Deduce) (hn : 0 < f.chunkLen)
    (hw : f.eof.length = 3) (h : prodosPackTok .checked dv f d l t = .ok g) :
    unpackTok .prodos g = .ok (d ++ t) := by
  by_cases hl : 2 ^ 24 ≤ (d ++ t).length
  · rw [prodosPackTok_long dv f d l t hl] at h; cases h
  · rw [prodosPackTok_short dv f d l t hl] at h
    have h24 : (256 : Nat) ^ (min 8 3) = 2 ^ 24 := by decide
    have key : ∀ g' : FImg, g'.chunks = (desequence f (d ++ t)).chunks → g'.eof = (desequence f (d ++ t)).eof →
        unpackTok .prodos g' = .ok (d ++ t) := by
      intro g' hc he
      simp only [unpackTok]
      rw [eof_unpack_general f g' (d ++ t) hn hc he, hw, h24, take_mod_of_lt _ _ (by omega)]
    cases l with
    | other => cases h
    | integer => cases h; exact key _ rfl rfl
    | applesoft =>
      simp only [] at h
      cases hd : deduce dv d with
      | none => rw [hd] at h; cases h
      | some a => rw [hd] at h; cases h; exact key _ rfl rfl

example : ∃ g, prodosPackTok .checked .total (newFimg .prodos 512 []) [7,8,10,0,0x41,0,0,0] .applesoft [] = .ok g ∧
    unpackTok .prodos g = .ok [7,8,10,0,0x41,0,0,0] := ⟨_, rfl, by decide⟩

/-- **Clause: refusal (ProDOS tokens).** -/
theorem prodos_tok_refusal (f : FImg) (d : Bytes) (l : Lang) (t : Bytes) :
    prodosPackTok .checked .total f d l t ≠ .panic ∧
    (prodosPackTok .checked .total f d l t = .err ↔ (l = .other ∨ 2 ^ 24 ≤ (d ++ t).length)) := by
  by_cases hl : 2 ^ 24 ≤ (d ++ t).length
  · rw [prodosPackTok_long .total f d l t hl]
    exact ⟨(fun h => by cases h), fun _ => Or.inr hl, fun _ => rfl⟩
  · rw [prodosPackTok_short .total f d l t hl]
    cases l with
    | other => exact ⟨(fun h => by cases h), fun _ => Or.inl rfl, fun _ => rfl⟩
    | integer =>
      refine ⟨(fun h => by cases h), (fun h => by cases h), ?_⟩
      rintro (h | h)
      · cases h
      · exact absurd h hl
    | applesoft =>
      simp only [deduce]
      refine ⟨(fun h => by cases h), (fun h => by cases h), ?_⟩
      rintro (h | h)
      · cases h
      · exact absurd h hl

/-- **The code at HEAD violates the refusal clause (DESIGN §9 item 19).**  Packing an empty (or any
malformed) Applesoft token stream for ProDOS panics in `deduce_address` instead of returning an error. -/
theorem prodos_tok_panics_at_head (v : EofLen) (f : FImg) :
    prodosPackTok v .panicking f [] .applesoft [] = .panic ∧
    prodosPackTok v .panicking f [1,8,10,0,0x41] .applesoft [] = .panic := by
  constructor <;> cases v <;> simp [prodosPackTok, prodosTooLong, deduce, deduceAddress, deduceScan]

/-- capacity of the eof field -/
def eofCapacity (fs : Fs) : Nat := 256 ^ (min 8 (eofWidth fs))

/-- **Pascal / CP/M / FAT binary, all lengths.**  These packers cannot fail; the data (with the
junk tail used by the tests) comes back cut at `len mod 2^32`.  Data of 4 GiB or more is therefore
outside the round-trip law (it cannot be exercised on the real code either). -/
theorem eof4_bin_general (fs : Fs) (hfs : fs = .pascal ∨ fs = .cpm ∨ fs = .fat) (v : Variant) (f : FImg)
    (d : Bytes) (addr : Option Nat) (t : Bytes) (hn : 0 < f.chunkLen) :
    ∃ g, packBin v fs f d addr t = .ok g ∧
      unpackBin fs g = .ok ((d ++ t).take ((d ++ t).length % 256 ^ (min 8 f.eof.length))) := by
  rcases hfs with h | h | h <;> subst h
  · exact ⟨_, rfl, congrArg Res.ok (eof_unpack_general f _ (d ++ t) hn rfl rfl)⟩
  · exact ⟨_, rfl, congrArg Res.ok (eof_unpack_general f _ (d ++ t) hn rfl rfl)⟩
  · exact ⟨_, rfl, congrArg Res.ok (eof_unpack_general f _ (d ++ t) hn rfl rfl)⟩

/-! ## all five file systems at once -/

/-- all three repairs applied -/
def allChecked : Variant := ⟨.checked, .checked, .total⟩
/-- the code as written at HEAD -/
def atHead : Variant := ⟨.wrapping, .wrapping, .panicking⟩

/-- what `unpack_bin` has to return: DOS strips the junk tail by its length header, the others keep it -/
def binPayload (fs : Fs) (d t : Bytes) : Bytes := match fs with | .dos => d | _ => d ++ t

/-- largest representable payload + 1 -/
def binCapacity : Fs → Nat
  | .dos => 65536
  | .prodos => 2 ^ 24
  | _ => 2 ^ 32

/-- **C13, binary clause, all file systems**: for every byte string, address and junk tail, if
`pack_bin` succeeds then `unpack_bin` returns the data exactly, and for the two file systems that
have load addresses the address is recovered. -/
theorem bin_roundtrip (fs : Fs) (f g : FImg) (d : Bytes) (addr : Option Nat) (t : Bytes)
    (hn : 0 < f.chunkLen) (hw : f.eof.length = eofWidth fs)
    (hcap : (binPayload fs d t).length < binCapacity fs)
    (h : packBin allChecked fs f d addr t = .ok g) :
    unpackBin fs g = .ok (binPayload fs d t) ∧
    ((fs = .dos ∧ 3 ≤ f.chunkLen ∨ fs = .prodos) → ∃ a, addr = some a ∧ loadAddr fs g = some a) := by
  cases fs with
  | dos =>
    obtain ⟨h1, h2⟩ := dos_bin_roundtrip f g d addr t hn h
    refine ⟨h1, ?_⟩
    rintro (⟨_, h3⟩ | h3)
    · exact h2 h3
    · cases h3
  | prodos =>
    obtain ⟨h1, a, h2, h3⟩ := prodos_bin_roundtrip f g d addr t hn hw h
    exact ⟨h1, fun _ => ⟨a, h2, by simp [loadAddr, h3]⟩⟩
  | pascal =>
    obtain ⟨g', hp, hu⟩ := eof4_bin_general .pascal (Or.inl rfl) allChecked f d addr t hn
    rw [hp] at h; cases h
    rw [hw] at hu
    have h32 : (256 : Nat) ^ (min 8 (eofWidth .pascal)) = 2 ^ 32 := by decide
    have hcap' : (d ++ t).length < 2 ^ 32 := hcap
    rw [h32, take_mod_of_lt _ _ hcap'] at hu
    exact ⟨hu, by rintro (⟨h, _⟩ | h) <;> cases h⟩
  | cpm =>
    obtain ⟨g', hp, hu⟩ := eof4_bin_general .cpm (Or.inr (Or.inl rfl)) allChecked f d addr t hn
    rw [hp] at h; cases h
    rw [hw] at hu
    have h32 : (256 : Nat) ^ (min 8 (eofWidth .cpm)) = 2 ^ 32 := by decide
    have hcap' : (d ++ t).length < 2 ^ 32 := hcap
    rw [h32, take_mod_of_lt _ _ hcap'] at hu
    exact ⟨hu, by rintro (⟨h, _⟩ | h) <;> cases h⟩
  | fat =>
    obtain ⟨g', hp, hu⟩ := eof4_bin_general .fat (Or.inr (Or.inr rfl)) allChecked f d addr t hn
    rw [hp] at h; cases h
    rw [hw] at hu
    have h32 : (256 : Nat) ^ (min 8 (eofWidth .fat)) = 2 ^ 32 := by decide
    have hcap' : (d ++ t).length < 2 ^ 32 := hcap
    rw [h32, take_mod_of_lt _ _ hcap'] at hu
    exact ⟨hu, by rintro (⟨h, _⟩ | h) <;> cases h⟩

/-- **C13, refusal clause for `pack_bin`, all file systems**: never a panic; an error exactly when
the file system needs a load address and none / one ≥ 64 KiB is given, or the data exceeds what the
length field (DOS 3.x: 16 bit) or the eof (ProDOS: 24 bit) can express.  Pascal, CP/M and FAT
accept everything (and ignore the address). -/
theorem bin_refusal (fs : Fs) (f : FImg) (d : Bytes) (addr : Option Nat) (t : Bytes) :
    packBin allChecked fs f d addr t ≠ .panic ∧
    (packBin allChecked fs f d addr t = .err ↔
      ((fs = .dos ∨ fs = .prodos) ∧
        (addr = none ∨ (∃ a, addr = some a ∧ 65536 ≤ a) ∨ binCapacity fs ≤ (binPayload fs d t).length))) := by
  cases fs with
  | dos => simpa [packBin, allChecked, binCapacity, binPayload] using dos_bin_refusal f d addr t
  | prodos => simpa [packBin, allChecked, binCapacity, binPayload] using prodos_bin_refusal f d addr t
  | pascal => simp [packBin, pascalPackBin]
  | cpm => simp [packBin, plainPackBin]
  | fat => simp [packBin, plainPackBin]

/-- **C13, token clause** (DOS 3.x and ProDOS are the file systems with token files; the other
three refuse). -/
theorem tok_roundtrip (fs : Fs) (f g : FImg) (d : Bytes) (l : Lang) (t : Bytes)
    (hn : 0 < f.chunkLen) (hw : f.eof.length = eofWidth fs)
    (h : packTok allChecked fs f d l t = .ok g) :
    unpackTok fs g = .ok (binPayload fs d t) := by
  cases fs with
  | dos => exact dos_tok_roundtrip f g d l t hn h
  | prodos => exact prodos_tok_roundtrip f g d l t .total hn hw h
  | pascal => simp [packTok] at h
  | cpm => simp [packTok] at h
  | fat => simp [packTok] at h

theorem tok_refusal (fs : Fs) (f : FImg) (d : Bytes) (l : Lang) (t : Bytes) :
    packTok allChecked fs f d l t ≠ .panic ∧
    (packTok allChecked fs f d l t = .err ↔
      (fs = .pascal ∨ fs = .cpm ∨ fs = .fat ∨ l = .other ∨ binCapacity fs ≤ (binPayload fs d t).length ∧ (fs = .dos ∨ fs = .prodos))) := by
  cases fs with
  | dos =>
    have := dos_tok_refusal f d l t
    simp only [packTok, allChecked, binCapacity, binPayload]
    refine ⟨this.1, this.2.trans ?_⟩
    simp
  | prodos =>
    have := prodos_tok_refusal f d l t
    simp only [packTok, allChecked, binCapacity, binPayload]
    refine ⟨this.1, this.2.trans ?_⟩
    simp
  | pascal => simp [packTok]
  | cpm => simp [packTok]
  | fat => simp [packTok]

/-- **C13, raw clause, all file systems**: `pack_raw` (with the repairs) refuses only a ProDOS
file of 16 MiB or more; otherwise `unpack_raw` returns every byte string exactly, with or without
truncation at eof (below 4 GiB for the 32-bit eof fields when truncating). -/
theorem prodosPackRaw_long (f : FImg) (d : Bytes) (h : 2 ^ 24 ≤ d.length) :
    packRaw allChecked .prodos f d = .err := by
  show prodosPackRaw .checked f d = _
  unfold prodosPackRaw
  rw [if_pos ⟨rfl, h⟩]

theorem prodosPackRaw_short (f : FImg) (d : Bytes) (h : ¬ 2 ^ 24 ≤ d.length) :
    packRaw allChecked .prodos f d = .ok { desequence f d with fsType := [4], aux := [0, 0], access := [prodosAccess] } := by
  show prodosPackRaw .checked f d = _
  unfold prodosPackRaw
  rw [if_neg (fun h' => h h'.2)]

theorem raw_roundtrip (fs : Fs) (f g : FImg) (d : Bytes) (trunc : Bool)
    (hn : 0 < f.chunkLen) (hw : f.eof.length = eofWidth fs) (hcap : d.length < 2 ^ 32)
    (h : packRaw allChecked fs f d = .ok g) :
    unpackRaw fs g trunc = .ok d := by
  have seqOf : ∀ g' : FImg, g'.chunks = (desequence f d).chunks → sequence g' = d := by
    intro g' hc; unfold sequence; rw [hc]; exact Packing.sequence_desequence f d hn
  have limOf : ∀ g' : FImg, g'.chunks = (desequence f d).chunks → g'.eof = (desequence f d).eof →
      d.length < 256 ^ (min 8 f.eof.length) → sequenceLimited g' (getEof g') = d := by
    intro g' hc he hlt
    rw [eof_unpack_general f g' d hn hc he, take_mod_of_lt _ _ hlt]
  have fin : ∀ g' : FImg, sequence g' = d → sequenceLimited g' (getEof g') = d →
      unpackRawEof g' trunc = .ok d := by
    intro g' h1 h2
    cases trunc with
    | false => exact congrArg Res.ok h1
    | true => exact congrArg Res.ok h2
  cases fs with
  | dos =>
    simp only [packRaw, dosPackRaw] at h; cases h
    exact congrArg Res.ok (seqOf _ rfl)
  | prodos =>
    by_cases hl : 2 ^ 24 ≤ d.length
    · rw [prodosPackRaw_long f d hl] at h; cases h
    · rw [prodosPackRaw_short f d hl] at h; cases h
      have h24 : (256 : Nat) ^ (min 8 (eofWidth .prodos)) = 2 ^ 24 := by decide
      exact fin _ (seqOf _ rfl) (limOf _ rfl rfl (by rw [hw, h24]; omega))
  | pascal =>
    simp only [packRaw, pascalPackRaw] at h; cases h
    have limEq : ∀ g' : FImg, sequence g' = d → getEof g' = d.length → sequenceLimited g' (getEof g') = d := by
      intro g' hs he
      rw [sequenceLimited_eq_take, hs, he, List.take_length]
    refine fin _ (seqOf _ rfl) (limEq _ (seqOf _ rfl) ?_)
    simp only [getEof, truncLe]
    rw [leBytes_take, leVal_leBytes]
    have h32 : (256 : Nat) ^ (min 8 4) = 2 ^ 32 := by decide
    rw [h32, Nat.mod_mod, Nat.mod_eq_of_lt hcap]
  | cpm =>
    simp only [packRaw, plainPackRaw] at h; cases h
    have h32 : (256 : Nat) ^ (min 8 (eofWidth .cpm)) = 2 ^ 32 := by decide
    exact fin _ (seqOf _ rfl) (limOf _ rfl rfl (by rw [hw, h32]; exact hcap))
  | fat =>
    simp only [packRaw, plainPackRaw] at h; cases h
    have h32 : (256 : Nat) ^ (min 8 (eofWidth .fat)) = 2 ^ 32 := by decide
    exact fin _ (seqOf _ rfl) (limOf _ rfl rfl (by rw [hw, h32]; exact hcap))

theorem raw_refusal (fs : Fs) (f : FImg) (d : Bytes) :
    packRaw allChecked fs f d ≠ .panic ∧
    (packRaw allChecked fs f d = .err ↔ (fs = .prodos ∧ 2 ^ 24 ≤ d.length)) := by
  cases fs with
  | prodos =>
    by_cases hl : 2 ^ 24 ≤ d.length
    · rw [prodosPackRaw_long f d hl]
      exact ⟨(fun h => by cases h), fun _ => ⟨rfl, hl⟩, fun _ => rfl⟩
    · rw [prodosPackRaw_short f d hl]
      exact ⟨(fun h => by cases h), (fun h => by cases h), fun h => absurd h.2 hl⟩
  | dos => simp [packRaw, dosPackRaw]
  | pascal => simp [packRaw, pascalPackRaw]
  | cpm => simp [packRaw, plainPackRaw]
  | fat => simp [packRaw, plainPackRaw]

example : packRaw allChecked .cpm (newFimg .cpm 128 []) [1,2,3] = .ok (desequence (newFimg .cpm 128 []) [1,2,3]) := rfl

/-! ## Part 2: sequential text -/

/-- the last character is a newline -/
def EndsNl (t : Bytes) : Prop := ∃ t', t = t' ++ [0x0a]

theorem seqOfChunks (f g : FImg) (x : Bytes) (hn : 0 < f.chunkLen) (hc : g.chunks = (desequence f x).chunks) :
    sequence g = x := by
  unfold sequence; rw [hc]; exact Packing.sequence_desequence f x hn

/-- **Clause: text (DOS 3.x).**  Every text made of printable-ASCII lines, each ending in a newline,
is packed (never refused) and unpacks to itself. -/
theorem dos_txt_roundtrip (f : FImg) (t : Bytes) (hn : 0 < f.chunkLen) (ht : TextOk t) (hnl : EndsNl t) :
    ∃ g, dosPackTxt f t = .ok g ∧ dosUnpackTxt g = .ok t := by
  obtain ⟨t', rfl⟩ := hnl
  have henc : dosFromUtf8 [0x8d] (t' ++ [0x0a]) = some ((t' ++ [0x0a]).map dosEnc) := by
    unfold dosFromUtf8
    rw [dosFromLoop_ok _ ht]
    simp only [Option.map_some, List.map_append, List.map_cons, List.map_nil]
    have : dosEnc 0x0a = 0x8d := by decide
    rw [this, terminate_snoc]
  refine ⟨{ desequence f ((t' ++ [0x0a]).map dosEnc ++ [0]) with fsType := [0] }, ?_, ?_⟩
  · unfold dosPackTxt; rw [henc]
  · unfold dosUnpackTxt
    have hs : sequence ({ desequence f ((t' ++ [0x0a]).map dosEnc ++ [0]) with fsType := [0] } : FImg)
        = (t' ++ [0x0a]).map dosEnc ++ [0] := seqOfChunks f _ _ hn rfl
    rw [hs, beforeFirst_append 0 _ [] (dosEnc_ne_zero _), dosToUtf8_enc _ ht]

example : ∃ g, dosPackTxt (newFimg .dos 4 []) (strBytes "10 HOME\n20 END\n") = .ok g ∧
    dosUnpackTxt g = .ok (strBytes "10 HOME\n20 END\n") := ⟨_, rfl, by decide⟩

/-- **Clause: text (ProDOS)** (texts below the 16 MiB file size limit) -/
theorem prodos_txt_roundtrip (v : EofLen) (f : FImg) (t : Bytes) (hn : 0 < f.chunkLen) (hw : f.eof.length = 3)
    (ht : TextOk t) (hnl : EndsNl t) (hlen : t.length < 2 ^ 24) :
    ∃ g, prodosPackTxt v f t = .ok g ∧ prodosUnpackTxt g = .ok t := by
  obtain ⟨t', rfl⟩ := hnl
  have henc : prodosFromUtf8 [0x0d] (t' ++ [0x0a]) = some ((t' ++ [0x0a]).map prodosEnc) := by
    unfold prodosFromUtf8
    rw [prodosFromLoop_ok _ ht]
    simp only [Option.map_some, List.map_append, List.map_cons, List.map_nil]
    have : prodosEnc 0x0a = 0x0d := by decide
    rw [this, terminate_snoc]
  have hl : ((t' ++ [0x0a]).map prodosEnc).length < 2 ^ 24 := by rw [List.length_map]; exact hlen
  have hnot : ¬ prodosTooLong v ((t' ++ [0x0a]).map prodosEnc).length := fun h => by have := h.2; omega
  refine ⟨{ desequence f ((t' ++ [0x0a]).map prodosEnc) with access := [prodosAccess], fsType := [4], aux := [0, 0] }, ?_, ?_⟩
  · unfold prodosPackTxt; rw [henc]; simp only []; rw [if_neg hnot]
  · unfold prodosUnpackTxt
    have hs := eof_unpack_general f
      ({ desequence f ((t' ++ [0x0a]).map prodosEnc) with access := [prodosAccess], fsType := [4], aux := [0, 0] } : FImg)
      ((t' ++ [0x0a]).map prodosEnc) hn rfl rfl
    have h24 : (256 : Nat) ^ (min 8 3) = 2 ^ 24 := by decide
    rw [hs, hw, h24, take_mod_of_lt _ _ hl, beforeFirst_none 0 _ (prodosEnc_ne_zero _ ht), prodosToUtf8_enc _ ht]

example : ∃ g, prodosPackTxt .checked (newFimg .prodos 512 []) (strBytes "HELLO\n  WORLD\n") = .ok g ∧
    prodosUnpackTxt g = .ok (strBytes "HELLO\n  WORLD\n") := ⟨_, rfl, by decide⟩

/-- **Clause: text (CP/M)**: CRLF line ends, 0x1A padding to a 128-byte record.  Holds for every
printable text, with or without a final newline. -/
theorem cpm_txt_roundtrip (f : FImg) (t : Bytes) (hn : 0 < f.chunkLen) (ht : TextOk t) :
    ∃ g, cpmPackTxt f t = .ok g ∧ cpmUnpackTxt g = .ok t ∧ (sequence g).length % 128 = 0 := by
  have henc : cpmFromUtf8 [] t = some (t.flatMap cpmEnc) := by
    unfold cpmFromUtf8; rw [cpmFromLoop_ok _ ht]; simp [terminate_nil]
  refine ⟨desequence f (cpmToBytes (t.flatMap cpmEnc)), ?_, ?_, ?_⟩
  · unfold cpmPackTxt; rw [henc]
  · unfold cpmUnpackTxt
    have hs : sequence (desequence f (cpmToBytes (t.flatMap cpmEnc))) = cpmToBytes (t.flatMap cpmEnc) :=
      seqOfChunks f _ _ hn rfl
    rw [hs]
    unfold cpmToBytes
    simp only [List.append_assoc, List.singleton_append]
    rw [beforeFirst_append 0x1a _ _ (cpmEnc_no_ctrlz _ ht), cpmToUtf8_enc _ ht]
  · have hs : sequence (desequence f (cpmToBytes (t.flatMap cpmEnc))) = cpmToBytes (t.flatMap cpmEnc) :=
      seqOfChunks f _ _ hn rfl
    rw [hs]
    unfold cpmToBytes
    simp only [List.length_append, List.length_replicate, List.length_cons, List.length_nil]
    omega

example : ∃ g, cpmPackTxt (newFimg .cpm 128 []) (strBytes "A\nB") = .ok g ∧
    cpmUnpackTxt g = .ok (strBytes "A\nB") ∧ (sequence g).length = 128 :=
  ⟨_, rfl, by decide +kernel, by decide +kernel⟩

/-- **Clause: text (FAT)**: CRLF line ends, one 0x1A terminator -/
theorem fat_txt_roundtrip (f : FImg) (t : Bytes) (hn : 0 < f.chunkLen) (ht : TextOk t) :
    ∃ g, fatPackTxt f t = .ok g ∧ cpmUnpackTxt g = .ok t := by
  have henc : cpmFromUtf8 [] t = some (t.flatMap cpmEnc) := by
    unfold cpmFromUtf8; rw [cpmFromLoop_ok _ ht]; simp [terminate_nil]
  refine ⟨desequence f (t.flatMap cpmEnc ++ [0x1a]), ?_, ?_⟩
  · unfold fatPackTxt; rw [henc]
  · unfold cpmUnpackTxt
    have hs : sequence (desequence f (t.flatMap cpmEnc ++ [0x1a])) = t.flatMap cpmEnc ++ [0x1a] :=
      seqOfChunks f _ _ hn rfl
    rw [hs, beforeFirst_append 0x1a _ [] (cpmEnc_no_ctrlz _ ht), cpmToUtf8_enc _ ht]

/-- **Clause: refusal (text)**: for the four byte-wise converters a text is refused exactly when it
contains a byte ≥ 128 (i.e. a non-ASCII character), whatever else it contains. -/
theorem simple_txt_refusal (t : Bytes) :
    (dosFromLoop t = none ↔ ∃ b ∈ t, 128 ≤ b) ∧
    (prodosFromLoop t = none ↔ ∃ b ∈ t, 128 ≤ b) ∧
    (cpmFromLoop t = none ↔ ∃ b ∈ t, 128 ≤ b) := by
  induction t with
  | nil => simp [dosFromLoop, prodosFromLoop, cpmFromLoop]
  | cons b r ih =>
    obtain ⟨i1, i2, i3⟩ := ih
    refine ⟨?_, ?_, ?_⟩
    · unfold dosFromLoop
      by_cases h1 : b = 0x0d ∧ r.head? = some 0x0a
      · rw [if_pos h1, i1]; simp; omega
      · rw [if_neg h1]
        by_cases h2 : b = 0x0a ∨ b = 0x0d
        · rw [if_pos h2]; simp [i1]; omega
        · rw [if_neg h2]
          by_cases h3 : b < 128
          · rw [if_pos h3]; simp [i1]; omega
          · rw [if_neg h3]; simp; omega
    · unfold prodosFromLoop
      by_cases h1 : b = 0x0d ∧ r.head? = some 0x0a
      · rw [if_pos h1, i2]; simp; omega
      · rw [if_neg h1]
        by_cases h2 : b = 0x0a ∨ b = 0x0d
        · rw [if_pos h2]; simp [i2]; omega
        · rw [if_neg h2]
          by_cases h3 : b < 128
          · rw [if_pos h3]; simp [i2]; omega
          · rw [if_neg h3]; simp; omega
    · unfold cpmFromLoop
      by_cases h1 : b = 0x0d ∧ r.head? = some 0x0a
      · rw [if_pos h1, i3]; simp; omega
      · rw [if_neg h1]
        by_cases h2 : b = 0x0a ∨ b = 0x0d
        · rw [if_pos h2]; simp [i3]; omega
        · rw [if_neg h2]
          by_cases h3 : b < 128
          · rw [if_pos h3]; simp [i3]; omega
          · rw [if_neg h3]; simp; omega

/-! ### Pascal text -/

/-- **Clause: text (Pascal), refusal side.**  Packing a text of printable lines never panics (the
only possible refusal is a line that does not fit a 1 KiB page: `paginate` finds no CR). -/
theorem pascal_txt_no_panic (f : FImg) (t : Bytes) (ht : TextOk t) (hnl : EndsNl t) :
    pascalPackTxt f t ≠ .panic := by
  obtain ⟨t', rfl⟩ := hnl
  have h := (pasFromUtf8_ok t' ht).1
  unfold pascalPackTxt
  cases he : pasFromUtf8 [0x0d] (t' ++ [0x0a]) with
  | panic => exact absurd he h
  | err => simp
  | ok text => simp

/-- **Clause: text (Pascal).**  For every text made of printable-ASCII lines each ending in a
newline — any line lengths, any indentation, any number of 1 KiB pages — if `pack_txt` succeeds then
`unpack_txt` returns exactly the text.  (Induction over the input with the invariant: the buffer is a
complete token sequence with all DLE counts ≥ 32 that decodes to the consumed input minus the pending
blanks, and `page·1024 + count_on_page ≤ |buffer|`; `paginate` only inserts NULs after a CR, which the
decoder skips; the eof rule only removes trailing NULs.)  `hsz` excludes files of 4 GiB and more. -/
theorem pascal_txt_roundtrip (f g : FImg) (t : Bytes) (hn : 0 < f.chunkLen) (ht : TextOk t) (hnl : EndsNl t)
    (hsz : ∀ text, pasFromUtf8 [0x0d] t = .ok text → (pasHeader ++ text).length < 2 ^ 32)
    (h : pascalPackTxt f t = .ok g) : pascalUnpackTxt g = .ok t := by
  obtain ⟨t', rfl⟩ := hnl
  unfold pascalPackTxt at h
  cases he : pasFromUtf8 [0x0d] (t' ++ [0x0a]) with
  | panic => rw [he] at h; cases h
  | err => rw [he] at h; cases h
  | ok text =>
    rw [he] at h
    simp only [Res.ok.injEq] at h
    have hcore := (pasFromUtf8_ok t' ht).2 text he
    have hlt := hsz text he
    obtain ⟨h1, h2⟩ := pascal_unpack_core text (t' ++ [0x0a]) (by simp) hcore.2.2
    have hseq : sequence g = pasHeader ++ text := by
      rw [← h]; exact seqOfChunks f _ _ hn rfl
    have heof : getEof g = (pasHeader ++ text).length - 512 * (trailingZeros (pasHeader ++ text) / 512) := by
      rw [← h]
      simp only [getEof, truncLe]
      rw [leBytes_take, leVal_leBytes]
      have h32 : (256 : Nat) ^ (min 8 4) = 2 ^ 32 := by decide
      rw [h32, Nat.mod_mod, Nat.mod_eq_of_lt (by omega)]
    unfold pascalUnpackTxt
    simp only [textPage]
    have h1' : ¬ (((pasHeader ++ text).take ((pasHeader ++ text).length - 512 * (trailingZeros (pasHeader ++ text) / 512))).length < 1024 + 1) := h1
    rw [sequenceLimited_eq_take, hseq, heof]
    simp only [h1', if_false, h2]

/-- an instance of the full round trip evaluated by the kernel (header page + one text page, indent
codes, a blank-only line); multi-page texts are exercised on the real code and the model by the harness -/
example :
    (pascalPackTxt (newFimg .pascal 512 []) (strBytes "BEGIN\n  X:=1;\n   \nEND.\n")).bind pascalUnpackTxt
      = .ok (strBytes "BEGIN\n  X:=1;\n   \nEND.\n") := by
  decide +kernel

/-- Pascal refuses non-ASCII text: instance -/
example : pascalPackTxt (newFimg .pascal 512 []) [0x41, 0xc3, 0xa9, 0x0a] = .err := by decide +kernel

/-! ## hex escapes -/

/-- **Clause: escape codec, positive ASCII** (`escaped_ascii_from_bytes(b,true,false)` /
`parse_escaped_ascii(s,false,false)`): with the literal backslash escaped, parsing the escaped form
returns every byte string. -/
theorem escape_roundtrip (b : Bytes) (hb : ∀ x ∈ b, x < 256) :
    parseEscaped false false (escapeBytes true true false b) = b := by
  unfold parseEscaped
  have key : ∀ (b : Bytes), (∀ x ∈ b, x < 256) → ∀ fuel, (escapeBytes true true false b).length ≤ fuel →
      parseEscapedLoop false false fuel (escapeBytes true true false b) = b := by
    intro b
    induction b with
    | nil => intro _ fuel _; cases fuel <;> rfl
    | cons x r ih =>
      intro hb fuel hf
      have hx : x < 256 := hb x (List.mem_cons_self ..)
      have hr : ∀ y ∈ r, y < 256 := fun y hy => hb y (List.mem_cons_of_mem _ hy)
      unfold escapeBytes at hf ⊢
      rw [List.flatMap_cons] at hf ⊢
      by_cases hp : 0x20 ≤ x ∧ x ≤ 0x7e ∧ x ≠ 0x5c
      · rw [escapeByte_plain x hp.1 hp.2.1 hp.2.2, List.length_append] at hf
        rw [escapeByte_plain x hp.1 hp.2.1 hp.2.2]
        cases fuel with
        | zero => simp at hf
        | succ fuel =>
          simp only [List.singleton_append]
          rw [parseEscaped_plain_step _ _ _ _ _ hp.2.2]
          have hlen : (List.flatMap (escapeByte true true false) r).length ≤ fuel := by
            simp only [List.length_cons, List.length_nil] at hf; omega
          have := ih hr fuel (by unfold escapeBytes; exact hlen)
          unfold escapeBytes at this
          rw [this]
          simp [plainChar]
      · rw [escapeByte_hex x hp, List.length_append] at hf
        rw [escapeByte_hex x hp]
        cases fuel with
        | zero => simp at hf
        | succ fuel =>
          simp only [List.cons_append, List.nil_append]
          rw [parseEscaped_hex_step _ _ _ _ _ hx]
          have hlen : (List.flatMap (escapeByte true true false) r).length ≤ fuel := by
            simp only [List.length_cons, List.length_nil] at hf; omega
          have := ih hr fuel (by unfold escapeBytes; exact hlen)
          unfold escapeBytes at this
          rw [this]
  exact key b hb _ (Nat.le_refl _)

example : parseEscaped false false (escapeBytes true true false [0x5c, 0x78, 0x34, 0x31, 0xff, 0x41]) =
    [0x5c, 0x78, 0x34, 0x31, 0xff, 0x41] := by decide

/-- **The code at HEAD violates it**: a literal `\x41` (four bytes) is escaped to itself and parses
back as the single byte `A`. -/
theorem escape_not_injective_at_head :
    escapeBytes false true false [0x5c, 0x78, 0x34, 0x31] = [0x5c, 0x78, 0x34, 0x31] ∧
    parseEscaped false false (escapeBytes false true false [0x5c, 0x78, 0x34, 0x31]) = [0x41] := by decide

/-! ## Part 3: JSON -/

def BytesOk (b : Bytes) : Prop := ∀ x ∈ b, x < 256

/-- everything that is rendered as hex really is a byte string -/
structure FImgBytesOk (f : FImg) : Prop where
  eof : BytesOk f.eof
  fsType : BytesOk f.fsType
  aux : BytesOk f.aux
  access : BytesOk f.access
  accessed : BytesOk f.accessed
  created : BytesOk f.created
  modified : BytesOk f.modified
  version : BytesOk f.version
  minVersion : BytesOk f.minVersion
  chunks : ∀ p ∈ f.chunks, BytesOk p.2

theorem get_version (f : FImg) : (fimgToJson f).get kFimgVersion = .str f.fimgVersion := rfl
theorem get_fs (f : FImg) : (fimgToJson f).get kFileSystem = .str f.fileSystem := rfl
theorem get_cl (f : FImg) : (fimgToJson f).get kChunkLen = .num f.chunkLen := rfl
theorem get_eof (f : FImg) : (fimgToJson f).get kEof = .str (hexEncUp f.eof) := rfl
theorem get_typ (f : FImg) : (fimgToJson f).get kFsType = .str (hexEncUp f.fsType) := rfl
theorem get_aux (f : FImg) : (fimgToJson f).get kAux = .str (hexEncUp f.aux) := rfl
theorem get_acc (f : FImg) : (fimgToJson f).get kAccess = .str (hexEncUp f.access) := rfl
theorem get_accd (f : FImg) : (fimgToJson f).get kAccessed = .str (hexEncUp f.accessed) := rfl
theorem get_cr (f : FImg) : (fimgToJson f).get kCreated = .str (hexEncUp f.created) := rfl
theorem get_md (f : FImg) : (fimgToJson f).get kModified = .str (hexEncUp f.modified) := rfl
theorem get_vs (f : FImg) : (fimgToJson f).get kVersion = .str (hexEncUp f.version) := rfl
theorem get_mv (f : FImg) : (fimgToJson f).get kMinVersion = .str (hexEncUp f.minVersion) := rfl
theorem get_path (f : FImg) : (fimgToJson f).get kFullPath = .str f.fullPath := rfl
theorem get_chunks (f : FImg) : (fimgToJson f).get kChunks =
    .obj (f.chunks.map (fun (p : Nat × Bytes) => (decStr p.1, J.str (hexEncUp p.2)))) := rfl

/-- **Clause: a file image written as JSON parses back to an equal value** — for ALL file images,
including sparse chunk maps: the version string must be a well-formed `X.Y.Z` of at least 2.0.0
(anything else makes `from_json` fail — or, before the C12 repair, panic), and an image that claims
format 2.0.x must not carry the two fields that format does not have (`accessed`, `full_path`).
For the current (`bounded`) reader the image must also respect the ranges it enforces:
`1 ≤ chunk_len ≤ 65536` and chunk indices `≤ 0xffffff`.
The `json` crate is the parameter: this is about the tree handed to / received from it. -/
theorem fimg_json_roundtrip (jc : JsonChk) (f : FImg) (vt : Nat × Nat × Nat)
    (hv : versionTuple f.fimgVersion = some vt) (h20 : verLt vt (2,0,0) = false)
    (hold : verLt vt (2,1,0) = true → f.accessed = [] ∧ f.fullPath = [])
    (hb : FImgBytesOk f) (hs : SortedKeys f.chunks)
    (hr : jc = .bounded → (1 ≤ f.chunkLen ∧ f.chunkLen ≤ maxChunkLen) ∧ ∀ p ∈ f.chunks, p.1 ≤ maxChunkIndex) :
    fimgFromJson jc (fimgToJson f) = .ok f := by
  have hcl : ¬ (jc = .bounded ∧ (f.chunkLen < 1 ∨ maxChunkLen < f.chunkLen)) := by
    rintro ⟨h1, h2⟩
    have := (hr h1).1
    omega
  unfold fimgFromJson
  simp only [get_version, get_fs, get_cl, get_path, get_chunks, J.asStr, J.asNum, hv, h20, parseHexField,
    get_eof, get_typ, get_aux, get_acc, get_accd, get_cr, get_md, get_vs, get_mv,
    hexDec_hexEncUp _ hb.eof, hexDec_hexEncUp _ hb.fsType, hexDec_hexEncUp _ hb.aux, hexDec_hexEncUp _ hb.access,
    hexDec_hexEncUp _ hb.accessed, hexDec_hexEncUp _ hb.created, hexDec_hexEncUp _ hb.modified,
    hexDec_hexEncUp _ hb.version, hexDec_hexEncUp _ hb.minVersion, J.entries, Bool.false_eq_true, if_false]
  rw [if_neg hcl]
  have hch := parseChunks_roundtrip jc f.chunks [] hs (fun _ _ a ha => by cases ha) hb.chunks (fun h => (hr h).2)
  rw [hch]
  cases hn : verLt vt (2,1,0) with
  | false => simp
  | true =>
    obtain ⟨h1, h2⟩ := hold hn
    simp only [Bool.not_true, Bool.false_eq_true, if_false, List.nil_append]
    cases f
    simp only at h1 h2
    subst h1; subst h2
    rfl

example : fimgFromJson .bounded (fimgToJson { newFimg .prodos 512 [65] with chunks := [(0,[1,2]),(9,[3]),(10,[]),(70000,[255])] })
    = .ok { newFimg .prodos 512 [65] with chunks := [(0,[1,2]),(9,[3]),(10,[]),(70000,[255])] } := by decide +kernel

/-- the two readers differ exactly where the input is malformed: a bad version string was a panic
and is now an error; an out-of-range chunk length or index is now refused -/
example : fimgFromJson .legacy (.obj [(kFimgVersion, .str [97,98,99])]) = .panic ∧
    fimgFromJson .bounded (.obj [(kFimgVersion, .str [97,98,99])]) = .err := by decide +kernel

/-- **Clause: a record set written as JSON parses back to an equal value** — for every record
length and every non-empty set of records (keys in ascending order, as the model renders a map)
whose texts are what `Records` holds after `from_json`/`from_fimg`: no CR, and a non-empty text ends
in a newline.  (`json` crate = parameter; an empty set is rejected by `from_json` by design.) -/
theorem recs_json_roundtrip (recLen : Nat) (rs : List (Nat × Bytes)) (hne : rs ≠ [])
    (hs : SortedKeys rs) (ht : ∀ p ∈ rs, RecTextOk p.2) :
    recsFromJson (recsToJson recLen rs) = .ok (recLen, rs) := by
  have g1 : (recsToJson recLen rs).get kFimgType = .str kRec := rfl
  have g2 : (recsToJson recLen rs).get kRecordLength = .num recLen := rfl
  have g3 : (recsToJson recLen rs).get kRecords =
      .obj (rs.map (fun (p : Nat × Bytes) => (decStr p.1, J.arr ((strLines p.2).map J.str)))) := rfl
  unfold recsFromJson
  simp only [g1, g2, g3, J.asStr, J.asNum, J.entries, if_true, List.length_map]
  have hl : ¬ rs.length = 0 := by
    intro h; exact hne (List.eq_nil_of_length_eq_zero h)
  rw [if_neg hl, parseRecs_roundtrip rs [] hs (fun _ _ a ha => by cases ha) ht]
  rfl

example : recsFromJson (recsToJson 128 [(0, strBytes "A\nB\n"), (9, []), (10, strBytes "\n")])
    = .ok (128, [(0, strBytes "A\nB\n"), (9, []), (10, strBytes "\n")]) := by decide +kernel

/-! ## Part 3: records -/

theorem dosToUtf8_decOk : DecOk dosToUtf8 :=
  ⟨fun a b => by simp [dosToUtf8], fun k => by simp [dosToUtf8]⟩

theorem prodosToUtf8_decOk : DecOk prodosToUtf8 :=
  ⟨fun a b => by simp [prodosToUtf8], fun k => by simp [prodosToUtf8]⟩

theorem textOk_no_nul (t : Bytes) (ht : TextOk t) : 0 ∉ t := by
  intro h
  rcases ht 0 h with h1 | ⟨h1, _⟩ <;> omega

/-- a record text: printable-ASCII lines each ending in a newline, at most `L` bytes -/
def RecOk (L : Nat) (p : Nat × Bytes) : Prop := TextOk p.2 ∧ EndsNl p.2 ∧ p.2.length ≤ L

theorem dos_goodRec (L : Nat) (p : Nat × Bytes) (h : RecOk L p) :
    ∃ d, GoodRec (dosFromUtf8 [0x8d]) L p d ∧ dosToUtf8 d = p.2 ∧ 0 ∉ p.2 ∧ p.2 ≠ [] := by
  obtain ⟨ht, ⟨t', ht'⟩, hl⟩ := h
  have henc : dosFromUtf8 [0x8d] p.2 = some (p.2.map dosEnc) := by
    rw [ht'] at ht ⊢
    unfold dosFromUtf8
    rw [dosFromLoop_ok _ ht]
    simp only [Option.map_some, List.map_append, List.map_cons, List.map_nil]
    have : dosEnc 0x0a = 0x8d := by decide
    rw [this, terminate_snoc]
  have hne : p.2 ≠ [] := by rw [ht']; simp
  exact ⟨p.2.map dosEnc, ⟨henc, by simpa using hne, by simpa using hl⟩, dosToUtf8_enc _ ht, textOk_no_nul _ ht, hne⟩

theorem prodos_goodRec (L : Nat) (p : Nat × Bytes) (h : RecOk L p) :
    ∃ d, GoodRec (prodosFromUtf8 [0x0d]) L p d ∧ prodosToUtf8 d = p.2 ∧ 0 ∉ p.2 ∧ p.2 ≠ [] := by
  obtain ⟨ht, ⟨t', ht'⟩, hl⟩ := h
  have henc : prodosFromUtf8 [0x0d] p.2 = some (p.2.map prodosEnc) := by
    rw [ht'] at ht ⊢
    unfold prodosFromUtf8
    rw [prodosFromLoop_ok _ ht]
    simp only [Option.map_some, List.map_append, List.map_cons, List.map_nil]
    have : prodosEnc 0x0a = 0x0d := by decide
    rw [this, terminate_snoc]
  have hne : p.2 ≠ [] := by rw [ht']; simp
  exact ⟨p.2.map prodosEnc, ⟨henc, by simpa using hne, by simpa using hl⟩, prodosToUtf8_enc _ ht, textOk_no_nul _ ht, hne⟩

/-- **Clause: every stored record of a random-access text file (DOS 3.x).**  For every record
length, chunk length and set of records with distinct numbers, each a text of printable lines ending in
a newline that fits the record length (so records do not overlap): if `pack_rec` succeeds, the repaired
`unpack_rec` returns a map that contains every stored record, unchanged — wherever the record falls
relative to chunk boundaries, and whichever chunks stay unallocated. -/
theorem dos_records_roundtrip (f g : FImg) (L : Nat) (recs : List (Nat × Bytes)) (hL : 0 < L ∧ L < 32768)
    (hnd : (recs.map Prod.fst).Nodup) (hrec : ∀ p ∈ recs, RecOk L p)
    (h : packRec .dos f L recs = .ok g) :
    ∃ m, unpackRec .zeroFill .dos g (some L) = .ok m ∧ ∀ p ∈ recs, p ∈ m := by
  have := records_found (dosFromUtf8 [0x8d]) dosToUtf8 dosToUtf8_decOk L recs _ g false hnd
    (fun p hp => dos_goodRec L p (hrec p hp)) h
  simpa only [unpackRec, hL, and_self, if_true] using this

/-- **The same for ProDOS** (first chunk always allocated, record length kept in `aux`). -/
theorem prodos_records_roundtrip (f g : FImg) (L : Nat) (recs : List (Nat × Bytes)) (hL : 0 < L ∧ L < 32768)
    (hnd : (recs.map Prod.fst).Nodup) (hrec : ∀ p ∈ recs, RecOk L p)
    (h : packRec .prodos f L recs = .ok g) :
    ∃ m, unpackRec .zeroFill .prodos g (some L) = .ok m ∧ ∀ p ∈ recs, p ∈ m := by
  unfold packRec at h
  simp only [] at h
  rw [if_neg (by omega)] at h
  have := records_found (prodosFromUtf8 [0x0d]) prodosToUtf8 prodosToUtf8_decOk L recs _ g true hnd
    (fun p hp => prodos_goodRec L p (hrec p hp)) h
  simpa only [unpackRec, hL, and_self, if_true] using this

/-- **The code at HEAD violates the records clause.**  DOS 3.3 (256-byte chunks), record length 128,
one record number 1 holding `A`: `pack_rec` stores it in chunk 0, but `unpack_rec` also demands
chunk 1 (`end_chunk = 1 + (r+1)·L/chunk`) and returns no record at all.  With holes read as zeros
(the proposed repair) the record is returned. -/
theorem records_lost_at_head :
    (packRec .dos (newFimg .dos 256 []) 128 [(1, [0x41, 0x0a])]).bind (fun g => unpackRec .strict .dos g (some 128)) = .ok [] ∧
    (packRec .dos (newFimg .dos 256 []) 128 [(1, [0x41, 0x0a])]).bind (fun g => unpackRec .zeroFill .dos g (some 128))
      = .ok [(1, [0x41, 0x0a])] := by
  decide +kernel

/-- a record that straddles a chunk boundary, next to a neighbour, is returned by the repaired reader -/
theorem records_straddle_instance :
    (packRec .prodos (newFimg .prodos 512 []) 300 [(1, List.replicate 249 0x41 ++ [0x0a]), (2, strBytes "NEXT\n")]).bind
      (fun g => unpackRec .zeroFill .prodos g none) = .ok [(1, List.replicate 249 0x41 ++ [0x0a]), (2, strBytes "NEXT\n")] := by
  decide +kernel

/-! ## Part 4: a file image can be re-used — packing forgets the previous contents

`FileImage::desequence` starts by throwing the old chunk map away.  The laws below state that, for
every packer and every kind, packing `B` into an image that already holds a packed `A` gives exactly
the image that packing `B` into the original (empty) image gives — chunks, eof and metadata — so
every round-trip theorem above also holds for a re-used `FileImage` object.  (For token files the
language must be the same: ProDOS keeps the Applesoft load address in `aux`, which an Integer BASIC
pack does not reset.) -/

/-- **`desequence` is independent of the previous chunk map and eof value** -/
theorem desequence_forgets (f : FImg) (y x : Bytes) : desequence (desequence f y) x = desequence f x :=
  desequence_desequence f y x

example : desequence (desequence (newFimg .dos 2 []) [1,2,3,4,5]) [] = desequence (newFimg .dos 2 []) [] := by decide
example : (desequence (desequence (newFimg .prodos 2 []) [1,2,3,4,5]) [9]).chunks = [(0, [9])] := by decide

/-- re-packing raw bytes -/
theorem repack_raw (v : Variant) (fs : Fs) (f g : FImg) (x y : Bytes) (hw : f.eof.length = eofWidth fs)
    (h : packRaw v fs f y = .ok g) : packRaw v fs g x = packRaw v fs f x := by
  cases fs
  · simp only [packRaw, dosPackRaw, Res.ok.injEq] at h ⊢
    subst h
    have key := repack_shape f y x [0] (desequence f y).aux (desequence f y).access (desequence f y).eof (desequence_eof_length f y)
    simp only [desequence_aux, desequence_access] at key ⊢
    rw [key]
  · simp only [packRaw, prodosPackRaw] at h ⊢
    by_cases hy : prodosTooLong v.prodosEof y.length
    · rw [if_pos hy] at h; cases h
    · rw [if_neg hy] at h
      simp only [Res.ok.injEq] at h
      subst h
      have key := repack_shape f y x [4] [0, 0] [prodosAccess] (desequence f y).eof (desequence_eof_length f y)
      rw [key]
  · simp only [packRaw, pascalPackRaw, Res.ok.injEq] at h ⊢
    subst h
    have key := repack_shape f y x [3,0] (desequence f y).aux (desequence f y).access (leBytes 4 (y.length % 2 ^ 32))
      (by rw [leBytes_length, hw]; rfl)
    simp only [desequence_aux, desequence_access] at key ⊢
    rw [key]
  · simp only [packRaw, plainPackRaw, Res.ok.injEq] at h ⊢
    subst h
    rw [desequence_desequence]
  · simp only [packRaw, plainPackRaw, Res.ok.injEq] at h ⊢
    subst h
    rw [desequence_desequence]

/-- re-packing binary data (any addresses, any junk tails) -/
theorem repack_bin (v : Variant) (fs : Fs) (f g : FImg) (d t d' t' : Bytes) (a a' : Option Nat)
    (h : packBin v fs f d a t = .ok g) : packBin v fs g d' a' t' = packBin v fs f d' a' t' := by
  cases fs
  · simp only [packBin] at h ⊢
    have hX : ∀ X, ({ desequence g X with fsType := [4] } : FImg) = { desequence f X with fsType := [4] } := by
      intro X
      unfold dosPackBin at h
      cases a with
      | none => cases h
      | some a0 =>
        simp only [] at h
        split at h
        · cases h
        · split at h
          · cases h
          · simp only [Res.ok.injEq] at h
            subst h
            have key := repack_shape f (u16le a0 ++ u16le d.length ++ d ++ t) X [4] (desequence f (u16le a0 ++ u16le d.length ++ d ++ t)).aux
              (desequence f (u16le a0 ++ u16le d.length ++ d ++ t)).access (desequence f (u16le a0 ++ u16le d.length ++ d ++ t)).eof (desequence_eof_length f _)
            simp only [desequence_aux, desequence_access] at key ⊢
            rw [key]
    unfold dosPackBin
    simp only [hX]
  · simp only [packBin] at h ⊢
    have hX : ∀ X (b : Bytes), ({ desequence g X with fsType := [6], access := [prodosAccess], aux := b } : FImg)
        = { desequence f X with fsType := [6], access := [prodosAccess], aux := b } := by
      intro X b
      unfold prodosPackBin at h
      split at h
      · cases h
      · cases a with
        | none => cases h
        | some a0 =>
          simp only [] at h
          split at h
          · cases h
          · simp only [Res.ok.injEq] at h
            subst h
            have key := repack_shape f (d ++ t) X [6] (u16le a0) [prodosAccess] (desequence f (d ++ t)).eof (desequence_eof_length f _)
            rw [key]
    unfold prodosPackBin
    simp only [hX]
  · simp only [packBin, pascalPackBin, Res.ok.injEq] at h ⊢
    subst h
    have key := repack_shape f (d ++ t) (d' ++ t') [5,0] (desequence f (d ++ t)).aux (desequence f (d ++ t)).access
      (desequence f (d ++ t)).eof (desequence_eof_length f _)
    simp only [desequence_aux, desequence_access] at key ⊢
    rw [key]
  · simp only [packBin, plainPackBin, Res.ok.injEq] at h ⊢
    subst h
    rw [desequence_desequence]
  · simp only [packBin, plainPackBin, Res.ok.injEq] at h ⊢
    subst h
    rw [desequence_desequence]

/-- re-packing token streams of the same language -/
theorem repack_tok (v : Variant) (fs : Fs) (f g : FImg) (d t d' t' : Bytes) (l : Lang)
    (h : packTok v fs f d l t = .ok g) : packTok v fs g d' l t' = packTok v fs f d' l t' := by
  cases fs
  · simp only [packTok] at h ⊢
    have hX : ∀ X (ty : Bytes), ({ desequence g X with fsType := ty } : FImg) = { desequence f X with fsType := ty } := by
      intro X ty
      unfold dosPackTok at h
      split at h
      · cases h
      · cases l with
        | other => cases h
        | applesoft =>
          simp only [Res.ok.injEq] at h
          subst h
          have key := repack_shape f (u16le d.length ++ (d ++ t)) X [2] (desequence f (u16le d.length ++ (d ++ t))).aux
            (desequence f (u16le d.length ++ (d ++ t))).access (desequence f (u16le d.length ++ (d ++ t))).eof (desequence_eof_length f _)
          simp only [desequence_aux, desequence_access] at key ⊢
          rw [key]
        | integer =>
          simp only [Res.ok.injEq] at h
          subst h
          have key := repack_shape f (u16le d.length ++ (d ++ t)) X [1] (desequence f (u16le d.length ++ (d ++ t))).aux
            (desequence f (u16le d.length ++ (d ++ t))).access (desequence f (u16le d.length ++ (d ++ t))).eof (desequence_eof_length f _)
          simp only [desequence_aux, desequence_access] at key ⊢
          rw [key]
    unfold dosPackTok
    simp only [hX]
  · simp only [packTok] at h ⊢
    unfold prodosPackTok at h ⊢
    split at h
    · cases h
    · rename_i hlen
      cases l with
      | other => cases h
      | integer =>
        simp only [Res.ok.injEq] at h
        subst h
        have key := repack_shape f (d ++ t) (d' ++ t') [0xfa] [0, 0] [prodosAccess]
          (desequence f (d ++ t)).eof (desequence_eof_length f _)
        rw [key]
      | applesoft =>
        simp only [] at h ⊢
        cases hd : deduce v.deduce d with
        | none => rw [hd] at h; cases h
        | some a0 =>
          rw [hd] at h
          simp only [Res.ok.injEq] at h
          subst h
          have key := repack_shape f (d ++ t) (d' ++ t') [0xfc] (u16le a0) [prodosAccess]
            (desequence f (d ++ t)).eof (desequence_eof_length f _)
          rw [key]
  · simp only [packTok] at h; cases h
  · simp only [packTok] at h; cases h
  · simp only [packTok] at h; cases h

/-- re-packing text -/
theorem repack_txt (v : Variant) (fs : Fs) (f g : FImg) (t t' : Bytes) (hw : f.eof.length = eofWidth fs)
    (h : packTxt v fs f t = .ok g) : packTxt v fs g t' = packTxt v fs f t' := by
  cases fs
  · simp only [packTxt] at h ⊢
    have hX : ∀ X, ({ desequence g X with fsType := [0] } : FImg) = { desequence f X with fsType := [0] } := by
      intro X
      unfold dosPackTxt at h
      cases hd : dosFromUtf8 [0x8d] t with
      | none => rw [hd] at h; cases h
      | some dat =>
        rw [hd] at h
        simp only [Res.ok.injEq] at h
        subst h
        have key := repack_shape f (dat ++ [0]) X [0] (desequence f (dat ++ [0])).aux (desequence f (dat ++ [0])).access
          (desequence f (dat ++ [0])).eof (desequence_eof_length f _)
        simp only [desequence_aux, desequence_access] at key ⊢
        rw [key]
    unfold dosPackTxt
    simp only [hX]
  · simp only [packTxt] at h ⊢
    have hX : ∀ X, ({ desequence g X with access := [prodosAccess], fsType := [4], aux := [0, 0] } : FImg)
        = { desequence f X with access := [prodosAccess], fsType := [4], aux := [0, 0] } := by
      intro X
      unfold prodosPackTxt at h
      cases hd : prodosFromUtf8 [0x0d] t with
      | none => rw [hd] at h; cases h
      | some dat =>
        rw [hd] at h
        simp only [] at h
        split at h
        · cases h
        · simp only [Res.ok.injEq] at h
          subst h
          have key := repack_shape f dat X [4] [0, 0] [prodosAccess] (desequence f dat).eof (desequence_eof_length f _)
          rw [key]
    unfold prodosPackTxt
    simp only [hX]
  · simp only [packTxt] at h ⊢
    have hX : ∀ X (e : Bytes), ({ desequence g X with fsType := [3, 0], eof := e } : FImg)
        = { desequence f X with fsType := [3, 0], eof := e } := by
      intro X e
      unfold pascalPackTxt at h
      cases hd : pasFromUtf8 [0x0d] t with
      | panic => rw [hd] at h; cases h
      | err => rw [hd] at h; cases h
      | ok text =>
        rw [hd] at h
        simp only [Res.ok.injEq] at h
        subst h
        have key := repack_shape f (pasHeader ++ text) X [3, 0] (desequence f (pasHeader ++ text)).aux (desequence f (pasHeader ++ text)).access
          (leBytes 4 (((pasHeader ++ text).length - 512 * (trailingZeros (pasHeader ++ text) / 512)) % 2 ^ 32))
          (by rw [leBytes_length, hw]; rfl)
        simp only [desequence_aux, desequence_access] at key ⊢
        rw [key]
    unfold pascalPackTxt
    simp only [hX]
  · simp only [packTxt] at h ⊢
    unfold cpmPackTxt at h ⊢
    cases hd : cpmFromUtf8 [] t with
    | none => rw [hd] at h; cases h
    | some dat =>
      rw [hd] at h
      simp only [Res.ok.injEq] at h
      subst h
      simp only [desequence_desequence]
  · simp only [packTxt] at h ⊢
    unfold fatPackTxt at h ⊢
    cases hd : cpmFromUtf8 [] t with
    | none => rw [hd] at h; cases h
    | some dat =>
      rw [hd] at h
      simp only [Res.ok.injEq] at h
      subst h
      simp only [desequence_desequence]

theorem updateFimg_clear_indep (L : Nat) (recs : List (Nat × Bytes)) (f : FImg) (cs : List (Nat × Bytes)) (e : Bytes)
    (he : e.length = f.eof.length) (rf : Bool) (conv : Bytes → Option Bytes) :
    updateFimg L recs { f with chunks := cs, eof := e } rf conv true = updateFimg L recs f rf conv true := by
  unfold updateFimg
  simp only [he, if_true]

/-- re-packing random-access records (`update_fimg` is called with `clear = true`) -/
theorem repack_rec (fs : Fs) (f g : FImg) (L L' : Nat) (recs recs' : List (Nat × Bytes))
    (h : packRec fs f L recs = .ok g) : packRec fs g L' recs' = packRec fs f L' recs' := by
  cases fs
  · simp only [packRec] at h ⊢
    unfold updateFimg at h
    split at h
    · cases h
    · split at h
      · cases h
      · simp only [if_true] at h
        split at h
        · cases h
        · rename_i cs eof _
          simp only [Res.ok.injEq] at h
          subst h
          exact updateFimg_clear_indep L' recs' { f with fsType := [0] } cs _ (by simp [fixLe, leBytes_length]) false _
  · simp only [packRec] at h ⊢
    split at h
    · cases h
    · unfold updateFimg at h
      split at h
      · cases h
      · split at h
        · cases h
        · simp only [if_true] at h
          split at h
          · cases h
          · rename_i cs eof _
            simp only [Res.ok.injEq] at h
            subst h
            split
            · rfl
            · exact updateFimg_clear_indep L' recs' { f with fsType := [4], aux := u16le L', access := [prodosAccess] } cs _
                (by simp [fixLe, leBytes_length]) true _
  · simp only [packRec] at h; cases h
  · simp only [packRec] at h; cases h
  · simp only [packRec] at h; cases h

end A2Verif.C13
