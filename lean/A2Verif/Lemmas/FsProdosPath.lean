import A2Verif.Lemmas.FsProdosWalk
/-!
# Paths into the volume directory

`RootCtx`: what the walks need to know about the disk object.  For a path whose normal form is `[volume, name]`:
`search_volume` is `find?` on the slots of the volume directory (`searchVolume_root`), `split_path` yields the volume
and the name, `find_dir_key_block` of the parent is block 2.  A simple relative name (no `/`) has that normal form.
-/
namespace A2Verif.FsProdos
open A2Verif.Fs.Prodos
open A2Verif.Read.Prodos (entryAt dirChain trimName)
open A2Verif.Read.ProdosT

/-- what the walks on the volume directory need: buffer state, the chain, its kinds and back links -/
structure RootCtx (d : Disk) (bm cnt : Nat) (ch : List Nat) : Prop where
  st : St d bm cnt
  chain : IsChain d.raw 2 ch
  nb : ∀ x ∈ ch, x ∉ bmRange bm cnt
  kinds : KindsOk d.raw 2 ch
  len : ch.length ≤ 100
  prev : PrevOk d.raw 0 ch

/-- the volume header as the model reads it -/
def hdrOf (r : Raw) : Bytes := slice (unitAt r 2) 4 entryLen

theorem RootCtx.two_lt {d : Disk} {bm cnt : Nat} {ch : List Nat} (c : RootCtx d bm cnt ch) : 2 < d.raw.units.size := by
  obtain ⟨kb, hkb, _⟩ := c.st.hdr
  rcases Nat.lt_or_ge 2 d.raw.units.size with hh | hh
  · exact hh
  · rw [Array.getElem?_eq_none hh] at hkb; cases hkb

theorem RootCtx.two_nb {d : Disk} {bm cnt : Nat} {ch : List Nat} (c : RootCtx d bm cnt ch) : 2 ∉ bmRange bm cnt := by
  rw [mem_bmRange]; have := c.st.bm3; omega

theorem getVolHeader_root {d : Disk} {bm cnt : Nat} {ch : List Nat} (c : RootCtx d bm cnt ch) :
    getVolHeader d = (.ok (hdrOf d.raw), d) := by
  unfold getVolHeader
  simp only [bind_def]
  rw [bind_ok _ _ d d _ (readBlock_st c.st volKeyBlock (unitAt d.raw 2) c.two_nb (units_get_unitAt _ _ c.two_lt))]
  rfl

/-- the result of `search_entries` / the last level of `search_volume` in the volume directory -/
def rootSearch (types : List Nat) (nm : Bytes) (slots : List (Bytes × Nat × Nat)) : R Loc :=
  if !isNameValid nm then .error .syntax
  else match slots.find? (isHit types nm) with
    | some x => .ok (slotLoc x)
    | none => .error .pathNotFound

theorem chain_head {r : Raw} {ch : List Nat} (h : IsChain r 2 ch) : ∃ rest, ch = 2 :: rest := by
  cases h with
  | cons _ _ _ => exact ⟨_, rfl⟩

theorem searchEntries_root {d : Disk} {bm cnt : Nat} {ch : List Nat} (c : RootCtx d bm cnt ch) (types : List Nat) (nm : Bytes) :
    searchEntries types nm 2 d =
      (if !isNameValid nm then .error .syntax else .ok (((dirSlots d.raw 2 ch).find? (isHit types nm)).map slotLoc), d) := by
  unfold searchEntries
  by_cases hv : isNameValid nm = true
  · simp only [hv, Bool.not_true, Bool.false_eq_true, ↓reduceIte]
    exact searchLoop_chain d bm cnt c.st types nm 2 ch 100 2 c.chain (by omega) c.nb c.kinds c.len
  · have hv' : isNameValid nm = false := by simpa using hv
    simp [hv', M.fail]

/-- **`search_volume` for a path whose normal form is `[volume, name]`** -/
theorem searchVolume_root {d : Disk} {bm cnt : Nat} {ch : List Nat} (c : RootCtx d bm cnt ch) (types : List Nat) (path nm : Bytes)
    (hnodes : normalizePath (volName (hdrOf d.raw)) path = .ok [volName (hdrOf d.raw), nm]) (hnm : nm ≠ []) :
    searchVolume types path d = (rootSearch types nm (dirSlots d.raw 2 ch), d) := by
  unfold searchVolume
  simp only [bind_def]
  rw [bind_ok _ _ d d _ (getVolHeader_root c)]
  have hlift : M.lift (normalizePath (volName (hdrOf d.raw)) path) d = (.ok [volName (hdrOf d.raw), nm], d) := by
    unfold M.lift; rw [hnodes]
  rw [bind_ok _ _ d d _ hlift]
  have h0 : [volName (hdrOf d.raw), nm].getD 0 [] = volName (hdrOf d.raw) := rfl
  have h1 : [volName (hdrOf d.raw), nm].getD (2 - 1) [] = nm := rfl
  simp only [h0, ne_eq, not_true_eq_false, ↓reduceIte, List.length_cons, List.length_nil, Nat.zero_add, Nat.reduceAdd, h1, hnm, and_false]
  have hr : rng 1 2 = [1] := rfl
  rw [hr]
  unfold walkLoop
  simp only [bind_def]
  have hs : [volName (hdrOf d.raw), nm].getD 1 [] = nm := rfl
  rw [hs]
  simp only [Nat.add_one_sub_one, ↓reduceIte]
  unfold M.bind
  rw [searchEntries_root c types nm]
  unfold rootSearch
  by_cases hv : isNameValid nm = true
  · simp only [hv, Bool.not_true, Bool.false_eq_true, ↓reduceIte]
    cases (dirSlots d.raw 2 ch).find? (isHit types nm) with
    | some x => simp [pure_def, M.pure]
    | none => simp [M.fail]
  · have hv' : isNameValid nm = false := by simpa using hv
    simp [hv']

theorem findFile_root' {d : Disk} {bm cnt : Nat} {ch : List Nat} (c : RootCtx d bm cnt ch) (path nm : Bytes)
    (hnodes : normalizePath (volName (hdrOf d.raw)) path = .ok [volName (hdrOf d.raw), nm]) (hnm : nm ≠ []) :
    findFile path d = (rootSearch fileTypes nm (dirSlots d.raw 2 ch), d) :=
  searchVolume_root c fileTypes path nm hnodes hnm

/-- `split_path` of such a path: the parent is the volume, the name the last node -/
theorem splitPath_root (vol path nm : Bytes) (hnodes : normalizePath vol path = .ok [vol, nm]) (hnm : nm ≠ []) :
    splitPath vol path = .ok (47 :: vol, nm) := by
  unfold splitPath
  rw [hnodes]
  have hl : ([vol, nm].getLastD []).length ≠ 0 := by
    show nm.length ≠ 0
    intro h; exact hnm (List.eq_nil_of_length_eq_zero h)
  simp only [hl, ↓reduceIte]
  simp

theorem lowerByte_47 : lowerByte 47 = 47 := by decide

/-- `find_dir_key_block` of the volume itself -/
theorem findDirKeyBlock_vol {d : Disk} {bm cnt : Nat} {ch : List Nat} (c : RootCtx d bm cnt ch) :
    findDirKeyBlock (47 :: volName (hdrOf d.raw)) d = (.ok volKeyBlock, d) := by
  unfold findDirKeyBlock
  simp only [bind_def]
  rw [bind_ok _ _ d d _ (getVolHeader_root c)]
  have : lower (47 :: volName (hdrOf d.raw)) = 47 :: lower (volName (hdrOf d.raw)) := by
    unfold lower; rw [List.map_cons, lowerByte_47]
  simp only [this, true_or, or_true, ↓reduceIte, pure_def, M.pure]

/-- the path does not name the volume directory itself (the first test of `find_dir_key_block`) -/
def NotVol (vol path : Bytes) : Prop :=
  ¬ (path = [47] ∨ path = [] ∨ lower path = 47 :: lower vol ∨ lower path = 47 :: lower vol ++ [47])

/-- `find_dir_key_block` of a path into the volume directory: the key pointer of the sub-directory entry of that name,
`PATH NOT FOUND` if there is none -/
theorem findDirKeyBlock_root {d : Disk} {bm cnt : Nat} {ch : List Nat} (c : RootCtx d bm cnt ch) (path nm : Bytes)
    (hnodes : normalizePath (volName (hdrOf d.raw)) path = .ok [volName (hdrOf d.raw), nm]) (hnm : nm ≠ [])
    (hnv : NotVol (volName (hdrOf d.raw)) path)
    (hnone : (dirSlots d.raw 2 ch).find? (isHit [stSubDirEntry] nm) = none) :
    findDirKeyBlock path d = (.error .pathNotFound, d) := by
  unfold findDirKeyBlock
  simp only [bind_def]
  rw [bind_ok _ _ d d _ (getVolHeader_root c)]
  unfold NotVol at hnv
  simp only [hnv, ↓reduceIte]
  have hs := searchVolume_root c [stSubDirEntry] path nm hnodes hnm
  have hres : ∃ e, rootSearch [stSubDirEntry] nm (dirSlots d.raw 2 ch) = .error e ∧ e ≠ .panic := by
    unfold rootSearch
    by_cases hv : isNameValid nm = true
    · simp only [hv, Bool.not_true, Bool.false_eq_true, ↓reduceIte, hnone]
      exact ⟨_, rfl, by decide⟩
    · have hv' : isNameValid nm = false := by simpa using hv
      simp only [hv', Bool.not_false, ↓reduceIte]
      exact ⟨_, rfl, by decide⟩
  obtain ⟨e, he, hep⟩ := hres
  rw [he] at hs
  have hatt : M.attempt (searchVolume [stSubDirEntry] path) d = (.ok none, d) := by
    unfold M.attempt; rw [hs]
    cases e <;> first | rfl | exact absurd rfl hep
  rw [bind_ok _ _ d d _ hatt]
  rfl

/-! ## simple relative names -/

theorem splitSlash_noslash : ∀ (s : Bytes), 47 ∉ s → splitSlash s = [s]
  | [], _ => rfl
  | c :: cs, h => by
    have hc : c ≠ 47 := fun e => h (e ▸ List.mem_cons_self)
    have ih := splitSlash_noslash cs (fun hm => h (List.mem_cons_of_mem _ hm))
    unfold splitSlash
    rw [ih]
    simp [hc]

/-- **a simple relative name** (no `/`, at most 15 characters, volume name at most 15 characters) has the normal form
`[volume, NAME]` -/
theorem normalizePath_simple (vol name : Bytes) (hne : name ≠ []) (hns : 47 ∉ name) (hl : name.length ≤ 15) (hv : vol.length ≤ 15) :
    normalizePath vol name = .ok [vol, upper name] := by
  cases name with
  | nil => exact absurd rfl hne
  | cons c cs =>
    have hc : c ≠ 47 := fun e => hns (e ▸ List.mem_cons_self)
    unfold normalizePath
    simp only [splitSlash_noslash (c :: cs) hns, List.map_cons, List.map_nil, ne_eq, hc, not_false_eq_true, ↓reduceIte]
    have hul : (upper (c :: cs)).length = (c :: cs).length := by unfold upper; simp
    unfold pathLens pathLens pathLens
    simp only [Nat.lt_irrefl, ↓reduceIte, gt_iff_lt, Nat.zero_add]
    have h1 : ¬ (64 < 1 + vol.length) := by omega
    simp only [h1, ↓reduceIte]
    have h2 : ¬ (64 < 1 + vol.length + 1 + (upper (c :: cs)).length) := by rw [hul]; simp at hl ⊢; omega
    simp only [h2, ↓reduceIte, Nat.lt_irrefl]
    rw [if_neg (by omega)]

theorem notVol_simple (vol name : Bytes) (hne : name ≠ []) (hns : 47 ∉ name) : NotVol vol name := by
  cases name with
  | nil => exact absurd rfl hne
  | cons c cs =>
    have hc : c ≠ 47 := fun e => hns (e ▸ List.mem_cons_self)
    have hlc : lowerByte c ≠ 47 := by
      unfold lowerByte; split <;> omega
    unfold NotVol
    intro h
    rcases h with h | h | h | h
    · exact hc (List.cons.inj h).1
    · cases h
    · unfold lower at h; rw [List.map_cons] at h; exact hlc (List.cons.inj h).1
    · unfold lower at h; rw [List.map_cons, List.cons_append] at h; exact hlc (List.cons.inj h).1

end A2Verif.FsProdos
