import A2Verif.Lemmas.PackPascal
/-! Pascal text: the encoder (`pasStep`/`paginate`/`pasLoop`) keeps the decoder invariant. -/
namespace A2Verif.Packing

/-- `ans` is a complete token sequence (decoder not awaiting a count, all counts ≥ 32) that decodes to `o` -/
def Core (ans o : Bytes) : Prop :=
  wellCounted false ans ∧ pst false ans = false ∧ pasToLoop false ans = some o

theorem Core.append {a o x y : Bytes} (h1 : Core a o) (h2 : Core x y) : Core (a ++ x) (o ++ y) := by
  obtain ⟨w1, s1, d1⟩ := h1
  obtain ⟨w2, s2, d2⟩ := h2
  refine ⟨?_, ?_, ?_⟩
  · rw [wellCounted_append, s1]; exact ⟨w1, w2⟩
  · rw [pst_append, s1]; exact s2
  · rw [pasToLoop_append a x false o d1, s1, d2]; rfl

theorem core_nil : Core [] [] := ⟨trivial, rfl, rfl⟩

theorem core_zeros (n : Nat) : Core (List.replicate n 0) [] := by
  refine ⟨?_, ?_, ?_⟩
  · have := (wellCounted_zeros n []).mpr trivial; simpa using this
  · have := pst_zeros n []; simpa [pst] using this
  · have := pasToLoop_zeros n []; simpa [pasToLoop] using this

theorem core_cr : Core [0x0d] [0x0a] := by
  refine ⟨?_, ?_, ?_⟩ <;> simp [wellCounted, pst, nextSt, pasToLoop]

theorem core_lit (b : Nat) (h : Printable b) : Core [b] [b] := by
  obtain ⟨h1, h2⟩ := h
  have n1 : b ≠ 0x10 := by omega
  have n2 : b ≠ 0x0d := by omega
  have n3 : b < 127 ∧ b > 0 := by omega
  refine ⟨?_, ?_, ?_⟩
  · simp [wellCounted]
  · simp [pst, nextSt, n1]
  · simp [pasToLoop, n1, n2, n3]

theorem core_ind (k : Nat) : Core [0x10, 0x20 + k] (List.replicate k 0x20) := by
  refine ⟨?_, ?_, ?_⟩
  · simp [wellCounted]
  · simp [pst, nextSt]
  · have : ¬ (32 + k < 32) := by omega
    simp [pasToLoop, this]

/-- what one input character contributes: a literal or a CR -/
def tok (b : Nat) : Bytes := if isEol b then [0x0d] else [b]

theorem core_tok (b : Nat) (h : b = 0x0a ∨ Printable b) : Core (tok b) [b] := by
  rcases h with h | h
  · subst h; exact core_cr
  · have : isEol b = false := by
      obtain ⟨h1, h2⟩ := h
      simp [isEol]; omega
    simp only [tok, this]
    exact core_lit b h

/-! ### `lastCr` -/

theorem lastCrAux_spec : ∀ (pg : Bytes) (i0 : Nat) (acc : Option Nat) (j : Nat),
    lastCrAux pg i0 acc = some j → acc = some j ∨ (i0 ≤ j ∧ pg[j - i0]? = some 0x0d) := by
  intro pg
  induction pg with
  | nil => intro i0 acc j h; exact Or.inl h
  | cons b r ih =>
    intro i0 acc j h
    simp only [lastCrAux] at h
    rcases ih (i0+1) _ j h with h1 | ⟨h1, h2⟩
    · by_cases hb : b = 0x0d
      · simp only [hb, if_true, Option.some.injEq] at h1
        subst h1
        exact Or.inr ⟨Nat.le_refl _, by simp [hb]⟩
      · simp only [hb, if_false] at h1
        exact Or.inl h1
    · refine Or.inr ⟨by omega, ?_⟩
      have : j - i0 = (j - (i0 + 1)) + 1 := by omega
      rw [this, List.getElem?_cons_succ]
      exact h2

theorem lastCr_spec (pg : Bytes) (j : Nat) (h : lastCr pg = some j) : pg[j]? = some 0x0d := by
  rcases lastCrAux_spec pg 0 none j h with h1 | ⟨_, h2⟩
  · cases h1
  · simpa using h2

theorem split_at (l : Bytes) (k x : Nat) (h : l[k]? = some x) :
    l = l.take k ++ x :: l.drop (k+1) ∧ l.take (k+1) = l.take k ++ [x] := by
  obtain ⟨hk, hx⟩ := List.getElem?_eq_some_iff.mp h
  constructor
  · conv => lhs; rw [← List.take_append_drop k l]
    congr 1
    rw [List.drop_eq_getElem_cons hk, hx]
  · rw [List.take_add_one, h]; rfl

theorem getLast?_append_ne (a b : Bytes) (h : b ≠ []) : (a ++ b).getLast? = b.getLast? := by
  rw [List.getLast?_append]
  cases hb : b.getLast? with
  | none => exact absurd (List.getLast?_eq_none_iff.mp hb) h
  | some x => rfl

set_option maxRecDepth 10000 in
theorem paginate_arith (page count i la lb L L2 : Nat) (hA : L = la + (lb + 1))
    (hB : L2 = la + ((1023 - i + lb) + 1)) (hlen : page * 1024 + count ≤ L) (hc : 1024 ≤ count) :
    (page + 1) * 1024 + count % 1024 ≤ L2 := by omega

set_option maxRecDepth 10000 in
/-- `paginate` keeps the decoded text and the token structure, the byte count bookkeeping stays a
lower bound on the real length, and the last byte does not move -/
theorem paginate_ok (ans o : Bytes) (page count : Nat) (ans2 : Bytes) (page2 : Nat)
    (hc : Core ans o) (hlen : page * 1024 + count ≤ ans.length)
    (h : paginate ans page count = .ok (ans2, page2)) :
    Core ans2 o ∧ page2 * 1024 + count % 1024 ≤ ans2.length ∧ ans2.getLast? = ans.getLast? := by
  unfold paginate at h
  simp only [textPage] at h
  by_cases hcnt : 1024 ≤ count
  · simp only [ge_iff_le, hcnt, if_true] at h
    by_cases hp : ans.length < page * 1024 + 1024
    · simp only [hp, if_true] at h; cases h
    · simp only [hp, if_false] at h
      cases hl : lastCr ((ans.drop (page * 1024)).take 1024) with
      | none => rw [hl] at h; cases h
      | some i =>
        rw [hl] at h
        simp only [Res.ok.injEq, Prod.mk.injEq] at h
        obtain ⟨ha, hpg⟩ := h
        have hcr := lastCr_spec _ i hl
        have hi : i < 1024 := by
          have := (List.getElem?_eq_some_iff.mp hcr).1
          simp only [List.length_take] at this
          omega
        have hcr' : ans[page * 1024 + i]? = some 0x0d := by
          rw [List.getElem?_take] at hcr
          simp only [hi, if_true] at hcr
          rw [List.getElem?_drop] at hcr
          exact hcr
        obtain ⟨hsplit, htake⟩ := split_at ans (page * 1024 + i) 0x0d hcr'
        have hans2 : ans2 = ans.take (page * 1024 + i) ++ 0x0d :: (List.replicate (1023 - i) 0 ++ ans.drop (page * 1024 + i + 1)) := by
          rw [← ha, htake]; simp
        have hk : page * 1024 + i < ans.length := (List.getElem?_eq_some_iff.mp hcr').1
        obtain ⟨w, s, d⟩ := hc
        rw [hsplit] at w s d
        obtain ⟨i1, i2, i3⟩ := insert_zeros (1023 - i) _ _ false w
        refine ⟨⟨?_, ?_, ?_⟩, ?_, ?_⟩
        · rw [hans2]; exact i3
        · rw [hans2, i2]; exact s
        · rw [hans2, i1]; exact d
        · have hA : ans.length = (ans.take (page * 1024 + i)).length + ((ans.drop (page * 1024 + i + 1)).length + 1) := by
            conv => lhs; rw [hsplit]
            simp only [List.length_append, List.length_cons]
          have hB : ans2.length = (ans.take (page * 1024 + i)).length +
              (((1023 - i) + (ans.drop (page * 1024 + i + 1)).length) + 1) := by
            rw [hans2]
            simp only [List.length_append, List.length_cons, List.length_replicate]
          rw [← hpg]
          exact paginate_arith page count i _ _ _ _ hA hB hlen hcnt
        · rw [hans2]
          conv => rhs; rw [hsplit]
          by_cases hB : ans.drop (page * 1024 + i + 1) = []
          · have hz : 1023 - i = 0 := by
              have := congrArg List.length hB
              simp only [List.length_drop, List.length_nil] at this
              omega
            rw [hz, hB]; rfl
          · rw [getLast?_append_ne _ _ (by simp), getLast?_append_ne _ _ (by simp)]
            rw [show (0x0d :: (List.replicate (1023 - i) 0 ++ ans.drop (page * 1024 + i + 1)))
                  = ([0x0d] ++ List.replicate (1023 - i) 0) ++ ans.drop (page * 1024 + i + 1) by simp,
                getLast?_append_ne _ _ hB,
                show (0x0d :: ans.drop (page * 1024 + i + 1)) = [0x0d] ++ ans.drop (page * 1024 + i + 1) by rfl,
                getLast?_append_ne _ _ hB]
  · simp only [ge_iff_le, hcnt, if_false] at h
    simp only [Res.ok.injEq, Prod.mk.injEq] at h
    obtain ⟨ha, hpg⟩ := h
    subst ha; subst hpg
    refine ⟨hc, ?_, rfl⟩
    rw [Nat.mod_eq_of_lt (by omega)]; exact hlen

set_option maxRecDepth 10000 in
/-- `paginate` cannot panic while the bookkeeping is a lower bound on the real length -/
theorem paginate_no_panic (ans : Bytes) (page count : Nat) (hlen : page * 1024 + count ≤ ans.length) :
    paginate ans page count ≠ .panic := by
  unfold paginate
  simp only [textPage]
  by_cases hcnt : 1024 ≤ count
  · have hp : ¬ ans.length < page * 1024 + 1024 := by omega
    simp only [ge_iff_le, hcnt, if_true, hp, if_false]
    cases lastCr ((ans.drop (page * 1024)).take 1024) <;> simp
  · simp [hcnt]

end A2Verif.Packing
