import A2Verif.Lemmas.FsProdosMkA
/-!
# `create(path)` of a directory in the volume directory, as a step
-/
namespace A2Verif.FsProdos
open A2Verif.Fs.Prodos
open A2Verif.Read.Prodos (entryAt dirChain idxPtr indexEntries readData trimName bitmapFree)
open A2Verif.Read.ProdosT

theorem mkdir_trace {d : Disk} {bm cnt : Nat} {ch : List Nat} (c : RootCtx d bm cnt ch)
    (htot0 : d.total ≠ 0) (htot16 : d.total ≤ 65535) (htotsz : d.total = d.raw.units.size)
    (hcover : d.total ≤ 8 * (effBuf d bm cnt).size)
    (hshape : ShapeOk d.raw)
    (hfreeOrd : ∀ b, b < d.total → freeB (effBuf d bm cnt) b = true → b ∉ bmRange bm cnt ∧ b ∉ ch)
    (path time nm : Bytes)
    (hnodes : normalizePath (volName (hdrOf d.raw)) path = .ok [volName (hdrOf d.raw), nm]) (hnm : nm ≠ [])
    (hv : isNameValid nm = true)
    (hnone : (dirSlots d.raw 2 ch).find? (isHit allTypes nm) = none)
    (B k : Nat) (hB : B ∈ ch) (hk13 : k < 13) (hkey : B = 2 → 1 ≤ k)
    (hslot : (dirSlots d.raw 2 ch).find? isFreeSlot = some (entryAt (unitAt d.raw B) k 39, B, k + 1))
    (nb : Nat) (hfind : (List.range d.total).find? (freeB (effBuf d bm cnt)) = some nb)
    (hcount : le16 (unitAt d.raw 2) 37 + 1 ≤ 65535) :
    ∃ d3, mkdir path time d = (.ok (), d3) ∧
      Next d d3 bm cnt
        (setUnit (setUnit (setUnit d.raw 2 (patched (unitAt d.raw 2) 37 (u16le (le16 (unitAt d.raw 2) 37 + 1)))) B
          (patched (if B = 2 then patched (unitAt d.raw 2) 37 (u16le (le16 (unitAt d.raw 2) 37 + 1)) else unitAt d.raw B)
            (4 + k * 39) ((createSubdir nm nb 2 time).take entryLen))) nb
          (quantize ((u16le 0 ++ u16le 0 ++ subDirHeader nm B (k + 1) time ++ zeros (12 * entryLen)).take blockSize)))
        (clearBit (clearBit (clearBit (effBuf d bm cnt) 2) B) nb) := by
  have hex := c.chain.exists
  have hBsz : B < d.raw.units.size := hex B hB
  have hBnb : B ∉ bmRange bm cnt := c.nb B hB
  obtain ⟨rest, hch⟩ := chain_head c.chain
  have h2ch : 2 ∈ ch := by rw [hch]; exact List.mem_cons_self
  have h2nb : (2 : Nat) ∉ bmRange bm cnt := c.two_nb
  have h2sz : 2 < d.raw.units.size := c.two_lt
  have hlen : ∀ b, b < d.raw.units.size → (unitAt d.raw b).length = 512 := fun b hb => (hshape.unit hb).1
  have hnbm := List.mem_of_find?_eq_some hfind
  have hnbl : nb < d.total := List.mem_range.mp hnbm
  have hnbf : freeB (effBuf d bm cnt) nb = true := List.find?_some hfind
  obtain ⟨hnbnb, hnbch⟩ := hfreeOrd nb hnbl hnbf
  have hcovb : ∀ b, b < d.raw.units.size → b / 8 < (effBuf d bm cnt).size := by
    intro b hb; rw [← htotsz] at hb; omega
  have stp : St (openD d bm cnt) bm cnt := c.st.toOpen _
  have hprep : prepareToWrite path d = (.ok (nm, 2, { block := B, idx := k + 1 }, nb), openD d bm cnt) := by
    rw [prepare_root c path nm hnodes hnm htot0 hcover]
    simp only [hv, Bool.not_true, Bool.false_eq_true, ↓reduceIte, hnone, hslot, hfind]
    rw [Nat.mod_eq_of_lt (by omega)]
    rfl
  -- the file count
  have hgd2 := getDirectory_st stp 2 (unitAt d.raw 2) h2nb (units_get_unitAt _ _ h2sz)
  have hk2 : kindOf 2 (unitAt d.raw 2) = DKind.volKey := by unfold kindOf; simp [volKeyBlock]
  have hcnt2 : le16 ((unitAt d.raw 2).take dirLen) (4 + 33) = le16 (unitAt d.raw 2) 37 :=
    le16_take _ dirLen 37 (by unfold dirLen; omega)
  have hinc := incFileCount_ok DKind.volKey ((unitAt d.raw 2).take dirLen) (by decide) (by rw [hcnt2]; exact hcount)
  rw [hcnt2] at hinc
  have hlen2 := hlen 2 h2sz
  have hhdr1 : (2 : Nat) = 2 → le16 (quantize ((splice ((unitAt d.raw 2).take dirLen) (4 + 33)
      (u16le (le16 (unitAt d.raw 2) 37 + 1))).take blockSize)) 39 = bm := by
    intro _
    show le16 (patched (unitAt d.raw 2) 37 (u16le _)) 39 = bm
    rw [le16_patched_out _ _ _ 39 hlen2 (by show 37 + 2 ≤ 511; omega) (Or.inr (by show 37 + 2 ≤ 39; omega)) (by omega)]
    obtain ⟨kb, hkb, hbm⟩ := c.st.hdr
    rw [unitAt_of_get hkb]; exact hbm
  obtain ⟨d1, hd1, n1⟩ := writeBlock_next stp (splice ((unitAt d.raw 2).take dirLen) (4 + 33)
      (u16le (le16 (unitAt d.raw 2) 37 + 1))) 2 h2nb h2sz (hcovb 2 h2sz) hhdr1
  have hraw1 : d1.raw = setUnit d.raw 2 (patched (unitAt d.raw 2) 37 (u16le (le16 (unitAt d.raw 2) 37 + 1))) := n1.raw
  have heff1 : effBuf d1 bm cnt = clearBit (effBuf d bm cnt) 2 := n1.eff
  have hsz1 : d1.raw.units.size = d.raw.units.size := by rw [hraw1, setUnit_size]
  have hu1 : ∀ b, unitAt d1.raw b = if b = 2 then patched (unitAt d.raw 2) 37 (u16le (le16 (unitAt d.raw 2) 37 + 1)) else unitAt d.raw b := by
    intro b
    rw [hraw1]
    by_cases hb : b = 2
    · subst hb; rw [if_pos rfl]; unfold unitAt; rw [setUnit_self _ _ _ h2sz]; rfl
    · rw [if_neg hb, unitAt_setUnit_other _ _ _ _ (Ne.symm hb)]
  have hlen1 : ∀ b, b < d.raw.units.size → (unitAt d1.raw b).length = 512 := by
    intro b hb; rw [hu1 b]; split
    · exact patched_length _ _ _
    · exact hlen b hb
  -- the entry
  have hkind1 : B ≠ 2 → kindOf B (unitAt d1.raw B) = DKind.entry := by
    intro hb; rw [hu1 B, if_neg hb]; exact (c.kinds B hB).2 hb
  obtain ⟨d2, hd2, n2⟩ := writeEntry_next n1.st B k hBnb (by rw [hsz1]; exact hBsz)
    (by rw [heff1, size_clearBit]; exact hcovb B hBsz) (hlen1 B hBsz) hk13 hkey hkind1 (createSubdir nm nb 2 time)
  rw [hu1 B, heff1] at n2
  have hsz2 : d2.raw.units.size = d.raw.units.size := by rw [n2.raw, setUnit_size, hsz1]
  -- the key block of the new directory
  have hnb2 : nb ≠ 2 := fun e => hnbch (e ▸ h2ch)
  obtain ⟨d3, hd3, n3⟩ := writeBlock_next n2.st (u16le 0 ++ u16le 0 ++ subDirHeader nm B (k + 1) time ++ zeros (12 * entryLen)) nb hnbnb
    (by rw [hsz2, ← htotsz]; exact hnbl) (by rw [n2.eff, size_clearBit, size_clearBit]; exact hcovb nb (by rw [← htotsz]; exact hnbl))
    (fun e => absurd e hnb2)
  refine ⟨d3, ?_, ?_⟩
  · unfold mkdir
    simp only [bind_def]
    rw [bind_ok _ _ d _ _ hprep]
    simp only []
    rw [bind_ok _ _ _ _ _ hgd2, hk2, hinc, bind_ok _ _ _ _ _ (ofOption_some _ _), bind_ok _ _ _ d1 _ hd1, bind_ok _ _ d1 d2 _ hd2]
    exact hd3
  · have n := (n1.trans n2).trans n3
    have nn : Next d d3 bm cnt _ _ := ⟨n.st, n.raw, n.eff, by rw [n.total]; rfl, by rw [n.src]; rfl⟩
    rw [n2.raw, n2.eff, hraw1] at nn
    exact nn

/-- the image `create` leaves (before the write-back of the buffer) as a patch of the volume directory -/
theorem mkdir_image {r : Raw} {ch : List Nat} {B k nb : Nat} (e0 KB : Bytes)
    (hshape : ShapeOk r) (hch : ∀ b ∈ ch, b < r.units.size) (hB : B ∈ ch) (h2 : 2 ∈ ch) (hk13 : k < 13) (hkey : B = 2 → 1 ≤ k)
    (he0 : e0.length = 39) (he0b : ∀ x ∈ e0, x < 256) (hn : le16 (unitAt r 2) 37 + 1 < 65536)
    (hnbsz : nb < r.units.size) (hnbch : nb ∉ ch) (hKB : KB.length = 512) (hKBb : ∀ x ∈ KB, x < 256) :
    let r3 := setUnit (setUnit (setUnit r 2 (patched (unitAt r 2) 37 (u16le (le16 (unitAt r 2) 37 + 1)))) B
      (patched (if B = 2 then patched (unitAt r 2) 37 (u16le (le16 (unitAt r 2) 37 + 1)) else unitAt r B) (4 + k * 39) e0)) nb KB
    DirPatch r r3 ch B k ∧ (∀ j, j ∉ ch → j ≠ nb → r3.units[j]? = r.units[j]?) ∧ ShapeOk r3 ∧
    le16 (unitAt r3 2) 37 = le16 (unitAt r 2) 37 + 1 ∧ entryAt (unitAt r3 B) k 39 = e0 ∧ unitAt r3 nb = KB ∧
    r3.units.size = r.units.size := by
  intro r3
  have hBsz := hch B hB
  have h2sz := hch 2 h2
  have hlen : ∀ b ∈ ch, (unitAt r b).length = 512 := fun b hb => (hshape.unit (hch b hb)).1
  have hlen2 := hlen 2 h2
  have hkb1 : (patched (unitAt r 2) 37 (u16le (le16 (unitAt r 2) 37 + 1))).length = 512 := patched_length _ _ _
  have hkb1b : ∀ x ∈ patched (unitAt r 2) 37 (u16le (le16 (unitAt r 2) 37 + 1)), x < 256 :=
    patched_bytes _ _ _ hlen2 (by unfold u16le; simp) (hshape.unit h2sz).2 (u16le_bytes _)
  have hXl : (if B = 2 then patched (unitAt r 2) 37 (u16le (le16 (unitAt r 2) 37 + 1)) else unitAt r B).length = 512 := by
    split
    · exact hkb1
    · exact hlen B hB
  have hXb : ∀ x ∈ (if B = 2 then patched (unitAt r 2) 37 (u16le (le16 (unitAt r 2) 37 + 1)) else unitAt r B), x < 256 := by
    split
    · exact hkb1b
    · exact (hshape.unit hBsz).2
  have hsz3 : r3.units.size = r.units.size := by
    show (setUnit (setUnit (setUnit r 2 _) B _) nb KB).units.size = _
    rw [setUnit_size, setUnit_size, setUnit_size]
  have hun3 : ∀ b ∈ ch, unitAt r3 b =
      if b = B then patched (if B = 2 then patched (unitAt r 2) 37 (u16le (le16 (unitAt r 2) 37 + 1)) else unitAt r B) (4 + k * 39) e0
      else if b = 2 then patched (unitAt r 2) 37 (u16le (le16 (unitAt r 2) 37 + 1)) else unitAt r b := by
    intro b hb
    have hbnb : nb ≠ b := fun e => hnbch (e ▸ hb)
    show unitAt (setUnit (setUnit (setUnit r 2 _) B _) nb KB) b = _
    rw [unitAt_setUnit_other _ _ _ _ hbnb]
    by_cases hbB : b = B
    · subst hbB
      rw [if_pos rfl]
      unfold unitAt; rw [setUnit_self _ _ _ (by rw [setUnit_size]; exact hBsz)]; rfl
    · rw [if_neg hbB, unitAt_setUnit_other _ _ _ _ (Ne.symm hbB)]
      by_cases hb2 : b = 2
      · subst hb2; rw [if_pos rfl]; unfold unitAt; rw [setUnit_self _ _ _ h2sz]; rfl
      · rw [if_neg hb2, unitAt_setUnit_other _ _ _ _ (Ne.symm hb2)]
  have hshape3 : ShapeOk r3 := by
    apply shape_setUnit _ nb KB hKB hKBb
    apply shape_setUnit _ B _ (patched_length _ _ _) (patched_bytes _ _ _ hXl (by rw [he0]; omega) hXb he0b)
    exact shape_setUnit hshape 2 _ hkb1 hkb1b
  have hsame : ∀ b ∈ ch, ∀ j, j < 511 → (b = B → j < 4 + k * 39 ∨ 4 + k * 39 + 39 ≤ j) → (b = 2 → j ≠ 37 ∧ j ≠ 38) →
      (unitAt r3 b).getD j 0 = (unitAt r b).getD j 0 := by
    intro b hb j hj hslot h37
    have hkb1g : b = 2 → (patched (unitAt r 2) 37 (u16le (le16 (unitAt r 2) 37 + 1))).getD j 0 = (unitAt r 2).getD j 0 := by
      intro hb2
      have := h37 hb2
      exact getD_patched_out _ _ _ j hlen2 (by unfold u16le; simp) (by unfold u16le; simp; omega) hj
    rw [hun3 b hb]
    by_cases hbB : b = B
    · rw [if_pos hbB]
      have hs := hslot hbB
      rw [getD_patched_out _ _ _ j hXl (by rw [he0]; omega) (by rw [he0]; omega) hj]
      by_cases hb2 : B = 2
      · rw [if_pos hb2, hkb1g (hbB.trans hb2), hbB, hb2]
      · rw [if_neg hb2, hbB]
    · rw [if_neg hbB]
      by_cases hb2 : b = 2
      · rw [if_pos hb2, hkb1g hb2, hb2]
      · rw [if_neg hb2]
  have hshape' : ∀ b ∈ ch, (unitAt r3 b).length = 512 ∧ ∀ x ∈ unitAt r3 b, x < 256 :=
    fun b hb => hshape3.unit (by rw [hsz3]; exact hch b hb)
  refine ⟨dirPatch_of_same hsz3 hlen hshape' h2 hkey hsame, ?_, hshape3, ?_, ?_, ?_, hsz3⟩
  · intro j hjc hjn
    have hjB : B ≠ j := fun e => hjc (e ▸ hB)
    have hj2 : (2 : Nat) ≠ j := fun e => hjc (e ▸ h2)
    show (setUnit (setUnit (setUnit r 2 _) B _) nb KB).units[j]? = _
    rw [setUnit_other _ _ _ _ (Ne.symm hjn), setUnit_other _ _ _ _ hjB, setUnit_other _ _ _ _ hj2]
  · rw [hun3 2 h2]
    have hself : le16 (patched (unitAt r 2) 37 (u16le (le16 (unitAt r 2) 37 + 1))) 37 = le16 (unitAt r 2) 37 + 1 :=
      le16_patched_self _ 37 _ hlen2 (by omega) hn
    by_cases hb2 : 2 = B
    · have hk1 := hkey hb2.symm
      rw [if_pos hb2, if_pos hb2.symm,
        le16_patched_out _ _ _ 37 (patched_length _ _ _) (by rw [he0]; omega) (Or.inl (by omega)) (by omega)]
      exact hself
    · rw [if_neg hb2, if_pos rfl]; exact hself
  · rw [hun3 B hB, if_pos rfl]
    exact entryAt_patched_self _ _ k hXl he0 hk13
  · show unitAt (setUnit (setUnit (setUnit r 2 _) B _) nb KB) nb = KB
    unfold unitAt; rw [setUnit_self _ _ _ (by rw [setUnit_size, setUnit_size]; exact hnbsz)]; rfl

end A2Verif.FsProdos
