import A2Verif.Lemmas.FsFatOps
/-!
# Names: a freshly packed name is well named (`NameGood`), and a2kit's key of it is the key `get_file` looks up

`nameParts_of_valid`: a name `is_name_valid` accepts is, in upper case, `B` or `B.X` with `B` of 1‥8 and `X` of ≤ 3
characters, none of them a dot, a control character or beyond ASCII.  `fresh_name`: an entry whose name field is
`string_to_file_name` of such a name is split by `file_name_to_split_string` into the trimmed parts, is listed by the
reader under the same name, and `get_file` of the name looks up exactly its key.
-/
namespace A2Verif.FsFat
open A2Verif A2Verif.Fs.Fat A2Verif.Read.Fat A2Verif.Read.FatT

/-! ## `split` and `split_once` -/

theorem splitOn_ne_nil (sep : Nat) : ∀ (l : Bytes), splitOn sep l ≠ [] := by
  intro l
  induction l with
  | nil => simp [splitOn]
  | cons c cs ih =>
    rw [splitOn]
    cases h : splitOn sep cs with
    | nil => simp
    | cons p ps => by_cases hc : c = sep <;> simp [hc]

theorem splitOn_append_sep {b : Bytes} (x : Bytes) (hb : 46 ∉ b) : splitOn 46 (b ++ 46 :: x) = b :: splitOn 46 x := by
  induction b with
  | nil =>
    rw [List.nil_append, splitOn]
    cases h : splitOn 46 x with
    | nil => exact absurd h (splitOn_ne_nil 46 x)
    | cons p ps => simp
  | cons c b ih =>
    have hc : c ≠ 46 := fun e => hb (by simp [e])
    have hb' : 46 ∉ b := fun e => hb (by simp [e])
    rw [List.cons_append, splitOn, ih hb']
    simp [hc]

theorem splitOnce_append_sep {b : Bytes} (x : Bytes) (hb : 46 ∉ b) : splitOnce 46 (b ++ 46 :: x) = some (b, x) := by
  induction b with
  | nil => simp [splitOnce]
  | cons c b ih =>
    have hc : c ≠ 46 := fun e => hb (by simp [e])
    have hb' : 46 ∉ b := fun e => hb (by simp [e])
    rw [List.cons_append, splitOnce, if_neg hc, ih hb']

theorem splitOnce_not_mem : ∀ {s : Bytes}, 46 ∉ s → splitOnce 46 s = none := by
  intro s
  induction s with
  | nil => intro _; rfl
  | cons c cs ih =>
    intro h
    have hc : c ≠ 46 := fun e => h (by simp [e])
    have hcs : 46 ∉ cs := fun e => h (by simp [e])
    rw [splitOnce, if_neg hc, ih hcs]

/-- a byte string has no dot, or splits at its first dot -/
theorem exists_split : ∀ (s : Bytes), 46 ∉ s ∨ ∃ b x, s = b ++ 46 :: x ∧ 46 ∉ b := by
  intro s
  induction s with
  | nil => exact Or.inl (by simp)
  | cons c cs ih =>
    by_cases hc : c = 46
    · exact Or.inr ⟨[], cs, by simp [hc], by simp⟩
    · rcases ih with h | ⟨b, x, h1, h2⟩
      · left
        intro hm
        rcases List.mem_cons.mp hm with h' | h'
        · exact hc h'.symm
        · exact h h'
      · right
        refine ⟨c :: b, x, by rw [h1]; rfl, ?_⟩
        intro hm
        rcases List.mem_cons.mp hm with h' | h'
        · exact hc h'.symm
        · exact h2 h'

/-! ## trimming -/

theorem dropWhile_congr_mem {p q : Nat → Bool} : ∀ {l : Bytes}, (∀ x ∈ l, p x = q x) → l.dropWhile p = l.dropWhile q := by
  intro l
  induction l with
  | nil => intro _; rfl
  | cons a t ih =>
    intro h
    rw [List.dropWhile_cons, List.dropWhile_cons, h a (by simp), ih (fun x hx => h x (by simp [hx]))]

theorem dropWhile_spaces (p : Nat → Bool) (hp : p 32 = true) (k : Nat) (l : Bytes) :
    (List.replicate k 32 ++ l).dropWhile p = l.dropWhile p := by
  induction k with
  | zero => rfl
  | succ k ih => rw [List.replicate_succ, List.cons_append, List.dropWhile_cons, hp]; exact ih

theorem trimEnd_spaces (b : Bytes) (k : Nat) : trimEnd (b ++ List.replicate k 32) = trimEnd b := by
  unfold trimEnd
  rw [List.reverse_append, List.reverse_replicate, dropWhile_spaces _ (by rfl)]

theorem trimR_spaces (b : Bytes) (k : Nat) : trimR (b ++ List.replicate k 32) = trimR b := by
  unfold trimR
  rw [List.reverse_append, List.reverse_replicate, dropWhile_spaces _ (by rfl)]

theorem trimR_eq_trimEnd {b : Bytes} (h : ∀ c ∈ b, 32 ≤ c) : trimR b = trimEnd b := by
  unfold trimR trimEnd
  congr 1
  apply dropWhile_congr_mem
  intro c hc
  have := h c (by simpa using hc)
  unfold isAsciiSpace
  have : (decide (9 ≤ c) && decide (c ≤ 13)) = false := by simp; omega
  rw [this, Bool.or_false]

theorem padTo_length (s : Bytes) (n : Nat) : (padTo s n).length = n := by
  unfold padTo
  simp
  omega

theorem padTo_of_le {b : Bytes} {n : Nat} (h : b.length ≤ n) : padTo b n = b ++ List.replicate (n - b.length) 32 := by
  unfold padTo
  rw [List.take_of_length_le h]

/-- `pack_time`/`pack_date` are two bytes each -/
def StampOk (now : Stamp) : Prop := now.time.length = 2 ∧ now.date.length = 2

theorem entryCreate_length {nm : Bytes} (hn : nm.length = 11) (a : Nat) {now : Stamp} (hs : StampOk now) :
    (entryCreate nm a now).length = 32 ∧ (entryCreate nm a now).getD 11 0 = a ∧ (entryCreate nm a now).take 11 = nm := by
  obtain ⟨h1, h2⟩ := hs
  unfold entryCreate
  refine ⟨by simp [hn, h1, h2], ?_, ?_⟩
  · simp [List.getD_eq_getElem?_getD, List.getElem?_append, hn]
  · simp only [List.append_assoc]
    rw [List.take_append_of_le_length (by simp [hn]), List.take_take]
    simp only [Nat.min_self]
    exact List.take_of_length_le (by omega)

/-! ## the parts of a valid name -/

/-- `B`/`X` are the base and extension of the upper-case form of `s`, both made of printable ASCII other than the dot -/
structure NameParts (s B X : Bytes) : Prop where
  up : (upper s = B ∧ X = []) ∨ upper s = B ++ 46 :: X
  noDotB : 46 ∉ B
  noDotX : 46 ∉ X
  noSlashB : 47 ∉ B
  noSlashX : 47 ∉ X
  rngB : ∀ c ∈ B, 32 ≤ c ∧ c < 127
  rngX : ∀ c ∈ X, 32 ≤ c ∧ c < 127
  lenB : 1 ≤ B.length ∧ B.length ≤ 8
  lenX : X.length ≤ 3
  /-- the name as given: made of valid characters and dots, at most 12 bytes -/
  chars : ∀ c ∈ s, c = 46 ∨ charOk c = true
  lenS : 1 ≤ s.length ∧ s.length ≤ 12

theorem charOk_ne47 {c : Nat} (h : charOk c = true) : c ≠ 47 := by
  intro e
  subst e
  revert h
  decide

theorem charOk_bounds' {c : Nat} (h : charOk c = true) : 32 ≤ c ∧ c < 127 ∧ c ≠ 46 := by
  have h46 : c ≠ 46 := by
    intro e
    subst e
    revert h
    decide
  unfold charOk isAsciiControl at h
  simp only [Bool.and_eq_true, decide_eq_true_eq, Bool.not_eq_true', Bool.or_eq_false_iff, decide_eq_false_iff_not, beq_eq_false_iff_ne] at h
  omega

theorem upperByte_rng {c : Nat} (h : 32 ≤ c ∧ c < 127) : 32 ≤ upperByte c ∧ upperByte c < 127 := by
  unfold upperByte
  split <;> omega

theorem upper_rng {b : Bytes} (h : ∀ c ∈ b, 32 ≤ c ∧ c < 127) : ∀ c ∈ upper b, 32 ≤ c ∧ c < 127 := by
  intro c hc
  unfold upper at hc
  obtain ⟨c0, h0, rfl⟩ := List.mem_map.mp hc
  exact upperByte_rng (h c0 h0)

theorem upper_cons (c : Nat) (l : Bytes) : upper (c :: l) = upperByte c :: upper l := rfl

theorem nameParts_of_valid {s : Bytes} (h : isNameValid s = true) : ∃ B X, NameParts s B X := by
  have h46 : ∀ l : Bytes, 46 ∉ l → 46 ∉ upper l := fun l hl hm => hl ((mem_upper_iff (by omega) (by omega) l).mp hm)
  have h47 : ∀ l : Bytes, (∀ c ∈ l, charOk c = true) → 47 ∉ upper l := fun l hl hm =>
    charOk_ne47 (hl 47 ((mem_upper_iff (by omega) (by omega) l).mp hm)) rfl
  rcases exists_split s with hs | ⟨b, x, hs, hb⟩
  · -- no dot
    have hsp := splitOn_not_mem 46 s hs
    unfold isNameValid at h
    simp only [hsp] at h
    rw [if_neg (by simp)] at h
    simp only [List.headD_cons, List.drop_one, List.tail_cons, List.headD_nil, List.append_nil,
      Bool.and_eq_true, decide_eq_true_eq, List.all_eq_true] at h
    have h' : ((∀ c ∈ s, charOk c = true) ∧ 1 ≤ s.length) ∧ s.length ≤ 8 :=
      ⟨⟨h.1.1.1, of_decide_eq_true h.1.1.2⟩, of_decide_eq_true h.1.2⟩
    refine ⟨upper s, [], Or.inl ⟨rfl, rfl⟩, h46 s hs, by simp, h47 s h'.1.1, by simp, upper_rng (fun c hc => ?_), by simp, by rw [upper_length]; omega, by simp,
      fun c hc => Or.inr (h'.1.1 c hc), by omega⟩
    have := charOk_bounds' (h'.1.1 c hc)
    omega
  · -- one dot
    have hx : 46 ∉ x := by
      intro hm
      rcases exists_split x with h1 | ⟨b', x', h1, h2⟩
      · exact h1 hm
      · have hsp : splitOn 46 s = b :: b' :: splitOn 46 x' := by rw [hs, splitOn_append_sep x hb, h1, splitOn_append_sep x' h2]
        unfold isNameValid at h
        simp only [hsp] at h
        cases hl : splitOn 46 x' with
        | nil => exact absurd hl (splitOn_ne_nil 46 x')
        | cons p ps =>
          rw [hl] at h
          simp at h
    have hsp : splitOn 46 s = [b, x] := by rw [hs, splitOn_append_sep x hb, splitOn_not_mem 46 x hx]
    unfold isNameValid at h
    simp only [hsp] at h
    rw [if_neg (by simp)] at h
    simp only [List.headD_cons, List.drop_one, List.tail_cons,
      Bool.and_eq_true, decide_eq_true_eq, List.all_eq_true, List.mem_append] at h
    have h' : (((∀ c, c ∈ b ∨ c ∈ x → charOk c = true) ∧ 1 ≤ b.length) ∧ b.length ≤ 8) ∧ x.length ≤ 3 :=
      ⟨⟨⟨h.1.1.1, of_decide_eq_true h.1.1.2⟩, of_decide_eq_true h.1.2⟩, h.2⟩
    refine ⟨upper b, upper x, Or.inr (by rw [hs, upper_append, upper_cons]; rfl), h46 b hb, h46 x hx,
      h47 b (fun c hc => h'.1.1.1 c (Or.inl hc)), h47 x (fun c hc => h'.1.1.1 c (Or.inr hc)),
      upper_rng (fun c hc => ?_), upper_rng (fun c hc => ?_), by rw [upper_length]; omega, by rw [upper_length]; omega, ?_,
      by rw [hs]; simp; omega⟩
    rotate_left 2
    · intro c hc
      rw [hs] at hc
      simp only [List.mem_append, List.mem_cons] at hc
      rcases hc with h | h | h
      · exact Or.inr (h'.1.1.1 c (Or.inl h))
      · exact Or.inl h
      · exact Or.inr (h'.1.1.1 c (Or.inr h))
    · have := charOk_bounds' (h'.1.1.1 c (Or.inl hc)); omega
    · have := charOk_bounds' (h'.1.1.1 c (Or.inr hc)); omega

/-! ## the packed name -/

theorem nameParts_not_dots {s B X : Bytes} (np : NameParts s B X) : s ≠ [46] ∧ s ≠ [46, 46] := by
  obtain ⟨c0, B', hB⟩ : ∃ c0 B', B = c0 :: B' := by
    cases B with
    | nil => have := np.lenB.1; simp at this
    | cons c0 B' => exact ⟨c0, B', rfl⟩
  have hc0 : c0 ≠ 46 := fun e => np.noDotB (by rw [hB, e]; simp)
  have hhead : (upper s).head? = some c0 := by
    rcases np.up with ⟨h, _⟩ | h
    · rw [h, hB]; rfl
    · rw [h, hB]; rfl
  constructor
  · intro e
    rw [e] at hhead
    have : upper [46] = [46] := by decide
    rw [this] at hhead
    injection hhead with h
    exact hc0 h.symm
  · intro e
    rw [e] at hhead
    have : upper [46, 46] = [46, 46] := by decide
    rw [this] at hhead
    injection hhead with h
    exact hc0 h.symm

theorem stringToFileName_parts {s B X : Bytes} (np : NameParts s B X) : stringToFileName s = padTo B 8 ++ padTo X 3 := by
  obtain ⟨h1, h2⟩ := nameParts_not_dots np
  unfold stringToFileName
  rw [if_neg h1, if_neg h2]
  rcases np.up with ⟨h, hx⟩ | h
  · rw [h, splitOn_not_mem 46 B np.noDotB, hx]
    simp
  · rw [h, splitOn_append_sep X np.noDotB, splitOn_not_mem 46 X np.noDotX]
    simp

/-- **a freshly packed name**: an entry whose first 11 bytes are `string_to_file_name` of a valid name -/
theorem fresh_name {s B X : Bytes} (np : NameParts s B X) {e : Bytes} (h11 : e.take 11 = stringToFileName s) :
    fileNameToSplit e = some (trimEnd B, trimEnd X) ∧
    entName e = (if trimEnd X = [] then trimEnd B else trimEnd B ++ [46] ++ trimEnd X) ∧
    lookupKey (upper s) = trimEnd B ++ [46] ++ trimEnd X ∧ 46 ∉ trimEnd B ∧ 46 ∉ trimEnd X ∧
    e.getD 0 0 ≠ 0 ∧ e.getD 0 0 ≠ 0xE5 ∧ e.getD 0 0 ≠ 46 := by
  rw [stringToFileName_parts np] at h11
  have hlB := np.lenB
  have hlX := np.lenX
  have hP8 : padTo B 8 = B ++ List.replicate (8 - B.length) 32 := padTo_of_le hlB.2
  have hP3 : padTo X 3 = X ++ List.replicate (3 - X.length) 32 := padTo_of_le hlX
  have hl8 : (padTo B 8).length = 8 := padTo_length B 8
  have hl3 : (padTo X 3).length = 3 := padTo_length X 3
  have h8 : e.take 8 = padTo B 8 := by
    have : e.take 8 = (e.take 11).take 8 := by rw [List.take_take]; rfl
    rw [this, h11, List.take_left' hl8]
  have h3 : (e.drop 8).take 3 = padTo X 3 := by
    have : (e.drop 8).take 3 = (e.take 11).drop 8 := by rw [List.drop_take]
    rw [this, h11, List.drop_left' hl8]
  obtain ⟨c0, B', hB⟩ : ∃ c0 B', B = c0 :: B' := by
    cases B with
    | nil => simp at hlB
    | cons c0 B' => exact ⟨c0, B', rfl⟩
  have hc0m : c0 ∈ B := by rw [hB]; simp
  have hc0 : c0 ≠ 46 := fun e => np.noDotB (e ▸ hc0m)
  have hc0r := np.rngB c0 hc0m
  have hhead : (e.take 11).head? = some c0 := by rw [h11, hP8, hB]; rfl
  have hget0 : e.getD 0 0 = c0 := by
    have h1 : (e.take 11)[0]? = some c0 := by rw [← List.head?_eq_getElem?]; exact hhead
    rw [List.getElem?_take] at h1
    rw [if_pos (by omega)] at h1
    simp [List.getD_eq_getElem?_getD, h1]
  have hdot : isDot e = false := by
    unfold isDot
    rw [beq_eq_false_iff_ne]
    intro heq
    rw [heq] at hhead
    injection hhead with h
    exact hc0 h.symm
  have hdotdot : isDotDot e = false := by
    unfold isDotDot
    rw [beq_eq_false_iff_ne]
    intro heq
    rw [heq] at hhead
    injection hhead with h
    exact hc0 h.symm
  have hascii : (e.take 11).any (fun c => decide (c ≥ 128)) = false := by
    rw [List.any_eq_false]
    intro c hc
    rw [h11, hP8, hP3] at hc
    simp only [List.mem_append, List.mem_replicate] at hc
    have : c < 128 := by
      rcases hc with (h | h) | (h | h)
      · have := np.rngB c h; omega
      · omega
      · have := np.rngX c h; omega
      · omega
    simp; omega
  have hsplit : fileNameToSplit e = some (trimEnd B, trimEnd X) := by
    unfold fileNameToSplit
    simp only [hdot, hdotdot, Bool.false_eq_true, if_false, hascii, h8, h3, hP8, hP3, trimEnd_spaces]
  have hB32 : ∀ c ∈ B, 32 ≤ c := fun c hc => (np.rngB c hc).1
  have hX32 : ∀ c ∈ X, 32 ≤ c := fun c hc => (np.rngX c hc).1
  have hname : entName e = (if trimEnd X = [] then trimEnd B else trimEnd B ++ [46] ++ trimEnd X) := by
    have hs8 : slice e 0 8 = padTo B 8 := by unfold slice; rw [List.drop_zero]; exact h8
    have hs3 : slice e 8 3 = padTo X 3 := by unfold slice; exact h3
    have hh5 : ¬ ((padTo B 8).head? = some 5) := by
      rw [hP8, hB]
      simp
      omega
    unfold entName
    simp only [hs8, hs3, hh5, if_false]
    rw [hP8, hP3, trimR_spaces, trimR_spaces, trimR_eq_trimEnd hB32, trimR_eq_trimEnd hX32]
    by_cases hx : trimEnd X = []
    · simp [hx]
    · simp [hx]
  have hkey : lookupKey (upper s) = trimEnd B ++ [46] ++ trimEnd X := by
    unfold lookupKey
    rcases np.up with ⟨h, hx⟩ | h
    · rw [h, splitOnce_not_mem np.noDotB, hx]
      simp [trimEnd]
    · rw [h, splitOnce_append_sep X np.noDotB]
  exact ⟨hsplit, hname, hkey, fun h => np.noDotB (mem_trimEnd h), fun h => np.noDotX (mem_trimEnd h),
    by rw [hget0]; omega, by rw [hget0]; omega, by rw [hget0]; exact hc0⟩

theorem fresh_noSlash {s B X : Bytes} (np : NameParts s B X) : 47 ∉ trimEnd B ∧ 47 ∉ trimEnd X :=
  ⟨fun h => np.noSlashB (mem_trimEnd h), fun h => np.noSlashX (mem_trimEnd h)⟩

/-- a valid name is a root-level argument: it contains no slash and no wildcard -/
theorem rootArg_of_parts {s B X : Bytes} (np : NameParts s B X) : RootArg s := by
  have hno : ∀ k, k ≠ 46 → charOk k = false → k ∉ s := by
    intro k hk hc hm
    rcases np.chars k hm with h | h
    · exact hk h
    · rw [hc] at h; cases h
  refine { ne := ?_, noSlash := hno 47 (by omega) (by decide), noStar := hno 42 (by omega) (by decide),
           noQ := hno 63 (by omega) (by decide), len := by have := np.lenS; omega }
  intro e
  have := np.lenS.1
  rw [e] at this
  simp at this

end A2Verif.FsFat
