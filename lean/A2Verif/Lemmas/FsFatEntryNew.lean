import A2Verif.Lemmas.FsFatName
/-!
# The bytes of the directory entry `put` writes

`splice_spec`: a field assignment changes the bytes of the field and nothing else.  `entryCreate_bytes`: the 32 bytes of
`Entry::create`.  `fimgToMetadata_spec`: `fimg_to_metadata` keeps the name, the reserved byte and both cluster words, sets
the attribute byte to the access byte and the size to the `eof` vector.  `putEntry_spec`: the entry after `set_cluster` and
`set_attr(ARCHIVE)`.
-/
namespace A2Verif.FsFat
open A2Verif A2Verif.Fs.Fat A2Verif.Read.Fat A2Verif.Read.FatT

theorem splice_length {e new : Bytes} {off : Nat} (h : off + new.length ≤ e.length) : (splice e off new).length = e.length := by
  unfold splice
  simp
  omega

theorem splice_out {e new : Bytes} {off : Nat} (h : off + new.length ≤ e.length) {i : Nat} (hi : i < off ∨ off + new.length ≤ i) :
    (splice e off new).getD i 0 = e.getD i 0 := by
  unfold splice
  simp only [List.getD_eq_getElem?_getD]
  congr 1
  have hl : (e.take off ++ new).length = off + new.length := by simp; omega
  rcases hi with hi | hi
  · rw [List.getElem?_append_left (by rw [hl]; omega), List.getElem?_append_left (by simp; omega), List.getElem?_take]
    simp [hi]
  · rw [List.getElem?_append_right (by rw [hl]; omega), hl, List.getElem?_drop]
    congr 1
    omega

theorem splice_in {e new : Bytes} {off : Nat} (h : off + new.length ≤ e.length) {k : Nat} (hk : k < new.length) :
    (splice e off new).getD (off + k) 0 = new.getD k 0 := by
  unfold splice
  simp only [List.getD_eq_getElem?_getD]
  congr 1
  have hl : (e.take off).length = off := by simp; omega
  rw [List.getElem?_append_left (by simp; omega), List.getElem?_append_right (by rw [hl]; omega), hl]
  congr 1
  omega

theorem take_eq_of_getD {a b : Bytes} {k : Nat} (ha : k ≤ a.length) (hb : k ≤ b.length) (h : ∀ i, i < k → a.getD i 0 = b.getD i 0) :
    a.take k = b.take k := by
  apply List.ext_getElem?
  intro i
  simp only [List.getElem?_take]
  by_cases hi : i < k
  · simp only [hi, if_true]
    have := h i hi
    rw [List.getD_eq_getElem?_getD, List.getD_eq_getElem?_getD] at this
    rw [List.getElem?_eq_getElem (by omega), List.getElem?_eq_getElem (by omega)] at this ⊢
    simpa using this
  · simp [hi]

/-- the bytes of `Entry::create(name, now)` with attribute `a` -/
theorem entryCreate_bytes {nm : Bytes} (hn : nm.length = 11) (a : Nat) {now : Stamp} (hs : StampOk now) :
    (entryCreate nm a now).length = 32 ∧ (entryCreate nm a now).take 11 = nm ∧ (entryCreate nm a now).getD 11 0 = a ∧
      (entryCreate nm a now).getD 26 0 = 0 ∧ (entryCreate nm a now).getD 27 0 = 0 := by
  obtain ⟨c1, c2, c3⟩ := entryCreate_length hn a hs
  obtain ⟨h1, h2⟩ := hs
  obtain ⟨t0, t1, ht⟩ : ∃ t0 t1, now.time = [t0, t1] := by
    match hm : now.time, h1 with
    | [t0, t1], _ => exact ⟨t0, t1, rfl⟩
  obtain ⟨d0, d1, hd⟩ : ∃ d0 d1, now.date = [d0, d1] := by
    match hm : now.date, h2 with
    | [d0, d1], _ => exact ⟨d0, d1, rfl⟩
  refine ⟨c1, c3, c2, ?_, ?_⟩
  · unfold entryCreate
    rw [ht, hd, List.take_of_length_le (by omega)]
    simp [List.getD_eq_getElem?_getD, List.getElem?_append, hn]
  · unfold entryCreate
    rw [ht, hd, List.take_of_length_le (by omega)]
    simp [List.getD_eq_getElem?_getD, List.getElem?_append, hn]

/-- `fimg_to_metadata(fimg, true)` on a 32-byte entry -/
theorem fimgToMetadata_spec {e : Bytes} (he : e.length = 32) {f : FImg}
    (hm : 4 ≤ f.eof.length ∧ 1 ≤ f.access.length ∧ 5 ≤ f.created.length ∧ 4 ≤ f.modified.length) :
    ∃ e1, fimgToMetadata e f = .ok e1 ∧ e1.length = 32 ∧
      (∀ i, (i < 11 ∨ i = 12 ∨ i = 20 ∨ i = 21 ∨ i = 26 ∨ i = 27) → e1.getD i 0 = e.getD i 0) ∧
      e1.getD 11 0 = f.access.getD 0 0 ∧ (∀ k, k < 4 → e1.getD (28 + k) 0 = f.eof.getD k 0) := by
  obtain ⟨m1, m2, m3, m4⟩ := hm
  have hne : ¬ (f.eof.length < 4 ∨ f.access.length < 1 ∨ f.created.length < 5 ∨ f.modified.length < 4) := by omega
  have n1 : (f.eof.take 4).length = 4 := by simp; omega
  have n2 : (f.access.take 1).length = 1 := by simp; omega
  have n3 : (f.created.take 1).length = 1 := by simp; omega
  have n4 : ((f.created.drop 1).take 2).length = 2 := by simp; omega
  have n5 : ((f.created.drop 3).take 2).length = 2 := by simp; omega
  have n6 : (f.modified.take 2).length = 2 := by simp; omega
  have n7 : ((f.modified.drop 2).take 2).length = 2 := by simp; omega
  -- the eight assignments, one after the other
  have l1 := splice_length (e := e) (off := 28) (new := f.eof.take 4) (by omega)
  generalize hx1 : splice e 28 (f.eof.take 4) = x1 at l1
  have l2 := splice_length (e := x1) (off := 11) (new := f.access.take 1) (by omega)
  generalize hx2 : splice x1 11 (f.access.take 1) = x2 at l2
  have l3 := splice_length (e := x2) (off := 13) (new := f.created.take 1) (by omega)
  generalize hx3 : splice x2 13 (f.created.take 1) = x3 at l3
  have l4 := splice_length (e := x3) (off := 14) (new := (f.created.drop 1).take 2) (by omega)
  generalize hx4 : splice x3 14 ((f.created.drop 1).take 2) = x4 at l4
  have l5 := splice_length (e := x4) (off := 16) (new := (f.created.drop 3).take 2) (by omega)
  generalize hx5 : splice x4 16 ((f.created.drop 3).take 2) = x5 at l5
  have l6 := splice_length (e := x5) (off := 22) (new := f.modified.take 2) (by omega)
  generalize hx6 : splice x5 22 (f.modified.take 2) = x6 at l6
  have l7 := splice_length (e := x6) (off := 24) (new := (f.modified.drop 2).take 2) (by omega)
  generalize hx7 : splice x6 24 ((f.modified.drop 2).take 2) = x7 at l7
  have l8 := splice_length (e := x7) (off := 18) (new := (f.modified.drop 2).take 2) (by omega)
  generalize hx8 : splice x7 18 ((f.modified.drop 2).take 2) = x8 at l8
  have hrun : fimgToMetadata e f = .ok x8 := by
    unfold fimgToMetadata
    rw [if_neg hne, hx1, hx2, hx3, hx4, hx5, hx6, hx7, hx8]
  -- a byte outside all the later fields
  have later : ∀ i, (i < 13 ∨ 26 ≤ i) → x8.getD i 0 = x2.getD i 0 := by
    intro i hi
    rw [← hx8, splice_out (by omega) (by omega), ← hx7, splice_out (by omega) (by omega), ← hx6, splice_out (by omega) (by omega),
      ← hx5, splice_out (by omega) (by omega), ← hx4, splice_out (by omega) (by omega), ← hx3, splice_out (by omega) (by omega)]
  refine ⟨x8, hrun, by omega, ?_, ?_, ?_⟩
  · intro i hi
    by_cases hlo : i < 13 ∨ 26 ≤ i
    · rw [later i hlo, ← hx2, splice_out (by omega) (by omega), ← hx1, splice_out (by omega) (by omega)]
    · -- 20, 21
      have h2021 : i = 20 ∨ i = 21 := by omega
      rw [← hx8, splice_out (by omega) (by omega), ← hx7, splice_out (by omega) (by omega), ← hx6, splice_out (by omega) (by omega),
        ← hx5, splice_out (by omega) (by omega), ← hx4, splice_out (by omega) (by omega), ← hx3, splice_out (by omega) (by omega),
        ← hx2, splice_out (by omega) (by omega), ← hx1, splice_out (by omega) (by omega)]
  · rw [later 11 (by omega), ← hx2]
    have := splice_in (e := x1) (off := 11) (new := f.access.take 1) (by omega) (k := 0) (by omega)
    rw [this]
    simp [List.getD_eq_getElem?_getD, List.getElem?_take]
  · intro k hk
    rw [later (28 + k) (by omega), ← hx2, splice_out (by omega) (by omega), ← hx1]
    have := splice_in (e := e) (off := 28) (new := f.eof.take 4) (by omega) (k := k) (by omega)
    rw [this]
    simp [List.getD_eq_getElem?_getD, List.getElem?_take, hk]

/-- `set_cluster(c)` for a cluster number below 65536 -/
theorem entrySetCluster_spec {e : Bytes} (he : e.length = 32) {c : Nat} (hc : c < 65536) :
    (Entry.setCluster e c).length = 32 ∧ le16 (Entry.setCluster e c) 26 = c ∧
      ∀ i, (i < 20 ∨ 28 ≤ i) → (Entry.setCluster e c).getD i 0 = e.getD i 0 := by
  unfold Entry.setCluster
  have l1 := splice_length (e := e) (off := 26) (new := u16le c) (by simp [u16le]; omega)
  generalize hx1 : splice e 26 (u16le c) = x1 at l1
  have l2 := splice_length (e := x1) (off := 20) (new := u16le (c / 65536)) (by simp [u16le]; omega)
  refine ⟨by omega, ?_, ?_⟩
  · unfold le16
    rw [splice_out (by simp [u16le]; omega) (by simp [u16le]), splice_out (by simp [u16le]; omega) (by simp [u16le]), ← hx1]
    have a0 := splice_in (e := e) (off := 26) (new := u16le c) (by simp [u16le]; omega) (k := 0) (by simp [u16le])
    have a1 := splice_in (e := e) (off := 26) (new := u16le c) (by simp [u16le]; omega) (k := 1) (by simp [u16le])
    rw [a0, a1]
    simp [u16le]
    omega
  · intro i hi
    rw [splice_out (by simp [u16le]; omega) (by simp [u16le]; omega), ← hx1, splice_out (by simp [u16le]; omega) (by simp [u16le]; omega)]

end A2Verif.FsFat
