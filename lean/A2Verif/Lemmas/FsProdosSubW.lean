import A2Verif.Lemmas.FsProdosSubR
import A2Verif.Lemmas.FsProdosModM
/-!
# Walks into a first-level sub-directory

`KeyCtx`: what the walks on the directory with key block `K` need (`RootCtx` for any key block).  `SInv.subctx`: an `SInv`
state provides it for the sub-directory behind every directory slot of the volume directory.  `searchVolume_sub`:
`search_volume` for a path whose normal form is `[volume, dir, name]`.  `writeEntry_key`, `modify_trace_key`: `write_entry`
and `modify` on a slot of such a directory.
-/
namespace A2Verif.FsProdos
open A2Verif.Fs.Prodos
open A2Verif.Read.Prodos (entryAt dirChain trimName)
open A2Verif.Read.ProdosT

/-- what the walks on the directory with key block `K` and chain `sch` need -/
structure KeyCtx (d : Disk) (bm cnt : Nat) (K : Nat) (sch : List Nat) : Prop where
  st : St d bm cnt
  chain : IsChain d.raw K sch
  k0 : K ≠ 0
  nb : ∀ x ∈ sch, x ∉ bmRange bm cnt
  kinds : KindsOk d.raw K sch
  len : sch.length ≤ 100
  prev : PrevOk d.raw 0 sch

theorem isChain_head_of_ne {r : Raw} {b : Nat} {l : List Nat} (h : IsChain r b l) (hb : b ≠ 0) : ∃ rest, l = b :: rest := by
  cases h with
  | nil => exact absurd rfl hb
  | cons _ _ _ => exact ⟨_, rfl⟩

theorem RootCtx.key {d : Disk} {bm cnt : Nat} {ch : List Nat} (c : RootCtx d bm cnt ch) : KeyCtx d bm cnt 2 ch :=
  ⟨c.st, c.chain, by omega, c.nb, c.kinds, c.len, c.prev⟩

theorem KeyCtx.head {d : Disk} {bm cnt K : Nat} {sch : List Nat} (c : KeyCtx d bm cnt K sch) : ∃ rest, sch = K :: rest :=
  isChain_head_of_ne c.chain c.k0

theorem KeyCtx.mem {d : Disk} {bm cnt K : Nat} {sch : List Nat} (c : KeyCtx d bm cnt K sch) : K ∈ sch := by
  obtain ⟨rest, h⟩ := c.head; rw [h]; exact List.mem_cons_self

theorem searchEntries_key {d : Disk} {bm cnt K : Nat} {sch : List Nat} (c : KeyCtx d bm cnt K sch) (types : List Nat) (nm : Bytes) :
    searchEntries types nm K d =
      (if !isNameValid nm then .error .syntax else .ok (((dirSlots d.raw K sch).find? (isHit types nm)).map slotLoc), d) := by
  unfold searchEntries
  by_cases hv : isNameValid nm = true
  · simp only [hv, Bool.not_true, Bool.false_eq_true, ↓reduceIte]
    exact searchLoop_chain d bm cnt c.st types nm K sch 100 K c.chain c.k0 c.nb c.kinds c.len
  · have hv' : isNameValid nm = false := by simpa using hv
    simp [hv', M.fail]

/-- the kinds along the chain of a sub-directory: the key block (back link zero) is a key block, the others entry blocks -/
theorem kindsOk_sub (r : Raw) (K : Nat) (rest : List Nat) (hK2 : K ≠ 2) (hK0 : K ≠ 0) (hprev : PrevOk r 0 (K :: rest))
    (hnd : (K :: rest).Nodup) (hnz : ∀ x ∈ rest, x ≠ 0 ∧ x ≠ 2) : KindsOk r K (K :: rest) := by
  rw [List.nodup_cons] at hnd
  intro b hb
  rcases List.mem_cons.mp hb with rfl | hb'
  · refine ⟨fun _ => ?_, fun h => absurd rfl h⟩
    have h0 : le16 (unitAt r b) 0 = 0 := hprev.1
    unfold le16 at h0
    simp only [Nat.zero_add] at h0
    unfold kindOf
    rw [if_neg (by unfold volKeyBlock; exact hK2)]
    have h1 : (unitAt r b).getD 0 0 = 0 := by omega
    have h2 : (unitAt r b).getD 1 0 = 0 := by omega
    simp only [List.getD_eq_getElem?_getD] at h1 h2
    simp [h1, h2]
  · exact kindsOk_tail r K rest K hK0 hprev.2 hnd.1 (fun x hx => ⟨(hnz x hx).1, by unfold volKeyBlock; exact (hnz x hx).2⟩) b hb'

/-- **the sub-directory behind a directory slot of an `SInv` state** -/
theorem SInv.subctx {d : Disk} (hs : SInv d) (v : Vol) (fsL : List LRec) (ch : List Nat)
    (hr : Read.ProdosT.read d.raw = .ok v) (ht : readTree d.raw (hdrTotal d.raw) = .ok (fsL, ch))
    (x : Bytes × Nat × Nat) (hxm : x ∈ dirSlots d.raw 2 ch) (hd : x.1.getD 0 0 / 16 = 0xD) :
    ∃ sch, dirChain d.raw (hdrTotal d.raw) 1000 (le16 x.1 0x11) [] = .ok sch ∧ SubTail d.raw x sch ∧
      KeyCtx d (hdrBm d.raw) (nbmOf (hdrTotal d.raw)) (le16 x.1 0x11) sch ∧
      (∀ b ∈ sch, b ∈ v.allOwned ∧ b ∉ ch ∧ b < hdrTotal d.raw ∧ b < d.raw.units.size ∧
        (unitAt d.raw b).length = 512 ∧ (∀ y ∈ unitAt d.raw b, y < 256) ∧
        b / 8 < (bufOf d.raw (hdrBm d.raw) (nbmOf (hdrTotal d.raw))).size ∧
        freeB (bufOf d.raw (hdrBm d.raw) (nbmOf (hdrTotal d.raw))) b = false) ∧
      le16 x.1 0x11 ≠ 2 := by
  obtain ⟨v', fsL', ch', hr', ht', c, hts, heff, hbsz, hbok⟩ := hs.ctx
  have e1 : v' = v := by rw [hr] at hr'; injection hr' with h; exact h.symm
  subst e1
  have e2 : fsL' = fsL ∧ ch' = ch := by
    rw [ht] at ht'; injection ht' with h; injection h with h1 h2; exact ⟨h1.symm, h2.symm⟩
  obtain ⟨rfl, rfl⟩ := e2
  obtain ⟨hw, hn, hroot, hv, hcr, hic, hnd, hchf, h2, h6, h3, hbt, hstv⟩ := root_chain_facts hs.inv v' fsL' ch' hr ht
  obtain ⟨sch, hc, htail⟩ := sub_tail hs.inv v' fsL' ch' hr ht x hxm hd
  obtain ⟨hnl, hgeo, hprev, hlen, hhdr, hp1, hp2, hslots⟩ := htail
  obtain ⟨hsic, hslt, hsnd⟩ := dirChain_ok d.raw (hdrTotal d.raw) 1000 _ sch hc
  have hact : isAct x = true := by unfold isAct; simp only [ne_eq, decide_eq_true_eq]; omega
  obtain ⟨_, _, _, _, _, _, _, hxown, hall, _⟩ := slot_split_facts hs.inv v' fsL' ch' hr ht x hxm
  obtain ⟨z, hz⟩ := hall x hxm hact
  obtain ⟨fs, sch', hzeq, hc', hk0, hkt, _, _, _, _, _⟩ := dir_slot_facts hd hz hgeo
  have hse : sch' = sch := by rw [hc] at hc'; injection hc' with e; exact e.symm
  subst hse
  have hgx : slotRecs 69 d.raw (hdrTotal d.raw) [] 0 x = z := by unfold slotRecs; rw [if_pos hact, hz]; rfl
  have hown : ∀ b ∈ sch', b ∈ v'.allOwned := by
    intro b hb
    apply hxown
    rw [hgx, hzeq]; simp only [List.map_cons, List.flatMap_cons]
    exact List.mem_append_left _ hb
  have hnch : ∀ b ∈ sch', b ∉ ch' := fun b hb hm => (hchf b hm).2.2.1 (hown b hb)
  have hndw := (wfB_iff.1 hw).2.1
  have hnbm : ∀ b ∈ sch', b ∉ bmRange (hdrBm d.raw) (nbmOf (hdrTotal d.raw)) := by
    intro u hu hm
    have hsysj : u ∈ v'.sys := by
      rw [hv]; simp only
      rw [mem_bmRange] at hm
      apply List.mem_append_right
      rw [List.mem_map]; exact ⟨u - hdrBm d.raw, List.mem_range.mpr (by omega), by omega⟩
    rw [List.nodup_append] at hndw
    exact hndw.2.2 _ (hown u hu) _ hsysj rfl
  have hKm : le16 x.1 0x11 ∈ sch' := dirChain_start_mem d.raw (hdrTotal d.raw) 1000 _ sch' hk0 hc
  have hK2 : le16 x.1 0x11 ≠ 2 := fun e => hnch _ hKm (e ▸ h2)
  obtain ⟨rest, hsch⟩ : ∃ rest, sch' = le16 x.1 0x11 :: rest := isChain_head_of_ne hsic hk0
  have hkinds : KindsOk d.raw (le16 x.1 0x11) sch' := by
    rw [hsch]
    apply kindsOk_sub d.raw _ rest hK2 hk0 (by rw [← hsch]; exact hprev) (by rw [← hsch]; exact hsnd)
    intro y hy
    have hym : y ∈ sch' := by rw [hsch]; exact List.mem_cons_of_mem _ hy
    exact ⟨hsic.ne_zero y hym, fun e => hnch y hym (e ▸ h2)⟩
  refine ⟨sch', hc, ⟨hnl, hgeo, hprev, hlen, hhdr, hp1, hp2, hslots⟩, ⟨c.st, hsic, hk0, hnbm, hkinds, hlen, hprev⟩, ?_, hK2⟩
  intro b hb
  have hbl : b < d.raw.units.size := hsic.exists b hb
  refine ⟨hown b hb, hnch b hb, hslt b hb, hbl, (hs.inv.shape.unit hbl).1, (hs.inv.shape.unit hbl).2, ?_, ?_⟩
  · rw [hbsz]; exact cover_of_lt (hslt b hb)
  · have hnf := (wfB_iff.1 hw).2.2.1 b (hown b hb)
    rw [hv] at hnf
    simp only [List.mem_filter, List.mem_range, not_and, Bool.not_eq_true] at hnf
    exact hnf (hslt b hb)

/-- `read_entry` on a slot of a directory -/
theorem readEntry_key {d : Disk} {bm cnt K : Nat} {sch : List Nat} (c : KeyCtx d bm cnt K sch)
    (B k : Nat) (hB : B ∈ sch) (hk13 : k < 13) (hkey : B = K → 1 ≤ k) :
    readEntry { block := B, idx := k + 1 } d = (.ok (entryAt (unitAt d.raw B) k 39), d) := by
  have hBsz : B < d.raw.units.size := c.chain.exists B hB
  unfold readEntry
  simp only [bind_def]
  rw [bind_ok _ _ d d _ (getDirectory_st c.st B (unitAt d.raw B) (c.nb B hB) (units_get_unitAt _ _ hBsz))]
  have : Dir.getEntry { kind := kindOf B (unitAt d.raw B), bytes := (unitAt d.raw B).take dirLen } (k + 1) =
      some (entryAt (unitAt d.raw B) k 39) := by
    apply getEntry_std _ _ k hk13
    intro hne
    by_cases hb : B = K
    · exact hkey hb
    · exact absurd ((c.kinds B hB).2 hb) hne
  simp only [this]
  rfl

/-- **`search_volume` for a path whose normal form is `[volume, dir, name]`**: the directory is not found -/
theorem searchVolume_sub_nodir {d : Disk} {bm cnt : Nat} {ch : List Nat} (c : RootCtx d bm cnt ch) (types : List Nat)
    (path dn nm : Bytes)
    (hnodes : normalizePath (volName (hdrOf d.raw)) path = .ok [volName (hdrOf d.raw), dn, nm])
    (hnone : isNameValid dn = false ∨ (dirSlots d.raw 2 ch).find? (isHit [stSubDirEntry] dn) = none) :
    ∃ e, searchVolume types path d = (.error e, d) ∧ e ≠ .panic := by
  unfold searchVolume
  simp only [bind_def]
  rw [bind_ok _ _ d d _ (getVolHeader_root c)]
  have hlift : M.lift (normalizePath (volName (hdrOf d.raw)) path) d = (.ok [volName (hdrOf d.raw), dn, nm], d) := by
    unfold M.lift; rw [hnodes]
  rw [bind_ok _ _ d d _ hlift]
  have h0 : [volName (hdrOf d.raw), dn, nm].getD 0 [] = volName (hdrOf d.raw) := rfl
  simp only [h0, ne_eq, not_true_eq_false, ↓reduceIte, List.length_cons, List.length_nil, Nat.zero_add, Nat.reduceAdd,
    Nat.lt_irrefl, false_and]
  have hr : rng 1 3 = [1, 2] := rfl
  rw [hr]
  unfold walkLoop
  simp only [bind_def]
  have hs : [volName (hdrOf d.raw), dn, nm].getD 1 [] = dn := rfl
  rw [hs]
  simp only [Nat.add_one_sub_one, Nat.reduceSub, Nat.reduceEqDiff, ↓reduceIte]
  unfold M.bind
  rw [searchEntries_root c [stSubDirEntry] dn]
  rcases hnone with h | h
  · rw [h]; exact ⟨_, rfl, by decide⟩
  · by_cases hv : isNameValid dn = true
    · simp only [hv, Bool.not_true, Bool.false_eq_true, ↓reduceIte, h, Option.map_none]
      exact ⟨_, rfl, by decide⟩
    · have hv' : isNameValid dn = false := by simpa using hv
      rw [hv']; exact ⟨_, rfl, by decide⟩

/-- **`search_volume` for a path whose normal form is `[volume, dir, name]`**: the directory entry is in slot `(B, k + 1)` of
the volume directory; the search continues in the directory it leads to -/
theorem searchVolume_sub {d : Disk} {bm cnt : Nat} {ch : List Nat} (c : RootCtx d bm cnt ch) (types : List Nat)
    (path dn nm : Bytes)
    (hnodes : normalizePath (volName (hdrOf d.raw)) path = .ok [volName (hdrOf d.raw), dn, nm]) (hnm : nm ≠ [])
    (hv : isNameValid dn = true) (B k : Nat) (hB : B ∈ ch) (hk13 : k < 13) (hkey : B = 2 → 1 ≤ k)
    (hx : (dirSlots d.raw 2 ch).find? (isHit [stSubDirEntry] dn) = some (entryAt (unitAt d.raw B) k 39, B, k + 1))
    (sch : List Nat) (sc : KeyCtx d bm cnt (le16 (entryAt (unitAt d.raw B) k 39) 17) sch) :
    searchVolume types path d = (rootSearch types nm (dirSlots d.raw (le16 (entryAt (unitAt d.raw B) k 39) 17) sch), d) := by
  unfold searchVolume
  simp only [bind_def]
  rw [bind_ok _ _ d d _ (getVolHeader_root c)]
  have hlift : M.lift (normalizePath (volName (hdrOf d.raw)) path) d = (.ok [volName (hdrOf d.raw), dn, nm], d) := by
    unfold M.lift; rw [hnodes]
  rw [bind_ok _ _ d d _ hlift]
  have h0 : [volName (hdrOf d.raw), dn, nm].getD 0 [] = volName (hdrOf d.raw) := rfl
  simp only [h0, ne_eq, not_true_eq_false, ↓reduceIte, List.length_cons, List.length_nil, Nat.zero_add, Nat.reduceAdd,
    Nat.lt_irrefl, false_and]
  have hr : rng 1 3 = [1, 2] := rfl
  rw [hr]
  unfold walkLoop
  simp only [bind_def]
  have hs : [volName (hdrOf d.raw), dn, nm].getD 1 [] = dn := rfl
  have hs2 : [volName (hdrOf d.raw), dn, nm].getD (3 - 1) [] = nm := rfl
  rw [hs, hs2]
  simp only [Nat.add_one_sub_one, Nat.reduceSub, Nat.reduceEqDiff, ↓reduceIte, Nat.reduceAdd, hnm, false_and, and_false, or_false]
  have hse : searchEntries [stSubDirEntry] dn 2 d = (.ok (some (slotLoc (entryAt (unitAt d.raw B) k 39, B, k + 1))), d) := by
    rw [searchEntries_root c [stSubDirEntry] dn]
    simp only [hv, Bool.not_true, Bool.false_eq_true, ↓reduceIte, hx, Option.map_some]
  rw [bind_ok _ _ d d _ hse]
  simp only []
  have hre : readEntry (slotLoc (entryAt (unitAt d.raw B) k 39, B, k + 1)) d = (.ok (entryAt (unitAt d.raw B) k 39), d) :=
    readEntry_key c.key B k hB hk13 hkey
  rw [bind_ok _ _ d d _ hre]
  unfold walkLoop
  simp only [bind_def]
  have hs3 : [volName (hdrOf d.raw), dn, nm].getD 2 [] = nm := rfl
  rw [hs3]
  simp only [Nat.reduceSub, ↓reduceIte, true_or]
  unfold M.bind
  have hkp : Ent.keyPtr (entryAt (unitAt d.raw B) k 39) = le16 (entryAt (unitAt d.raw B) k 39) 17 := rfl
  rw [hkp, searchEntries_key sc types nm]
  unfold rootSearch
  by_cases hvn : isNameValid nm = true
  · simp only [hvn, Bool.not_true, Bool.false_eq_true, ↓reduceIte]
    cases (dirSlots d.raw (le16 (entryAt (unitAt d.raw B) k 39) 17) sch).find? (isHit types nm) with
    | some x => simp [pure_def, M.pure]
    | none => simp [M.fail]
  · have hv' : isNameValid nm = false := by simpa using hvn
    simp [hv']

/-- `write_entry` on a slot of a directory other than the volume directory -/
theorem writeEntry_key {d : Disk} {bm cnt K : Nat} {sch : List Nat} (c : KeyCtx d bm cnt K sch) (hK2 : 2 ∉ sch)
    (B k : Nat) (hB : B ∈ sch) (hk13 : k < 13) (hkey : B = K → 1 ≤ k)
    (hcov : B / 8 < (effBuf d bm cnt).size) (e : Bytes) :
    ∃ d1, writeEntry { block := B, idx := k + 1 } e d = (.ok (), d1) ∧
      Next d d1 bm cnt (setUnit d.raw B (patched (unitAt d.raw B) (4 + k * 39) (e.take entryLen))) (clearBit (effBuf d bm cnt) B) := by
  have hBsz : B < d.raw.units.size := c.chain.exists B hB
  have hB2 : B ≠ 2 := fun h => hK2 (h ▸ hB)
  have hoff : Dir.entryOff (k + 1) = 4 + k * 39 := by rw [entryOff_eq' _ (by omega)]; simp
  have hgd := getDirectory_st c.st B (unitAt d.raw B) (c.nb B hB) (units_get_unitAt _ _ hBsz)
  have hge : Dir.getEntry { kind := kindOf B (unitAt d.raw B), bytes := (unitAt d.raw B).take dirLen } (k + 1) =
      some (entryAt (unitAt d.raw B) k 39) := by
    apply getEntry_std _ _ k hk13
    intro hne
    by_cases hb : B = K
    · exact hkey hb
    · exact absurd ((c.kinds B hB).2 hb) hne
  have hidx : Dir.idxOk { kind := kindOf B (unitAt d.raw B), bytes := (unitAt d.raw B).take dirLen } (k + 1) = true := by
    unfold Dir.getEntry at hge
    split at hge
    · assumption
    · cases hge
  obtain ⟨d1, hd1, n1⟩ := writeBlock_next c.st (splice ((unitAt d.raw B).take dirLen) (Dir.entryOff (k + 1)) (e.take entryLen)) B
    (c.nb B hB) hBsz hcov (fun h => absurd h hB2)
  refine ⟨d1, ?_, ?_⟩
  · unfold writeEntry
    simp only [bind_def]
    rw [bind_ok _ _ d d _ hgd]
    simp only [Dir.setEntry, hidx, ↓reduceIte]
    rw [bind_ok _ _ d d _ (ofOption_some _ d)]
    exact hd1
  · have : quantize ((splice ((unitAt d.raw B).take dirLen) (Dir.entryOff (k + 1)) (e.take entryLen)).take blockSize) =
        patched (unitAt d.raw B) (4 + k * 39) (e.take entryLen) := by rw [← hoff]; rfl
    rw [this] at n1
    exact n1

/-- `modify` on a slot of a directory other than the volume directory -/
theorem modify_trace_key {d : Disk} {bm cnt K : Nat} {sch : List Nat} (c : KeyCtx d bm cnt K sch) (hK2 : 2 ∉ sch)
    (B k : Nat) (hB : B ∈ sch) (hk13 : k < 13) (hkey : B = K → 1 ≤ k)
    (lock : Option Bool) (newName : Option Bytes) (newType : Option (Option Nat)) (newAux : Option Nat)
    (hty : newType ≠ some none)
    (hren : ¬ (Ent.access (entryAt (unitAt d.raw B) k 39) &&& 0x40 = 0 ∧ newName.isSome = true))
    (hcov : B / 8 < (effBuf d bm cnt).size) :
    ∃ d1, Fs.Prodos.modify { block := B, idx := k + 1 } lock newName newType newAux d = (.ok (), d1) ∧
      Next d d1 bm cnt
        (setUnit d.raw B (patched (unitAt d.raw B) (4 + k * 39)
          ((modEntry lock newName newType newAux (entryAt (unitAt d.raw B) k 39)).take entryLen)))
        (clearBit (effBuf d bm cnt) B) := by
  have hBsz : B < d.raw.units.size := c.chain.exists B hB
  have hgd := getDirectory_st c.st B (unitAt d.raw B) (c.nb B hB) (units_get_unitAt _ _ hBsz)
  have hge : Dir.getEntry { kind := kindOf B (unitAt d.raw B), bytes := (unitAt d.raw B).take dirLen } (k + 1) =
      some (entryAt (unitAt d.raw B) k 39) := by
    apply getEntry_std _ _ k hk13
    intro hne
    by_cases hb : B = K
    · exact hkey hb
    · exact absurd ((c.kinds B hB).2 hb) hne
  have hwe := fun e => writeEntry_key c hK2 B k hB hk13 hkey hcov e
  rcases newType with _ | (_ | t)
  · obtain ⟨d1, hd1, n1⟩ := hwe (modEntry lock newName none newAux (entryAt (unitAt d.raw B) k 39))
    refine ⟨d1, ?_, n1⟩
    unfold Fs.Prodos.modify
    simp only [bind_def]
    rw [bind_ok _ _ d d _ hgd]
    simp only [hge]
    rw [bind_ok _ _ d d _ (ofOption_some _ d)]
    rw [if_neg hren]
    exact hd1
  · exact absurd rfl hty
  · obtain ⟨d1, hd1, n1⟩ := hwe (modEntry lock newName (some (some t)) newAux (entryAt (unitAt d.raw B) k 39))
    refine ⟨d1, ?_, n1⟩
    unfold Fs.Prodos.modify
    simp only [bind_def]
    rw [bind_ok _ _ d d _ hgd]
    simp only [hge]
    rw [bind_ok _ _ d d _ (ofOption_some _ d)]
    rw [if_neg hren]
    exact hd1

end A2Verif.FsProdos
