import A2Verif.Lemmas.FsProdosPutG
/-!
# `write_file(loc, fimg)` as a step
-/
namespace A2Verif.FsProdos
open A2Verif.Fs.Prodos
open A2Verif.Read.Prodos (entryAt dirChain idxPtr indexEntries readData trimName)
open A2Verif.Read.ProdosT

/-- what the loop of `write_file` leaves: a seedling, a sapling or a tree -/
def LoopRes (f : FImg) (d2 : Disk) (bm cnt : Nat) (e0 : Bytes) (nb : Nat) (s : WS) (dc : Disk) (Al : List Nat) : Prop :=
  (f.end_ = 1 ∧ SeedInv f d2 bm cnt e0 nb s dc Al) ∨
  (2 ≤ f.end_ ∧ f.end_ ≤ 256 ∧ ∃ P, SapInv f d2 bm cnt e0 f.end_ s dc Al P) ∨
  (256 < f.end_ ∧ ∃ G P, TreeInv f d2 bm cnt e0 f.end_ s dc Al G P ∧ 1 ≤ s.indexCount)

theorem writeFile_trace' {f : FImg} {d2 : Disk} {bm cnt : Nat} {e0 nm : Bytes} {ft nb acc0 aux : Nat}
    (ctx : LoopCtx d2 bm cnt) (B k : Nat) (hBnb : B ∉ bmRange bm cnt) (hBsz : B < d2.raw.units.size)
    (hcovB : B / 8 < (effBuf d2 bm cnt).size) (hlenB : (unitAt d2.raw B).length = 512)
    (hk13 : k < 13) (hkok : kindOf B (unitAt d2.raw B) ≠ DKind.entry → 1 ≤ k)
    (he0 : entryAt (unitAt d2.raw B) k 39 = e0) (ne : NewEntry e0 nm ft nb acc0 aux)
    (hBused : freeB (effBuf d2 bm cnt) B = false)
    (hnb : ∀ p, (List.range d2.total).find? (freeB (effBuf d2 bm cnt)) = some p → p = nb)
    (hfh : d2.src.firstHole = true) (hne : f.chunks.length ≠ 0) (h1 : 1 ≤ f.end_) (hend : f.end_ ≤ 32768)
    (hfit : allocCount f f.end_ ≤ (freeBlocks (effBuf d2 bm cnt) d2.total).length)
    (h0 : f.end_ = 1 → hasChunk f 0 = true)
    (hbytes : ∀ k data, f.chunks.lookup k = some data → ∀ x ∈ data, x < 256)
    (acc : Nat) (hacc : f.access[0]? = some acc) :
    ∃ s dc Al d3, writeFile { block := B, idx := k + 1 } f d2 = (.ok f.eof, d3) ∧
      LoopRes f d2 bm cnt e0 nb s dc Al ∧
      AState d2 bm cnt dc Al ∧ B ∉ Al ∧
      Next dc d3 bm cnt
        (setUnit dc.raw B (patched (unitAt d2.raw B) (4 + k * 39)
          (Ent.setAccess (if f.eof > 0 then Ent.setEof s.entry f.eof else s.entry) acc)))
        (clearBit (effBuf dc bm cnt) B) := by
  have hgd := getDirectory_st ctx.st B (unitAt d2.raw B) hBnb (units_get_unitAt _ _ hBsz)
  have hge : Dir.getEntry { kind := kindOf B (unitAt d2.raw B), bytes := (unitAt d2.raw B).take dirLen } (k + 1) =
      some (entryAt (unitAt d2.raw B) k 39) := getEntry_std _ _ k hk13 hkok
  rw [he0] at hge
  obtain ⟨s, dc, Al, hloop, hres⟩ := write_loop (f := f) ctx ((ne.efacts).setEof 0) hnb hfh h1 hend hfit h0 hbytes
  have ha : AState d2 bm cnt dc Al := by
    rcases hres with ⟨_, i⟩ | ⟨_, _, P, i⟩ | ⟨_, G, P, i, _⟩
    · exact i.a
    · exact i.core.a
    · exact i.a
  have hBAl : B ∉ Al := by
    intro hm; have := (ha.alfree B hm).1; rw [hBused] at this; cases this
  have huB : unitAt dc.raw B = unitAt d2.raw B := unitAt_congr (ha.rawoth B hBAl)
  have hent : ∃ st key used, EFacts e0 s.entry st key used := by
    rcases hres with ⟨_, i⟩ | ⟨_, _, P, i⟩ | ⟨_, G, P, i, _⟩
    · exact ⟨_, _, _, i.ent⟩
    · exact ⟨_, _, _, i.core.ent⟩
    · exact ⟨_, _, _, i.ent⟩
  obtain ⟨st, key, used, hef⟩ := hent
  have hl1 : (Ent.setAccess (if f.eof > 0 then Ent.setEof s.entry f.eof else s.entry) acc).length = 39 := by
    split
    · exact setAccess_length _ _ (hef.setEof f.eof).len
    · exact setAccess_length _ _ hef.len
  obtain ⟨d3, hd3, n3⟩ := writeEntry_next' ha.st B k hBnb (by rw [ha.rawsz]; exact hBsz) (by rw [ha.bufsz]; exact hcovB)
    (by rw [huB]; exact hlenB) hk13 (by rw [huB]; exact hkok)
    (Ent.setAccess (if f.eof > 0 then Ent.setEof s.entry f.eof else s.entry) acc)
  rw [take_full _ hl1, huB] at n3
  refine ⟨s, dc, Al, d3, ?_, hres, ha, hBAl, n3⟩
  unfold writeFile
  simp only [bind_def, pure_def]
  rw [if_neg hne, bind_ok _ _ d2 d2 _ hgd]
  simp only [hge]
  rw [bind_ok _ _ d2 d2 _ (ofOption_some _ d2)]
  unfold ws0 at hloop
  rw [bind_ok _ _ d2 dc _ hloop]
  simp only [hacc]
  rw [bind_ok _ _ dc dc _ (ofOption_some _ dc), bind_ok _ _ dc d3 _ hd3]
  rfl

theorem writeFile_trace {f : FImg} {d2 : Disk} {bm cnt : Nat} {e0 nm : Bytes} {ft nb acc0 aux : Nat}
    (ctx : LoopCtx d2 bm cnt) (B k : Nat) (hBnb : B ∉ bmRange bm cnt) (hBsz : B < d2.raw.units.size)
    (hcovB : B / 8 < (effBuf d2 bm cnt).size) (hlenB : (unitAt d2.raw B).length = 512)
    (hk13 : k < 13) (hkey : B = 2 → 1 ≤ k) (hkind : B ≠ 2 → kindOf B (unitAt d2.raw B) = DKind.entry)
    (he0 : entryAt (unitAt d2.raw B) k 39 = e0) (ne : NewEntry e0 nm ft nb acc0 aux)
    (hBused : freeB (effBuf d2 bm cnt) B = false)
    (hnb : ∀ p, (List.range d2.total).find? (freeB (effBuf d2 bm cnt)) = some p → p = nb)
    (hfh : d2.src.firstHole = true) (hne : f.chunks.length ≠ 0) (h1 : 1 ≤ f.end_) (hend : f.end_ ≤ 32768)
    (hfit : allocCount f f.end_ ≤ (freeBlocks (effBuf d2 bm cnt) d2.total).length)
    (h0 : f.end_ = 1 → hasChunk f 0 = true)
    (hbytes : ∀ k data, f.chunks.lookup k = some data → ∀ x ∈ data, x < 256)
    (acc : Nat) (hacc : f.access[0]? = some acc) :
    ∃ s dc Al d3, writeFile { block := B, idx := k + 1 } f d2 = (.ok f.eof, d3) ∧
      LoopRes f d2 bm cnt e0 nb s dc Al ∧
      AState d2 bm cnt dc Al ∧ B ∉ Al ∧
      Next dc d3 bm cnt
        (setUnit dc.raw B (patched (unitAt d2.raw B) (4 + k * 39)
          (Ent.setAccess (if f.eof > 0 then Ent.setEof s.entry f.eof else s.entry) acc)))
        (clearBit (effBuf dc bm cnt) B) :=
  writeFile_trace' ctx B k hBnb hBsz hcovB hlenB hk13 (kok_of_root hkey hkind) he0 ne hBused hnb hfh hne h1 hend hfit h0 hbytes acc hacc

end A2Verif.FsProdos
