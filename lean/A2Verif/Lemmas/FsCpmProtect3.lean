import A2Verif.Lemmas.FsCpmProtect2
/-!
# `protect` and `unprotect` of the concrete CP/M model refine the abstract specification
-/
namespace A2Verif.FsCpm
open A2Verif.Fs.Cpm
open A2Verif.Read.Cpm (Dpb fileKey extNum entryPtrs pathOf slots trimR)

theorem contentKept_refl (v : Vol) : ContentKept v v := fun _ f hf => ⟨f, hf, rfl, rfl, rfl, rfl, rfl⟩

theorem xname_parts {x : Bytes} (hx : isXnameValid x = true) :
    ∃ u name, splitUserFilename x = .ok (u, name) ∧ isNameValid name = true ∧ u < 16 := by
  unfold isXnameValid at hx
  cases hsp : splitUserFilename x with
  | error e => rw [hsp] at hx; cases hx
  | ok un =>
    obtain ⟨u, name⟩ := un
    rw [hsp] at hx
    simp only [Bool.and_eq_true, decide_eq_true_eq] at hx
    exact ⟨u, name, rfl, hx.1, hx.2⟩

theorem newKey_app (u : Nat) (b t : Bytes) : newKey u b t = u :: (b ++ t).map (· % 128) := by
  unfold newKey; rw [List.map_append]

/-- the three ways an entry changes: the label gets the protect bit, an unused entry or the old password entry of the file
becomes the new password entry -/
theorem pwStep_label {K : List Nat} {b : Bytes} (he : b.length = 32) (hl : isLabel b = true) : PwStep K b (Lab.protect b) := by
  obtain ⟨l1, l2⟩ := labProtect_facts he hl
  have hs : status b = 32 := by unfold isLabel at hl; simpa using hl
  refine ⟨(by unfold isExtent; rw [hs]; rfl), ?_, l1, pwNeutral_of_status (Or.inr ?_), pwNeutral_of_status (Or.inr ?_)⟩
  · unfold isExtent; rw [l2]; rfl
  · have : (Lab.protect b).getD 0 0 = 32 := l2
    omega
  · have : b.getD 0 0 = 32 := hs
    omega

theorem pwStep_new {password name b : Bytes} {u : Nat} {rd wr del : Bool} (hb : status b = 229) :
    PwStep (newKey u (stringToFileName name).1 (stringToFileName name).2) b (passwordCreate password u name rd wr del) := by
  obtain ⟨p1, p2, p3⟩ := passwordCreate_facts password u name rd wr del
  refine ⟨?_, ?_, p1, ?_, pwNeutral_of_status (Or.inr ?_)⟩
  · unfold isExtent; rw [hb]; rfl
  · cases hc : isExtent (passwordCreate password u name rd wr del) with
    | false => rfl
    | true => have := (isExtent_iff _).1 hc; omega
  · rw [newKey_app]
    exact pwNeutral_of_fields p2 (by rw [p3])
  · have : b.getD 0 0 = 229 := hb
    omega

theorem pwStep_hit {password name b : Bytes} {u : Nat} {rd wr del : Bool}
    (hb : pwHit u (stringToFileName name).1 (stringToFileName name).2 b = true) :
    PwStep (newKey u (stringToFileName name).1 (stringToFileName name).2) b (passwordCreate password u name rd wr del) := by
  obtain ⟨p1, p2, p3⟩ := passwordCreate_facts password u name rd wr del
  obtain ⟨q1, q2, q3⟩ := pwHit_facts hb
  refine ⟨q1, ?_, p1, ?_, ?_⟩
  · cases hc : isExtent (passwordCreate password u name rd wr del) with
    | false => rfl
    | true => have := (isExtent_iff _).1 hc; omega
  · rw [newKey_app]
    exact pwNeutral_of_fields p2 (by rw [p3])
  · rw [newKey_app]
    exact pwNeutral_of_fields q2 (by rw [q3])

/-- **`protect` refines the abstract specification**: a refusal changes nothing; a success is a `retype`-like step of the file
`canon x` (content, length, blocks kept; every other file identical), and no file loses its read-only flag -/
theorem protect_refines {d : Dpb} {r r' : Raw} {x password : Bytes} {rd wr del : Bool} {res : R Unit} (h : Inv d r)
    (hx : isXnameValid x = true) (hop : protect d r x password rd wr del = (res, r')) :
    Inv d r' ∧ stepOk (cpmParams d) (volOf d r) (.retype (canon x)) (okB res) (volOf d r') = true ∧
      ContentKept (volOf d r) (volOf d r') := by
  have refused : ∀ {e : Err}, (Except.error e, r) = (res, r') →
      Inv d r' ∧ stepOk (cpmParams d) (volOf d r) (.retype (canon x)) (okB res) (volOf d r') = true ∧
        ContentKept (volOf d r) (volOf d r') := by
    intro e he
    cases he
    exact ⟨h, (refused_same h _).2, contentKept_refl _⟩
  obtain ⟨u, name, hsplit, hvalid, hu⟩ := xname_parts hx
  have hl := dirOf_entry_length h.shape h.dpb
  unfold protect at hop
  split at hop
  · exact refused hop
  rw [getDirectory_eq h.shape h.dpb] at hop
  simp only [] at hop
  split at hop
  · exact refused hop
  split at hop
  · exact refused hop
  cases hb : buildFiles d d.v3 (dirOf d r) with
  | error e => rw [hb] at hop; exact refused hop
  | ok files =>
    rw [hb] at hop
    simp only [] at hop
    cases hg : getFile x files with
    | none => rw [hg] at hop; exact refused hop
    | some fi =>
      rw [hg, hsplit] at hop
      simp only [] at hop
      have hexists : ∃ f, (volOf d r).lookup (canon x) = some f := by
        obtain ⟨K0, hK0, _, hpath⟩ := found_key h hb hg
        refine ⟨recOf r d (dirOf d r) (esOf d r K0), ?_⟩
        rw [← hpath]
        unfold Vol.lookup
        exact find_path_of_mem (wfB_paths_nodup (volOf_wf h)) (List.mem_map_of_mem (f := fun k => recOf r d (dirOf d r) (esOf d r k)) hK0)
      obtain ⟨f, hf⟩ := hexists
      have finish : ∀ (dir' : Dir), dir'.length = (dirOf d r).length →
          (∀ (j : Nat) (a b : Bytes), dir'[j]? = some a → (dirOf d r)[j]? = some b →
            a = b ∨ PwStep (newKey u (stringToFileName name).1 (stringToFileName name).2) b a) →
          saveDirectory d r dir' = (res, r') →
          Inv d r' ∧ stepOk (cpmParams d) (volOf d r) (.retype (canon x)) (okB res) (volOf d r') = true ∧
            ContentKept (volOf d r) (volOf d r') := by
        intro dir' hlen hstep hsave
        obtain ⟨hres, hinv', hfiles', hsame⟩ := pwop_files h hsplit hvalid hlen hstep hsave
        subst hres
        exact ⟨hinv', pwop_retype h hinv' hfiles' hsame hf, pwop_kept hinv' hfiles'⟩
      cases hup : protectUpdate u (stringToFileName name).1 (stringToFileName name).2
          (passwordCreate password u name rd wr del) (dirOf d r) with
      | some dir' =>
        rw [hup] at hop
        simp only [] at hop
        obtain ⟨i1, i2⟩ := protectUpdate_spec hup
        refine finish dir' i1 (fun j a b ha hb' => ?_) hop
        rcases i2 j a b ha hb' with e | ⟨e1, e2⟩
        · exact Or.inl e
        · rw [e1]; exact Or.inr (pwStep_hit e2)
      | none =>
        rw [hup] at hop
        simp only [] at hop
        cases hnew : protectNew (passwordCreate password u name rd wr del) (dirOf d r) [] 0 with
        | none => rw [hnew] at hop; exact refused hop
        | some dir' =>
          rw [hnew] at hop
          simp only [] at hop
          obtain ⟨l', e1, e2, e3⟩ := protectNew_spec _ _ _ _ hl hnew
          rw [List.nil_append] at e1
          subst e1
          refine finish dir' e2 (fun j a b ha hb' => ?_) hop
          rcases e3 j a b ha hb' with e | ⟨q1, q2⟩ | ⟨q1, q2⟩
          · exact Or.inl e
          · rw [q2]; exact Or.inr (pwStep_label (hl b (List.mem_of_getElem? hb')) q1)
          · rw [q2]; exact Or.inr (pwStep_new q1)

/-- the abstract operation an `unprotect x` stands for in the state `v`: a `retype`-like step of the file if it exists; if only a
stray password entry carries the name, nothing in the reading may change -/
def unprotectAbs (v : Vol) (x : Bytes) : FsOp := if (v.lookup (canon x)).isSome then .retype (canon x) else .other

/-- **`unprotect` refines the abstract specification** -/
theorem unprotect_refines {d : Dpb} {r r' : Raw} {x : Bytes} {res : R Unit} (h : Inv d r)
    (hx : isXnameValid x = true) (hop : unprotect d r x = (res, r')) :
    Inv d r' ∧ stepOk (cpmParams d) (volOf d r) (unprotectAbs (volOf d r) x) (okB res) (volOf d r') = true ∧
      ContentKept (volOf d r) (volOf d r') := by
  have refused : ∀ {e : Err}, (Except.error e, r) = (res, r') →
      Inv d r' ∧ stepOk (cpmParams d) (volOf d r) (unprotectAbs (volOf d r) x) (okB res) (volOf d r') = true ∧
        ContentKept (volOf d r) (volOf d r') := by
    intro e he
    cases he
    exact ⟨h, (refused_same h _).2, contentKept_refl _⟩
  obtain ⟨u, name, hsplit, hvalid, hu⟩ := xname_parts hx
  have hl := dirOf_entry_length h.shape h.dpb
  unfold unprotect at hop
  rw [getDirectory_eq h.shape h.dpb, hsplit] at hop
  simp only [] at hop
  split at hop
  · -- a password entry was hit
    have hlen : ((dirOf d r).map (fun e => if (isPassword e && status e == u + 16 && slice e 1 8 == (stringToFileName name).1 &&
        slice e 9 3 == (stringToFileName name).2) = true then splice e 0 [DELETED] else e)).length = (dirOf d r).length := List.length_map _
    have hstep : ∀ (j : Nat) (a b : Bytes), ((dirOf d r).map (fun e => if (isPassword e && status e == u + 16 &&
          slice e 1 8 == (stringToFileName name).1 && slice e 9 3 == (stringToFileName name).2) = true then splice e 0 [DELETED] else e))[j]? = some a →
        (dirOf d r)[j]? = some b → a = b ∨ PwStep (newKey u (stringToFileName name).1 (stringToFileName name).2) b a := by
      intro j a b ha hb
      rw [List.getElem?_map, hb] at ha
      simp only [Option.map_some, Option.some.injEq] at ha
      by_cases c : (isPassword b && status b == u + 16 && slice b 1 8 == (stringToFileName name).1 &&
          slice b 9 3 == (stringToFileName name).2) = true
      · rw [if_pos c] at ha
        subst ha
        right
        obtain ⟨q1, q2, q3⟩ := pwHit_facts (user := u) (nm := (stringToFileName name).1) (ty := (stringToFileName name).2) c
        have hb32 := hl b (List.mem_of_getElem? hb)
        have hs0 : (splice b 0 [DELETED]).getD 0 0 = 229 := by
          rw [getD_splice (by omega)]; simp
        refine ⟨q1, ?_, splice0_length hb32, pwNeutral_of_status (Or.inr (by omega)), ?_⟩
        · cases hc : isExtent (splice b 0 [DELETED]) with
          | false => rfl
          | true => have := (isExtent_iff _).1 hc; omega
        · rw [newKey_app]
          exact pwNeutral_of_fields q2 (by rw [q3])
      · rw [if_neg c] at ha
        exact Or.inl ha.symm
    obtain ⟨hres, hinv', hfiles', hsame⟩ := pwop_files h hsplit hvalid hlen hstep hop
    subst hres
    refine ⟨hinv', ?_, pwop_kept hinv' hfiles'⟩
    unfold unprotectAbs
    cases hf : (volOf d r).lookup (canon x) with
    | some f => exact pwop_retype h hinv' hfiles' hsame hf
    | none => exact pwop_other h hinv' hfiles' hsame hf
  · exact refused hop

end A2Verif.FsCpm
