import A2Verif.Lemmas.C12FsFat
/-!
# C12 read paths of the concrete FAT model on arbitrary images: chain walks, directories, `build_files`, `goto_path`

* `chainDataLoop_safe`: the cluster-chain walk never leaves the FAT buffer or a block buffer and returns at most `fuel` blocks
  (`fuel` = `cluster_count_usable`, the Rust's `for _i in 0..max_clusters`);
* `getDirectory_idem`: a directory that was read successfully reads the same again in the state reached (the FAT buffer, once open,
  stays as it is) — this is what puts `dir.get_entry(finfo.idx)` of `read_file` in range: `finfo.idx` was taken by `build_files` from
  the directory `read_file` reads again;
* `buildLoop_spec`: `build_files` does not panic on any list of entries (long-name parts, bad names, duplicates are `Err`), every
  `FileInfo` it returns has an index inside the directory, a first cluster and no wildcard;
* `gotoLoop_safe`, `gotoPath_safe`, `get_core`, `catalog_safe`, `statFree_safe`.
Core Lean only.
-/
namespace A2Verif.C12FsId.Fat
open A2Verif.Fs.Fat

theorem Ext.same {d d' : Disk} (g : Good d) (h : Ext d d') :
    d'.raw = d.raw ∧ d'.bpb = d.bpb ∧ d'.typ = d.typ ∧ d'.labelFiles = d.labelFiles := by
  cases h with
  | inl h => subst h; exact ⟨rfl, rfl, rfl, rfl⟩
  | inr h =>
    obtain ⟨_, f, hf⟩ := h
    rcases getFat_spec g with ⟨f0, h0, _, _⟩ | ⟨e, _, h0, _⟩
    · rw [h0] at hf; cases hf; exact ⟨rfl, rfl, rfl, rfl⟩
    · rw [h0] at hf; cases hf

theorem clusInRng_lt {b : Bpb} {c : Nat} (h : clusInRng b c = true) : 2 ≤ c ∧ c < firstDataCluster + b.clusterCountUsable := by
  unfold clusInRng at h
  simp only [Bool.and_eq_true, decide_eq_true_eq] at h
  exact h

theorem ne_panic_of_ok {α : Type} {x : R α} (h : ∃ v, x = .ok v) : x ≠ .error .panic := by
  obtain ⟨v, hv⟩ := h
  rw [hv]
  intro hh
  cases hh


theorem Safe.bind_get {β : Type} {f : Disk → M β} {d : Disk} {Q : β → Disk → Prop} (h : Safe (f d) d Q) :
    Safe (M.get >>= f) d Q := h

/-! ## free count -/

theorem isBlockFree_safe {d : Disk} (g : Good d) {c : Nat} (hc : c < firstDataCluster + d.bpb.clusterCountUsable) :
    Safe (isBlockFree c) d (fun _ _ => True) := by
  obtain ⟨h1, h2, h3⟩ := getFat_safe g
  unfold Safe isBlockFree
  cases hgf : getFatBuffer d with
  | mk res d' =>
    rw [hgf] at h1 h2 h3
    simp only [] at h1 h2 h3
    cases res with
    | error e => exact ⟨h1, fun hh => h2 (by cases hh; rfl), fun a ha => by cases ha⟩
    | ok f =>
      simp only []
      obtain ⟨_, hs⟩ := h3 f rfl
      have ht := (Ext.same g h1).2.2.1
      refine ⟨h1, ?_, fun _ _ => trivial⟩
      apply ne_panic_of_ok
      apply isFree_ok
      rw [hs, ht]
      exact inBuf_of_lt g hc

theorem freeLoop_safe : ∀ (l : List Nat) (free : Nat) (d : Disk), Good d → (∀ c ∈ l, c < firstDataCluster + d.bpb.clusterCountUsable) →
    Safe (freeLoop l free) d (fun _ _ => True) := by
  intro l
  induction l with
  | nil => intro free d _ _; exact Safe.pure trivial
  | cons c cs ih =>
    intro free d g hl
    unfold freeLoop
    apply Safe.bind (isBlockFree_safe g (hl c List.mem_cons_self))
    intro b d' hext _
    apply ih _ d' (good_ext g hext)
    intro c' hc'
    rw [(Ext.same g hext).2.1]
    exact hl c' (List.mem_cons_of_mem _ hc')

theorem numFreeBlocks_safe {d : Disk} (g : Good d) : Safe numFreeBlocks d (fun _ _ => True) := by
  unfold numFreeBlocks
  apply Safe.bind_get
  try dsimp only
  apply freeLoop_safe _ _ _ g
  intro c hc
  rw [List.mem_range'_1] at hc
  exact hc.2

/-! ## root directory -/

theorem getRootDir_spec {d : Disk} (hu : Units512 d.raw) :
    (getRootDir d).2 = d ∧ (getRootDir d).1 ≠ .error .panic := by
  obtain ⟨h1, h2, _⟩ := readSectors_spec hu (List.range' d.bpb.rootBeg d.bpb.rootDirSecs)
  unfold getRootDir
  simp only [bind_apply, M.get]
  cases hr : readSectors (List.range' d.bpb.rootBeg d.bpb.rootDirSecs) d with
  | mk res d1 =>
    rw [hr] at h1 h2
    simp only [] at h1 h2
    subst h1
    cases res with
    | error e => exact ⟨rfl, fun hh => h2 (by cases hh; rfl)⟩
    | ok buf => exact ⟨rfl, by intro hh; cases hh⟩

theorem getRootDir_fat (x : Option (Array Nat)) (d : Disk) :
    getRootDir { d with fat := x } = ((getRootDir d).1, { d with fat := x }) := by
  unfold getRootDir
  simp only [bind_apply, M.get]
  have := readSectors_fat x (List.range' d.bpb.rootBeg d.bpb.rootDirSecs) d
  rw [this]
  cases hr : readSectors (List.range' d.bpb.rootBeg d.bpb.rootDirSecs) d with
  | mk res d1 => cases res <;> rfl

theorem getRootDir_safe {d : Disk} (g : Good d) : Safe getRootDir d (fun dir d' => d' = d ∧ getRootDir d = (.ok dir, d)) := by
  obtain ⟨h1, h2⟩ := getRootDir_spec g.units
  refine ⟨by rw [h1]; exact Ext.refl d, h2, fun a ha => ⟨h1, ?_⟩⟩
  cases hr : getRootDir d with
  | mk res d1 =>
    rw [hr] at h1 ha
    simp only [] at h1 ha
    subst h1; subst ha; rfl

theorem statFree_safe {d : Disk} (g : Good d) : Safe statFree d (fun _ _ => True) := by
  unfold statFree
  apply Safe.bind (getRootDir_safe g)
  intro _ d' hext _
  exact numFreeBlocks_safe (good_ext g hext)

/-! ## the cluster chain -/

theorem nextCluster_safe {d : Disk} (g : Good d) (n : Nat) : Safe (nextCluster n) d (fun _ _ => True) := by
  unfold nextCluster
  apply Safe.bind_get
  try dsimp only
  split
  · exact Safe.fail (by decide)
  · rename_i hin
    have hin' : clusInRng d.bpb n = true := by
      cases hc : clusInRng d.bpb n
      · simp [hc] at hin
      · rfl
    apply Safe.bind (getFat_safe g)
    intro f d1 hext hf
    have hib : InBuf d.typ f.size n := by rw [hf.2]; exact inBuf_of_lt g (clusInRng_lt hin').2
    apply Safe.bind (Safe.lift (ne_panic_of_ok (isDamaged_ok hib)) (fun _ _ => trivial) (Q := fun _ _ => True))
    intro dmg d2 _ _
    split
    · exact Safe.fail (by decide)
    · apply Safe.bind (Safe.lift (ne_panic_of_ok (isLast_ok hib)) (fun _ _ => trivial) (Q := fun _ _ => True))
      intro last d3 _ _
      split
      · exact Safe.pure trivial
      · apply Safe.bind (Safe.lift (ne_panic_of_ok (getCluster_ok hib)) (fun _ _ => trivial) (Q := fun _ _ => True))
        intro v d4 _ _
        exact Safe.pure trivial

theorem readBlock_safe {d : Disk} (g : Good d) {c : Nat} (hc : 2 ≤ c) :
    Safe (readBlock c) d (fun b d' => d' = d ∧ b.length = d.bpb.blockSize) := by
  obtain ⟨h1, h2, h3⟩ := readBlock_spec g hc
  exact ⟨by rw [h1]; exact Ext.refl d, h2, fun b hb => ⟨h1, h3 b hb⟩⟩

/-- the chain walk with `fuel` iterations left: no panic, at most `fuel` blocks -/
theorem chainDataLoop_safe : ∀ (fuel c : Nat) (d : Disk), Good d →
    Safe (chainDataLoop fuel c) d (fun buf _ => buf.length ≤ fuel * d.bpb.blockSize) := by
  intro fuel
  induction fuel with
  | zero => intro c d _; unfold chainDataLoop; exact Safe.fail (by decide)
  | succ fuel ih =>
    intro c d g
    unfold chainDataLoop
    apply Safe.bind_get
    try dsimp only
    split
    · exact Safe.fail (by decide)
    · rename_i hin
      have hin' : clusInRng d.bpb c = true := by
        cases hc : clusInRng d.bpb c
        · simp [hc] at hin
        · rfl
      apply Safe.bind (readBlock_safe g (clusInRng_lt hin').1)
      intro data d1 _ h1
      obtain ⟨hd1, hl⟩ := h1
      subst hd1
      apply Safe.bind (nextCluster_safe g c)
      intro o d2 hext2 _
      cases o with
      | none =>
        apply Safe.pure
        rw [hl, Nat.succ_mul]; omega
      | some nx =>
        have g2 := good_ext g hext2
        apply Safe.bind (ih nx d2 g2)
        intro rest d3 _ hr
        apply Safe.pure
        rw [(Ext.same g hext2).2.1] at hr
        rw [List.length_append, hl, Nat.succ_mul]; omega

/-- `get_cluster_chain_data`: no panic for any first cluster; at most `cluster_count_usable` blocks are read -/
theorem getClusterChainData_safe {d : Disk} (g : Good d) (c : Nat) :
    Safe (getClusterChainData c) d (fun buf _ => buf.length ≤ d.bpb.clusterCountUsable * d.bpb.blockSize) := by
  unfold getClusterChainData
  split
  · exact Safe.pure (by simp)
  · apply Safe.bind_get
    try dsimp only
    split
    · exact Safe.fail (by decide)
    · exact chainDataLoop_safe _ c d g

/-! ## a directory read twice -/

theorem readBlock_state (c : Nat) (d : Disk) : (readBlock c d).2 = d := by
  unfold readBlock
  simp only [bind_apply, M.get, M.lift]
  cases clusSecs d.bpb c with
  | error e => rfl
  | ok a =>
    simp only []
    cases imgReadBlock d.raw a with
    | error e => rfl
    | ok buf =>
      simp only []
      split <;> rfl

theorem getFat_open {d : Disk} {f : Array Nat} (h : d.fat = some f) : getFatBuffer d = (.ok f, d) := by
  unfold getFatBuffer
  rw [h]

/-- the first `next_cluster` of a walk opens the buffer; from there on both runs are in the same state -/
theorem nextCluster_open {d : Disk} {f : Array Nat} {n : Nat} (hgf : getFatBuffer d = (.ok f, { d with fat := some f }))
    (hin : clusInRng d.bpb n = true) : nextCluster n d = nextCluster n { d with fat := some f } := by
  have h1 : getFatBuffer { d with fat := some f } = (.ok f, { d with fat := some f }) := getFat_open rfl
  unfold nextCluster
  simp only [bind_apply, M.get]
  simp only [hin, Bool.not_true, Bool.false_eq_true, ↓reduceIte, bind_apply]
  rw [hgf, h1]

theorem chainDataLoop_state {d : Disk} {f : Array Nat} (g : Good d) (hf : d.fat = some f) (fuel c : Nat) :
    (chainDataLoop fuel c d).2 = d := (chainDataLoop_safe fuel c d g).1.eq_of_open hf

theorem chain_idem {d : Disk} {f : Array Nat} (g : Good d) (hgf : getFatBuffer d = (.ok f, { d with fat := some f })) :
    ∀ (fuel c : Nat) (buf : Bytes) (d' : Disk), chainDataLoop fuel c d = (.ok buf, d') →
      chainDataLoop fuel c { d with fat := some f } = (.ok buf, { d with fat := some f }) := by
  intro fuel c buf d' h
  have g1 : Good { d with fat := some f } := good_ext g (by
    cases hf : d.fat with
    | none => exact Or.inr ⟨hf, f, hgf⟩
    | some f0 =>
      left
      have := getFat_open hf
      rw [this] at hgf
      cases d
      simp_all)
  cases fuel with
  | zero => unfold chainDataLoop at h; cases h
  | succ fuel =>
    have hst := chainDataLoop_state g1 (f := f) rfl fuel
    unfold chainDataLoop at h ⊢
    simp only [bind_apply, M.get] at h ⊢
    by_cases hin : clusInRng d.bpb c = true
    · simp only [hin, Bool.not_true, Bool.false_eq_true, ↓reduceIte, bind_apply] at h ⊢
      rw [readBlock_fat]
      have hs := readBlock_state c d
      cases hr : readBlock c d with
      | mk res d1 =>
        rw [hr] at h hs
        simp only [] at hs
        subst hs
        cases res with
        | error e => cases h
        | ok data =>
          simp only [] at h ⊢
          rw [nextCluster_open hgf hin] at h
          have hn : (nextCluster c { d1 with fat := some f }).2 = { d1 with fat := some f } :=
            (nextCluster_safe g1 c).1.eq_of_open (f := f) rfl
          cases hnc : nextCluster c { d1 with fat := some f } with
          | mk r2 d2 =>
            rw [hnc] at h hn
            simp only [] at hn
            subst hn
            cases r2 with
            | error e => cases h
            | ok o =>
              cases o with
              | none =>
                simp only [pure_apply] at h ⊢
                cases h; rfl
              | some nx =>
                simp only [bind_apply] at h ⊢
                have hst' := hst nx
                cases hcl : chainDataLoop fuel nx { d1 with fat := some f } with
                | mk r3 d3 =>
                  rw [hcl] at h hst'
                  simp only [] at hst'
                  subst hst'
                  cases r3 with
                  | error e => cases h
                  | ok rest =>
                    simp only [pure_apply] at h ⊢
                    cases h; rfl
    · have hin' : clusInRng d.bpb c = false := by
        cases hc : clusInRng d.bpb c
        · rfl
        · exact absurd hc hin
      simp [hin', M.fail] at h

/-- (G): a directory read from a state without FAT buffer reads the same from the state with the buffer opened -/
theorem getDirectory_opened {d d' : Disk} {f : Array Nat} (g : Good d)
    (hgf : getFatBuffer d = (.ok f, { d with fat := some f })) (c : Option Nat) (dir : Directory)
    (h : getDirectory c d = (.ok dir, d')) : getDirectory c { d with fat := some f } = (.ok dir, { d with fat := some f }) := by
  cases c with
  | none =>
    unfold getDirectory at h ⊢
    simp only [] at h ⊢
    rw [getRootDir_fat]
    rw [h]
  | some cl =>
    unfold getDirectory at h ⊢
    simp only [bind_apply] at h ⊢
    have key : ∀ buf d'', getClusterChainData cl d = (.ok buf, d'') →
        getClusterChainData cl { d with fat := some f } = (.ok buf, { d with fat := some f }) := by
      intro buf d'' hc
      unfold getClusterChainData at hc ⊢
      by_cases h0 : cl = 0
      · simp only [h0, if_true, pure_apply] at hc ⊢
        cases hc; rfl
      · simp only [h0, if_false, bind_apply, M.get] at hc ⊢
        by_cases hin : clusInRng d.bpb cl = true
        · simp only [hin, Bool.not_true, Bool.false_eq_true, if_false] at hc ⊢
          exact chain_idem g hgf _ _ _ _ hc
        · have hin' : clusInRng d.bpb cl = false := by
            cases hcc : clusInRng d.bpb cl
            · rfl
            · exact absurd hcc hin
          simp [hin', M.fail] at hc
    cases hr : getClusterChainData cl d with
    | mk res d1 =>
      rw [hr] at h
      cases res with
      | error e => cases h
      | ok buf =>
        rw [key buf d1 hr]
        simp only [pure_apply] at h ⊢
        cases h; rfl

theorem getDirectory_safe0 {d : Disk} (g : Good d) (c : Option Nat) : Safe (getDirectory c) d (fun _ _ => True) := by
  cases c with
  | none => exact (getRootDir_safe g).weaken (fun _ _ _ => trivial)
  | some cl =>
    unfold getDirectory
    apply Safe.bind (getClusterChainData_safe g cl)
    intro buf d' _ _
    exact Safe.pure trivial

/-- an `Ext`-successor of `d` that differs from `d` is `d` with the opened buffer -/
theorem Ext.cases {d d' : Disk} (g : Good d) (h : Ext d d') :
    d' = d ∨ ∃ f, getFatBuffer d = (.ok f, { d with fat := some f }) ∧ d' = { d with fat := some f } := by
  cases h with
  | inl h => exact Or.inl h
  | inr h =>
    obtain ⟨_, f, hf⟩ := h
    rcases getFat_spec g with ⟨f0, h0, _, _⟩ | ⟨e, _, h0, _⟩
    · rw [h0] at hf
      have h2 : ({ d with fat := some f0 } : Disk) = d' := by injection hf
      exact Or.inr ⟨f0, h0, h2.symm⟩
    · rw [h0] at hf; cases hf

/-- (I): a directory read successfully reads the same again in the state reached -/
theorem getDirectory_idem {d d' : Disk} (g : Good d) (c : Option Nat) (dir : Directory)
    (h : getDirectory c d = (.ok dir, d')) : getDirectory c d' = (.ok dir, d') := by
  have hext : Ext d d' := by
    have := (getDirectory_safe0 g c).1
    rw [h] at this
    exact this
  rcases hext.cases g with h1 | ⟨f, hgf, h1⟩
  · subst h1; exact h
  · subst h1; exact getDirectory_opened g hgf c dir h

/-- (S): a directory that read (without opening the buffer) reads the same in every later state -/
theorem getDirectory_stable {d d1 : Disk} (g : Good d) (c : Option Nat) (dir : Directory)
    (h : getDirectory c d = (.ok dir, d)) (hext : Ext d d1) : getDirectory c d1 = (.ok dir, d1) := by
  rcases hext.cases g with h1 | ⟨f, hgf, h1⟩
  · subst h1; exact h
  · subst h1; exact getDirectory_opened g hgf c dir h

theorem getDirectory_safe {d : Disk} (g : Good d) (c : Option Nat) :
    Safe (getDirectory c) d (fun dir d' => getDirectory c d' = (.ok dir, d')) := by
  obtain ⟨h1, h2, _⟩ := getDirectory_safe0 g c
  refine ⟨h1, h2, fun dir hd => ?_⟩
  apply getDirectory_idem g c dir
  cases hr : getDirectory c d with
  | mk res d1 =>
    rw [hr] at hd
    simp only [] at hd
    subst hd; rfl

/-! ## `build_files` -/

/-- a `FileInfo` made by `build_files` from a directory of `n` entries -/
def FOk (n : Nat) (fi : FInfo) : Prop := fi.wildcard = false ∧ fi.idx < n ∧ fi.cluster1.isSome = true

theorem FOk.mono {n m : Nat} {fi : FInfo} (h : FOk n fi) (hnm : n ≤ m) : FOk m fi := ⟨h.1, by have := h.2.1; omega, h.2.2⟩

/-- `build_files` on ANY list of entries (any bytes, any length of each entry): no panic — long-name parts, more than three bad
names, duplicate keys end in `Err` —, and every `FileInfo` returned has an entry index inside the directory -/
theorem buildLoop_spec (lf : Bool) : ∀ (es : List Bytes) (i bad : Nat) (acc : List (Bytes × FInfo)),
    (∀ kv ∈ acc, FOk (i + es.length) kv.2) →
    buildLoop lf es i bad acc ≠ .error .panic ∧ ∀ r, buildLoop lf es i bad acc = .ok r → ∀ kv ∈ r, FOk (i + es.length) kv.2 := by
  intro es
  induction es with
  | nil =>
    intro i bad acc hacc
    unfold buildLoop
    exact ⟨(by intro hh; cases hh), fun r hr => by cases hr; exact hacc⟩
  | cons e es ih =>
    intro i bad acc hacc
    have hlen : i + (e :: es).length = (i + 1) + es.length := by rw [List.length_cons]; omega
    rw [hlen] at hacc ⊢
    unfold buildLoop
    split
    · exact ih (i + 1) bad acc hacc
    · exact ⟨(by intro hh; cases hh), fun r hr => by cases hr; exact hacc⟩
    · split
      · exact ih (i + 1) bad acc hacc
      · split
        · exact ⟨(by intro hh; cases hh), fun r hr => by cases hr⟩
        · split
          · exact ⟨(by intro hh; cases hh), fun r hr => by cases hr⟩
          · dsimp only
            split
            · exact ⟨(by intro hh; cases hh), fun r hr => by cases hr⟩
            · apply ih (i + 1)
              intro kv hkv
              rw [List.mem_append] at hkv
              cases hkv with
              | inl h => exact hacc kv h
              | inr h =>
                rw [List.mem_singleton] at h
                subst h
                exact ⟨rfl, by show i < i + 1 + es.length; omega, rfl⟩

theorem buildFiles_spec (lf : Bool) (dir : Directory) :
    buildFiles lf dir ≠ .error .panic ∧ ∀ r, buildFiles lf dir = .ok r → ∀ kv ∈ r, FOk dir.length kv.2 := by
  have := buildLoop_spec lf dir 0 0 [] (by intro kv h; cases h)
  rw [Nat.zero_add] at this
  exact this

theorem buildFilesM_safe {d : Disk} (dir : Directory) :
    Safe (buildFilesM dir) d (fun files d' => d' = d ∧ ∀ kv ∈ files, FOk dir.length kv.2) := by
  obtain ⟨h1, h2⟩ := buildFiles_spec d.labelFiles dir
  exact ⟨Ext.refl d, h1, fun a ha => ⟨rfl, h2 a ha⟩⟩

theorem lookup_mem {α : Type} (k : Bytes) : ∀ (l : List (Bytes × α)) (v : α), l.lookup k = some v → (k, v) ∈ l := by
  intro l
  induction l with
  | nil => intro v h; cases h
  | cons kv t ih =>
    intro v h
    obtain ⟨k', v'⟩ := kv
    rw [List.lookup_cons] at h
    split at h
    · rename_i heq
      cases h
      have : k = k' := by simpa using heq
      subst this
      exact List.mem_cons_self
    · exact List.mem_cons_of_mem _ (ih v h)

theorem getFile_mem {name : Bytes} {files : List (Bytes × FInfo)} {fi : FInfo} (h : getFile name files = some fi) :
    ∃ k, (k, fi) ∈ files := by
  unfold getFile at h
  simp only [] at h
  split at h
  · rename_i f hf
    cases h
    exact ⟨_, lookup_mem _ _ _ hf⟩
  · exact ⟨_, lookup_mem _ _ _ h⟩

/-! ## `goto_path` -/

/-- what `goto_path` returns below the root: the parent, whose directory reads (again) as `dir` in the state reached, and a file that
is the wildcard `FileInfo` or was built from `dir` -/
def GotoPost (r : Option FInfo × FInfo) (d' : Disk) : Prop :=
  ∃ p dir, r.1 = some p ∧ getDirectory p.cluster1 d' = (.ok dir, d') ∧ (r.2.wildcard = true ∨ FOk dir.length r.2)

theorem gotoLoop_safe : ∀ (nodes : List Bytes) (files : List (Bytes × FInfo)) (parent : FInfo) (d : Disk), Good d →
    (∃ dir, getDirectory parent.cluster1 d = (.ok dir, d) ∧ ∀ kv ∈ files, FOk dir.length kv.2) →
    Safe (gotoLoop nodes files parent) d GotoPost := by
  intro nodes
  induction nodes with
  | nil => intro files parent d _ _; unfold gotoLoop; exact Safe.fail (by decide)
  | cons subdir rest ih =>
    intro files parent d g hinv
    obtain ⟨dir, hdir, hfiles⟩ := hinv
    unfold gotoLoop
    simp only []
    split
    · exact Safe.pure ⟨parent, dir, rfl, hdir, Or.inl rfl⟩
    · split
      · exact Safe.fail (by decide)
      · rename_i curr hcurr
        obtain ⟨k, hk⟩ := getFile_mem hcurr
        have hfok := hfiles _ hk
        split
        · exact Safe.pure ⟨parent, dir, rfl, hdir, Or.inr hfok⟩
        · split
          · exact Safe.fail (by decide)
          · apply Safe.bind (getDirectory_safe g curr.cluster1)
            intro newDir d1 hext1 hnd
            apply Safe.bind (buildFilesM_safe newDir)
            intro files' d2 _ hf'
            obtain ⟨hd2, hff⟩ := hf'
            subst hd2
            exact ih files' curr d2 (good_ext g hext1) ⟨newDir, hnd, hff⟩

theorem normalizePath_ne_panic (path : Bytes) : normalizePath path ≠ .error .panic := by
  unfold normalizePath
  dsimp only
  repeat' split
  all_goals (intro hh; cases hh)

theorem gotoPath_safe {d : Disk} (g : Good d) (path : Bytes) :
    Safe (gotoPath path) d (fun r d' => (r.1 = none ∧ r.2 = FInfo.root) ∨ GotoPost r d') := by
  unfold gotoPath
  apply Safe.bind (getRootDir_safe g)
  intro root d1 _ h1
  obtain ⟨hd1, hroot⟩ := h1
  subst hd1
  apply Safe.bind (Safe.lift (normalizePath_ne_panic path) (fun _ _ => trivial) (Q := fun _ _ => True))
  intro nodes d2 hext2 _
  split
  · exact Safe.pure (Or.inl ⟨rfl, rfl⟩)
  · apply Safe.bind (buildFilesM_safe root)
    intro files d3 _ hf
    obtain ⟨hd3, hff⟩ := hf
    subst hd3
    have g2 := good_ext g hext2
    have hr2 : getDirectory FInfo.root.cluster1 d3 = (.ok root, d3) :=
      getDirectory_stable g none root hroot hext2
    exact (gotoLoop_safe nodes files FInfo.root d3 g2 ⟨root, hr2, hff⟩).weaken (fun _ _ h => Or.inr h)

/-! ## `get`, `catalog_to_vec` -/

theorem dirEntry_ok {dir : Directory} {i : Nat} (h : i < dir.length) : ∃ e, dirEntry dir i = .ok e := by
  unfold dirEntry
  rw [List.getElem?_eq_getElem h]
  exact ⟨_, rfl⟩

theorem Safe.remember {α : Type} {m : M α} {d : Disk} {Q : α → Disk → Prop} (h : Safe m d Q) :
    Safe m d (fun a d' => Q a d' ∧ m d = (.ok a, d')) := by
  refine ⟨h.1, h.2.1, fun a ha => ⟨h.2.2 a ha, ?_⟩⟩
  cases hr : m d with
  | mk res d1 =>
    rw [hr] at ha
    simp only [] at ha
    subst ha; rfl

/-- `get(path)` when `goto_path` does not answer with the wildcard `FileInfo`: no panic.  `dir.get_entry(finfo.idx)` is in range
because `finfo` was built from the directory that `read_file` reads again (`getDirectory_idem`) -/
theorem get_safe {d : Disk} (g : Good d) (path : Bytes)
    (hw : ∀ p fi d', gotoPath path d = (.ok (p, fi), d') → fi.wildcard = false) : Safe (Fs.Fat.get path) d (fun _ _ => True) := by
  unfold Fs.Fat.get
  apply Safe.bind (gotoPath_safe g path).remember
  intro r d1 hext1 hpost
  obtain ⟨parent, fi⟩ := r
  obtain ⟨hpost, hrun⟩ := hpost
  have hwf := hw parent fi d1 hrun
  have g1 := good_ext g hext1
  dsimp only
  cases parent with
  | none => exact Safe.fail (by decide)
  | some p =>
    dsimp only
    rcases hpost with ⟨hn, _⟩ | ⟨p', dir, hp, hdir, hfi⟩
    · cases hn
    · simp only [] at hp hfi
      cases hp
      have hfok : FOk dir.length fi := by
        cases hfi with
        | inl h => rw [hwf] at h; cases h
        | inr h => exact h
      apply Safe.bind_get
      try dsimp only
      have hsafe : Safe (getDirectory p.cluster1) d1 (fun dir' d'' => dir' = dir ∧ d'' = d1) := by
        unfold Safe
        rw [hdir]
        exact ⟨Ext.refl d1, (by intro hh; cases hh), fun x hx => by cases hx; exact ⟨rfl, rfl⟩⟩
      apply Safe.bind hsafe
      intro dir' d2 _ h2
      obtain ⟨hd', hd2⟩ := h2
      subst hd'; subst hd2
      apply Safe.bind (Safe.lift (ne_panic_of_ok (dirEntry_ok hfok.2.1)) (fun _ _ => trivial) (Q := fun _ _ => True))
      intro entry d3 hext3 _
      have hc := hfok.2.2
      cases hcl : fi.cluster1 with
      | none => rw [hcl] at hc; cases hc
      | some c =>
        dsimp only
        apply Safe.bind (getClusterChainData_safe (good_ext g1 hext3) c)
        intro all d4 _ _
        exact Safe.pure trivial

/-- `build_files` answers `unmodelled` only for an entry with a name byte ≥ 128 (the Rust escapes such a name and goes on) -/
theorem buildLoop_unmodelled (lf : Bool) : ∀ (es : List Bytes) (i bad : Nat) (acc : List (Bytes × FInfo)),
    buildLoop lf es i bad acc = .error .unmodelled → ∃ e ∈ es, (e.take 11).any (fun c => c ≥ 128) = true := by
  intro es
  induction es with
  | nil => intro i bad acc h; unfold buildLoop at h; cases h
  | cons e es ih =>
    intro i bad acc h
    unfold buildLoop at h
    split at h
    · obtain ⟨x, hx, hh⟩ := ih _ _ _ h; exact ⟨x, List.mem_cons_of_mem _ hx, hh⟩
    · cases h
    · split at h
      · obtain ⟨x, hx, hh⟩ := ih _ _ _ h; exact ⟨x, List.mem_cons_of_mem _ hx, hh⟩
      · split at h
        · cases h
        · split at h
          · rename_i hsplit
            refine ⟨e, List.mem_cons_self, ?_⟩
            unfold fileNameToSplit at hsplit
            split at hsplit
            · cases hsplit
            · split at hsplit
              · cases hsplit
              · split at hsplit
                · rename_i hany; exact hany
                · cases hsplit
          · dsimp only at h
            split at h
            · cases h
            · obtain ⟨x, hx, hh⟩ := ih _ _ _ h; exact ⟨x, List.mem_cons_of_mem _ hx, hh⟩

/-- a cluster whose FAT entry points at itself: the walk ends with `BadFAT` when the cap is used up, for every cap -/
theorem chainDataLoop_selfloop {d : Disk} {c : Nat} {data : Bytes} (hin : clusInRng d.bpb c = true)
    (hrb : readBlock c d = (.ok data, d)) (hnc : nextCluster c d = (.ok (some c), d)) :
    ∀ fuel, chainDataLoop fuel c d = (.error .badFAT, d) := by
  intro fuel
  induction fuel with
  | zero => unfold chainDataLoop; rfl
  | succ fuel ih =>
    unfold chainDataLoop
    simp only [bind_apply, M.get, hin, Bool.not_true, Bool.false_eq_true, ↓reduceIte, hrb, hnc, ih]

theorem catalogLoop_ne_panic {bs : Nat} (hbs : bs ≠ 0) : ∀ (es : List Bytes), catalogLoop bs es ≠ .error .panic := by
  intro es
  induction es with
  | nil => unfold catalogLoop; intro hh; cases hh
  | cons e es ih =>
    unfold catalogLoop
    split
    · intro hh; cases hh
    · exact ih
    · exact ih
    · split
      · intro hh; cases hh
      · simp only []
        rw [if_neg hbs]
        split
        · rename_i er her
          intro hh
          cases hh
          exact ih her
        · intro hh; cases hh

theorem good_blockSize {d : Disk} (g : Good d) : d.bpb.blockSize ≠ 0 := by
  unfold Bpb.blockSize
  rw [g.bps]
  have := good_spc g
  omega

/-- `catalog_to_vec(path)`, any path: no panic -/
theorem catalog_safe {d : Disk} (g : Good d) (path : Bytes) : Safe (catalog path) d (fun _ _ => True) := by
  unfold catalog
  apply Safe.bind (gotoPath_safe g path)
  intro r d1 hext1 _
  obtain ⟨_, fi⟩ := r
  simp only []
  split
  · exact Safe.fail (by decide)
  · apply Safe.bind_get
    try dsimp only
    have g1 := good_ext g hext1
    apply Safe.bind (getDirectory_safe0 g1 fi.cluster1)
    intro dir d3 _ _
    exact Safe.lift (catalogLoop_ne_panic (good_blockSize g1) dir) (fun _ _ => trivial)

end A2Verif.C12FsId.Fat
