import A2Verif.Lemmas.FsCpmRekey
/-!
# `rename` of the concrete CP/M model: the entry transformer
-/
namespace A2Verif.FsCpm
open A2Verif.Fs.Cpm
open A2Verif.Read.Cpm (Dpb fileKey extNum entryPtrs pathOf slots)

/-- what `modify` does to an entry of the renamed file: new user number, new 7-bit name, flags kept -/
def renF (newUser : Nat) (base typ : Bytes) (e : Bytes) : Bytes := Ext.setName (splice e 0 [newUser]) base typ

theorem splice0_length {e : Bytes} {x : Nat} (he : e.length = 32) : (splice e 0 [x]).length = 32 := by
  rw [splice_length (by rw [he]; simp), he]

theorem renF_length {u : Nat} {base typ e : Bytes} (he : e.length = 32) : (renF u base typ e).length = 32 :=
  setName_length (splice0_length he)

theorem renF_getD {u : Nat} {base typ e : Bytes} (he : e.length = 32) (i : Nat) :
    (renF u base typ e).getD i 0 =
      if i = 0 then u
      else if i < 9 then lo (base.getD (i - 1) 0) + hi (e.getD i 0)
      else if i < 12 then lo (typ.getD (i - 9) 0) + hi (e.getD i 0)
      else e.getD i 0 := by
  unfold renF
  rw [setName_getD (splice0_length he)]
  have hs : ∀ j, (splice e 0 [u]).getD j 0 = if j = 0 then u else e.getD j 0 := by
    intro j
    rw [getD_splice (by omega)]
    by_cases c : j = 0
    · subst c; simp
    · rw [if_neg (by omega), if_neg (by simp; omega), if_neg c]
  rw [hs i]
  by_cases c0 : i = 0
  · subst c0; simp
  · rw [if_neg c0, if_neg c0]
    by_cases c1 : i < 9
    · rw [if_pos ⟨by omega, c1⟩, if_pos c1]
    · rw [if_neg (by omega), if_neg c1]
      by_cases c2 : i < 12
      · rw [if_pos ⟨by omega, c2⟩, if_pos c2]
      · rw [if_neg (by omega), if_neg c2]

theorem renF_tail {u : Nat} {base typ e : Bytes} (he : e.length = 32) : SameTail e (renF u base typ e) :=
  ⟨he, renF_length he, fun i hi => by rw [renF_getD he, if_neg (by omega), if_neg (by omega), if_neg (by omega)]⟩

theorem renF_idem {u : Nat} {base typ e : Bytes} (he : e.length = 32) : renF u base typ (renF u base typ e) = renF u base typ e := by
  have h1 := renF_length (u := u) (base := base) (typ := typ) he
  apply ext_getD (by rw [renF_length h1, h1])
  intro i
  rw [renF_getD h1, renF_getD he]
  by_cases c0 : i = 0
  · rw [if_pos c0, if_pos c0]
  · rw [if_neg c0, if_neg c0]
    by_cases c1 : i < 9
    · rw [if_pos c1, if_pos c1]; unfold hi lo; omega
    · rw [if_neg c1, if_neg c1]
      by_cases c2 : i < 12
      · rw [if_pos c2, if_pos c2]; unfold hi lo; omega
      · rw [if_neg c2, if_neg c2]

/-- with all flags kept the access loop does not change an entry whose name bytes are bytes -/
theorem setAccess_none_fix {e : Bytes} (he : e.length = 32) (hb : ∀ i, 1 ≤ i → i < 12 → e.getD i 0 < 256) :
    setAccess accessNone e = e := by
  have kb := keepsBody_setAccess accessNone
  apply ext_getD (by rw [(kb.tail e he).len', he])
  intro i
  by_cases c : 1 ≤ i ∧ i < 12
  · rw [setAccess_getD accessNone e he i c.1 c.2]
    have : accessNone.getD (i - 1) 0 = 0 := by
      unfold accessNone
      simp only [List.getD_eq_getElem?_getD, List.getElem?_replicate]
      split <;> rfl
    rw [this]
    have := hb i c.1 c.2
    unfold newFlag hi lo
    simp only [show (0 : Nat) ≠ 2 by decide, show (0 : Nat) ≠ 1 by decide, ↓reduceIte]
    omega
  · by_cases c0 : i = 0
    · subst c0; rw [kb.status e he]
    · rw [(kb.tail e he).tail i (by omega)]

theorem renF_bytes {u : Nat} {base typ e : Bytes} (he : e.length = 32) : ∀ i, 1 ≤ i → i < 12 → (renF u base typ e).getD i 0 < 256 := by
  intro i h1 h2
  rw [renF_getD he, if_neg (by omega)]
  by_cases c1 : i < 9
  · rw [if_pos c1]; unfold hi lo; omega
  · rw [if_neg c1, if_pos h2]; unfold hi lo; omega

/-- the 7-bit name fields after a rename are those of the new name -/
theorem renF_name7 {u : Nat} {base typ e : Bytes} (he : e.length = 32) (hb : base.length = 8) :
    name7 (renF u base typ e) = base.map (· % 128) := by
  apply ext_getD
  · unfold name7; rw [List.length_map, List.length_map, slice_length (by rw [renF_length he]; decide), hb]
  · intro i
    unfold name7
    by_cases c : i < 8
    · have a := getD_slice (renF u base typ e) 1 8 i c
      have hl : i < (slice (renF u base typ e) 1 8).length := by rw [slice_length (by rw [renF_length he]; decide)]; exact c
      have hl2 : i < base.length := by omega
      simp only [List.getD_eq_getElem?_getD, List.getElem?_map, List.getElem?_eq_getElem hl, List.getElem?_eq_getElem hl2,
        Option.map_some, Option.getD_some] at a ⊢
      rw [a]
      have := renF_getD (u := u) (base := base) (typ := typ) he (1 + i)
      simp only [List.getD_eq_getElem?_getD] at this
      rw [this, if_neg (by omega), if_pos (by omega)]
      have e1 : 1 + i - 1 = i := by omega
      rw [e1, List.getElem?_eq_getElem hl2]
      simp only [Option.getD_some]
      unfold hi lo; omega
    · have hl : (slice (renF u base typ e) 1 8).length ≤ i := by rw [slice_length (by rw [renF_length he]; decide)]; omega
      simp only [List.getD_eq_getElem?_getD, List.getElem?_map, List.getElem?_eq_none hl, List.getElem?_eq_none (show base.length ≤ i by omega)]

theorem renF_typ7 {u : Nat} {base typ e : Bytes} (he : e.length = 32) (hb : typ.length = 3) :
    typ7 (renF u base typ e) = typ.map (· % 128) := by
  apply ext_getD
  · unfold typ7; rw [List.length_map, List.length_map, slice_length (by rw [renF_length he]; decide), hb]
  · intro i
    unfold typ7
    by_cases c : i < 3
    · have a := getD_slice (renF u base typ e) 9 3 i c
      have hl : i < (slice (renF u base typ e) 9 3).length := by rw [slice_length (by rw [renF_length he]; decide)]; exact c
      have hl2 : i < typ.length := by omega
      simp only [List.getD_eq_getElem?_getD, List.getElem?_map, List.getElem?_eq_getElem hl, List.getElem?_eq_getElem hl2,
        Option.map_some, Option.getD_some] at a ⊢
      rw [a]
      have := renF_getD (u := u) (base := base) (typ := typ) he (9 + i)
      simp only [List.getD_eq_getElem?_getD] at this
      rw [this, if_neg (by omega), if_neg (by omega), if_pos (by omega)]
      have e1 : 9 + i - 9 = i := by omega
      rw [e1, List.getElem?_eq_getElem hl2]
      simp only [Option.getD_some]
      unfold hi lo; omega
    · have hl : (slice (renF u base typ e) 9 3).length ≤ i := by rw [slice_length (by rw [renF_length he]; decide)]; omega
      simp only [List.getD_eq_getElem?_getD, List.getElem?_map, List.getElem?_eq_none hl, List.getElem?_eq_none (show typ.length ≤ i by omega)]

/-- the key of every renamed entry -/
def newKey (u : Nat) (base typ : Bytes) : List Nat := u :: (base.map (· % 128) ++ typ.map (· % 128))

theorem renF_fileKey {u : Nat} {base typ e : Bytes} (he : e.length = 32) (hb : base.length = 8) (ht : typ.length = 3) :
    fileKey (renF u base typ e) = newKey u base typ := by
  rw [key_split, renF_name7 he hb, renF_typ7 he ht, renF_getD he 0, if_pos rfl]
  rfl

end A2Verif.FsCpm
