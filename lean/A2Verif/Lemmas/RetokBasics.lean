import A2Verif.Lemmas.Retok
/-! C14 round 4: building blocks of the whole-line / whole-program round trip
`retokA (detokA t) = stripHead t`: decimal line numbers, one-step equations of the detokenizer line loop
`lineA` and of the reference tokenizer `codeA`, blank stripping, `stripBody` and `classBody` along the
payload split `spanA`. -/
namespace A2Verif.Detok
open A2Verif.Gen.Tokens

/-! ### decimal numbers: `parseDec ∘ dec = id` -/

/-- left-to-right decimal value of a digit string, continuing from `k` -/
def decVal : List Nat → Nat → Nat
  | [], k => k
  | c :: r, k => decVal r (10 * k + (c - 48))

def allDigits (ds : List Nat) : Prop := ∀ c ∈ ds, 48 ≤ c ∧ c ≤ 57

theorem parseDec_digits : ∀ (ds : List Nat) (k : Nat) (X : List Nat), allDigits ds →
    parseDec (ds ++ 32 :: X) k = some (decVal ds k, X) := by
  intro ds
  induction ds with
  | nil => intro k X _; simp [parseDec, decVal]
  | cons c r ih =>
    intro k X h
    have hc := h c (by simp)
    have hr : allDigits r := fun x hx => h x (by simp [hx])
    have h32 : c ≠ 32 := by omega
    simp only [List.cons_append, parseDec, h32, if_false, hc.1, hc.2, and_self, if_true, decVal]
    exact ih _ _ hr

theorem decAux_spec : ∀ (fuel n : Nat) (acc : List Nat), n < fuel → allDigits acc →
    allDigits (decAux fuel n acc) ∧
    ∀ k, ∃ m, decVal (decAux fuel n acc) k = decVal acc m ∧ (k = 0 → m = n) := by
  intro fuel
  induction fuel with
  | zero => intro n acc h; omega
  | succ f ih =>
    intro n acc hn hacc
    by_cases h10 : n < 10
    · simp only [decAux, h10, if_true]
      refine ⟨?_, ?_⟩
      · intro c hc
        simp at hc
        rcases hc with hc | hc
        · omega
        · exact hacc c hc
      · intro k
        refine ⟨10 * k + n, ?_, by omega⟩
        simp [decVal]
    · simp only [decAux, h10, if_false]
      have hacc' : allDigits ((48 + n % 10) :: acc) := by
        intro c hc
        simp at hc
        rcases hc with hc | hc
        · omega
        · exact hacc c hc
      obtain ⟨a1, a2⟩ := ih (n / 10) ((48 + n % 10) :: acc) (by omega) hacc'
      refine ⟨a1, ?_⟩
      intro k
      obtain ⟨m, hm, hk⟩ := a2 k
      refine ⟨10 * m + n % 10, ?_, ?_⟩
      · rw [hm]; simp [decVal]
      · intro hk0; have := hk hk0; omega

/-- the decimal line number printed by the detokenizer is read back by the tokenizer -/
theorem parseDec_dec (n : Nat) (X : List Nat) : parseDec (dec n ++ 32 :: X) 0 = some (n, X) := by
  obtain ⟨a1, a2⟩ := decAux_spec (n + 1) n [] (by omega) (by intro c hc; simp at hc)
  obtain ⟨m, hm, hk⟩ := a2 0
  unfold dec
  rw [parseDec_digits _ _ _ a1, hm, hk rfl]
  simp [decVal]

theorem dec_ne_nil (n : Nat) : dec n ≠ [] := by
  unfold dec
  have : ∀ fuel n acc, acc ≠ [] ∨ 0 < fuel → decAux fuel n acc ≠ [] := by
    intro fuel
    induction fuel with
    | zero =>
      intro n acc h
      rcases h with h | h
      · simpa [decAux] using h
      · omega
    | succ f ih =>
      intro n acc _
      simp only [decAux]
      split
      · simp
      · exact ih _ _ (Or.inl (by simp))
  exact this _ _ _ (Or.inr (by omega))

/-! ### table facts in per-entry form -/

theorem lookup_mem {β : Type} : ∀ (l : List (Nat × β)) (a : Nat) (b : β), l.lookup a = some b → (a, b) ∈ l := by
  intro l
  induction l with
  | nil => intro a b h; simp [List.lookup] at h
  | cons p l ih =>
    intro a b h
    obtain ⟨k, v⟩ := p
    by_cases hk : a = k
    · subst hk; simp [List.lookup] at h; subst h; simp
    · have : (a == k) = false := by simp [hk]
      simp only [List.lookup, this] at h
      exact List.mem_cons_of_mem _ (ih a b h)

theorem kw_table : applesoftDetok.all (fun p => lookupKw (upper p.2) == some p.1 &&
      (upper p.2).all (fun c => c != 32 && c != 10)) = true := by
  decide +kernel

/-- a token of `DETOK_MAP`: its upper-case spelling is one blank-free word and looks up to the token -/
theorem kw_entry (b : Nat) (tok : List Nat) (h : applesoftDetok.lookup b = some tok) :
    lookupKw (upper tok) = some b ∧ ∀ c ∈ upper tok, c ≠ 32 ∧ c ≠ 10 := by
  have hm := lookup_mem _ _ _ h
  have := List.all_eq_true.mp kw_table (b, tok) hm
  simp only [Bool.and_eq_true, beq_iff_eq, List.all_eq_true, bne_iff_ne, ne_eq] at this
  exact ⟨this.1, fun c hc => this.2 c hc⟩

/-! ### words and blanks -/

theorem spanWord_append : ∀ (kw r : List Nat), (∀ c ∈ kw, c ≠ 32 ∧ c ≠ 10) →
    spanWord (kw ++ 32 :: r) = (kw, 32 :: r) := by
  intro kw
  induction kw with
  | nil => intro r _; simp [spanWord]
  | cons c k ih =>
    intro r h
    have hc := h c (by simp)
    have hk : ∀ x ∈ k, x ≠ 32 ∧ x ≠ 10 := fun x hx => h x (by simp [hx])
    simp [spanWord, hc.1, hc.2, ih r hk]

theorem dropBlanks_cons_ne (c : Nat) (r : List Nat) (h : c ≠ 32) : dropBlanks (c :: r) = c :: r := by
  simp [dropBlanks, h]

theorem dropBlanks_subset : ∀ (r : List Nat) (x : Nat), x ∈ dropBlanks r → x ∈ r := by
  intro r
  induction r with
  | nil => intro x h; simpa [dropBlanks] using h
  | cons b r ih =>
    intro x h
    by_cases hb : b = 32
    · simp only [dropBlanks, hb, if_true] at h
      exact List.mem_cons_of_mem _ (ih x h)
    · simpa [dropBlanks, hb] using h

theorem pieceP_head (b : Nat) (r : List Nat) (hb : b ≠ 32) : ∃ c t, pieceP b r = c :: t ∧ c ≠ 32 := by
  unfold pieceP
  split
  · split
    · split
      · exact ⟨92, _, rfl, by decide⟩
      · exact ⟨92, _, rfl, by decide⟩
    · exact ⟨92, _, rfl, by decide⟩
  · split
    · exact ⟨92, _, by rw [hexEsc_eq], by decide⟩
    · exact ⟨b, [], rfl, hb⟩

theorem pieceP_blank (r : List Nat) : pieceP 32 r = [32] := by
  simp [pieceP, aEscapes]

/-- the tokenizer's blank skipping after REM / DATA removes exactly the listing of the leading blanks of
the payload (a blank is listed raw; no other byte's listing starts with a blank) -/
theorem dropBlanks_escP : ∀ (p : List Nat) (c : Nat) (w : List Nat), c ≠ 32 →
    dropBlanks (escP p ++ c :: w) = escP (dropBlanks p) ++ c :: w := by
  intro p
  induction p with
  | nil => intro c w hc; simp [escP, dropBlanks, hc]
  | cons b r ih =>
    intro c w hc
    by_cases hb : b = 32
    · subst hb
      simp only [escP, pieceP_blank, List.cons_append, List.nil_append, dropBlanks, if_true]
      exact ih c w hc
    · obtain ⟨c1, t1, e1, n1⟩ := pieceP_head b r hb
      simp only [escP, e1, List.cons_append, dropBlanks, hb, n1, if_false]

/-- leading blanks are payload in every context and do not move the end of the payload -/
theorem spanA_dropBlanks (ctx : Ctx) : ∀ (rest : List Nat) (q : Nat),
    spanA ctx (termOf ctx) q (dropBlanks rest) =
      (dropBlanks (spanA ctx (termOf ctx) q rest).1, (spanA ctx (termOf ctx) q rest).2) := by
  intro rest
  induction rest with
  | nil => intro q; simp [dropBlanks, spanA]
  | cons b r ih =>
    intro q
    by_cases hb : b = 32
    · subst hb
      have hs : stopA ctx (termOf ctx) q 32 = false := by cases ctx <;> simp [stopA, termOf]
      simp only [dropBlanks, if_true, spanA, hs, Bool.false_eq_true, if_false, aQuote]
      simpa [aQuote] using ih q
    · rw [dropBlanks_cons_ne b r hb]
      by_cases hs : stopA ctx (termOf ctx) q b = true
      · simp [spanA, hs, dropBlanks]
      · simp [spanA, hs, dropBlanks, hb]

/-! ### `stripBody` along the payload split -/

theorem stripBody_rem : ∀ r : List Nat, stripBody 2 r = r := by
  intro r; induction r with
  | nil => simp [stripBody]
  | cons b r ih => simp [stripBody, ih]

theorem stripBody_rem_head : ∀ r : List Nat, stripBody 5 r = dropBlanks r := by
  intro r; induction r with
  | nil => simp [stripBody, dropBlanks]
  | cons b r ih =>
    by_cases hb : b = 32
    · simp [stripBody, dropBlanks, hb, ih]
    · simp [stripBody, dropBlanks, hb, stripBody_rem]

theorem stopA_str (q b : Nat) : stopA .str (termOf .str) q b = (decide (b = 34) || decide (b = 0)) := by
  simp [stopA, termOf]

theorem stopA_rem (q b : Nat) : stopA .rem (termOf .rem) q b = decide (b = 0) := by
  simp [stopA, termOf]

theorem stopA_data (q b : Nat) :
    stopA .data (termOf .data) q b = (decide (b = 0) || (decide (q % 2 = 0) && decide (b = 58))) := by
  simp [stopA, termOf]
  by_cases h0 : b = 0 <;> by_cases h58 : b = 58 <;> simp [h0, h58]

/-- a string body: payload up to the closing quote, then code again -/
theorem stripBody_str : ∀ (rest : List Nat) (q : Nat), (∀ x ∈ rest, x ≠ 0) →
    stripBody 1 rest = (spanA .str (termOf .str) q rest).1 ++
      (match (spanA .str (termOf .str) q rest).2 with
       | [] => []
       | c :: z => c :: stripBody 0 z) := by
  intro rest
  induction rest with
  | nil => intro q _; simp [stripBody, spanA]
  | cons b r ih =>
    intro q h
    have hb0 : b ≠ 0 := h b (by simp)
    have hr : ∀ x ∈ r, x ≠ 0 := fun x hx => h x (by simp [hx])
    by_cases hq : b = 34
    · subst hq
      simp [stripBody, spanA, stopA_str, aQuote]
    · simp [stripBody, spanA, stopA_str, aQuote, hq, hb0, ih q hr]

/-- a DATA body (quote parity `q`): payload up to an unquoted colon, then code again -/
theorem stripBody_data : ∀ (rest : List Nat) (q : Nat), (∀ x ∈ rest, x ≠ 0) →
    stripBody (if q % 2 = 0 then 3 else 4) rest = (spanA .data (termOf .data) q rest).1 ++
      stripBody 0 (spanA .data (termOf .data) q rest).2 := by
  intro rest
  induction rest with
  | nil => intro q _; simp [stripBody, spanA]
  | cons b r ih =>
    intro q h
    have hb0 : b ≠ 0 := h b (by simp)
    have hr : ∀ x ∈ r, x ≠ 0 := fun x hx => h x (by simp [hx])
    by_cases hpar : q % 2 = 0
    · by_cases h58 : b = 58
      · subst h58
        simp [stripBody, spanA, stopA_data, hpar, aQuote, aRemTok, aDataTok]
      · by_cases hq : b = 34
        · subst hq
          have hp' : ¬ ((q + 1) % 2 = 0) := by omega
          have := ih (q + 1) hr
          simp only [hp', if_false] at this
          simp [stripBody, spanA, stopA_data, hpar, aQuote, this]
        · have := ih q hr
          simp only [hpar, if_true] at this
          simp [stripBody, spanA, stopA_data, hpar, aQuote, hq, h58, hb0, this]
    · by_cases hq : b = 34
      · subst hq
        have hp' : (q + 1) % 2 = 0 := by omega
        have := ih (q + 1) hr
        simp only [hp', if_true] at this
        simp [stripBody, spanA, stopA_data, hpar, aQuote, this]
      · have := ih q hr
        simp only [hpar, if_false] at this
        simp [stripBody, spanA, stopA_data, hpar, aQuote, hq, hb0, this]

/-- directly after the DATA token: head blanks go, then as `stripBody_data` -/
theorem stripBody_data_head : ∀ (rest : List Nat), (∀ x ∈ rest, x ≠ 0) →
    stripBody 6 rest = dropBlanks (spanA .data (termOf .data) 0 rest).1 ++
      stripBody 0 (spanA .data (termOf .data) 0 rest).2 := by
  intro rest
  induction rest with
  | nil => intro _; simp [stripBody, spanA, dropBlanks]
  | cons b r ih =>
    intro h
    have hb0 : b ≠ 0 := h b (by simp)
    have hr : ∀ x ∈ r, x ≠ 0 := fun x hx => h x (by simp [hx])
    by_cases h32 : b = 32
    · subst h32
      simp [stripBody, spanA, stopA_data, aQuote, dropBlanks, ih hr]
    · by_cases h58 : b = 58
      · subst h58
        simp [stripBody, spanA, stopA_data, aQuote, aRemTok, aDataTok, dropBlanks]
      · by_cases hq : b = 34
        · subst hq
          have := stripBody_data r 1 hr
          simp only [show ¬ (1 % 2 = 0) by omega, if_false] at this
          simp [stripBody, spanA, stopA_data, aQuote, dropBlanks, this]
        · have := stripBody_data r 0 hr
          simp only [show 0 % 2 = 0 by omega, if_true] at this
          simp [stripBody, spanA, stopA_data, aQuote, dropBlanks, hq, h58, h32, hb0, this]

end A2Verif.Detok
