import A2Verif.Lemmas.FsCpmAccept4
/-!
# `put` is accepted when it fits (C04, acceptance): the assembly
-/
namespace A2Verif.FsCpm
open A2Verif.Fs.Cpm
open A2Verif.Read.Cpm (Dpb fileKey extNum entryPtrs pathOf slots)

/-- a name the listing does not hold is not found by `get_file` -/
theorem getFile_none_of_absent {d : Dpb} {r : Raw} {v3 : Bool} {files : List FileInfo} {x : Bytes} (h : Inv d r)
    (hb : buildFiles d v3 (dirOf d r) = .ok files) (habs : (volOf d r).lookup (canon x) = none) : getFile x files = none := by
  cases hg : getFile x files with
  | none => rfl
  | some fi =>
    exfalso
    obtain ⟨K0, hK0, _, hpath⟩ := found_key h hb hg
    have hm : canon x ∈ (volOf d r).files.map (·.path) := by
      show canon x ∈ (filesOf d r).map (·.path)
      unfold filesOf
      rw [List.map_map, List.mem_map]
      exact ⟨K0, hK0, hpath⟩
    exact (find_path_none.1 habs) hm

/-- **C04, acceptance**: a `put` that fits is accepted.  Hypotheses: the invariant; a disk parameter block of the covered class
(`ResvOk`, `ResvCount`, `DpbPut`, fewer than 65536 blocks); a2kit's own `build_files` accepts the directory (`hb`); the file image is
for this file system and block size, in `PutArgsOk`, its `fs_type` has the three bytes `open_extent` indexes, it sets none of
the interface attributes F5–F8 (`hif`; a hypothesis only for the repaired tree, where `write_file` refuses such an image); the name is a valid
CP/M name (`hsplit`, `hvalid`) that the listing does not hold (`habs`); **the chunks are no more than the free units the reader
finds** (`hfree`) **and the extents `write_file` asks for no more than the unused directory entries** (`hext`); if the label asks for
time stamps the directory is laid out as `add_timestamps` does (`hts`).  Then `put` reports success. -/
theorem put_accepts {d : Dpb} {r : Raw} {f : FImg} {now : Bytes} {files : List FileInfo} {user : Nat} {name : Bytes}
    (h : Inv d r) (hr : ResvOk d) (hc : ResvCount d) (hd : DpbPut d) (hsmall : d.dsm + 1 < 65536)
    (hb : buildFiles d d.v3 (dirOf d r) = .ok files)
    (hfs : f.fsOk = true) (hcl : f.chunkLen = blockSize d) (hty : 3 ≤ f.fsType.length) (hif : (f.guardIface && f.ifaceFlags) = false)
    (ha : PutArgsOk d f)
    (hsplit : splitUserFilename f.fullPath = .ok (user, name)) (hvalid : isNameValid name = true)
    (habs : (volOf d r).lookup (canon f.fullPath) = none)
    (hfree : f.chunks.length ≤ (volOf d r).free)
    (hext : extentsNeeded f (putMaxX d f) (putSpe d) ≤ numFreeExtents (dirOf d r))
    (hts : tsLayoutB (dirOf d r) = true) :
    ∃ r', put d r f now = (.ok (), r') := by
  have hu := split_user_lt hsplit
  have hg := getFile_none_of_absent h hb habs
  have hnfb : numFreeBlocks d (dirOf d r) = .ok (volOf d r).free := by
    have := statFree_spec h hc hsmall
    unfold statFree at this
    rw [getDirectory_eq h.shape h.dpb] at this
    exact this
  have hS : 0 < slots d := by rcases slots_cases d with hs | hs <;> omega
  have hspe : putSpe d = slots d := hd.2.1
  -- the loops
  have hE0 : EOk d r { r := r, dir := dirOf d r } :=
    ⟨fun i hi => (by cases hi), fun j e0 h0 _ => h0, fun fx hfx => (by cases hfx)⟩
  have hFB : need f (0 * slots d) (putMaxX d f * slots d) ≤ (freeBlocks d (dirOf d r)).length := by
    have h1 := need_le f (0 * slots d) (putMaxX d f * slots d)
    have h2 := free_le_freeBlocks h hr
    omega
  have hFE : extNeed f (slots d) 0 (putMaxX d f) ≤ numFreeExtents (dirOf d r) := by
    have := extNeed_le_extentsNeeded f (slots d) (putMaxX d f)
    rw [hspe] at hext
    omega
  obtain ⟨s, hloop, hEs⟩ := extLoop_progress (name := name) h hd hr hu ha hty (putMaxX d f) 0 { r := r, dir := dirOf d r } (by omega)
    (einv_init h) hE0 hFB hFE
  have hEinv := extLoop_einv hd h.dpb hr hu ha (putMaxX d f) 0 _ _ (by omega) (einv_init h) hloop
  obtain ⟨pf, hcr⟩ := putFacts_of_einv hd ha hEinv
  obtain ⟨dir2, k2, l2, hts2, hts3⟩ := ts_stage (now := now) hEs pf.keeps pf.len hEinv.1.same hts
  have hsh : Shape d s.r := ⟨by rw [pf.frame.1, h.shape.size], pf.frame.2.1⟩
  obtain ⟨r2, e1, _, _, _⟩ := saveDirectory_spec (dir := dir2) hsh h.dpb (by rw [k2.1, dirOf_length]) l2
  refine ⟨r2, ?_⟩
  rw [← List.range_eq_range'] at hloop
  unfold put
  rw [if_neg (by simp [hfs]), if_neg (by simp [hcl])]
  simp only [hsplit, hvalid, hif, Bool.not_true, Bool.false_eq_true, ↓reduceIte]
  rw [getDirectory_eq h.shape h.dpb]
  simp only [hb, hg, Option.isSome_none, Bool.false_eq_true, ↓reduceIte]
  rw [show (f.end_ / (extentCapacity d / blockSize d) + (if f.end_ % (extentCapacity d / blockSize d) > 0 then 1 else 0)) =
    putMaxX d f from rfl, show extentCapacity d / blockSize d = putSpe d from rfl, show putSpe d / (d.exm + 1) = putSpl d from rfl]
  rw [if_neg (by rw [hspe]; omega), hnfb]
  simp only []
  rw [if_neg (by omega), if_neg (by omega), hloop]
  simp only []
  rw [if_neg hcr]
  simp only []
  cases hlab : findLabel s.dir with
  | none =>
    simp only []
    rw [← hts3 (Or.inl hlab)]
    exact e1
  | some lab =>
    cases he1 : s.entry1 with
    | none =>
      simp only []
      rw [← hts3 (Or.inr he1)]
      exact e1
    | some lx0 =>
      simp only []
      rw [hts2 lab lx0 hlab he1]
      exact e1

end A2Verif.FsCpm
