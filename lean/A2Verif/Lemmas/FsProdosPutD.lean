import A2Verif.Lemmas.FsProdosPutT5
/-!
# `write_file`: the whole loop

`sap_loop`: the sapling rounds; `tree_loop`: the tree rounds; `write_loop`: rounds `0 … end-1` from the state `write_file`
starts in.  The result is a seedling (`end = 1`) described by `SeedInv`, a sapling (`end ≤ 256`) described by `SapInv` or a
tree described by `TreeInv`.
-/
namespace A2Verif.FsProdos
open A2Verif.Fs.Prodos
open A2Verif.Read.Prodos (entryAt dirChain idxPtr indexEntries readData trimName)

theorem sap_loop {f : FImg} {d2 : Disk} {bm cnt : Nat} {e0 : Bytes} (ctx : LoopCtx d2 bm cnt) (end_ : Nat)
    (hbytes : ∀ k data, f.chunks.lookup k = some data → ∀ x ∈ data, x < 256) :
    ∀ (n c : Nat) (s : WS) (dc : Disk) (Al P : List Nat), SapInv f d2 bm cnt e0 c s dc Al P → c + n ≤ 256 →
      dataCount f (c + n) + 1 ≤ (freeBlocks (effBuf d2 bm cnt) d2.total).length →
      ∃ s' d' Al' P', wfLoop f end_ (List.range' c n) s dc = (.ok s', d') ∧ SapInv f d2 bm cnt e0 (c + n) s' d' Al' P'
  | 0, c, s, dc, Al, P, inv, _, _ => ⟨s, dc, Al, P, rfl, inv⟩
  | n + 1, c, s, dc, Al, P, inv, hle, hfit => by
    obtain ⟨s1, d1, Al1, P1, h1, inv1⟩ := sap_round ctx inv (by omega) end_
      (Nat.le_trans (Nat.succ_le_succ (dataCount_mono f (by omega))) hfit) hbytes
    obtain ⟨s2, d2', Al2, P2, h2, inv2⟩ := sap_loop ctx end_ hbytes n (c + 1) s1 d1 Al1 P1 inv1 (by omega)
      (by rw [show c + 1 + n = c + (n + 1) by omega]; exact hfit)
    refine ⟨s2, d2', Al2, P2, ?_, by rw [show c + (n + 1) = c + 1 + n by omega]; exact inv2⟩
    rw [List.range'_succ]
    unfold wfLoop
    simp only [bind_def]
    rw [bind_ok _ _ dc d1 _ h1]
    exact h2

theorem wfLoop_append (f : FImg) (end_ : Nat) : ∀ (l1 l2 : List Nat) (s : WS),
    wfLoop f end_ (l1 ++ l2) s = (wfLoop f end_ l1 s).bind (fun s' => wfLoop f end_ l2 s')
  | [], l2, s => by
    funext d; rfl
  | c :: l1, l2, s => by
    funext d
    have h1 : wfLoop f end_ (c :: l1 ++ l2) s d = M.bind (wfStep f end_ c s) (fun s' => wfLoop f end_ (l1 ++ l2) s') d := rfl
    have h2 : wfLoop f end_ (c :: l1) s = M.bind (wfStep f end_ c s) (fun s' => wfLoop f end_ l1 s') := rfl
    rw [h1, h2]
    unfold M.bind
    cases h : wfStep f end_ c s d with
    | mk r d' =>
      cases r with
      | error e => rfl
      | ok s1 =>
        simp only
        rw [wfLoop_append f end_ l1 l2 s1]
        rfl

theorem tree_loop {f : FImg} {d2 : Disk} {bm cnt : Nat} {e0 : Bytes} (ctx : LoopCtx d2 bm cnt) (end_ : Nat)
    (hbytes : ∀ k data, f.chunks.lookup k = some data → ∀ x ∈ data, x < 256) :
    ∀ (n c : Nat) (s : WS) (dc : Disk) (Al : List Nat) (G : List (Nat × List Nat)) (P : List Nat),
      TreeInv f d2 bm cnt e0 c s dc Al G P → 1 ≤ s.indexCount → c + n ≤ 32768 →
      allocCount f (c + n) ≤ (freeBlocks (effBuf d2 bm cnt) d2.total).length →
      ∃ s' d' Al' G' P', wfLoop f end_ (List.range' c n) s dc = (.ok s', d') ∧ TreeInv f d2 bm cnt e0 (c + n) s' d' Al' G' P' ∧
        1 ≤ s'.indexCount
  | 0, c, s, dc, Al, G, P, inv, hic, _, _ => ⟨s, dc, Al, G, P, rfl, inv, hic⟩
  | n + 1, c, s, dc, Al, G, P, inv, hic, hle, hfit => by
    obtain ⟨s1, d1, Al1, G1, P1, h1, inv1, hic1⟩ := tree_round ctx inv hic (by omega)
      (Nat.le_trans (allocCount_mono f (by omega)) hfit) hbytes end_
    obtain ⟨s2, d2', Al2, G2, P2, h2, inv2, hic2⟩ := tree_loop ctx end_ hbytes n (c + 1) s1 d1 Al1 G1 P1 inv1 hic1 (by omega)
      (by rw [show c + 1 + n = c + (n + 1) by omega]; exact hfit)
    refine ⟨s2, d2', Al2, G2, P2, ?_, by rw [show c + (n + 1) = c + 1 + n by omega]; exact inv2, hic2⟩
    rw [List.range'_succ]
    unfold wfLoop
    simp only [bind_def]
    rw [bind_ok _ _ dc d1 _ h1]
    exact h2

/-- the state `write_file` starts the loop in -/
def ws0 (ent : Bytes) : WS :=
  { storage := stSeedling, masterBuf := zeros blockSize, masterPtr := 0, masterCount := 0,
    indexBuf := zeros blockSize, indexPtr := 0, indexCount := 0, entry := ent }

/-- **the loop of `write_file`** -/
theorem write_loop {f : FImg} {d2 : Disk} {bm cnt : Nat} {e0 ent : Bytes} {nb : Nat} (ctx : LoopCtx d2 bm cnt)
    (hent : EFacts e0 ent 1 nb 0)
    (hnb : ∀ p, (List.range d2.total).find? (freeB (effBuf d2 bm cnt)) = some p → p = nb)
    (hfh : d2.src.firstHole = true) (h1 : 1 ≤ f.end_) (hend : f.end_ ≤ 32768)
    (hfit : allocCount f f.end_ ≤ (freeBlocks (effBuf d2 bm cnt) d2.total).length)
    (h0 : f.end_ = 1 → hasChunk f 0 = true)
    (hbytes : ∀ k data, f.chunks.lookup k = some data → ∀ x ∈ data, x < 256) :
    ∃ s dc Al, wfLoop f f.end_ (rng 0 f.end_) (ws0 ent) d2 = (.ok s, dc) ∧
      ((f.end_ = 1 ∧ SeedInv f d2 bm cnt e0 nb s dc Al) ∨
       (2 ≤ f.end_ ∧ f.end_ ≤ 256 ∧ ∃ P, SapInv f d2 bm cnt e0 f.end_ s dc Al P) ∨
       (256 < f.end_ ∧ ∃ G P, TreeInv f d2 bm cnt e0 f.end_ s dc Al G P ∧ 1 ≤ s.indexCount)) := by
  have hrng : rng 0 f.end_ = 0 :: List.range' 1 (f.end_ - 1) := by
    unfold rng
    rw [show f.end_ - 0 = (f.end_ - 1) + 1 by omega, List.range'_succ]
  have hfit1 : 1 ≤ (freeBlocks (effBuf d2 bm cnt) d2.total).length := by
    by_cases he : f.end_ = 1
    · have := h0 he
      have hd : dataCount f 1 = 1 := by rw [dataCount_succ, dataCount_zero, this]; rfl
      rw [he, allocCount_small f 1 (by omega), hd] at hfit; omega
    · have := allocCount_mono f (show 2 ≤ f.end_ by omega)
      rw [allocCount_small f 2 (by omega)] at this
      simp only [show (2 : Nat) > 1 from by omega, ↓reduceIte] at this
      omega
  obtain ⟨s1, d1, Al1, hr0, inv0⟩ := seed_round0 (f := f) ctx (ws0 ent) rfl rfl rfl rfl rfl hent hnb hfit1 hbytes f.end_
  by_cases he : f.end_ = 1
  · refine ⟨s1, d1, Al1, ?_, Or.inl ⟨he, inv0⟩⟩
    rw [hrng, he]
    show wfLoop f 1 [0] (ws0 ent) d2 = _
    unfold wfLoop
    simp only [bind_def]
    rw [he] at hr0
    rw [bind_ok _ _ d2 d1 _ hr0]
    rfl
  · have he2 : 2 ≤ f.end_ := by omega
    have hsmall : ∀ m, 2 ≤ m → m ≤ 256 → m ≤ f.end_ → dataCount f m + 1 ≤ (freeBlocks (effBuf d2 bm cnt) d2.total).length := by
      intro m h2 h256 hm
      have := allocCount_mono f hm
      rw [allocCount_small f m h256, if_pos (by omega)] at this
      omega
    obtain ⟨s2, d2', Al2, P2, hr1, inv1⟩ := seed_round1 ctx inv0 hfh (hsmall 2 (by omega) (by omega) he2) hbytes f.end_
    by_cases h256 : f.end_ ≤ 256
    · obtain ⟨s3, d3, Al3, P3, hr2, inv2⟩ := sap_loop ctx f.end_ hbytes (f.end_ - 2) 2 s2 d2' Al2 P2 inv1 (by omega)
        (by rw [show 2 + (f.end_ - 2) = f.end_ by omega]; exact hsmall _ he2 h256 (Nat.le_refl _))
      rw [show 2 + (f.end_ - 2) = f.end_ by omega] at inv2
      refine ⟨s3, d3, Al3, ?_, Or.inr (Or.inl ⟨he2, h256, P3, inv2⟩)⟩
      rw [hrng, show f.end_ - 1 = (f.end_ - 2) + 1 by omega, List.range'_succ]
      unfold wfLoop
      simp only [bind_def]
      rw [bind_ok _ _ d2 d1 _ hr0]
      unfold wfLoop
      simp only [bind_def]
      rw [bind_ok _ _ d1 d2' _ hr1]
      exact hr2
    · -- a tree
      obtain ⟨s3, d3, Al3, P3, hr2, inv2⟩ := sap_loop ctx f.end_ hbytes 254 2 s2 d2' Al2 P2 inv1 (by omega)
        (hsmall 256 (by omega) (by omega) (by omega))
      obtain ⟨s4, d4, Al4, G4, P4, hr3, inv3, hic3⟩ := tree_conv ctx inv2 (Nat.le_trans (allocCount_mono f (by omega)) hfit) hbytes f.end_
      obtain ⟨s5, d5, Al5, G5, P5, hr4, inv4, hic5⟩ := tree_loop ctx f.end_ hbytes (f.end_ - 257) 257 s4 d4 Al4 G4 P4 inv3 hic3
        (by omega) (by rw [show 257 + (f.end_ - 257) = f.end_ by omega]; exact hfit)
      rw [show 257 + (f.end_ - 257) = f.end_ by omega] at inv4
      refine ⟨s5, d5, Al5, ?_, Or.inr (Or.inr ⟨by omega, G5, P5, inv4, hic5⟩)⟩
      have hsplit : List.range' 1 (f.end_ - 1) = 1 :: (List.range' 2 254 ++ 256 :: List.range' 257 (f.end_ - 257)) := by
        rw [show f.end_ - 1 = (254 + ((f.end_ - 257) + 1)) + 1 by omega, List.range'_succ, ← List.range'_append_1]
        simp only [Nat.reduceAdd]
        rw [List.range'_succ (s := 256)]
      rw [hrng, hsplit]
      unfold wfLoop
      simp only [bind_def]
      rw [bind_ok _ _ d2 d1 _ hr0]
      unfold wfLoop
      simp only [bind_def]
      rw [bind_ok _ _ d1 d2' _ hr1]
      rw [wfLoop_append, bind_ok _ _ d2' d3 _ hr2]
      unfold wfLoop
      simp only [bind_def]
      rw [bind_ok _ _ d3 d4 _ hr3]
      exact hr4

end A2Verif.FsProdos
