import A2Verif.Lemmas.FsProdosPutC
/-!
# `write_file`: the whole loop (files of at most 256 chunks)

`sap_loop`: the sapling rounds; `write_loop`: rounds `0 … end-1` from the state `write_file` starts in.  The result is a
seedling (`end = 1`) described by `SeedInv` or a sapling described by `SapInv`.
-/
namespace A2Verif.FsProdos
open A2Verif.Fs.Prodos
open A2Verif.Read.Prodos (entryAt dirChain idxPtr indexEntries readData trimName)

theorem sap_loop {f : FImg} {d2 : Disk} {bm cnt : Nat} {e0 : Bytes} (ctx : LoopCtx d2 bm cnt) (end_ : Nat)
    (hbytes : ∀ k data, f.chunks.lookup k = some data → ∀ x ∈ data, x < 256) :
    ∀ (n c : Nat) (s : WS) (dc : Disk) (Al P : List Nat), SapInv f d2 bm cnt e0 c s dc Al P → c + n ≤ 256 →
      dataCount f (c + n) + 1 ≤ (freeBlocks (effBuf d2 bm cnt) d2.total).length →
      ∃ s' d' Al' P', wfLoop f end_ (List.range' c n) s dc = (.ok s', d') ∧ SapInv f d2 bm cnt e0 (c + n) s' d' Al' P'
  | 0, c, s, dc, Al, P, inv, _, _ => ⟨s, dc, Al, P, rfl, inv⟩
  | n + 1, c, s, dc, Al, P, inv, hle, hfit => by
    obtain ⟨s1, d1, Al1, P1, h1, inv1⟩ := sap_round ctx inv (by omega) end_
      (Nat.le_trans (Nat.succ_le_succ (dataCount_mono f (by omega))) hfit) hbytes
    obtain ⟨s2, d2', Al2, P2, h2, inv2⟩ := sap_loop ctx end_ hbytes n (c + 1) s1 d1 Al1 P1 inv1 (by omega)
      (by rw [show c + 1 + n = c + (n + 1) by omega]; exact hfit)
    refine ⟨s2, d2', Al2, P2, ?_, by rw [show c + (n + 1) = c + 1 + n by omega]; exact inv2⟩
    rw [List.range'_succ]
    unfold wfLoop
    simp only [bind_def]
    rw [bind_ok _ _ dc d1 _ h1]
    exact h2

/-- the state `write_file` starts the loop in -/
def ws0 (ent : Bytes) : WS :=
  { storage := stSeedling, masterBuf := zeros blockSize, masterPtr := 0, masterCount := 0,
    indexBuf := zeros blockSize, indexPtr := 0, indexCount := 0, entry := ent }

/-- **the loop of `write_file`** for a file image whose chunks have indices below 256 -/
theorem write_loop {f : FImg} {d2 : Disk} {bm cnt : Nat} {e0 ent : Bytes} {nb : Nat} (ctx : LoopCtx d2 bm cnt)
    (hent : EFacts e0 ent 1 nb 0)
    (hnb : ∀ p, (List.range d2.total).find? (freeB (effBuf d2 bm cnt)) = some p → p = nb)
    (hfh : d2.src.firstHole = true) (h1 : 1 ≤ f.end_) (h256 : f.end_ ≤ 256)
    (hfit : dataCount f f.end_ + (if f.end_ > 1 then 1 else 0) ≤ (freeBlocks (effBuf d2 bm cnt) d2.total).length)
    (h0 : f.end_ = 1 → hasChunk f 0 = true)
    (hbytes : ∀ k data, f.chunks.lookup k = some data → ∀ x ∈ data, x < 256) :
    ∃ s dc Al, wfLoop f f.end_ (rng 0 f.end_) (ws0 ent) d2 = (.ok s, dc) ∧
      ((f.end_ = 1 ∧ SeedInv f d2 bm cnt e0 nb s dc Al) ∨ (2 ≤ f.end_ ∧ ∃ P, SapInv f d2 bm cnt e0 f.end_ s dc Al P)) := by
  have hrng : rng 0 f.end_ = 0 :: List.range' 1 (f.end_ - 1) := by
    unfold rng
    rw [show f.end_ - 0 = (f.end_ - 1) + 1 by omega, List.range'_succ]
  have hfit1 : 1 ≤ (freeBlocks (effBuf d2 bm cnt) d2.total).length := by
    by_cases he : f.end_ = 1
    · have := h0 he
      have hd : dataCount f 1 = 1 := by rw [dataCount_succ, dataCount_zero, this]; rfl
      rw [he, hd] at hfit; omega
    · rw [if_pos (by omega)] at hfit; omega
  obtain ⟨s1, d1, Al1, hr0, inv0⟩ := seed_round0 (f := f) ctx (ws0 ent) rfl rfl rfl rfl rfl hent hnb hfit1 hbytes f.end_
  by_cases he : f.end_ = 1
  · refine ⟨s1, d1, Al1, ?_, Or.inl ⟨he, inv0⟩⟩
    rw [hrng, he]
    show wfLoop f 1 [0] (ws0 ent) d2 = _
    unfold wfLoop
    simp only [bind_def]
    rw [he] at hr0
    rw [bind_ok _ _ d2 d1 _ hr0]
    rfl
  · have he2 : 2 ≤ f.end_ := by omega
    rw [if_pos (by omega)] at hfit
    obtain ⟨s2, d2', Al2, P2, hr1, inv1⟩ := seed_round1 ctx inv0 hfh
      (Nat.le_trans (Nat.succ_le_succ (dataCount_mono f he2)) hfit) hbytes f.end_
    obtain ⟨s3, d3, Al3, P3, hr2, inv2⟩ := sap_loop ctx f.end_ hbytes (f.end_ - 2) 2 s2 d2' Al2 P2 inv1 (by omega)
      (by rw [show 2 + (f.end_ - 2) = f.end_ by omega]; exact hfit)
    rw [show 2 + (f.end_ - 2) = f.end_ by omega] at inv2
    refine ⟨s3, d3, Al3, ?_, Or.inr ⟨he2, P3, inv2⟩⟩
    rw [hrng, show f.end_ - 1 = (f.end_ - 2) + 1 by omega, List.range'_succ]
    unfold wfLoop
    simp only [bind_def]
    rw [bind_ok _ _ d2 d1 _ hr0]
    unfold wfLoop
    simp only [bind_def]
    rw [bind_ok _ _ d1 d2' _ hr1]
    exact hr2

end A2Verif.FsProdos
