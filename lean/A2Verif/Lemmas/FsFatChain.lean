import A2Verif.Lemmas.FsFatFlush
/-!
# Cluster chains: the reader's `chain` and the model's de-allocation walk follow the same links

`IsChain f hi c cl`: `cl` is the list of clusters reached from `c` by following the FAT `f`, every one a data cluster
below `hi`, the last one marked end-of-chain, none of the links zero.  The reader's `chain` returns such a list, without
repetition (`chain_isChain`); the model's `deallocLoop` started at `c` zeroes exactly the entries of that list
(`deallocLoop_chain`); a reading that succeeded is not changed by changing FAT entries outside the clusters it reports
as owned (`readDirT_congr_fat`).
-/
namespace A2Verif.FsFat
open A2Verif A2Verif.Fs.Fat A2Verif.Read.Fat A2Verif.Read.FatT

/-- FAT entry `c` as both sides read it -/
def nxt (f : Array Nat) (c : Nat) : Nat := rd12 (fn f) c

theorem fatEntry_eq (f : Array Nat) (c : Nat) : fatEntry f false c = nxt f c := (rd12_eq_reader f c).symm

inductive IsChain (f : Array Nat) (hi : Nat) : Nat → List Nat → Prop
  | last {c : Nat} : 2 ≤ c → c < hi → 0xFF8 ≤ nxt f c → IsChain f hi c [c]
  | link {c : Nat} {cl : List Nat} : 2 ≤ c → c < hi → nxt f c ≠ 0 → nxt f c < 0xFF8 → IsChain f hi (nxt f c) cl → IsChain f hi c (c :: cl)

theorem isEnd_false (v : Nat) : isEnd false v = decide (v ≥ 0xFF8) := rfl

/-- the reader's chain: the clusters collected so far, then a chain from the current one that avoids them -/
theorem chain_isChain (f : Array Nat) (hi : Nat) : ∀ (fuel c : Nat) (seen res : List Nat),
    chain f false hi fuel c seen = .ok res → seen.Nodup →
    ∃ cl, res = seen.reverse ++ cl ∧ IsChain f hi c cl ∧ (∀ x ∈ cl, x ∉ seen) ∧ cl.Nodup := by
  intro fuel
  induction fuel with
  | zero => intro c seen res h _; simp [chain] at h
  | succ n ih =>
    intro c seen res h hnd
    rw [chain] at h
    by_cases h1 : c < 2 ∨ c ≥ hi
    · rw [if_pos h1] at h; cases h
    · rw [if_neg h1] at h
      by_cases h2 : seen.contains c = true
      · rw [if_pos h2] at h; cases h
      · rw [if_neg h2] at h
        have hcs : c ∉ seen := by simpa using h2
        simp only [fatEntry_eq] at h
        by_cases h3 : nxt f c = 0
        · rw [if_pos h3] at h; cases h
        · rw [if_neg h3] at h
          by_cases h4 : isEnd false (nxt f c) = true
          · rw [if_pos h4] at h
            simp only [pure, Except.pure] at h
            injection h with h
            rw [isEnd_false] at h4
            refine ⟨[c], by rw [← h]; simp, IsChain.last (by omega) (by omega) (by simpa using h4), ?_, by simp⟩
            intro x hx
            have : x = c := by simpa using hx
            subst this; exact hcs
          · rw [if_neg h4] at h
            rw [isEnd_false] at h4
            have h4' : nxt f c < 0xFF8 := by simpa using h4
            obtain ⟨cl, e1, e2, e3, e4⟩ := ih (nxt f c) (c :: seen) res h (List.nodup_cons.mpr ⟨hcs, hnd⟩)
            refine ⟨c :: cl, by rw [e1]; simp, IsChain.link (by omega) (by omega) h3 h4' e2, ?_, ?_⟩
            · intro x hx
              rcases List.mem_cons.mp hx with h | h
              · subst h; exact hcs
              · exact fun hs => e3 x h (by simp [hs])
            · exact List.nodup_cons.mpr ⟨fun hc => e3 c hc (by simp), e4⟩

theorem IsChain.head_mem {f : Array Nat} {hi c : Nat} {cl : List Nat} (h : IsChain f hi c cl) : c ∈ cl := by
  cases h <;> simp

theorem IsChain.bounds {f : Array Nat} {hi c : Nat} {cl : List Nat} (h : IsChain f hi c cl) : ∀ x ∈ cl, 2 ≤ x ∧ x < hi := by
  induction h with
  | last h1 h2 _ => intro x hx; simp at hx; subst hx; exact ⟨h1, h2⟩
  | link h1 h2 _ _ _ ih =>
    intro x hx
    rcases List.mem_cons.mp hx with h | h
    · subst h; exact ⟨h1, h2⟩
    · exact ih x h

/-- a chain only depends on the entries of its own clusters -/
theorem IsChain.congr {f f' : Array Nat} {hi c : Nat} {cl : List Nat} (h : IsChain f hi c cl) (he : ∀ x ∈ cl, nxt f' x = nxt f x) :
    IsChain f' hi c cl := by
  induction h with
  | last h1 h2 h3 => exact IsChain.last h1 h2 (by rw [he _ (by simp)]; exact h3)
  | link h1 h2 h3 h4 _ ih =>
    have e := he _ (List.mem_cons_self)
    refine IsChain.link h1 h2 (by rw [e]; exact h3) (by rw [e]; exact h4) ?_
    rw [e]
    exact ih (fun x hx => he x (List.mem_cons_of_mem _ hx))

/-! ## pigeonhole -/

theorem filter_ne_length (n : Nat) : ∀ (l : List Nat), l.Nodup → l.length ≤ (l.filter (· ≠ n)).length + 1 := by
  intro l
  induction l with
  | nil => intro _; simp
  | cons a t ih =>
    intro hnd
    have ⟨hat, hndt⟩ := List.nodup_cons.mp hnd
    by_cases ha : a = n
    · subst ha
      have hft : t.filter (· ≠ a) = t := by
        apply List.filter_eq_self.mpr
        intro x hx
        have : x ≠ a := fun e => hat (e ▸ hx)
        exact decide_eq_true this
      have hd : decide (a ≠ a) = false := decide_eq_false (by simp)
      rw [List.filter_cons, hd, hft]
      simp
    · have hd : decide (a ≠ n) = true := decide_eq_true ha
      rw [List.filter_cons, hd]
      have := ih hndt
      simp only [if_true, List.length_cons]
      omega

theorem nodup_length_le : ∀ (n lo : Nat) (l : List Nat), l.Nodup → (∀ x ∈ l, lo ≤ x ∧ x < lo + n) → l.length ≤ n := by
  intro n
  induction n with
  | zero =>
    intro lo l _ h
    cases l with
    | nil => simp
    | cons a t => have := h a (by simp); omega
  | succ n ih =>
    intro lo l hnd h
    have h1 : (l.filter (· ≠ lo + n)).length ≤ n := by
      apply ih lo
      · exact hnd.sublist List.filter_sublist
      · intro x hx
        have hx' := List.mem_filter.mp hx
        have := h x hx'.1
        have : x ≠ lo + n := by simpa using hx'.2
        omega
    have h2 := filter_ne_length (lo + n) l hnd
    omega

theorem chain_length_le {f : Array Nat} {hi c : Nat} {cl : List Nat} (h : IsChain f hi c cl) (hnd : cl.Nodup) : cl.length ≤ hi - 2 := by
  apply nodup_length_le (hi - 2) 2 cl hnd
  intro x hx
  have := h.bounds x hx
  omega

/-! ## the model's walk -/

theorem deallocateBlock_eq {d : Disk} {f : Array Nat} (hf : d.fat = some f) (ht : d.typ = 12) (hb : BytesOk f) {n : Nat} (hi : InBuf f n) :
    ∃ f', deallocateBlock n d = (.ok (if 0xFF8 ≤ nxt f n then none else some (nxt f n)), { d with fat := some f' }) ∧
      f'.size = f.size ∧ BytesOk f' ∧ nxt f' n = 0 ∧ ∀ x, x ≠ n → nxt f' x = nxt f x := by
  cases d with
  | mk raw bpb typ fat lf =>
  simp only at hf ht
  subst hf ht
  obtain ⟨f', e, hs, hfn⟩ := setCluster12_spec (v := 0) hi
  have hd : deallocate 12 f n = .ok f' := e
  refine ⟨f', ?_, hs, bytesOk_setCluster hb e, ?_, ?_⟩
  · unfold deallocateBlock
    rw [M_bind_apply, getFatBuffer_open rfl]
    by_cases hl : decide (eocMin 12 ≤ rd12 (fn f) n) = true
    · have hl' : 0xFF8 ≤ nxt f n := by simpa [eocMin, nxt] using hl
      simp only [isLast, getCluster12_eq hi, Except.map, hd, M_bind_apply, M.get, M.lift, M.setFat, M_pure_apply, hl, if_true, hl']
    · have hl' : ¬ (0xFF8 ≤ nxt f n) := by simpa [eocMin, nxt] using hl
      simp only [isLast, getCluster12_eq hi, Except.map, hd, M_bind_apply, M.get, M.lift, M.setFat, M_pure_apply, hl,
        Bool.false_eq_true, if_false, hl']
      rfl
  · unfold nxt; rw [hfn, rd_wr_same _ _ _ (hb _) (hb _)]
  · intro x hx
    unfold nxt; rw [hfn, rd_wr_other _ _ _ _ hx hb]

/-- **the de-allocation walk zeroes exactly the entries of the chain** -/
theorem deallocLoop_chain {hi : Nat} : ∀ (cl : List Nat) (f : Array Nat) (c fuel : Nat) (d : Disk), IsChain f hi c cl →
    d.fat = some f → d.typ = 12 → BytesOk f → cl.Nodup → (∀ x, x < hi → InBuf f x) → cl.length ≤ fuel →
    ∃ f', deallocLoop fuel c d = (.ok (), { d with fat := some f' }) ∧ f'.size = f.size ∧ BytesOk f' ∧
      (∀ x ∈ cl, nxt f' x = 0) ∧ (∀ x, x ∉ cl → nxt f' x = nxt f x) := by
  intro cl
  induction cl with
  | nil => intro f c fuel d h; cases h
  | cons a t ih =>
    intro f c fuel d h hf ht hb hnd hin hlen
    have ⟨hat, hndt⟩ := List.nodup_cons.mp hnd
    cases fuel with
    | zero => simp at hlen
    | succ n =>
      cases h with
      | last h1 h2 h3 =>
        obtain ⟨f', e1, e2, e3, e4, e5⟩ := deallocateBlock_eq hf ht hb (hin a h2)
        refine ⟨f', ?_, e2, e3, ?_, ?_⟩
        · unfold deallocLoop
          rw [M_bind_apply, e1]
          simp only [h3, if_true]
          rfl
        · intro x hx; simp at hx; subst hx; exact e4
        · intro x hx; exact e5 x (by simpa using hx)
      | link h1 h2 h3 h4 hrest =>
        obtain ⟨f1, e1, e2, e3, e4, e5⟩ := deallocateBlock_eq hf ht hb (hin a h2)
        have hrest1 : IsChain f1 hi (nxt f a) t := hrest.congr (fun x hx => e5 x (fun e => hat (e ▸ hx)))
        obtain ⟨f2, g1, g2, g3, g4, g5⟩ := ih f1 (nxt f a) n { d with fat := some f1 } hrest1 rfl ht e3 hndt
          (fun x hx => inBuf_of_size e2 (hin x hx)) (by simp at hlen; omega)
        refine ⟨f2, ?_, by rw [g2, e2], g3, ?_, ?_⟩
        · unfold deallocLoop
          rw [M_bind_apply, e1]
          have : ¬ (0xFF8 ≤ nxt f a) := by omega
          simp only [this, if_false]
          exact g1
        · intro x hx
          rcases List.mem_cons.mp hx with h | h
          · subst h; rw [g5 x hat]; exact e4
          · exact g4 x h
        · intro x hx
          have hxa : x ≠ a := fun e => hx (by simp [e])
          have hxt : x ∉ t := fun e => hx (by simp [e])
          rw [g5 x hxt, e5 x hxa]

end A2Verif.FsFat
