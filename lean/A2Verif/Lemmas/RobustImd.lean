import A2Verif.Model.RobustImd
/-! helper lemmas for the IMD front of C12: what `update_from_bytes` accepts is a well formed record buffer,
`expand` maps well formed buffers to well formed buffers, and the re-scans of well formed buffers do not panic -/
namespace A2Verif.Model.Robust

/-- `n` sector records, each of the size its type byte announces, all type bytes known -/
def wfSecs (shift : Nat) : Nat → List Nat → Bool
  | 0, _ => true
  | _ + 1, [] => false
  | k + 1, c :: rest =>
    match secBufSize shift c with
    | .ok sz => decide (sz - 1 ≤ rest.length) && wfSecs shift k (rest.drop (sz - 1))
    | _ => false

theorem secBufSize_pos (shift c sz : Nat) (h : secBufSize shift c = .ok sz) : 1 ≤ sz := by
  unfold secBufSize at h
  split at h
  · simp at h; omega
  · split at h
    · simp at h; omega
    · split at h
      · simp at h; omega
      · simp at h

theorem parseSecs_wf (shift : Nat) : ∀ (k : Nat) (bytes tb r : List Nat),
    parseSecs shift k bytes = some (tb, r) → wfSecs shift k tb = true := by
  intro k
  induction k with
  | zero => intro bytes tb r h; simp [wfSecs]
  | succ k ih =>
    intro bytes tb r h
    cases bytes with
    | nil => simp [parseSecs] at h
    | cons c rest =>
      unfold parseSecs at h
      split at h
      · simp at h
      · split at h
        · rename_i sz hsz
          split at h
          · simp at h
          · rename_i hlen
            split at h
            · rename_i tb' r' hrec
              simp only [Option.some.injEq, Prod.mk.injEq] at h
              obtain ⟨htb, _⟩ := h
              subst htb
              have ih' := ih _ _ _ hrec
              have htake : (rest.take (sz - 1)).length = sz - 1 := by
                rw [List.length_take]; omega
              simp only [List.cons_append]
              unfold wfSecs
              simp only [hsz]
              have hd : (rest.take (sz - 1) ++ tb').drop (sz - 1) = tb' := by
                rw [List.drop_append_of_le_length (by omega)]
                rw [List.drop_eq_nil_of_le (by omega)]
                simp
              have hle : sz - 1 ≤ (rest.take (sz - 1) ++ tb').length := by
                rw [List.length_append, htake]; omega
              simp only [hd, ih', Bool.and_true, decide_eq_true_eq]
              exact hle
            · simp at h
        · simp at h

theorem capScan_wf (shift : Nat) : ∀ (k : Nat) (tb : List Nat), wfSecs shift k tb = true → capScan shift k tb ≠ .panic := by
  intro k
  induction k with
  | zero => intro tb _; simp [capScan]
  | succ k ih =>
    intro tb h
    cases tb with
    | nil => simp [wfSecs] at h
    | cons c rest =>
      unfold wfSecs at h
      unfold capScan
      split at h
      · rename_i sz hsz
        simp only [Bool.and_eq_true, decide_eq_true_eq] at h
        simp only [hsz]
        have := ih _ h.2
        cases hc : capScan shift k (rest.drop (sz - 1)) with
        | panic => exact absurd hc this
        | err => simp
        | ok n => simp
      · simp at h

/-- `expand` of a well formed buffer succeeds and its result is well formed again -/
theorem expandScan_wf (shift : Nat) : ∀ (k : Nat) (tb : List Nat), wfSecs shift k tb = true →
    ∃ tb', expandScan shift k tb = .ok tb' ∧ wfSecs shift k tb' = true := by
  intro k
  induction k with
  | zero => intro tb _; exact ⟨[], by simp [expandScan], by simp [wfSecs]⟩
  | succ k ih =>
    intro tb h
    cases tb with
    | nil => simp [wfSecs] at h
    | cons c rest =>
      unfold wfSecs at h
      split at h
      · rename_i sz hsz
        simp only [Bool.and_eq_true, decide_eq_true_eq] at h
        obtain ⟨more, hmore, hwf⟩ := ih _ h.2
        have hlen : ¬ rest.length < sz - 1 := by omega
        unfold expandScan
        simp only [hsz, hlen, if_false, hmore]
        by_cases h2 : sz = 2
        · -- compressed record: type byte is even and at least 2
          subst h2
          cases rest with
          | nil => simp at h
          | cons fill rest' =>
            refine ⟨(c - 1) :: List.replicate (128 * 2 ^ shift) fill ++ more, by simp, ?_⟩
            have hc : c = 2 ∨ c = 4 ∨ c = 6 ∨ c = 8 := by
              unfold secBufSize at hsz
              split at hsz
              · simp at hsz
              · split at hsz
                · simp at hsz
                  have : 0 < 2 ^ shift := Nat.two_pow_pos shift
                  omega
                · split at hsz
                  · assumption
                  · simp at hsz
            have hodd : secBufSize shift (c - 1) = .ok (1 + 128 * 2 ^ shift) := by
              unfold secBufSize
              rcases hc with h' | h' | h' | h' <;> subst h' <;> simp
            simp only [List.cons_append]
            unfold wfSecs
            simp only [hodd, Nat.add_sub_cancel_left]
            have hd : (List.replicate (128 * 2 ^ shift) fill ++ more).drop (128 * 2 ^ shift) = more := by
              rw [List.drop_append_of_le_length (by simp)]
              simp
            rw [hd, hwf]
            simp
        · refine ⟨c :: rest.take (sz - 1) ++ more, by simp [h2], ?_⟩
          have htake : (rest.take (sz - 1)).length = sz - 1 := by
            rw [List.length_take]; omega
          simp only [List.cons_append]
          unfold wfSecs
          simp only [hsz]
          have hd : (rest.take (sz - 1) ++ more).drop (sz - 1) = more := by
            rw [List.drop_append_of_le_length (by omega)]
            rw [List.drop_eq_nil_of_le (by omega)]
            simp
          have hle : sz - 1 ≤ (rest.take (sz - 1) ++ more).length := by
            rw [List.length_append, htake]; omega
          simp only [hd, hwf, Bool.and_true, decide_eq_true_eq]
          exact hle
      · simp at h

end A2Verif.Model.Robust
