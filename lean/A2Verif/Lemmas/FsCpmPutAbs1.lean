import A2Verif.Lemmas.FsCpmPutSpec
/-!
# Successful `put` refines the abstract `put`: generic list and specification lemmas
-/
namespace A2Verif.FsCpm
open A2Verif.Fs.Cpm
open A2Verif.Read.Cpm (Dpb fileKey extNum entryPtrs pathOf slots)

/-- position by position: where the predicate holds on either side the elements are equal -/
theorem filter_pos {α : Type} (q : α → Bool) : ∀ (l1 l2 : List α), l1.length = l2.length →
    (∀ (j : Nat) (a b : α), l1[j]? = some a → l2[j]? = some b → (q a = true ∨ q b = true) → a = b) → l1.filter q = l2.filter q
  | [], [], _, _ => rfl
  | [], _ :: _, h, _ => by simp at h
  | _ :: _, [], h, _ => by simp at h
  | a :: l1, b :: l2, h, hp => by
    have ih := filter_pos q l1 l2 (by simpa using h) (fun j x y hx hy => hp (j + 1) x y (by simpa using hx) (by simpa using hy))
    by_cases ca : q a = true
    · have := hp 0 a b rfl rfl (Or.inl ca)
      rw [← this, List.filter_cons_of_pos ca, List.filter_cons_of_pos ca, ih]
    · by_cases cb : q b = true
      · have := hp 0 a b rfl rfl (Or.inr cb)
        rw [this] at ca; exact absurd cb ca
      · rw [List.filter_cons_of_neg ca, List.filter_cons_of_neg cb, ih]

theorem any_pos {α : Type} (p : α → Bool) : ∀ (l1 l2 : List α), l1.length = l2.length →
    (∀ (j : Nat) (a b : α), l1[j]? = some a → l2[j]? = some b → p a = p b) → l1.any p = l2.any p
  | [], [], _, _ => rfl
  | [], _ :: _, h, _ => by simp at h
  | _ :: _, [], h, _ => by simp at h
  | a :: l1, b :: l2, h, hp => by
    rw [List.any_cons, List.any_cons, hp 0 a b rfl rfl,
      any_pos p l1 l2 (by simpa using h) (fun j x y hx hy => hp (j + 1) x y (by simpa using hx) (by simpa using hy))]

/-- the `stepOk` of a successful put, from the membership of the two listings -/
theorem put_stepOk {P : FsParams} {pre post : Vol} {recK : FileRec} {cs : List (Nat × Bytes)} {eof : Nat}
    (hkt : P.keepsType = false) (hka : P.keepsAux = false) (hwpre : pre.wfB = true) (hwpost : post.wfB = true)
    (hmem : ∀ g, g ∈ post.files ↔ g = recK ∨ g ∈ pre.files) (hfresh : recK.path ∉ pre.paths)
    (hc : chunksMatch cs recK.chunks = true) (hd : recK.isDir = false) (he : recK.eof = P.eofRule eof)
    (ho : ∀ u ∈ recK.owned, u ∈ pre.freeUnits) :
    stepOk P pre (.put recK.path cs eof 0 0) true post = true := by
  have ndpost : (post.files.map (·.path)).Nodup := wfB_paths_nodup hwpost
  have hnone : pre.lookup recK.path = none := find_path_none.2 hfresh
  have hsome : post.lookup recK.path = some recK := find_path_of_mem ndpost ((hmem recK).2 (Or.inl rfl))
  have hsame : sameFiles pre.files (without post.files [recK.path]) = true := by
    rw [sameFiles_iff]
    refine ⟨fun g hg => ⟨g, ?_, sameRec_refl g⟩, fun g hg => ?_⟩
    · have hne : g.path ∉ [recK.path] := by
        intro hm
        rw [List.mem_singleton] at hm
        exact hfresh (hm ▸ List.mem_map_of_mem hg)
      rw [without_find hne]
      exact find_path_of_mem ndpost ((hmem g).2 (Or.inr hg))
    · obtain ⟨h1, h2⟩ := without_mem.1 hg
      rcases (hmem g).1 h1 with rfl | h3
      · exact absurd (List.mem_singleton.2 rfl) h2
      · exact find_path_isSome.2 (List.mem_map_of_mem h3)
  simp only [stepOk, stepConds, List.all_cons, List.all_nil, Bool.and_true, Bool.and_eq_true]
  refine ⟨hwpost, ?_, ?_, ?_, ?_, ?_, ?_, hsame⟩
  · rw [hnone]; rfl
  · rw [hsome]; rfl
  · rw [hsome]; simp [hc, hd]
  · rw [hsome]; simp [he]
  · rw [hsome]; simp [hkt, hka]
  · rw [hsome]
    simp only [List.all_eq_true, List.contains_eq_mem, decide_eq_true_eq]
    exact ho

/-- strictly ascending key lists with the same members are equal, and then the chunks match -/
theorem chunksMatch_of_sorted {cs got : List (Nat × Bytes)} (h1 : (cs.map (·.1)).Pairwise (· < ·))
    (h2 : (got.map (·.1)).Pairwise (· < ·)) (hsub : ∀ g c, (g, c) ∈ cs → ∃ b, (g, b) ∈ got ∧ c <+: b)
    (hsup : ∀ g b, (g, b) ∈ got → ∃ c, (g, c) ∈ cs) : chunksMatch cs got = true := by
  have nd1 : (cs.map (·.1)).Nodup := h1.imp (fun h => Nat.ne_of_lt h)
  have nd2 : (got.map (·.1)).Nodup := h2.imp (fun h => Nat.ne_of_lt h)
  have hkeys : cs.map (·.1) = got.map (·.1) := by
    apply List.Perm.eq_of_pairwise (le := (· < ·)) (fun a b _ _ hab hba => by omega) h1 h2
    rw [List.perm_ext_iff_of_nodup nd1 nd2]
    intro g
    simp only [List.mem_map]
    constructor
    · rintro ⟨⟨g', c⟩, hm, rfl⟩
      obtain ⟨b, hb, _⟩ := hsub g' c hm
      exact ⟨(g', b), hb, rfl⟩
    · rintro ⟨⟨g', b⟩, hm, rfl⟩
      obtain ⟨c, hc⟩ := hsup g' b hm
      exact ⟨(g', c), hc, rfl⟩
  unfold chunksMatch
  rw [Bool.and_eq_true]
  refine ⟨by rw [hkeys]; simp, ?_⟩
  rw [List.all_eq_true]
  rintro ⟨s, g⟩ hm
  obtain ⟨i, hi⟩ := List.mem_iff_getElem?.1 hm
  obtain ⟨hs, hg⟩ := List.getElem?_zip_eq_some.1 hi
  have hk : s.1 = g.1 := by
    have : (cs.map (·.1))[i]? = (got.map (·.1))[i]? := by rw [hkeys]
    rw [List.getElem?_map, List.getElem?_map, hs, hg] at this
    simpa using this
  obtain ⟨b, hb, hpre⟩ := hsub s.1 s.2 (List.mem_of_getElem? hs)
  have hgm : g ∈ got := List.mem_of_getElem? hg
  have : (s.1, b) = g := nodup_map_inj (g := fun (x : Nat × Bytes) => x.1) nd2 hb hgm hk
  rw [← this]
  simp only [beq_iff_eq]
  exact (List.prefix_iff_eq_take.1 hpre).symm

theorem mem_ownedE' {d : Dpb} {e : Bytes} {p : Nat} (h : p ∈ ownedE d e) : ∃ k : Nat, (entryPtrs d e)[k]? = some p ∧ p ≠ 0 := by
  obtain ⟨h1, h2⟩ := mem_ownedE h
  obtain ⟨k, hk⟩ := List.mem_iff_getElem?.1 h1
  exact ⟨k, hk, h2⟩

theorem ownedE_mem_of {d : Dpb} {e : Bytes} {k p : Nat} (h : (entryPtrs d e)[k]? = some p) (hp : p ≠ 0) : p ∈ ownedE d e := by
  unfold ownedE nzPtrs
  rw [List.mem_map]
  refine ⟨(p, k), ?_, rfl⟩
  rw [List.mem_filter]
  refine ⟨?_, by simpa using hp⟩
  rw [List.mem_zipIdx_iff_getElem?]
  simpa using h

/-- the non-zero pointers of an entry are pairwise different when equal ones sit in the same slot -/
theorem ownedE_nodup {d : Dpb} {e : Bytes}
    (h : ∀ (k l p : Nat), (entryPtrs d e)[k]? = some p → (entryPtrs d e)[l]? = some p → p ≠ 0 → k = l) : (ownedE d e).Nodup := by
  unfold ownedE nzPtrs List.Nodup
  rw [List.pairwise_map, List.pairwise_filter, List.pairwise_iff_getElem]
  intro i j hi hj hij ha hb heq
  simp only [List.getElem_zipIdx, Nat.zero_add] at ha hb heq
  rw [List.length_zipIdx] at hi hj
  have h1 : (entryPtrs d e)[i]? = some (entryPtrs d e)[i] := List.getElem?_eq_getElem hi
  have h2 : (entryPtrs d e)[j]? = some (entryPtrs d e)[i] := by rw [List.getElem?_eq_getElem hj, heq]
  have := h i j _ h1 h2 (by simpa using ha)
  omega

end A2Verif.FsCpm
