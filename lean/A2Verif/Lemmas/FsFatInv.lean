import A2Verif.Lemmas.FsFatDelete
import A2Verif.Lemmas.FsFatPut
import A2Verif.Model.Fs.FatReadT
/-!
# The state invariant of the concrete FAT model and the reading of an image that satisfies it

`Geo d`: the static facts (512-byte sectors, boot sector = the BPB buffer, FAT12, the volume lies inside the image).
`Coh d f`: the FAT buffer is open and every FAT copy on the image holds it (what `get_img()` establishes).
`readT_eq`: under both, the total reader `Read.FatT.readT` reads the image through the model's own quantities: the
reader's FAT *is* the buffer, its cluster bound is `2 + cluster_count_usable`, and its root buffer is `rootBuf d`.
-/
namespace A2Verif.FsFat
open A2Verif A2Verif.Fs.Fat

/-- the reader's view of the model's BPB -/
def rbpb (b : Bpb) : Read.Fat.Bpb :=
  { bps := b.bps, spc := b.spc, rsvd := b.rsvd, nfat := b.nfat, rootEnts := b.rootEnt0 + 256 * b.rootEnt1, totSec := b.totSec, fatSz := b.fat16 }

structure Geo (d : Disk) : Prop where
  boot : ∃ s0, d.raw.units[0]? = some s0 ∧ Bpb.ofBoot s0 = d.bpb
  ulen : d.raw.unitLen = 512
  usz : ∀ i (h : i < d.raw.units.size), d.raw.units[i].length = 512
  bps : d.bpb.bps = 512
  spc : d.bpb.spc ≠ 0
  nfat : d.bpb.nfat ≠ 0
  fat16 : d.bpb.fat16 ≠ 0
  spt : d.bpb.spt ≠ 0
  heads : d.bpb.heads ≠ 0
  typ : d.typ = 12
  ftyp : d.bpb.fatType = 12
  rsvd : 1 ≤ d.bpb.rsvd
  fits : d.bpb.firstDataSec < d.bpb.totSec ∧ d.bpb.totSec ≤ d.raw.units.size
  chs : ∀ s, s < d.bpb.totSec → s / d.bpb.spt < d.raw.units.size / d.bpb.spt

/-- sector `j` of the FAT buffer -/
def fatSector (f : Array Nat) (j : Nat) : Bytes := (f.toList.drop (j * 512)).take 512

structure Coh (d : Disk) (f : Array Nat) : Prop where
  isOpen : d.fat = some f
  size : f.size = d.bpb.fatSecs * 512
  bytes : BytesOk f
  copies : ∀ k j, k < d.bpb.nfat → j < d.bpb.fatSecs →
    d.raw.units[d.bpb.rsvd + k * d.bpb.fatSecs + j]? = some (fatSector f j)

/-- the bytes of the root directory sectors -/
def rootBuf (d : Disk) : Bytes :=
  ((List.range d.bpb.rootDirSecs).map (fun k => d.raw.units.getD (d.bpb.rootBeg + k) [])).flatten

/-! ## `mapM` in `Except` -/

theorem mapM_ok {ε α β : Type} (f : α → Except ε β) (g : α → β) : ∀ (l : List α), (∀ x ∈ l, f x = .ok (g x)) →
    l.mapM f = .ok (l.map g) := by
  intro l
  induction l with
  | nil => intro _; rfl
  | cons a t ih =>
    intro h
    rw [List.mapM_cons, h a (by simp), ih (fun x hx => h x (by simp [hx]))]
    rfl

theorem secs_ok (r : Raw) (s n : Nat) (who : String) (h : ∀ k, k < n → s + k < r.units.size) :
    Read.Fat.secs r s n who = .ok ((List.range n).map (fun k => r.units.getD (s + k) [])).flatten := by
  unfold Read.Fat.secs
  rw [mapM_ok (fun k => r.unit (s + k) who) (fun k => r.units.getD (s + k) [])]
  · rfl
  · intro k hk
    have hk' : s + k < r.units.size := h k (by simpa using hk)
    simp [Raw.unit, Array.getD, hk', Array.getElem?_eq_getElem hk']

/-! ## the FAT sectors put together are the buffer -/

theorem flatten_chunks : ∀ (n : Nat) (l : List Nat), l.length = n * 512 →
    ((List.range n).map (fun j => (l.drop (j * 512)).take 512)).flatten = l := by
  intro n
  induction n with
  | zero => intro l h; simp at h; simp [h]
  | succ n ih =>
    intro l h
    rw [List.range_succ, List.map_append, List.flatten_append]
    have h1 : (l.take (n * 512)).length = n * 512 := by simp; omega
    have e : ((List.range n).map (fun j => (l.drop (j * 512)).take 512)) =
        ((List.range n).map (fun j => ((l.take (n * 512)).drop (j * 512)).take 512)) := by
      apply List.map_congr_left
      intro j hj
      have hj' : j < n := by simpa using hj
      rw [List.drop_take, List.take_take]
      congr 1
      have : (j + 1) * 512 ≤ n * 512 := Nat.mul_le_mul_right 512 hj'
      simp [Nat.add_mul] at this
      omega
    rw [e, ih _ h1]
    simp only [List.map_cons, List.map_nil, List.flatten_cons, List.flatten_nil, List.append_nil]
    have : (l.drop (n * 512)).take 512 = l.drop (n * 512) := by
      apply List.take_of_length_le
      simp; rw [h, Nat.add_mul]; omega
    rw [this, List.take_append_drop]

/-! ## the reader on an image that satisfies `Geo` and `Coh` -/

def hiOf (b : Bpb) : Nat := 2 + b.clusterCountUsable

def freeUnitsOf (b : Bpb) (f : Array Nat) : List Nat :=
  ((List.range b.clusterCountUsable).map (· + 2)).filter (fun c => Read.Fat.fatEntry f false c = 0)

/-- the reading as a function of the root buffer (everything else fixed by the state) -/
def readFrom (d : Disk) (f : Array Nat) (buf : Bytes) : Except String Vol :=
  (Read.FatT.readDirT d.raw (rbpb d.bpb) f false (hiOf d.bpb) 33 buf []).map
    (fun files => { lo := 2, hi := hiOf d.bpb, sys := [], files := files, freeUnits := freeUnitsOf d.bpb f })

theorem parseBpb_ofBoot (s0 : Bytes) : Read.Fat.parseBpb s0 = rbpb (Bpb.ofBoot s0) := by
  have h1 : le16 s0 17 = s0.getD 17 0 + 256 * s0.getD 18 0 := rfl
  have h2 : (if le16 s0 19 ≠ 0 then le16 s0 19 else le32 s0 32) = (if le16 s0 19 = 0 then le32 s0 32 else le16 s0 19) := by
    by_cases h : le16 s0 19 = 0 <;> simp [h]
  unfold Read.Fat.parseBpb rbpb Bpb.ofBoot Bpb.totSec
  simp only [h1, h2]

theorem fatSecs_eq {d : Disk} (g : Geo d) : d.bpb.fatSecs = d.bpb.fat16 := by
  unfold Bpb.fatSecs; simp [g.fat16]

theorem rootSecs_eq {d : Disk} (g : Geo d) : Read.Fat.rootSecs (rbpb d.bpb) = d.bpb.rootDirSecs := by
  unfold Read.Fat.rootSecs Bpb.rootDirSecs rbpb
  simp [g.bps]

theorem firstData_eq {d : Disk} (g : Geo d) : Read.Fat.firstData (rbpb d.bpb) = d.bpb.firstDataSec := by
  unfold Read.Fat.firstData Bpb.firstDataSec
  rw [rootSecs_eq g, fatSecs_eq g]
  rfl

theorem clusterCount_eq {d : Disk} (g : Geo d) : Read.Fat.clusterCount (rbpb d.bpb) = d.bpb.clusterCountAbstract := by
  unfold Read.Fat.clusterCount Bpb.clusterCountAbstract Bpb.dataRgnSecs
  rw [firstData_eq g]
  rfl

theorem abstract_lt {d : Disk} (g : Geo d) : d.bpb.clusterCountAbstract < 4085 := by
  have := g.ftyp
  unfold Bpb.fatType at this
  by_cases h : d.bpb.clusterCountAbstract < 4085
  · exact h
  · simp only [h, if_false] at this
    split at this <;> omega

theorem fatBytes_eq {d : Disk} {f : Array Nat} (g : Geo d) (c : Coh d f) :
    Read.Fat.secs d.raw d.bpb.rsvd d.bpb.fat16 "fat" = .ok f.toList := by
  have hfs := fatSecs_eq g
  have hn : 0 < d.bpb.nfat := Nat.pos_of_ne_zero g.nfat
  have hcop : ∀ j, j < d.bpb.fat16 → d.raw.units[d.bpb.rsvd + j]? = some (fatSector f j) := by
    intro j hj
    have := c.copies 0 j hn (by rw [hfs]; exact hj)
    simpa using this
  rw [secs_ok]
  · congr 1
    have : (List.range d.bpb.fat16).map (fun k => d.raw.units.getD (d.bpb.rsvd + k) []) =
        (List.range d.bpb.fat16).map (fun j => (f.toList.drop (j * 512)).take 512) := by
      apply List.map_congr_left
      intro j hj
      have := hcop j (by simpa using hj)
      simp [Array.getD_eq_getD_getElem?, this, fatSector]
    rw [this]
    apply flatten_chunks
    rw [Array.length_toList, c.size, hfs]
  · intro k hk
    have := hcop k hk
    by_cases h : d.bpb.rsvd + k < d.raw.units.size
    · exact h
    · have hn : d.raw.units[d.bpb.rsvd + k]? = none := by simp; omega
      rw [hn] at this; cases this

theorem rootBuf_eq {d : Disk} (g : Geo d) :
    Read.Fat.secs d.raw (d.bpb.rsvd + d.bpb.nfat * d.bpb.fat16) d.bpb.rootDirSecs "root-directory" = .ok (rootBuf d) := by
  rw [secs_ok]
  · unfold rootBuf Bpb.rootBeg
    rw [fatSecs_eq g]
  · intro k hk
    have h1 := g.fits
    unfold Bpb.firstDataSec at h1
    rw [fatSecs_eq g] at h1
    omega

theorem count_eq {d : Disk} {f : Array Nat} (g : Geo d) (c : Coh d f) :
    min (Read.Fat.clusterCount (rbpb d.bpb)) (f.toList.length * 2 / 3 - 2) = d.bpb.clusterCountUsable := by
  rw [clusterCount_eq g, Array.length_toList, c.size]
  unfold Bpb.clusterCountUsable Bpb.clusterCountAbstract Bpb.secSize
  rw [g.ftyp, g.bps]
  generalize d.bpb.fatSecs * 512 = x
  have : x * 2 / 3 = x * 8 / 12 := by omega
  rw [this]

theorem readT_eq {d : Disk} {f : Array Nat} (g : Geo d) (c : Coh d f) : Read.FatT.readT d.raw = readFrom d f (rootBuf d) := by
  obtain ⟨s0, hs0, hb⟩ := g.boot
  have hunit : d.raw.unit 0 "boot-sector" = .ok s0 := by simp [Raw.unit, hs0]
  have hp : Read.Fat.parseBpb s0 = rbpb d.bpb := by rw [parseBpb_ofBoot, hb]
  have hf16 : Read.Fat.isFat16 (rbpb d.bpb) = false := by
    unfold Read.Fat.isFat16
    rw [clusterCount_eq g]
    have := abstract_lt g
    simp; omega
  have hc1 : ¬ ((rbpb d.bpb).bps ≠ d.raw.unitLen ∨ (rbpb d.bpb).spc = 0 ∨ (rbpb d.bpb).nfat = 0 ∨ (rbpb d.bpb).fatSz = 0) := by
    simp [rbpb, g.bps, g.ulen, g.spc, g.nfat, g.fat16]
  have hc2 : ¬ (Read.Fat.firstData (rbpb d.bpb) ≥ (rbpb d.bpb).totSec ∨ (rbpb d.bpb).totSec > d.raw.count) := by
    rw [firstData_eq g]
    have := g.fits
    simp [rbpb, Raw.count]; omega
  unfold Read.FatT.readT readFrom
  simp only [hunit, bind, Except.bind, hp]
  rw [if_neg hc1]
  simp only [pure, Except.pure]
  rw [if_neg hc2]
  simp only [hf16]
  have hfb : Read.Fat.secs d.raw (rbpb d.bpb).rsvd (rbpb d.bpb).fatSz "fat" = .ok f.toList := fatBytes_eq g c
  have hrb : Read.Fat.secs d.raw ((rbpb d.bpb).rsvd + (rbpb d.bpb).nfat * (rbpb d.bpb).fatSz) (Read.Fat.rootSecs (rbpb d.bpb)) "root-directory"
      = .ok (rootBuf d) := by rw [rootSecs_eq g]; exact rootBuf_eq g
  simp only [hfb, hrb, Bool.false_eq_true, if_false, count_eq g c, Array.toArray_toList]
  simp only [hiOf, freeUnitsOf, Except.map]

end A2Verif.FsFat
