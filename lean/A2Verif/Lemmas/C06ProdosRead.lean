import A2Verif.Lemmas.C06Prodos
/-!
# C06, ProDOS: the queries cannot tell an object from its saved-and-reloaded twin

For a coherent object `d` with open buffer `b`: `closedTwin d b` is what `load (save d)` yields (flushed image, no
buffer, no bitmap blocks recorded), `openTwin d b` is the closed twin after it has re-opened its buffer (`reopen`).
Every read-only computation of the model (`catalog`, `get`, `stat`) gives the same answer on `d` and on either twin,
leaves `d` as it is and turns a twin into a twin (`RespQ`): a bitmap block is read from the buffer in `d` and from the
flushed image in the closed twin — the same bytes (`unitAt_flushed`); every other block is untouched by the flush.
-/
namespace A2Verif.Reload.Prodos
open A2Verif.Fs.Prodos A2Verif.FsProdos

/-- save and load, as one step on objects -/
def reload (d : Disk) : Disk :=
  match save d with
  | .ok b => load d.src b
  | .error _ => d

/-- what `load (save d)` is when the buffer `b` is open -/
def closedTwin (d : Disk) (b : Array Nat) : Disk :=
  { raw := flushedRaw d b, total := d.total, bitmap := none, bitmapBlocks := [], src := d.src }
/-- the closed twin after `open_bitmap_buffer` -/
def openTwin (d : Disk) (b : Array Nat) : Disk :=
  { raw := flushedRaw d b, total := d.total, bitmap := some b, bitmapBlocks := List.range' (bptrOf d.raw) (d.bmCount), src := d.src }

theorem flushed_size (d : Disk) (b : Array Nat) : (flushedRaw d b).units.size = d.raw.units.size := (wbRaw_size _ _ _ _).1

theorem flushed_shaped {d : Disk} (h : Coh d) (b : Array Nat) : Shaped 512 (flushedRaw d b) := wbRaw_shaped _ _ _ _ h.shaped

theorem flushed_other {d : Disk} (b : Array Nat) {u : Nat} (hu : u ∉ List.range' (bptrOf d.raw) (d.bmCount)) :
    (flushedRaw d b).units[u]? = d.raw.units[u]? := wbRaw_other _ _ _ _ u hu

theorem reload_open {d : Disk} {b : Array Nat} (h : Coh d) (hb : d.bitmap = some b) : reload d = closedTwin d b := by
  unfold reload save
  rw [flush_open h hb]
  simp only
  unfold load closedTwin
  simp only
  rw [ofBytes_toBytes (flushed_shaped h b), flushed_size, h.total]

theorem flush_closed {d : Disk} (hb : d.bitmap = none) : d.flush = (.ok (), d) := by
  have hw : writeback d = (.ok (), d) := by
    unfold writeback
    show M.bind M.get _ d = _
    unfold M.bind
    simp only [M.get, hb]
    rfl
  unfold Disk.flush
  rw [hw]

theorem reload_closed {d : Disk} (h : Coh d) (hb : d.bitmap = none) :
    reload d = { raw := d.raw, total := d.total, bitmap := none, bitmapBlocks := [], src := d.src } := by
  unfold reload save
  rw [flush_closed hb]
  simp only
  unfold load
  simp only
  rw [ofBytes_toBytes h.shaped, h.total]

theorem key_not_bitmap {d : Disk} {b : Array Nat} (h : Coh d) (hb : d.bitmap = some b) :
    volKeyBlock ∉ List.range' (bptrOf d.raw) (d.bmCount) := by
  obtain ⟨_, _, _, hk⟩ := h.buf b hb
  rw [List.mem_range'_1]
  omega

theorem bptr_flushed {d : Disk} {b : Array Nat} (h : Coh d) (hb : d.bitmap = some b) : bptrOf (flushedRaw d b) = bptrOf d.raw := by
  unfold bptrOf unitAt
  rw [flushed_other b (key_not_bitmap h hb)]

/-- **`open_bitmap_buffer` on the reloaded object restores the buffer that was saved** -/
theorem reopen {d : Disk} {b : Array Nat} (h : Coh d) (hb : d.bitmap = some b) :
    getBitmap (closedTwin d b) = (.ok b, openTwin d b) := by
  obtain ⟨_, hs, hin, _⟩ := h.buf b hb
  have hk : (closedTwin d b).raw.units[2]? = some (unitAt d.raw volKeyBlock) := by
    show (flushedRaw d b).units[volKeyBlock]? = _
    rw [flushed_other b (key_not_bitmap h hb)]
    unfold unitAt
    rw [Array.getElem?_eq_getElem h.key]; rfl
  have ho := openBitmap_closed (closedTwin d b) (unitAt d.raw volKeyBlock) rfl hk (by
    intro i hi
    rw [List.mem_range'_1] at hi
    show i < (flushedRaw d b).units.size
    rw [flushed_size]
    have : le16 (unitAt d.raw volKeyBlock) 39 = bptrOf d.raw := rfl
    show i < d.raw.units.size
    have h2 : (closedTwin d b).bmCount = d.bmCount := rfl
    rw [this, h2] at hi
    omega)
  unfold getBitmap M.bind
  rw [ho]
  simp only [M.get, M.ofOption]
  have e1 : le16 (unitAt d.raw volKeyBlock) 39 = bptrOf d.raw := rfl
  have e2 : (closedTwin d b).bmCount = d.bmCount := rfl
  have e3 : (closedTwin d b).raw = flushedRaw d b := rfl
  rw [e1, e2, e3, bufOf_flushed h hb]
  rfl

theorem getBitmap_open {d : Disk} {b : Array Nat} (hb : d.bitmap = some b) : getBitmap d = (.ok b, d) := by
  unfold getBitmap M.bind openBitmap
  simp only [hb, M.get, M.ofOption]

/-! ## read-only computations -/

/-- a computation that leaves a coherent object with open buffer unchanged and answers the same on its twins -/
structure RespQ {α : Type} (m : M α) : Prop where
  out : ∀ (d : Disk) (b : Array Nat), Coh d → d.bitmap = some b → ∀ d', (d' = closedTwin d b ∨ d' = openTwin d b) →
    (m d).2 = d ∧ (m d').1 = (m d).1 ∧ ((m d').2 = closedTwin d b ∨ (m d').2 = openTwin d b)

theorem RespQ.pure {α : Type} (a : α) : RespQ (pure a : M α) := ⟨fun _ _ _ _ _ h => ⟨rfl, rfl, h⟩⟩
theorem RespQ.pure' {α : Type} (a : α) : RespQ (M.pure a : M α) := ⟨fun _ _ _ _ _ h => ⟨rfl, rfl, h⟩⟩
theorem RespQ.fail {α : Type} (e : Err) : RespQ (M.fail e : M α) := ⟨fun _ _ _ _ _ h => ⟨rfl, rfl, h⟩⟩
theorem RespQ.lift {α : Type} (x : R α) : RespQ (M.lift x) := ⟨fun _ _ _ _ _ h => ⟨rfl, rfl, h⟩⟩
theorem RespQ.ofOption {α : Type} (x : Option α) : RespQ (M.ofOption x) := by
  constructor
  intro d b _ _ d' h
  unfold M.ofOption
  cases x <;> exact ⟨rfl, rfl, h⟩

theorem RespQ.bind {α β : Type} {m : M α} {f : α → M β} (hm : RespQ m) (hf : ∀ a, RespQ (f a)) : RespQ (m >>= f) := by
  constructor
  intro d b hc hb d' h
  obtain ⟨e0, e1, s1⟩ := hm.out d b hc hb d' h
  have hbind : ∀ e : Disk, (m >>= f) e = match m e with
      | (.ok a, e') => f a e'
      | (.error er, e') => (.error er, e') := fun _ => rfl
  rw [hbind d, hbind d']
  rcases hw : m d with ⟨x, d1⟩
  rcases hw' : m d' with ⟨x', d1'⟩
  rw [hw] at e0 e1
  rw [hw'] at e1 s1
  simp only at e0 e1 s1
  subst e0 e1
  cases x' with
  | error e => exact ⟨rfl, rfl, s1⟩
  | ok a => exact (hf a).out d1 b hc hb d1' s1

theorem RespQ.ite {α : Type} {c : Prop} [Decidable c] {a b : M α} (ha : RespQ a) (hb : RespQ b) : RespQ (if c then a else b) := by
  split <;> assumption

theorem RespQ.attempt {α : Type} {m : M α} (hm : RespQ m) : RespQ (M.attempt m) := by
  constructor
  intro d b hc hb d' h
  obtain ⟨e0, e1, s1⟩ := hm.out d b hc hb d' h
  unfold M.attempt
  rcases hw : m d with ⟨x, d1⟩
  rcases hw' : m d' with ⟨x', d1'⟩
  rw [hw] at e0 e1
  rw [hw'] at e1 s1
  simp only at e0 e1 s1
  subst e0 e1
  cases x' with
  | ok a => exact ⟨rfl, rfl, s1⟩
  | error e => cases e <;> exact ⟨rfl, rfl, s1⟩

/-- the buffer: the same in the object and in both twins; the closed twin opens -/
theorem RespQ.getBitmap : RespQ Fs.Prodos.getBitmap := by
  constructor
  intro d b hc hb d' h
  rw [getBitmap_open hb]
  cases h with
  | inl h1 => subst h1; rw [reopen hc hb]; exact ⟨rfl, rfl, Or.inr rfl⟩
  | inr h1 => subst h1; rw [getBitmap_open (d := openTwin d b) rfl]; exact ⟨rfl, rfl, Or.inr rfl⟩

theorem extract_chunk (b : Array Nat) (k : Nat) :
    (b.extract (k * blockSize) (k * blockSize + blockSize)).toList = (b.toList.drop (k * 512)).take 512 := by
  rw [Array.toList_extract, List.extract_eq_take_drop]
  unfold blockSize
  congr 1
  omega

/-- `read_block`: a bitmap block comes from the buffer in the object and from the flushed image in the closed twin -/
theorem RespQ.readBlock (i : Nat) : RespQ (Fs.Prodos.readBlock i) := by
  constructor
  intro d b hc hb d' h
  obtain ⟨hl, hs, hin, _⟩ := hc.buf b hb
  -- the object itself
  have hd : Fs.Prodos.readBlock i d = (if i ∈ List.range' (bptrOf d.raw) (d.bmCount)
      then .ok ((b.toList.drop ((i - bptrOf d.raw) * 512)).take 512) else imgRead d.raw i, d) := by
    unfold Fs.Prodos.readBlock
    show M.bind M.get _ d = _
    unfold M.bind
    simp only [M.get, hl]
    by_cases hi : i ∈ List.range' (bptrOf d.raw) (d.bmCount)
    · have hc2 : (List.range' (bptrOf d.raw) (d.bmCount)).contains i = true := by simpa using hi
      rw [if_pos hi]
      simp only [hc2, if_true]
      show M.bind Fs.Prodos.getBitmap _ d = _
      unfold M.bind
      rw [getBitmap_open hb]
      simp only
      rw [List.mem_range'_1] at hi
      have hh : (List.range' (bptrOf d.raw) (d.bmCount)).headD 0 = bptrOf d.raw := by
        obtain ⟨n, hn⟩ : ∃ n, d.bmCount = n + 1 := ⟨d.bmCount - 1, by have := count_pos hc; omega⟩
        rw [hn]; rfl
      rw [hh]
      have hk : i - bptrOf d.raw < d.bmCount := by omega
      have hle : (i - bptrOf d.raw) * blockSize + blockSize ≤ b.size := by
        rw [hs]; unfold blockSize
        have := Nat.mul_le_mul_right 512 (Nat.succ_le_of_lt hk)
        rw [Nat.succ_mul] at this
        exact this
      rw [if_neg (by omega)]
      show (Except.ok _, d) = _
      rw [extract_chunk]
    · have hc2 : (List.range' (bptrOf d.raw) (d.bmCount)).contains i = false := by simpa using hi
      rw [if_neg hi]
      simp only [hc2]
      rfl
  refine ⟨by rw [hd], ?_⟩
  rw [hd]
  cases h with
  | inl h1 =>
    subst h1
    have hc' : Fs.Prodos.readBlock i (closedTwin d b) = (imgRead (flushedRaw d b) i, closedTwin d b) := by
      unfold Fs.Prodos.readBlock
      show M.bind M.get _ _ = _
      unfold M.bind
      simp only [M.get]
      rfl
    rw [hc']
    refine ⟨?_, Or.inl rfl⟩
    simp only
    by_cases hi : i ∈ List.range' (bptrOf d.raw) (d.bmCount)
    · rw [if_pos hi]
      rw [List.mem_range'_1] at hi
      have hk : i - bptrOf d.raw < d.bmCount := by omega
      have := unitAt_flushed hc hb hk
      rw [show bptrOf d.raw + (i - bptrOf d.raw) = i by omega] at this
      unfold imgRead
      rw [this]
    · rw [if_neg hi]
      unfold imgRead
      rw [flushed_other b hi]
  | inr h1 =>
    subst h1
    -- the open twin is itself a coherent object with the same buffer: same computation, other image
    have ho : Fs.Prodos.readBlock i (openTwin d b) = (if i ∈ List.range' (bptrOf d.raw) (d.bmCount)
        then .ok ((b.toList.drop ((i - bptrOf d.raw) * 512)).take 512) else imgRead (flushedRaw d b) i, openTwin d b) := by
      unfold Fs.Prodos.readBlock
      show M.bind M.get _ _ = _
      unfold M.bind
      simp only [M.get]
      have hl' : (openTwin d b).bitmapBlocks = List.range' (bptrOf d.raw) (d.bmCount) := rfl
      rw [hl']
      by_cases hi : i ∈ List.range' (bptrOf d.raw) (d.bmCount)
      · have hc2 : (List.range' (bptrOf d.raw) (d.bmCount)).contains i = true := by simpa using hi
        rw [if_pos hi]
        simp only [hc2, if_true]
        show M.bind Fs.Prodos.getBitmap _ _ = _
        unfold M.bind
        rw [getBitmap_open (d := openTwin d b) rfl]
        simp only
        rw [List.mem_range'_1] at hi
        have hh : (List.range' (bptrOf d.raw) (d.bmCount)).headD 0 = bptrOf d.raw := by
          obtain ⟨n, hn⟩ : ∃ n, d.bmCount = n + 1 := ⟨d.bmCount - 1, by have := count_pos hc; omega⟩
          rw [hn]; rfl
        rw [hh]
        have hk : i - bptrOf d.raw < d.bmCount := by omega
        have hle : (i - bptrOf d.raw) * blockSize + blockSize ≤ b.size := by
          rw [hs]; unfold blockSize
          have := Nat.mul_le_mul_right 512 (Nat.succ_le_of_lt hk)
          rw [Nat.succ_mul] at this
          exact this
        rw [if_neg (by omega)]
        show (Except.ok _, _) = _
        rw [extract_chunk]
      · have hc2 : (List.range' (bptrOf d.raw) (d.bmCount)).contains i = false := by simpa using hi
        rw [if_neg hi]
        simp only [hc2]
        rfl
    rw [ho]
    refine ⟨?_, Or.inr rfl⟩
    simp only
    by_cases hi : i ∈ List.range' (bptrOf d.raw) (d.bmCount)
    · rw [if_pos hi, if_pos hi]
    · rw [if_neg hi, if_neg hi]
      unfold imgRead
      rw [flushed_other b hi]

/-- `num_free_blocks`: a function of the buffer and `total_blocks` -/
theorem RespQ.numFreeBlocks : RespQ Fs.Prodos.numFreeBlocks := by
  constructor
  intro d b hc hb d' h
  have key : ∀ e : Disk, e.total = d.total → Fs.Prodos.numFreeBlocks e =
      if d.total = 0 then (.ok 0, e) else
        match Fs.Prodos.getBitmap e with
        | (.ok buf, e') => (countFreeFrom buf d.total 0 0, e')
        | (.error er, e') => (.error er, e') := by
    intro e he
    unfold Fs.Prodos.numFreeBlocks
    show M.bind M.get _ e = _
    unfold M.bind
    simp only [M.get, he]
    split
    · rfl
    · show M.bind Fs.Prodos.getBitmap _ e = _
      unfold M.bind
      cases Fs.Prodos.getBitmap e with
      | mk x e' => cases x <;> rfl
  rw [key d rfl]
  cases h with
  | inl h1 =>
    subst h1
    rw [key (closedTwin d b) rfl]
    split
    · exact ⟨rfl, rfl, Or.inl rfl⟩
    · rw [getBitmap_open hb, reopen hc hb]
      exact ⟨rfl, rfl, Or.inr rfl⟩
  | inr h1 =>
    subst h1
    rw [key (openTwin d b) rfl]
    split
    · exact ⟨rfl, rfl, Or.inr rfl⟩
    · rw [getBitmap_open hb, getBitmap_open (d := openTwin d b) rfl]
      exact ⟨rfl, rfl, Or.inr rfl⟩


/-! ## the queries -/

attribute [local irreducible] Fs.Prodos.readBlock Fs.Prodos.getBitmap Fs.Prodos.numFreeBlocks M.lift M.fail M.ofOption M.attempt M.pure

syntax "respq_step" : tactic
macro_rules | `(tactic| respq_step) => `(tactic| first
  | exact RespQ.pure _ | exact RespQ.pure' _ | exact RespQ.fail _ | exact RespQ.lift _ | exact RespQ.ofOption _
  | exact RespQ.readBlock _ | exact RespQ.getBitmap | exact RespQ.numFreeBlocks
  | apply RespQ.bind
  | apply RespQ.ite
  | apply RespQ.attempt
  | intro _
  | split)
macro "respq" : tactic => `(tactic| repeat' respq_step)
macro "respq_using " t:term : tactic => `(tactic| repeat' (first | exact $t | respq_step))

theorem RespQ.getVolHeader : RespQ getVolHeader := by
  unfold Fs.Prodos.getVolHeader; respq
macro_rules | `(tactic| respq_step) => `(tactic| exact RespQ.getVolHeader)
attribute [local irreducible] Fs.Prodos.getVolHeader

theorem RespQ.getDirectory (i : Nat) : RespQ (getDirectory i) := by
  unfold Fs.Prodos.getDirectory; respq
macro_rules | `(tactic| respq_step) => `(tactic| exact RespQ.getDirectory _)
attribute [local irreducible] Fs.Prodos.getDirectory

theorem RespQ.readEntry (loc : Loc) : RespQ (readEntry loc) := by
  unfold Fs.Prodos.readEntry; respq
macro_rules | `(tactic| respq_step) => `(tactic| exact RespQ.readEntry _)
attribute [local irreducible] Fs.Prodos.readEntry

theorem RespQ.searchLoop (types : List Nat) (nm : Bytes) : ∀ (fuel curr : Nat), RespQ (searchLoop types nm fuel curr) := by
  intro fuel
  induction fuel with
  | zero => intro c; unfold Fs.Prodos.searchLoop; respq
  | succ n ih => intro c; unfold Fs.Prodos.searchLoop; respq_using (ih _)
macro_rules | `(tactic| respq_step) => `(tactic| exact RespQ.searchLoop _ _ _ _)
attribute [local irreducible] Fs.Prodos.searchLoop

theorem RespQ.searchEntries (types : List Nat) (nm : Bytes) (k : Nat) : RespQ (searchEntries types nm k) := by
  unfold Fs.Prodos.searchEntries; respq
macro_rules | `(tactic| respq_step) => `(tactic| exact RespQ.searchEntries _ _ _)
attribute [local irreducible] Fs.Prodos.searchEntries

theorem RespQ.walkLoop (types : List Nat) (nodes : List Bytes) (n : Nat) : ∀ (l : List Nat) (curr : Nat), RespQ (walkLoop types nodes n l curr) := by
  intro l
  induction l with
  | nil => intro c; unfold Fs.Prodos.walkLoop; respq
  | cons x xs ih => intro c; unfold Fs.Prodos.walkLoop; respq_using (ih _)
macro_rules | `(tactic| respq_step) => `(tactic| exact RespQ.walkLoop _ _ _ _ _)
attribute [local irreducible] Fs.Prodos.walkLoop

theorem RespQ.searchVolume (types : List Nat) (path : Bytes) : RespQ (searchVolume types path) := by
  unfold Fs.Prodos.searchVolume; respq
macro_rules | `(tactic| respq_step) => `(tactic| exact RespQ.searchVolume _ _)
attribute [local irreducible] Fs.Prodos.searchVolume

theorem RespQ.findFile (path : Bytes) : RespQ (findFile path) := RespQ.searchVolume _ _
macro_rules | `(tactic| respq_step) => `(tactic| exact RespQ.findFile _)
attribute [local irreducible] Fs.Prodos.findFile

theorem RespQ.findDirKeyBlock (path : Bytes) : RespQ (findDirKeyBlock path) := by
  unfold Fs.Prodos.findDirKeyBlock; respq
macro_rules | `(tactic| respq_step) => `(tactic| exact RespQ.findDirKeyBlock _)
attribute [local irreducible] Fs.Prodos.findDirKeyBlock

theorem RespQ.readIndexLoop (ib : Bytes) (base : Nat) : ∀ (l : List Nat), RespQ (readIndexLoop ib base l) := by
  intro l
  induction l with
  | nil => unfold Fs.Prodos.readIndexLoop; respq
  | cons x xs ih => unfold Fs.Prodos.readIndexLoop; respq_using ih
macro_rules | `(tactic| respq_step) => `(tactic| exact RespQ.readIndexLoop _ _ _)
attribute [local irreducible] Fs.Prodos.readIndexLoop

theorem RespQ.readIndexBlock (p base : Nat) : RespQ (readIndexBlock p base) := by
  unfold Fs.Prodos.readIndexBlock; respq
macro_rules | `(tactic| respq_step) => `(tactic| exact RespQ.readIndexBlock _ _)
attribute [local irreducible] Fs.Prodos.readIndexBlock

theorem RespQ.readMasterLoop (mb : Bytes) : ∀ (l : List Nat), RespQ (readMasterLoop mb l) := by
  intro l
  induction l with
  | nil => unfold Fs.Prodos.readMasterLoop; respq
  | cons x xs ih => unfold Fs.Prodos.readMasterLoop; respq_using ih
macro_rules | `(tactic| respq_step) => `(tactic| exact RespQ.readMasterLoop _ _)
attribute [local irreducible] Fs.Prodos.readMasterLoop

theorem RespQ.readFile (e : Bytes) : RespQ (readFile e) := by
  unfold Fs.Prodos.readFile; respq
macro_rules | `(tactic| respq_step) => `(tactic| exact RespQ.readFile _)
attribute [local irreducible] Fs.Prodos.readFile

/-- `get(path)` -/
theorem RespQ.get (path : Bytes) : RespQ (get path) := by
  unfold Fs.Prodos.get; respq

theorem RespQ.catalogLoop : ∀ (fuel curr : Nat), RespQ (catalogLoop fuel curr) := by
  intro fuel
  induction fuel with
  | zero => intro c; unfold Fs.Prodos.catalogLoop; respq
  | succ n ih => intro c; unfold Fs.Prodos.catalogLoop; respq_using (ih _)
macro_rules | `(tactic| respq_step) => `(tactic| exact RespQ.catalogLoop _ _)
attribute [local irreducible] Fs.Prodos.catalogLoop

/-- `catalog_to_vec(path)` -/
theorem RespQ.catalog (path : Bytes) : RespQ (catalog path) := by
  unfold Fs.Prodos.catalog; respq

/-- `stat().free_blocks` -/
theorem RespQ.statFree : RespQ statFree := by
  unfold Fs.Prodos.statFree; respq

end A2Verif.Reload.Prodos
