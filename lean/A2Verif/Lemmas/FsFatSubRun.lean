import A2Verif.Lemmas.FsFatSubDir
import A2Verif.Lemmas.FsFatRetype
/-!
# Paths into a first-level sub-directory: `D/X`

`SubArg D X`: two root-level names.  `normalizePath_sub`, `splitPath_sub`: the path `D/X` normalises to the nodes
`[upper D, upper X]`, its parent path to `[upper D]`.  `SubDirOk`: the root entry found under the key of `D` is a directory
whose clusters form a link chain and whose entries are well named.  `gotoPath_sub`: `goto_path("D/X")` on such a state is
an error without a change of the state, or the `FileInfo` of the entry of `D`'s buffer found under the key of `X`.
-/
namespace A2Verif.FsFat
open A2Verif A2Verif.Fs.Fat A2Verif.Read.Fat A2Verif.Read.FatT

/-! ## `split` on an arbitrary separator -/

theorem splitOn_append_sep' (sep : Nat) {b : Bytes} (x : Bytes) (hb : sep ∉ b) : splitOn sep (b ++ sep :: x) = b :: splitOn sep x := by
  induction b with
  | nil =>
    rw [List.nil_append, splitOn]
    cases h : splitOn sep x with
    | nil => exact absurd h (splitOn_ne_nil sep x)
    | cons p ps => simp
  | cons c b ih =>
    have hc : c ≠ sep := fun e => hb (by simp [e])
    have hb' : sep ∉ b := fun e => hb (by simp [e])
    rw [List.cons_append, splitOn, ih hb']
    simp [hc]

/-! ## the path `D/X` -/

structure SubArg (D X : Bytes) : Prop where
  aD : RootArg D
  aX : RootArg X
  len : D.length + X.length ≤ 61
  /-- the name below the directory does not resolve to one of the dot entries (`get_file(" ..")` finds `.`) -/
  keyX : (keyOf X).head? ≠ some 46

def subPath (D X : Bytes) : Bytes := D ++ 47 :: X

theorem upper_ne_nil {p : Bytes} (h : p ≠ []) : upper p ≠ [] := by
  intro e
  have := congrArg List.length e
  rw [upper_length] at this
  exact h (List.length_eq_zero_iff.mp this)

theorem normalizePath_sub {D X : Bytes} (a : SubArg D X) : normalizePath (subPath D X) = .ok [upper D, upper X] := by
  obtain ⟨c, cs, hD⟩ : ∃ c cs, D = c :: cs := by
    cases hd : D with
    | nil => exact absurd hd a.aD.ne
    | cons c cs => exact ⟨c, cs, rfl⟩
  have hc : c ≠ 47 := fun e => a.aD.noSlash (by rw [hD, e]; simp)
  have hsp : splitOn 47 (47 :: (D ++ 47 :: X)) = [[], D, X] := by
    have h1 : splitOn 47 (47 :: (D ++ 47 :: X)) = [] :: splitOn 47 (D ++ 47 :: X) := by
      have := splitOn_append_sep' 47 (b := []) (D ++ 47 :: X) (by simp)
      simpa using this
    rw [h1, splitOn_append_sep' 47 X a.aD.noSlash, splitOn_not_mem 47 X a.aX.noSlash]
  have hne1 : (subPath D X).isEmpty = false := by unfold subPath; rw [hD]; rfl
  have hhead : (subPath D X).head? ≠ some 47 := by unfold subPath; rw [hD]; simp [hc]
  have hlen : ¬ ((47 :: subPath D X).length > 63) := by
    unfold subPath
    have := a.len
    simp
    omega
  have huD := upper_ne_nil a.aD.ne
  have huX := upper_ne_nil a.aX.ne
  unfold normalizePath
  simp only [hne1, Bool.false_eq_true, if_false]
  rw [if_pos hhead, if_neg hlen]
  have : splitOn 47 (47 :: subPath D X) = [[], D, X] := hsp
  rw [this]
  have e1 : (upper D).isEmpty = false := by cases h : upper D with | nil => exact absurd h huD | cons _ _ => rfl
  have e2 : (upper X).isEmpty = false := by cases h : upper X with | nil => exact absurd h huX | cons _ _ => rfl
  simp [List.zipIdx, e1, e2]

theorem normalizePath_slash {D : Bytes} (a : RootArg D) : normalizePath (47 :: upper D) = .ok [upper D] := by
  have hsp : splitOn 47 (47 :: upper D) = [[], upper D] := by
    have h47 : 47 ∉ upper D := fun h => a.noSlash ((mem_upper_iff (by omega) (by omega) D).mp h)
    have := splitOn_append_sep' 47 (b := []) (upper D) (by simp)
    rw [splitOn_not_mem 47 (upper D) h47] at this
    simpa using this
  have hlen : ¬ ((47 :: upper D).length > 63) := by
    have := a.len
    simp [upper_length]
    omega
  have huD := upper_ne_nil a.ne
  unfold normalizePath
  have h1 : (47 :: upper D).isEmpty = false := rfl
  have h2 : ¬ ((47 :: upper D).head? ≠ some 47) := by simp
  simp only [h1, Bool.false_eq_true, if_false]
  rw [if_neg h2, if_neg hlen, hsp]
  have e1 : (upper D).isEmpty = false := by cases h : upper D with | nil => exact absurd h huD | cons _ _ => rfl
  simp [List.zipIdx, e1, upper_idem]

theorem splitPath_sub {D X : Bytes} (a : SubArg D X) : splitPath (subPath D X) = .ok (47 :: upper D, upper X) := by
  have huX := upper_ne_nil a.aX.ne
  unfold splitPath
  simp only [normalizePath_sub a, bind, Except.bind]
  have e2 : (upper X).isEmpty = false := by cases h : upper X with | nil => exact absurd h huX | cons _ _ => rfl
  simp [e2]

/-- `goto_path` of a path that normalises to the single node `upper D` -/
theorem gotoPath_single {d : Disk} (g : Geo d) {p D : Bytes} (hn : normalizePath p = .ok [upper D]) (a : RootArg D) :
    gotoPath p d = (match buildFiles d.labelFiles (dirOfBytes (rootBuf d)) with
      | .error e => .error e
      | .ok files => match files.lookup (keyOf D) with
        | none => .error .fileNotFound
        | some fi => .ok (some FInfo.root, fi), d) := by
  unfold gotoPath
  simp only [M_bind_apply, getRootDir_eq g, M.lift, hn]
  have hne : ¬ ([upper D] = [[]]) := by
    intro e
    injection e with e
    exact upper_ne_nil a.ne e
  simp only [hne, if_false, M_bind_apply, buildFilesM]
  cases hb : buildFiles d.labelFiles (dirOfBytes (rootBuf d)) with
  | error e => rfl
  | ok files =>
    simp only []
    unfold gotoLoop
    have hw : ((upper D).contains 42 || (upper D).contains 63) = false := by
      have h1 := a.noStar; have h2 := a.noQ
      have h1' : 42 ∉ upper D := fun h => h1 ((mem_upper_iff (by omega) (by omega) D).mp h)
      have h2' : 63 ∉ upper D := fun h => h2 ((mem_upper_iff (by omega) (by omega) D).mp h)
      simp [h1', h2']
    simp only [List.isEmpty_nil, hw, Bool.and_false, Bool.false_eq_true, if_false, getFile_root]
    cases files.lookup (keyOf D) with
    | none => rfl
    | some fi => simp [M_pure_apply]

/-! ## a well-formed first-level directory -/

/-- the entries of a sub-directory: every live entry other than a label and the dot entries is no long-name part and is
well named; after the first end mark only end marks -/
structure DirEntsOk (E : List Bytes) : Prop where
  ents : ∀ e ∈ E, e.getD 0 0 ≠ 0 → e.getD 0 0 ≠ 0xE5 → entryType e ≠ .volumeLabel → e.getD 0 0 ≠ 46 →
    e.getD 11 0 % 16 ≠ 15 ∧ NameGood e
  tail : TailZero E

/-- `D` is a well-formed first-level directory of state `d`: the root entry `eD` found under its key (at position
`E1.length`) has the directory attribute, its clusters `cl` form a link chain in the FAT `f`, its entries are well named -/
structure SubDirOk (d : Disk) (D : Bytes) (f : Array Nat) (E1 : List Bytes) (eD : Bytes) (E2 : List Bytes) (cl : List Nat) : Prop where
  wok : WOk d f
  hE : dirOfBytes (rootBuf d) = E1 ++ eD :: E2
  hE1 : ∀ x ∈ E1, entryType x ≠ .freeAndNoMore
  inmap : inMap false eD
  key : ∃ nm ty, fileNameToSplit eD = some (nm, ty) ∧ keyOf D = nm ++ [46] ++ ty
  isdir : (eD.getD 11 0 / 16) % 2 = 1
  chain : IsChain f (hiOf d.bpb) (le16 eD 26) cl
  nodup : cl.Nodup
  ents : DirEntsOk (dirOfBytes (chainData d cl))

/-- the directory buffer of `D` -/
def subEntries (d : Disk) (cl : List Nat) : List Bytes := dirOfBytes (chainData d cl)

theorem infoOf_dir {e : Bytes} (i : Nat) (h : (e.getD 11 0 / 16) % 2 = 1) : (infoOf e i).directory = true := by
  have : Entry.attr e &&& DIRECTORY > 0 := by
    unfold DIRECTORY Entry.attr
    rw [and16]; exact h
  simpa [infoOf] using this

/-- `goto_path("D/X")` when `D` is a well-formed first-level directory -/
theorem gotoPath_sub {d : Disk} (g : Geo d) (hlf : d.labelFiles = false) {D X : Bytes} (a : SubArg D X) {f : Array Nat}
    {E1 E2 : List Bytes} {eD : Bytes} {cl : List Nat} (sd : SubDirOk d D f E1 eD E2 cl) :
    gotoPath (subPath D X) d = (match buildFiles false (dirOfBytes (rootBuf d)) with
      | .error e => .error e
      | .ok _ => match buildFiles false (subEntries d cl) with
        | .error e => .error e
        | .ok filesD => match filesD.lookup (keyOf X) with
          | none => .error .fileNotFound
          | some fi => .ok (some (infoOf eD E1.length), fi), d) := by
  have w := sd.wok
  unfold gotoPath
  simp only [M_bind_apply, getRootDir_eq g, M.lift, normalizePath_sub a]
  have hne : ¬ ([upper D, upper X] = [[]]) := by simp
  simp only [hne, if_false, M_bind_apply, buildFilesM, hlf]
  cases hb : buildFiles false (dirOfBytes (rootBuf d)) with
  | error e => rfl
  | ok filesR =>
    simp only []
    obtain ⟨nm, ty, hn, hk⟩ := sd.key
    obtain ⟨nm', ty', hn', hlk⟩ := buildLoop_complete false _ 0 0 [] filesR hb E1 eD E2 sd.hE sd.hE1 sd.inmap
    rw [hn] at hn'
    injection hn' with hn'
    injection hn' with e1 e2
    subst e1 e2
    rw [← hk] at hlk
    simp only [Nat.zero_add] at hlk
    have huX := upper_ne_nil a.aX.ne
    have e2 : (upper X).isEmpty = false := by cases h : upper X with | nil => exact absurd h huX | cons _ _ => rfl
    have hwX : ((upper X).contains 42 || (upper X).contains 63) = false := by
      have h1 := a.aX.noStar; have h2 := a.aX.noQ
      have h1' : 42 ∉ upper X := fun h => h1 ((mem_upper_iff (by omega) (by omega) X).mp h)
      have h2' : 63 ∉ upper X := fun h => h2 ((mem_upper_iff (by omega) (by omega) X).mp h)
      simp [h1', h2']
    have hdirb : (infoOf eD E1.length).directory = true := infoOf_dir _ sd.isdir
    have hc1 : (infoOf eD E1.length).cluster1 = some (le16 eD 26) := rfl
    rw [gotoLoop]
    simp only [List.isEmpty_cons, Bool.false_and, Bool.false_eq_true, if_false, getFile_root, hlk, List.length_singleton,
      decide_true, Bool.true_and, List.getLast?_singleton, Option.getD_some, e2, Bool.or_false, hdirb, Bool.not_true,
      M_bind_apply, hc1, getDirectory_chain g w sd.chain sd.nodup, hlf]
    simp only [buildFilesM, hlf]
    have hse : dirOfBytes (chainData d cl) = subEntries d cl := rfl
    rw [hse]
    cases hbd : buildFiles false (subEntries d cl) with
    | error e => rfl
    | ok filesD =>
      simp only []
      rw [gotoLoop]
      simp only [List.isEmpty_nil, hwX, Bool.and_false, Bool.false_eq_true, if_false, getFile_root]
      cases filesD.lookup (keyOf X) with
      | none => rfl
      | some fi => simp [M_pure_apply]

end A2Verif.FsFat
