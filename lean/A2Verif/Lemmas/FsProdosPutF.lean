import A2Verif.Lemmas.FsProdosPutE
import A2Verif.Lemmas.FsProdosRenOp
/-!
# `put`: the entry `Entry::create_file` builds, `prepare_to_write` on the volume directory
-/
namespace A2Verif.FsProdos
open A2Verif.Fs.Prodos
open A2Verif.Read.Prodos (entryAt dirChain idxPtr indexEntries readData trimName)
open A2Verif.Read.ProdosT

/-- the fields of the entry `Entry::create_file` builds -/
structure NewEntry (e nm : Bytes) (ft nb acc aux : Nat) : Prop where
  len : e.length = 39
  bytes : ∀ x ∈ e, x < 256
  b0 : e.getD 0 0 = 16 + nm.length
  nlen : 1 ≤ nm.length ∧ nm.length ≤ 15
  key : le16 e 17 = nb
  used : le16 e 19 = 0
  name : trimName e = upper nm
  ftype : e.getD 16 0 = ft
  access : e.getD 30 0 = acc
  aux : le16 e 31 = aux

theorem createFileEntry_facts (nm : Bytes) (ft nb v mv acc a0 a1 hp : Nat) (time : Bytes)
    (hv : isNameValid nm = true) (ht : time.length = 4) (htb : ∀ x ∈ time, x < 256) (hft : ft < 256) (hnb : nb < 65536)
    (hv1 : v < 256) (hmv : mv < 256) (hacc : acc < 256) (ha0 : a0 < 256) (ha1 : a1 < 256) :
    NewEntry (createFileEntry nm ft nb v mv acc a0 a1 hp time) nm ft nb acc (a0 + 256 * a1) := by
  obtain ⟨hn1, hn15⟩ := isNameValid_len nm hv
  obtain ⟨t0, t1, t2, t3, rfl⟩ : ∃ t0 t1 t2 t3, time = [t0, t1, t2, t3] := by
    match time, ht with
    | [a, b, c, d], _ => exact ⟨a, b, c, d, rfl⟩
  have hnf := nameField_length nm hn15
  have hshape : createFileEntry nm ft nb v mv acc a0 a1 hp [t0, t1, t2, t3] =
      ([nibsOf stSeedling nm] ++ nameField nm) ++
        [ft, nb % 256, nb / 256 % 256, 0, 0, 0, 0, 0, t0, t1, t2, t3, v, mv, acc, a0, a1, t0, t1, t2, t3, hp % 256, hp / 256 % 256] := by
    unfold createFileEntry u16le; simp
  have hhi : ∀ j, 16 ≤ j → (createFileEntry nm ft nb v mv acc a0 a1 hp [t0, t1, t2, t3]).getD j 0 =
      [ft, nb % 256, nb / 256 % 256, 0, 0, 0, 0, 0, t0, t1, t2, t3, v, mv, acc, a0, a1, t0, t1, t2, t3, hp % 256, hp / 256 % 256].getD (j - 16) 0 := by
    intro j hj
    rw [hshape]
    simp only [List.getD_eq_getElem?_getD]
    rw [List.getElem?_append_right (by simp [hnf]; omega)]
    simp [hnf]
  have hlo : ∀ j, 1 ≤ j → j ≤ 15 → (createFileEntry nm ft nb v mv acc a0 a1 hp [t0, t1, t2, t3]).getD j 0 = (nameField nm).getD (j - 1) 0 := by
    intro j h1 h15
    rw [hshape]
    simp only [List.getD_eq_getElem?_getD]
    rw [List.getElem?_append_left (by simp [hnf]; omega), List.getElem?_append_right (by simp; omega)]
    simp
  have h0 : (createFileEntry nm ft nb v mv acc a0 a1 hp [t0, t1, t2, t3]).getD 0 0 = 16 + nm.length := by
    rw [hshape]; unfold nibsOf stSeedling; simp; omega
  have hlen : (createFileEntry nm ft nb v mv acc a0 a1 hp [t0, t1, t2, t3]).length = 39 := by
    rw [hshape]; simp [hnf]
  have ht' : t0 < 256 ∧ t1 < 256 ∧ t2 < 256 ∧ t3 < 256 :=
    ⟨htb t0 (by simp), htb t1 (by simp), htb t2 (by simp), htb t3 (by simp)⟩
  refine ⟨hlen, ?_, h0, ⟨hn1, hn15⟩, ?_, ?_, ?_, ?_, ?_, ?_⟩
  · intro x hx
    rw [hshape] at hx
    rcases List.mem_append.mp hx with h | h
    · rcases List.mem_append.mp h with h | h
      · rw [List.mem_singleton] at h; rw [h]; unfold nibsOf; omega
      · exact nameField_bytes nm hv x h
    · simp only [List.mem_cons, List.mem_nil_iff, or_false] at h
      rcases h with h | h | h | h | h | h | h | h | h | h | h | h | h | h | h | h | h | h | h | h | h | h | h <;> omega
  · unfold le16; rw [hhi 17 (by omega), hhi 18 (by omega)]; simp; omega
  · unfold le16; rw [hhi 19 (by omega), hhi 20 (by omega)]; simp
  · unfold trimName
    rw [h0, show (16 + nm.length) % 16 = nm.length by omega]
    have hul : (upper nm).length = nm.length := by unfold upper; simp
    apply list_eq_of_getD
    · unfold slice; rw [List.length_take, List.length_drop, hlen, hul]; omega
    · intro j hj
      unfold slice at hj
      rw [List.length_take, List.length_drop, hlen] at hj
      rw [getD_slice _ _ _ _ (by omega), hlo (1 + j) (by omega) (by omega)]
      unfold nameField
      simp only [List.getD_eq_getElem?_getD]
      rw [show 1 + j - 1 = j by omega, List.getElem?_append_left (by omega)]
  · rw [hhi 16 (by omega)]; simp
  · rw [hhi 30 (by omega)]; simp
  · unfold le16; rw [hhi 31 (by omega), hhi 32 (by omega)]; simp

/-- the new entry is the entry under construction with no blocks yet -/
theorem NewEntry.efacts {e nm : Bytes} {ft nb acc aux : Nat} (h : NewEntry e nm ft nb acc aux) : EFacts e e 1 nb 0 :=
  ⟨h.len, h.bytes, by rw [h.b0]; have := h.nlen; omega, h.key, h.used, fun _ _ _ => rfl⟩

/-- the entry `write_file` writes at the end -/
structure FinalEntry (e ef nm : Bytes) (st ft acc aux eof : Nat) : Prop where
  len : ef.length = 39
  bytes : ∀ x ∈ ef, x < 256
  same : SameBlocks e ef
  st : ef.getD 0 0 / 16 = st
  b0 : ef.getD 0 0 < 256
  name : trimName ef = upper nm
  ftype : ef.getD 16 0 = ft
  access : ef.getD 30 0 = acc
  aux : le16 ef 31 = aux
  eof : le24 ef 21 = eof

theorem final_entry {e0 e nm : Bytes} {ft nb acc0 aux st key used : Nat} (ne : NewEntry e0 nm ft nb acc0 aux)
    (h : EFacts e0 e st key used) (hst : st < 16) (eof acc : Nat) (heof : eof < 16777216) (hacc : acc < 256) :
    FinalEntry e (Ent.setAccess (Ent.setEof e eof) acc) nm st ft acc aux eof := by
  have h1 := h.setEof eof
  obtain ⟨hl, hb, hg⟩ := h1.setAccess acc hacc
  have hnl := ne.nlen
  have hg0 : (Ent.setAccess (Ent.setEof e eof) acc).getD 0 0 = st * 16 + nm.length := by
    rw [hg 0, if_neg (by omega), h1.b0, ne.b0]; omega
  have hlow : ∀ j, 1 ≤ j → j ≤ 16 → (Ent.setAccess (Ent.setEof e eof) acc).getD j 0 = e0.getD j 0 := by
    intro j h1' h16
    rw [hg j, if_neg (by omega), h1.other j (by omega) (Or.inl (by omega))]
  have hge : ∀ j, (Ent.setEof e eof).getD j 0 =
      if 21 ≤ j ∧ j < 24 then [eof % 256, eof / 256 % 256, eof / 65536 % 256].getD (j - 21) 0 else e.getD j 0 := by
    intro j; unfold Ent.setEof; rw [getD_splice _ _ _ j (by simp; rw [h.len]; omega)]; simp
  refine ⟨hl, hb, ⟨?_, ?_, ?_⟩, by rw [hg0]; omega, by rw [hg0]; omega, ?_, ?_, by rw [hg 30, if_pos rfl], ?_, ?_⟩
  · rw [hg 0, if_neg (by omega), h1.b0, h.b0]
  · unfold le16; rw [hg 17, hg 18, if_neg (by omega), if_neg (by omega)]; exact h1.key.trans h.key.symm
  · unfold le16; rw [hg 19, hg 20, if_neg (by omega), if_neg (by omega)]; exact h1.used.trans h.used.symm
  · rw [← ne.name]
    unfold trimName
    rw [hg0, ne.b0, show (st * 16 + nm.length) % 16 = (16 + nm.length) % 16 by omega]
    apply slice_congr _ _ _ _ (by rw [hl, ne.len])
    intro j hj1 hj2
    have := Nat.mod_lt (16 + nm.length) (by decide : 16 > 0)
    exact hlow j (by omega) (by omega)
  · rw [hlow 16 (by omega) (by omega)]; exact ne.ftype
  · unfold le16
    rw [hg 31, hg 32, if_neg (by omega), if_neg (by omega), h1.other 31 (by omega) (Or.inr (by omega)),
      h1.other 32 (by omega) (Or.inr (by omega))]
    exact ne.aux
  · unfold le24 le16
    rw [hg 21, hg 22, hg 23, if_neg (by omega), if_neg (by omega), if_neg (by omega), hge 21, hge 22, hge 23]
    simp
    omega

/-- **`prepare_to_write(path)`** for a path into the volume directory -/
theorem prepare_root {d : Disk} {bm cnt : Nat} {ch : List Nat} (c : RootCtx d bm cnt ch) (path nm : Bytes)
    (hnodes : normalizePath (volName (hdrOf d.raw)) path = .ok [volName (hdrOf d.raw), nm]) (hnm : nm ≠ [])
    (ht : d.total ≠ 0) (hcov : d.total ≤ 8 * (effBuf d bm cnt).size) :
    prepareToWrite path d =
      if !isNameValid nm then (.error .syntax, d)
      else match (dirSlots d.raw 2 ch).find? (isHit allTypes nm) with
        | some _ => (.error .duplicateFilename, d)
        | none => match (dirSlots d.raw 2 ch).find? isFreeSlot with
          | none => (.error .directoryFull, d)
          | some x => match (List.range d.total).find? (freeB (effBuf d bm cnt)) with
            | some nb => (.ok (nm, 2, slotLoc x, nb % 65536), openD d bm cnt)
            | none => (.error .diskFull, openD d bm cnt) := by
  unfold prepareToWrite
  simp only [bind_def]
  rw [bind_ok _ _ d d _ (getVolHeader_root c)]
  have hsp : M.lift (splitPath (volName (hdrOf d.raw)) path) d = (.ok (47 :: volName (hdrOf d.raw), nm), d) := by
    unfold M.lift; rw [splitPath_root _ path nm hnodes hnm]
  rw [bind_ok _ _ d d _ hsp]
  simp only []
  by_cases hv : isNameValid nm = true
  · simp only [hv, Bool.not_true, Bool.false_eq_true, ↓reduceIte]
    rw [bind_ok _ _ d d _ (attempt_ok _ d d _ (findDirKeyBlock_vol c))]
    simp only []
    have hse := searchEntries_root c allTypes nm
    simp only [hv, Bool.not_true, Bool.false_eq_true, ↓reduceIte] at hse
    rw [show volKeyBlock = 2 from rfl, bind_ok _ _ d d _ hse]
    cases hf : (dirSlots d.raw 2 ch).find? (isHit allTypes nm) with
    | some x => rfl
    | none =>
      simp only [Option.map_none]
      have hav := availEntryLoop_root d bm cnt c.st c.two_nb c.two_lt ch 100 2 c.chain (by decide) c.nb c.kinds c.len
      cases hs : (dirSlots d.raw 2 ch).find? isFreeSlot with
      | none =>
        rw [hs] at hav
        unfold getAvailableEntry M.bind
        rw [hav]
      | some x =>
        rw [hs] at hav
        unfold getAvailableEntry
        rw [bind_ok _ _ d d _ hav, bind_ok _ _ d _ _ (getAvailableBlock_st c.st ht hcov)]
        cases (List.range d.total).find? (freeB (effBuf d bm cnt)) <;> rfl
  · have hv' : isNameValid nm = false := by simpa using hv
    simp only [hv', Bool.not_false, ↓reduceIte]
    rfl

end A2Verif.FsProdos
