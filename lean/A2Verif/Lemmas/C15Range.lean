import A2Verif.Lemmas.C15Label
import A2Verif.Model.DasmRange
/-!
With the look-ahead bounded by the end of the range the ranged disassembly is the disassembly of the bytes of the
range alone (`Model/Dasm.lean`), so every theorem about `dasm` is a theorem about every sub-range of every image.
-/
namespace A2Verif.C15
open A2Verif.Gen.Opcodes A2Verif.Gen.DasmLabels A2Verif.Dasm A2Verif.Asm

theorem tryDataRunR_rangeEnd (addr : Nat) (rest after : List Nat) :
    tryDataRunR .rangeEnd addr rest after = tryDataRun addr rest := rfl

theorem stepR_rangeEnd (q : Quirks) (cfg : Cfg) (addr : Nat) (rest after : List Nat) :
    stepR q cfg .rangeEnd addr rest after = step q cfg addr rest := by
  unfold stepR step
  cases rest with
  | nil => rfl
  | cons op tl => simp only [tryDataRunR_rangeEnd]; rfl

theorem goR_rangeEnd (q : Quirks) (cfg : Cfg) : ∀ (fuel addr : Nat) (rest after : List Nat),
    goR q cfg .rangeEnd fuel addr rest after = go q cfg fuel addr rest := by
  intro fuel
  induction fuel with
  | zero => intro addr rest after; cases rest <;> rfl
  | succ fuel ih =>
    intro addr rest after
    cases rest with
    | nil => rfl
    | cons op tl =>
      simp only [goR, go, stepR_rangeEnd, ih]

/-- **locality**: nothing outside `img[beg..end]` influences the listing -/
theorem dasmR_rangeEnd (q : Quirks) (cfg : Cfg) (beg : Nat) (slice after : List Nat) :
    dasmR q cfg .rangeEnd beg slice after = dasm q cfg beg slice :=
  goR_rangeEnd q cfg slice.length beg slice after

theorem slice_length (img : List Nat) (beg end_ : Nat) (h1 : beg ≤ end_) (h2 : end_ ≤ img.length) :
    ((img.drop beg).take (end_ - beg)).length = end_ - beg := by
  simp only [List.length_take, List.length_drop]; omega

theorem slice_bytes (img : List Nat) (beg end_ : Nat) (hb : ∀ x ∈ img, x < 256) :
    ∀ x ∈ (img.drop beg).take (end_ - beg), x < 256 :=
  fun x hx => hb x (List.mem_of_mem_drop (List.mem_of_mem_take hx))

end A2Verif.C15
