import A2Verif.Lemmas.FsProdosDelOp
import A2Verif.Model.VolSpec
/-!
# Running the concrete ProDOS model: operations with the arguments of the API, executable refinement checks, a small volume

Definitions shared by `Props/FsProdos.lean` and the kernel-evaluated examples (`Lemmas/FsProdosEx*.lean`).
-/
namespace A2Verif.FsProdos
open A2Verif.Fs.Prodos

/-- the parameters of the abstract specification for ProDOS (as `Drv/Fs.lean::fsParams "prodos"`) -/
def prodosParams : FsParams := { eofRule := id, keepsType := true, keepsAux := true, hasLock := true }

/-- the on-disk invariant, as a decidable check: every unit is a block, the total reader reads the image, the reading
is well formed (C03) and leak free (C04) -/
def InvB (r : Raw) : Bool :=
  r.units.all (fun u => u.length == 512) &&
  (match Read.ProdosT.read r with
   | .ok v => v.wfB && v.noLeak
   | .error _ => false)

/-- concrete operations, with the arguments the a2kit API takes -/
inductive COp where
  | put (path : Bytes) (ftype aux access : Nat) (eof : Nat) (chunks : List (Nat × Bytes))
  | delete (path : Bytes)
  | rename (path newName : Bytes)
  | lock (path : Bytes)
  | unlock (path : Bytes)
  | retype (path : Bytes) (ftype aux : Nat)
  | mkdir (path : Bytes)

/-- the operation of the abstract specification (`cp`: the canonical path of the target, `cq` of a rename's new name) -/
def COp.abs (cp cq : Bytes) : COp → FsOp
  | .put _ ft aux _ eof cs => .put cp cs eof ft aux
  | .delete _ => .delete cp
  | .rename _ _ => .rename cp cq
  | .lock _ => .lock cp
  | .unlock _ => .unlock cp
  | .retype _ _ _ => .retype cp
  | .mkdir _ => .mkdir cp

def okOf {α : Type} (x : R α × Disk) : Bool × Disk :=
  match x with
  | (.ok _, d) => (true, d)
  | (.error _, d) => (false, d)

/-- the source before the last two repairs (a2kit at aadfbdc) -/
def asWritten : Repairs := { dirDelete := true, putLimits := true }

/-- one concrete operation followed by the write-back `get_img()` performs; `rp` = the variant of the source -/
def COp.run (rp : Repairs) (time : Bytes) (op : COp) (d : Disk) : Bool × Disk :=
  let (ok, d') := match op with
    | .put p ft aux acc eof cs => okOf (Fs.Prodos.put { fullPath := p, fsType := [ft], aux := u16le aux, access := [acc], eof := eof, chunks := cs } time rp d)
    | .delete p => okOf (Fs.Prodos.delete p rp d)
    | .rename p n => okOf (Fs.Prodos.rename p n d)
    | .lock p => okOf (Fs.Prodos.lock p d)
    | .unlock p => okOf (Fs.Prodos.unlock p d)
    | .retype p t a => okOf (Fs.Prodos.retype p (some t) (some a) d)
    | .mkdir p => okOf (Fs.Prodos.mkdir p time d)
  (ok, d'.flush.2)

/-- one step of a history is a transition the abstract specification allows, ends in an `InvB` image, and has the
expected result -/
def stepRefines (rp : Repairs) (time : Bytes) (cp cq : Bytes) (op : COp) (expectOk : Bool) (d : Disk) : Bool × Disk :=
  let (ok, d') := op.run rp time d
  (stepOk prodosParams (volOf d.raw) (op.abs cp cq) ok (volOf d'.raw) && InvB d'.raw && ok == expectOk, d')

def historyRefines (rp : Repairs) (time : Bytes) : List (Bytes × Bytes × COp × Bool) → Disk → Bool
  | [], _ => true
  | (cp, cq, op, expectOk) :: rest, d =>
    let (good, d') := stepRefines rp time cp cq op expectOk d
    good && historyRefines rp time rest d'

/-! ## a small volume in the kernel -/

def blank (n : Nat) (rp : Repairs) : Disk :=
  { raw := { unitLen := 512, units := Array.replicate n (List.replicate 512 0) }, total := n, bitmap := none, bitmapBlocks := [], src := rp }

def exTime : Bytes := [33, 0, 0, 0]

/-- `format("VERIF", …)` of a blank image of `n` blocks, written back -/
def formatted (n : Nat) (rp : Repairs := repaired) : Disk := ((format [86, 69, 82, 73, 70] (zeros 512) exTime (blank n rp)).2.flush).2

def chunkOf (v n : Nat) : Bytes := List.replicate n v

/-! ## small facts for the statements in `Props/FsProdos.lean` -/

theorem volName_len (h : Bytes) : (volName h).length ≤ 15 := by
  unfold volName Ent.nameStr
  rw [List.length_take]
  have := Nat.mod_lt (Ent.storLen h) (by decide : 16 > 0)
  omega

theorem upperByte_idem (c : Nat) : upperByte (upperByte c) = upperByte c := by
  unfold upperByte
  by_cases h : 97 ≤ c ∧ c ≤ 122
  · rw [if_pos h, if_neg (by omega)]
  · rw [if_neg h, if_neg h]

theorem upper_upper (s : Bytes) : upper (upper s) = upper s := by
  unfold upper
  rw [List.map_map]
  apply List.map_congr_left
  intro c _
  exact upperByte_idem c

/-- the new invariant implies the old executable check -/
theorem inv_invB {r : Raw} (h : Inv r) : InvB r = true := by
  obtain ⟨v, hr, hw, hn⟩ := inv_reading h
  unfold InvB
  rw [hr]
  simp only [hw, hn, Bool.and_true, Array.all_eq_true]
  intro i hi
  have := (h.shape.unit hi).1
  unfold unitAt at this
  rw [Array.getElem?_eq_getElem hi] at this
  simpa using this

instance (d : Disk) : Decidable (SInv d) :=
  decidable_of_iff ((Inv d.raw ∧ d.total = d.raw.units.size) ∧ (d.src = repaired ∧
      ((d.bitmap = none ∧ (d.bitmapBlocks = [] ∨ d.bitmapBlocks = bmRange (hdrBm d.raw) (nbmOf d.total))) ∨
        (d.bitmap = some (bufOf d.raw (hdrBm d.raw) (nbmOf d.total)) ∧ d.bitmapBlocks = bmRange (hdrBm d.raw) (nbmOf d.total)))))
    ⟨fun h => ⟨h.1.1, h.1.2, h.2.1, h.2.2⟩, fun h => ⟨⟨h.inv, h.total⟩, h.src, h.buf⟩⟩

/-- `stat().free_blocks` on a disk object between two calls: the number of free units of the reading; the buffer is open afterwards -/
theorem statFree_sinv {d : Disk} (hs : SInv d) :
    ∃ v d', Read.ProdosT.read d.raw = .ok v ∧ statFree d = (.ok v.free, d') ∧ SInv d' ∧ d'.raw = d.raw := by
  obtain ⟨v, fsL, ch, hr, ht, c, hts, heff, hbsz, hbok⟩ := hs.ctx
  obtain ⟨hw, hn, hroot, hvv, hc, hic, hnd, hchf, h2, h6, h3, hbt, hstv⟩ := root_chain_facts hs.inv v fsL ch hr ht
  have ht0 : d.total ≠ 0 := by rw [← hts]; omega
  have hcov : d.total ≤ 8 * (effBuf d (hdrBm d.raw) (nbmOf (hdrTotal d.raw))).size := by
    rw [heff, hbsz, ← hts]; unfold nbmOf blockSize; omega
  refine ⟨v, openD d (hdrBm d.raw) (nbmOf (hdrTotal d.raw)), hr, ?_, ?_, rfl⟩
  · unfold statFree
    simp only [bind_def]
    rw [bind_ok _ _ d d _ (getVolHeader_root c), numFreeBlocks_st c.st ht0 hcov, heff, ← hts]
    congr 2
    rw [hvv]
    rfl
  · refine ⟨hs.inv, hs.total, hs.src, Or.inr ⟨?_, ?_⟩⟩
    · show some (effBuf d (hdrBm d.raw) (nbmOf (hdrTotal d.raw))) = _
      rw [heff, hts]; rfl
    · show bmRange (hdrBm d.raw) (nbmOf (hdrTotal d.raw)) = _
      rw [hts]; rfl

def str (x : String) : Bytes := x.toList.map Char.toNat

end A2Verif.FsProdos
