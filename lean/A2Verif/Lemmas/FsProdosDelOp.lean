import A2Verif.Lemmas.FsProdosOpCtx
/-!
# `delete` of a file of the volume directory refines the abstract `delete`

`delete_ok`: the search finds the file, the destroy bit is set → the operation succeeds, the written-back image satisfies
`Inv` again and the readings before and after are related by `stepOk … (.delete NAME) true`.  `delete_refines`: every
outcome (not found, invalid name, write protected, deleted) for a path whose normal form is `[volume, name]`.
-/
namespace A2Verif.FsProdos
open A2Verif.Fs.Prodos
open A2Verif.Read.Prodos (entryAt dirChain idxPtr indexEntries readData trimName bitmapFree)
open A2Verif.Read.ProdosT

/-- the two directory writes of `delete` as a `DirPatch` -/
theorem delImage_patch {r raw1 : Raw} {ch : List Nat} {B k : Nat}
    (hsz1 : raw1.units.size = r.units.size) (hu1 : ∀ b ∈ ch, unitAt raw1 b = unitAt r b)
    (hshape : ∀ b ∈ ch, b < r.units.size ∧ (unitAt r b).length = 512 ∧ ∀ x ∈ unitAt r b, x < 256)
    (hB : B ∈ ch) (h2 : 2 ∈ ch) (hk : k < 13) (hkey : B = 2 → 1 ≤ k) :
    DirPatch r (delImage raw1 B (k + 1)) ch B k := by
  have hBsz : B < raw1.units.size := by rw [hsz1]; exact (hshape B hB).1
  have h2sz : 2 < raw1.units.size := by rw [hsz1]; exact (hshape 2 h2).1
  have hun : ∀ b ∈ ch, unitAt (delImage raw1 B (k + 1)) b = delUnit raw1 B (k + 1) b :=
    fun b _ => delImage_unit raw1 B (k + 1) b hBsz h2sz
  have hl1 : ∀ b ∈ ch, (unitAt raw1 b).length = 512 := fun b hb => by rw [hu1 b hb]; exact (hshape b hb).2.1
  have hsame : ∀ b ∈ ch, ∀ j, j < 511 → (b = B → j ≠ 4 + k * 39) → (b = 2 → j ≠ 37 ∧ j ≠ 38) →
      (unitAt (delImage raw1 B (k + 1)) b).getD j 0 = (unitAt r b).getD j 0 := by
    intro b hb j hj h1 h2'
    rw [hun b hb, delUnit_getD_same raw1 B k b j (hl1 b hb) hk hj h1 h2', hu1 b hb]
  refine ⟨by rw [delImage_size, hsz1], ?_, ?_, ?_, ?_⟩
  · intro b hb
    unfold le16
    rw [hsame b hb 0 (by omega) (fun _ => by omega) (fun _ => by omega),
      hsame b hb 1 (by omega) (fun _ => by omega) (fun _ => by omega),
      hsame b hb 2 (by omega) (fun _ => by omega) (fun _ => by omega),
      hsame b hb 3 (by omega) (fun _ => by omega) (fun _ => by omega)]
    exact ⟨rfl, rfl⟩
  · intro j hj
    apply hsame 2 h2 j (by omega)
    · intro hb2; have := hkey hb2.symm; omega
    · intro _; omega
  · intro b hb k' hk' hkey' hne
    unfold entryAt
    apply slice_congr _ _ _ _ (by rw [hun b hb, delUnit_length raw1 B (k + 1) b (hl1 b hb), (hshape b hb).2.1])
    intro j hj1 hj2
    apply hsame b hb j (by omega)
    · intro hbB
      have hkk : k' ≠ k := fun e => hne (by rw [hbB, e])
      intro hj
      have : k' < k ∨ k < k' := by omega
      rcases this with h | h
      · have : k' * 39 + 39 ≤ k * 39 := by have := Nat.mul_le_mul_right 39 (show k' + 1 ≤ k by omega); omega
        omega
      · have : k * 39 + 39 ≤ k' * 39 := by have := Nat.mul_le_mul_right 39 (show k + 1 ≤ k' by omega); omega
        omega
    · intro hb2; have := hkey' hb2; omega
  · intro b hb
    rw [hun b hb]
    exact ⟨delUnit_length raw1 B (k + 1) b (hl1 b hb), delUnit_bytes raw1 B k b (hl1 b hb) hk (by rw [hu1 b hb]; exact (hshape b hb).2.2)⟩

/-- **the reading after an entry of the volume directory has been erased**: the slot's single record `f` (not protected) is
gone, its blocks are free, the image is `delImage raw1 B (k + 1)` where `raw1` differs from the old image only on blocks of
`f`.  Shared by `delete` of a file and `delete` of an empty directory. -/
theorem erase_reading {d d3 : Disk} (hs : SInv d) (v : Vol) (fsL : List LRec) (ch : List Nat)
    (hr : Read.ProdosT.read d.raw = .ok v) (ht : readTree d.raw (hdrTotal d.raw) = .ok (fsL, ch))
    (B k : Nat) (hB : B ∈ ch) (hk13 : k < 13) (hkey : B = 2 → 1 ≤ k)
    (hxm : (entryAt (unitAt d.raw B) k 39, B, k + 1) ∈ dirSlots d.raw 2 ch)
    (hact : isAct (entryAt (unitAt d.raw B) k 39, B, k + 1) = true)
    (f : FileRec) (hgx : slotRecs 69 d.raw (hdrTotal d.raw) [] 0 (entryAt (unitAt d.raw B) k 39, B, k + 1) = [(f, B, k + 1)])
    (hlocked : f.locked = false)
    (raw1 : Raw) (buf1 : Array Nat) (hsz1 : raw1.units.size = d.raw.units.size)
    (hoth1 : ∀ j, j ∉ f.owned → raw1.units[j]? = d.raw.units[j]?) (hshape1 : ShapeOk raw1)
    (hs1 : buf1.size = (bufOf d.raw (hdrBm d.raw) (nbmOf (hdrTotal d.raw))).size) (hok1 : BytesOk buf1)
    (hf1 : ∀ j, freeB buf1 j = (f.owned.contains j || freeB (bufOf d.raw (hdrBm d.raw) (nbmOf (hdrTotal d.raw))) j))
    (n3 : Next d d3 (hdrBm d.raw) (nbmOf (hdrTotal d.raw)) (delImage raw1 B (k + 1)) (clearBit (clearBit buf1 B) 2)) :
    ∃ d4 v4, d3.flush = (.ok (), d4) ∧ SInv d4 ∧ Read.ProdosT.read d4.raw = .ok v4 ∧
      stepOk { eofRule := id, keepsType := true, keepsAux := true, hasLock := true } v (.delete f.path) true v4 = true ∧
      v4.label = v.label := by
  obtain ⟨v', fsL', ch', hr', ht', c, hts, heff, hbsz, hbok⟩ := hs.ctx
  have e1 : v' = v := by rw [hr] at hr'; injection hr' with h; exact h.symm
  subst e1
  have e2 : fsL' = fsL ∧ ch' = ch := by
    rw [ht] at ht'; injection ht' with h; injection h with h1 h2; exact ⟨h1.symm, h2.symm⟩
  obtain ⟨rfl, rfl⟩ := e2
  obtain ⟨hw, hn, hroot, hvv, hc, hic, hnd, hchf, h2, h6, h3, hbt, hstv⟩ := root_chain_facts hs.inv v' fsL' ch' hr ht
  have hsz := hs.inv.size
  obtain ⟨hsplit, h1, h2', hfs2, hfiles, hdisj, hxnd, hxown, hall, hcnt0⟩ :=
    slot_split_facts hs.inv v' fsL' ch' hr ht _ hxm
  simp only at hsplit h1 h2' hfs2 hfiles hdisj hxnd hxown
  rw [hgx] at hfs2 hfiles hdisj hxnd hxown
  simp only [List.map_cons, List.map_nil, List.flatMap_cons, List.flatMap_nil, List.append_nil] at hfiles hdisj hxnd hxown
  have hndw := (wfB_iff.1 hw).2.1
  have hrange := (wfB_iff.1 hw).1
  have hownlt : ∀ u ∈ f.owned, u < hdrTotal d.raw := by
    intro u hu
    have := (hrange u (hxown u hu)).2; rw [hvv] at this; exact this
  have hnotown : ∀ b ∈ ch', b ∉ f.owned := by
    intro b hb hm
    rw [List.nodup_append] at hndw
    exact hndw.2.2 b (hxown b hm) b (hchf b hb).2.2.2 rfl
  have hshapech : ∀ b ∈ ch', b < d.raw.units.size ∧ (unitAt d.raw b).length = 512 ∧ ∀ x ∈ unitAt d.raw b, x < 256 := by
    intro b hb
    have hbl : b < d.raw.units.size := by rw [← hsz]; exact (hchf b hb).1
    exact ⟨hbl, (hs.inv.shape.unit hbl).1, (hs.inv.shape.unit hbl).2⟩
  have hu1 : ∀ b ∈ ch', unitAt raw1 b = unitAt d.raw b := by
    intro b hb; unfold unitAt; rw [hoth1 b (hnotown b hb)]
  have hpatch := delImage_patch hsz1 hu1 hshapech hB h2 hk13 hkey
  -- the buffer after the operation marks exactly the file's blocks free
  have hBused : freeB buf1 B = false := by
    rw [hf1 B]
    have h1' : f.owned.contains B = false := by simpa using hnotown B hB
    have h2'' : freeB (bufOf d.raw (hdrBm d.raw) (nbmOf (hdrTotal d.raw))) B = false := by
      have hnf := (wfB_iff.1 hw).2.2.2.1 B (hchf B hB).2.2.2
      rw [hvv] at hnf
      simp only [List.mem_filter, List.mem_range, not_and, Bool.not_eq_true] at hnf
      exact hnf (hchf B hB).1
    rw [h1', h2'']; rfl
  have h2used : freeB buf1 2 = false := by
    rw [hf1 2]
    have h1' : f.owned.contains 2 = false := by simpa using hnotown 2 h2
    have h2'' : freeB (bufOf d.raw (hdrBm d.raw) (nbmOf (hdrTotal d.raw))) 2 = false := by
      have hnf := (wfB_iff.1 hw).2.2.2.1 2 (hchf 2 h2).2.2.2
      rw [hvv] at hnf
      simp only [List.mem_filter, List.mem_range, not_and, Bool.not_eq_true] at hnf
      exact hnf (hchf 2 h2).1
    rw [h1', h2'']; rfl
  have hcovB : B / 8 < buf1.size := by rw [hs1, hbsz]; exact cover_of_lt (hchf B hB).1
  have hcov2 : 2 / 8 < (clearBit buf1 B).size := by rw [size_clearBit, hs1, hbsz]; exact cover_of_lt (hchf 2 h2).1
  have hf3 : ∀ j, freeB (clearBit (clearBit buf1 B) 2) j =
      (f.owned.contains j || freeB (bufOf d.raw (hdrBm d.raw) (nbmOf (hdrTotal d.raw))) j) := by
    intro j
    rw [freeB_clearBit_used _ 2 (bytesOk_clearBit _ _ hok1) hcov2 (by rw [freeB_clearBit_used _ B hok1 hcovB hBused]; exact h2used),
      freeB_clearBit_used _ B hok1 hcovB hBused, hf1 j]
  have hbs3 : (clearBit (clearBit buf1 B) 2).size = blockSize * nbmOf (hdrTotal d.raw) := by
    rw [size_clearBit, size_clearBit, hs1, hbsz]
  have hbok3 : BytesOk (clearBit (clearBit buf1 B) 2) := bytesOk_clearBit _ _ (bytesOk_clearBit _ _ hok1)
  -- the shape of the image
  have hshape3 : ShapeOk (delImage raw1 B (k + 1)) := by
    apply shapeOk_of_units
    intro j hj
    rw [delImage_size] at hj
    by_cases hjc : j ∈ ch'
    · exact hpatch.shape j hjc
    · have hjB : j ≠ B := fun e => hjc (e ▸ hB)
      have hj2 : j ≠ 2 := fun e => hjc (e ▸ h2)
      have : unitAt (delImage raw1 B (k + 1)) j = unitAt raw1 j := by unfold unitAt; rw [delImage_other raw1 B (k + 1) j hjB hj2]
      rw [this]; exact hshape1.unit hj
  -- the new slot is inactive
  have he'0 : (entryAt (unitAt (delImage raw1 B (k + 1)) B) k 39).getD 0 0 = 0 := by
    rw [entryAt_getD _ _ _ (by omega : 0 < 39), delImage_unit raw1 B (k + 1) B (by rw [hsz1]; exact (hshapech B hB).1)
      (by rw [hsz1]; exact (hshapech 2 h2).1)]
    exact delUnit_slot_zero raw1 B k (by rw [hu1 B hB]; exact (hshapech B hB).2.1) hk13 hkey
  have hinact : isAct (entryAt (unitAt (delImage raw1 B (k + 1)) B) k 39, B, k + 1) = false := by
    unfold isAct; simp only [he'0]; decide
  have hsr3 : slotRecs 69 (delImage raw1 B (k + 1)) (hdrTotal d.raw) [] 0
      (entryAt (unitAt (delImage raw1 B (k + 1)) B) k 39, B, k + 1) = [] := by
    unfold slotRecs; rw [hinact]; rfl
  have hcnt3 : le16 (unitAt (delImage raw1 B (k + 1)) 2) 37 =
      ((sBefore (dirSlots d.raw 2 ch') (B, k + 1) ++
        (entryAt (unitAt (delImage raw1 B (k + 1)) B) k 39, B, k + 1) :: sAfter (dirSlots d.raw 2 ch') (B, k + 1)).filter isAct).length := by
    rw [delImage_unit raw1 B (k + 1) 2 (by rw [hsz1]; exact (hshapech B hB).1) (by rw [hsz1]; exact (hshapech 2 h2).1),
      delUnit_count raw1 B k (by rw [hu1 2 h2]; exact (hshapech 2 h2).2.1) hk13 hkey (by rw [hu1 2 h2]; exact (hshapech 2 h2).2.2),
      hu1 2 h2, ← hcnt0]
    conv => lhs; rw [hsplit]
    rw [filter_length_mid, filter_length_mid, hact, hinact]
    simp
  -- the reading of the written-back image
  obtain ⟨hrd4, htree4, htot4, hbm4, hsz4, hshape4, hgeo4, hprev4, hslots4, hslotok4, hsame4⟩ :=
    patched_reading hs.inv v' fsL' ch' hr ht (entryAt (unitAt d.raw B) k 39) B k hxm
      f.owned hpatch
      (fun j hjc hjo => by
        have hjB : j ≠ B := fun e => hjc (e ▸ hB)
        have hj2 : j ≠ 2 := fun e => hjc (e ▸ h2)
        rw [delImage_other raw1 B (k + 1) j hjB hj2, hoth1 j hjo])
      (fun u hu => Or.inr (by rw [hgx]; simp only [List.map_cons, List.map_nil, List.flatMap_cons, List.flatMap_nil, List.append_nil]; exact hu))
      hshape3 _ _ rfl rfl _ rfl hcnt3 (fun ha => by rw [hinact] at ha; cases ha)
      (fun j _ => by rw [hsr3]; simp) _ hbs3 hbok3 _ rfl _ rfl
  rw [hsr3, List.append_nil] at hrd4 htree4
  -- the abstract step
  have hv4files : ∀ (v4 : Vol), v4.files = ((sBefore (dirSlots d.raw 2 ch') (B, k + 1)).flatMap (slotRecs 69 d.raw (hdrTotal d.raw) [] 0) ++
      (sAfter (dirSlots d.raw 2 ch') (B, k + 1)).flatMap (slotRecs 69 d.raw (hdrTotal d.raw) [] 0)).map (·.1) →
      v4.files = ((sBefore (dirSlots d.raw 2 ch') (B, k + 1)).flatMap (slotRecs 69 d.raw (hdrTotal d.raw) [] 0)).map (·.1) ++
        ((sAfter (dirSlots d.raw 2 ch') (B, k + 1)).flatMap (slotRecs 69 d.raw (hdrTotal d.raw) [] 0)).map (·.1) := by
    intro v4 h; rw [h, List.map_append]
  obtain ⟨hw4, hn4, hstep⟩ := vol_erase (P := { eofRule := id, keepsType := true, keepsAux := true, hasLock := true })
    (v := v') (v' := nextVol v' (hdrTotal d.raw)
        (((sBefore (dirSlots d.raw 2 ch') (B, k + 1)).flatMap (slotRecs 69 d.raw (hdrTotal d.raw) [] 0) ++
          (sAfter (dirSlots d.raw 2 ch') (B, k + 1)).flatMap (slotRecs 69 d.raw (hdrTotal d.raw) [] 0)).map (·.1))
        ((List.range (hdrTotal d.raw)).filter (freeB (clearBit (clearBit buf1 B) 2))))
    hw hn (by rw [hfiles, List.append_assoc]; rfl) (hv4files _ rfl) (by rw [hvv]; rfl) (by rw [hvv]; rfl) rfl (filter_range_nodup _ _)
    (fun u => by
      simp only [nextVol, List.mem_filter, List.mem_range, hf3 u, Bool.or_eq_true, List.contains_eq_mem, decide_eq_true_eq]
      rw [hvv]
      simp only [List.mem_filter, List.mem_range]
      constructor
      · rintro ⟨hlt, ho | hf⟩
        · exact Or.inr ho
        · exact Or.inl ⟨hlt, hf⟩
      · rintro (⟨hlt, hf⟩ | ho)
        · exact ⟨hlt, Or.inr hf⟩
        · refine ⟨?_, Or.inl ho⟩
          exact hownlt u ho)
    hlocked
  -- the invariant of the new image
  have hinv4 : Inv (wbRaw (delImage raw1 B (k + 1)) (hdrBm d.raw) (nbmOf (hdrTotal d.raw)) (clearBit (clearBit buf1 B) 2)) := by
    refine ⟨hshape4, by rw [htot4, hsz4]; exact hsz, _, _, ch', hrd4, by rw [htot4]; exact htree4, hw4, hn4, hgeo4, hprev4, hroot.len, ?_,
      names_after hroot hsplit hslots4 (fun ha => by rw [hinact] at ha; cases ha)⟩
    intro y hy
    rw [hslots4] at hy
    rcases List.mem_append.mp hy with a | a
    · exact hslotok4 y (List.mem_append_left _ a)
    · rcases List.mem_cons.mp a with rfl | a'
      · exact Or.inl (Or.inl he'0)
      · exact hslotok4 y (List.mem_append_right _ a')
  have hlen3 : ∀ i ∈ bmRange (hdrBm d.raw) (nbmOf (hdrTotal d.raw)), (unitAt (delImage raw1 B (k + 1)) i).length = blockSize := by
    intro i hi
    have hisz : i < (delImage raw1 B (k + 1)).units.size := by rw [delImage_size, hsz1]; exact c.st.exist i hi
    exact (hshape3.unit hisz).1
  obtain ⟨d4, hfl4, hraw4, hs4⟩ := close_op hs _ _ n3 hbs3 hlen3 hinv4 hbm4 hsz4
  exact ⟨d4, _, hfl4, hs4, by rw [hraw4]; exact hrd4, hstep, rfl⟩

/-- **`delete` succeeds**: the search finds the file in slot `k + 1` of block `B`, its destroy bit is set -/
theorem delete_ok {d : Disk} (hs : SInv d) (path nm : Bytes)
    (hnodes : normalizePath (volName (hdrOf d.raw)) path = .ok [volName (hdrOf d.raw), nm]) (hnm : nm ≠ [])
    (hv : isNameValid nm = true) (x : Bytes × Nat × Nat)
    (v : Vol) (fsL : List LRec) (ch : List Nat)
    (hr : Read.ProdosT.read d.raw = .ok v) (ht : readTree d.raw (hdrTotal d.raw) = .ok (fsL, ch))
    (hx : (dirSlots d.raw 2 ch).find? (isHit fileTypes nm) = some x)
    (hacc : Ent.access x.1 &&& 0x80 ≠ 0) :
    ∃ d3 d4 v4, delete path repaired d = (.ok (), d3) ∧ d3.flush = (.ok (), d4) ∧ SInv d4 ∧
      Read.ProdosT.read d4.raw = .ok v4 ∧ stepOk { eofRule := id, keepsType := true, keepsAux := true, hasLock := true } v
        (.delete (upper nm)) true v4 = true ∧ v4.label = v.label := by
  obtain ⟨v', fsL', ch', hr', ht', c, hts, heff, hbsz, hbok⟩ := hs.ctx
  have e1 : v' = v := by rw [hr] at hr'; injection hr' with h; exact h.symm
  subst e1
  have e2 : fsL' = fsL ∧ ch' = ch := by
    rw [ht] at ht'; injection ht' with h; injection h with h1 h2; exact ⟨h1.symm, h2.symm⟩
  obtain ⟨rfl, rfl⟩ := e2
  obtain ⟨hw, hn, hroot, hvv, hc, hic, hnd, hchf, h2, h6, h3, hbt, hstv⟩ := root_chain_facts hs.inv v' fsL' ch' hr ht
  have hsz := hs.inv.size
  -- the slot
  obtain ⟨hxm, hxhit⟩ := mem_find hx
  obtain ⟨B, hB, k, hk13, hkey, hxe⟩ := mem_dirSlots.mp hxm
  subst hxe
  have hmatch : isFileMatch fileTypes nm (entryAt (unitAt d.raw B) k 39) = true := by
    unfold isHit at hxhit; simp only [Bool.and_eq_true] at hxhit; exact hxhit.2
  obtain ⟨hst, hname⟩ := isFileMatch_file nm _ hv hmatch
  obtain ⟨f, hrf, hgx, hown, hkeyp⟩ := slot_file_rec hs.inv v' fsL' ch' hr ht _ hxm hst
  obtain ⟨hsplit, h1, h2', hfs2, hfiles, hdisj, hxnd, hxown, hall, hcnt0⟩ :=
    slot_split_facts hs.inv v' fsL' ch' hr ht _ hxm
  simp only at hsplit h1 h2' hfs2 hfiles hdisj hxnd hxown
  rw [hgx] at hfs2 hfiles hdisj hxnd hxown
  simp only [List.map_cons, List.map_nil, List.flatMap_cons, List.flatMap_nil, List.append_nil] at hfiles hdisj hxnd hxown
  -- the blocks of the file
  have hndw := (wfB_iff.1 hw).2.1
  have hrange := (wfB_iff.1 hw).1
  have hownfacts : ∀ y ∈ ownedOfEntry d.raw (entryAt (unitAt d.raw B) k 39),
      y ∉ bmRange (hdrBm d.raw) (nbmOf (hdrTotal d.raw)) ∧ y ≠ 2 ∧ y < d.raw.units.size ∧
      y / 8 < (effBuf d (hdrBm d.raw) (nbmOf (hdrTotal d.raw))).size ∧ y ∉ ch' := by
    intro y hy
    rw [← hown] at hy
    have hya := hxown y hy
    have hylt : y < hdrTotal d.raw := by have := (hrange y hya).2; rw [hvv] at this; exact this
    have hnsys : y ∉ v'.sys := by
      intro hsys
      rw [List.nodup_append] at hndw
      exact hndw.2.2 y hya y hsys rfl
    refine ⟨?_, ?_, by rw [← hsz]; exact hylt, by rw [heff, hbsz]; exact cover_of_lt hylt, ?_⟩
    · intro hm
      apply hnsys
      rw [hvv]; simp only
      rw [mem_bmRange] at hm
      apply List.mem_append_right
      rw [List.mem_map]; exact ⟨y - hdrBm d.raw, List.mem_range.mpr (by omega), by omega⟩
    · intro e2; apply hnsys; rw [e2]; exact (hchf 2 h2).2.2.2
    · intro hych; exact hnsys (hchf y hych).2.2.2
  have hshapech : ∀ b ∈ ch', b < d.raw.units.size ∧ (unitAt d.raw b).length = 512 ∧ ∀ x ∈ unitAt d.raw b, x < 256 := by
    intro b hb
    have hbl : b < d.raw.units.size := by rw [← hsz]; exact (hchf b hb).1
    exact ⟨hbl, (hs.inv.shape.unit hbl).1, (hs.inv.shape.unit hbl).2⟩
  have hcount : le16 (unitAt d.raw 2) 37 ≠ 0 := by
    rw [← hcnt0]
    have hact : isAct (entryAt (unitAt d.raw B) k 39, B, k + 1) = true := by
      unfold isAct; simp only [ne_eq, decide_eq_true_eq]; omega
    have : (entryAt (unitAt d.raw B) k 39, B, k + 1) ∈ (dirSlots d.raw 2 ch').filter isAct := List.mem_filter.mpr ⟨hxm, hact⟩
    have := List.length_pos_of_mem this
    omega
  -- the model
  obtain ⟨d3, raw1, buf1, hdel, hsz1, hoth1, hswap1, hs1, hok1, hf1, n3⟩ :=
    delete_trace c path nm hnodes hnm hv B k hB hk13 hkey hx hacc hst (by rw [← hown]; exact hxnd) hownfacts
      (by rw [heff]; exact hbok) (fun b hb => by rw [heff, hbsz]; exact cover_of_lt (hchf b hb).1) hcount
      (fun b hb => (hshapech b hb).2.1)
  rw [heff] at hs1 hf1
  obtain ⟨hfp, _, hfl, hfa, _, _, _⟩ := readFile_rec_fields d.raw (hdrTotal d.raw) _ [] f hrf
  have hfpath : f.path = upper nm := by rw [hfp, baseRec_path_root, hname]
  have hlocked : f.locked = false := by
    rw [hfl]
    have hua : UniformAcc ((entryAt (unitAt d.raw B) k 39).getD 30 0) := by
      rcases (hroot.slots _ hxm).file (by simp only; omega) with h0 | ⟨_, hu, _⟩
      · simp only at h0; rw [h0] at hst; simp at hst
      · exact hu
    have hlt : (entryAt (unitAt d.raw B) k 39).getD 30 0 < 256 :=
      getD_lt_of_bytes _ _ (entryAt_bytes _ _ (hshapech B hB).2.2)
    have := (uniform_locked ⟨_, hlt⟩ hua).1
    have hacc' : (entryAt (unitAt d.raw B) k 39).getD 30 0 &&& 0x80 ≠ 0 := hacc
    have hrl := this.mpr hacc'
    unfold readerLocked at hrl
    unfold baseRec
    simp only
    exact hrl
  have hact : isAct (entryAt (unitAt d.raw B) k 39, B, k + 1) = true := by
    unfold isAct; simp only [ne_eq, decide_eq_true_eq]; omega
  obtain ⟨d4, v4, hfl4, hs4, hrd4, hstep, hlab⟩ := erase_reading hs v' fsL' ch' hr ht B k hB hk13 hkey hxm hact f hgx hlocked
    raw1 buf1 hsz1 (fun j hj => hoth1 j (by rw [← hown]; exact hj)) (shape_swapOnly hs.inv.shape hswap1) hs1 hok1
    (fun j => by rw [hf1 j, hown]) n3
  rw [hfpath] at hstep
  exact ⟨d3, d4, v4, hdel, hfl4, hs4, hrd4, hstep, hlab⟩

/-- `delete` of a name the search does not find (or an invalid name) answers `PATH NOT FOUND` and changes nothing -/
theorem delete_notfound {d : Disk} {bm cnt : Nat} {ch : List Nat} (c : RootCtx d bm cnt ch) (path nm : Bytes)
    (hnodes : normalizePath (volName (hdrOf d.raw)) path = .ok [volName (hdrOf d.raw), nm]) (hnm : nm ≠ [])
    (hnv : NotVol (volName (hdrOf d.raw)) path)
    (hnone : isNameValid nm = false ∨ (dirSlots d.raw 2 ch).find? (isHit fileTypes nm) = none)
    (hnodir : isNameValid nm = true → (dirSlots d.raw 2 ch).find? (isHit [stSubDirEntry] nm) = none) :
    delete path repaired d = (.error .pathNotFound, d) := by
  have hff : ∃ e, findFile path d = (.error e, d) ∧ e ≠ .panic := by
    rw [findFile_root' c path nm hnodes hnm]
    unfold rootSearch
    rcases hnone with h | h
    · rw [h]; exact ⟨_, rfl, by decide⟩
    · by_cases hv : isNameValid nm = true
      · simp only [hv, Bool.not_true, Bool.false_eq_true, ↓reduceIte, h]; exact ⟨_, rfl, by decide⟩
      · have hv' : isNameValid nm = false := by simpa using hv
        rw [hv']; exact ⟨_, rfl, by decide⟩
  obtain ⟨e, hfe, hep⟩ := hff
  have hdk : findDirKeyBlock path d = (.error .pathNotFound, d) := findDirKeyBlock_nodir c path nm hnodes hnm hnv hnodir
  unfold delete
  simp only [bind_def]
  rw [bind_ok _ _ d d _ (attempt_err _ d d e hfe hep)]
  try simp only []
  rw [bind_ok _ _ d d _ (attempt_err _ d d _ hdk (by decide))]
  rfl

/-- `delete` of a file whose destroy bit is clear answers `WRITE PROTECTED` and changes nothing -/
theorem delete_protected {d : Disk} {bm cnt : Nat} {ch : List Nat} (c : RootCtx d bm cnt ch) (path nm : Bytes)
    (hnodes : normalizePath (volName (hdrOf d.raw)) path = .ok [volName (hdrOf d.raw), nm]) (hnm : nm ≠ [])
    (hv : isNameValid nm = true) (x : Bytes × Nat × Nat)
    (hx : (dirSlots d.raw 2 ch).find? (isHit fileTypes nm) = some x) (hacc : Ent.access x.1 &&& 0x80 = 0) :
    delete path repaired d = (.error .writeProtected, d) := by
  obtain ⟨hxm, _⟩ := mem_find hx
  obtain ⟨B, hB, k, hk13, hkey, hxe⟩ := mem_dirSlots.mp hxm
  subst hxe
  have hBsz : B < d.raw.units.size := c.chain.exists B hB
  have hfind : findFile path d = (.ok { block := B, idx := k + 1 }, d) := by
    rw [findFile_root' c path nm hnodes hnm]
    unfold rootSearch
    simp only [hv, Bool.not_true, Bool.false_eq_true, ↓reduceIte, hx]
    rfl
  have hread : readEntry { block := B, idx := k + 1 } d = (.ok (entryAt (unitAt d.raw B) k 39), d) := by
    unfold readEntry
    simp only [bind_def]
    rw [bind_ok _ _ d d _ (getDirectory_st c.st B (unitAt d.raw B) (c.nb B hB) (units_get_unitAt _ _ hBsz))]
    simp only [getEntry_slot c.kinds B k hB hk13 hkey]
    rfl
  unfold delete
  simp only [bind_def]
  rw [bind_ok _ _ d d _ (attempt_ok _ d d _ hfind)]
  try simp only []
  rw [bind_ok _ _ d d _ hread]
  try simp only []
  rw [if_pos hacc]
  rfl

end A2Verif.FsProdos
