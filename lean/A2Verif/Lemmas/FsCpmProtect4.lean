import A2Verif.Lemmas.FsCpmProtect3
import A2Verif.Props.C19
/-!
# The read-only flag survives `retype`, `protect`, `unprotect`; one step of the C19 argument for CP/M
-/
namespace A2Verif.FsCpm
open A2Verif.Fs.Cpm
open A2Verif.Read.Cpm (Dpb fileKey extNum entryPtrs pathOf slots trimR)

theorem recOf_isDir (r : Raw) (d : Dpb) (ents es : List Bytes) : (recOf r d ents es).isDir = false := rfl

theorem volOf_flat {d : Dpb} {r : Raw} {q : Bytes} {f : FileRec} (hf : (volOf d r).lookup q = some f) : f.isDir = false := by
  have hm := (lookup_some hf).1
  have hm' : f ∈ (keys d r).map (fun k => recOf r d (dirOf d r) (esOf d r k)) := hm
  rw [List.mem_map] at hm'
  obtain ⟨k, _, rfl⟩ := hm'
  rfl

/-- a `modify` that leaves the read-only code alone keeps content, length, blocks and the read-only flag of every file -/
theorem modify_kept {d : Dpb} {r r' : Raw} {x : Bytes} {access : List Nat} {res : R Unit} (h : Inv d r)
    (hop : Fs.Cpm.modify d r x none access = (res, r')) (ha : access.getD 8 0 = 0) : ContentKept (volOf d r) (volOf d r') := by
  rcases modify_none_spec h hop with ⟨_, hr⟩ | ⟨_, T⟩
  · rw [hr]; exact contentKept_refl _
  · intro q f hf
    obtain ⟨f0, f', e, l1, l2, c1, c2, c3, _, _, c6, he, h9, hl0, hl'⟩ := T.ex
    by_cases cq : q = canon x
    · subst cq
      rw [l1] at hf
      cases hf
      refine ⟨f', l2, c1, c2, c3, ?_, c6⟩
      rw [hl', hl0, setAccess_getD access e he 9 (by omega) (by omega)]
      show decide (hi (newFlag (access.getD 8 0) (hi (e.getD 9 0))) + lo (e.getD 9 0) ≥ 128) = decide (e.getD 9 0 ≥ 128)
      rw [ha]
      unfold newFlag hi lo
      simp only [show (0 : Nat) ≠ 2 by decide, show (0 : Nat) ≠ 1 by decide, ↓reduceIte]
      congr 1
      apply propext
      constructor <;> intro _ <;> omega
    · have hd := volOf_flat hf
      have hn : q ∉ [canon x] := by simpa using cq
      have h1 : (without (volOf d r).files [canon x]).find? (·.path == q) = some f := by
        rw [without_find hn]; exact hf
      have h2 := sameFiles_find T.frame h1 hd
      rw [without_find hn] at h2
      exact ⟨f, h2, rfl, rfl, rfl, rfl, rfl⟩

theorem retype_kept {d : Dpb} {r r' : Raw} {x ty : Bytes} {res : R Unit} (h : Inv d r) (hop : retype d r x ty = (res, r')) :
    ContentKept (volOf d r) (volOf d r') := by
  unfold retype at hop
  split at hop
  · exact modify_kept h hop rfl
  · split at hop
    · exact modify_kept h hop rfl
    · cases hop; exact contentKept_refl _

/-- **C19 for CP/M, one step**: a read-only file is found after any valid step — read-only, with the same content, length and
blocks — unless the step is a successful `unlock` of it; `kept` is the additional knowledge about the concrete `retype`-like
operations (`retype`, `protect`, `unprotect`: the abstract specification does not say that they keep the flag, the code does) -/
theorem ro_step {P : FsParams} {pre post : Vol} {op : FsOp} {ok : Bool} {q : Bytes} {f : FileRec}
    (h : stepOk P pre op ok post = true) (hf : pre.lookup q = some f) (hl : f.locked = true) (hd : f.isDir = false)
    (kept : op = .retype q → ContentKept pre post) (hnu : ¬ (op = .unlock q ∧ ok = true)) :
    (∃ g, post.lookup q = some g ∧ g.locked = true ∧ g.chunks = f.chunks ∧ g.eof = f.eof ∧ g.owned = f.owned ∧ g.isDir = false) ∧
    ((op = .delete q ∨ (∃ p, op = .rename q p) ∨ (∃ cs e t a, op = .put q cs e t a)) → ok = false) := by
  refine ⟨?_, ?_⟩
  · cases ok with
    | false => exact ⟨f, sameFiles_lookup (stepOk_refused h) hf hd, hl, rfl, rfl, rfl, hd⟩
    | true =>
      by_cases c1 : op = .lock q
      · subst c1
        obtain ⟨⟨f0, g, h0, hg, hlk, e1, e2, e3, _, _, e6⟩, _⟩ := stepOk_lock h
        rw [hf] at h0; cases h0
        exact ⟨g, hg, hlk, e1, e2, e3, by rw [e6]; exact hd⟩
      · by_cases c2 : op = .retype q
        · obtain ⟨g, hg, e1, e2, e3, e4, e5⟩ := kept c2 q f hf
          exact ⟨g, hg, by rw [e4]; exact hl, e1, e2, e3, by rw [e5]; exact hd⟩
        · have c3 : op ≠ .unlock q := fun e => hnu ⟨e, rfl⟩
          exact ⟨f, C19.protected_step h hf hl hd ⟨c1, c3, c2⟩, hl, rfl, rfl, rfl, hd⟩
  · intro hatt
    cases ok with
    | false => rfl
    | true =>
      exfalso
      have hperm := C19.successful_step_was_permitted h
      rcases hatt with rfl | ⟨p, rfl⟩ | ⟨cs, e, t, a, rfl⟩ <;> simp [mustRefuse, hf, hl] at hperm

end A2Verif.FsCpm
