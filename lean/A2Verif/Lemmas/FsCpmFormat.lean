import A2Verif.Lemmas.FsCpmInv
/-!
# `format` establishes the invariant (CP/M 2: all blocks filled with 0xE5; CP/M 3: label and time-stamp entries)
-/
namespace A2Verif.FsCpm
open A2Verif.Fs.Cpm
open A2Verif.Read.Cpm (Dpb)

/-- a directory without file entries satisfies the invariant -/
theorem inv_of_no_files {d : Dpb} {r : Raw} (ho : DpbOk d) (hs : Shape d r) (hn : ∀ e ∈ dirOf d r, 16 ≤ e.getD 0 0) : Inv d r := by
  have hf : fents d r = [] := by
    unfold fents fentsOf
    rw [List.filter_eq_nil_iff]
    intro e he
    have := hn e he
    simp only [decide_eq_true_eq]; omega
  refine ⟨ho, hs, ?_, ?_, ?_⟩
  · intro k hk
    unfold keys keysOf at hk
    rw [hf] at hk
    cases hk
  · intro e he; rw [hf] at he; cases he
  · rw [hf, List.flatMap_nil, List.nil_append, ho.prefix_]
    exact List.nodup_range

/-! ## bytes -/

theorem splice_length {e new : Bytes} {off : Nat} (h : off + new.length ≤ e.length) : (splice e off new).length = e.length := by
  unfold splice
  simp only [List.length_append, List.length_take, List.length_drop]
  omega

theorem splice_getD0 {e new : Bytes} {off : Nat} (h0 : 0 < off) (h : off ≤ e.length) : (splice e off new).getD 0 0 = e.getD 0 0 := by
  unfold splice
  cases e with
  | nil => simp at h; omega
  | cons x xs =>
    obtain ⟨n, rfl⟩ : ∃ n, off = n + 1 := ⟨off - 1, by omega⟩
    simp

theorem padTo_length (n : Nat) (s : Bytes) : (padTo n s).length = n := by
  unfold padTo
  simp only [List.length_append, List.length_take, List.length_replicate]
  omega

/-- an entry that is not a file entry -/
def NonFile (e : Bytes) : Prop := e.length = 32 ∧ 16 ≤ e.getD 0 0

theorem nonFile_splice {e new : Bytes} {off : Nat} (h : NonFile e) (h0 : 0 < off) (hl : off + new.length ≤ 32) : NonFile (splice e off new) := by
  obtain ⟨a, b⟩ := h
  exact ⟨by rw [splice_length (by omega), a], by rw [splice_getD0 h0 (by omega)]; exact b⟩

theorem nonFile_tsCreate : NonFile tsCreate := by unfold NonFile; decide
theorem nonFile_empty : NonFile ([DELETED] ++ List.replicate 31 0) := by unfold NonFile; decide
theorem nonFile_labCreate : NonFile Lab.create := by unfold NonFile; decide

theorem tsOff_cases {sub : Nat} (h : ¬ sub > 3) : (tsCreateOff sub = 1 ∨ tsCreateOff sub = 11 ∨ tsCreateOff sub = 21) ∧
    (tsUpdateOff sub = 5 ∨ tsUpdateOff sub = 15 ∨ tsUpdateOff sub = 25) := by
  unfold tsCreateOff tsUpdateOff
  have : sub = 0 ∨ sub = 1 ∨ sub = 2 ∨ sub = 3 := by omega
  rcases this with rfl | rfl | rfl | rfl <;> simp

/-! ## `add_timestamps` -/

theorem addTsLoop_spec : ∀ (l ans : List Bytes) (ts : Bytes) (ans' : List Bytes) (ts' : Bytes),
    (∀ e ∈ l, NonFile e) → (∀ e ∈ ans, NonFile e) → NonFile ts → addTsLoop l ans ts = .ok (ans', ts') →
    (∀ e ∈ ans', NonFile e) ∧ NonFile ts' := by
  intro l
  induction l with
  | nil =>
    intro ans ts ans' ts' _ ha ht h
    unfold addTsLoop at h
    cases h
    exact ⟨ha, ht⟩
  | cons e rest ih =>
    intro ans ts ans' ts' hl ha ht h
    unfold addTsLoop at h
    have he : NonFile e := hl e List.mem_cons_self
    -- the state after the optional push of the pending time-stamp entry
    have hst : (∀ x ∈ (if ans.length % 4 = 3 then (ans ++ [ts], tsCreate) else (ans, ts)).1, NonFile x) ∧
        NonFile (if ans.length % 4 = 3 then (ans ++ [ts], tsCreate) else (ans, ts)).2 := by
      by_cases c : ans.length % 4 = 3
      · rw [if_pos c]
        refine ⟨?_, nonFile_tsCreate⟩
        intro x hx
        rcases List.mem_append.1 hx with hx | hx
        · exact ha x hx
        · rw [List.mem_singleton.1 hx]; exact ht
      · rw [if_neg c]; exact ⟨ha, ht⟩
    revert h
    generalize (if ans.length % 4 = 3 then (ans ++ [ts], tsCreate) else (ans, ts)) = st at hst
    obtain ⟨ans1, ts1⟩ := st
    obtain ⟨ha1, ht1⟩ := hst
    simp only []
    intro h
    by_cases c1 : status e = TIMESTAMP
    · rw [if_pos c1] at h; cases h
    · rw [if_neg c1] at h
      by_cases c2 : status e = LABEL
      · rw [if_pos c2] at h
        by_cases c3 : ans1.length % 4 + 1 > 3
        · rw [if_pos c3] at h; cases h
        · rw [if_neg c3] at h
          simp only [] at h
          obtain ⟨o1, o2⟩ := tsOff_cases c3
          have hct : (Lab.createTime e).length = 4 := slice_length (by have := he.1; omega)
          have hut : (Lab.updateTime e).length = 4 := slice_length (by have := he.1; omega)
          have ht2 : NonFile (splice (splice ts1 (tsCreateOff (ans1.length % 4 + 1)) (Lab.createTime e))
              (tsUpdateOff (ans1.length % 4 + 1)) (Lab.updateTime e)) := by
            apply nonFile_splice (nonFile_splice ht1 (by omega) (by omega)) (by omega) (by omega)
          refine ih _ _ _ _ (fun x hx => hl x (List.mem_cons_of_mem _ hx)) ?_ ht2 h
          intro x hx
          by_cases c4 : status e ≠ DELETED
          · rw [if_pos c4] at hx
            rcases List.mem_append.1 hx with hx | hx
            · exact ha1 x hx
            · rw [List.mem_singleton.1 hx]; exact he
          · rw [if_neg c4] at hx; exact ha1 x hx
      · rw [if_neg c2] at h
        simp only [] at h
        refine ih _ _ _ _ (fun x hx => hl x (List.mem_cons_of_mem _ hx)) ?_ ht1 h
        intro x hx
        by_cases c4 : status e ≠ DELETED
        · rw [if_pos c4] at hx
          rcases List.mem_append.1 hx with hx | hx
          · exact ha1 x hx
          · rw [List.mem_singleton.1 hx]; exact he
        · rw [if_neg c4] at hx; exact ha1 x hx

theorem addTsFill_spec : ∀ (n : Nat) (ans : List Bytes) (ts : Bytes), (∀ e ∈ ans, NonFile e) → NonFile ts →
    (∀ e ∈ addTsFill n ans ts, NonFile e) ∧ (addTsFill n ans ts).length = ans.length + n := by
  intro n
  induction n with
  | zero => intro ans ts ha _; exact ⟨ha, rfl⟩
  | succ n ih =>
    intro ans ts ha ht
    unfold addTsFill
    by_cases c : ans.length % 4 = 3
    · rw [if_pos c]
      obtain ⟨a, b⟩ := ih (ans ++ [ts]) tsCreate (by
        intro x hx
        rcases List.mem_append.1 hx with hx | hx
        · exact ha x hx
        · rw [List.mem_singleton.1 hx]; exact ht) nonFile_tsCreate
      exact ⟨a, by rw [b]; simp; omega⟩
    · rw [if_neg c]
      obtain ⟨a, b⟩ := ih (ans ++ [[DELETED] ++ List.replicate 31 0]) ts (by
        intro x hx
        rcases List.mem_append.1 hx with hx | hx
        · exact ha x hx
        · rw [List.mem_singleton.1 hx]; exact nonFile_empty) ht
      exact ⟨a, by rw [b]; simp; omega⟩

theorem addTimestamps_spec {dir dir' : Dir} (hl : ∀ e ∈ dir, NonFile e) (h : addTimestamps dir = .ok dir') :
    (∀ e ∈ dir', NonFile e) ∧ dir'.length = dir.length := by
  unfold addTimestamps at h
  cases hloop : addTsLoop dir [] tsCreate with
  | error e => rw [hloop] at h; cases h
  | ok p =>
    obtain ⟨ans, ts⟩ := p
    rw [hloop] at h
    simp only [] at h
    by_cases c : ans.length > dir.length
    · rw [if_pos c] at h; cases h
    · rw [if_neg c] at h
      cases h
      obtain ⟨a, b⟩ := addTsLoop_spec dir [] tsCreate ans ts hl (by intro e he; cases he) nonFile_tsCreate hloop
      obtain ⟨x, y⟩ := addTsFill_spec (dir.length - ans.length) ans ts a b
      exact ⟨x, by rw [y]; omega⟩

/-! ## the fill loop -/

def e5block (d : Dpb) : Bytes := List.replicate (blockSize d) DELETED

theorem fill_write {d : Dpb} {r : Raw} {i : Nat} (h : i < r.units.size) :
    writeBlock d r (List.replicate (blockSize d) DELETED) i 0 = .ok { r with units := r.units.setIfInBounds i (e5block d) } := by
  unfold writeBlock
  rw [if_neg (by omega), imgWrite_ok h]
  congr 3
  unfold quantize e5block
  simp

theorem fillLoop_spec (d : Dpb) : ∀ (is : List Nat) (r : Raw), (∀ i ∈ is, i < r.units.size) →
    ∃ r', fillLoop d r is = (.ok (), r') ∧ r'.units.size = r.units.size ∧
      ∀ i, r'.units[i]? = if i ∈ is then some (e5block d) else r.units[i]? := by
  intro is
  induction is with
  | nil => intro r _; exact ⟨r, rfl, rfl, fun i => by simp⟩
  | cons k ks ih =>
    intro r h
    have hk := h k List.mem_cons_self
    obtain ⟨r', h1, h2, h3⟩ := ih { r with units := r.units.setIfInBounds k (e5block d) }
      (fun j hj => by simpa using h j (List.mem_cons_of_mem _ hj))
    refine ⟨r', by simp only [fillLoop, fill_write hk]; exact h1, by simpa using h2, fun i => ?_⟩
    rw [h3 i]
    simp only [List.mem_cons]
    by_cases hi : i ∈ ks
    · rw [if_pos hi, if_pos (Or.inr hi)]
    · rw [if_neg hi]
      by_cases hik : i = k
      · subst hik
        rw [if_pos (Or.inl rfl)]
        simp [hk]
      · rw [if_neg (by rintro (a | a); exact hik a; exact hi a)]
        simp only [Array.getElem?_setIfInBounds]
        rw [if_neg (by omega)]

theorem mem_slice {b : Bytes} {off n x : Nat} (h : x ∈ slice b off n) : x ∈ b := by
  unfold slice at h
  exact List.mem_of_mem_drop (List.mem_of_mem_take h)

/-- after the fill loop every directory entry is 32 bytes of 0xE5 -/
theorem filled_dir {d : Dpb} {r1 : Raw} (ho : DpbOk d) (hs : Shape d r1)
    (hu : ∀ i, i < d.dsm + 1 → r1.units[i]? = some (e5block d)) : ∀ e ∈ dirOf d r1, NonFile e := by
  intro e he
  have hl := dirOf_entry_length hs ho e he
  refine ⟨hl, ?_⟩
  unfold dirOf at he
  simp only [List.mem_map, List.mem_range] at he
  obtain ⟨k, _, rfl⟩ := he
  have hall : ∀ x ∈ dirBuf d r1, x = DELETED := by
    intro x hx
    unfold dirBuf at hx
    simp only [List.mem_flatten, List.mem_map, List.mem_range] at hx
    obtain ⟨b, ⟨i, hi, rfl⟩, hxb⟩ := hx
    unfold blk at hxb
    rw [hu i (by have := ho.cover; have := ho.inRange; omega)] at hxb
    exact List.eq_of_mem_replicate hxb
  cases hsl : slice (dirBuf d r1) (32 * k) 32 with
  | nil => rw [hsl] at hl; cases hl
  | cons x xs =>
    have hx : x ∈ slice (dirBuf d r1) (32 * k) 32 := by rw [hsl]; exact List.mem_cons_self
    have := hall x (mem_slice hx)
    simp only [List.getD_cons_zero, this]
    decide

theorem mem_set {dir : Dir} {i : Nat} {a x : Bytes} (h : x ∈ dir.set i a) : x ∈ dir ∨ x = a := by
  rcases List.mem_or_eq_of_mem_set h with h | h
  · exact Or.inl h
  · exact Or.inr h

/-- the last part of `format` for CP/M 3: optional label in entry 0, optional time-stamp entries, save -/
theorem format_tail {d : Dpb} {r1 r' : Raw} (ho : DpbOk d) (hs1 : Shape d r1) (hdir : ∀ e ∈ dirOf d r1, NonFile e)
    {lab2 : Bytes} (hlab2 : NonFile lab2) (b ts : Bool) {fin0 : Dir}
    (hX : (if ts = true then addTimestamps (if b = true then (dirOf d r1).set 0 lab2 else dirOf d r1)
            else Except.ok (if b = true then (dirOf d r1).set 0 lab2 else dirOf d r1)) = .ok fin0)
    (hS : saveDirectory d r1 fin0 = (.ok (), r')) : Inv d r' := by
  have hlen : (dirOf d r1).length = dirEntries d := dirOf_length d r1
  have hdir1 : (∀ e ∈ (if b = true then (dirOf d r1).set 0 lab2 else dirOf d r1), NonFile e) ∧
      (if b = true then (dirOf d r1).set 0 lab2 else dirOf d r1).length = dirEntries d := by
    by_cases c : b = true
    · rw [if_pos c]
      refine ⟨?_, by rw [List.length_set, hlen]⟩
      intro e he
      rcases mem_set he with he | rfl
      · exact hdir e he
      · exact hlab2
    · rw [if_neg c]; exact ⟨hdir, hlen⟩
  revert hX
  generalize (if b = true then (dirOf d r1).set 0 lab2 else dirOf d r1) = dir1 at hdir1 ⊢
  intro h
  obtain ⟨hd1, hl1⟩ := hdir1
  have finish : ∀ (fin : Dir), (∀ e ∈ fin, NonFile e) → fin.length = dirEntries d → saveDirectory d r1 fin = (.ok (), r') → Inv d r' := by
    intro fin hf hfl hsave
    obtain ⟨r2, e1, e2, _, e4⟩ := saveDirectory_spec hs1 ho hfl (fun e he => (hf e he).1)
    rw [e1] at hsave
    cases hsave
    exact inv_of_no_files ho e2 (fun e he => by rw [e4] at he; exact (hf e he).2)
  cases ts with
  | false =>
    simp only [Bool.false_eq_true, ↓reduceIte] at h
    have e := Except.ok.inj h
    exact finish fin0 (e ▸ hd1) (e ▸ hl1) hS
  | true =>
    simp only [↓reduceIte] at h
    obtain ⟨a, b⟩ := addTimestamps_spec hd1 h
    exact finish fin0 a (by rw [b, hl1]) hS

/-- **`format` establishes the invariant**, for CP/M 2 and CP/M 3 (label, time stamps), whatever the volume name is -/
theorem format_inv {d : Dpb} {r r' : Raw} {vn : Bytes} {time : Option Bytes} (ho : DpbOk d) (hsz : r.units.size = d.dsm + 1)
    (ht : ∀ t, time = some t → t.length = 4) (h : format d r vn time = (.ok (), r')) : Inv d r' := by
  unfold format at h
  by_cases c0 : (d.v3 && decide (vn.length > 0) && !isNameValid vn) = true
  · rw [if_pos c0] at h; cases h
  rw [if_neg c0] at h
  obtain ⟨r1, h1, h2, h3⟩ := fillLoop_spec d (List.range (userBlocks d)) r (by
    intro i hi
    simp only [List.mem_range] at hi
    unfold userBlocks at hi
    omega)
  rw [h1] at h
  simp only [] at h
  have hu : ∀ i, i < d.dsm + 1 → r1.units[i]? = some (e5block d) := by
    intro i hi
    rw [h3 i, if_pos (by simpa [userBlocks] using hi)]
  have hs1 : Shape d r1 := by
    refine ⟨by rw [h2, hsz], ?_⟩
    intro i b hib
    by_cases hi : i < d.dsm + 1
    · rw [hu i hi] at hib
      cases hib
      simp [e5block]
    · have : r1.units[i]? = none := by
        apply Array.getElem?_eq_none
        rw [h2, hsz]; omega
      rw [this] at hib; cases hib
  have hdir := filled_dir ho hs1 hu
  by_cases cv : d.v3 = true
  case neg =>
    rw [if_pos (by simpa using cv)] at h
    cases h
    exact inv_of_no_files ho hs1 (fun e he => (hdir e he).2)
  rw [if_neg (by simpa using cv)] at h
  rw [getDirectory_eq hs1 ho] at h
  simp only [] at h
  have hlen : (dirOf d r1).length = dirEntries d := dirOf_length d r1
  rw [if_neg (by rw [hlen]; unfold dirEntries; omega)] at h
  -- the label
  have hlab1 : NonFile (if vn.length > 0 then (let (nm, ty) := stringToFileName vn; Lab.set Lab.create nm ty) else Lab.create) := by
    by_cases c : vn.length > 0
    · rw [if_pos c]
      simp only []
      unfold Lab.set
      exact nonFile_splice (nonFile_splice nonFile_labCreate (by omega) (by simp; omega)) (by omega) (by simp; omega)
    · rw [if_neg c]; exact nonFile_labCreate
  revert h
  generalize (if vn.length > 0 then (let (nm, ty) := stringToFileName vn; Lab.set Lab.create nm ty) else Lab.create) = lab1 at hlab1 ⊢
  intro h
  cases time with
  | none =>
    simp only [] at h
    cases hX : (if (none : Option Bytes).isSome = true then
        addTimestamps (if (decide (vn.length > 0) || (none : Option Bytes).isSome) = true then (dirOf d r1).set 0 lab1 else dirOf d r1)
        else Except.ok (if (decide (vn.length > 0) || (none : Option Bytes).isSome) = true then (dirOf d r1).set 0 lab1 else dirOf d r1)) with
    | error e => rw [hX] at h; cases h
    | ok fin =>
      rw [hX] at h
      exact format_tail ho hs1 hdir hlab1 _ _ hX h
  | some t =>
    have h4 := ht t rfl
    simp only [] at h
    have hl2 : NonFile (Lab.timestampUpdate (Lab.timestampCreation (splice (splice lab1 24 (t.take 4)) 28 (t.take 4)))) := by
      unfold Lab.timestampUpdate Lab.timestampCreation Lab.setMode
      exact nonFile_splice (nonFile_splice (nonFile_splice (nonFile_splice hlab1 (by omega) (by simp; omega)) (by omega) (by simp; omega))
        (by omega) (by simp)) (by omega) (by simp)
    revert h
    generalize Lab.timestampUpdate (Lab.timestampCreation (splice (splice lab1 24 (t.take 4)) 28 (t.take 4))) = lab2 at hl2 ⊢
    intro h
    cases hX : (if (some t).isSome = true then
        addTimestamps (if (decide (vn.length > 0) || (some t).isSome) = true then (dirOf d r1).set 0 lab2 else dirOf d r1)
        else Except.ok (if (decide (vn.length > 0) || (some t).isSome) = true then (dirOf d r1).set 0 lab2 else dirOf d r1)) with
    | error e => rw [hX] at h; cases h
    | ok fin =>
      rw [hX] at h
      exact format_tail ho hs1 hdir hl2 _ _ hX h

end A2Verif.FsCpm
