import A2Verif.Lemmas.FsFatMkdirStep
/-!
# Growth of a sub-directory: `expand_directory`

`lastLoop_chain`: `last_cluster` of a link chain is its last element.  `isChain_snoc`: linking a fresh cluster behind the
last one gives the chain extended by it.  `expand_run`: `expand_directory` takes the first free cluster `nc`, links it
behind the last cluster of the directory, marks it as the end, zeroes it; the directory buffer read along the new chain
is the old one followed by a cluster of end marks.
-/
namespace A2Verif.FsFat
open A2Verif A2Verif.Fs.Fat A2Verif.Read.Fat A2Verif.Read.FatT

theorem lastLoop_chain {d : Disk} {f : Array Nat} (g : Geo d) (w : WOk d f) : ∀ {c : Nat} {cl : List Nat},
    IsChain f (hiOf d.bpb) c cl → ∀ fuel, cl.length ≤ fuel → ∀ l, cl.getLast? = some l → lastLoop fuel c d = (.ok l, d) := by
  have hhi := hiOf_le g
  intro c cl h
  induction h with
  | @last c h1 h2 h3 =>
    intro fuel hl l hlast
    cases fuel with
    | zero => simp at hl
    | succ n =>
      have hc : clusInRng d.bpb c = true := by unfold clusInRng hiOf firstDataCluster at *; simp; omega
      simp only [List.getLast?_singleton, Option.some.injEq] at hlast
      subst hlast
      rw [lastLoop]
      simp only [M_bind_apply, nextCluster_eq w hhi hc (by omega), h3, if_true, M_pure_apply]
  | @link c cl' h1 h2 h3 h4 hrest ih =>
    intro fuel hl l hlast
    cases fuel with
    | zero => simp at hl
    | succ n =>
      have hc : clusInRng d.bpb c = true := by unfold clusInRng hiOf firstDataCluster at *; simp; omega
      have hnl : ¬ (0xFF8 ≤ nxt f c) := by omega
      have hnb := (hrest.bounds _ hrest.head_mem).2
      have hn7 : nxt f c ≠ 0xFF7 := by omega
      have hl' : cl'.length ≤ n := by simp at hl; omega
      have hne : cl' ≠ [] := by
        intro e
        have := hrest.head_mem
        rw [e] at this
        cases this
      have hlast' : cl'.getLast? = some l := by
        cases hc' : cl' with
        | nil => exact absurd hc' hne
        | cons a t =>
          rw [hc', List.getLast?_cons_cons] at hlast
          exact hlast
      rw [lastLoop]
      simp only [M_bind_apply, nextCluster_eq w hhi hc hn7, hnl, if_false]
      exact ih n hl' l hlast'

theorem getLast?_cons_of_ne_nil {α : Type} (c : α) {l : List α} (h : l ≠ []) : (c :: l).getLast? = l.getLast? := by
  cases l with
  | nil => exact absurd rfl h
  | cons a t => rw [List.getLast?_cons_cons]

/-- linking a fresh cluster `nc` behind the last cluster of a chain extends the chain by it -/
theorem isChain_snoc {f f2 : Array Nat} {hi nc : Nat} (hnc2 : 2 ≤ nc) (hnchi : nc < hi) (hnc8 : nc < 0xFF8)
    (hend : 0xFF8 ≤ nxt f2 nc) : ∀ {c : Nat} {cl : List Nat}, IsChain f hi c cl → cl.Nodup → nc ∉ cl →
    (∀ l, cl.getLast? = some l → nxt f2 l = nc) → (∀ z ∈ cl, cl.getLast? ≠ some z → nxt f2 z = nxt f z) →
    IsChain f2 hi c (cl ++ [nc]) := by
  intro c cl h
  induction h with
  | @last c h1 h2 h3 =>
    intro _ _ hl _
    have hn : nxt f2 c = nc := hl c rfl
    show IsChain f2 hi c (c :: [nc])
    apply IsChain.link h1 h2 (by rw [hn]; omega) (by rw [hn]; exact hnc8)
    rw [hn]
    exact IsChain.last hnc2 hnchi hend
  | @link c cl' h1 h2 h3 h4 hrest ih =>
    intro hnd hncl hl hs
    have ⟨hc, hnd'⟩ := List.nodup_cons.mp hnd
    have hne : cl' ≠ [] := by
      intro e
      have := hrest.head_mem
      rw [e] at this
      cases this
    have hgl : (c :: cl').getLast? = cl'.getLast? := getLast?_cons_of_ne_nil c hne
    have hcnl : (c :: cl').getLast? ≠ some c := by
      rw [hgl]
      intro e
      exact hc (List.mem_of_getLast? e)
    have hnc : nxt f2 c = nxt f c := hs c (by simp) hcnl
    show IsChain f2 hi c (c :: (cl' ++ [nc]))
    apply IsChain.link h1 h2 (by rw [hnc]; exact h3) (by rw [hnc]; exact h4)
    rw [hnc]
    apply ih hnd' (fun e => hncl (by simp [e]))
    · intro l hl'
      exact hl l (by rw [hgl]; exact hl')
    · intro z hz hzl
      exact hs z (by simp [hz]) (by rw [hgl]; exact hzl)

theorem dirOfBytes_append_flat {L1 L2 : List Bytes} (h1 : AllLen 32 L1) (h2 : AllLen 32 L2) :
    dirOfBytes (L1.flatten ++ L2.flatten) = L1 ++ L2 := by
  rw [← List.flatten_append]
  apply dirOfBytes_flatten
  intro x hx
  rcases List.mem_append.1 hx with h | h
  · exact h1 x h
  · exact h2 x h

/-- **the run of `expand_directory`** on a directory whose clusters form a link chain -/
theorem expand_run {d : Disk} {f : Array Nat} (g : Geo d) (w : WOk d f) {c1 : Nat} {cl : List Nat}
    (h : IsChain f (hiOf d.bpb) c1 cl) (hnd : cl.Nodup) (dir : Directory) :
    (expandDirectory dir c1 d = (.error .diskFull, d)) ∨
    ∃ nc r' f2, clusInRng d.bpb nc = true ∧ isFree12 f nc = true ∧
      expandDirectory dir c1 d = (.ok (dir ++ List.replicate (epcOf d.bpb) (zeros 32)), { d with raw := r', fat := some f2 }) ∧
      Geo ({ d with raw := r', fat := some f2 } : Disk) ∧ WOk ({ d with raw := r', fat := some f2 } : Disk) f2 ∧ f2.size = f.size ∧
      IsChain f2 (hiOf d.bpb) c1 (cl ++ [nc]) ∧ (cl ++ [nc]).Nodup ∧
      (∀ m, m ≠ nc → cl.getLast? ≠ some m → nxt f2 m = nxt f m) ∧ nxt f2 nc = 0xFFF ∧
      (∀ u, u ∉ List.range' (d.bpb.firstClusterSec nc) d.bpb.spc → r'.units[u]? = d.raw.units[u]?) ∧
      subEntries ({ d with raw := r', fat := some f2 } : Disk) (cl ++ [nc]) = subEntries d cl ++ List.replicate (epcOf d.bpb) (zeros 32) := by
  have hhi := hiOf_le g
  unfold expandDirectory
  rw [M_bind_apply, getAvailableBlock_open w]
  cases hav : (clusters d.bpb).find? (isFree12 f) with
  | none => exact Or.inl rfl
  | some nc =>
    right
    simp only []
    obtain ⟨hcr, hcf⟩ := avail_sound hav
    have ⟨hc2, hcu⟩ := clusInRng_bounds hcr
    have hnchi : nc < hiOf d.bpb := by unfold hiOf; unfold firstDataCluster at hcu; omega
    have hlen := chain_length_le h hnd
    obtain ⟨l, hl⟩ : ∃ l, cl.getLast? = some l := by
      cases hc : cl.getLast? with
      | none =>
        have := List.getLast?_eq_none_iff.mp hc
        have hm := h.head_mem
        rw [this] at hm
        cases hm
      | some l => exact ⟨l, rfl⟩
    have hlm : l ∈ cl := List.mem_of_getLast? hl
    have hlr := isChain_inRng h l hlm
    have hl2 := (clusInRng_bounds hlr).1
    have hlast : lastCluster c1 d = (.ok l, d) := by
      unfold lastCluster
      simp only [M_bind_apply, M.get]
      exact lastLoop_chain g w h _ (by unfold hiOf at hlen; omega) l hl
    -- the clusters of the chain are in use, `nc` is free
    have hncl : nc ∉ cl := by
      intro hm
      have := h.nonzero nc hm
      exact this ((isFree12_iff f nc).mp hcf)
    have hlnc : l ≠ nc := fun e => hncl (e ▸ hlm)
    -- the FAT
    have hil : InBuf f l := w.inbuf l (clusInRng_bounds hlr).2
    have hic : InBuf f nc := w.inbuf nc hcu
    obtain ⟨f1, e1, s1, g1⟩ := setCluster12_spec (v := nc) hil
    have b1 : BytesOk f1 := bytesOk_setCluster w.bytes e1
    obtain ⟨f2, e2, s2, g2⟩ := setCluster12_spec (v := 0xfff) (inBuf_of_size s1 hic)
    have b2 : BytesOk f2 := bytesOk_setCluster b1 e2
    have hm2 : markLast 12 f1 nc = .ok f2 := by simpa [markLast, eocSet] using e2
    have hncs : nc < 4096 := by have := w.small; omega
    have hn_nc : nxt f2 nc = 0xFFF := by
      unfold nxt; rw [g2, rd_wr_same _ _ _ (b1 _) (b1 _)]
    have hn_l : nxt f2 l = nc := by
      unfold nxt
      rw [g2, rd_wr_other _ _ _ _ hlnc b1, g1, rd_wr_same _ _ _ (w.bytes _) (w.bytes _)]
      omega
    have hn_o : ∀ m, m ≠ nc → m ≠ l → nxt f2 m = nxt f m := by
      intro m h1 h2
      unfold nxt
      rw [g2, rd_wr_other _ _ _ _ h1 b1, g1, rd_wr_other _ _ _ _ h2 w.bytes]
    -- the image
    have hgeom := w.geom nc hcr
    obtain ⟨r', hz, hsz0, hul0, hfr0, hdat⟩ := zapBlock_full (d := ({ d with fat := some f2 } : Disk)) (zeros d.bpb.blockSize) hc2 g.ulen hgeom
    have hsz : r'.units.size = d.raw.units.size := hsz0
    have hul : r'.unitLen = d.raw.unitLen := hul0
    have hfr : ∀ u, u ∉ List.range' (d.bpb.firstClusterSec nc) d.bpb.spc → r'.units[u]? = d.raw.units[u]? := hfr0
    have hq : quantize (takeN (zeros d.bpb.blockSize) d.bpb.blockSize) (d.bpb.spc * 512) = zeros (d.bpb.spc * 512) := by
      rw [takeN_of_le (by simp [zeros]), blockSize_eq g]
      unfold quantize
      rw [if_pos (by simp [zeros])]
    have hdat' : ∀ i, i < d.bpb.spc → r'.units[d.bpb.firstClusterSec nc + i]? =
        some (((zeros (d.bpb.spc * 512)).drop (i * 512)).take 512) := by
      intro i hi
      have := hdat i hi
      rw [hq] at this
      exact this
    rw [← w.typ] at e1 hm2
    obtain ⟨gdg, hlow⟩ := geo_of_block_write g (some f2) hsz hul (Q := zeros (d.bpb.spc * 512)) (by simp [zeros]) hfr hdat'
    have hwdg : WOk ({ d with raw := r', fat := some f2 } : Disk) f2 :=
      { fat := rfl, typ := w.typ, bytes := b2, inbuf := fun c hc => inBuf_of_size (by rw [s2, s1]) (w.inbuf c hc),
        geom := fun c hc s hs => by show s < r'.units.size; rw [hsz]; exact w.geom c hc s hs, small := w.small }
    have hchain2 : IsChain f2 (hiOf d.bpb) c1 (cl ++ [nc]) := by
      apply isChain_snoc hc2 hnchi (by omega) (by rw [hn_nc]; omega) h hnd hncl
      · intro l' hl'
        rw [hl] at hl'
        injection hl' with hl'
        rw [← hl']; exact hn_l
      · intro z hz hzl
        apply hn_o z (fun e => hncl (e ▸ hz))
        intro e
        apply hzl
        rw [hl, e]
    refine ⟨nc, r', f2, hcr, hcf, ?_, gdg, hwdg, by rw [s2, s1], hchain2, ?_, ?_, hn_nc, hfr, ?_⟩
    · -- the run
      have hepcv : d.bpb.blockSize / entrySize = epcOf d.bpb := by rw [blockSize_eq g]; unfold epcOf entrySize; omega
      simp only [M_bind_apply, M.get, hlast, getFatBuffer_open w.fat, M.lift, e1, hm2, M.setFat, hepcv]
      have : zapBlock (zeros d.bpb.blockSize) nc ({ d with fat := some f2 } : Disk) =
          (.ok (), ({ ({ d with fat := some f2 } : Disk) with raw := r' } : Disk)) := hz
      simp only [this, M_pure_apply]
    · rw [List.nodup_append]
      exact ⟨hnd, by simp, fun a ha b hb e => by simp at hb; subst hb; exact hncl (e ▸ ha)⟩
    · intro m hm hml
      apply hn_o m hm
      intro e
      apply hml
      rw [hl, e]
    · -- the directory buffer
      have hcl := isChain_inRng h
      obtain ⟨hA, _, hflat, _⟩ := chainDir_spec g hcl
      have hcdcl : chainData ({ d with raw := r', fat := some f2 } : Disk) cl = chainData d cl := by
        unfold chainData
        congr 1
        apply List.map_congr_left
        intro x hx
        unfold blockData
        show ((List.range d.bpb.spc).map (fun i => r'.units.getD (d.bpb.firstClusterSec x + i) [])).flatten = _
        congr 1
        apply List.map_congr_left
        intro i hi
        have hi' := List.mem_range.mp hi
        rw [Array.getD_eq_getD_getElem?, Array.getD_eq_getD_getElem?, hfr]
        exact secs_disjoint (clusInRng_bounds (hcl x hx)).1 hc2 (fun e => hncl (e ▸ hx)) (by rw [List.mem_range'_1]; omega)
      have hbnc : blockData ({ d with raw := r', fat := some f2 } : Disk) nc = zeros (d.bpb.spc * 512) := by
        unfold blockData
        show ((List.range d.bpb.spc).map (fun i => r'.units.getD (d.bpb.firstClusterSec nc + i) [])).flatten = _
        have : (List.range d.bpb.spc).map (fun i => r'.units.getD (d.bpb.firstClusterSec nc + i) []) =
            (List.range d.bpb.spc).map (fun j => ((zeros (d.bpb.spc * 512)).drop (j * 512)).take 512) := by
          apply List.map_congr_left
          intro i hi
          rw [Array.getD_eq_getD_getElem?, hdat' i (List.mem_range.mp hi)]
          rfl
        rw [this]
        exact flatten_chunks _ _ (by simp [zeros])
      have hz32 : zeros (d.bpb.spc * 512) = (List.replicate (epcOf d.bpb) (zeros 32)).flatten := by
        unfold zeros epcOf
        rw [List.flatten_replicate_replicate]
        congr 1
        omega
      unfold subEntries
      have hsplit : chainData ({ d with raw := r', fat := some f2 } : Disk) (cl ++ [nc]) =
          chainData ({ d with raw := r', fat := some f2 } : Disk) cl ++ blockData ({ d with raw := r', fat := some f2 } : Disk) nc := by
        unfold chainData
        simp
      have : chainData ({ d with raw := r', fat := some f2 } : Disk) (cl ++ [nc]) =
          (dirOfBytes (chainData d cl)).flatten ++ (List.replicate (epcOf d.bpb) (zeros 32)).flatten := by
        rw [hsplit, hcdcl, hbnc, hz32, hflat]
      rw [this]
      exact dirOfBytes_append_flat hA (fun x hx => by rw [(List.mem_replicate.mp hx).2]; simp [zeros])

end A2Verif.FsFat
