import A2Verif.Lemmas.C15Data
import A2Verif.Model.DasmLabel
/-!
Lemmas about the label layer (`Model/DasmLabel.lean`): with the look-up key `exact` a substituted label
always stands for the operand value itself, so the labelled listing reads back as the unlabelled one.
-/
namespace A2Verif.C15
open A2Verif.Gen.Opcodes A2Verif.Gen.DasmLabels A2Verif.Dasm A2Verif.Asm

theorem contig_le : ∀ (ls : List Line) (a b : Nat), Contig a ls b → a ≤ b := by
  intro ls
  induction ls with
  | nil => intro a b h; simp only [Contig] at h; omega
  | cons l ls ih =>
    intro a b h
    simp only [Contig] at h
    have := ih _ _ h.2.2
    omega

/-- every line of a tiling of `[a, b)` starts inside `[a, b)` -/
theorem contig_addr_bounds : ∀ (ls : List Line) (a b : Nat), Contig a ls b →
    ∀ l ∈ ls, a ≤ l.addr ∧ l.addr < b := by
  intro ls
  induction ls with
  | nil => intro a b _ l hl; cases hl
  | cons l0 ls ih =>
    intro a b h l hl
    simp only [Contig] at h
    obtain ⟨h1, h2, h3⟩ := h
    have hle := contig_le ls _ _ h3
    rcases List.mem_cons.mp hl with rfl | hl
    · omega
    · have := ih _ _ h3 l hl
      omega

/-- labels are line addresses -/
theorem labelSet_sub (lab : Labeling) (ls : List Line) : ∀ v ∈ labelSet lab ls, ∃ l ∈ ls, l.addr = v := by
  intro v hv
  cases lab with
  | none => simp [labelSet] at hv
  | all =>
    simp only [labelSet, List.mem_map] at hv
    exact hv
  | some =>
    cases ls with
    | nil => simp [labelSet] at hv
    | cons l0 rest =>
      simp only [labelSet, List.mem_cons, List.mem_map, List.mem_filter] at hv
      rcases hv with rfl | ⟨l, ⟨hl, _⟩, rfl⟩
      · exact ⟨l0, by simp, rfl⟩
      · exact ⟨l, by simp [hl], rfl⟩

/-- the label text is wide enough for every line address -/
theorem pcBytes_bound (ls : List Line) (hb : ∀ l ∈ ls, l.addr < 2 ^ 24) :
    ∀ l ∈ ls, l.addr < 256 ^ pcBytes ls := by
  intro l hl
  unfold pcBytes
  split
  · have := hb l hl
    have e : (256 : Nat) ^ 3 = 2 ^ 24 := by decide
    omega
  · rename_i hany
    have hno : ¬ (l.addr > 0xffff) := by
      intro hgt
      apply hany
      exact List.any_eq_true.mpr ⟨l, hl, by simpa using hgt⟩
    have e : (256 : Nat) ^ 2 = 65536 := by decide
    omega

/-- **the substituted label stands for the operand value** (look-up key `exact`) -/
theorem labelSubst_exact (lab : Labeling) (ls : List Line) (hb : ∀ l ∈ ls, l.addr < 2 ^ 24)
    (l : Line) (x : Nat)
    (h : labelSubst .exact (labelSet lab ls) (pcBytes ls) l = some x) : l.labelCand = some x := by
  unfold labelSubst at h
  cases hc : l.labelCand with
  | none => simp [hc] at h
  | some v =>
    simp only [hc] at h
    by_cases hin : (labelSet lab ls).contains (keyOf .exact (pcBytes ls) v) = true
    · rw [if_pos hin] at h
      have hmem : v ∈ labelSet lab ls := by simpa [keyOf] using hin
      obtain ⟨l', hl', rfl⟩ := labelSet_sub lab ls v hmem
      have := pcBytes_bound ls hb l' hl'
      rw [Nat.mod_eq_of_lt this] at h
      exact h
    · rw [if_neg hin] at h
      cases h

theorem setOperand_cand (l : Line) (x : Nat) (h : l.labelCand = some x) : l.setOperand x = l := by
  cases l with
  | instr a m md wide sfx pfx op =>
    cases op with
    | none => simp [Line.labelCand] at h
    | mov p q => simp [Line.labelCand] at h
    | rel d =>
      simp only [Line.labelCand] at h
      split at h
      · cases h
      · cases h; rfl
    | val v n =>
      simp only [Line.labelCand] at h
      split at h
      · cases h
      · cases h; rfl
  | hex a r b => rfl
  | ds a n v => rfl
  | asc a n s z => rfl
  | dci a n s => rfl
  | dfb a v => rfl

theorem substLine_exact (lab : Labeling) (ls : List Line) (hb : ∀ l ∈ ls, l.addr < 2 ^ 24) (l : Line) :
    substLine .exact (labelSet lab ls) (pcBytes ls) l = l := by
  unfold substLine
  cases h : labelSubst .exact (labelSet lab ls) (pcBytes ls) l with
  | none => rfl
  | some x => exact setOperand_cand l x (labelSubst_exact lab ls hb l x h)

/-- with the key `exact` the labelled listing reads back, for the assembler, as the unlabelled one -/
theorem labelled_exact (lab : Labeling) (ls : List Line) (hb : ∀ l ∈ ls, l.addr < 2 ^ 24) :
    labelled .exact lab ls = ls := by
  unfold labelled
  conv => rhs; rw [← List.map_id ls]
  apply List.map_congr_left
  intro l _
  exact substLine_exact lab ls hb l

/-- addresses of the lines of a disassembly -/
theorem dasm_addr_bound (q : Quirks) (cfg : Cfg) (org : Nat) (bytes : List Nat) (hb : ∀ x ∈ bytes, x < 256)
    (hsz : org + bytes.length ≤ 2 ^ 24) : ∀ l ∈ dasm q cfg org bytes, l.addr < 2 ^ 24 := by
  intro l hl
  have hc : Contig org (dasm q cfg org bytes) (org + bytes.length) :=
    go_contig q cfg bytes.length org bytes (Nat.le_refl _) hb
  have := contig_addr_bounds _ _ _ hc l hl
  omega

end A2Verif.C15
