import A2Verif.Lemmas.FsProdosDealloc
/-!
# `delete` of a file of the volume directory: what the model does, from either buffer state

`delete_trace`: the search finds the entry in slot `x` of the volume directory; its blocks are released
(`deallocFile_next`), the first byte of the slot is zeroed, the file count of the volume header is lowered.  The image
afterwards is given explicitly (`delImage`), the effective buffer is the one after the release with the bits of the two
directory blocks cleared (they were clear).
-/
namespace A2Verif.FsProdos
open A2Verif.Fs.Prodos
open A2Verif.Read.Prodos (entryAt dirChain idxPtr indexEntries readData trimName)
open A2Verif.Read.ProdosT

theorem prevOk_congr (r r' : Raw) : ∀ (ch : List Nat) (p : Nat), (∀ b ∈ ch, le16 (unitAt r' b) 0 = le16 (unitAt r b) 0) →
    PrevOk r p ch → PrevOk r' p ch
  | [], _, _, _ => trivial
  | b :: rest, p, h, hp =>
    ⟨by rw [h b List.mem_cons_self]; exact hp.1,
     prevOk_congr r r' rest b (fun x hx => h x (List.mem_cons_of_mem _ hx)) hp.2⟩

/-- the image after the two directory writes of `delete`: slot `idx` of block `B` zeroed, then the file count of block 2 lowered -/
def delImage (raw1 : Raw) (B idx : Nat) : Raw :=
  let r2 := setUnit raw1 B (patched (unitAt raw1 B) (Dir.entryOff idx) [0])
  setUnit r2 2 (patched (unitAt r2 2) 37 (u16le (le16 ((unitAt r2 2).take dirLen) 37 - 1)))

theorem mem_index {α : Type} {l : List α} {x : α} (h : x ∈ l) : ∃ i, ∃ (hi : i < l.length), l[i] = x := by
  obtain ⟨i, hi, he⟩ := List.getElem_of_mem h
  exact ⟨i, hi, he⟩

theorem chain_ne_zero_of_ctx {d : Disk} {bm cnt : Nat} {ch : List Nat} (c : RootCtx d bm cnt ch) : ∀ x ∈ ch, x ≠ 0 :=
  c.chain.ne_zero

/-- the model's entry accessor on a slot of the volume directory -/
theorem getEntry_slot {r : Raw} {ch : List Nat} (hk : KindsOk r 2 ch) (B k : Nat) (hB : B ∈ ch) (hk13 : k < 13) (hkey : B = 2 → 1 ≤ k) :
    Dir.getEntry { kind := kindOf B (unitAt r B), bytes := (unitAt r B).take dirLen } (k + 1) = some (entryAt (unitAt r B) k 39) := by
  apply getEntry_std _ _ k hk13
  intro hne
  by_cases hb : B = 2
  · exact hkey hb
  · exact absurd ((hk B hB).2 hb) hne

theorem idxOk_slot {r : Raw} {ch : List Nat} (hk : KindsOk r 2 ch) (B k : Nat) (hB : B ∈ ch) (hk13 : k < 13) (hkey : B = 2 → 1 ≤ k) :
    Dir.idxOk { kind := kindOf B (unitAt r B), bytes := (unitAt r B).take dirLen } (k + 1) = true := by
  have := getEntry_slot hk B k hB hk13 hkey
  unfold Dir.getEntry at this
  split at this
  · next h => exact h
  · cases this

/-- **`delete(path)` of a file of the volume directory, as a step** -/
theorem delete_trace {d : Disk} {bm cnt : Nat} {ch : List Nat} (c : RootCtx d bm cnt ch) (path nm : Bytes)
    (hnodes : normalizePath (volName (hdrOf d.raw)) path = .ok [volName (hdrOf d.raw), nm]) (hnm : nm ≠ [])
    (hv : isNameValid nm = true)
    (B k : Nat) (hB : B ∈ ch) (hk13 : k < 13) (hkey : B = 2 → 1 ≤ k)
    (hx : (dirSlots d.raw 2 ch).find? (isHit fileTypes nm) = some (entryAt (unitAt d.raw B) k 39, B, k + 1))
    (hacc : Ent.access (entryAt (unitAt d.raw B) k 39) &&& 0x80 ≠ 0)
    (hst : (entryAt (unitAt d.raw B) k 39).getD 0 0 / 16 = 1 ∨ (entryAt (unitAt d.raw B) k 39).getD 0 0 / 16 = 2 ∨
      (entryAt (unitAt d.raw B) k 39).getD 0 0 / 16 = 3)
    (hnd : (ownedOfEntry d.raw (entryAt (unitAt d.raw B) k 39)).Nodup)
    (hall : ∀ y ∈ ownedOfEntry d.raw (entryAt (unitAt d.raw B) k 39),
      y ∉ bmRange bm cnt ∧ y ≠ 2 ∧ y < d.raw.units.size ∧ y / 8 < (effBuf d bm cnt).size ∧ y ∉ ch)
    (hok : BytesOk (effBuf d bm cnt)) (hcovch : ∀ b ∈ ch, b / 8 < (effBuf d bm cnt).size)
    (hcount : le16 (unitAt d.raw 2) 37 ≠ 0)
    (hlen : ∀ b ∈ ch, (unitAt d.raw b).length = 512) :
    ∃ d3 raw1 buf1, delete path repaired d = (.ok (), d3) ∧
      raw1.units.size = d.raw.units.size ∧
      (∀ j, j ∉ ownedOfEntry d.raw (entryAt (unitAt d.raw B) k 39) → raw1.units[j]? = d.raw.units[j]?) ∧ SwapOnly d.raw raw1 ∧
      buf1.size = (effBuf d bm cnt).size ∧ BytesOk buf1 ∧
      (∀ j, freeB buf1 j = ((ownedOfEntry d.raw (entryAt (unitAt d.raw B) k 39)).contains j || freeB (effBuf d bm cnt) j)) ∧
      Next d d3 bm cnt (delImage raw1 B (k + 1)) (clearBit (clearBit buf1 B) 2) := by
  have hex := c.chain.exists
  have hBsz : B < d.raw.units.size := hex B hB
  have hBnb : B ∉ bmRange bm cnt := c.nb B hB
  obtain ⟨rest, hch⟩ := chain_head c.chain
  have h2ch : 2 ∈ ch := by rw [hch]; exact List.mem_cons_self
  -- 1 the search
  have hfind : findFile path d = (.ok { block := B, idx := k + 1 }, d) := by
    rw [findFile_root' c path nm hnodes hnm]
    unfold rootSearch
    simp only [hv, Bool.not_true, Bool.false_eq_true, ↓reduceIte, hx]
    rfl
  -- 2 the entry
  have hread : readEntry { block := B, idx := k + 1 } d = (.ok (entryAt (unitAt d.raw B) k 39), d) := by
    unfold readEntry
    simp only [bind_def]
    rw [bind_ok _ _ d d _ (getDirectory_st c.st B (unitAt d.raw B) hBnb (units_get_unitAt _ _ hBsz))]
    simp only [getEntry_slot c.kinds B k hB hk13 hkey]
    rfl
  -- 4 the blocks
  obtain ⟨d1, raw1, buf1, hd1, n1, hsz1, hoth1, hswap1, hs1, hok1, hf1⟩ :=
    deallocFile_next c.st (entryAt (unitAt d.raw B) k 39) hst hnd (fun y hy => by
      obtain ⟨a, b, e, f, _⟩ := hall y hy; exact ⟨a, b, e, f⟩) hok
  have hnotch : ∀ b ∈ ch, b ∉ ownedOfEntry d.raw (entryAt (unitAt d.raw B) k 39) :=
    fun b hb hm => (hall b hm).2.2.2.2 hb
  have hu1 : ∀ b ∈ ch, unitAt raw1 b = unitAt d.raw b := by
    intro b hb; unfold unitAt; rw [hoth1 b (hnotch b hb)]
  -- 5–7 the slot
  have hB1 : d1.raw.units[B]? = some (unitAt d.raw B) := by
    rw [n1.raw, hoth1 B (hnotch B hB)]; exact units_get_unitAt _ _ hBsz
  have hoff : Dir.entryOff (k + 1) = 4 + k * 39 := by rw [entryOff_eq' _ (by omega)]; simp
  have hhdr2 : B = 2 → le16 (quantize ((splice ((unitAt d.raw B).take dirLen) (Dir.entryOff (k + 1)) [0]).take blockSize)) 39 = bm := by
    intro hb2
    have hk1 := hkey hb2
    show le16 (patched (unitAt d.raw B) (Dir.entryOff (k + 1)) [0]) 39 = bm
    rw [hoff, le16_patched_out _ _ _ 39 (hlen B hB) (by simp; omega) (Or.inl (by omega)) (by omega)]
    obtain ⟨kb, hkb, hbm⟩ := c.st.hdr
    rw [hb2, unitAt_of_get hkb]; exact hbm
  obtain ⟨d2, hd2, n2⟩ := writeBlock_next n1.st (splice ((unitAt d.raw B).take dirLen) (Dir.entryOff (k + 1)) [0]) B hBnb
    (by rw [n1.raw, hsz1]; exact hBsz) (by rw [n1.eff, hs1]; exact hcovch B hB) hhdr2
  -- the image after the first directory write
  have hr2 : d2.raw = setUnit raw1 B (patched (unitAt raw1 B) (Dir.entryOff (k + 1)) [0]) := by
    rw [n2.raw, n1.raw, hu1 B hB]; rfl
  have hsz2 : d2.raw.units.size = d.raw.units.size := by rw [hr2, setUnit_size, hsz1]
  -- units of the chain in `d2.raw`
  have hu2 : ∀ b ∈ ch, unitAt d2.raw b = if b = B then patched (unitAt d.raw B) (Dir.entryOff (k + 1)) [0] else unitAt d.raw b := by
    intro b hb
    rw [hr2]
    by_cases hbB : b = B
    · subst hbB
      rw [if_pos rfl]
      unfold unitAt
      rw [setUnit_self _ _ _ (by rw [hsz1]; exact hBsz)]
      simp only [Option.getD_some]
      have := hu1 b hb
      unfold unitAt at this
      rw [this]
    · rw [if_neg hbB, unitAt_setUnit_other _ _ _ _ (fun e => hbB e.symm), hu1 b hb]
  have hlinks2 : ∀ b ∈ ch, le16 (unitAt d2.raw b) 0 = le16 (unitAt d.raw b) 0 := by
    intro b hb
    rw [hu2 b hb]
    split
    · next hbB => subst hbB; rw [hoff, le16_patched_out _ _ _ 0 (hlen b hb) (by simp; omega) (Or.inl (by omega)) (by omega)]
    · rfl
  -- 8 the key directory
  have hne : ch ≠ [] := by rw [hch]; simp
  obtain ⟨iB, hiB, hgetB⟩ := mem_index hB
  have hkd := keyDirLoop_chain d2 bm cnt n2.st ch hne (prevOk_congr d.raw d2.raw ch 0 hlinks2 c.prev)
    (fun x hx => by rw [hsz2]; exact hex x hx) c.chain.ne_zero c.nb iB 100 hiB (by have := c.len; omega)
  have hhead : ch.head hne = 2 := by simp [hch]
  rw [hgetB, hhead] at hkd
  have hk2 : kindOf 2 (unitAt d2.raw 2) = DKind.volKey := by unfold kindOf; simp [volKeyBlock]
  -- 9 the count
  have hlen2 : (unitAt d2.raw 2).length = 512 := by
    rw [hu2 2 h2ch]; split
    · exact patched_length _ _ _
    · exact hlen 2 h2ch
  have hcnt2 : le16 ((unitAt d2.raw 2).take dirLen) 37 = le16 (unitAt d.raw 2) 37 := by
    rw [le16_take _ dirLen 37 (by unfold dirLen; omega), hu2 2 h2ch]
    split
    · next hb2 =>
      have hk1 := hkey hb2.symm
      rw [← hb2, hoff, le16_patched_out _ _ _ 37 (hlen 2 h2ch) (by simp; omega) (Or.inl (by omega)) (by omega)]
    · rfl
  have hdec := decFileCount_ok DKind.volKey ((unitAt d2.raw 2).take dirLen) (by decide) (by
    show le16 ((unitAt d2.raw 2).take dirLen) 37 ≠ 0
    rw [hcnt2]; exact hcount)
  -- 10 the second write
  have h2nb : (2 : Nat) ∉ bmRange bm cnt := c.two_nb
  have h2sz : 2 < d.raw.units.size := c.two_lt
  have hhdr3 : (2 : Nat) = 2 → le16 (quantize ((splice ((unitAt d2.raw 2).take dirLen) (4 + 33)
      (u16le (le16 ((unitAt d2.raw 2).take dirLen) (4 + 33) - 1))).take blockSize)) 39 = bm := by
    intro _
    show le16 (patched (unitAt d2.raw 2) 37 (u16le _)) 39 = bm
    rw [le16_patched_out _ _ _ 39 hlen2 (by show 37 + 2 ≤ 511; omega) (Or.inr (by show 37 + 2 ≤ 39; omega)) (by omega)]
    obtain ⟨kb, hkb, hbm⟩ := n2.st.hdr
    rw [unitAt_of_get hkb]; exact hbm
  obtain ⟨d3, hd3, n3⟩ := writeBlock_next n2.st (splice ((unitAt d2.raw 2).take dirLen) (4 + 33)
      (u16le (le16 ((unitAt d2.raw 2).take dirLen) (4 + 33) - 1))) 2 h2nb
    (by rw [hsz2]; exact h2sz) (by rw [n2.eff, size_clearBit, n1.eff, hs1]; exact hcovch 2 h2ch) hhdr3
  refine ⟨d3, raw1, buf1, ?_, hsz1, hoth1, hswap1, hs1, hok1, hf1, ?_⟩
  · unfold delete
    simp only [bind_def]
    rw [bind_ok _ _ d d _ (attempt_ok _ d d _ hfind)]
    try simp only []
    rw [bind_ok _ _ d d _ hread]
    try simp only []
    rw [if_neg hacc, bind_ok _ _ d d1 _ hd1]
    try simp only []
    rw [bind_ok _ _ d1 d1 _ (getDirectory_st n1.st B (unitAt d.raw B) hBnb hB1)]
    have hdel : Dir.deleteEntry { kind := kindOf B (unitAt d.raw B), bytes := (unitAt d.raw B).take dirLen } (k + 1) =
        some { kind := kindOf B (unitAt d.raw B), bytes := splice ((unitAt d.raw B).take dirLen) (Dir.entryOff (k + 1)) [0] } := by
      unfold Dir.deleteEntry; rw [if_pos (idxOk_slot c.kinds B k hB hk13 hkey)]
    rw [hdel, bind_ok _ _ d1 d1 _ (ofOption_some _ d1)]
    try simp only []
    rw [bind_ok _ _ d1 d2 _ hd2]
    unfold getKeyDirectory
    rw [bind_ok _ _ d2 d2 _ hkd]
    simp only [hk2]
    rw [hdec, bind_ok _ _ d2 d2 _ (ofOption_some _ d2)]
    try simp only []
    exact hd3
  · have n := (n1.trans n2).trans n3
    rw [n2.eff, n1.eff] at n
    have hr3 : setUnit d2.raw 2 (quantize ((splice ((unitAt d2.raw 2).take dirLen) (4 + 33)
        (u16le (le16 ((unitAt d2.raw 2).take dirLen) (4 + 33) - 1))).take blockSize)) = delImage raw1 B (k + 1) := by
      unfold delImage
      simp only []
      rw [← hr2]
      rfl
    rw [hr3] at n
    exact n

end A2Verif.FsProdos
