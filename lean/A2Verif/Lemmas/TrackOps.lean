import A2Verif.Lemmas.TrackFmt
import A2Verif.Lemmas.NibbleRT
/-!
`read_sector` / `write_sector` on a formatted track, in any state the previous operation left it in.
-/
namespace A2Verif.Model.Track
open Head A2Verif.Model.Nibble

/-- A formatted track between two operations.  The head is somewhere in the data field or the gap of
sector `cur` (at a cell boundary): `fpart` are the cells of that field+gap already behind the head,
`pre` those still ahead; then come the other sectors in track order, and finally (closing the circle)
the address field of `cur`.  Sector ids are pairwise different. -/
def Formatted (f : Fmt) (vol trk : Nat) (t : Trk) (cur : Sec) (others : List Sec) : Prop :=
  ∃ pre fpart : List Cell,
    fpart ++ pre = fieldCells f cur.nibs ++ syncCells f cur.gap ∧ Quiet f pre ∧
    t.bits = stream (pre ++ secsCells f vol trk others ++ addrCells f vol trk cur.id ++ fpart) ∧
    (∀ s ∈ cur :: others, GoodSec f s) ∧ ((cur :: others).map (·.id)).Nodup ∧ others.length < 32

/-- the head is just behind the address epilog of `tgt`; `rest` are the other sectors in track order -/
def AfterFind (f : Fmt) (vol trk : Nat) (t : Trk) (tgt : Sec) (rest : List Sec) : Prop :=
  t.bits = stream (fieldCells f tgt.nibs ++ syncCells f tgt.gap ++ secsCells f vol trk rest ++ addrCells f vol trk tgt.id)

theorem secsCells_append (f : Fmt) (vol trk : Nat) (a b : List Sec) :
    secsCells f vol trk (a ++ b) = secsCells f vol trk a ++ secsCells f vol trk b := by
  simp [secsCells]

theorem pre_len (f : Fmt) (cur : Sec) (pre fpart : List Cell)
    (h : fpart ++ pre = fieldCells f cur.nibs ++ syncCells f cur.gap) (hg : GoodSec f cur) :
    pre.length + 3 ≤ f.maxTries := by
  have := congrArg List.length h
  simp only [List.length_append] at this
  have hb := hg.2.2.2
  simp only [List.length_append] at hb
  omega

/-- **The sector search on a formatted track** finds any sector present on the track, from wherever
the previous operation left the head (also the sector the head is in: once around the track). -/
theorem findSector_formatted (f : Fmt) (vol trk : Nat) (hv : vol < 256) (ht : trk < 256) (t : Trk) (cur : Sec)
    (others : List Sec) (hF : Formatted f vol trk t cur others) (tgt : Sec) (rest : List Sec)
    (hcase : (∃ l1 l2, others = l1 ++ tgt :: l2 ∧ rest = l2 ++ cur :: l1) ∨ (tgt = cur ∧ rest = others)) :
    ∃ t1 : Trk, findSector f trk tgt.id t = (.ok (), t1) ∧ AfterFind f vol trk t1 tgt rest := by
  obtain ⟨pre, fpart, hsplit, hq, hbits, hgood, hnd, hlen⟩ := hF
  have hpl := pre_len f cur pre fpart hsplit (hgood cur (by simp))
  rcases hcase with ⟨l1, l2, ho, hr⟩ | ⟨hc, hr⟩
  · subst ho; subst hr
    have hid : tgt.id < 256 := (hgood tgt (by simp)).1
    have hne : ∀ s ∈ l1, GoodSec f s ∧ s.id ≠ tgt.id := by
      intro s hs
      refine ⟨hgood s (by simp [hs]), ?_⟩
      intro he
      simp only [List.map_cons, List.map_append, List.nodup_cons, List.nodup_append] at hnd
      exact hnd.2.2.2 s.id (List.mem_map.2 ⟨s, hs, rfl⟩) tgt.id (by simp) he
    obtain ⟨t1, h1, h2⟩ := findSectorLoop_skip f vol trk tgt.id hv ht hid l1 32 t pre
      (fieldCells f tgt.nibs ++ syncCells f tgt.gap ++ secsCells f vol trk l2 ++ addrCells f vol trk cur.id ++ fpart)
      hq hpl hne (by simp at hlen; omega)
      (by rw [hbits, secsCells_append, secsCells_cons]; simp [secCells])
    refine ⟨t1, h1, ?_⟩
    unfold AfterFind
    rw [h2, secsCells_append, secsCells_cons]
    have : secCells f vol trk cur = addrCells f vol trk cur.id ++ (fpart ++ pre) := by
      rw [hsplit]; simp [secCells]
    rw [this]; simp
  · subst hc; rw [hr]
    have hid : tgt.id < 256 := (hgood tgt (by simp)).1
    have hne : ∀ s ∈ others, GoodSec f s ∧ s.id ≠ tgt.id := by
      intro s hs
      refine ⟨hgood s (by simp [hs]), ?_⟩
      intro he
      simp only [List.map_cons, List.nodup_cons] at hnd
      exact hnd.1 (by rw [← he]; exact List.mem_map.2 ⟨s, hs, rfl⟩)
    obtain ⟨t1, h1, h2⟩ := findSectorLoop_skip f vol trk tgt.id hv ht hid others 32 t pre fpart
      hq hpl hne hlen (by rw [hbits])
    refine ⟨t1, h1, ?_⟩
    unfold AfterFind
    rw [h2, ← hsplit]


/-- what the decoder makes of the nibbles of a data field -/
def decRes (f : Fmt) (nibs : List Nat) : Except TErr (List Nat) :=
  match (if f.six then dec62 nibs else dec53 nibs) with
  | .ok d => .ok d
  | .error .badChecksum => .error .badChecksum
  | .error _ => .error .invalidByte

theorem quiet_epi_gap (f : Fmt) (g : Nat) : Quiet f (plain epi ++ syncCells f g) := by
  constructor
  · intro c hc
    rcases List.mem_append.1 hc with h | h
    · exact plain_valid epi (by intro b hb; simp [epi] at hb; rcases hb with h | h | h <;> subst h <;> decide) c h
    · exact syncCells_valid f g c h
  · rw [List.map_append, plain_bytes]
    apply runM_quiet
    intro v hv
    rcases List.mem_append.1 hv with h | h
    · simp [epi] at h; rcases h with h | h | h <;> subst h <;> decide
    · exact syncCells_bytes f g v h

theorem quiet_gap (f : Fmt) (g : Nat) : Quiet f (syncCells f g) :=
  ⟨syncCells_valid f g, runM_quiet _ _ _ (syncCells_bytes f g)⟩

theorem rotate_case (cur tgt : Sec) (others rest : List Sec)
    (hcase : (∃ l1 l2, others = l1 ++ tgt :: l2 ∧ rest = l2 ++ cur :: l1) ∨ (tgt = cur ∧ rest = others)) :
    List.Perm (cur :: others) (tgt :: rest) := by
  rcases hcase with ⟨l1, l2, ho, hr⟩ | ⟨hc, hr⟩
  · subst ho; subst hr
    exact List.perm_append_comm (l₁ := cur :: l1) (l₂ := tgt :: l2)
  · subst hc; rw [hr]

theorem formatted_of_parts (f : Fmt) (vol trk : Nat) (t' : Trk) (cur tgt tgt' : Sec) (others rest : List Sec)
    (hperm : List.Perm (cur :: others) (tgt :: rest)) (hid : tgt'.id = tgt.id) (hg' : GoodSec f tgt')
    (hgood : ∀ s ∈ cur :: others, GoodSec f s) (hnd : ((cur :: others).map (·.id)).Nodup) (hlen : others.length < 32)
    (pre fpart : List Cell) (hsplit : fpart ++ pre = fieldCells f tgt'.nibs ++ syncCells f tgt'.gap) (hq : Quiet f pre)
    (hb : t'.bits = stream (pre ++ secsCells f vol trk rest ++ addrCells f vol trk tgt'.id ++ fpart)) :
    Formatted f vol trk t' tgt' rest := by
  refine ⟨pre, fpart, hsplit, hq, hb, ?_, ?_, ?_⟩
  · intro s hs
    simp only [List.mem_cons] at hs
    rcases hs with h | h
    · subst h; exact hg'
    · exact hgood s ((hperm.mem_iff).2 (by simp [h]))
  · have h1 : ((tgt :: rest).map (·.id)).Nodup := ((hperm.map _).nodup_iff).1 hnd
    simpa [hid] using h1
  · have := hperm.length_eq
    simp only [List.length_cons] at this
    omega

/-- **Reading a sector of a formatted track**, whatever operation came before: the result is the
decoding of the nibbles that sector holds; no cell of the track changes, and the track is again in a
`Formatted` state (now with the head in the sector just read). -/
theorem readSector_formatted (f : Fmt) (vol trk : Nat) (hv : vol < 256) (ht : trk < 256) (t : Trk) (cur : Sec)
    (others : List Sec) (hF : Formatted f vol trk t cur others) (tgt : Sec) (rest : List Sec)
    (hcase : (∃ l1 l2, others = l1 ++ tgt :: l2 ∧ rest = l2 ++ cur :: l1) ∨ (tgt = cur ∧ rest = others)) :
    ∃ t' : Trk, readSector f trk tgt.id t = (decRes f tgt.nibs, t') ∧ Formatted f vol trk t' tgt rest := by
  obtain ⟨t1, h1, h2⟩ := findSector_formatted f vol trk hv ht t cur others hF tgt rest hcase
  obtain ⟨_, _, _, _, _, hgood, hnd, hlen⟩ := hF
  have hperm := rotate_case cur tgt others rest hcase
  have hgt : GoodSec f tgt := hgood tgt ((hperm.mem_iff).2 (by simp))
  have hm : 13 ≤ f.maxTries := by
    have := hgt.2.2.2
    simp only [List.length_append, fieldCells, List.length_cons, plain, List.length_map, syncCells,
      List.length_replicate] at this
    omega
  obtain ⟨d1, d2⟩ := decodeSector_cells f t1 tgt.nibs
    (syncCells f tgt.gap ++ secsCells f vol trk rest ++ addrCells f vol trk tgt.id) hgt.2.1 hgt.2.2.1 hm
    (by rw [h2]; simp)
  refine ⟨(decodeSector f t1).2, ?_, ?_⟩
  · simp only [readSector, h1]
    exact Prod.ext d1 rfl
  · apply formatted_of_parts f vol trk _ cur tgt tgt others rest hperm rfl hgt hgood hnd hlen
      (plain epi ++ syncCells f tgt.gap) (syncCells f 10 ++ [(f.z, 0xd5), (0, 0xaa), (0, 0xad)] ++ plain tgt.nibs)
      (by simp [fieldCells, plain]) (quiet_epi_gap f tgt.gap)
    rw [d2]; simp

/-- **Writing a sector of a formatted track** (6&2), whatever operation came before: it succeeds, the
cells of that sector's data field now hold the encoding of the data, every other cell of the track —
all other sectors and all address fields — is as before, and the track is again `Formatted`. -/
theorem writeSector_formatted (f : Fmt) (h6 : f.six = true) (hs : 8 ≤ f.syncBits) (vol trk : Nat) (hv : vol < 256)
    (ht : trk < 256) (t : Trk) (cur : Sec) (others : List Sec) (hF : Formatted f vol trk t cur others) (tgt : Sec)
    (rest : List Sec)
    (hcase : (∃ l1 l2, others = l1 ++ tgt :: l2 ∧ rest = l2 ++ cur :: l1) ∨ (tgt = cur ∧ rest = others))
    (dat : List Nat) (hd : dat.length = 256) :
    ∃ t' : Trk, writeSector f dat trk tgt.id t = (.ok (), t') ∧
      Formatted f vol trk t' { tgt with nibs := enc62 dat } rest := by
  obtain ⟨t1, h1, h2⟩ := findSector_formatted f vol trk hv ht t cur others hF tgt rest hcase
  obtain ⟨_, _, _, _, _, hgood, hnd, hlen⟩ := hF
  have hperm := rotate_case cur tgt others rest hcase
  have hgt : GoodSec f tgt := hgood tgt ((hperm.mem_iff).2 (by simp))
  have hl343 : (enc62 dat).length = 343 := by simp [enc62, pre62, length_chain]
  have hdn : f.dataNibs = 343 := by simp [Fmt.dataNibs, h6]
  have henc : (if f.six = true then enc62 dat else enc53 dat) = enc62 dat := by simp [h6]
  have e := encodeSector_cells f hs t1 tgt.nibs dat
    (syncCells f tgt.gap ++ secsCells f vol trk rest ++ addrCells f vol trk tgt.id)
    (by rw [henc, hl343, hgt.2.2.1, hdn]) (by rw [h2]; simp)
  rw [henc] at e
  refine ⟨encodeSector f dat t1, by simp only [writeSector, h1], ?_⟩
  have hg' : GoodSec f { tgt with nibs := enc62 dat } := by
    refine ⟨hgt.1, ?_, by simp [hl343, hdn], ?_⟩
    · intro v hv'
      obtain ⟨x, _, rfl⟩ := List.mem_map.1 hv'
      have hx : x &&& 0x3f < 64 := Nat.lt_succ_of_le Nat.and_le_right
      obtain ⟨a, b, _, d, _⟩ := A2Verif.Model.Nibble.tbl62_range ⟨x &&& 0x3f, hx⟩
      simp only at a b d
      exact ⟨by unfold encByte62; omega, b, d⟩
    · have := hgt.2.2.2
      simp only [List.length_append, fieldCells, List.length_cons, plain, List.length_map, hl343] at this ⊢
      rw [hgt.2.2.1, hdn] at this
      exact this
  apply formatted_of_parts f vol trk _ cur tgt { tgt with nibs := enc62 dat } others rest hperm rfl hg' hgood hnd hlen
    (syncCells f tgt.gap) (fieldCells f (enc62 dat)) rfl (quiet_gap f tgt.gap)
  rw [e]


theorem enc62_clean (d : List Nat) : ∀ v ∈ enc62 d, CleanNib v := by
  intro v hv'
  obtain ⟨x, _, rfl⟩ := List.mem_map.1 hv'
  have hx : x &&& 0x3f < 64 := Nat.lt_succ_of_le Nat.and_le_right
  obtain ⟨a, b, _, d, _⟩ := A2Verif.Model.Nibble.tbl62_range ⟨x &&& 0x3f, hx⟩
  simp only at a b d
  exact ⟨by unfold encByte62; omega, b, d⟩

/-- a sector as the formatter / `encode_sector` leave it is a good sector (6&2, buffer of ≥ 500 bytes) -/
theorem goodSec_enc62 (f : Fmt) (h6 : f.six = true) (id gap : Nat) (d : List Nat) (hid : id < 256)
    (hm : 362 + gap + 3 ≤ f.maxTries) : GoodSec f ⟨id, enc62 d, gap⟩ := by
  have hl343 : (enc62 d).length = 343 := by simp [enc62, pre62, length_chain]
  refine ⟨hid, enc62_clean d, by simp [hl343, Fmt.dataNibs, h6], ?_⟩
  have hsl : (syncCells f gap).length = gap := by cases gap <;> simp [syncCells]
  simp only [List.length_append, fieldCells, List.length_cons, plain, List.length_map, hl343, hsl]
  simp [syncCells, epi]
  omega

end A2Verif.Model.Track
