import A2Verif.Lemmas.FsDosModify
/-!
# `modify` on a working state that satisfies the invariant

Evaluation of `findEntry` and `modifyM` under `WInv`: either the operation is refused and the state is
untouched, or exactly one catalog sector is rewritten with `modSector`.  Core Lean only.
-/
set_option linter.unusedSimpArgs false
namespace A2Verif.Fs.Dos3x
open A2Verif.FsDos A2Verif.Read.Dos3x

theorem findEntry_ok {w : W} {sb : List Nat} {L : Lay} (hi : WInv w sb L) (fname : Bytes) :
    findEntry fname w = (.ok (findIn w.img w.c fname L.cat), w) := by
  unfold findEntry
  simp only [M.bind_apply, M.getV_apply]
  have h1 : Vtoc.track1 w.v = (vtocOf w.img w.c).getD 1 0 := (getD_vtocOf hi.ok (by omega)).symm
  have h2 : Vtoc.sector1 w.v = (vtocOf w.img w.c).getD 2 0 := (getD_vtocOf hi.ok (by omega)).symm
  rw [h1, h2]
  exact findLoop_ok hi.ok fname L.cat maxDirectoryReps _ _ (zeros 256) hi.desc.cat hi.catNe
    (Nat.le_of_lt hi.desc.catLen) (by unfold zeros; exact List.length_replicate)

/-! ## file names -/

theorem upperByte_le (c : Nat) : upperByte c ≤ c := by unfold upperByte; split <;> omega

theorem nameBytes_bytes (s : Bytes) : ∀ x ∈ nameBytes s, 128 ≤ x ∧ x < 256 := by
  intro x hx
  unfold nameBytes at hx
  obtain ⟨c, hc, rfl⟩ := List.mem_map.1 hx
  have hc' : c < 128 := by simpa using (List.mem_filter.1 hc).2
  have := upperByte_le c
  omega

theorem nameBytes_length_le (s : Bytes) : (nameBytes s).length ≤ s.length := by
  unfold nameBytes
  rw [List.length_map]
  exact List.length_filter_le _ _

theorem stringToFileName_ok {s : Bytes} (h : isNameValid s = true) :
    ∃ fname, stringToFileName s = .ok fname ∧ fname.length = 30 ∧ ∀ x ∈ fname, 128 ≤ x ∧ x < 256 := by
  unfold isNameValid at h
  simp only [Bool.and_eq_true, decide_eq_true_eq] at h
  have hl := nameBytes_length_le s
  unfold stringToFileName
  simp only
  rw [if_neg (by omega)]
  refine ⟨_, rfl, by simp; omega, ?_⟩
  intro x hx
  rcases List.mem_append.1 hx with h1 | h1
  · exact nameBytes_bytes s x h1
  · rw [List.mem_replicate] at h1; omega

/-- the path under which the reader lists a file stored as `name` -/
def pathOf (name : Bytes) : Bytes :=
  match stringToFileName name with
  | .ok fname => pathOfName fname
  | .error _ => []

/-! ## `modifyM` -/

/-- the type byte `modify` computes -/
def newType (ty0 : Nat) (lock : Option Bool) (ftype : Option (Option Nat)) : R Nat :=
  match ftype with
  | none => .ok (match lock with | some true => ty0 ||| 0x80 | some false => ty0 &&& 0x7f | none => ty0)
  | some none => .error .fileTypeMismatch
  | some (some t) => .ok t

/-- the new name `modify` computes -/
def newNameR (old : Bytes) (newName : Option Bytes) : R Bytes :=
  match newName with
  | some nn => stringToFileName nn
  | none => .ok old

theorem modifyM_eval {w : W} {sb : List Nat} {L : Lay} (hi : WInv w sb L) {name fname : Bytes}
    (hfn : stringToFileName name = .ok fname) (lock : Option Bool) (newName : Option Bytes) (ftype : Option (Option Nat)) :
    modifyM name lock newName ftype w =
      match findIn w.img w.c fname L.cat with
      | none => (.error .fileNotFound, w)
      | some (dt, ds, dir, k) =>
        if Dir.fileType dir k > 127 ∧ newName.isSome = true then (.error .fileLocked, w)
        else match newNameR (Dir.name dir k) newName with
          | .error e => (.error e, w)
          | .ok nm =>
            match newType (Dir.fileType dir k) lock ftype with
            | .error e => (.error e, w)
            | .ok ty2 => writeSectorM (modSector dir k ty2 nm) dt ds w := by
  unfold modifyM
  simp only [M.bind_apply, M.lift_apply, hfn, findEntry_ok hi]
  cases hf : findIn w.img w.c fname L.cat with
  | none => rfl
  | some res =>
    obtain ⟨dt, ds, dir, k⟩ := res
    simp only
    by_cases hlk : Dir.fileType dir k > 127 ∧ newName.isSome = true
    · simp only [hlk, and_self, if_true, M.bind_apply, M.fail_apply]
    · simp only [hlk, if_false, M.bind_apply]
      cases newName with
      | none =>
        simp only [newNameR, M.pure_apply]
        cases ftype with
        | none => simp only [newType]; rfl
        | some o => cases o <;> simp only [newType] <;> rfl
      | some nn =>
        simp only [newNameR, M.lift_apply]
        cases hnn : stringToFileName nn with
        | error e => rfl
        | ok nm =>
          simp only
          cases ftype with
          | none => simp only [newType]; rfl
          | some o => cases o <;> simp only [newType] <;> rfl


theorem or128_ge (a : Nat) : 128 ≤ a ||| 0x80 := Nat.right_le_or
theorem and127_lt (a : Nat) : ¬ (a &&& 0x7f ≥ 128) := by have : a &&& 0x7f ≤ 127 := Nat.and_le_right; omega
theorem or128_mod (a : Nat) : (a ||| 0x80) % 128 = a % 128 := by
  have := Nat.or_mod_two_pow (a := a) (b := 128) (n := 7)
  simpa using this
theorem and127_mod (a : Nat) : (a &&& 0x7f) % 128 = a % 128 := by
  have h1 : (a &&& 127) = a % 128 := Nat.and_two_pow_sub_one_eq_mod a 7
  show (a &&& 127) % 128 = a % 128
  rw [h1, Nat.mod_mod]

/-- the successful case of `modify`: one sector write, invariant kept, one record replaced -/
theorem modify_found {w : W} {sb : List Nat} {L : Lay} (hi : WInv w sb L) {fname : Bytes} {dt ds k : Nat} {dir : Bytes}
    (hf : findIn w.img w.c fname L.cat = some (dt, ds, dir, k)) {ty2 : Nat} {nm : Bytes}
    (hn : nm.length = 30) (hnb : ∀ x ∈ nm, 128 ≤ x ∧ x < 256)
    (hfresh : nm = fname ∨ pathOfName nm ∉ (volOf w.img w.c sb L).paths) :
    ∃ w', writeSectorM (modSector dir k ty2 nm) dt ds w = (.ok (), w') ∧ WInv w' sb L ∧ w'.c = w.c ∧
      ∃ F1 F2 f g, (volOf w.img w.c sb L).files = F1 ++ f :: F2 ∧
        volOf w'.img w'.c sb L = replaced (volOf w.img w.c sb L) F1 F2 g ∧
        f.path = pathOfName fname ∧ g.path = pathOfName nm ∧
        f.ftype = Dir.fileType dir k % 128 ∧ f.locked = decide (Dir.fileType dir k ≥ 128) ∧
        g.ftype = ty2 % 128 ∧ g.locked = decide (ty2 ≥ 128) ∧
        g.chunks = f.chunks ∧ g.eof = f.eof ∧ g.owned = f.owned ∧ g.aux = f.aux ∧ g.isDir = f.isDir ∧ f.isDir = false := by
  obtain ⟨u, hu, hdt, hds, hdir, hm⟩ := findIn_some hf
  obtain ⟨hk, hname, hlive⟩ := matchEntry_some hm
  subst hdir
  obtain ⟨t', s', ht', hs', hue, hult⟩ := catChain_mem hi.desc.cat u hu
  have hdm := div_mod_unit (t := t') hs'
  rw [← hue] at hdm
  obtain ⟨hne17, _⟩ := cat_unit_facts hi.wf hu
  have hnev : ¬ (t' = vtocTrack ∧ s' = 0) := fun e => hne17 (by rw [hue]; exact (unit_idx hs').2 e)
  rw [W.img_size] at hult
  have hbl : (sec w.img u).length = 256 := sec_img_length hi.ok hult
  have hml : (modSector (sec w.img u) k ty2 nm).length = 256 := modSector_length hbl hk hn
  have hused : bitFree w.v w.c t' s' = false := cat_used hi ht' hs' (hue ▸ hu)
  have hwr := writeSectorM_used hi.ok ht' hs' hnev hml hused
  have hfr : pathOfName nm = pathOfName (slice (entryAt (sec w.img u) k) 3 30) ∨ pathOfName nm ∉ (volOf w.img w.c sb L).paths := by
    rcases hfresh with h | h
    · left; rw [h, hname]
    · right; exact h
  obtain ⟨hinv, F1, F2, t, hfiles, hvol⟩ := modify_entry (ty2 := ty2) hi hu hk hlive hn hnb hfr
  rw [hdm.1, hdm.2] at hinv hvol
  refine ⟨_, by rw [hdt, hds, hdm.1, hdm.2]; exact hwr, hinv, rfl, F1, F2, _, _, hfiles, hvol, ?_, ?_, ?_, ?_, ?_, ?_, rfl, rfl, rfl, ?_, rfl, rfl⟩
  · show pathOfName (slice (entryAt (sec w.img u) k) 3 30) = _
    rw [hname]
  · show pathOfName (slice (entryAt (modSector (sec w.img u) k ty2 nm) k) 3 30) = _
    rw [modSector_entry_name hbl hk hn]
  · show (entryAt (sec w.img u) k).getD 2 0 % 128 = _
    rw [dir_fileType_eq]
  · show decide ((entryAt (sec w.img u) k).getD 2 0 ≥ 128) = _
    rw [dir_fileType_eq]
  · show (entryAt (modSector (sec w.img u) k ty2 nm) k).getD 2 0 % 128 = _
    rw [modSector_entry_ty hbl hk hn]
  · show decide ((entryAt (modSector (sec w.img u) k ty2 nm) k).getD 2 0 ≥ 128) = _
    rw [modSector_entry_ty hbl hk hn]
  · show le16 (entryAt (modSector (sec w.img u) k ty2 nm) k) 33 = le16 (entryAt (sec w.img u) k) 33
    exact modSector_entry_aux hbl hk hn

/-- what a found entry tells about its name -/
theorem found_name {w : W} {sb : List Nat} {L : Lay} (hi : WInv w sb L) {fname : Bytes} {dt ds k : Nat} {dir : Bytes}
    (hf : findIn w.img w.c fname L.cat = some (dt, ds, dir, k)) :
    Dir.name dir k = fname ∧ fname.length = 30 ∧ ∀ x ∈ fname, 128 ≤ x ∧ x < 256 := by
  obtain ⟨u, hu, hdt, hds, hdir, hm⟩ := findIn_some hf
  obtain ⟨hk, hname, hlive⟩ := matchEntry_some hm
  subst hdir
  obtain ⟨t', s', ht', hs', hue, hult⟩ := catChain_mem hi.desc.cat u hu
  rw [W.img_size] at hult
  have hbl : (sec w.img u).length = 256 := sec_img_length hi.ok hult
  refine ⟨by rw [dir_name_eq, hname], ?_, ?_⟩
  · rw [← hname]; exact slice_length (by rw [entry_length hbl hk]; omega)
  · rw [← hname]
    exact hi.names _ (mem_liveOf.2 ⟨u, hu, k, hk, rfl, hlive⟩)

section ops
variable {P : FsParams} {w : W} {sb : List Nat} {L : Lay} (hi : WInv w sb L) {name fname : Bytes}
  (hfn : stringToFileName name = .ok fname)
include hi hfn

/-- `lock` / `unlock` refine the specification -/
theorem lockM_refines (b : Bool) :
    ∃ res w', modifyM name (some b) none none w = (res, w') ∧ WInv w' sb L ∧ w'.c = w.c ∧
      StepL P (volOf w.img w.c sb L) (if b then .lock (pathOfName fname) else .unlock (pathOfName fname))
        (isOk res) (volOf w'.img w.c sb L) True := by
  rw [modifyM_eval hi hfn]
  cases hf : findIn w.img w.c fname L.cat with
  | none => exact ⟨_, _, rfl, hi, rfl, StepL.refused_same hi.wf _ _⟩
  | some res =>
    obtain ⟨dt, ds, dir, k⟩ := res
    obtain ⟨hnm, hfl, hfb⟩ := found_name hi hf
    simp only [Option.isSome_none, Bool.false_eq_true, and_false, if_false, newNameR, newType, hnm]
    cases b with
    | true =>
      simp only [if_true]
      obtain ⟨w', hw, hinv, hcc, F1, F2, f, g, hfiles, hvol, hfp, hgp, hft, hflk, hgt, hglk, hc, he, ho, ha, hd, _⟩ :=
        modify_found (ty2 := Dir.fileType dir k ||| 0x80) hi hf hfl hfb (Or.inl rfl)
      refine ⟨_, _, hw, hinv, hcc, ?_⟩
      rw [hcc] at hvol
      rw [hvol, ← hfp]
      exact ⟨stepOk_lock_replaced hfiles hi.wf (by rw [hgp, hfp]) (by rw [hglk]; simpa using or128_ge _) hc he ho
        (by rw [hgt, hft]; exact or128_mod _) ha hd, fun _ => noLeak_replaced hfiles ho⟩
    | false =>
      simp only [Bool.false_eq_true, if_false]
      obtain ⟨w', hw, hinv, hcc, F1, F2, f, g, hfiles, hvol, hfp, hgp, hft, hflk, hgt, hglk, hc, he, ho, ha, hd, _⟩ :=
        modify_found (ty2 := Dir.fileType dir k &&& 0x7f) hi hf hfl hfb (Or.inl rfl)
      refine ⟨_, _, hw, hinv, hcc, ?_⟩
      rw [hcc] at hvol
      rw [hvol, ← hfp]
      exact ⟨stepOk_unlock_replaced hfiles hi.wf (by rw [hgp, hfp]) (by rw [hglk]; simpa using and127_lt _) hc he ho
        (by rw [hgt, hft]; exact and127_mod _) ha hd, fun _ => noLeak_replaced hfiles ho⟩

/-- `retype` refines the specification (`ty` = what `FileType::from_str` made of the requested type) -/
theorem retypeM_refines (ty : Option Nat) :
    ∃ res w', modifyM name none none (some ty) w = (res, w') ∧ WInv w' sb L ∧ w'.c = w.c ∧
      StepL P (volOf w.img w.c sb L) (.retype (pathOfName fname))
        (isOk res) (volOf w'.img w.c sb L) True := by
  rw [modifyM_eval hi hfn]
  cases hf : findIn w.img w.c fname L.cat with
  | none => exact ⟨_, _, rfl, hi, rfl, StepL.refused_same hi.wf _ _⟩
  | some res =>
    obtain ⟨dt, ds, dir, k⟩ := res
    obtain ⟨hnm, hfl, hfb⟩ := found_name hi hf
    simp only [Option.isSome_none, Bool.false_eq_true, and_false, if_false, newNameR, newType, hnm]
    cases ty with
    | none => exact ⟨_, _, rfl, hi, rfl, StepL.refused_same hi.wf _ _⟩
    | some t =>
      simp only
      obtain ⟨w', hw, hinv, hcc, F1, F2, f, g, hfiles, hvol, hfp, hgp, hft, hflk, hgt, hglk, hc, he, ho, ha, hd, _⟩ :=
        modify_found (ty2 := t) hi hf hfl hfb (Or.inl rfl)
      refine ⟨_, _, hw, hinv, hcc, ?_⟩
      rw [hcc] at hvol
      rw [hvol, ← hfp]
      exact ⟨stepOk_retype_replaced hfiles hi.wf (by rw [hgp, hfp]) hc he ho hd, fun _ => noLeak_replaced hfiles ho⟩

end ops

theorem tsChain_first {r : Raw} {c t s : Nat} {tsl : List Nat} (h : TsChain r c t s tsl) : t < 35 := by
  cases tsl with
  | nil => exact absurd h (by simp [TsChain])
  | cons u rest =>
    cases rest with
    | nil => exact h.1.1
    | cons u' rest' => exact h.1.1

/-- a name the directory walk does not find is not listed by the reader -/
theorem not_listed_of_findIn_none {w : W} {sb : List Nat} {L : Lay} (hi : WInv w sb L) {nf : Bytes}
    (hl : nf.length = 30) (hb : ∀ x ∈ nf, 128 ≤ x ∧ x < 256) (hf : findIn w.img w.c nf L.cat = none) :
    pathOfName nf ∉ (volOf w.img w.c sb L).paths := by
  intro hm
  unfold Vol.paths at hm
  obtain ⟨f, hfm, hp⟩ := List.mem_map.1 hm
  obtain ⟨e, t, he, _, hch, rfl⟩ := mem_filesOf hi.desc.files hfm
  have hp' : pathOfName (slice e 3 30) = pathOfName nf := hp
  obtain ⟨u, hu, k, hk, rfl, hlive⟩ := mem_liveOf.1 he
  obtain ⟨t', s', ht', hs', hue, hult⟩ := catChain_mem hi.desc.cat u hu
  rw [W.img_size] at hult
  have hbl : (sec w.img u).length = 256 := sec_img_length hi.ok hult
  have hsl : (slice (entryAt (sec w.img u) k) 3 30).length = 30 := slice_length (by rw [entry_length hbl hk]; omega)
  have heq := pathOfName_inj (by rw [hsl, hl]) (hi.names _ he) hb hp'
  exact matchEntry_none (findIn_none hf u hu) hk hlive (by have := tsChain_first hch.1; omega) heq

/-- `get_tslist_sector` does not change the state -/
theorem getTslistSector_eval {w : W} {sb : List Nat} {L : Lay} (hi : WInv w sb L) {name fname : Bytes}
    (hfn : stringToFileName name = .ok fname) :
    ∃ o, getTslistSector name w = (.ok o, w) ∧ (o = none ↔ findIn w.img w.c fname L.cat = none) := by
  unfold getTslistSector
  simp only [M.bind_apply, M.lift_apply, hfn, findEntry_ok hi]
  cases hf : findIn w.img w.c fname L.cat with
  | none => exact ⟨none, rfl, by simp⟩
  | some res =>
    obtain ⟨dt, ds, dir, k⟩ := res
    exact ⟨some _, rfl, by simp⟩

/-- `rename` (after `ok_to_rename` has found the new name unused) refines the specification -/
theorem renameM_refines {P : FsParams} {w : W} {sb : List Nat} {L : Lay} (hi : WInv w sb L) {name fname newName nf : Bytes}
    (hfn : stringToFileName name = .ok fname) (hnn : stringToFileName newName = .ok nf)
    (hnl : nf.length = 30) (hnb : ∀ x ∈ nf, 128 ≤ x ∧ x < 256) (hfree : findIn w.img w.c nf L.cat = none) :
    ∃ res w', modifyM name none (some newName) none w = (res, w') ∧ WInv w' sb L ∧ w'.c = w.c ∧
      StepL P (volOf w.img w.c sb L) (.rename (pathOfName fname) (pathOfName nf))
        (isOk res) (volOf w'.img w.c sb L) True := by
  rw [modifyM_eval hi hfn]
  cases hf : findIn w.img w.c fname L.cat with
  | none => exact ⟨_, _, rfl, hi, rfl, StepL.refused_same hi.wf _ _⟩
  | some res =>
    obtain ⟨dt, ds, dir, k⟩ := res
    simp only [Option.isSome_some, and_true, newNameR, newType, hnn]
    by_cases hlk : Dir.fileType dir k > 127
    · rw [if_pos hlk]
      exact ⟨_, _, rfl, hi, rfl, StepL.refused_same hi.wf _ _⟩
    · rw [if_neg hlk]
      have hfresh := not_listed_of_findIn_none hi hnl hnb hfree
      obtain ⟨w', hw, hinv, hcc, F1, F2, f, g, hfiles, hvol, hfp, hgp, hft, hflk, hgt, hglk, hc, he, ho, ha, hd, _⟩ :=
        modify_found (ty2 := Dir.fileType dir k) hi hf hnl hnb (Or.inr hfresh)
      refine ⟨_, _, hw, hinv, hcc, ?_⟩
      rw [hcc] at hvol
      rw [hvol, ← hfp, ← hgp]
      exact ⟨stepOk_rename_replaced hfiles hi.wf (by rw [hgp]; exact hfresh) (by rw [hflk]; simp only [decide_eq_false_iff_not]; omega)
        (by rw [hglk, hflk]) hc he ho hd, fun _ => noLeak_replaced hfiles ho⟩

end A2Verif.Fs.Dos3x
