import A2Verif.Lemmas.RetokProg
/-! C14 round 4: Integer BASIC escape codec, decimal value, stripped lines stay zero-free -/
namespace A2Verif.Detok
open A2Verif.Gen.Tokens

theorem decVal_dec (n : Nat) : decVal (dec n) 0 = n := by
  obtain ⟨_, a2⟩ := decAux_spec (n + 1) n [] (by omega) (by intro c hc; simp at hc)
  obtain ⟨m, hm, hk⟩ := a2 0
  unfold dec
  rw [hm, hk rfl]
  simp [decVal]

/-! ### stripping keeps bodies zero-free -/

theorem stripBody_subset : ∀ (body : List Nat) (m : Nat) (x : Nat), x ∈ stripBody m body → x ∈ body := by
  intro body
  induction body with
  | nil => intro m x h; simp [stripBody] at h
  | cons b r ih =>
    intro m x h
    rw [stripBody] at h
    repeat' split at h
    all_goals first
      | (simp only [List.mem_cons] at h
         rcases h with h | h
         · simp [h]
         · exact List.mem_cons_of_mem _ (ih _ x h))
      | exact List.mem_cons_of_mem _ (ih _ x h)

theorem scan_lines_zero_free : ∀ (fuelS addr : Nat) (t : List Nat) (ls : List Line),
    scanA fuelS addr t = some ls → LinesOK ls := by
  intro fuelS
  induction fuelS with
  | zero => intro addr t ls h; simp [scanA] at h
  | succ f ih =>
    intro addr t ls h
    unfold scanA at h
    split at h
    · simp at h; subst h; intro l hl; simp at hl
    · rename_i lk0 lk1 n0 n1 rest
      cases hs : splitZero rest with
      | none => simp [hs] at h
      | some p =>
        obtain ⟨body, rest'⟩ := p
        simp only [hs] at h
        split at h
        · rename_i hcond
          cases hr : scanA f (addr + body.length + 5) rest' with
          | none => simp [hr] at h
          | some ls' =>
            simp [hr] at h
            subst h
            obtain ⟨_, nz⟩ := splitZero_spec rest body rest' hs
            have := ih _ _ _ hr
            intro l hl
            simp at hl
            rcases hl with hl | hl
            · subst hl; exact ⟨nz, by simp; omega⟩
            · exact this l hl
        · simp at h
    · simp at h

theorem scan_strip_linesOK (fuelS addr : Nat) (t : List Nat) (ls : List Line)
    (h : scanA fuelS addr t = some ls) : LinesOK (ls.map stripLine) := by
  have := scan_lines_zero_free _ _ _ _ h
  intro l hl
  simp at hl
  obtain ⟨l0, hl0, e⟩ := hl
  subst e
  obtain ⟨a, b⟩ := this l0 hl0
  exact ⟨fun x hx => a x (stripBody_subset _ _ x hx), b⟩

/-! ### Integer BASIC escapes -/

theorem unescI_copy (c : Nat) (T : List Nat) (h : T = [] ∨ ∃ x t, T = x :: t ∧ x ≠ 120) :
    unescI (c :: T) = (upC c + 128) :: unescI T := by
  match T, h with
  | [], _ => simp [unescI]
  | [_], _ => simp [unescI]
  | [_, _], _ => simp [unescI]
  | x :: h1 :: h2 :: r, h =>
    rcases h with h | ⟨x', t', e, hx⟩
    · simp at h
    · simp at e
      have : x ≠ 120 := by rw [e.1]; exact hx
      simp [unescI, this]

theorem unescI_escape (h1 h2 : Nat) (t : List Nat) (a : isHex h1 = true) (b : isHex h2 = true) :
    unescI (92 :: 120 :: h1 :: h2 :: t) = (16 * hexVal h1 + hexVal h2) :: unescI t := by
  rw [unescI]; simp [a, b]

/-- text of one byte as `escI` prints it -/
def pieceI (term : List Nat) (b : Nat) (rest : List Nat) : List Nat :=
  if b = 220 ∧ 3 ≤ rest.length then
    match rest with
    | x :: h1 :: h2 :: _ => if x = 248 ∧ isHexNeg h1 ∧ isHexNeg h2 then iBackslashEsc else [92]
    | _ => [92]
  else if iEscapes.contains b ∨ b > 254 ∨ b ≤ 128 ∨ (225 ≤ b ∧ b ≤ 250) ∨ (b = 162 ∧ term.contains iCloseQuote)
    then hexEsc b
  else [b - 128]

theorem escI_stop (term : List Nat) (b : Nat) (rest : List Nat) (h : term.contains b = true) :
    escI term (b :: rest) = ([], b :: rest) := by
  conv => lhs; unfold escI
  simp only [h, if_true]

theorem escI_go (term : List Nat) (b : Nat) (rest : List Nat) (h : term.contains b = false) :
    escI term (b :: rest) = (pieceI term b rest ++ (escI term rest).1, (escI term rest).2) := by
  conv => lhs; unfold escI
  simp only [h, Bool.false_eq_true, if_false]
  rfl

/-- no printed piece starts with a lower-case `x`: negative lower case is always escaped, so a lone backslash in the
listing is never followed by `xHH` -/
theorem pieceI_head (term : List Nat) (b : Nat) (rest : List Nat) :
    ∃ x t, pieceI term b rest = x :: t ∧ x ≠ 120 := by
  unfold pieceI
  split
  · split
    · split
      · exact ⟨92, _, rfl, by decide⟩
      · exact ⟨92, _, rfl, by decide⟩
    · exact ⟨92, _, rfl, by decide⟩
  · split
    · exact ⟨92, _, by rw [hexEsc_eq], by decide⟩
    · rename_i h1 h2
      refine ⟨b - 128, [], rfl, ?_⟩
      intro h
      apply h2
      right; right; right; left
      omega

theorem escI_head (term : List Nat) : ∀ s : List Nat,
    (escI term s).1 = [] ∨ ∃ x t, (escI term s).1 = x :: t ∧ x ≠ 120 := by
  intro s
  cases s with
  | nil => simp [escI]
  | cons b rest =>
    by_cases h : term.contains b = true
    · rw [escI_stop term b rest h]; simp
    · have h' : term.contains b = false := by simpa using h
      rw [escI_go term b rest h']
      obtain ⟨x, t, e, hx⟩ := pieceI_head term b rest
      right
      exact ⟨x, t ++ (escI term rest).1, by simp [e], hx⟩

theorem escI_roundtrip (term : List Nat) (p tl : List Nat) (c : Nat)
    (hterm : term = [iCloseQuote, iEol] ∨ term = [iEol]) (hesc : iBackslashEscHex = [100, 99])
    (hp : ∀ b ∈ p, b < 256 ∧ term.contains b = false) (hc : term.contains c = true) :
    (escI term (p ++ c :: tl)).2 = c :: tl ∧ unescI (escI term (p ++ c :: tl)).1 = p := by
  induction p with
  | nil => simp [escI_stop term c tl hc, unescI]
  | cons b rest ih =>
    have hb := hp b (by simp)
    obtain ⟨i1, i2⟩ := ih (fun x hx => hp x (by simp [hx]))
    simp only [List.cons_append]
    rw [escI_go term b _ hb.2]
    refine ⟨i1, ?_⟩
    have hhead := escI_head term (rest ++ c :: tl)
    simp only []
    unfold pieceI
    split
    · rename_i h220
      have hcopy : unescI (92 :: (escI term (rest ++ c :: tl)).1) = b :: rest := by
        rw [unescI_copy _ _ hhead, i2, h220.1]; simp [upC]
      split
      · split
        · show unescI (iBackslashEsc ++ _) = _
          simp only [iBackslashEsc, hesc, List.cons_append, List.nil_append]
          rw [unescI_escape 100 99 _ (by decide) (by decide), i2, h220.1]
          simp [hexVal]
        · exact hcopy
      · exact hcopy
    · rename_i h220
      split
      · obtain ⟨a1, a2, a3⟩ := hexEsc_value b hb.1
        rw [hexEsc_eq]
        simp only [List.cons_append, List.nil_append]
        rw [unescI_escape _ _ _ a1 a2, i2, a3]
      · rename_i hraw
        simp only [List.cons_append, List.nil_append]
        rw [unescI_copy _ _ hhead, i2]
        have h1 : ¬ (b > 254) := fun h => hraw (Or.inr (Or.inl h))
        have h2 : ¬ (b ≤ 128) := fun h => hraw (Or.inr (Or.inr (Or.inl h)))
        have h3 : ¬ (225 ≤ b ∧ b ≤ 250) := fun h => hraw (Or.inr (Or.inr (Or.inr (Or.inl h))))
        have : upC (b - 128) = b - 128 := by
          unfold upC
          split
          · rename_i hh; exfalso; apply h3; omega
          · rfl
        have e : b - 128 + 128 = b := by omega
        rw [this, e]

/-! ### Integer BASIC names -/

theorem varNameI_roundtrip : ∀ (name tl : List Nat) (c : Nat), c < 128 →
    (∀ b ∈ name, 128 ≤ b ∧ ¬ (225 ≤ b ∧ b ≤ 250)) →
    varNameI (name ++ c :: tl) = .ok (name.map (· - 128), c :: tl) ∧
      (name.map (· - 128)).map (fun x => upC x + 128) = name := by
  intro name
  induction name with
  | nil =>
    intro tl c hc _
    have : ¬ (c ≥ 128) := by omega
    simp [varNameI, this]
  | cons b r ih =>
    intro tl c hc h
    have hb := h b (by simp)
    obtain ⟨i1, i2⟩ := ih tl c hc (fun x hx => h x (by simp [hx]))
    have hge : b ≥ 128 := hb.1
    have hup : upC (b - 128) + 128 = b := by
      unfold upC
      split
      · rename_i hh; exfalso; apply hb.2; omega
      · omega
    refine ⟨by simp [varNameI, hge, i1, Outcome.map], ?_⟩
    simp only [List.map_cons, hup, i2]

end A2Verif.Detok
