import A2Verif.Lemmas.FsProdosSubOp
import A2Verif.Lemmas.FsProdosPutF
/-!
# `prepare_to_write` for a path into a first-level sub-directory

`splitPath_sub`: the parent of `[vol, dir, name]` is `/vol/dir`.  `findDirKeyBlock_parent`: `find_dir_key_block` of that
parent (hypothesis `ParentOk`: the parent path, normalised again, is `[vol, dir]` — true when the volume name is upper case
without `/`).  `availEntryLoop_key`: `get_available_entry` in a directory with key block `K`: the first empty slot, or — none
left — the continuation that expands the directory.  `prepare_sub`: `prepare_to_write` up to `get_available_entry`.
-/
namespace A2Verif.FsProdos
open A2Verif.Fs.Prodos
open A2Verif.Read.Prodos (entryAt dirChain trimName)
open A2Verif.Read.ProdosT

/-- `split_path` of a path with normal form `[vol, dir, name]` -/
theorem splitPath_sub (vol path dn nm : Bytes) (hnodes : normalizePath vol path = .ok [vol, dn, nm]) (hnm : nm ≠ []) :
    splitPath vol path = .ok (47 :: vol ++ 47 :: dn, nm) := by
  unfold splitPath
  rw [hnodes]
  have hl : ([vol, dn, nm].getLastD []).length ≠ 0 := by
    show nm.length ≠ 0
    intro h; exact hnm (List.eq_nil_of_length_eq_zero h)
  simp only [hl, ↓reduceIte]
  simp

/-- the parent path `/vol/dir`, normalised again, is `[vol, dir]` -/
def ParentOk (vol dn : Bytes) : Prop := normalizePath vol (47 :: vol ++ 47 :: dn) = .ok [vol, dn]

theorem lower_length (s : Bytes) : (lower s).length = s.length := by unfold lower; simp

/-- the parent path `/vol/dir` is not the volume itself -/
theorem notVol_parent (vol dn : Bytes) (hdn : dn ≠ []) : NotVol vol (47 :: vol ++ 47 :: dn) := by
  have hl : 1 ≤ dn.length := by
    cases dn with
    | nil => exact absurd rfl hdn
    | cons a l => simp
  unfold NotVol
  intro h
  rcases h with h | h | h | h
  · have := congrArg List.length h; simp at this
  · cases h
  · have := congrArg List.length h
    simp only [lower_length, List.length_cons, List.length_append] at this
    omega
  · have := congrArg List.length h
    simp only [lower_length, List.length_cons, List.length_append, List.length_nil] at this
    omega

/-- `find_dir_key_block` of the parent `/vol/dir`: the key pointer of the directory entry -/
theorem findDirKeyBlock_parent {d : Disk} {v : Vol} {fsL : List LRec} {ch : List Nat} {dn : Bytes} {B k : Nat} {sch : List Nat}
    (c : RootCtx d (hdrBm d.raw) (nbmOf (hdrTotal d.raw)) ch) (sd : SubDir d v fsL ch dn B k sch) (hv : isNameValid dn = true)
    (hp : ParentOk (volName (hdrOf d.raw)) dn) :
    findDirKeyBlock (47 :: volName (hdrOf d.raw) ++ 47 :: dn) d = (.ok (le16 (entryAt (unitAt d.raw B) k 39) 17), d) :=
  findDirKeyBlock_hit c _ dn hp (by intro h; rw [h] at hv; cases hv)
    (notVol_parent _ dn (by intro h; rw [h] at hv; cases hv)) hv B k sd.hB sd.hk13 sd.hkey sd.hx

/-- `find_dir_key_block` of the parent `/vol/dir` when no such directory is listed -/
theorem findDirKeyBlock_parent_none {d : Disk} {bm cnt : Nat} {ch : List Nat} (c : RootCtx d bm cnt ch) (dn : Bytes)
    (hdn : dn ≠ []) (hp : ParentOk (volName (hdrOf d.raw)) dn)
    (hnone : isNameValid dn = false ∨ (dirSlots d.raw 2 ch).find? (isHit [stSubDirEntry] dn) = none) :
    findDirKeyBlock (47 :: volName (hdrOf d.raw) ++ 47 :: dn) d = (.error .pathNotFound, d) := by
  apply findDirKeyBlock_nodir c _ dn hp hdn (notVol_parent _ dn hdn)
  intro hv
  rcases hnone with h | h
  · rw [h] at hv; cases hv
  · exact h

/-- **`get_available_entry` in the directory with key block `K`**: the first empty slot; when there is none, the directory's
header says where its entry is, and `expand_directory` is called (the volume directory: `DIRECTORY FULL`) -/
theorem availEntryLoop_key (d : Disk) (bm cnt : Nat) (hst : St d bm cnt) (K : Nat) :
    ∀ (ch : List Nat) (fuel b : Nat), IsChain d.raw b ch → b ≠ 0 → (∀ x ∈ ch, x ∉ bmRange bm cnt) → KindsOk d.raw K ch →
      ch.length ≤ fuel →
      availEntryLoop K fuel b d =
        (match (dirSlots d.raw K ch).find? isFreeSlot with
         | some x => (.ok (slotLoc x), d)
         | none => ((getDirectory K).bind fun kd => (M.ofOption kd.parentEntryLoc).bind fun o =>
            match o with
            | some parentLoc => expandDirectory parentLoc
            | none => M.fail .directoryFull) d)
  | [], _, _, h, hb, _, _, _ => by cases h; exact absurd rfl hb
  | c :: rest, fuel, b, h, hb, hnb, hkinds, hf => by
    obtain ⟨f, rfl⟩ : ∃ f, fuel = f + 1 := ⟨fuel - 1, by simp at hf; omega⟩
    cases h with
    | @cons _ blk _ _ hblk hrest =>
      have hu := unitAt_of_get hblk
      unfold availEntryLoop
      simp only [bind_def]
      rw [bind_ok _ _ d d _ (getDirectory_st hst c blk (hnb c List.mem_cons_self) hblk)]
      have hfm := firstInactive_block d.raw K c (hkinds c List.mem_cons_self)
      rw [hu] at hfm
      rw [hfm]
      unfold dirSlots
      rw [List.flatMap_cons, List.find?_append]
      cases hfind : (blockSlots d.raw K c).find? isFreeSlot with
      | some x =>
        simp only [Option.map_some, Option.or_some, pure_def, M.pure]
        have hxm := List.mem_of_find?_eq_some hfind
        obtain ⟨k, _, _, rfl⟩ := mem_blockSlots.mp hxm
        rfl
      | none =>
        simp only [Option.map_none, Option.none_or]
        rw [next_eq]
        by_cases hn : le16 blk 2 = 0
        · rw [hn] at hrest
          have := isChain_zero hrest
          subst this
          simp only [hn, ↓reduceIte, List.flatMap_nil, List.find?_nil]
          rfl
        · simp only [hn, ↓reduceIte]
          have ih := availEntryLoop_key d bm cnt hst K rest f (le16 blk 2) hrest hn
            (fun x hx => hnb x (List.mem_cons_of_mem _ hx)) (fun x hx => hkinds x (List.mem_cons_of_mem _ hx))
            (by simp at hf; omega)
          unfold dirSlots at ih
          exact ih

/-- **`prepare_to_write` for a path into a resolved sub-directory**, up to `get_available_entry` -/
theorem prepare_sub {d : Disk} {v : Vol} {fsL : List LRec} {ch : List Nat} {dn : Bytes} {B k : Nat} {sch : List Nat}
    (c : RootCtx d (hdrBm d.raw) (nbmOf (hdrTotal d.raw)) ch) (sd : SubDir d v fsL ch dn B k sch) (hv : isNameValid dn = true)
    (hp : ParentOk (volName (hdrOf d.raw)) dn) (path nm : Bytes)
    (hnodes : normalizePath (volName (hdrOf d.raw)) path = .ok [volName (hdrOf d.raw), dn, nm]) (hnm : nm ≠ []) :
    prepareToWrite path d =
      if !isNameValid nm then (.error .syntax, d)
      else match (dirSlots d.raw (le16 (entryAt (unitAt d.raw B) k 39) 17) sch).find? (isHit allTypes nm) with
        | some _ => (.error .duplicateFilename, d)
        | none => ((getAvailableEntry (le16 (entryAt (unitAt d.raw B) k 39) 17)).bind fun loc =>
            getAvailableBlock.bind fun o =>
              match o with
              | some newBlock => pure (nm, le16 (entryAt (unitAt d.raw B) k 39) 17, loc, newBlock)
              | none => M.fail .diskFull) d := by
  unfold prepareToWrite
  simp only [bind_def]
  rw [bind_ok _ _ d d _ (getVolHeader_root c)]
  have hsp : M.lift (splitPath (volName (hdrOf d.raw)) path) d =
      (.ok (47 :: volName (hdrOf d.raw) ++ 47 :: dn, nm), d) := by
    unfold M.lift; rw [splitPath_sub _ path dn nm hnodes hnm]
  rw [bind_ok _ _ d d _ hsp]
  simp only []
  by_cases hvn : isNameValid nm = true
  · simp only [hvn, Bool.not_true, Bool.false_eq_true, ↓reduceIte]
    rw [bind_ok _ _ d d _ (attempt_ok _ d d _ (findDirKeyBlock_parent c sd hv hp))]
    simp only []
    have hse := searchEntries_key sd.sc allTypes nm
    simp only [hvn, Bool.not_true, Bool.false_eq_true, ↓reduceIte] at hse
    rw [bind_ok _ _ d d _ hse]
    cases hf : (dirSlots d.raw (le16 (entryAt (unitAt d.raw B) k 39) 17) sch).find? (isHit allTypes nm) with
    | some x => rfl
    | none => rfl
  · have hv' : isNameValid nm = false := by simpa using hvn
    simp only [hv', Bool.not_false, ↓reduceIte]
    rfl

/-- `prepare_to_write` when the directory of the path is not listed: `PATH NOT FOUND` (after the name has been checked) -/
theorem prepare_sub_nodir {d : Disk} {bm cnt : Nat} {ch : List Nat} (c : RootCtx d bm cnt ch) (path dn nm : Bytes)
    (hnodes : normalizePath (volName (hdrOf d.raw)) path = .ok [volName (hdrOf d.raw), dn, nm]) (hnm : nm ≠ [])
    (hdn : dn ≠ []) (hp : ParentOk (volName (hdrOf d.raw)) dn)
    (hnone : isNameValid dn = false ∨ (dirSlots d.raw 2 ch).find? (isHit [stSubDirEntry] dn) = none) :
    ∃ e, prepareToWrite path d = (.error e, d) := by
  unfold prepareToWrite
  simp only [bind_def]
  rw [bind_ok _ _ d d _ (getVolHeader_root c)]
  have hsp : M.lift (splitPath (volName (hdrOf d.raw)) path) d =
      (.ok (47 :: volName (hdrOf d.raw) ++ 47 :: dn, nm), d) := by
    unfold M.lift; rw [splitPath_sub _ path dn nm hnodes hnm]
  rw [bind_ok _ _ d d _ hsp]
  simp only []
  by_cases hvn : isNameValid nm = true
  · simp only [hvn, Bool.not_true, Bool.false_eq_true, ↓reduceIte]
    rw [bind_ok _ _ d d _ (attempt_err _ d d _ (findDirKeyBlock_parent_none c dn hdn hp hnone) (by decide))]
    exact ⟨_, rfl⟩
  · have hv' : isNameValid nm = false := by simpa using hvn
    simp only [hv', Bool.not_false, ↓reduceIte]
    exact ⟨_, rfl⟩

end A2Verif.FsProdos
