import A2Verif.Lemmas.FsProdosPutA
import A2Verif.Lemmas.FsProdosEnt
/-!
# `write_file`: index blocks and the entry under construction

`IdxIs buf ptrs`: the 512-byte index buffer `buf` holds the pointers `ptrs` in its first slots and zeros after them;
`packIndexPtr` appends a pointer (`pack_append`); the reader's `indexEntries` of such a buffer is `entriesOf base ptrs`.
`EFacts e0 e st key used`: the entry under construction `e` is `e0` with storage type `st`, key pointer `key`, block count
`used` (the end of file is whatever — `write_file` overwrites it at the end); the field assignments of `write_file` act on it
as expected.
-/
namespace A2Verif.FsProdos
open A2Verif.Fs.Prodos
open A2Verif.Read.Prodos (entryAt dirChain idxPtr indexEntries readData trimName)

/-! ## index buffers -/

/-- the index buffer holds the pointers `ptrs` (slot `k` = `ptrs[k]`), zeros elsewhere -/
structure IdxIs (buf : Bytes) (ptrs : List Nat) : Prop where
  len : buf.length = 512
  bytes : ∀ x ∈ buf, x < 256
  ptr : ∀ k, k < 256 → idxPtr buf k = ptrs.getD k 0

theorem filterMap_congr_mem {α β : Type} (f g : α → Option β) : ∀ (l : List α), (∀ x ∈ l, f x = g x) → l.filterMap f = l.filterMap g
  | [], _ => rfl
  | a :: l, h => by
    rw [List.filterMap_cons, List.filterMap_cons, h a List.mem_cons_self,
      filterMap_congr_mem f g l (fun x hx => h x (List.mem_cons_of_mem _ hx))]

theorem idxIs_zeros : IdxIs (zeros blockSize) [] := by
  refine ⟨List.length_replicate .., ?_, ?_⟩
  · intro x hx; unfold zeros at hx; rw [List.mem_replicate] at hx; omega
  · intro k hk
    unfold idxPtr zeros blockSize
    simp only [List.getD_eq_getElem?_getD]
    rw [List.getElem?_replicate, List.getElem?_replicate]
    simp [show k < 512 by omega, show 256 + k < 512 by omega]

/-- `pack_index_ptr(buf, ptr, n)` with `n` the number of pointers stored so far appends the pointer -/
theorem pack_append (buf : Bytes) (ptrs : List Nat) (p : Nat) (h : IdxIs buf ptrs) (hn : ptrs.length < 256) (hp : p < 65536) :
    ∃ buf', packIndexPtr buf p ptrs.length = some buf' ∧ IdxIs buf' (ptrs ++ [p]) := by
  have hlt : ptrs.length + 256 < buf.length := by rw [h.len]; omega
  refine ⟨splice (splice buf ptrs.length [p % 256]) (ptrs.length + 256) [p / 256 % 256], by unfold packIndexPtr; rw [if_pos hlt], ?_⟩
  have hl1 : (splice buf ptrs.length [p % 256]).length = 512 := by rw [splice_length _ _ _ (by simp; omega), h.len]
  have hg : ∀ j, (splice (splice buf ptrs.length [p % 256]) (ptrs.length + 256) [p / 256 % 256]).getD j 0 =
      if j = ptrs.length + 256 then p / 256 % 256 else if j = ptrs.length then p % 256 else buf.getD j 0 := by
    intro j
    rw [getD_splice _ _ _ j (by simp; omega)]
    by_cases h1 : j = ptrs.length + 256
    · subst h1; simp
    · rw [if_neg (by simp; omega), if_neg h1, getD_splice _ _ _ j (by simp; omega)]
      by_cases h2 : j = ptrs.length
      · subst h2; simp
      · rw [if_neg (by simp; omega), if_neg h2]
  refine ⟨by rw [splice_length _ _ _ (by simp; omega), hl1], ?_, ?_⟩
  · apply splice_bytes _ _ _ (splice_bytes _ _ _ h.bytes (by intro x hx; simp at hx; omega)) (by intro x hx; simp at hx; omega)
  · intro k hk
    unfold idxPtr
    rw [hg k, hg (256 + k)]
    by_cases hkn : k = ptrs.length
    · subst hkn
      rw [if_neg (by omega), if_pos rfl, if_pos (by omega)]
      simp only [List.getD_eq_getElem?_getD, List.getElem?_append_right (Nat.le_refl _), Nat.sub_self]
      simp
      omega
    · rw [if_neg (by omega), if_neg hkn, if_neg (by omega), if_neg (by omega)]
      have := h.ptr k hk
      unfold idxPtr at this
      rw [this]
      simp only [List.getD_eq_getElem?_getD]
      by_cases hkl : k < ptrs.length
      · rw [List.getElem?_append_left hkl]
      · rw [List.getElem?_eq_none (by omega), List.getElem?_eq_none (by simp; omega)]

/-- the (chunk index, block) pairs of the non-zero pointers -/
def entriesOf (base : Nat) (ptrs : List Nat) : List (Nat × Nat) :=
  (List.range ptrs.length).filterMap (fun k => if ptrs.getD k 0 = 0 then none else some (base + k, ptrs.getD k 0))

theorem entriesOf_append (base : Nat) (ptrs : List Nat) (p : Nat) :
    entriesOf base (ptrs ++ [p]) = entriesOf base ptrs ++ (if p = 0 then [] else [(base + ptrs.length, p)]) := by
  unfold entriesOf
  rw [List.length_append, List.length_singleton, List.range_succ, List.filterMap_append]
  congr 1
  · apply filterMap_congr_mem
    intro k hk
    have hkl := List.mem_range.mp hk
    simp only [List.getD_eq_getElem?_getD]
    rw [List.getElem?_append_left hkl]
  · simp only [List.filterMap_cons, List.filterMap_nil, List.getD_eq_getElem?_getD]
    rw [List.getElem?_append_right (Nat.le_refl _)]
    simp only [Nat.sub_self, List.getElem?_cons_zero, Option.getD_some]
    by_cases hp : p = 0
    · simp [hp]
    · simp [hp]

theorem list_eq_map_getD (P : List Nat) : P = (List.range P.length).map (fun k => P.getD k 0) := by
  apply List.ext_getElem (by simp)
  intro i h1 h2
  simp only [List.getElem_map, List.getElem_range, List.getD_eq_getElem?_getD]
  rw [List.getElem?_eq_getElem h1]; rfl

/-- the blocks an index buffer points to -/
theorem entriesOf_snd (base : Nat) (P : List Nat) : (entriesOf base P).map (·.2) = P.filter (· ≠ 0) := by
  unfold entriesOf
  rw [List.map_filterMap]
  conv => rhs; rw [list_eq_map_getD P, List.filter_map]
  rw [← List.filterMap_eq_filter, List.map_filterMap]
  apply filterMap_congr_mem
  intro k _
  simp only [Option.guard, List.getD_eq_getElem?_getD, Function.comp]
  by_cases h : P[k]?.getD 0 = 0 <;> simp [h]

/-- the reader's view of an index buffer -/
theorem indexEntries_is (buf : Bytes) (ptrs : List Nat) (base : Nat) (h : IdxIs buf ptrs) (hn : ptrs.length ≤ 256) :
    indexEntries buf base = entriesOf base ptrs := by
  unfold indexEntries entriesOf
  have hsplit : List.range 256 = List.range ptrs.length ++ List.range' ptrs.length (256 - ptrs.length) := by
    rw [List.range_eq_range', List.range_eq_range']
    have : 256 = ptrs.length + (256 - ptrs.length) := by omega
    conv => lhs; rw [this]
    rw [← List.range'_append_1]
    simp
  rw [hsplit, List.filterMap_append]
  have hhi : (List.range' ptrs.length (256 - ptrs.length)).filterMap
      (fun k => let p := idxPtr buf k; if p = 0 then none else some (base + k, p)) = [] := by
    rw [List.filterMap_eq_nil_iff]
    intro k hk
    rw [List.mem_range'_1] at hk
    have := h.ptr k (by omega)
    simp only [List.getD_eq_getElem?_getD] at this
    rw [List.getElem?_eq_none (by omega)] at this
    simp at this
    simp [this]
  rw [hhi, List.append_nil]
  apply filterMap_congr_mem
  intro k hk
  have hkl := List.mem_range.mp hk
  simp only [h.ptr k (by omega)]

/-! ## the entry under construction -/

/-- `e` is `e0` with storage type `st`, key pointer `key` and block count `used` (the end of file may differ) -/
structure EFacts (e0 e : Bytes) (st key used : Nat) : Prop where
  len : e.length = 39
  bytes : ∀ x ∈ e, x < 256
  b0 : e.getD 0 0 = st * 16 + e0.getD 0 0 % 16
  key : le16 e 17 = key
  used : le16 e 19 = used
  other : ∀ j, j ≠ 0 → (j < 17 ∨ 23 < j) → e.getD j 0 = e0.getD j 0

theorem u16le_le16 (v : Nat) (h : v < 65536) (e : Bytes) (off : Nat) (hl : off + 2 ≤ e.length) :
    le16 (splice e off (u16le v)) off = v := by
  unfold le16
  rw [getD_splice _ _ _ off (by unfold u16le; simp; omega), getD_splice _ _ _ (off + 1) (by unfold u16le; simp; omega)]
  unfold u16le
  simp
  omega

theorem EFacts.incBlocks {e0 e : Bytes} {st key used : Nat} (h : EFacts e0 e st key used) (hu : used + 1 < 65536) :
    EFacts e0 (Ent.incBlocks e) st key (used + 1) := by
  unfold Ent.incBlocks Ent.blocksUsed
  rw [h.used, Nat.mod_eq_of_lt hu]
  have hg : ∀ j, (splice e 19 (u16le (used + 1))).getD j 0 =
      if 19 ≤ j ∧ j < 21 then (u16le (used + 1)).getD (j - 19) 0 else e.getD j 0 := by
    intro j; rw [getD_splice _ _ _ j (by unfold u16le; simp; rw [h.len]; omega)]; unfold u16le; simp
  refine ⟨by rw [splice_length _ _ _ (by unfold u16le; simp; rw [h.len]; omega)]; exact h.len,
    splice_bytes _ _ _ h.bytes (u16le_bytes _), by rw [hg 0, if_neg (by omega)]; exact h.b0, ?_,
    u16le_le16 _ hu e 19 (by rw [h.len]; omega), ?_⟩
  · unfold le16; rw [hg 17, hg 18, if_neg (by omega), if_neg (by omega)]; exact h.key
  · intro j hj0 hj; rw [hg j, if_neg (by omega)]; exact h.other j hj0 hj

theorem EFacts.setEof {e0 e : Bytes} {st key used : Nat} (h : EFacts e0 e st key used) (n : Nat) :
    EFacts e0 (Ent.setEof e n) st key used := by
  unfold Ent.setEof
  have hg : ∀ j, (splice e 21 [n % 256, n / 256 % 256, n / 65536 % 256]).getD j 0 =
      if 21 ≤ j ∧ j < 24 then [n % 256, n / 256 % 256, n / 65536 % 256].getD (j - 21) 0 else e.getD j 0 := by
    intro j; rw [getD_splice _ _ _ j (by simp; rw [h.len]; omega)]; simp
  refine ⟨by rw [splice_length _ _ _ (by simp; rw [h.len]; omega)]; exact h.len,
    splice_bytes _ _ _ h.bytes (by intro x hx; simp at hx; omega), by rw [hg 0, if_neg (by omega)]; exact h.b0, ?_, ?_, ?_⟩
  · unfold le16; rw [hg 17, hg 18, if_neg (by omega), if_neg (by omega)]; exact h.key
  · unfold le16; rw [hg 19, hg 20, if_neg (by omega), if_neg (by omega)]; exact h.used
  · intro j hj0 hj; rw [hg j, if_neg (by omega)]; exact h.other j hj0 hj

theorem EFacts.setPtr {e0 e : Bytes} {st key used : Nat} (h : EFacts e0 e st key used) (p : Nat) (hp : p < 65536) :
    EFacts e0 (Ent.setPtr e p) st p used := by
  unfold Ent.setPtr
  have hg : ∀ j, (splice e 17 (u16le p)).getD j 0 =
      if 17 ≤ j ∧ j < 19 then (u16le p).getD (j - 17) 0 else e.getD j 0 := by
    intro j; rw [getD_splice _ _ _ j (by unfold u16le; simp; rw [h.len]; omega)]; unfold u16le; simp
  refine ⟨by rw [splice_length _ _ _ (by unfold u16le; simp; rw [h.len]; omega)]; exact h.len,
    splice_bytes _ _ _ h.bytes (u16le_bytes _), by rw [hg 0, if_neg (by omega)]; exact h.b0,
    u16le_le16 _ hp e 17 (by rw [h.len]; omega), ?_, ?_⟩
  · unfold le16; rw [hg 19, hg 20, if_neg (by omega), if_neg (by omega)]; exact h.used
  · intro j hj0 hj; rw [hg j, if_neg (by omega)]; exact h.other j hj0 hj

theorem lor_nibble : ∀ l : Fin 16, ∀ st : Fin 4, (l.val ||| (st.val * 16 % 256)) = st.val * 16 + l.val := by decide +kernel

theorem EFacts.changeStorage {e0 e : Bytes} {st key used : Nat} (h : EFacts e0 e st key used) (st' : Nat) (hst' : st' < 4) :
    EFacts e0 (Ent.changeStorageType e st') st' key used := by
  unfold Ent.changeStorageType Ent.setStorLen Ent.storLen
  have hl16 : e0.getD 0 0 % 16 < 16 := Nat.mod_lt _ (by decide)
  have hmod : e.getD 0 0 % 16 = e0.getD 0 0 % 16 := by rw [h.b0]; omega
  have hval : (e.getD 0 0 % 16 ||| (st' * 16 % 256)) = st' * 16 + e0.getD 0 0 % 16 := by
    rw [hmod]; exact lor_nibble ⟨_, hl16⟩ ⟨st', hst'⟩
  rw [hval]
  have hg : ∀ j, (splice e 0 [st' * 16 + e0.getD 0 0 % 16]).getD j 0 =
      if j = 0 then st' * 16 + e0.getD 0 0 % 16 else e.getD j 0 := by
    intro j; rw [getD_splice _ _ _ j (by simp; rw [h.len]; omega)]
    by_cases hj : j = 0
    · subst hj; simp
    · rw [if_neg (by simp; omega), if_neg hj]
  refine ⟨by rw [splice_length _ _ _ (by simp; rw [h.len]; omega)]; exact h.len,
    splice_bytes _ _ _ h.bytes (by intro x hx; simp at hx; omega), by rw [hg 0, if_pos rfl], ?_, ?_, ?_⟩
  · unfold le16; rw [hg 17, hg 18, if_neg (by omega), if_neg (by omega)]; exact h.key
  · unfold le16; rw [hg 19, hg 20, if_neg (by omega), if_neg (by omega)]; exact h.used
  · intro j hj0 hj; rw [hg j, if_neg hj0]; exact h.other j hj0 hj

theorem EFacts.setAccess {e0 e : Bytes} {st key used : Nat} (h : EFacts e0 e st key used) (a : Nat) (ha : a < 256) :
    (Ent.setAccess e a).length = 39 ∧ (∀ x ∈ Ent.setAccess e a, x < 256) ∧
    (∀ j, (Ent.setAccess e a).getD j 0 = if j = 30 then a else e.getD j 0) :=
  ⟨setAccess_length e a h.len, splice_bytes _ _ _ h.bytes (by intro x hx; simp at hx; omega), fun j => setAccess_getD e a j h.len⟩

end A2Verif.FsProdos
