import A2Verif.Lemmas.C09Imd
import A2Verif.Lemmas.C08Ring
import A2Verif.Model.C08Imd
/-!
IMD sector access on tracks with any mix of record types: the cached buffer offset always is the offset of the
record under the head (`Inv`), hence the search of `read_sector` / `write_sector` finds the first record with the
wanted id in rotation order, a read returns exactly that record's data, a write replaces exactly that record's data.
-/
namespace A2Verif.Lemmas.C08Imd
open A2Verif.Model.C09Imd A2Verif.Model.C08Imd A2Verif.Model.C08Ring A2Verif.Lemmas.C09Imd A2Verif.Lemmas.C08Ring

theorem flatten_append (a b : List Sec) : flatten (a ++ b) = flatten a ++ flatten b := by
  induction a with
  | nil => rfl
  | cons s a ih => simp [flatten, ih]

/-- offset of record `p` in the expanded track buffer: the records before it have their own sizes -/
def offs (recs : List Sec) (p : Nat) : Nat := (flatten (recs.take p)).length

theorem flatten_split (recs : List Sec) (p : Nat) (hp : p < recs.length) :
    flatten recs = flatten (recs.take p) ++ (recs[p].code :: (recs[p].data ++ flatten (recs.drop (p + 1)))) := by
  have h : recs = recs.take p ++ recs[p] :: recs.drop (p + 1) := by
    rw [List.getElem_cons_drop hp, List.take_append_drop]
  conv => lhs; rw [h]
  rw [flatten_append]
  simp [flatten, Sec.flat]

theorem offs_zero (recs : List Sec) : offs recs 0 = 0 := by simp [offs, flatten]

theorem offs_succ (recs : List Sec) (p : Nat) (hp : p < recs.length) :
    offs recs (p + 1) = offs recs p + (recs[p].data.length + 1) := by
  simp only [offs]
  rw [List.take_succ_eq_append_getElem hp, flatten_append]
  simp [flatten, Sec.flat]

/-- the state with the head on record `q` -/
def st (t : TrackSt) (recs : List Sec) (q : Nat) : TrackSt := { t with headPos := q, bufOffset := offs recs q }

/-- what a2kit keeps true of a track in memory: `recs` are the sector records in rotation order -/
structure Inv (t : TrackSt) (recs : List Sec) : Prop where
  wf : ∀ s ∈ recs, s.wf t.trk.shift
  buf : t.trk.buf = flatten recs
  map : t.trk.sectorMap.length = recs.length
  pos : recs ≠ [] → t.headPos < recs.length
  off : t.bufOffset = offs recs t.headPos

@[simp] theorem st_trk (t : TrackSt) (recs : List Sec) (q : Nat) : (st t recs q).trk = t.trk := rfl
@[simp] theorem st_headPos (t : TrackSt) (recs : List Sec) (q : Nat) : (st t recs q).headPos = q := rfl
@[simp] theorem st_bufOffset (t : TrackSt) (recs : List Sec) (q : Nat) : (st t recs q).bufOffset = offs recs q := rfl

theorem st_self (t : TrackSt) (recs : List Sec) (h : Inv t recs) : st t recs t.headPos = t := by
  have ho := h.off
  cases t
  simp only [st] at *
  rw [← ho]

theorem st_inv (t : TrackSt) (recs : List Sec) (h : Inv t recs) (q : Nat) (hq : q < recs.length) :
    Inv (st t recs q) recs :=
  ⟨h.wf, h.buf, h.map, fun _ => hq, rfl⟩

theorem st_st (t : TrackSt) (recs : List Sec) (p q : Nat) : st (st t recs p) recs q = st t recs q := rfl

/-- the type byte under the head and the data behind it -/
theorem buf_at (t : TrackSt) (recs : List Sec) (h : Inv t recs) (q : Nat) (hq : q < recs.length) :
    t.trk.buf[offs recs q]? = some recs[q].code ∧
    t.trk.buf.take (offs recs q + 1) = flatten (recs.take q) ++ [recs[q].code] ∧
    t.trk.buf.drop (offs recs q + 1) = recs[q].data ++ flatten (recs.drop (q + 1)) := by
  rw [h.buf, flatten_split recs q hq]
  refine ⟨?_, ?_, ?_⟩
  · simp [offs]
  · simp only [offs]
    simp [List.take_append, List.take_of_length_le]
  · simp only [offs]
    simp [List.drop_append]

/-- `adv_sector` keeps the cached offset right -/
theorem advSector_inv (t : TrackSt) (recs : List Sec) (h : Inv t recs) (hn : 0 < recs.length) :
    advSector t = some (st t recs (nextPos recs.length t.headPos)) := by
  have hp : t.headPos < recs.length := h.pos (by intro h0; simp [h0] at hn)
  unfold advSector
  rw [h.map]
  by_cases hw : t.headPos + 1 ≥ recs.length
  · rw [if_pos hw]
    simp [st, nextPos, hw, offs_zero]
  · rw [if_neg hw]
    have hb := (buf_at t recs h t.headPos hp).1
    rw [h.off, hb]
    have hs := wf_size t.trk.shift recs[t.headPos] (h.wf _ (List.getElem_mem hp))
    simp only [hs]
    simp [st, nextPos, hw, offs_succ recs t.headPos hp]

/-- the search loop is the rotating-head search on the sector map -/
theorem seek_eq (t : TrackSt) (recs : List Sec) (h : Inv t recs) (hn : 0 < recs.length) (sec k : Nat) :
    seek sec k t =
      match ringSeek t.trk.sectorMap sec k t.headPos with
      | (some i, _) => .found (st t recs i)
      | (none, q) => .notFound (st t recs q) := by
  induction k generalizing t with
  | zero => simp [seek, ringSeek, st_self t recs h]
  | succ k ih =>
    have hp : t.headPos < recs.length := h.pos (by intro h0; simp [h0] at hn)
    have hq := nextPos_lt recs.length t.headPos hn
    have hi := st_inv t recs h _ hq
    simp only [seek, advSector_inv t recs h hn, ringSeek, h.map]
    have hm : (st t recs (nextPos recs.length t.headPos)).trk.sectorMap = t.trk.sectorMap := rfl
    have hh : (st t recs (nextPos recs.length t.headPos)).headPos = nextPos recs.length t.headPos := rfl
    rw [hm, hh]
    have hlt : nextPos recs.length t.headPos < t.trk.sectorMap.length := by rw [h.map]; exact hq
    rw [List.getElem?_eq_getElem hlt]
    by_cases he : sec = t.trk.sectorMap[nextPos recs.length t.headPos]
    · have : (some t.trk.sectorMap[nextPos recs.length t.headPos] = some sec) := by rw [he]
      simp only [if_pos he, if_pos this]
    · have : ¬ (some t.trk.sectorMap[nextPos recs.length t.headPos] = some sec) := by
        intro hc; exact he (Option.some.inj hc).symm
      simp only [if_neg he, if_neg this]
      rw [ih _ hi]
      simp only [hm, hh, st_st]

theorem hasData_wf (shift : Nat) (s : Sec) (hs : s.wf shift) :
    (hasData s.code = true → s.data.length = secSize shift) ∧ (hasData s.code = false → s.code = 0 ∧ s.data = []) := by
  rcases hs with ⟨h0, hd⟩ | ⟨hc, hl⟩
  · simp [hasData, h0, hd]
  · refine ⟨fun _ => hl, fun hf => ?_⟩
    rcases hc with h | h | h | h <;> simp [hasData, h] at hf

/-- `read_sector` with the head found on record `i` -/
theorem read_at (t : TrackSt) (recs : List Sec) (h : Inv t recs) (i : Nat) (hi : i < recs.length) (sec : Nat)
    (hs : seek sec t.trk.sectorMap.length t = .found (st t recs i)) :
    readTrack t sec = (if hasData recs[i].code then .ok recs[i].data else .err, st t recs i) := by
  obtain ⟨hb, _, hd⟩ := buf_at t recs h i hi
  have hw := hasData_wf t.trk.shift recs[i] (h.wf _ (List.getElem_mem hi))
  simp only [readTrack, hs, st_trk, st_bufOffset, hb]
  by_cases hc : hasData recs[i].code = true
  · have hl := hw.1 hc
    simp only [hc, if_true]
    have hfit : offs recs i + 1 + secSize t.trk.shift ≤ t.trk.buf.length := by
      have : t.trk.buf.length = (t.trk.buf.take (offs recs i + 1)).length + (t.trk.buf.drop (offs recs i + 1)).length := by
        rw [← List.length_append, List.take_append_drop]
      rw [this, hd]
      simp only [List.length_take, List.length_append, hl]
      have : offs recs i + 1 ≤ t.trk.buf.length := by
        have := (List.getElem?_eq_some_iff.1 hb).1; omega
      omega
    have : (t.trk.buf.drop (offs recs i + 1)).take (secSize t.trk.shift) = recs[i].data := by
      rw [hd, ← hl]; simp
    simp only [hfit, ↓reduceIte, this]
  · have hc' : hasData recs[i].code = false := by simpa using hc
    simp [hc']

/-- `write_sector` with the head found on record `i`: exactly the data of record `i` is replaced -/
theorem write_at (t : TrackSt) (recs : List Sec) (h : Inv t recs) (i : Nat) (hi : i < recs.length) (sec : Nat)
    (dat : List Nat) (hs : seek sec t.trk.sectorMap.length t = .found (st t recs i)) :
    (hasData recs[i].code = true →
      ∃ t', writeTrack t sec dat = (.ok (), t') ∧
        Inv t' (recs.set i ⟨recs[i].code, quantize dat (secSize t.trk.shift)⟩) ∧ t'.headPos = i ∧
        t'.trk = { t.trk with buf := flatten (recs.set i ⟨recs[i].code, quantize dat (secSize t.trk.shift)⟩) }) ∧
    (hasData recs[i].code = false → writeTrack t sec dat = (.err, st t recs i)) := by
  obtain ⟨hb, htk, hd⟩ := buf_at t recs h i hi
  have hw := hasData_wf t.trk.shift recs[i] (h.wf _ (List.getElem_mem hi))
  constructor
  · intro hc
    have hl := hw.1 hc
    have hq := quantize_length dat (secSize t.trk.shift)
    let s' : Sec := ⟨recs[i].code, quantize dat (secSize t.trk.shift)⟩
    have hfit : offs recs i + 1 + secSize t.trk.shift ≤ t.trk.buf.length := by
      have : t.trk.buf.length = (t.trk.buf.take (offs recs i + 1)).length + (t.trk.buf.drop (offs recs i + 1)).length := by
        rw [← List.length_append, List.take_append_drop]
      rw [this, hd]
      simp only [List.length_take, List.length_append, hl]
      have : offs recs i + 1 ≤ t.trk.buf.length := by
        have := (List.getElem?_eq_some_iff.1 hb).1; omega
      omega
    -- the new buffer is the flattening of the updated record list
    have hnew : t.trk.buf.take (offs recs i + 1) ++ quantize dat (secSize t.trk.shift) ++
        t.trk.buf.drop (offs recs i + 1 + secSize t.trk.shift) = flatten (recs.set i s') := by
      have hset : recs.set i s' = recs.take i ++ s' :: recs.drop (i + 1) := by
        rw [List.set_eq_take_append_cons_drop]; simp [hi]
      rw [hset, flatten_append, htk]
      have hdd : t.trk.buf.drop (offs recs i + 1 + secSize t.trk.shift) = flatten (recs.drop (i + 1)) := by
        rw [← List.drop_drop, hd, ← hl]; simp
      rw [hdd]
      simp [flatten, Sec.flat, s']
    refine ⟨{ st t recs i with trk := { t.trk with buf := flatten (recs.set i s') } }, ?_, ?_, rfl, rfl⟩
    · simp only [writeTrack, hs, st_trk, st_bufOffset, hb, hc, if_true, hfit, ↓reduceIte, hnew]
    · have hlen : (recs.set i s').length = recs.length := List.length_set
      have hoffs : ∀ q, offs (recs.set i s') q = offs recs q := by
        intro q
        simp only [offs]
        have hmapeq : ∀ l : List Sec, (flatten l).length = (l.map (fun s => s.data.length + 1)).sum := by
          intro l
          induction l with
          | nil => rfl
          | cons a l ih => simp [flatten, Sec.flat, ih]; omega
        rw [hmapeq, hmapeq, List.take_set, List.map_set]
        have : ((List.map (fun s => s.data.length + 1) (List.take q recs))).set i (s'.data.length + 1) =
            List.map (fun s => s.data.length + 1) (List.take q recs) := by
          apply List.ext_getElem (by simp)
          intro k hk1 hk2
          rw [List.getElem_set]
          split
          · rename_i hik
            subst hik
            simp only [List.getElem_map, List.getElem_take]
            show (quantize dat (secSize t.trk.shift)).length + 1 = recs[i].data.length + 1
            rw [hq, hl]
          · rfl
        rw [this]
      refine ⟨?_, rfl, ?_, ?_, ?_⟩
      · intro s hs
        rcases List.mem_or_eq_of_mem_set hs with hm | he
        · exact h.wf s hm
        · subst he
          refine Or.inr ⟨?_, hq⟩
          have hcc : hasData recs[i].code = true := hc
          simp only [hasData, Bool.or_eq_true, beq_iff_eq] at hcc
          show recs[i].code = 1 ∨ recs[i].code = 3 ∨ recs[i].code = 5 ∨ recs[i].code = 7
          omega
      · show t.trk.sectorMap.length = (recs.set i s').length
        rw [hlen]; exact h.map
      · intro _; show i < (recs.set i s').length; rw [hlen]; exact hi
      · show offs recs i = offs (recs.set i s') i
        rw [hoffs]
  · intro hc
    simp only [writeTrack, hs, st_trk, st_bufOffset, hb]
    simp [hc]

end A2Verif.Lemmas.C08Imd
