import A2Verif.Lemmas.FsCpmDelete2
/-!
# The entry loops of `modify` (`rename`, access flags) as one generic loop, and what it leaves behind
-/
namespace A2Verif.FsCpm
open A2Verif.Fs.Cpm
open A2Verif.Read.Cpm (Dpb fileKey)

/-- visit the entries of a file: refuse if `chk` objects, otherwise replace the entry by `g` of it -/
def entryLoop (chk : Bytes → Option Err) (g : Bytes → Bytes) (dir : Dir) : List (Nat × Nat) → R Dir
  | [] => .ok dir
  | (_, i) :: rest =>
    match dir[i]? with
    | none => .error .panic
    | some fx =>
      if !isExtent fx then entryLoop chk g dir rest else
      match chk fx with
      | some e => .error e
      | none => entryLoop chk g (dir.set i (g fx)) rest

theorem renameLoop_eq (newUser : Nat) (newName : Bytes) : ∀ (l : List (Nat × Nat)) (dir : Dir),
    renameLoop dir newUser newName l =
      entryLoop (fun fx => if (Ext.flags fx).getD 8 0 > 0 then some .fileReadOnly else none)
        (fun fx => Ext.setName (splice fx 0 [newUser]) (stringToFileName newName).1 (stringToFileName newName).2) dir l := by
  intro l
  induction l with
  | nil => intro dir; rfl
  | cons q rest ih =>
    intro dir
    obtain ⟨dp, i⟩ := q
    unfold renameLoop entryLoop
    cases dir[i]? with
    | none => rfl
    | some fx =>
      simp only []
      by_cases c : (!isExtent fx) = true
      · rw [if_pos c, if_pos c]; exact ih dir
      · rw [if_neg c, if_neg c]
        by_cases c2 : (Ext.flags fx).getD 8 0 > 0
        · rw [if_pos c2, if_pos c2]
        · rw [if_neg c2, if_neg c2]; exact ih _

/-- the new flag bytes `modify` computes for an entry -/
def newFlags (access : List Nat) (fx : Bytes) : Bytes :=
  (List.range 11).map (fun k => newFlag (access.getD k 0) ((Ext.flags fx).getD k 0))

def setAccess (access : List Nat) (fx : Bytes) : Bytes :=
  Ext.setFlags fx ((newFlags access fx).take 8) ((newFlags access fx).drop 8)

theorem accessLoop_eq (access : List Nat) : ∀ (l : List (Nat × Nat)) (dir : Dir),
    accessLoop dir access l = entryLoop (fun _ => none) (setAccess access) dir l := by
  intro l
  induction l with
  | nil => intro dir; rfl
  | cons q rest ih =>
    intro dir
    obtain ⟨dp, i⟩ := q
    unfold accessLoop entryLoop
    cases dir[i]? with
    | none => rfl
    | some fx =>
      simp only []
      by_cases c : (!isExtent fx) = true
      · rw [if_pos c, if_pos c]; exact ih dir
      · rw [if_neg c, if_neg c]; exact ih _

/-- the entry as the loop leaves it -/
def visit (g : Bytes → Bytes) (e : Bytes) : Bytes := if isExtent e then g e else e

theorem entryLoop_spec (chk : Bytes → Option Err) (g : Bytes → Bytes)
    (hg : ∀ e, e.length = 32 → isExtent e = true → visit g (g e) = g e ∧ (g e).length = 32) :
    ∀ (l : List (Nat × Nat)) (dir dir' : Dir), (∀ e ∈ dir, e.length = 32) → entryLoop chk g dir l = .ok dir' →
    (∀ j, dir'[j]? = if (∃ p ∈ l, p.2 = j) then (dir[j]?).map (visit g) else dir[j]?) ∧
    (∀ p ∈ l, ∀ e, dir[p.2]? = some e → isExtent e = true → chk e = none) := by
  intro l
  induction l with
  | nil =>
    intro dir dir' _ h
    unfold entryLoop at h
    cases h
    exact ⟨fun j => by simp, fun p hp => by cases hp⟩
  | cons q rest ih =>
    intro dir dir' hlen h
    obtain ⟨dp, i⟩ := q
    unfold entryLoop at h
    cases hfx : dir[i]? with
    | none => rw [hfx] at h; cases h
    | some fx =>
      rw [hfx] at h
      simp only [] at h
      by_cases cx : isExtent fx = true
      · rw [if_neg (by simp [cx])] at h
        cases hc : chk fx with
        | some e => rw [hc] at h; cases h
        | none =>
          rw [hc] at h
          simp only [] at h
          have hfxl : fx.length = 32 := hlen fx (List.mem_of_getElem? hfx)
          obtain ⟨a, b⟩ := ih _ _ (by
            intro e he
            rcases List.mem_or_eq_of_mem_set he with he | he
            · exact hlen e he
            · rw [he]; exact (hg fx hfxl cx).2) h
          have hil : i < dir.length := (List.getElem?_eq_some_iff.1 hfx).1
          have hk : visit g fx = g fx := by unfold visit; rw [if_pos cx]
          refine ⟨fun j => ?_, fun p hp e he hx => ?_⟩
          · rw [a j]
            by_cases cj : j = i
            · subst cj
              have hr : (∃ p ∈ (dp, j) :: rest, p.2 = j) := ⟨(dp, j), List.mem_cons_self, rfl⟩
              rw [List.getElem?_set_self hil, if_pos hr, hfx]
              simp only [Option.map_some, hk, (hg fx hfxl cx).1]
              split <;> rfl
            · rw [List.getElem?_set_ne (fun e => cj e.symm)]
              have : (∃ p ∈ (dp, i) :: rest, p.2 = j) ↔ (∃ p ∈ rest, p.2 = j) := by
                constructor
                · rintro ⟨p, hp, e⟩
                  rcases List.mem_cons.1 hp with rfl | hp
                  · exact absurd e.symm cj
                  · exact ⟨p, hp, e⟩
                · rintro ⟨p, hp, e⟩; exact ⟨p, List.mem_cons_of_mem _ hp, e⟩
              by_cases c : ∃ p ∈ rest, p.2 = j
              · rw [if_pos c, if_pos (this.2 c)]
              · rw [if_neg c, if_neg (fun x => c (this.1 x))]
          · rcases List.mem_cons.1 hp with rfl | hp
            · simp only at he
              rw [hfx] at he; cases he
              exact hc
            · by_cases cj : p.2 = i
              · rw [cj, hfx] at he; cases he; exact hc
              · apply b p hp e _ hx
                rw [List.getElem?_set_ne (fun e => cj e.symm)]; exact he
      · rw [if_pos (by simp [cx])] at h
        obtain ⟨a, b⟩ := ih _ _ hlen h
        have hk : visit g fx = fx := by unfold visit; rw [if_neg cx]
        refine ⟨fun j => ?_, fun p hp e he hx => ?_⟩
        · rw [a j]
          by_cases c : ∃ p ∈ rest, p.2 = j
          · obtain ⟨p, hp, e⟩ := c
            rw [if_pos ⟨p, hp, e⟩, if_pos ⟨p, List.mem_cons_of_mem _ hp, e⟩]
          · rw [if_neg c]
            by_cases cj : j = i
            · subst cj
              rw [if_pos ⟨(dp, j), List.mem_cons_self, rfl⟩, hfx, Option.map_some, hk]
            · rw [if_neg]
              rintro ⟨p, hp, e⟩
              rcases List.mem_cons.1 hp with rfl | hp
              · exact cj e.symm
              · exact c ⟨p, hp, e⟩
        · rcases List.mem_cons.1 hp with rfl | hp
          · simp only at he
            rw [hfx] at he; cases he
            exact absurd hx cx
          · exact b p hp e he hx

end A2Verif.FsCpm
