import A2Verif.Lemmas.TrackImgInv
/-!
`read_sector` / `write_sector` of whole NIB / WOZ images under `ImgInv`.
-/
namespace A2Verif.Model.TrackImg
open A2Verif.Model.Track A2Verif.Model.Nibble

/-- image level view of a track level result -/
def resOf {α : Type} : Except TErr α → IRes α
  | .ok d => .ok d
  | .error e => .nib e

theorem readSector_eq {img : TrackImg} {offs : Nat → Nat} {cap n : Nat} (lay : Layout img offs cap n)
    (cyl sec : Nat) (hc : cyl < 35) (hs : sec ≤ 255) :
    readSector Trk img cyl 0 sec =
      (match (Track.readSector (fmtOf img cap) cyl sec
          (TrackRep.load (trackBits img.bytes (offs cyl) cap n) (startPtr img n) : Trk)).1 with
       | .ok d => (.ok d, { img with headPtr := some (Track.readSector (fmtOf img cap) cyl sec
          (TrackRep.load (trackBits img.bytes (offs cyl) cap n) (startPtr img n) : Trk)).2.pos })
       | .error e => (.nib e, img)) := by
  have h256 : cyl % 256 = cyl := Nat.mod_eq_of_lt (by omega)
  have hlt : ¬ cyl ≥ 35 := by omega
  have hsec : ¬ sec > 255 := by omega
  have h10 : ¬ (1 : Nat) ≤ 0 := by omega
  simp only [readSector, cylHeadToTrack, lay.tracks, hlt, hsec, h10, if_false, ge_iff_le, h256, lay.loc cyl hc,
    trackBits] <;> rfl

theorem writeSector_eq {img : TrackImg} {offs : Nat → Nat} {cap n : Nat} (lay : Layout img offs cap n)
    (cyl sec : Nat) (dat : List Nat) (hc : cyl < 35) (hs : sec ≤ 255) :
    writeSector Trk img cyl 0 sec dat =
      (match (Track.writeSector (fmtOf img cap) (quant dat) cyl sec
          (TrackRep.load (trackBits img.bytes (offs cyl) cap n) (startPtr img n) : Trk)).1 with
       | .ok _ => (.ok (), { img with
            bytes := splice img.bytes (offs cyl) (pack (TrackRep.unload (Track.writeSector (fmtOf img cap) (quant dat) cyl sec
                (TrackRep.load (trackBits img.bytes (offs cyl) cap n) (startPtr img n) : Trk)).2 ++
              (unpack ((img.bytes.drop (offs cyl)).take cap)).drop n)),
            headPtr := some (Track.writeSector (fmtOf img cap) (quant dat) cyl sec
                (TrackRep.load (trackBits img.bytes (offs cyl) cap n) (startPtr img n) : Trk)).2.pos })
       | .error e => (.nib e, img)) := by
  have h256 : cyl % 256 = cyl := Nat.mod_eq_of_lt (by omega)
  have hlt : ¬ cyl ≥ 35 := by omega
  have hsec : ¬ sec > 255 := by omega
  have h10 : ¬ (1 : Nat) ≤ 0 := by omega
  simp only [writeSector, cylHeadToTrack, lay.tracks, hlt, hsec, h10, if_false, ge_iff_le, h256, lay.loc cyl hc,
    trackBits] <;> rfl

theorem startPtr_some (img : TrackImg) (n p : Nat) (h : img.headPtr = some p) (hp : p < n) : startPtr img n = p := by
  simp [startPtr, h, hp]

/-- the sector with a given id on a track of the image -/
theorem sector_of_id {img : TrackImg} {offs : Nat → Nat} {cap n vol o : Nat} {gaps ids : List Nat}
    {secs : Nat → List GSec} {a c0 k : Nat} (inv : ImgInv img offs cap n vol o gaps ids secs a c0 k)
    (t : Nat) (ht : t < 35) (sec : Nat) (hs : sec ∈ ids) : ∃ tgt ∈ secs t, tgt.id = sec ∧ sec < 256 := by
  rw [← inv.idsEq t ht] at hs
  obtain ⟨tgt, hm, hid⟩ := List.mem_map.1 hs
  exact ⟨tgt, hm, hid, by rw [← hid]; exact (inv.good t ht tgt hm).1⟩

/-- **Reading a sector of an image.**  For every whole track `cyl < 35` and every sector address of the
format: the result is the decoding of what that sector of that track holds; no byte of the image changes;
the invariant holds again (with the new carried head position). -/
theorem img_read {img : TrackImg} {offs : Nat → Nat} {cap n vol o : Nat} {gaps ids : List Nat}
    {secs : Nat → List GSec} {a c0 k : Nat} (inv : ImgInv img offs cap n vol o gaps ids secs a c0 k)
    (cyl : Nat) (hc : cyl < 35) (sec : Nat) (hs : sec ∈ ids) :
    ∃ tgt ∈ secs cyl, tgt.id = sec ∧ ∃ img' a' c0' k',
      readSector Trk img cyl 0 sec = (resOf (gdecRes (fmtOf img cap) tgt.fld), img') ∧
      img'.bytes = img.bytes ∧ ImgInv img' offs cap n vol o gaps ids secs a' c0' k' := by
  obtain ⟨tgt, htm, hid, hlt⟩ := sector_of_id inv cyl hc sec hs
  refine ⟨tgt, htm, hid, ?_⟩
  obtain ⟨As, cur, Bs, hsplit, hAl, hF⟩ := access_gfmt inv cyl hc
  obtain ⟨As', Bs', rest, l1, hsplit', hseek, hrest, hident⟩ := canon_seek (fmtOf img cap) vol cyl As Bs cur tgt (by rw [← hsplit]; exact htm)
  obtain ⟨t', hread, hF'⟩ := readSector_gfmt inv.vol_lt (by omega) hF tgt rest l1 hseek
  rw [readSector_eq inv.lay cyl sec hc (by omega), ← hid]
  simp only [hread]
  cases hres : gdecRes (fmtOf img cap) tgt.fld with
  | error e => exact ⟨img, a, c0, k, rfl, rfl, inv⟩
  | ok d =>
    refine ⟨{ img with headPtr := some t'.pos }, As'.length, readStop tgt.fld, 0, rfl, rfl, ?_⟩
    have hgt : GoodG (fmtOf img cap) tgt := inv.good cyl hc tgt htm
    have hsecs' : secs cyl = As' ++ tgt :: Bs' := by rw [hsplit, hsplit']
    have hgaps' : (As' ++ tgt :: Bs').map (·.gap) = gaps := by rw [← hsecs']; exact inv.gapsEq cyl hc
    have hgapt : tgt.gap = gaps.getD As'.length 0 := by
      rw [← hgaps', List.map_append, List.getD_eq_getElem?_getD, List.getElem?_append_right (by simp)]
      simp
    have hn := (inv.canon cyl hc).2.2.1
    have hnpos := inv.lay.npos
    have hpos : t'.pos = (o + headBits (fmtOf img cap) gaps As'.length (readStop tgt.fld)) % n := by
      have hp := hF'.st.2.2.2
      obtain ⟨w, hw⟩ := hident ((FG (fmtOf img cap) cur).drop c0) ((FG (fmtOf img cap) cur).take c0)
        ((FG (fmtOf img cap) tgt).take (readStop tgt.fld)) (List.take_append_drop _ _)
      rw [headBits_eq (fmtOf img cap) vol cyl As Bs cur c0 (fun s hs => (inv.good cyl hc s (by rw [hsplit]; exact hs)).2.1),
        ← hsplit, inv.gapsEq cyl hc, hAl,
        headBits_eq (fmtOf img cap) vol cyl As' Bs' tgt _ (fun s hs => (inv.good cyl hc s (by rw [hsecs']; exact hs)).2.1),
        hgaps', hn] at hw
      rw [hp, Nat.add_zero, Nat.add_assoc, hw, ← Nat.add_assoc, Nat.add_mul_mod_self_right]
    exact {
      lay := layout_congr inv.lay rfl rfl rfl rfl rfl rfl
      vol_lt := inv.vol_lt
      sync := inv.sync
      canon := inv.canon
      gapsEq := inv.gapsEq
      idsEq := inv.idsEq
      good := inv.good
      nodup := inv.nodup
      len := inv.len
      ha := by
        have := congrArg List.length (inv.idsEq cyl hc)
        rw [hsecs'] at this
        simp only [List.length_map, List.length_append, List.length_cons] at this
        omega
      hc0 := by
        show readStop tgt.fld ≤ 16 + (fmtOf img cap).dataNibs + gaps.getD As'.length 0
        have := readStop_le (fmtOf img cap) tgt.fld hgt.2.1
        rw [length_gfield _ _ hgt.2.1] at this
        omega
      ptr := by
        show startPtr { img with headPtr := some t'.pos } n = _
        rw [startPtr_some _ n t'.pos rfl (by rw [hpos]; exact Nat.mod_lt _ hnpos), hpos]; rfl
      slack := slackOk_zero _
      kle := Nat.zero_le _ }

/-- the sector contents of the image with track `t` replaced -/
def setSecs (secs : Nat → List GSec) (t : Nat) (l : List GSec) : Nat → List GSec := fun u => if u = t then l else secs u

theorem unload_length {n : Nat} {t : Trk} {X : List Cell} {q : Nat} (h : St n t X q) : (TrackRep.unload t : List Bool).length = n := by
  show (rot (t.bits.length - t.pos) t.bits).length = n
  rw [rot_length, h.bits]; exact h.2.1

/-- **Writing a sector of an image.**  For every whole track `cyl < 35`, every sector address of the format
and any data: the write succeeds; no byte outside the buffer of track `cyl` changes (frame across tracks,
on the raw image); the invariant holds again with that one sector of that one track now holding the encoding
of the data padded / cut to 256 bytes — every other sector of every track holds what it held. -/
theorem img_write {img : TrackImg} {offs : Nat → Nat} {cap n vol o : Nat} {gaps ids : List Nat}
    {secs : Nat → List GSec} {a c0 k : Nat} (inv : ImgInv img offs cap n vol o gaps ids secs a c0 k)
    (cyl : Nat) (hc : cyl < 35) (sec : Nat) (hs : sec ∈ ids) (dat : List Nat) :
    ∃ tgt ∈ secs cyl, tgt.id = sec ∧ ∃ img' As' Bs', secs cyl = As' ++ tgt :: Bs' ∧
      writeSector Trk img cyl 0 sec dat = (.ok (), img') ∧
      img'.bytes.length = img.bytes.length ∧
      (∀ i, i < offs cyl ∨ offs cyl + cap ≤ i → img'.bytes[i]? = img.bytes[i]?) ∧
      ImgInv img' offs cap n vol o gaps ids
        (setSecs secs cyl (As' ++ { tgt with fld := some (encNibs (fmtOf img cap) (quant dat)) } :: Bs'))
        As'.length (16 + (fmtOf img cap).dataNibs) 0 := by
  obtain ⟨tgt, htm, hid, hlt⟩ := sector_of_id inv cyl hc sec hs
  refine ⟨tgt, htm, hid, ?_⟩
  obtain ⟨As, cur, Bs, hsplit, hAl, hF⟩ := access_gfmt inv cyl hc
  obtain ⟨As', Bs', rest, l1, hsplit', hseek, hrest, hident⟩ := canon_seek (fmtOf img cap) vol cyl As Bs cur tgt (by rw [← hsplit]; exact htm)
  obtain ⟨t', hwrite, hF'⟩ := writeSector_gfmt inv.sync inv.vol_lt (by omega) hF tgt rest l1 hseek (quant dat)
  have hsecs' : secs cyl = As' ++ tgt :: Bs' := by rw [hsplit, hsplit']
  refine ⟨{ img with
      bytes := splice img.bytes (offs cyl) (pack (TrackRep.unload t' ++ (unpack ((img.bytes.drop (offs cyl)).take cap)).drop n)),
      headPtr := some t'.pos }, As', Bs', hsecs', ?_⟩
  rw [writeSector_eq inv.lay cyl sec dat hc (by omega), ← hid]
  simp only [hwrite]
  -- abbreviations
  generalize hf : fmtOf img cap = f at *
  generalize henc : encNibs f (quant dat) = enc at *
  have igood : ∀ t, t < 35 → ∀ s ∈ secs t, GoodG f s := by intro t ht s hs; rw [← hf]; exact inv.good t ht s hs
  have icanon : ∀ t, t < 35 → Canon n (trackBits img.bytes (offs t) cap n) o (gsecsCells f vol t (secs t)) := by
    intro t ht; rw [← hf]; exact inv.canon t ht
  have hgt : GoodG f tgt := igood cyl hc tgt htm
  have hst : St n t' (ahead f vol cyl { tgt with fld := some enc } rest (syncCells f tgt.gap) (fieldCells f enc))
      (o + headBits f gaps a c0 + blen ((FG f cur).drop c0 ++ gsecsCells f vol cyl l1 ++ addrCells f vol cyl tgt.id ++ gfield f tgt.fld)) := hF'.st
  have hn := (icanon cyl hc).2.2.1
  have hnpos := inv.lay.npos
  have hUl := unload_length hst
  have hslice : ((img.bytes.drop (offs cyl)).take cap).length = cap := by
    have := inv.lay.inb cyl hc
    simp only [List.length_take, List.length_drop]; omega
  have hBlen : (TrackRep.unload t' ++ (unpack ((img.bytes.drop (offs cyl)).take cap)).drop n : List Bool).length = 8 * cap := by
    have := inv.lay.nle
    simp only [List.length_append, hUl, List.length_drop, unpack_length, hslice]; omega
  have hPl := pack_length cap _ hBlen
  have hinb : offs cyl + (pack (TrackRep.unload t' ++ (unpack ((img.bytes.drop (offs cyl)).take cap)).drop n)).length ≤ img.bytes.length := by
    rw [hPl]; exact inv.lay.inb cyl hc
  -- the bits of the written track
  have hnew : trackBits (splice img.bytes (offs cyl) (pack (TrackRep.unload t' ++ (unpack ((img.bytes.drop (offs cyl)).take cap)).drop n)))
      (offs cyl) cap n = TrackRep.unload t' := by
    unfold trackBits
    have := slice_splice_same img.bytes _ (offs cyl) hinb
    rw [hPl] at this
    rw [this, unpack_pack cap _ hBlen, List.take_left' hUl]
  have hother : ∀ u, u < 35 → u ≠ cyl →
      trackBits (splice img.bytes (offs cyl) (pack (TrackRep.unload t' ++ (unpack ((img.bytes.drop (offs cyl)).take cap)).drop n)))
        (offs u) cap n = trackBits img.bytes (offs u) cap n := by
    intro u hu hne
    unfold trackBits
    rw [slice_splice_disj img.bytes _ (offs cyl) (offs u) cap hinb (by rw [hPl]; exact inv.lay.disj cyl u hc hu (Ne.symm hne))]
  -- the identity of positions
  obtain ⟨w, hw⟩ := hident ((FG f cur).drop c0) ((FG f cur).take c0) (gfield f tgt.fld) (List.take_append_drop _ _)
  have hgaps' : (As' ++ tgt :: Bs').map (·.gap) = gaps := by rw [← hsecs']; exact inv.gapsEq cyl hc
  have htake : (FG f tgt).take (16 + f.dataNibs) = gfield f tgt.fld := by
    unfold FG; rw [List.take_left' (length_gfield f tgt.fld hgt.2.1)]
  have hgoodAll : ∀ s ∈ As' ++ tgt :: Bs', GoodFld f s.fld := fun s hs => (igood cyl hc s (by rw [hsecs']; exact hs)).2.1
  have hhb' : blen (gsecsCells f vol cyl As' ++ addrCells f vol cyl tgt.id ++ gfield f tgt.fld) =
      headBits f gaps As'.length (16 + f.dataNibs) := by
    rw [← htake, headBits_eq f vol cyl As' Bs' tgt _ hgoodAll, hgaps']
  rw [headBits_eq f vol cyl As Bs cur c0 (fun s hs => (igood cyl hc s (by rw [hsplit]; exact hs)).2.1),
    ← hsplit, inv.gapsEq cyl hc, hAl, hhb', hn] at hw
  have hq' : o + headBits f gaps a c0 + blen ((FG f cur).drop c0 ++ gsecsCells f vol cyl l1 ++ addrCells f vol cyl tgt.id ++ gfield f tgt.fld) =
      o + headBits f gaps As'.length (16 + f.dataNibs) + w * n := by omega
  have hpos : t'.pos = (o + headBits f gaps As'.length (16 + f.dataNibs)) % n := by
    have hp := hst.2.2.2
    rw [hp, Nat.add_zero, hq', Nat.add_mul_mod_self_right]
  -- canonical form of the written track
  have hgenc : GoodFld f (some enc) := by rw [← henc]; exact goodFld_enc f (quant dat)
  have hcanon : Canon n (TrackRep.unload t' : List Bool) o
      (gsecsCells f vol cyl (As' ++ { tgt with fld := some enc } :: Bs')) := by
    have h1 := canon_of_st hst
    have hX : ahead f vol cyl { tgt with fld := some enc } rest (syncCells f tgt.gap) (fieldCells f enc) =
        (syncCells f tgt.gap ++ gsecsCells f vol cyl Bs') ++
        (gsecsCells f vol cyl As' ++ addrCells f vol cyl tgt.id ++ fieldCells f enc) := by
      simp [ahead, hrest, gsecsCells_append, List.append_assoc]
    rw [hX] at h1
    have h2 := canon_rotate _ _ h1
    have hbl : blen (syncCells f tgt.gap ++ gsecsCells f vol cyl Bs') +
        blen (gsecsCells f vol cyl As' ++ addrCells f vol cyl tgt.id ++ fieldCells f enc) = n := by
      have := h1.2.2.1; rw [blen_append] at this; exact this
    have hbe : blen (gsecsCells f vol cyl As' ++ addrCells f vol cyl tgt.id ++ fieldCells f enc) =
        headBits f gaps As'.length (16 + f.dataNibs) := by
      rw [← hhb']
      simp only [blen_append]
      have e1 := blen_gfield f tgt.fld hgt.2.1
      have e2 := blen_gfield f (some enc) hgenc
      simp only [gfield] at e2
      omega
    refine canon_congr h2 ?_ ?_
    · simp [gsecsCells_append, gsecsCells_cons, gsecCells, FG, gfield, List.append_assoc]
    · rw [hq']
      have : o + headBits f gaps As'.length (16 + f.dataNibs) + w * n + blen (syncCells f tgt.gap ++ gsecsCells f vol cyl Bs') =
          o + (w + 1) * n := by rw [Nat.add_mul]; omega
      rw [this, Nat.add_mul_mod_self_right]
  have hgood' : GoodG f { tgt with fld := some enc } := hF'.good _ (by simp)
  refine ⟨trivial, ?_, ?_, ?_⟩
  · exact length_splice _ _ _ hinb
  · intro i hi
    show (splice img.bytes (offs cyl) _)[i]? = _
    rw [getElem?_splice _ _ _ _ hinb, hPl]
    rcases hi with hi | hi
    · rw [if_pos hi]
    · rw [if_neg (by omega), if_neg (by omega)]
  · have hfe : fmtOf { img with
        bytes := splice img.bytes (offs cyl) (pack (TrackRep.unload t' ++ (unpack ((img.bytes.drop (offs cyl)).take cap)).drop n)),
        headPtr := some t'.pos } cap = f := hf
    refine {
      lay := layout_congr inv.lay rfl rfl rfl rfl rfl (length_splice _ _ _ hinb)
      vol_lt := inv.vol_lt
      sync := by rw [hfe, ← hf]; exact inv.sync
      canon := ?_
      gapsEq := ?_
      idsEq := ?_
      good := ?_
      nodup := inv.nodup
      len := inv.len
      ha := ?_
      hc0 := ?_
      ptr := ?_
      slack := slackOk_zero _
      kle := Nat.zero_le _ }
    · intro u hu
      rw [hfe]
      show Canon n (trackBits (splice img.bytes (offs cyl) _) (offs u) cap n) o _
      by_cases hue : u = cyl
      · subst hue; simp only [setSecs, if_true]; rw [hnew]; exact hcanon
      · simp only [setSecs, if_neg hue]; rw [hother u hu hue]; exact icanon u hu
    · intro u hu
      by_cases hue : u = cyl
      · subst hue; simp only [setSecs, if_true]; rw [← hgaps']; simp
      · simp only [setSecs, if_neg hue]; exact inv.gapsEq u hu
    · intro u hu
      by_cases hue : u = cyl
      · subst hue; simp only [setSecs, if_true]; rw [← inv.idsEq u hu, hsecs']; simp
      · simp only [setSecs, if_neg hue]; exact inv.idsEq u hu
    · intro u hu s hs'
      rw [hfe]
      by_cases hue : u = cyl
      · subst hue
        simp only [setSecs, if_true, List.mem_append, List.mem_cons] at hs'
        rcases hs' with h | h | h
        · exact igood u hu s (by rw [hsecs']; simp [h])
        · subst h; exact hgood'
        · exact igood u hu s (by rw [hsecs']; simp [h])
      · simp only [setSecs, if_neg hue] at hs'; exact igood u hu s hs'
    · have := congrArg List.length (inv.idsEq cyl hc)
      rw [hsecs'] at this
      simp only [List.length_map, List.length_append, List.length_cons] at this
      omega
    · rw [hfe]; omega
    · rw [hfe]
      show startPtr { img with bytes := _, headPtr := some t'.pos } n = _
      rw [startPtr_some _ n t'.pos rfl (by rw [hpos]; exact Nat.mod_lt _ hnpos), hpos]; rfl

/-- **Invalid addresses are refused, and refusing changes nothing**: a head other than 0, a track beyond
the 35 tracks, a sector number above 255 (`Err(..)` of the image layer) and a sector number that is on no
address field of the format (`SectorNotFound` after 32 tries) — for reads and writes; the image, including
the carried head position, is exactly as before. -/
theorem img_refuse {img : TrackImg} {offs : Nat → Nat} {cap n vol o : Nat} {gaps ids : List Nat}
    {secs : Nat → List GSec} {a c0 k : Nat} (inv : ImgInv img offs cap n vol o gaps ids secs a c0 k)
    (cyl head sec : Nat) (dat : List Nat)
    (hbad : 1 ≤ head ∨ 35 ≤ cyl ∨ 255 < sec ∨ (cyl < 35 ∧ sec ∉ ids)) :
    (∃ r, readSector Trk img cyl head sec = (r, img) ∧ (r = .err ∨ r = .nib .sectorNotFound)) ∧
    (∃ r, writeSector Trk img cyl head sec dat = (r, img) ∧ (r = .err ∨ r = .nib .sectorNotFound)) := by
  by_cases hh : 1 ≤ head
  · have : head ≥ 1 := hh
    exact ⟨⟨.err, by simp only [readSector, cylHeadToTrack, this, if_true], Or.inl rfl⟩,
      ⟨.err, by simp only [writeSector, cylHeadToTrack, this, if_true], Or.inl rfl⟩⟩
  have hh0 : ¬ head ≥ 1 := hh
  by_cases hcy : 35 ≤ cyl
  · have : cyl ≥ 35 := hcy
    exact ⟨⟨.err, by simp only [readSector, cylHeadToTrack, hh0, if_false, inv.lay.tracks, this, if_true], Or.inl rfl⟩,
      ⟨.err, by simp only [writeSector, cylHeadToTrack, hh0, if_false, inv.lay.tracks, this, if_true], Or.inl rfl⟩⟩
  have hcy0 : ¬ cyl ≥ 35 := hcy
  by_cases hse : 255 < sec
  · have : sec > 255 := hse
    exact ⟨⟨.err, by simp only [readSector, cylHeadToTrack, hh0, if_false, inv.lay.tracks, hcy0, this, if_true], Or.inl rfl⟩,
      ⟨.err, by simp only [writeSector, cylHeadToTrack, hh0, if_false, inv.lay.tracks, hcy0, this, if_true], Or.inl rfl⟩⟩
  have hc : cyl < 35 := by omega
  have hnot : sec ∉ ids := by
    rcases hbad with h | h | h | h
    · exact absurd h hh
    · exact absurd h hcy
    · exact absurd h hse
    · exact h.2
  have hh00 : head = 0 := by omega
  subst hh00
  obtain ⟨As, cur, Bs, hsplit, hAl, hF⟩ := access_gfmt inv cyl hc
  have hne : ∀ s ∈ cur :: (Bs ++ As), s.id ≠ sec := by
    intro s hs' he
    apply hnot
    rw [← inv.idsEq cyl hc, hsplit, ← he]
    simp only [List.mem_cons, List.mem_append] at hs'
    apply List.mem_map_of_mem
    simp only [List.mem_append, List.mem_cons]
    rcases hs' with h | h | h
    · exact Or.inr (Or.inl h)
    · exact Or.inr (Or.inr h)
    · exact Or.inl h
  obtain ⟨⟨t1, h1⟩, h2⟩ := sector_missing_gfmt inv.vol_lt (by omega) hF sec hne
  obtain ⟨t2, h2⟩ := h2 (quant dat)
  refine ⟨⟨.nib .sectorNotFound, ?_, Or.inr rfl⟩, ⟨.nib .sectorNotFound, ?_, Or.inr rfl⟩⟩
  · rw [readSector_eq inv.lay cyl sec hc (by omega)]; simp only [h1]
  · rw [writeSector_eq inv.lay cyl sec dat hc (by omega)]; simp only [h2]

end A2Verif.Model.TrackImg
