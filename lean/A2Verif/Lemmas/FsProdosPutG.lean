import A2Verif.Lemmas.FsProdosPutF
/-!
# `put`: the writes to the directory

`dirPatch_of_same`: an image whose directory blocks agree with the old ones outside one slot and outside the file count of the
key block is a `DirPatch`.  `writeEntry_next`: `write_entry` as a step.
-/
namespace A2Verif.FsProdos
open A2Verif.Fs.Prodos
open A2Verif.Read.Prodos (entryAt dirChain idxPtr indexEntries readData trimName)
open A2Verif.Read.ProdosT

theorem dirPatch_of_same {r r' : Raw} {ch : List Nat} {B k : Nat}
    (hsize : r'.units.size = r.units.size)
    (hshape : ∀ b ∈ ch, (unitAt r b).length = 512)
    (hshape' : ∀ b ∈ ch, (unitAt r' b).length = 512 ∧ ∀ x ∈ unitAt r' b, x < 256)
    (h2 : 2 ∈ ch) (hkey : B = 2 → 1 ≤ k)
    (hsame : ∀ b ∈ ch, ∀ j, j < 511 → (b = B → j < 4 + k * 39 ∨ 4 + k * 39 + 39 ≤ j) → (b = 2 → j ≠ 37 ∧ j ≠ 38) →
      (unitAt r' b).getD j 0 = (unitAt r b).getD j 0) :
    DirPatch r r' ch B k := by
  refine ⟨hsize, ?_, ?_, ?_, hshape'⟩
  · intro b hb
    unfold le16
    rw [hsame b hb 0 (by omega) (fun _ => Or.inl (by omega)) (fun _ => by omega),
      hsame b hb 1 (by omega) (fun _ => Or.inl (by omega)) (fun _ => by omega),
      hsame b hb 2 (by omega) (fun _ => Or.inl (by omega)) (fun _ => by omega),
      hsame b hb 3 (by omega) (fun _ => Or.inl (by omega)) (fun _ => by omega)]
    exact ⟨rfl, rfl⟩
  · intro j hj
    apply hsame 2 h2 j (by omega)
    · intro hb2; have := hkey hb2.symm; left; omega
    · intro _; omega
  · intro b hb k' hk' hkey' hne
    unfold entryAt
    apply slice_congr _ _ _ _ (by rw [(hshape' b hb).1, hshape b hb])
    intro j hj1 hj2
    apply hsame b hb j (by omega)
    · intro hbB
      have hkk : k' ≠ k := fun e => hne (by rw [hbB, e])
      have : k' < k ∨ k < k' := by omega
      rcases this with h | h
      · have : k' * 39 + 39 ≤ k * 39 := by have := Nat.mul_le_mul_right 39 (show k' + 1 ≤ k by omega); omega
        left; omega
      · have : k * 39 + 39 ≤ k' * 39 := by have := Nat.mul_le_mul_right 39 (show k + 1 ≤ k' by omega); omega
        right; omega
    · intro hb2
      have := hkey' hb2
      have : 39 ≤ k' * 39 := by have := Nat.mul_le_mul_right 39 this; omega
      omega

/-- `write_entry` on slot `k + 1` of a directory block `B` (a key block has its header in slot 1): the block is rewritten with
the entry's 39 bytes in place, its bitmap bit is cleared -/
theorem writeEntry_next' {d : Disk} {bm cnt : Nat} (st : St d bm cnt) (B k : Nat) (hBnb : B ∉ bmRange bm cnt)
    (hBsz : B < d.raw.units.size) (hcov : B / 8 < (effBuf d bm cnt).size) (hlen : (unitAt d.raw B).length = 512)
    (hk13 : k < 13) (hkok : kindOf B (unitAt d.raw B) ≠ DKind.entry → 1 ≤ k) (e : Bytes) :
    ∃ d1, writeEntry { block := B, idx := k + 1 } e d = (.ok (), d1) ∧
      Next d d1 bm cnt (setUnit d.raw B (patched (unitAt d.raw B) (4 + k * 39) (e.take entryLen))) (clearBit (effBuf d bm cnt) B) := by
  have hkey : B = 2 → 1 ≤ k := by
    intro hb; apply hkok; subst hb; unfold kindOf; simp [volKeyBlock]
  have hoff : Dir.entryOff (k + 1) = 4 + k * 39 := by rw [entryOff_eq' _ (by omega)]; simp
  have hgd := getDirectory_st st B (unitAt d.raw B) hBnb (units_get_unitAt _ _ hBsz)
  have hge : Dir.getEntry { kind := kindOf B (unitAt d.raw B), bytes := (unitAt d.raw B).take dirLen } (k + 1) =
      some (entryAt (unitAt d.raw B) k 39) := getEntry_std _ _ k hk13 hkok
  have hidx : Dir.idxOk { kind := kindOf B (unitAt d.raw B), bytes := (unitAt d.raw B).take dirLen } (k + 1) = true := by
    unfold Dir.getEntry at hge
    split at hge
    · assumption
    · cases hge
  have hhdr : B = 2 →
      le16 (quantize ((splice ((unitAt d.raw B).take dirLen) (Dir.entryOff (k + 1)) (e.take entryLen)).take blockSize)) 39 = bm := by
    intro hb2
    have hk1 := hkey hb2
    show le16 (patched (unitAt d.raw B) (Dir.entryOff (k + 1)) (e.take entryLen)) 39 = bm
    have hl : (e.take entryLen).length ≤ 39 := by rw [List.length_take]; unfold entryLen; omega
    rw [hoff, le16_patched_out _ _ _ 39 hlen (by omega) (Or.inl (by omega)) (by omega)]
    obtain ⟨kb, hkb, hbm⟩ := st.hdr
    rw [hb2, unitAt_of_get hkb]; exact hbm
  obtain ⟨d1, hd1, n1⟩ := writeBlock_next st (splice ((unitAt d.raw B).take dirLen) (Dir.entryOff (k + 1)) (e.take entryLen)) B hBnb
    hBsz hcov hhdr
  refine ⟨d1, ?_, ?_⟩
  · unfold writeEntry
    simp only [bind_def]
    rw [bind_ok _ _ d d _ hgd]
    simp only [Dir.setEntry, hidx, ↓reduceIte]
    rw [bind_ok _ _ d d _ (ofOption_some _ d)]
    exact hd1
  · have : quantize ((splice ((unitAt d.raw B).take dirLen) (Dir.entryOff (k + 1)) (e.take entryLen)).take blockSize) =
        patched (unitAt d.raw B) (4 + k * 39) (e.take entryLen) := by rw [← hoff]; rfl
    rw [this] at n1
    exact n1

/-- the kind of a block of the volume directory's chain is not `entry` only for block 2 -/
theorem kok_of_root {B k : Nat} {blk : Bytes} (hkey : B = 2 → 1 ≤ k) (hkind : B ≠ 2 → kindOf B blk = DKind.entry) :
    kindOf B blk ≠ DKind.entry → 1 ≤ k := by
  intro hne
  by_cases hb : B = 2
  · exact hkey hb
  · exact absurd (hkind hb) hne

theorem writeEntry_next {d : Disk} {bm cnt : Nat} (st : St d bm cnt) (B k : Nat) (hBnb : B ∉ bmRange bm cnt)
    (hBsz : B < d.raw.units.size) (hcov : B / 8 < (effBuf d bm cnt).size) (hlen : (unitAt d.raw B).length = 512)
    (hk13 : k < 13) (hkey : B = 2 → 1 ≤ k) (hkind : B ≠ 2 → kindOf B (unitAt d.raw B) = DKind.entry) (e : Bytes) :
    ∃ d1, writeEntry { block := B, idx := k + 1 } e d = (.ok (), d1) ∧
      Next d d1 bm cnt (setUnit d.raw B (patched (unitAt d.raw B) (4 + k * 39) (e.take entryLen))) (clearBit (effBuf d bm cnt) B) :=
  writeEntry_next' st B k hBnb hBsz hcov hlen hk13 (kok_of_root hkey hkind) e

end A2Verif.FsProdos
