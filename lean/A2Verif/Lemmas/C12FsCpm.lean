import A2Verif.Model.C12FsId
/-!
# C12 read paths of the concrete CP/M model on arbitrary images: lemmas

The CP/M model is pure and its panics are explicit: `expect("directory broken")` of `get_directory`, the directory
index of `Timestamp::get`, `dir[i]` for the entry indices `build_files` collected, the two arithmetic sites that
the repairs remove.  Shown here: `build_files` only ever collects indices of entries it has walked (so `read_file`'s
`dir.get_entry` is in range), `getFile` returns one of the collected records, `readPtrs` cannot panic.  Core Lean.
-/
namespace A2Verif.C12FsId.Cpm
open A2Verif.Fs.Cpm
open A2Verif.Read.Cpm (Dpb)

/-! ## `build_files` collects entry indices below the directory size -/

/-- every collected entry index is below `n` -/
def EntriesLt (n : Nat) (files : List FileInfo) : Prop := ∀ fi ∈ files, ∀ p ∈ fi.entries, p.2 < n

theorem mem_insertEntry {k v : Nat} : ∀ {l : List (Nat × Nat)} {p : Nat × Nat}, p ∈ insertEntry k v l → p = (k, v) ∨ p ∈ l := by
  intro l
  induction l with
  | nil => intro p h; simp [insertEntry] at h; exact Or.inl h
  | cons hd tl ih =>
    intro p h
    obtain ⟨k', v'⟩ := hd
    unfold insertEntry at h
    split at h
    · rcases List.mem_cons.1 h with h | h
      · exact Or.inl h
      · exact Or.inr h
    · split at h
      · rcases List.mem_cons.1 h with h | h
        · exact Or.inl h
        · exact Or.inr (List.mem_cons_of_mem _ h)
      · rcases List.mem_cons.1 h with h | h
        · exact Or.inr (by rw [h]; exact List.mem_cons_self)
        · rcases ih h with h | h
          · exact Or.inl h
          · exact Or.inr (List.mem_cons_of_mem _ h)

theorem tsGet_entries {dir : Dir} {lab : Bytes} {lx0 : Nat} {info fi : FileInfo} (h : tsGet dir lab lx0 info = .ok fi) :
    fi.entries = info.entries := by
  unfold tsGet at h
  split at h
  · cases h; rfl
  · simp only [] at h
    split at h
    · cases h
    · split at h
      · cases h
      · split at h
        · cases h
        · cases h; rfl

theorem upsert_entriesLt {n : Nat} {k : Bytes} {mk : Unit → FileInfo} {f : FileInfo → R FileInfo}
    (hmk : ∀ p ∈ (mk ()).entries, p.2 < n)
    (hf : ∀ fi fi', (∀ p ∈ fi.entries, p.2 < n) → f fi = .ok fi' → ∀ p ∈ fi'.entries, p.2 < n) :
    ∀ {files files' : List FileInfo}, EntriesLt n files → upsert k mk f files = .ok files' → EntriesLt n files' := by
  intro files
  induction files with
  | nil =>
    intro files' _ h
    unfold upsert at h
    cases hr : f (mk ()) with
    | error e => rw [hr] at h; cases h
    | ok fi =>
      rw [hr] at h
      cases h
      intro x hx
      rcases List.mem_singleton.1 hx with rfl
      exact hf _ _ hmk hr
  | cons fi rest ih =>
    intro files' hlt h
    unfold upsert at h
    split at h
    · cases hr : f fi with
      | error e => rw [hr] at h; cases h
      | ok fi' =>
        rw [hr] at h
        cases h
        intro x hx
        rcases List.mem_cons.1 hx with rfl | hx
        · exact hf _ _ (hlt fi List.mem_cons_self) hr
        · exact hlt x (List.mem_cons_of_mem _ hx)
    · cases hr : upsert k mk f rest with
      | error e => rw [hr] at h; cases h
      | ok rest' =>
        rw [hr] at h
        cases h
        have := ih (fun x hx => hlt x (List.mem_cons_of_mem _ hx)) hr
        intro x hx
        rcases List.mem_cons.1 hx with rfl | hx
        · exact hlt _ List.mem_cons_self
        · exact this x hx

theorem buildLoop_entriesLt (d : Dpb) (v3 : Bool) (dir : Dir) (lab : Option Bytes) (N : Nat)
    (es : List Bytes) (i bad : Nat) (ans files : List FileInfo) (hN : i + es.length = N) (hlt : EntriesLt N ans)
    (h : buildLoop d v3 dir lab es i bad ans = .ok files) : EntriesLt N files := by
  fun_induction buildLoop d v3 dir lab es i bad ans
  case case1 => cases h; exact hlt
  case case2 => cases h
  case case3 => cases h
  case case4 => cases h
  case case5 => cases h
  case case6 => cases h
  case case7 e rest i badNames ans _ _ _ _ key nm ty _ _ _ _ _ step ans' hup ih =>
    refine ih (by simp only [List.length_cons] at hN; omega) ?_ h
    refine upsert_entriesLt (n := N) ?_ ?_ hlt hup
    · intro p hp; cases hp
    · intro fi fi' hfi hstep p hp
      -- the step inserts `(dataPtr, i)` and possibly reads the time stamps
      have key : ∀ q ∈ insertEntry (Ext.dataPtr e) i fi.entries, q.2 < N := by
        intro q hq
        rcases mem_insertEntry hq with rfl | hq
        · simp only [List.length_cons] at hN ⊢; omega
        · exact hfi q hq
      simp only [step] at hstep
      split at hstep
      · split at hstep
        · split at hstep
          · rw [tsGet_entries hstep] at hp; exact key p hp
          · cases hstep; exact key p hp
        · cases hstep; exact key p hp
      · cases hstep; exact key p hp
  case case8 e rest i badNames ans _ _ _ _ ih =>
    exact ih (by simp only [List.length_cons] at hN; omega) hlt h

theorem buildFiles_entriesLt {d : Dpb} {v3 : Bool} {dir : Dir} {files : List FileInfo}
    (h : buildFiles d v3 dir = .ok files) : EntriesLt dir.length files := by
  unfold buildFiles at h
  exact buildLoop_entriesLt d v3 dir (findLabel dir) dir.length dir 0 0 [] files (by omega) (fun fi hfi => by cases hfi) h

theorem lookupKey_mem {files : List FileInfo} {k : Bytes} {fi : FileInfo} (h : lookupKey files k = some fi) : fi ∈ files :=
  List.mem_of_find?_eq_some h

theorem getFile_mem {xname : Bytes} {files : List FileInfo} {fi : FileInfo} (h : getFile xname files = some fi) : fi ∈ files := by
  unfold getFile at h
  simp only [] at h
  generalize (if xname.contains 46 then trimEnd xname else trimEnd xname ++ [46]) = t at h
  cases h1 : lookupKey files t with
  | some a => rw [h1] at h; cases h; exact lookupKey_mem h1
  | none =>
    rw [h1] at h
    simp only [] at h
    cases h2 : lookupKey files (upper t) with
    | some a => rw [h2] at h; cases h; exact lookupKey_mem h2
    | none =>
      rw [h2] at h
      simp only [] at h
      split at h
      · cases h
      · cases h3 : lookupKey files ([48, 58] ++ t) with
        | some a => rw [h3] at h; cases h; exact lookupKey_mem h3
        | none => rw [h3] at h; exact lookupKey_mem h

/-! ## reading -/

theorem readPtrs_ne_panic (d : Dpb) (r : Raw) : ∀ (ps : List Nat) (bc : Nat) (cs : List (Nat × Bytes)),
    readPtrs d r ps bc cs ≠ .error .panic := by
  intro ps
  induction ps with
  | nil => intro bc cs; simp [readPtrs]
  | cons p ps ih =>
    intro bc cs
    unfold readPtrs
    split
    · simp
    · split
      · unfold readBlock
        cases hu : r.units[p]? with
        | none => simp
        | some b => exact ih _ _
      · exact ih _ _

theorem readLoopV_fixed_ne_panic (absIdx : Bool) (d : Dpb) (r : Raw) (dir : Dir) (finfo : FileInfo) :
    ∀ (es : List (Nat × Nat)) (bc prev : Nat) (g : Got), (∀ p ∈ es, p.2 < dir.length) →
      readLoopV true absIdx d r dir finfo es bc prev g ≠ .error .panic := by
  intro es
  induction es with
  | nil => intro bc prev g _; simp [readLoopV]
  | cons p rest ih =>
    intro bc prev g hlt
    obtain ⟨k, i⟩ := p
    have hi : i < dir.length := hlt (k, i) List.mem_cons_self
    have hrest : ∀ q ∈ rest, q.2 < dir.length := fun q hq => hlt q (List.mem_cons_of_mem _ hq)
    unfold readLoopV
    rw [List.getElem?_eq_getElem hi]
    simp only []
    split
    · exact ih _ _ _ hrest
    · split
      · simp
      · split
        · simp
        · have hp := readPtrs_ne_panic d r (Ext.blockList d dir[i])
          split
          · rename_i e he; intro hh; cases hh; exact hp _ _ he
          · exact ih _ _ _ hrest

/-! ## `Timestamp::get` stays inside a directory whose size is a multiple of four -/

theorem tsGet_ne_panic {dir : Dir} {lab : Bytes} {lx0 : Nat} {info : FileInfo} (h4 : dir.length % 4 = 0) (hl : lx0 < dir.length) :
    tsGet dir lab lx0 info ≠ .error .panic := by
  unfold tsGet
  split
  · simp
  · simp only []
    have : 4 * (1 + lx0 / 4) - 1 < dir.length := by omega
    rw [List.getElem?_eq_getElem this]
    simp only []
    split
    · simp
    · split <;> simp

theorem upsert_ne_panic {k : Bytes} {mk : Unit → FileInfo} {f : FileInfo → R FileInfo} (hf : ∀ fi, f fi ≠ .error .panic) :
    ∀ files : List FileInfo, upsert k mk f files ≠ .error .panic := by
  intro files
  induction files with
  | nil =>
    unfold upsert
    cases hr : f (mk ()) with
    | error e => simp only []; intro hh; cases hh; exact hf _ hr
    | ok fi => simp
  | cons fi rest ih =>
    unfold upsert
    split
    · cases hr : f fi with
      | error e => simp only []; intro hh; cases hh; exact hf _ hr
      | ok fi' => simp
    · cases hr : upsert k mk f rest with
      | error e => simp only []; intro hh; cases hh; exact ih hr
      | ok rest' => simp

theorem buildLoop_ne_panic (d : Dpb) (v3 : Bool) (dir : Dir) (lab : Option Bytes) (h4 : dir.length % 4 = 0)
    (es : List Bytes) (i bad : Nat) (ans : List FileInfo) (hle : i + es.length ≤ dir.length) :
    buildLoop d v3 dir lab es i bad ans ≠ .error .panic := by
  fun_induction buildLoop d v3 dir lab es i bad ans
  case case1 => simp
  case case2 => simp
  case case3 => simp
  case case4 => simp
  case case5 => simp
  case case6 e rest i badNames ans _ _ _ _ key nm ty _ _ _ _ _ step err hup =>
    have hi : i < dir.length := by simp only [List.length_cons] at hle; omega
    have hstep : ∀ fi : FileInfo, step fi ≠ .error .panic := by
      intro fi
      simp only [step]
      split
      · split
        · split
          · exact tsGet_ne_panic h4 hi
          · simp
        · simp
      · simp
    intro hh
    cases hh
    exact upsert_ne_panic hstep ans hup
  case case7 e rest i badNames ans _ _ _ _ key nm ty _ _ _ _ _ step ans' hup ih =>
    exact ih (by simp only [List.length_cons] at hle; omega)
  case case8 e rest i badNames ans _ _ _ _ ih =>
    exact ih (by simp only [List.length_cons] at hle; omega)

theorem buildFiles_ne_panic {d : Dpb} {v3 : Bool} {dir : Dir} (h4 : dir.length % 4 = 0) : buildFiles d v3 dir ≠ .error .panic := by
  unfold buildFiles
  exact buildLoop_ne_panic d v3 dir (findLabel dir) h4 dir 0 0 [] (by omega)

theorem getDirectory_length {d : Dpb} {r : Raw} {dir : Dir} (h : getDirectory d r = .ok dir) : dir.length = dirEntries d := by
  unfold getDirectory at h
  split at h
  · cases h
  · simp only [] at h
    split at h
    · cases h
    · cases h; simp

end A2Verif.C12FsId.Cpm
