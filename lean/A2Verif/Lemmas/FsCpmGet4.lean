import A2Verif.Lemmas.FsCpmGet3
import A2Verif.Lemmas.FsCpmAccept5
/-!
# `get` in terms of the reading (for `Props/FsCpm.lean`); the file `put` writes has full extents in the middle
-/
namespace A2Verif.FsCpm
open A2Verif.Fs.Cpm
open A2Verif.Read.Cpm (Dpb fileKey extNum entryPtrs pathOf slots trimR)

/-- the record of the reading under `p` comes from entries that are full in the middle (a hypothesis for the code as written) -/
def MidFullAt (d : Dpb) (r : Raw) (p : Bytes) : Prop :=
  ∀ k ∈ keys d r, (recOf r d (dirOf d r) (esOf d r k)).path = p → MidFull d (esOf d r k)

instance (d : Dpb) (es : List Bytes) : Decidable (MidFull d es) := by unfold MidFull; infer_instance
instance (d : Dpb) (r : Raw) (p : Bytes) : Decidable (MidFullAt d r p) := by unfold MidFullAt; infer_instance

/-- **`get` is the reading**: a name the reader lists is fetched, chunk for chunk, with the reader's length (as a `u32`) -/
theorem get_is_reading {d : Dpb} {r : Raw} {x : Bytes} {absIdx : Bool} {f : FileRec} (h : Inv d r) (hd : DpbPut d)
    (hb : okB (buildFiles d d.v3 (dirOf d r)) = true) (hx : isXnameValid x = true)
    (hf : (volOf d r).lookup (canon x) = some f) (hm : absIdx = true ∨ MidFullAt d r (canon x)) :
    ∃ g, Fs.Cpm.get d r x absIdx = .ok g ∧ g.chunks = f.chunks ∧ g.eof = f.eof % 4294967296 := by
  cases hbf : buildFiles d d.v3 (dirOf d r) with
  | error e => rw [hbf] at hb; cases hb
  | ok files =>
    obtain ⟨u, name, hsplit, hvalid, _⟩ := xname_parts hx
    obtain ⟨hm0, hq⟩ := lookup_some hf
    have hm' : f ∈ (keys d r).map (fun k => recOf r d (dirOf d r) (esOf d r k)) := hm0
    rw [List.mem_map] at hm'
    obtain ⟨K, hK, rfl⟩ := hm'
    obtain ⟨fi, hg⟩ := found_of_present h hbf hsplit hvalid hK hq
    obtain ⟨K0, hK0, hpath, hget⟩ := get_spec (absIdx := absIdx) h hd hbf hg hx
    have ndpre : ((keys d r).map (fun k => (recOf r d (dirOf d r) (esOf d r k)).path)).Nodup := by
      have := wfB_paths_nodup (volOf_wf h)
      unfold Vol.paths at this
      have e : (volOf d r).files = (keys d r).map (fun k => recOf r d (dirOf d r) (esOf d r k)) := rfl
      rw [e, List.map_map] at this
      exact this
    have hKK : K0 = K := nodup_map_inj ndpre hK0 hK (by rw [hpath, hq])
    subst hKK
    exact hget (hm.imp id (fun c => c K0 hK0 hpath))

/-- a name the reader does not list is reported missing -/
theorem get_missing {d : Dpb} {r : Raw} {x : Bytes} {absIdx : Bool} (h : Inv d r)
    (hb : okB (buildFiles d d.v3 (dirOf d r)) = true) (hf : (volOf d r).lookup (canon x) = none) :
    Fs.Cpm.get d r x absIdx = .error .fileNotFound := by
  cases hbf : buildFiles d d.v3 (dirOf d r) with
  | error e => rw [hbf] at hb; cases hb
  | ok files =>
    have hg := getFile_none_of_absent h hbf hf
    unfold Fs.Cpm.get
    rw [getDirectory_eq h.shape h.dpb]
    simp only [hbf, hg]

/-- whatever `get` returns successfully is the file of the reading under `canon x` -/
theorem get_sound {d : Dpb} {r : Raw} {x : Bytes} {absIdx : Bool} {g : Got} (h : Inv d r) (hd : DpbPut d)
    (hget : Fs.Cpm.get d r x absIdx = .ok g) (hm : absIdx = true ∨ MidFullAt d r (canon x)) :
    ∃ f, (volOf d r).lookup (canon x) = some f ∧ g.chunks = f.chunks ∧ g.eof = f.eof % 4294967296 := by
  unfold Fs.Cpm.get at hget
  rw [getDirectory_eq h.shape h.dpb] at hget
  simp only [] at hget
  cases hbf : buildFiles d d.v3 (dirOf d r) with
  | error e => rw [hbf] at hget; cases hget
  | ok files =>
    rw [hbf] at hget
    simp only [] at hget
    cases hg : getFile x files with
    | none => rw [hg] at hget; cases hget
    | some fi =>
      rw [hg] at hget
      simp only [] at hget
      by_cases hx : isXnameValid x = true
      · obtain ⟨K0, hK0, hpath, hgs⟩ := get_spec (absIdx := absIdx) h hd hbf hg hx
        have hl : (volOf d r).lookup (canon x) = some (recOf r d (dirOf d r) (esOf d r K0)) := by
          rw [← hpath]
          unfold Vol.lookup
          exact find_path_of_mem (wfB_paths_nodup (volOf_wf h))
            (List.mem_map_of_mem (f := fun k => recOf r d (dirOf d r) (esOf d r k)) hK0)
        obtain ⟨g', e1, e2, e3⟩ := hgs (hm.imp id (fun c => c K0 hK0 hpath))
        have hget' : Fs.Cpm.get d r x absIdx = .ok g := by
          unfold Fs.Cpm.get
          rw [getDirectory_eq h.shape h.dpb]
          simp only [hbf, hg]
          exact hget
        rw [hget'] at e1
        cases e1
        exact ⟨_, hl, e2, e3⟩
      · rw [if_pos (by simpa using hx)] at hget
        cases hget

end A2Verif.FsCpm
