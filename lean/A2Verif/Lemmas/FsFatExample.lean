import A2Verif.Lemmas.FsFatAttr
/-!
# A concrete state that satisfies the invariant (non-vacuity), built by the model itself

A 24-sector FAT12 volume (1 boot sector, 2 FATs of 1 sector, 1 root sector = 16 entries, 20 data clusters) is formatted
by the model's `format` and receives a two-cluster file `A.B` by the model's `put`.  All checks run in the kernel.
-/
namespace A2Verif.FsFat
open A2Verif A2Verif.Fs.Fat A2Verif.Read.Fat A2Verif.Read.FatT

def exBoot : Bytes :=
  [0xeb, 0x58, 0x90] ++ [65, 50, 75, 73, 84, 51, 46, 55] ++
    [0, 2, 1, 1, 0, 2, 16, 0, 24, 0, 0xf8, 1, 0, 8, 0, 1, 0, 0, 0, 0, 0, 0, 0, 0, 0] ++ List.replicate (512 - 36) 0

def exStamp : Stamp := { tenths := 0, time := [0, 0], date := [0x21, 0x28] }
def exBlank : Disk :=
  Disk.ofImg { unitLen := 512, units := Array.replicate 24 (List.replicate 512 0) } (Bpb.ofBoot exBoot) false
def exDisk0 : Disk := (runFlush (format [86] exBoot exStamp) exBlank).2
def exFile : FImg :=
  { chunkLen := 512, fullPath := [65, 46, 66], eof := [3, 2, 0, 0], access := [0], created := [0, 0, 0, 0x21, 0x28],
    modified := [0, 0, 0x21, 0x28], chunks := [(0, List.replicate 512 7), (1, [1, 2, 3])] }
def exDisk : Disk := (runFlush (put exFile exStamp) exDisk0).2

/-! ## checkable forms of the parts of the invariant that are not decidable as stated -/

theorem bytesOk_of_all {f : Array Nat} (h : f.toList.all (fun x => decide (x < 256)) = true) : BytesOk f := by
  intro i
  unfold fn
  by_cases hi : i < f.size
  · have : f.getD i 0 = f[i] := by simp [Array.getD, hi]
    rw [this]
    have hm : f[i] ∈ f.toList := by simp
    have := List.all_eq_true.mp h _ hm
    simpa using this
  · have : f.getD i 0 = 0 := by simp [Array.getD, hi]
    rw [this]; omega

def nameGoodB (e : Bytes) : Bool :=
  match fileNameToSplit e with
  | some (nm, ty) => decide (entName e = (if ty = [] then nm else nm ++ [46] ++ ty)) && !nm.contains 46 && !ty.contains 46
  | none => false

theorem nameGood_of_check {e : Bytes} (h : nameGoodB e = true) : NameGood e := by
  unfold nameGoodB at h
  cases hn : fileNameToSplit e with
  | none => rw [hn] at h; cases h
  | some nt =>
    obtain ⟨nm, ty⟩ := nt
    rw [hn] at h
    simp only [Bool.and_eq_true, decide_eq_true_eq, Bool.not_eq_true'] at h
    exact ⟨nm, ty, hn, h.1.1, by simpa using h.1.2, by simpa using h.2⟩

def rootOkB (d : Disk) : Bool :=
  (dirOfBytes (rootBuf d)).all (fun e =>
    decide (e.getD 0 0 = 0) || decide (e.getD 0 0 = 0xE5) || decide (entryType e = .volumeLabel) ||
      (decide (e.getD 11 0 % 16 ≠ 15) && decide (e.getD 0 0 ≠ 46) && nameGoodB e))

theorem rootOk_of_check {d : Disk} (h : rootOkB d = true) : RootOk d := by
  intro e he h0 h5 hl
  have := List.all_eq_true.mp h e he
  simp only [Bool.or_eq_true, decide_eq_true_eq, Bool.and_eq_true] at this
  rcases this with ((h | h) | h) | h
  · exact absurd h h0
  · exact absurd h h5
  · exact absurd h hl
  · exact ⟨h.1.1, h.1.2, nameGood_of_check h.2⟩

/-- checkable form of `TailZero`: once a first name byte is 0, all later ones are -/
def tailZeroB : List Bytes → Bool
  | [] => true
  | e :: es => (if e.getD 0 0 = 0 then es.all (fun x => x.getD 0 0 == 0) else true) && tailZeroB es

theorem tailZero_of_check : ∀ {E : List Bytes}, tailZeroB E = true → TailZero E := by
  intro E
  induction E with
  | nil => intro _ i j e1 e2 _ h1; simp at h1
  | cons a t ih =>
    intro h i j e1 e2 hij h1 h2 hz
    simp only [tailZeroB, Bool.and_eq_true] at h
    cases j with
    | zero => omega
    | succ j =>
      rw [List.getElem?_cons_succ] at h2
      cases i with
      | zero =>
        rw [List.getElem?_cons_zero] at h1
        injection h1 with h1
        subst h1
        have h' := h.1
        rw [if_pos hz, List.all_eq_true] at h'
        have := h' e2 (List.mem_of_getElem? h2)
        simpa using this
      | succ i =>
        rw [List.getElem?_cons_succ] at h1
        exact ih h.2 i j e1 e2 (by omega) h1 h2 hz

def exFat : Array Nat := exDisk.fat.getD #[]

theorem exDisk_bpb : exDisk.bpb = Bpb.ofBoot exBoot := by decide +kernel
theorem exDisk_misc : exDisk.typ = 12 ∧ exDisk.labelFiles = false ∧ exDisk.raw.unitLen = 512 ∧ exDisk.raw.units.size = 24 ∧
    exDisk.raw.units[0]? = some exBoot ∧ exDisk.raw.units.toList.all (fun u => decide (u.length = 512)) = true := by decide +kernel

theorem exBpb_vals : (Bpb.ofBoot exBoot).bps = 512 ∧ (Bpb.ofBoot exBoot).spc = 1 ∧ (Bpb.ofBoot exBoot).nfat = 2 ∧
    (Bpb.ofBoot exBoot).fat16 = 1 ∧ (Bpb.ofBoot exBoot).spt = 8 ∧ (Bpb.ofBoot exBoot).heads = 1 ∧ (Bpb.ofBoot exBoot).fatType = 12 ∧
    (Bpb.ofBoot exBoot).rsvd = 1 ∧ (Bpb.ofBoot exBoot).firstDataSec = 4 ∧ (Bpb.ofBoot exBoot).totSec = 24 ∧
    (Bpb.ofBoot exBoot).fatSecs = 1 := by decide +kernel

theorem exDisk_geo : Geo exDisk := by
  obtain ⟨t1, t2, t3, t4, t5, t6⟩ := exDisk_misc
  obtain ⟨b1, b2, b3, b4, b5, b6, b7, b8, b9, b10, b11⟩ := exBpb_vals
  have hb := exDisk_bpb
  refine { boot := ⟨exBoot, t5, hb.symm⟩, ulen := t3, usz := ?_, bps := by rw [hb, b1], spc := by rw [hb, b2]; decide,
           nfat := by rw [hb, b3]; decide, fat16 := by rw [hb, b4]; decide, spt := by rw [hb, b5]; decide,
           heads := by rw [hb, b6]; decide, typ := t1, ftyp := by rw [hb, b7], rsvd := by rw [hb, b8]; decide,
           fits := by rw [hb, b9, b10, t4]; decide, chs := ?_ }
  · intro i h
    have hm : exDisk.raw.units[i] ∈ exDisk.raw.units.toList := by simp
    have := List.all_eq_true.mp t6 _ hm
    simpa using this
  · intro s hs
    rw [hb, b10] at hs
    rw [hb, b5, t4]
    omega

theorem exDisk_fat : exDisk.fat = some exFat ∧ exFat.size = 512 ∧ exFat.toList.all (fun x => decide (x < 256)) = true ∧
    (∀ k, k < 2 → exDisk.raw.units[1 + k]? = some (fatSector exFat 0)) := by decide +kernel

theorem exDisk_coh : Coh exDisk exFat := by
  obtain ⟨f1, f2, f3, f4⟩ := exDisk_fat
  obtain ⟨b1, b2, b3, b4, b5, b6, b7, b8, b9, b10, b11⟩ := exBpb_vals
  have hb := exDisk_bpb
  refine { isOpen := f1, size := by rw [hb, b11, f2], bytes := bytesOk_of_all f3, copies := ?_ }
  intro k j hk hj
  rw [hb, b3] at hk
  rw [hb, b11] at hj
  have hj0 : j = 0 := by omega
  subst hj0
  rw [hb, b8, b11]
  have := f4 k hk
  simpa using this

theorem exDisk_read : ∃ v, readT exDisk.raw = .ok v ∧ v.wfB = true ∧ v.noLeak = true := by
  have hok : (match readT exDisk.raw with | .ok v => v.wfB && v.noLeak | .error _ => false) = true := by decide +kernel
  cases h : readT exDisk.raw with
  | error e => rw [h] at hok; cases hok
  | ok v =>
    rw [h] at hok
    simp only [Bool.and_eq_true] at hok
    exact ⟨v, rfl, hok.1, hok.2⟩

/-- the example state satisfies the invariant -/
theorem exDisk_inv : Inv exDisk where
  lf := exDisk_misc.2.1
  geo := exDisk_geo
  coh := ⟨exFat, exDisk_coh⟩
  root := rootOk_of_check (by decide +kernel)
  tail := tailZero_of_check (by decide +kernel)
  read := exDisk_read

end A2Verif.FsFat
