import A2Verif.Lemmas.FsFatPutStep
import A2Verif.Lemmas.FsFatFormat
/-!
# A concrete state that satisfies the invariant (non-vacuity), built by the model itself

A 24-sector FAT12 volume (1 boot sector, 2 FATs of 1 sector, 1 root sector = 16 entries, 20 data clusters) is formatted
by the model's `format` and receives a two-cluster file `A.B` by the model's `put`.  That both states satisfy the invariant
follows from the theorems about `format` and `put` (their hypotheses are checked on the small terms `exBoot`, `exFile`);
`rootOk_of_check`/`tailZero_of_check`/`nameGood_of_check` are the checkable forms for states given otherwise.
-/
namespace A2Verif.FsFat
open A2Verif A2Verif.Fs.Fat A2Verif.Read.Fat A2Verif.Read.FatT

def exBoot : Bytes :=
  [0xeb, 0x58, 0x90] ++ [65, 50, 75, 73, 84, 51, 46, 55] ++
    [0, 2, 1, 1, 0, 2, 16, 0, 24, 0, 0xf8, 1, 0, 8, 0, 1, 0, 0, 0, 0, 0, 0, 0, 0, 0] ++ List.replicate (512 - 36) 0

def exStamp : Stamp := { tenths := 0, time := [0, 0], date := [0x21, 0x28] }
def exBlank : Disk :=
  Disk.ofImg { unitLen := 512, units := Array.replicate 24 (List.replicate 512 0) } (Bpb.ofBoot exBoot) false
def exDisk0 : Disk := (runFlush (format [86] exBoot exStamp) exBlank).2
def exFile : FImg :=
  { chunkLen := 512, fullPath := [65, 46, 66], eof := [3, 2, 0, 0], access := [0], created := [0, 0, 0, 0x21, 0x28],
    modified := [0, 0, 0x21, 0x28], chunks := [(0, List.replicate 512 7), (1, [1, 2, 3])] }
def exDisk : Disk := (runFlush (put exFile exStamp) exDisk0).2

/-! ## checkable forms of the parts of the invariant that are not decidable as stated -/

theorem bytesOk_of_all {f : Array Nat} (h : f.toList.all (fun x => decide (x < 256)) = true) : BytesOk f := by
  intro i
  unfold fn
  by_cases hi : i < f.size
  · have : f.getD i 0 = f[i] := by simp [Array.getD, hi]
    rw [this]
    have hm : f[i] ∈ f.toList := by simp
    have := List.all_eq_true.mp h _ hm
    simpa using this
  · have : f.getD i 0 = 0 := by simp [Array.getD, hi]
    rw [this]; omega

def nameGoodB (e : Bytes) : Bool :=
  match fileNameToSplit e with
  | some (nm, ty) => decide (entName e = (if ty = [] then nm else nm ++ [46] ++ ty)) && !nm.contains 46 && !ty.contains 46 &&
      (decide ((e.getD 11 0 / 16) % 2 ≠ 1) || decide (entName e ≠ [])) && !nm.contains 47 && !ty.contains 47
  | none => false

theorem nameGood_of_check {e : Bytes} (h : nameGoodB e = true) : NameGood e := by
  unfold nameGoodB at h
  cases hn : fileNameToSplit e with
  | none => rw [hn] at h; cases h
  | some nt =>
    obtain ⟨nm, ty⟩ := nt
    rw [hn] at h
    simp only [Bool.and_eq_true, decide_eq_true_eq, Bool.not_eq_true'] at h
    simp only [Bool.or_eq_true, decide_eq_true_eq] at h
    exact ⟨nm, ty, hn, h.1.1.1.1.1, by simpa using h.1.1.1.1.2, by simpa using h.1.1.1.2, fun hd => h.1.1.2.resolve_left (fun c => c hd),
      by simpa using h.1.2, by simpa using h.2⟩

def rootOkB (d : Disk) : Bool :=
  (dirOfBytes (rootBuf d)).all (fun e =>
    decide (e.getD 0 0 = 0) || decide (e.getD 0 0 = 0xE5) || decide (entryType e = .volumeLabel) ||
      (decide (e.getD 11 0 % 16 ≠ 15) && decide (e.getD 0 0 ≠ 46) && nameGoodB e))

theorem rootOk_of_check {d : Disk} (h : rootOkB d = true) : RootOk d := by
  intro e he h0 h5 hl
  have := List.all_eq_true.mp h e he
  simp only [Bool.or_eq_true, decide_eq_true_eq, Bool.and_eq_true] at this
  rcases this with ((h | h) | h) | h
  · exact absurd h h0
  · exact absurd h h5
  · exact absurd h hl
  · exact ⟨h.1.1, h.1.2, nameGood_of_check h.2⟩

/-- checkable form of `TailZero`: once a first name byte is 0, all later ones are -/
def tailZeroB : List Bytes → Bool
  | [] => true
  | e :: es => (if e.getD 0 0 = 0 then es.all (fun x => x.getD 0 0 == 0) else true) && tailZeroB es

theorem tailZero_of_check : ∀ {E : List Bytes}, tailZeroB E = true → TailZero E := by
  intro E
  induction E with
  | nil => intro _ i j e1 e2 _ h1; simp at h1
  | cons a t ih =>
    intro h i j e1 e2 hij h1 h2 hz
    simp only [tailZeroB, Bool.and_eq_true] at h
    cases j with
    | zero => omega
    | succ j =>
      rw [List.getElem?_cons_succ] at h2
      cases i with
      | zero =>
        rw [List.getElem?_cons_zero] at h1
        injection h1 with h1
        subst h1
        have h' := h.1
        rw [if_pos hz, List.all_eq_true] at h'
        have := h' e2 (List.mem_of_getElem? h2)
        simpa using this
      | succ i =>
        rw [List.getElem?_cons_succ] at h1
        exact ih h.2 i j e1 e2 (by omega) h1 h2 hz

/-! ## the example states satisfy the invariant: by the theorems about `format` and `put`, not by evaluation -/

theorem exBlank_pre : FmtPre exBlank exBoot := fmtPre_blank (by decide +kernel) (by decide +kernel)

theorem exStamp_ok : StampOk exStamp := ⟨rfl, rfl⟩

/-- the formatted example volume satisfies the invariant (`format_establishes_inv`) -/
theorem exDisk0_inv : Inv exDisk0 := by
  obtain ⟨d', f, hrun, hlf, hb, g, c, hfree, hE, ht⟩ := format_run (vol := [86]) (now := exStamp) exBlank_pre (Or.inl (by decide)) exStamp_ok
  have : exDisk0 = d' := by unfold exDisk0; rw [hrun]
  rw [this]
  exact (inv_of_empty hlf g c hfree hE ht).1

/-- the formatted example volume lists no file -/
theorem exDisk0_empty : (volOf exDisk0).files = [] := by
  obtain ⟨d', f, hrun, hlf, hb, g, c, hfree, hE, ht⟩ := format_run (vol := [86]) (now := exStamp) exBlank_pre (Or.inl (by decide)) exStamp_ok
  have : exDisk0 = d' := by unfold exDisk0; rw [hrun]
  rw [this]
  exact (inv_of_empty hlf g c hfree hE ht).2.1

theorem exDisk0_bpb : exDisk0.bpb = Bpb.ofBoot exBoot := by
  have h := format_bpb (d := exBlank) (boot := exBoot) (vol := [86]) (now := exStamp) exBlank_pre (Or.inl (by decide)) exStamp_ok
  have e : exBlank.bpb = Bpb.ofBoot exBoot := rfl
  rw [e] at h
  unfold exDisk0
  exact h

theorem prod_eta {α β : Type} (p : α × β) : p = (p.1, p.2) := rfl

theorem exFile_arg : RootArg exFile.fullPath :=
  { ne := by decide, noSlash := by decide, noStar := by decide, noQ := by decide, len := by decide }

/-- the example state satisfies the invariant: it is the result of a `put` on a formatted volume (`put_step_core`) -/
theorem exDisk_inv : Inv exDisk := by
  have h := prod_eta (runFlush (put exFile exStamp) exDisk0)
  unfold exDisk
  rcases put_step_core exDisk0_inv exFile_arg exStamp_ok h with ⟨_, _, h2⟩ | ⟨_, inv', _⟩
  · rw [h2]; exact exDisk0_inv
  · exact inv'

end A2Verif.FsFat
