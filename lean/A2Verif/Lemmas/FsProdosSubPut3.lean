import A2Verif.Lemmas.FsProdosSubPut2
/-!
# What the search in a sub-directory does not find, the reader does not list

`slot_rec_paths`: the paths of the records of one slot of the volume directory — the entry's name, or (directory slot) that
name, a `/` and more.  `sub_path_not_listed`: if no slot of the sub-directory `DIR` holds an active entry matching the valid
name `nm`, the reading has no record with the path `DIR/NM` (the names of the volume directory contain no `/`: `Root.names`).
-/
namespace A2Verif.FsProdos
open A2Verif.Fs.Prodos
open A2Verif.Read.Prodos (entryAt dirChain idxPtr indexEntries readData trimName bitmapFree)
open A2Verif.Read.ProdosT

theorem first_slash_split : ∀ (a c b e : Bytes), 47 ∉ a → 47 ∉ c → a ++ 47 :: b = c ++ 47 :: e → a = c ∧ b = e
  | [], [], b, e, _, _, h => by
    simp only [List.nil_append] at h
    exact ⟨rfl, (List.cons.inj h).2⟩
  | [], y :: c, b, e, _, hc, h => by
    simp only [List.nil_append, List.cons_append] at h
    exact absurd ((List.cons.inj h).1 ▸ List.mem_cons_self) hc
  | x :: a, [], b, e, ha, _, h => by
    simp only [List.nil_append, List.cons_append] at h
    exact absurd ((List.cons.inj h).1 ▸ List.mem_cons_self) ha
  | x :: a, y :: c, b, e, ha, hc, h => by
    simp only [List.cons_append] at h
    obtain ⟨h1, h2⟩ := List.cons.inj h
    obtain ⟨i1, i2⟩ := first_slash_split a c b e (fun hm => ha (List.mem_cons_of_mem _ hm)) (fun hm => hc (List.mem_cons_of_mem _ hm)) h2
    exact ⟨by rw [h1, i1], i2⟩

theorem baseRec_path_pfx (e pfx : Bytes) (h : pfx.isEmpty = false) : (baseRec e pfx).path = pfx ++ [47] ++ trimName e := by
  unfold baseRec; simp [h]

/-- the name of a directory entry of an `Inv` image is not empty -/
theorem dir_name_ne {r : Raw} (hinv : Inv r) (v : Vol) (fsL : List LRec) (ch : List Nat)
    (hread : Read.ProdosT.read r = .ok v) (htree : readTree r (hdrTotal r) = .ok (fsL, ch))
    (y : Bytes × Nat × Nat) (hy : y ∈ dirSlots r 2 ch) (hd : y.1.getD 0 0 / 16 = 0xD) :
    (trimName y.1).isEmpty = false := by
  obtain ⟨_, _, _, _, _, _, _, hchf, _, _, _, _, _⟩ := root_chain_facts hinv v fsL ch hread htree
  obtain ⟨sch, _, hnl, _⟩ := sub_tail hinv v fsL ch hread htree y hy hd
  obtain ⟨b, hb, k, hk13, hkey, rfl⟩ := mem_dirSlots.mp hy
  have hbl : b < r.units.size := by rw [← hinv.size]; exact (hchf b hb).1
  have hl : (entryAt (unitAt r b) k 39).length = 39 := entryAt_length _ _ (by rw [(hinv.shape.unit hbl).1]; omega)
  unfold trimName slice
  have hm := Nat.mod_lt ((entryAt (unitAt r b) k 39).getD 0 0) (by decide : 16 > 0)
  cases hcs : List.take ((entryAt (unitAt r b) k 39).getD 0 0 % 16) (List.drop 1 (entryAt (unitAt r b) k 39)) with
  | nil =>
    have := congrArg List.length hcs
    rw [List.length_take, List.length_drop, hl] at this
    simp only [List.length_nil] at this
    simp only at hnl
    omega
  | cons a l => rfl

/-- the paths of the records of one slot of the volume directory -/
theorem slot_rec_paths {r : Raw} (hinv : Inv r) (v : Vol) (fsL : List LRec) (ch : List Nat)
    (hread : Read.ProdosT.read r = .ok v) (htree : readTree r (hdrTotal r) = .ok (fsL, ch))
    (y : Bytes × Nat × Nat) (hy : y ∈ dirSlots r 2 ch) (f : FileRec)
    (hf : f ∈ (slotRecs 69 r (hdrTotal r) [] 0 y).map (·.1)) :
    f.path = trimName y.1 ∨
    (∃ nm', f.path = trimName y.1 ++ [47] ++ nm' ∧ ∃ g ∈ (slotRecs 69 r (hdrTotal r) [] 0 y).map (·.1), g.path = trimName y.1) := by
  obtain ⟨hw, hn, hroot, hv, hc, hic, hnd, hchf, h2, h6, h3, hbt, hstv⟩ := root_chain_facts hinv v fsL ch hread htree
  obtain ⟨_, _, _, _, _, _, _, _, hall, _⟩ := slot_split_facts hinv v fsL ch hread htree y hy
  rw [List.mem_map] at hf
  obtain ⟨fl, hfy, rfl⟩ := hf
  have hact : isAct y = true := by
    unfold slotRecs at hfy
    by_cases ha : isAct y = true
    · exact ha
    · rw [if_neg ha] at hfy; cases hfy
  rcases hroot.slots y hy with (h0 | ⟨hst, _⟩) | ⟨hd, hsub⟩
  · unfold isAct at hact; rw [h0] at hact; simp at hact
  · left
    obtain ⟨f, hrf, hgy, _, _⟩ := slot_file_rec hinv v fsL ch hread htree y hy hst
    rw [hgy, List.mem_singleton] at hfy
    subst hfy
    rw [(old_fields r (hdrTotal r) _ f hrf).1]
  · obtain ⟨z, hz⟩ := hall y hy hact
    obtain ⟨sch, hc', hnl, hgeo, _, _, _, _, _, hslots⟩ := hsub.chain
    obtain ⟨fs, sch', hzeq, hc2, _, _, _, _, hfsub, hallsub, _⟩ := dir_slot_facts hd hz hgeo
    have hse : sch' = sch := by rw [hc'] at hc2; injection hc2 with e; exact e.symm
    subst hse
    have hgy : slotRecs 69 r (hdrTotal r) [] 0 y = z := by unfold slotRecs; rw [if_pos hact, hz]; rfl
    rw [hgy, hzeq] at hfy
    have hdirp : (dirRec y.1 [] sch').path = trimName y.1 := by
      show (baseRec y.1 []).path = _; exact baseRec_path_root _
    rcases List.mem_cons.mp hfy with e | hfy'
    · left; rw [e]; exact hdirp
    · right
      rw [hfsub, List.mem_flatMap] at hfy'
      obtain ⟨y', hy', hfy''⟩ := hfy'
      have hact' : isAct y' = true := by
        unfold slotRecs at hfy''
        by_cases ha : isAct y' = true
        · exact ha
        · rw [if_neg ha] at hfy''; cases hfy''
      have hst' : y'.1.getD 0 0 / 16 = 1 ∨ y'.1.getD 0 0 / 16 = 2 ∨ y'.1.getD 0 0 / 16 = 3 := by
        rcases hslots y' hy' with h0 | ⟨h, _⟩
        · unfold isAct at hact'; rw [h0] at hact'; simp at hact'
        · exact h
      obtain ⟨zy, hzy⟩ := hallsub y' hy' hact'
      obtain ⟨g, hzg, hrg, _⟩ := RE_file 68 r (hdrTotal r) _ 1 y' zy hst' hzy
      unfold slotRecs at hfy''
      rw [if_pos hact', hzy, hzg] at hfy''
      simp only [okD, List.mem_singleton] at hfy''
      refine ⟨trimName y'.1, ?_, dirRec y.1 [] sch', ?_, hdirp⟩
      · rw [hfy'']
        show g.path = _
        obtain ⟨hp, _⟩ := readFile_rec_fields r (hdrTotal r) y'.1 _ g hrg
        rw [hp, baseRec_path_pfx _ _ (by rw [baseRec_path_root]; exact dir_name_ne hinv v fsL ch hread htree y hy hd),
          baseRec_path_root]
      · rw [hgy, hzeq]; simp

/-- **what the search in a sub-directory does not find, the reader does not list** -/
theorem sub_path_not_listed {d : Disk} (hs : SInv d) (v : Vol) (fsL : List LRec) (ch : List Nat)
    (hr : Read.ProdosT.read d.raw = .ok v) (ht : readTree d.raw (hdrTotal d.raw) = .ok (fsL, ch))
    (dn : Bytes) (B k : Nat) (sch : List Nat) (sd : SubDir d v fsL ch dn B k sch) (hv : isNameValid dn = true)
    (nm : Bytes) (hvn : isNameValid nm = true)
    (hnone : (dirSlots d.raw (le16 (entryAt (unitAt d.raw B) k 39) 17) sch).find? (isHit allTypes nm) = none) :
    upper dn ++ [47] ++ upper nm ∉ v.paths := by
  obtain ⟨hw, hn, hroot, hvv, hcr, hic, hnd, hchf, h2, h6, h3, hbt, hstv⟩ := root_chain_facts hs.inv v fsL ch hr ht
  have hxm := sd.xm
  obtain ⟨hsplit, h1, h2', hfs2, hfiles, hdisj, hxnd, hxown, hall, hcnt0⟩ :=
    slot_split_facts hs.inv v fsL ch hr ht _ hxm
  simp only at hsplit h1 h2' hfs2 hfiles hdisj hxnd hxown
  have hnodup := (wfB_iff.1 hw).2.2.2.2.2.1
  have hdnslash : 47 ∉ upper dn := isNameValid_no_slash dn hv
  have hPslash : 47 ∈ upper dn ++ [47] ++ upper nm := by simp
  have hactx : isAct (entryAt (unitAt d.raw B) k 39, B, k + 1) = true := by
    unfold isAct; simp only [ne_eq, decide_eq_true_eq]; have := sd.hd; omega
  -- the directory's own record is listed under `DIR`
  have hdirmem : ∃ g ∈ (slotRecs 69 d.raw (hdrTotal d.raw) [] 0 (entryAt (unitAt d.raw B) k 39, B, k + 1)).map (·.1),
      g.path = upper dn := by
    obtain ⟨z, hz⟩ := hall _ hxm hactx
    obtain ⟨_, hgeo, _⟩ := sd.tail
    obtain ⟨fs, sch', hzeq, _⟩ := dir_slot_facts (x := (entryAt (unitAt d.raw B) k 39, B, k + 1)) sd.hd hz hgeo
    refine ⟨dirRec (entryAt (unitAt d.raw B) k 39) [] sch', ?_, ?_⟩
    · have : slotRecs 69 d.raw (hdrTotal d.raw) [] 0 (entryAt (unitAt d.raw B) k 39, B, k + 1) = z := by
        unfold slotRecs; rw [if_pos hactx, hz]; rfl
      rw [this, hzeq]; simp
    · show (baseRec _ []).path = _; rw [baseRec_path_root, sd.name]
  intro hp
  unfold Vol.paths at hp
  rw [List.mem_map] at hp
  obtain ⟨f, hf, hfp⟩ := hp
  -- a record of another slot with this path would make `DIR` listed twice
  have hother : ∀ (l : List (Bytes × Nat × Nat)), (∀ y ∈ l, y ∈ dirSlots d.raw 2 ch) →
      f ∈ (l.flatMap (slotRecs 69 d.raw (hdrTotal d.raw) [] 0)).map (·.1) →
      ∃ g ∈ (l.flatMap (slotRecs 69 d.raw (hdrTotal d.raw) [] 0)).map (·.1), g.path = upper dn := by
    intro l hl hfl
    rw [List.mem_map] at hfl
    obtain ⟨fl, hfl', hfe⟩ := hfl
    rw [List.mem_flatMap] at hfl'
    obtain ⟨y, hyl, hfy⟩ := hfl'
    have hfy' : f ∈ (slotRecs 69 d.raw (hdrTotal d.raw) [] 0 y).map (·.1) := List.mem_map.mpr ⟨fl, hfy, hfe⟩
    have hyact : isAct y = true := by
      unfold slotRecs at hfy
      by_cases ha : isAct y = true
      · exact ha
      · rw [if_neg ha] at hfy; cases hfy
    have hyns := hroot.names y (hl y hyl) hyact
    rcases slot_rec_paths hs.inv v fsL ch hr ht y (hl y hyl) f hfy' with hp1 | ⟨nm', hp2, g, hg, hgp⟩
    · exfalso; rw [hfp] at hp1; rw [hp1] at hPslash; exact hyns hPslash
    · rw [hfp] at hp2
      have := first_slash_split (upper dn) (trimName y.1) (upper nm) nm' hdnslash hyns (by simpa using hp2)
      refine ⟨g, ?_, by rw [hgp, this.1]⟩
      rw [List.mem_map] at hg ⊢
      obtain ⟨gl, hgl, hge⟩ := hg
      exact ⟨gl, List.mem_flatMap.mpr ⟨y, hyl, hgl⟩, hge⟩
  have hs1mem : ∀ y ∈ sBefore (dirSlots d.raw 2 ch) (B, k + 1), y ∈ dirSlots d.raw 2 ch := by
    intro y hy
    show y ∈ dirSlots d.raw 2 ch
    rw [hsplit]; exact List.mem_append_left _ hy
  have hs2mem : ∀ y ∈ sAfter (dirSlots d.raw 2 ch) (B, k + 1), y ∈ dirSlots d.raw 2 ch := by
    intro y hy
    show y ∈ dirSlots d.raw 2 ch
    rw [hsplit]; exact List.mem_append_right _ (List.mem_cons_of_mem _ hy)
  obtain ⟨gx, hgx, hgxp⟩ := hdirmem
  rw [hfiles] at hf hnodup
  rw [List.map_append, List.map_append, List.nodup_append] at hnodup
  obtain ⟨hnd12, hnd3, hdis3⟩ := hnodup
  rw [List.nodup_append] at hnd12
  obtain ⟨hnd1, hnd2, hdis12⟩ := hnd12
  rcases List.mem_append.mp hf with hf12 | hf3
  · rcases List.mem_append.mp hf12 with hf1 | hf2
    · obtain ⟨g, hg, hgp⟩ := hother _ hs1mem hf1
      exact hdis12 _ (List.mem_map_of_mem (f := (·.path)) hg) _ (List.mem_map_of_mem (f := (·.path)) hgx) (by rw [hgp, hgxp])
    · -- a record of the directory's own slot
      rcases slot_rec_paths hs.inv v fsL ch hr ht _ hxm f hf2 with hp1 | ⟨nm', hp2, _⟩
      · rw [hfp] at hp1; simp only at hp1; rw [sd.name] at hp1
        rw [hp1] at hPslash; exact hdnslash hPslash
      · -- a file of the directory: the search would have found it
        simp only at hp2
        rw [hfp, sd.name] at hp2
        have hnm' := (first_slash_split (upper dn) (upper dn) (upper nm) nm' hdnslash hdnslash (by simpa using hp2)).2
        -- find the sub-slot
        obtain ⟨z, hz⟩ := hall _ hxm hactx
        obtain ⟨hnl, hgeo, _, _, _, _, _, hslots⟩ := sd.tail
        obtain ⟨fs, sch', hzeq, hc2, _, _, _, _, hfsub, hallsub, _⟩ :=
          dir_slot_facts (x := (entryAt (unitAt d.raw B) k 39, B, k + 1)) sd.hd hz hgeo
        have hse : sch' = sch := by have := sd.hc; rw [this] at hc2; injection hc2 with e; exact e.symm
        subst hse
        have hgy : slotRecs 69 d.raw (hdrTotal d.raw) [] 0 (entryAt (unitAt d.raw B) k 39, B, k + 1) = z := by
          unfold slotRecs; rw [if_pos hactx, hz]; rfl
        rw [hgy, hzeq, List.map_cons, List.mem_cons] at hf2
        rcases hf2 with e | hf2'
        · have : f.path = upper dn := by rw [e]; show (baseRec _ []).path = _; rw [baseRec_path_root, sd.name]
          rw [hfp] at this; rw [this] at hPslash; exact hdnslash hPslash
        · rw [List.mem_map] at hf2'
          obtain ⟨fl, hfl, hfe⟩ := hf2'
          rw [hfsub, List.mem_flatMap] at hfl
          obtain ⟨y', hy', hfy''⟩ := hfl
          have hact' : isAct y' = true := by
            unfold slotRecs at hfy''
            by_cases ha : isAct y' = true
            · exact ha
            · rw [if_neg ha] at hfy''; cases hfy''
          have hst' : y'.1.getD 0 0 / 16 = 1 ∨ y'.1.getD 0 0 / 16 = 2 ∨ y'.1.getD 0 0 / 16 = 3 := by
            rcases hslots y' hy' with h0 | ⟨h, _⟩
            · unfold isAct at hact'; rw [h0] at hact'; simp at hact'
            · exact h
          obtain ⟨zy, hzy⟩ := hallsub y' hy' hact'
          obtain ⟨g, hzg, hrg, _⟩ := RE_file 68 d.raw (hdrTotal d.raw) _ 1 y' zy hst' hzy
          unfold slotRecs at hfy''
          rw [if_pos hact', hzy, hzg] at hfy''
          simp only [okD, List.mem_singleton] at hfy''
          have hfg : f = g := by rw [← hfe, hfy'']
          obtain ⟨hp, _⟩ := readFile_rec_fields d.raw (hdrTotal d.raw) y'.1 _ g hrg
          rw [← hfg, hfp, baseRec_path_pfx _ _ (by rw [sd.pfx]; exact upper_ne_nil hv), sd.pfx] at hp
          have hname' : trimName y'.1 = upper nm :=
            ((first_slash_split (upper dn) (upper dn) (upper nm) (trimName y'.1) hdnslash hdnslash (by simpa using hp)).2).symm
          -- the search finds this slot
          obtain ⟨b', hb', k', hk13', hkey', rfl⟩ := mem_dirSlots.mp hy'
          have hsh := sd.facts b' hb'
          have hl : (entryAt (unitAt d.raw b') k' 39).length = 39 := entryAt_length _ _ (by rw [hsh.2.2.2.2.1]; omega)
          have h256 : (entryAt (unitAt d.raw b') k' 39).getD 0 0 < 256 := getD_lt_of_bytes _ _ (entryAt_bytes _ _ hsh.2.2.2.2.2.1)
          have hty : (entryAt (unitAt d.raw b') k' 39).getD 0 0 / 16 ∈ allTypes := by
            unfold allTypes stSeedling stSapling stTree stSubDirEntry
            simp only at hst'
            rcases hst' with h | h | h <;> rw [h] <;> simp
          have hm := isFileMatch_of_trim allTypes nm _ hl hvn hty h256 hname'
          have hactE : Ent.isActive (entryAt (unitAt d.raw b') k' 39) = true := by
            unfold Ent.isActive Ent.storLen
            simp only [gt_iff_lt, decide_eq_true_eq]
            simp only at hst'; omega
          have := List.find?_eq_none.mp hnone _ hy'
          unfold isHit at this
          simp only [hactE, hm, Bool.and_self, not_true_eq_false] at this
  · obtain ⟨g, hg, hgp⟩ := hother _ hs2mem hf3
    refine hdis3 _ ?_ _ (List.mem_map_of_mem (f := (·.path)) hg) (by rw [hgp, ← hgxp])
    exact List.mem_append_right _ (List.mem_map_of_mem (f := (·.path)) hgx)

end A2Verif.FsProdos
