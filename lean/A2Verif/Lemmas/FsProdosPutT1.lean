import A2Verif.Lemmas.FsProdosPutC
/-!
# `write_file`: how many blocks the rounds `0 … c-1` take

`grp f c`: the group numbers (`index / 256`) of the chunks with index in `256 … c-1`, in ascending order of the indices;
`allocCount f c`: the chunks with index below `c`, the first index block (once `c > 1`), and — once `c > 256` — the master index
block and one index block for every group from 1 on that holds a chunk.  Round `c` takes `allocCount f (c+1) - allocCount f c`
blocks.
-/
namespace A2Verif.FsProdos
open A2Verif.Fs.Prodos

def grp (f : FImg) (c : Nat) : List Nat := ((List.range c).filter (fun k => decide (256 ≤ k) && hasChunk f k)).map (· / 256)

theorem grp_succ (f : FImg) (c : Nat) :
    grp f (c + 1) = grp f c ++ (if 256 ≤ c ∧ hasChunk f c = true then [c / 256] else []) := by
  unfold grp
  rw [List.range_succ, List.filter_append, List.map_append]
  congr 1
  by_cases h : 256 ≤ c ∧ hasChunk f c = true
  · rw [if_pos h]; simp [h.1, h.2]
  · rw [if_neg h]
    have : (decide (256 ≤ c) && hasChunk f c) = false := by
      rcases Classical.not_and_iff_not_or_not.mp h with h1 | h1
      · simp [h1]
      · simp [h1]
    simp [this]

theorem mem_grp {f : FImg} {c j : Nat} : j ∈ grp f c ↔ ∃ k, k < c ∧ 256 ≤ k ∧ hasChunk f k = true ∧ k / 256 = j := by
  unfold grp
  simp only [List.mem_map, List.mem_filter, List.mem_range, Bool.and_eq_true, decide_eq_true_eq]
  constructor
  · rintro ⟨k, ⟨h1, h2, h3⟩, h4⟩; exact ⟨k, h1, h2, h3, h4⟩
  · rintro ⟨k, h1, h2, h3, h4⟩; exact ⟨k, ⟨h1, h2, h3⟩, h4⟩

theorem distinctCount_append_single (xs : List Nat) (j : Nat) :
    distinctCount (xs ++ [j]) = distinctCount xs + (if j ∈ xs then 0 else 1) := by
  unfold distinctCount
  rw [List.eraseDups_append, List.length_append]
  congr 1
  by_cases h : j ∈ xs
  · rw [if_pos h]
    have : [j].removeAll xs = [] := by
      unfold List.removeAll; simp [h]
    rw [this]; rfl
  · rw [if_neg h]
    have : [j].removeAll xs = [j] := by
      unfold List.removeAll; simp [h]
    rw [this]; rfl

/-- the blocks rounds `0 … c-1` of `write_file` take -/
def allocCount (f : FImg) (c : Nat) : Nat :=
  dataCount f c + (if c > 1 then 1 else 0) + (if c > 256 then 1 + distinctCount (grp f c) else 0)

theorem allocCount_small (f : FImg) (c : Nat) (h : c ≤ 256) : allocCount f c = dataCount f c + (if c > 1 then 1 else 0) := by
  unfold allocCount; rw [if_neg (show ¬ c > 256 by omega)]; rfl

theorem distinctCount_mono (f : FImg) {a : Nat} : ∀ {b : Nat}, a ≤ b → distinctCount (grp f a) ≤ distinctCount (grp f b)
  | 0, h => by have : a = 0 := by omega
               subst this; exact Nat.le_refl _
  | b + 1, h => by
    by_cases hab : a = b + 1
    · subst hab; exact Nat.le_refl _
    · have := distinctCount_mono f (show a ≤ b by omega)
      rw [grp_succ]
      split
      · rw [distinctCount_append_single]; omega
      · rw [List.append_nil]; exact this

theorem allocCount_mono (f : FImg) {a b : Nat} (h : a ≤ b) : allocCount f a ≤ allocCount f b := by
  unfold allocCount
  have h1 := dataCount_mono f h
  have h2 := distinctCount_mono f h
  by_cases ha1 : a > 1 <;> by_cases hb1 : b > 1 <;> by_cases ha2 : a > 256 <;> by_cases hb2 : b > 256 <;>
    simp only [ha1, hb1, ha2, hb2, ↓reduceIte] <;> omega

end A2Verif.FsProdos
