import A2Verif.Lemmas.C06Bytes
/-!
# C06, Pascal: every operation of the concrete model keeps the image shaped

The Pascal module has no in-memory buffer: the file-system object is the image.  What the reload theorem needs is
only that the image is a sequence of 512-byte blocks (`Shaped 512`), and that every operation — successful, refused
or failing part-way — keeps it so.
-/
namespace A2Verif.Reload.Pascal
open A2Verif.Fs.Pascal

/-- case analysis on a conditional whose branches are `(result, image)` pairs (cheaper than `split` on a large term) -/
theorem snd_ite {X Y : Type} {c : Prop} [Decidable c] {a b : X × Y} (P : Y → Prop) (ha : P a.2) (hb : P b.2) :
    P (if c then a else b).2 := by
  split <;> assumption

/-- walk through the conditionals and matches of an operation -/
macro "shaped_cases" : tactic => `(tactic| repeat' (first | (apply snd_ite (Shaped 512)) | split))

theorem quantize_length (d : Bytes) : (quantize d).length = 512 := by
  unfold quantize
  simp only [List.length_append, List.length_take, List.length_replicate, blockSize]
  omega

theorem imgWrite_shaped {r r' : Raw} {i : Nat} {d : Bytes} (h : Shaped 512 r) (hw : imgWrite r i d = .ok r') : Shaped 512 r' := by
  unfold imgWrite at hw
  split at hw
  · cases hw
    exact h.setIfInBounds i (quantize_length d)
  · cases hw

theorem writeBlock_shaped {r r' : Raw} {data : Bytes} {i off : Nat} (h : Shaped 512 r) (hw : writeBlock r data i off = .ok r') :
    Shaped 512 r' := by
  unfold writeBlock at hw
  split at hw
  · cases hw
  · exact imgWrite_shaped h hw

theorem saveLoop_shaped (buf : Bytes) : ∀ (ks : List Nat) {r : Raw}, Shaped 512 r → Shaped 512 (saveLoop buf r ks).2 := by
  intro ks
  induction ks with
  | nil => intro r h; exact h
  | cons k ks ih =>
    intro r h
    unfold saveLoop
    split
    · exact h
    · next r' hw => exact ih (writeBlock_shaped h hw)

theorem saveDirectory_shaped {r : Raw} (d : Dir) (h : Shaped 512 r) : Shaped 512 (saveDirectory r d).2 :=
  saveLoop_shaped _ _ h

theorem dataLoop_shaped (chunks : List (Nat × Bytes)) (beg : Nat) : ∀ (bs : List Nat) {r : Raw}, Shaped 512 r →
    Shaped 512 (dataLoop chunks beg r bs).2 := by
  intro bs
  induction bs with
  | nil => intro r h; exact h
  | cons b bs ih =>
    intro r h
    unfold dataLoop
    split
    · exact h
    · split
      · exact h
      · next r' hw => exact ih (writeBlock_shaped h hw)

theorem delete_shaped {r : Raw} (name : Bytes) (h : Shaped 512 r) : Shaped 512 (delete r name).2 := by
  unfold delete
  split
  · exact h
  · exact h
  · exact saveDirectory_shaped _ h

theorem modify_shaped {r : Raw} (name : Bytes) (nn : Option Bytes) (nt : Option (Option Nat)) (h : Shaped 512 r) :
    Shaped 512 (modify r name nn nt).2 := by
  unfold Fs.Pascal.modify
  dsimp only
  shaped_cases
  all_goals first | exact h | exact saveDirectory_shaped _ h

theorem rename_shaped {r : Raw} (o n : Bytes) (h : Shaped 512 r) : Shaped 512 (rename r o n).2 := by
  unfold rename
  apply snd_ite (Shaped 512) h
  split
  · exact h
  · exact h
  · exact modify_shaped _ _ _ h

theorem retype_shaped {r : Raw} (name : Bytes) (t : Option Nat) (h : Shaped 512 r) : Shaped 512 (retype r name t).2 :=
  modify_shaped _ _ _ h

theorem saveDirectory_shaped' {r r' : Raw} {d : Dir} {x : R Unit} (h : Shaped 512 r) (hs : saveDirectory r d = (x, r')) :
    Shaped 512 r' := by
  have := saveDirectory_shaped d h; rw [hs] at this; exact this

theorem dataLoop_shaped' {r r' : Raw} {chunks : List (Nat × Bytes)} {beg : Nat} {bs : List Nat} {x : R Unit} (h : Shaped 512 r)
    (hs : dataLoop chunks beg r bs = (x, r')) : Shaped 512 r' := by
  have := dataLoop_shaped chunks beg bs h; rw [hs] at this; exact this

theorem put_shaped {r : Raw} (f : FImg) (date : Bytes) (h : Shaped 512 r) : Shaped 512 (put r f date).2 := by
  unfold put
  dsimp only
  shaped_cases
  all_goals first
    | exact h
    | exact saveDirectory_shaped' h ‹_›
    | exact dataLoop_shaped' (saveDirectory_shaped' h ‹_›) ‹_›

theorem format_shaped {r : Raw} (v : Bytes) (fill : Nat) (date b0 b1 : Bytes) (h : Shaped 512 r) :
    Shaped 512 (format r v fill date b0 b1).2 := by
  have h1 : Shaped 512 ({ r with units := (Array.range r.units.size).map (fun i => List.replicate blockSize (if i < 6 then 0 else fill)) } : Raw) := by
    refine ⟨h.pos, h.ulen, ?_⟩
    intro u hu
    simp only [Array.toList_map, List.mem_map] at hu
    obtain ⟨i, _, rfl⟩ := hu
    simp
  unfold format
  dsimp only
  shaped_cases
  all_goals first
    | exact h
    | exact h1
    | exact writeBlock_shaped h1 ‹_›
    | exact writeBlock_shaped (writeBlock_shaped h1 ‹_›) ‹_›
    | exact writeBlock_shaped (writeBlock_shaped (writeBlock_shaped h1 ‹_›) ‹_›) ‹_›

end A2Verif.Reload.Pascal
