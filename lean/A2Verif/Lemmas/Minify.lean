import A2Verif.Model.Minify
/-!
Lemmas about the minifier model: the deleted-line map computes "next surviving line", the fixed
variant never fails, and stage 3 never absorbs a line whose number is in the reference set it
consults.
-/
namespace A2Verif.Model.Minify

/-- `c` is the first line after `d` in `all` that is not deleted: everything before `c` in `all` is
`≤ d` or deleted -/
def NextSurv (all del : List Nat) (d c : Nat) : Prop :=
  ∃ pre rest, all = pre ++ c :: rest ∧ (∀ x ∈ pre, x ≤ d ∨ x ∈ del) ∧ d < c ∧ c ∉ del

/-- strictly ascending line numbers (what a2kit's diagnostics call a valid program order) -/
def Asc (p : List Line) : Prop := (p.map (·.num)).Pairwise (· < ·)

theorem advance_some {del : List Nat} {d : Nat} {s : List Nat} {c : Nat} {rest : List Nat}
    (h : advance del d s = some (c, rest)) :
    ∃ pre, s = pre ++ c :: rest ∧ (∀ x ∈ pre, x ≤ d ∨ x ∈ del) ∧ d < c ∧ c ∉ del := by
  induction s with
  | nil => simp [advance] at h
  | cons a t ih =>
    unfold advance at h
    by_cases hc : (decide (a ≤ d) || del.contains a) = true
    · rw [if_pos hc] at h
      obtain ⟨pre, hs, hp, hlt, hnd⟩ := ih h
      refine ⟨a :: pre, by simp [hs], ?_, hlt, hnd⟩
      intro x hx
      rcases List.mem_cons.mp hx with rfl | hx
      · simp only [Bool.or_eq_true, decide_eq_true_eq, List.contains_iff_mem] at hc
        exact hc
      · exact hp x hx
    · rw [if_neg hc] at h
      simp only [Option.some.injEq, Prod.mk.injEq] at h
      obtain ⟨rfl, rfl⟩ := h
      simp only [Bool.or_eq_true, decide_eq_true_eq, List.contains_iff_mem, not_or, Nat.not_le] at hc
      exact ⟨[], by simp, by simp, hc.1, hc.2⟩

theorem advance_ne_none {del : List Nat} {d : Nat} {s : List Nat} {z : Nat}
    (hz : z ∈ s) (hzd : d < z) (hzn : z ∉ del) : advance del d s ≠ none := by
  induction s with
  | nil => simp at hz
  | cons a t ih =>
    unfold advance
    by_cases hc : (decide (a ≤ d) || del.contains a) = true
    · rw [if_pos hc]
      rcases List.mem_cons.mp hz with rfl | hz
      · simp only [Bool.or_eq_true, decide_eq_true_eq, List.contains_iff_mem] at hc
        rcases hc with hc | hc
        · omega
        · exact absurd hc hzn
      · exact ih hz
    · rw [if_neg hc]; simp

theorem buildMap_fst {del : List Nat} {ds s : List Nat} {m : List (Nat × Nat)}
    (h : buildMap del ds s = some m) : m.map Prod.fst = ds := by
  induction ds generalizing s m with
  | nil => simp [buildMap] at h; simp [h]
  | cons d ds ih =>
    unfold buildMap at h
    split at h
    · simp at h
    · rename_i c rest _
      split at h
      · simp at h
      · rename_i m' hm'
        simp only [Option.some.injEq] at h
        subst h
        simp [ih hm']

theorem buildMap_spec {del : List Nat} {ds s : List Nat} {m : List (Nat × Nat)}
    (h : buildMap del ds s = some m) (pre0 : List Nat)
    (hpre : ∀ x ∈ pre0, ∀ d ∈ ds, x ≤ d ∨ x ∈ del) (hasc : ds.Pairwise (· < ·)) :
    ∀ dc ∈ m, NextSurv (pre0 ++ s) del dc.1 dc.2 := by
  induction ds generalizing s m pre0 with
  | nil => simp [buildMap] at h; simp [h]
  | cons d ds ih =>
    unfold buildMap at h
    split at h
    · simp at h
    · rename_i c rest hadv
      split at h
      · simp at h
      · rename_i m' hm'
        simp only [Option.some.injEq] at h
        subst h
        obtain ⟨pre, hs, hp, hlt, hnd⟩ := advance_some hadv
        have hpw := List.pairwise_cons.mp hasc
        intro dc hdc
        rcases List.mem_cons.mp hdc with rfl | hdc
        · refine ⟨pre0 ++ pre, rest, by simp [hs], ?_, hlt, hnd⟩
          intro x hx
          rcases List.mem_append.mp hx with hx | hx
          · exact hpre x hx d (by simp)
          · exact hp x hx
        · have := ih hm' (pre0 ++ pre) (by
            intro x hx d' hd'
            rcases List.mem_append.mp hx with hx | hx
            · exact hpre x hx d' (by simp [hd'])
            · rcases hp x hx with h1 | h1
              · have := hpw.1 d' hd'
                left; omega
              · right; exact h1) hpw.2 dc hdc
          simpa [hs] using this

theorem buildMap_ne_none {del : List Nat} {ds s : List Nat} {z : Nat}
    (hz : z ∈ s) (hzn : z ∉ del) (hzd : ∀ d ∈ ds, d < z) : buildMap del ds s ≠ none := by
  induction ds generalizing s with
  | nil => simp [buildMap]
  | cons d ds ih =>
    unfold buildMap
    split
    · rename_i hadv
      exact absurd hadv (advance_ne_none hz (hzd d (by simp)) hzn)
    · rename_i c rest hadv
      obtain ⟨pre, hs, hp, _, _⟩ := advance_some hadv
      have hz' : z ∈ c :: rest := by
        rw [hs] at hz
        rcases List.mem_append.mp hz with hz | hz
        · rcases hp z hz with h1 | h1
          · have := hzd d (by simp); omega
          · exact absurd h1 hzn
        · exact hz
      have := ih hz' (fun d' hd' => hzd d' (by simp [hd']))
      split
      · rename_i hnone; exact absurd hnone this
      · simp

theorem lookup_some_mem {m : List (Nat × Nat)} {r c : Nat} (h : lookup m r = some c) : (r, c) ∈ m := by
  induction m with
  | nil => simp [lookup] at h
  | cons a m ih =>
    obtain ⟨d, c'⟩ := a
    unfold lookup at h
    by_cases hd : (d == r) = true
    · rw [if_pos hd] at h
      simp only [Option.some.injEq] at h
      have : d = r := by simpa using hd
      subst h; subst this; simp
    · rw [if_neg hd] at h
      exact List.mem_cons_of_mem _ (ih h)

theorem lookup_none_iff {m : List (Nat × Nat)} {r : Nat} : lookup m r = none ↔ r ∉ m.map Prod.fst := by
  induction m with
  | nil => simp [lookup]
  | cons a m ih =>
    obtain ⟨d, c'⟩ := a
    unfold lookup
    by_cases hd : (d == r) = true
    · rw [if_pos hd]
      have : d = r := by simpa using hd
      simp [this]
    · rw [if_neg hd]
      have : ¬ d = r := by simpa using hd
      simp [ih, Ne.symm this]

/-! ### deleted / surviving -/

theorem pick_num_mem {keep : Bool} {p : List Line} {fs : List Bool} {n : Nat}
    (h : n ∈ (pick keep p fs).map (·.num)) : n ∈ p.map (·.num) := by
  induction p generalizing fs with
  | nil => simp [pick] at h
  | cons l ls ih =>
    cases fs with
    | nil => simp [pick] at h
    | cons f fs =>
      unfold pick at h
      split at h
      · simp only [List.map_cons, List.mem_cons] at h ⊢
        rcases h with h | h
        · exact Or.inl h
        · exact Or.inr (ih h)
      · simp only [List.map_cons, List.mem_cons]
        exact Or.inr (ih h)

theorem pick_sublist (keep : Bool) (p : List Line) (fs : List Bool) :
    ((pick keep p fs).map (·.num)).Sublist (p.map (·.num)) := by
  induction p generalizing fs with
  | nil => simp [pick]
  | cons l ls ih =>
    cases fs with
    | nil => simp [pick]
    | cons f fs =>
      unfold pick
      split
      · simpa using (ih fs).cons_cons l.num
      · simpa using (ih fs).cons l.num

theorem mem_pick_split {p : List Line} {fs : List Bool} (hlen : fs.length = p.length)
    (hnd : (p.map (·.num)).Pairwise (· < ·)) (n : Nat) :
    n ∈ (pick false p fs).map (·.num) ↔ n ∈ p.map (·.num) ∧ n ∉ (pick true p fs).map (·.num) := by
  induction p generalizing fs with
  | nil => simp [pick]
  | cons l ls ih =>
    cases fs with
    | nil => simp at hlen
    | cons f fs =>
      have hnd' : (l.num :: ls.map (·.num)).Pairwise (· < ·) := hnd
      have hpw := List.pairwise_cons.mp hnd'
      have ih' := ih (fs := fs) (by simpa using hlen) hpw.2
      have hne : ∀ keep, l.num ∉ (pick keep ls fs).map (·.num) := by
        intro keep hmem
        have := hpw.1 _ (pick_num_mem hmem)
        omega
      cases f with
      | true =>
        have e1 : pick false (l :: ls) (true :: fs) = pick false ls fs := by simp [pick]
        have e2 : pick true (l :: ls) (true :: fs) = l :: pick true ls fs := by simp [pick]
        rw [e1, e2, ih']
        simp only [List.map_cons, List.mem_cons, not_or]
        constructor
        · rintro ⟨h1, h2⟩
          refine ⟨Or.inr h1, ?_, h2⟩
          rintro rfl
          have := hpw.1 _ h1
          omega
        · rintro ⟨h1 | h1, h2, h3⟩
          · exact absurd h1 h2
          · exact ⟨h1, h3⟩
      | false =>
        have e1 : pick false (l :: ls) (false :: fs) = l :: pick false ls fs := by simp [pick]
        have e2 : pick true (l :: ls) (false :: fs) = pick true ls fs := by simp [pick]
        rw [e1, e2]
        simp only [List.map_cons, List.mem_cons]
        constructor
        · rintro (rfl | h)
          · exact ⟨Or.inl rfl, hne true⟩
          · have := ih'.mp h
            exact ⟨Or.inr this.1, this.2⟩
        · rintro ⟨h1 | h1, h2⟩
          · exact Or.inl h1
          · exact Or.inr (ih'.mpr ⟨h1, h2⟩)

theorem delFlags_length (cfg : Cfg) (level : Nat) (p : List Line) :
    (delFlags cfg level p).length = p.length := by
  fun_induction delFlags cfg level p <;> simp_all

/-- a surviving line number is a line number of the program that was not deleted, and conversely -/
theorem mem_surviving {cfg : Cfg} {level : Nat} {p : List Line} (hasc : Asc p) (n : Nat) :
    n ∈ (surviving cfg level p).map (·.num) ↔ n ∈ p.map (·.num) ∧ n ∉ deleted cfg level p :=
  mem_pick_split (delFlags_length cfg level p) hasc n

theorem deleted_sublist (cfg : Cfg) (level : Nat) (p : List Line) :
    (deleted cfg level p).Sublist (p.map (·.num)) := pick_sublist true p _

theorem deleted_cons_cons (cfg : Cfg) (level : Nat) (l l' : Line) (ls : List Line) :
    deleted cfg level (l :: l' :: ls) =
      (if delLines level && l.dels cfg then [l.num] else []) ++ deleted cfg level (l' :: ls) := by
  simp only [deleted, delFlags, pick]
  by_cases h : (delLines level && l.dels cfg) = true <;> simp [h]

/-- with `keepLast`, some line (the last one) is not deleted and lies after every deleted line -/
theorem keepLast_witness {cfg : Cfg} (hk : cfg.keepLast = true) (level : Nat) {p : List Line}
    (hasc : Asc p) (hne : p ≠ []) :
    ∃ z ∈ p.map (·.num), z ∉ deleted cfg level p ∧ ∀ d ∈ deleted cfg level p, d < z := by
  induction p with
  | nil => exact absurd rfl hne
  | cons l ls ih =>
    cases ls with
    | nil =>
      refine ⟨l.num, by simp, ?_, ?_⟩ <;> simp [deleted, delFlags, pick, hk]
    | cons l' ls =>
      have hasc' : (l.num :: (l' :: ls).map (·.num)).Pairwise (· < ·) := hasc
      have hpw := List.pairwise_cons.mp hasc'
      obtain ⟨z, hz, hzn, hzd⟩ := ih hpw.2 (by simp)
      have hlz : l.num < z := hpw.1 z hz
      rw [deleted_cons_cons]
      refine ⟨z, List.mem_cons_of_mem _ hz, ?_, ?_⟩
      · intro hmem
        rcases List.mem_append.mp hmem with h | h
        · split at h
          · simp at h; omega
          · simp at h
        · exact hzn h
      · intro d hd
        rcases List.mem_append.mp hd with h | h
        · split at h
          · simp at h; omega
          · simp at h
        · exact hzd d h

/-! ### stage 3 -/

theorem combine_refs (refset fnext : List Nat) (cur : Group) (comb le : Bool) (ls : List Line) :
    (combine refset fnext cur comb le ls).flatMap (·.refs) = cur.refs ++ ls.flatMap (·.refs) := by
  induction ls generalizing cur comb le with
  | nil => simp [combine]
  | cons l ls ih =>
    unfold combine
    simp only []
    split
    · rw [ih]; simp [Group.absorb]
    · simp [ih, Group.single]

theorem combine_lits (refset fnext : List Nat) (cur : Group) (comb le : Bool) (ls : List Line) :
    (combine refset fnext cur comb le ls).flatMap (·.lits) = cur.lits ++ ls.flatMap (·.lits) := by
  induction ls generalizing cur comb le with
  | nil => simp [combine]
  | cons l ls ih =>
    unfold combine
    simp only []
    split
    · rw [ih]; simp [Group.absorb]
    · simp [ih, Group.single]

/-- the line numbers that went into an output line -/
def Group.members (g : Group) : List Nat := g.num :: g.absorbed

theorem combine_members (refset fnext : List Nat) (cur : Group) (comb le : Bool) (ls : List Line) :
    (combine refset fnext cur comb le ls).flatMap Group.members = cur.members ++ ls.map (·.num) := by
  induction ls generalizing cur comb le with
  | nil => simp [combine]
  | cons l ls ih =>
    unfold combine
    simp only []
    split
    · rw [ih]; simp [Group.absorb, Group.members]
    · simp [ih, Group.single, Group.members]

theorem combine_absorbed (refset fnext : List Nat) (cur : Group) (comb le : Bool) (ls : List Line)
    (hcur : ∀ n ∈ cur.absorbed, n ∉ refset) :
    ∀ g ∈ combine refset fnext cur comb le ls, ∀ n ∈ g.absorbed, n ∉ refset := by
  induction ls generalizing cur comb le with
  | nil => simpa [combine] using hcur
  | cons l ls ih =>
    unfold combine
    simp only []
    split
    · rename_i hc
      apply ih
      intro n hn
      simp only [Group.absorb, List.mem_append, List.mem_singleton] at hn
      rcases hn with hn | rfl
      · exact hcur n hn
      · simp only [Bool.and_eq_true, Bool.not_eq_true', decide_eq_true_eq] at hc
        simpa using hc.2.2
    · intro g hg
      rcases List.mem_cons.mp hg with rfl | hg
      · exact hcur
      · exact ih (Group.single l) _ _ (by simp [Group.single]) g hg

/-- stage 3 keeps, as the start of an output line, every line whose number is in the reference set -/
theorem stage3_head_of_ref (refset fnext : List Nat) (ls : List Line) {r : Nat}
    (hr : r ∈ refset) (hl : r ∈ ls.map (·.num)) : r ∈ (stage3 refset fnext ls).map (·.num) := by
  cases ls with
  | nil => simp at hl
  | cons l ls =>
    unfold stage3
    have hm := combine_members refset fnext (Group.single l) (!fnext.contains l.num) l.endsStr ls
    have hmem : r ∈ (combine refset fnext (Group.single l) (!fnext.contains l.num) l.endsStr ls).flatMap
        Group.members := by
      rw [hm]; simpa [Group.members, Group.single] using hl
    obtain ⟨g, hg, hrg⟩ := List.mem_flatMap.mp hmem
    rcases List.mem_cons.mp hrg with rfl | hrg
    · exact List.mem_map.mpr ⟨g, hg, rfl⟩
    · exact absurd hr (combine_absorbed refset fnext _ _ _ ls (by simp [Group.single]) g hg r hrg)

theorem stage3_refs (refset fnext : List Nat) (ls : List Line) :
    (stage3 refset fnext ls).flatMap (·.refs) = ls.flatMap (·.refs) := by
  cases ls with
  | nil => simp [stage3]
  | cons l ls => simp [stage3, combine_refs, Group.single]

theorem stage3_lits (refset fnext : List Nat) (ls : List Line) :
    (stage3 refset fnext ls).flatMap (·.lits) = ls.flatMap (·.lits) := by
  cases ls with
  | nil => simp [stage3]
  | cons l ls => simp [stage3, combine_lits, Group.single]

end A2Verif.Model.Minify

namespace A2Verif.Model.Minify

theorem members_absorb (g : Group) (le : Bool) (l : Line) :
    (g.absorb le l).members = g.members ++ [l.num] := by
  simp [Group.absorb, Group.members]

/-- nothing is ever appended to a line whose number is in `forbids_combining_next` -/
theorem combine_fnext (refset fnext : List Nat) (cur : Group) (comb le : Bool) (ls : List Line)
    (hinv : ∀ n ∈ cur.members.dropLast, n ∉ fnext)
    (hcomb : comb = true → ∀ n, cur.members.getLast? = some n → n ∉ fnext) :
    ∀ g ∈ combine refset fnext cur comb le ls, ∀ n ∈ g.members.dropLast, n ∉ fnext := by
  induction ls generalizing cur comb le with
  | nil => simpa [combine] using hinv
  | cons l ls ih =>
    unfold combine
    simp only []
    split
    · rename_i hc
      have hcomb' : comb = true := by
        simp only [Bool.and_eq_true] at hc; exact hc.1
      apply ih
      · intro n hn
        rw [members_absorb, List.dropLast_concat] at hn
        have hne : cur.members ≠ [] := by simp [Group.members]
        have hx := List.getLast?_eq_some_getLast hne
        have hsplit := List.dropLast_concat_getLast hne
        rw [← hsplit] at hn
        rcases List.mem_append.mp hn with h | h
        · exact hinv n h
        · simp only [List.mem_singleton] at h
          subst h
          exact hcomb hcomb' _ hx
      · intro hc' n hn
        rw [members_absorb, List.getLast?_concat] at hn
        simp only [Option.some.injEq] at hn
        subst hn
        simpa using hc'
    · intro g hg
      rcases List.mem_cons.mp hg with rfl | hg
      · exact hinv
      · refine ih (Group.single l) _ _ (by simp [Group.single, Group.members]) ?_ g hg
        intro hc' n hn
        simp only [Group.single, Group.members, List.getLast?_singleton, Option.some.injEq] at hn
        subst hn
        simpa using hc'

theorem stage3_fnext (refset fnext : List Nat) (ls : List Line) :
    ∀ g ∈ stage3 refset fnext ls, ∀ n ∈ g.members.dropLast, n ∉ fnext := by
  cases ls with
  | nil => simp [stage3]
  | cons l ls =>
    unfold stage3
    refine combine_fnext refset fnext _ _ _ ls (by simp [Group.single, Group.members]) ?_
    intro hc' n hn
    simp only [Group.single, Group.members, List.getLast?_singleton, Option.some.injEq] at hn
    subst hn
    simpa using hc'

end A2Verif.Model.Minify
