import A2Verif.Lemmas.FsDosPutT
/-!
# `put`, part C: the volume after the loop

From what the loop has built (`Built`): the image is laid out as the old layout plus one file (T/S list chain `U`
at the position of the catalog slot), its reading is the old one with one record inserted.  Core Lean only.
-/
set_option linter.unusedSimpArgs false
namespace A2Verif.Fs.Dos3x
open A2Verif.FsDos A2Verif.Read.Dos3x

theorem all2_split_append {α β : Type} {R : α → β → Prop} : ∀ {L1 L2 : List α} {T : List β}, All2 R (L1 ++ L2) T →
    ∃ T1 T2, T = T1 ++ T2 ∧ All2 R L1 T1 ∧ All2 R L2 T2 := by
  intro L1
  induction L1 with
  | nil => intro L2 T h; exact ⟨[], T, rfl, All2.nil, h⟩
  | cons x L1 ih =>
    intro L2 T h
    cases h with
    | cons hxb hr =>
      obtain ⟨T1, T2, rfl, h1, h2⟩ := ih hr
      exact ⟨_ :: T1, T2, rfl, All2.cons hxb h1, h2⟩

theorem pairwise_filterMap_idx {β : Type} {f : Nat → Option (Nat × β)} (hf : ∀ k x, f k = some x → x.1 = k) : ∀ (n m : Nat),
    (((List.range' n m).filterMap f).map (·.1)).Pairwise (· < ·) ∧ ∀ x ∈ ((List.range' n m).filterMap f).map (·.1), n ≤ x := by
  intro n m
  induction m generalizing n with
  | zero => simp
  | succ m ih =>
    rw [List.range'_succ, List.filterMap_cons]
    obtain ⟨h1, h2⟩ := ih (n + 1)
    cases hfn : f n with
    | none => exact ⟨h1, fun x hx => by have := h2 x hx; omega⟩
    | some y =>
      simp only [List.map_cons]
      refine ⟨List.pairwise_cons.2 ⟨fun x hx => by have := h2 x hx; rw [hf n y hfn]; omega, h1⟩, ?_⟩
      intro x hx
      rcases List.mem_cons.1 hx with rfl | hx
      · rw [hf n y hfn]; exact Nat.le_refl _
      · have := h2 x hx; omega


theorem stored_idx (chunks : List (Nat × Bytes)) (n : Nat) : ((stored chunks (List.range n)).map (·.1)).Pairwise (· < ·) := by
  unfold stored
  rw [List.range_eq_range']
  exact (pairwise_filterMap_idx (β := Bytes) (f := fun k => (chunks.lookup k).map (fun d => (k, quantize d))) (by
    intro k x hx
    cases hl : chunks.lookup k with
    | none => rw [hl] at hx; cases hx
    | some d => rw [hl] at hx; simp only [Option.map_some, Option.some.injEq] at hx; rw [← hx]) 0 n).1

/-- the record `put` inserts -/
theorem put_entry {w0 : W} {sb : List Nat} {L : Lay} (hi : WInv w0 sb L) {wf : W} {ud : Nat} {dir3 : Bytes}
    {chunks : List (Nat × Bytes)} {endIdx tt tsec : Nat} {U : List Nat} (hb : Built w0 wf ud dir3 chunks endIdx tt tsec U)
    {e : Nat} {enew : Bytes} (hud : ud ∈ L.cat) (he : e < 7) (hdead : isLive (entryAt (sec w0.img ud) e) = false)
    (hd1 : dir3.getD 1 0 = (sec w0.img ud).getD 1 0) (hd2 : dir3.getD 2 0 = (sec w0.img ud).getD 2 0)
    (hde : entsOfSec dir3 = (entsOfSec (sec w0.img ud)).take e ++ enew :: (entsOfSec (sec w0.img ud)).drop (e + 1))
    (hn0 : enew.getD 0 0 = tt) (hn1 : enew.getD 1 0 = tsec) (hnm : ∀ x ∈ slice enew 3 30, 128 ≤ x ∧ x < 256)
    (hfresh : pathOfName (slice enew 3 30) ∉ (volOf w0.img w0.c sb L).paths) (htt1 : 1 ≤ tt) :
    ∃ T1 T2 F1 F2,
      WInv wf sb { cat := L.cat, tsls := T1 ++ U :: T2 } ∧
      (volOf w0.img w0.c sb L).files = F1 ++ F2 ∧
      volOf wf.img w0.c sb { cat := L.cat, tsls := T1 ++ U :: T2 } =
        inserted (volOf w0.img w0.c sb L) F1 F2 (recOf wf.img w0.c enew U) (freeOf wf.img w0.c) ∧
      (recOf wf.img w0.c enew U).chunks = stored chunks (List.range endIdx) ∧
      (inserted (volOf w0.img w0.c sb L) F1 F2 (recOf wf.img w0.c enew U) (freeOf wf.img w0.c)).wfB = true ∧
      (recOf wf.img w0.c enew U).owned.Nodup ∧
      (∀ x ∈ (recOf wf.img w0.c enew U).owned, x ∈ (volOf w0.img w0.c sb L).freeUnits) ∧
      (freeOf wf.img w0.c).Nodup ∧
      (∀ x, x ∈ freeOf wf.img w0.c ↔ x ∈ (volOf w0.img w0.c sb L).freeUnits ∧ x ∉ (recOf wf.img w0.c enew U).owned) ∧
      ((recOf wf.img w0.c enew U).chunks.map (·.1)).Pairwise (· < ·) := by
  have hok := hi.ok
  have hd := hi.desc
  have hokf := hb.wok
  have hcf : wf.c = w0.c := hb.hc
  have hacc := hb.acc
  have hsz : wf.img.units.size = w0.img.units.size := by rw [W.img_size, W.img_size, hokf.size, hok.size, hcf]
  -- units written are free in the old buffer
  have hnew_free : ∀ x, x ∈ chainUnits wf.img w0.c U → isFreeU w0.v w0.c x = true := fun x hx => (hacc.free x hx).2
  have hnew_lt : ∀ x, x ∈ chainUnits wf.img w0.c U → x < 35 * w0.c := fun x hx => (hacc.free x hx).1
  -- frame for units that are not free in the old buffer
  have hsecO : ∀ x, x ≠ ud → x ≠ vtocTrack * w0.c → ¬ (x < 35 * w0.c ∧ isFreeU w0.v w0.c x = true) → sec wf.img x = sec w0.img x := by
    intro x h1 h2 h3
    exact hacc.frame x (fun hm => h3 ⟨hnew_lt x hm, hnew_free x hm⟩) h1 h2
  have hsysO : ∀ x, x ∈ (volOf w0.img w0.c sb L).sys → x ≠ ud → x ≠ vtocTrack * w0.c → sec wf.img x = sec w0.img x :=
    fun x hx h1 h2 => hsecO x h1 h2 (sys_not_free hi hx)
  have hownO : ∀ f ∈ (volOf w0.img w0.c sb L).files, ∀ x ∈ f.owned, sec wf.img x = sec w0.img x := by
    intro f hf x hx
    have hxo : x ∈ (volOf w0.img w0.c sb L).allOwned := List.mem_flatMap.2 ⟨f, hf, hx⟩
    apply hsecO x (fun e => (cat_unit_facts hi.wf hud).2 f hf (e ▸ hx)) (fun e => owned_ne_vtoc hi.wf f hf (e ▸ hx))
    intro h
    have := (wfB_iff.1 hi.wf).2.2.1 x hxo
    apply this
    show x ∈ freeOf w0.img w0.c
    rw [freeOf_eq hok]; exact mem_freeList.2 h
  have hcat17 : ∀ x ∈ L.cat, x ≠ vtocTrack * w0.c := fun x hx => (cat_unit_facts hi.wf hx).1
  have hvt : vtocOf wf.img w0.c = quantize wf.v := by have := vtocOf_img hokf; rw [hcf] at this; exact this
  have hgv : ∀ i, i < 0x38 → i ≠ 0x30 → i ≠ 0x31 → (vtocOf wf.img w0.c).getD i 0 = (vtocOf w0.img w0.c).getD i 0 := by
    intro i hi' a b
    have hlen := hacc.taken.ok.vlen
    rw [hvt, getD_quantize (by rw [hlen]; omega) (by rw [hlen]; omega), hacc.taken.low i hi' a b, getD_vtocOf hok (by omega)]
  -- the catalog chain
  obtain ⟨C1, C2, hcat⟩ := List.append_of_mem hud
  have hnd := hd.catNodup
  rw [hcat] at hnd
  have hC1 : ud ∉ C1 := fun hm => (List.nodup_append.1 hnd).2.2 _ hm _ List.mem_cons_self rfl
  have hC2 : ud ∉ C2 := (List.nodup_cons.1 (List.nodup_append.1 hnd).2.1).1
  have hudF : sec wf.img ud = dir3 := hb.hud
  have hcatch : CatChain wf.img w0.c ((vtocOf w0.img w0.c).getD 1 0) ((vtocOf w0.img w0.c).getD 2 0) L.cat := by
    apply CatChain.congr hsz _ hd.cat
    intro x hx
    by_cases hxu : x = ud
    · subst hxu; rw [hudF]; exact ⟨hd1, hd2⟩
    · rw [hsysO x (sys_mem_cat hx) hxu (hcat17 x hx)]; exact ⟨rfl, rfl⟩
  have hE1 : entsOf wf.img C1 = entsOf w0.img C1 := entsOf_congr (fun x hx =>
    hsysO x (sys_mem_cat (by rw [hcat]; exact List.mem_append_left _ hx)) (fun (e : x = ud) => hC1 (e ▸ hx))
      (hcat17 x (by rw [hcat]; exact List.mem_append_left _ hx)))
  have hE2 : entsOf wf.img C2 = entsOf w0.img C2 := entsOf_congr (fun x hx =>
    hsysO x (sys_mem_cat (by rw [hcat]; exact List.mem_append_right _ (List.mem_cons_of_mem _ hx))) (fun (e : x = ud) => hC2 (e ▸ hx))
      (hcat17 x (by rw [hcat]; exact List.mem_append_right _ (List.mem_cons_of_mem _ hx))))
  obtain ⟨t', s', ht', hs', hue, hult⟩ := catChain_mem hd.cat ud hud
  rw [W.img_size] at hult
  have hbl : (sec w0.img ud).length = 256 := sec_img_length hok hult
  generalize hA : entsOf w0.img C1 ++ (entsOfSec (sec w0.img ud)).take e = A
  generalize hB : (entsOfSec (sec w0.img ud)).drop (e + 1) ++ entsOf w0.img C2 = B
  have hents : entsOf w0.img L.cat = A ++ entryAt (sec w0.img ud) e :: B := by
    rw [hcat, entsOf_append, entsOf_cons, entsOfSec_split (b := sec w0.img ud) (nm := List.replicate 30 0) hbl he (by simp), ← hA, ← hB]
    simp [List.append_assoc]
  have hents' : entsOf wf.img L.cat = A ++ enew :: B := by
    rw [hcat, entsOf_append, entsOf_cons, hE1, hE2, hudF, hde, ← hA, ← hB]
    simp [List.append_assoc]
  have htt35 : tt < 35 := tsChain_first hb.chain
  have hlivenew : isLive enew = true := by
    apply isLive_of; rw [hn0]; omega
  have hlv : liveOf w0.img L.cat = A.filter isLive ++ B.filter isLive := by
    unfold liveOf; rw [hents, List.filter_append, List.filter_cons, if_neg (by rw [hdead]; simp)]
  have hlv' : liveOf wf.img L.cat = A.filter isLive ++ enew :: B.filter isLive := by
    unfold liveOf; rw [hents', List.filter_append, List.filter_cons, if_pos hlivenew]
  -- the files
  have hfiles := hd.files
  rw [hlv] at hfiles
  obtain ⟨T1, T2, hT12, hA2, hB2⟩ := all2_split_append hfiles
  have hlen1 := hA2.length_eq
  have hvf : (volOf w0.img w0.c sb L).files = filesOf w0.img w0.c (A.filter isLive) T1 ++ filesOf w0.img w0.c (B.filter isLive) T2 := by
    show filesOf w0.img w0.c (liveOf w0.img L.cat) L.tsls = _
    rw [hlv, hT12, filesOf_append hlen1]
  have hF1 := filesOf_congr hsz hA2 (fun f hf => hownO f (by rw [hvf]; exact List.mem_append_left _ hf))
  have hF2 := filesOf_congr hsz hB2 (fun f hf => hownO f (by rw [hvf]; exact List.mem_append_right _ hf))
  -- the new file's chain
  have hperm := chainUnits_perm (r := wf.img) (c := w0.c) U 0
  have hownNd : (U ++ (walkOf wf.img w0.c 0 U).map (·.2.2)).Nodup := hperm.nodup_iff.1 hacc.nodup
  have hUnd : U.Nodup := (List.nodup_append.1 hownNd).1
  have hUlen : U.length ≤ 1000 := by
    have h1 : U ⊆ List.range (35 * w0.c) := by
      intro x hx; exact List.mem_range.2 (hnew_lt x (mem_chainUnits_list hx))
    have h2 := List.Nodup.length_le_of_subset hUnd h1
    rw [List.length_range] at h2
    have := hok.hc
    omega
  have hchain : FileChain wf.img w0.c enew U := by
    refine ⟨?_, hUlen, hUnd⟩
    rw [hn0, hn1]; exact hb.chain
  have hvf' : filesOf wf.img w0.c (liveOf wf.img L.cat) (T1 ++ U :: T2) =
      filesOf w0.img w0.c (A.filter isLive) T1 ++ recOf wf.img w0.c enew U :: filesOf w0.img w0.c (B.filter isLive) T2 := by
    rw [hlv', filesOf_append hlen1, filesOf_cons, hF1.1, hF2.1]
  have hvol : volOf wf.img w0.c sb { cat := L.cat, tsls := T1 ++ U :: T2 } =
      inserted (volOf w0.img w0.c sb L) (filesOf w0.img w0.c (A.filter isLive) T1) (filesOf w0.img w0.c (B.filter isLive) T2)
        (recOf wf.img w0.c enew U) (freeOf wf.img w0.c) := by
    unfold volOf inserted
    simp only [hvf', hgv 6 (by decide) (by decide) (by decide)]
    rfl
  -- the record
  have hmemO : ∀ x, x ∈ (recOf wf.img w0.c enew U).owned ↔ x ∈ chainUnits wf.img w0.c U :=
    fun x => (mem_chainUnits_owned x).symm
  have hchunks : (recOf wf.img w0.c enew U).chunks = stored chunks (List.range endIdx) := hacc.walk
  have hgn : (recOf wf.img w0.c enew U).owned.Nodup := hownNd
  have hgf : ∀ x ∈ (recOf wf.img w0.c enew U).owned, x ∈ (volOf w0.img w0.c sb L).freeUnits := by
    intro x hx
    rw [hmemO] at hx
    show x ∈ freeOf w0.img w0.c
    rw [freeOf_eq hok]
    exact mem_freeList.2 ⟨hnew_lt x hx, hnew_free x hx⟩
  have hfnd : (freeOf wf.img w0.c).Nodup := (List.filter_sublist (l := List.range (35 * w0.c))).nodup List.nodup_range
  have hfree : ∀ x, x ∈ freeOf wf.img w0.c ↔ x ∈ (volOf w0.img w0.c sb L).freeUnits ∧ x ∉ (recOf wf.img w0.c enew U).owned := by
    intro x
    show _ ↔ x ∈ freeOf w0.img w0.c ∧ _
    have e1 := freeOf_eq hokf
    rw [hcf] at e1
    rw [e1, freeOf_eq hok, mem_freeList, mem_freeList, hmemO]
    constructor
    · rintro ⟨a, b⟩
      rw [isFreeU_taken hacc.taken a] at b
      simp only [Bool.and_eq_true, Bool.not_eq_true', decide_eq_false_iff_not] at b
      exact ⟨⟨a, b.1⟩, b.2⟩
    · rintro ⟨⟨a, b⟩, c'⟩
      refine ⟨a, ?_⟩
      rw [isFreeU_taken hacc.taken a, b]
      simpa using c'
  have hcp : ((recOf wf.img w0.c enew U).chunks.map (·.1)).Pairwise (· < ·) := by
    rw [hchunks]; exact stored_idx _ _
  have hwf' := wfB_insert hvf hi.wf hgn hgf hfnd hfree hfresh hcp
  refine ⟨T1, T2, _, _, ⟨hokf, ?_, ?_, ?_, hi.catNe, by rw [hcf]; exact hi.cover, hb.aok.track1, hb.aok.lastTrack⟩,
    hvf, hvol, hchunks, hwf', hgn, hgf, hfnd, hfree, hcp⟩
  · rw [hcf]
    refine ⟨hd.hc, by rw [hsz]; exact hd.size, by rw [hgv _ (by decide) (by decide) (by decide)]; exact hd.vTracks,
      by rw [hgv _ (by decide) (by decide) (by decide)]; exact hd.vSpt, by rw [hgv _ (by decide) (by decide) (by decide)]; exact hd.vPairs,
      by rw [hgv _ (by decide) (by decide) (by decide), hgv _ (by decide) (by decide) (by decide)]; exact hcatch, hd.catNodup, hd.catLen, ?_⟩
    show All2 (FileChain wf.img w0.c) (liveOf wf.img L.cat) (T1 ++ U :: T2)
    rw [hlv']
    exact All2.append hF1.2 (All2.cons hchain hF2.2)
  · rw [hcf, hvol]; exact hwf'
  · intro e' he'
    have he'' : e' ∈ liveOf wf.img L.cat := he'
    rw [hlv'] at he''
    have hold : ∀ e' ∈ A.filter isLive ++ B.filter isLive, ∀ x ∈ slice e' 3 30, 128 ≤ x ∧ x < 256 := by
      intro e' h; apply hi.names e'; rw [hlv]; exact h
    rcases List.mem_append.1 he'' with h | h
    · exact hold e' (List.mem_append_left _ h)
    · rcases List.mem_cons.1 h with rfl | h
      · exact hnm
      · exact hold e' (List.mem_append_right _ h)

end A2Verif.Fs.Dos3x
