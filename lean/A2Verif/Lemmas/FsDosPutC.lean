import A2Verif.Lemmas.FsDosPutB
/-!
# `put`, part C: the volume after the loop

From the loop invariant at the end of the loop: the image is laid out as the old layout plus one file (T/S list
`[uT]` at the position of the catalog slot), its reading is the old one with one record inserted.  Core Lean only.
-/
set_option linter.unusedSimpArgs false
namespace A2Verif.Fs.Dos3x
open A2Verif.FsDos A2Verif.Read.Dos3x

theorem all2_split_append {α β : Type} {R : α → β → Prop} : ∀ {L1 L2 : List α} {T : List β}, All2 R (L1 ++ L2) T →
    ∃ T1 T2, T = T1 ++ T2 ∧ All2 R L1 T1 ∧ All2 R L2 T2 := by
  intro L1
  induction L1 with
  | nil => intro L2 T h; exact ⟨[], T, rfl, All2.nil, h⟩
  | cons x L1 ih =>
    intro L2 T h
    cases h with
    | cons hxb hr =>
      obtain ⟨T1, T2, rfl, h1, h2⟩ := ih hr
      exact ⟨_ :: T1, T2, rfl, All2.cons hxb h1, h2⟩

theorem nodup_filterMap_inj {α : Type} {f : Nat → Option α} : ∀ {l : List Nat}, l.Nodup →
    (∀ a b x, a ∈ l → b ∈ l → f a = some x → f b = some x → a = b) → (l.filterMap f).Nodup := by
  intro l
  induction l with
  | nil => intro _ _; exact List.nodup_nil
  | cons a l ih =>
    intro hn hinj
    have hnc := List.nodup_cons.1 hn
    have ih' := ih hnc.2 (fun a' b x ha hb => hinj a' b x (List.mem_cons_of_mem _ ha) (List.mem_cons_of_mem _ hb))
    rw [List.filterMap_cons]
    cases hfa : f a with
    | none => exact ih'
    | some x =>
      refine List.nodup_cons.2 ⟨?_, ih'⟩
      intro hm
      obtain ⟨b, hb, hfb⟩ := List.mem_filterMap.1 hm
      have := hinj a b x List.mem_cons_self (List.mem_cons_of_mem _ hb) hfa hfb
      exact hnc.1 (this ▸ hb)

theorem pairwise_filterMap_idx {β : Type} {f : Nat → Option (Nat × β)} (hf : ∀ k x, f k = some x → x.1 = k) : ∀ (n m : Nat),
    (((List.range' n m).filterMap f).map (·.1)).Pairwise (· < ·) ∧ ∀ x ∈ ((List.range' n m).filterMap f).map (·.1), n ≤ x := by
  intro n m
  induction m generalizing n with
  | zero => simp
  | succ m ih =>
    rw [List.range'_succ, List.filterMap_cons]
    obtain ⟨h1, h2⟩ := ih (n + 1)
    cases hfn : f n with
    | none => exact ⟨h1, fun x hx => by have := h2 x hx; omega⟩
    | some y =>
      simp only [List.map_cons]
      refine ⟨List.pairwise_cons.2 ⟨fun x hx => by have := h2 x hx; rw [hf n y hfn]; omega, h1⟩, ?_⟩
      intro x hx
      rcases List.mem_cons.1 hx with rfl | hx
      · rw [hf n y hfn]; exact Nat.le_refl _
      · have := h2 x hx; omega


theorem hereOf_idx (r : Raw) (c : Nat) (b : Bytes) :
    (((hereOf r c b 0).map (fun x => (x.1, x.2.1))).map (·.1)).Pairwise (· < ·) := by
  rw [List.map_map]
  have : ((fun (x : Nat × Bytes) => x.1) ∘ fun (x : Nat × Bytes × Nat) => (x.1, x.2.1)) = fun x => x.1 := rfl
  rw [this]
  unfold hereOf
  rw [List.range_eq_range']
  exact (pairwise_filterMap_idx (β := Bytes × Nat) (f := fun k => if pairT b k = 0 then none else
    some (0 + k, sec r (pairT b k * c + pairS b k), pairT b k * c + pairS b k)) (by
      intro k x hx
      by_cases h0 : pairT b k = 0
      · simp [h0] at hx
      · simp only [h0, if_false, Option.some.injEq] at hx
        rw [← hx]; simp) 0 122).1

/-- the record `put` inserts -/
theorem put_entry {w0 : W} {sb : List Nat} {L : Lay} (hi : WInv w0 sb L) {K : PCtx} (hk : PCtxOk K)
    (hK1 : K.img0 = w0.img) (hK2 : K.v0 = w0.v) (hK3 : K.c = w0.c)
    {st : LoopSt} {wf : W} (hli : LI K K.endIdx st wf) (hend : 0 < K.endIdx)
    {e : Nat} {enew : Bytes} (hud : K.ud ∈ L.cat) (he : e < 7) (hdead : isLive (entryAt (sec w0.img K.ud) e) = false)
    (hd1 : K.dir3.getD 1 0 = (sec w0.img K.ud).getD 1 0) (hd2 : K.dir3.getD 2 0 = (sec w0.img K.ud).getD 2 0)
    (hde : entsOfSec K.dir3 = (entsOfSec (sec w0.img K.ud)).take e ++ enew :: (entsOfSec (sec w0.img K.ud)).drop (e + 1))
    (hn0 : enew.getD 0 0 = K.tt) (hn1 : enew.getD 1 0 = K.tsec) (hnm : ∀ x ∈ slice enew 3 30, 128 ≤ x ∧ x < 256)
    (hfresh : pathOfName (slice enew 3 30) ∉ (volOf w0.img w0.c sb L).paths) (htt1 : 1 ≤ K.tt) :
    ∃ T1 T2 F1 F2,
      WInv wf sb { cat := L.cat, tsls := T1 ++ [K.uT] :: T2 } ∧
      (volOf w0.img w0.c sb L).files = F1 ++ F2 ∧
      volOf wf.img w0.c sb { cat := L.cat, tsls := T1 ++ [K.uT] :: T2 } =
        inserted (volOf w0.img w0.c sb L) F1 F2 (recOf wf.img w0.c enew [K.uT]) (freeOf wf.img w0.c) ∧
      (recOf wf.img w0.c enew [K.uT]).owned = K.uT :: pairUnits w0.c st.tsl (List.range 122) ∧
      (recOf wf.img w0.c enew [K.uT]).chunks = (hereOf wf.img w0.c st.tsl 0).map (fun x => (x.1, x.2.1)) ∧
      (inserted (volOf w0.img w0.c sb L) F1 F2 (recOf wf.img w0.c enew [K.uT]) (freeOf wf.img w0.c)).wfB = true ∧
      (recOf wf.img w0.c enew [K.uT]).owned.Nodup ∧
      (∀ x ∈ (recOf wf.img w0.c enew [K.uT]).owned, x ∈ (volOf w0.img w0.c sb L).freeUnits) ∧
      (freeOf wf.img w0.c).Nodup ∧
      (∀ x, x ∈ freeOf wf.img w0.c ↔ x ∈ (volOf w0.img w0.c sb L).freeUnits ∧ x ∉ (recOf wf.img w0.c enew [K.uT]).owned) ∧
      ((recOf wf.img w0.c enew [K.uT]).chunks.map (·.1)).Pairwise (· < ·) := by
  have hok := hi.ok
  have hd := hi.desc
  have hokf := hli.wok
  have hcf : wf.c = w0.c := by rw [hli.hc, hK3]
  have hsz : wf.img.units.size = w0.img.units.size := by rw [W.img_size, W.img_size, hokf.size, hok.size, hcf]
  have hT := hli.hT hend
  -- units written are free in the old buffer
  have hnew_free : ∀ x, (x = K.uT ∨ ∃ k, k < 122 ∧ pairT st.tsl k ≠ 0 ∧ x = K.unit st.tsl k) → isFreeU w0.v w0.c x = true := by
    rintro x (rfl | ⟨k, hk1, h0, rfl⟩)
    · rw [← hK2, ← hK3]; exact hk.uTfree
    · rw [← hK2, ← hK3]; exact (hli.dfree k hk1 h0).1
  have hpb : ∀ k, k < 122 → pairT st.tsl k ≠ 0 → pairT st.tsl k < 35 ∧ pairS st.tsl k < w0.c := by
    intro k hk1 h0
    have hke : k < K.endIdx := by
      rcases Nat.lt_or_ge k K.endIdx with h | h
      · exact h
      · exact absurd (hli.hole k hk1 (Or.inl h)) h0
    cases hl : K.chunks.lookup k with
    | none => exact absurd (hli.hole k hk1 (Or.inr hl)) h0
    | some d => obtain ⟨_, a, b, _⟩ := hli.pres k d hke hl; exact ⟨a, by rw [← hK3]; exact b⟩
  have hnew_lt : ∀ x, (x = K.uT ∨ ∃ k, k < 122 ∧ pairT st.tsl k ≠ 0 ∧ x = K.unit st.tsl k) → x < 35 * w0.c := by
    rintro x (rfl | ⟨k, hk1, h0, rfl⟩)
    · rw [hk.huT, ← hK3]; exact unit_lt hk.htt hk.htsec
    · unfold PCtx.unit; rw [hK3]; exact unit_lt (hpb k hk1 h0).1 (hpb k hk1 h0).2
  -- frame for units that are not free in the old buffer
  have hsecO : ∀ x, x ≠ K.ud → x ≠ vtocTrack * w0.c → ¬ (x < 35 * w0.c ∧ isFreeU w0.v w0.c x = true) → sec wf.img x = sec w0.img x := by
    intro x h1 h2 h3
    rw [← hK1]
    apply hli.frame x _ h1 (by rw [hK3]; exact h2)
    · intro k hk1 h0 e
      exact h3 ⟨hnew_lt x (Or.inr ⟨k, hk1, h0, e⟩), hnew_free x (Or.inr ⟨k, hk1, h0, e⟩)⟩
    · intro e; exact h3 ⟨hnew_lt x (Or.inl e), hnew_free x (Or.inl e)⟩
  have hsysO : ∀ x, x ∈ (volOf w0.img w0.c sb L).sys → x ≠ K.ud → x ≠ vtocTrack * w0.c → sec wf.img x = sec w0.img x :=
    fun x hx h1 h2 => hsecO x h1 h2 (sys_not_free hi hx)
  have hownO : ∀ f ∈ (volOf w0.img w0.c sb L).files, ∀ x ∈ f.owned, sec wf.img x = sec w0.img x := by
    intro f hf x hx
    have hxo : x ∈ (volOf w0.img w0.c sb L).allOwned := List.mem_flatMap.2 ⟨f, hf, hx⟩
    apply hsecO x (fun e => (cat_unit_facts hi.wf hud).2 f hf (e ▸ hx)) (fun e => owned_ne_vtoc hi.wf f hf (e ▸ hx))
    intro h
    have := (wfB_iff.1 hi.wf).2.2.1 x hxo
    apply this
    show x ∈ freeOf w0.img w0.c
    rw [freeOf_eq hok]; exact mem_freeList.2 h
  have hcat17 : ∀ x ∈ L.cat, x ≠ vtocTrack * w0.c := fun x hx => (cat_unit_facts hi.wf hx).1
  have hvt : vtocOf wf.img w0.c = quantize wf.v := by have := vtocOf_img hokf; rw [hcf] at this; exact this
  have hgv : ∀ i, i < 0x38 → i ≠ 0x30 → i ≠ 0x31 → (vtocOf wf.img w0.c).getD i 0 = (vtocOf w0.img w0.c).getD i 0 := by
    intro i hi' a b
    have hlen := hli.taken.ok.vlen
    rw [hvt, getD_quantize (by rw [hlen]; omega) (by rw [hlen]; omega), hli.taken.low i hi' a b, hK2, getD_vtocOf hok (by omega)]
  -- the catalog chain
  obtain ⟨C1, C2, hcat⟩ := List.append_of_mem hud
  have hnd := hd.catNodup
  rw [hcat] at hnd
  have hC1 : K.ud ∉ C1 := fun hm => (List.nodup_append.1 hnd).2.2 _ hm _ List.mem_cons_self rfl
  have hC2 : K.ud ∉ C2 := (List.nodup_cons.1 (List.nodup_append.1 hnd).2.1).1
  have hudF : sec wf.img K.ud = K.dir3 := hli.hud
  have hcatch : CatChain wf.img w0.c ((vtocOf w0.img w0.c).getD 1 0) ((vtocOf w0.img w0.c).getD 2 0) L.cat := by
    apply CatChain.congr hsz _ hd.cat
    intro x hx
    by_cases hxu : x = K.ud
    · subst hxu; rw [hudF]; exact ⟨hd1, hd2⟩
    · rw [hsysO x (sys_mem_cat hx) hxu (hcat17 x hx)]; exact ⟨rfl, rfl⟩
  have hE1 : entsOf wf.img C1 = entsOf w0.img C1 := entsOf_congr (fun x hx =>
    hsysO x (sys_mem_cat (by rw [hcat]; exact List.mem_append_left _ hx)) (fun (e : x = K.ud) => hC1 (e ▸ hx))
      (hcat17 x (by rw [hcat]; exact List.mem_append_left _ hx)))
  have hE2 : entsOf wf.img C2 = entsOf w0.img C2 := entsOf_congr (fun x hx =>
    hsysO x (sys_mem_cat (by rw [hcat]; exact List.mem_append_right _ (List.mem_cons_of_mem _ hx))) (fun (e : x = K.ud) => hC2 (e ▸ hx))
      (hcat17 x (by rw [hcat]; exact List.mem_append_right _ (List.mem_cons_of_mem _ hx))))
  obtain ⟨t', s', ht', hs', hue, hult⟩ := catChain_mem hd.cat K.ud hud
  rw [W.img_size] at hult
  have hbl : (sec w0.img K.ud).length = 256 := sec_img_length hok hult
  generalize hA : entsOf w0.img C1 ++ (entsOfSec (sec w0.img K.ud)).take e = A
  generalize hB : (entsOfSec (sec w0.img K.ud)).drop (e + 1) ++ entsOf w0.img C2 = B
  have hents : entsOf w0.img L.cat = A ++ entryAt (sec w0.img K.ud) e :: B := by
    rw [hcat, entsOf_append, entsOf_cons, entsOfSec_split (b := sec w0.img K.ud) (nm := List.replicate 30 0) hbl he (by simp), ← hA, ← hB]
    simp [List.append_assoc]
  have hents' : entsOf wf.img L.cat = A ++ enew :: B := by
    rw [hcat, entsOf_append, entsOf_cons, hE1, hE2, hudF, hde, ← hA, ← hB]
    simp [List.append_assoc]
  have hlivenew : isLive enew = true := by
    apply isLive_of; rw [hn0]; have := hk.htt; omega
  have hlv : liveOf w0.img L.cat = A.filter isLive ++ B.filter isLive := by
    unfold liveOf; rw [hents, List.filter_append, List.filter_cons, if_neg (by rw [hdead]; simp)]
  have hlv' : liveOf wf.img L.cat = A.filter isLive ++ enew :: B.filter isLive := by
    unfold liveOf; rw [hents', List.filter_append, List.filter_cons, if_pos hlivenew]
  -- the files
  have hfiles := hd.files
  rw [hlv] at hfiles
  obtain ⟨T1, T2, hT12, hA2, hB2⟩ := all2_split_append hfiles
  have hlen1 := hA2.length_eq
  have hvf : (volOf w0.img w0.c sb L).files = filesOf w0.img w0.c (A.filter isLive) T1 ++ filesOf w0.img w0.c (B.filter isLive) T2 := by
    show filesOf w0.img w0.c (liveOf w0.img L.cat) L.tsls = _
    rw [hlv, hT12, filesOf_append hlen1]
  have hF1 := filesOf_congr hsz hA2 (fun f hf => hownO f (by rw [hvf]; exact List.mem_append_left _ hf))
  have hF2 := filesOf_congr hsz hB2 (fun f hf => hownO f (by rw [hvf]; exact List.mem_append_right _ hf))
  -- the new file's chain
  have huTlt : K.uT < wf.img.units.size := by rw [hsz, W.img_size, hok.size]; exact hnew_lt _ (Or.inl rfl)
  have hpairs : PairsOk wf.img w0.c st.tsl := by
    intro k hk1 h0
    refine ⟨(hpb k hk1 h0).1, (hpb k hk1 h0).2, ?_⟩
    rw [hsz, W.img_size, hok.size]; exact unit_lt (hpb k hk1 h0).1 (hpb k hk1 h0).2
  have hchain : FileChain wf.img w0.c enew [K.uT] := by
    refine ⟨?_, by simp, by simp⟩
    rw [hn0, hn1]
    refine ⟨⟨hk.htt, by rw [← hK3]; exact hk.htsec, by rw [hk.huT, hK3], huTlt, by rw [hT]; exact hpairs⟩, ?_, ?_⟩
    · rw [hT]; exact hli.next0.1
    · rw [hT]; exact hli.next0.2
  have hvf' : filesOf wf.img w0.c (liveOf wf.img L.cat) (T1 ++ [K.uT] :: T2) =
      filesOf w0.img w0.c (A.filter isLive) T1 ++ recOf wf.img w0.c enew [K.uT] :: filesOf w0.img w0.c (B.filter isLive) T2 := by
    rw [hlv', filesOf_append hlen1, filesOf_cons, hF1.1, hF2.1]
  have hvol : volOf wf.img w0.c sb { cat := L.cat, tsls := T1 ++ [K.uT] :: T2 } =
      inserted (volOf w0.img w0.c sb L) (filesOf w0.img w0.c (A.filter isLive) T1) (filesOf w0.img w0.c (B.filter isLive) T2)
        (recOf wf.img w0.c enew [K.uT]) (freeOf wf.img w0.c) := by
    unfold volOf inserted
    simp only [hvf', hgv 6 (by decide) (by decide) (by decide)]
    rfl
  -- the record
  have hwalk : walkOf wf.img w0.c 0 [K.uT] = hereOf wf.img w0.c st.tsl 0 := by simp [walkOf, hT]
  have hown : (recOf wf.img w0.c enew [K.uT]).owned = K.uT :: pairUnits w0.c st.tsl (List.range 122) := by
    show [K.uT] ++ (walkOf wf.img w0.c 0 [K.uT]).map (·.2.2) = _
    rw [hwalk, hereOf_units]; rfl
  have hchunks : (recOf wf.img w0.c enew [K.uT]).chunks = (hereOf wf.img w0.c st.tsl 0).map (fun x => (x.1, x.2.1)) := by
    show (walkOf wf.img w0.c 0 [K.uT]).map (fun x => (x.1, x.2.1)) = _
    rw [hwalk]
  have hmemD : ∀ x, x ∈ pairUnits w0.c st.tsl (List.range 122) ↔ ∃ k, k < 122 ∧ pairT st.tsl k ≠ 0 ∧ x = K.unit st.tsl k := by
    intro x; rw [mem_pairUnits]; unfold PCtx.unit; rw [hK3]
  have hgn : (recOf wf.img w0.c enew [K.uT]).owned.Nodup := by
    rw [hown]
    refine List.nodup_cons.2 ⟨?_, ?_⟩
    · rw [hmemD]; rintro ⟨k, hk1, h0, e⟩; exact (hli.dfree k hk1 h0).2 e.symm
    · unfold pairUnits
      apply nodup_filterMap_inj List.nodup_range
      intro a b x ha hb hfa hfb
      have ha0 : pairT st.tsl a ≠ 0 := fun h => by simp [h] at hfa
      have hb0 : pairT st.tsl b ≠ 0 := fun h => by simp [h] at hfb
      simp only [ha0, if_false, Option.some.injEq] at hfa
      simp only [hb0, if_false, Option.some.injEq] at hfb
      apply hli.inj a b (List.mem_range.1 ha) (List.mem_range.1 hb) ha0 hb0
      unfold PCtx.unit; rw [hK3, hfa, hfb]
  have hgf : ∀ x ∈ (recOf wf.img w0.c enew [K.uT]).owned, x ∈ (volOf w0.img w0.c sb L).freeUnits := by
    intro x hx
    rw [hown, List.mem_cons, hmemD] at hx
    show x ∈ freeOf w0.img w0.c
    rw [freeOf_eq hok]
    exact mem_freeList.2 ⟨hnew_lt x hx, hnew_free x hx⟩
  have hfnd : (freeOf wf.img w0.c).Nodup := (List.filter_sublist (l := List.range (35 * w0.c))).nodup List.nodup_range
  have hfree : ∀ x, x ∈ freeOf wf.img w0.c ↔ x ∈ (volOf w0.img w0.c sb L).freeUnits ∧ x ∉ (recOf wf.img w0.c enew [K.uT]).owned := by
    intro x
    show _ ↔ x ∈ freeOf w0.img w0.c ∧ _
    have e1 := freeOf_eq hokf
    rw [hcf] at e1
    rw [e1, freeOf_eq hok, mem_freeList, mem_freeList, hown]
    constructor
    · rintro ⟨a, b⟩
      have ht := hli.taken
      rw [hK2, hK3] at ht
      rw [isFreeU_taken ht a] at b
      simp only [Bool.and_eq_true, Bool.not_eq_true', decide_eq_false_iff_not] at b
      exact ⟨⟨a, b.1⟩, b.2⟩
    · rintro ⟨⟨a, b⟩, c'⟩
      have ht := hli.taken
      rw [hK2, hK3] at ht
      refine ⟨a, ?_⟩
      rw [isFreeU_taken ht a, b]
      simpa using c'
  have hcp : ((recOf wf.img w0.c enew [K.uT]).chunks.map (·.1)).Pairwise (· < ·) := by
    rw [hchunks]; exact hereOf_idx _ _ _
  have hwf' := wfB_insert hvf hi.wf hgn hgf hfnd hfree hfresh hcp
  refine ⟨T1, T2, _, _, ⟨hokf, ?_, ?_, ?_, hi.catNe, by rw [hcf]; exact hi.cover, hli.aok.track1, hli.aok.lastTrack⟩,
    hvf, hvol, hown, hchunks, hwf', hgn, hgf, hfnd, hfree, hcp⟩
  · rw [hcf]
    refine ⟨hd.hc, by rw [hsz]; exact hd.size, by rw [hgv _ (by decide) (by decide) (by decide)]; exact hd.vTracks,
      by rw [hgv _ (by decide) (by decide) (by decide)]; exact hd.vSpt, by rw [hgv _ (by decide) (by decide) (by decide)]; exact hd.vPairs,
      by rw [hgv _ (by decide) (by decide) (by decide), hgv _ (by decide) (by decide) (by decide)]; exact hcatch, hd.catNodup, hd.catLen, ?_⟩
    show All2 (FileChain wf.img w0.c) (liveOf wf.img L.cat) (T1 ++ [K.uT] :: T2)
    rw [hlv']
    exact All2.append hF1.2 (All2.cons hchain hF2.2)
  · rw [hcf, hvol]; exact hwf'
  · intro e' he'
    have he'' : e' ∈ liveOf wf.img L.cat := he'
    rw [hlv'] at he''
    have hold : ∀ e' ∈ A.filter isLive ++ B.filter isLive, ∀ x ∈ slice e' 3 30, 128 ≤ x ∧ x < 256 := by
      intro e' h; apply hi.names e'; rw [hlv]; exact h
    rcases List.mem_append.1 he'' with h | h
    · exact hold e' (List.mem_append_left _ h)
    · rcases List.mem_cons.1 h with rfl | h
      · exact hnm
      · exact hold e' (List.mem_append_right _ h)

end A2Verif.Fs.Dos3x
