import A2Verif.Lemmas.TrackGFmt
/-!
The formatter (`disk525::format`, model `formatTrack`) establishes `GFmt`: the bits it writes are the cell
stream of 40 sync bytes and the sectors, shifted by the `z` zero bits that close the last sync byte of the
track (they end up at the end of the buffer, the pointer stands behind them at bit 0).
-/
namespace A2Verif.Model.Track
open Head A2Verif.Model.Nibble

/-- data area the formatter lays down: 16 sectors: the data field of 256 zeros, 13 sectors: none -/
def fld0 (f : Fmt) : Option (List Nat) := if f.six then some (enc62 (List.replicate 256 0)) else none

def fmtSec (f : Fmt) (gap id : Nat) : GSec := ⟨id, fld0 f, gap⟩

def syncW (f : Fmt) (k : Nat) : List Bool := (List.replicate k (syncOne f.syncBits)).flatten

/-- the bits one iteration of the formatter's sector loop writes -/
def secW (f : Fmt) (vol trk id : Nat) : List Bool :=
  bytesBits (f.adrPro ++ encode44 vol ++ encode44 trk ++ encode44 id ++ encode44 (0 ^^^ vol ^^^ trk ^^^ id) ++ epi) ++
  (if f.six then syncW f 10 ++ bytesBits (datPro ++ enc62 (List.replicate 256 0) ++ epi)
   else syncW f 10 ++ bytesBits (List.replicate 417 0xff)) ++ syncW f 20

/-- all bits `format` writes -/
def trackW (f : Fmt) (vol trk : Nat) (ids : List Nat) : List Bool :=
  syncW f 40 ++ (ids.map (secW f vol trk)).flatten

theorem formatSector_eq (f : Fmt) (vol trk id : Nat) (t : Trk) :
    formatSector f vol trk id t = writeBits (secW f vol trk id) t := by
  unfold formatSector secW syncW
  cases h6 : f.six
  · simp only [writeBytes_eq, writeSync_eq, bytesBits_append, writeBits_append, Bool.false_eq_true, if_false]
  · simp only [encodeSector, writeBytes_eq, writeSync_eq, bytesBits_append, writeBits_append, if_true, h6]

theorem foldl_formatSector (f : Fmt) (vol trk : Nat) (ids : List Nat) : ∀ t1 : Trk,
    List.foldl (fun t s => formatSector f vol trk s t) t1 ids = writeBits (ids.map (secW f vol trk)).flatten t1 := by
  induction ids with
  | nil => intro t1; rfl
  | cons s l ih =>
    intro t1
    simp only [List.foldl_cons, List.map_cons, List.flatten_cons, writeBits_append]
    rw [formatSector_eq, ih]

theorem formatTrack_eq (f : Fmt) (vol trk : Nat) (ids : List Nat) (t : Trk) :
    formatTrack f vol trk ids t = writeBits (trackW f vol trk ids) t := by
  unfold formatTrack trackW
  rw [writeBits_append, writeSync_eq, foldl_formatSector]
  rfl

theorem enc62_length (d : List Nat) : (enc62 d).length = 343 := by simp [enc62, pre62, length_chain]

theorem bytesBits_cons (b : Nat) (bs : List Nat) : bytesBits (b :: bs) = bitsOf b 8 ++ bytesBits bs := by
  simp [bytesBits]

/-! ## the bits as a cell stream -/

def zs (f : Fmt) : List Bool := List.replicate f.z false

theorem syncOne_eq (f : Fmt) (hs : 8 ≤ f.syncBits) : syncOne f.syncBits = bitsOf 0xff 8 ++ zs f := by
  simp [syncOne, zs, Fmt.z, Nat.min_eq_right hs]

theorem cell_ff (f : Fmt) : cellBits (f.z, 0xff) = zs f ++ bitsOf 0xff 8 := rfl

/-- a sync gap in front of a cell boundary: the zeros move through -/
theorem zs_syncW (f : Fmt) (hs : 8 ≤ f.syncBits) (k : Nat) :
    zs f ++ syncW f k = stream (List.replicate k (f.z, 0xff)) ++ zs f := by
  induction k with
  | zero => simp [syncW, stream]
  | succ k ih =>
    have e1 : syncW f (k + 1) = syncOne f.syncBits ++ syncW f k := by simp [syncW, List.replicate_succ]
    rw [e1, syncOne_eq f hs, List.replicate_succ, stream_cons, cell_ff]
    calc zs f ++ (bitsOf 0xff 8 ++ zs f ++ syncW f k) = zs f ++ bitsOf 0xff 8 ++ (zs f ++ syncW f k) := by simp
      _ = zs f ++ bitsOf 0xff 8 ++ (stream (List.replicate k (f.z, 0xff)) ++ zs f) := by rw [ih]
      _ = _ := by simp

/-- a sync gap behind a byte -/
theorem syncW_cells (f : Fmt) (hs : 8 ≤ f.syncBits) (k : Nat) :
    syncW f (k + 1) = stream (syncCells f (k + 1)) ++ zs f := by
  unfold syncW
  rw [syncOne_eq f hs, ← flatten_shift]
  simp [syncCells, stream, cellBits, zs]

theorem stream_addrCells (f : Fmt) (vol trk id : Nat) :
    stream (addrCells f vol trk id) = zs f ++
      bytesBits (f.adrPro ++ encode44 vol ++ encode44 trk ++ encode44 id ++ encode44 (0 ^^^ vol ^^^ trk ^^^ id) ++ epi) := by
  unfold addrCells
  rw [stream_cons, stream_plain]
  simp [cellBits, zs, bytesBits, Fmt.adrPro, addrBytes]

theorem stream_blank (f : Fmt) (hs : 8 ≤ f.syncBits) :
    stream (blankCells f) = syncW f 10 ++ bytesBits (List.replicate 417 0xff) := by
  unfold blankCells
  have h10 : syncW f 10 = stream (syncCells f 10) ++ zs f := syncW_cells f hs 9
  have : List.replicate 417 (0xff : Nat) = 0xff :: List.replicate 416 0xff := rfl
  rw [stream_append, stream_cons, stream_plain, h10, cell_ff, this, bytesBits_cons]
  simp only [List.append_assoc]

theorem stream_gfield0 (f : Fmt) (hs : 8 ≤ f.syncBits) :
    stream (gfield f (fld0 f)) = (if f.six then syncW f 10 ++ bytesBits (datPro ++ enc62 (List.replicate 256 0) ++ epi)
      else syncW f 10 ++ bytesBits (List.replicate 417 0xff)) := by
  unfold fld0
  cases h6 : f.six
  · simp only [Bool.false_eq_true, if_false, gfield]; exact stream_blank f hs
  · simp only [if_true, gfield]; exact stream_fieldCells f hs _

/-- one formatted sector: the zeros in front of its address prolog move to its end -/
theorem zs_secW (f : Fmt) (hs : 8 ≤ f.syncBits) (vol trk id : Nat) :
    zs f ++ secW f vol trk id = stream (gsecCells f vol trk (fmtSec f 20 id)) ++ zs f := by
  have h20 : syncW f 20 = stream (syncCells f 20) ++ zs f := syncW_cells f hs 19
  unfold secW gsecCells FG fmtSec
  simp only [stream_append, stream_addrCells, stream_gfield0 f hs, h20]
  simp only [List.append_assoc]

theorem zs_secsW (f : Fmt) (hs : 8 ≤ f.syncBits) (vol trk : Nat) (ids : List Nat) :
    zs f ++ (ids.map (secW f vol trk)).flatten = stream (gsecsCells f vol trk (ids.map (fmtSec f 20))) ++ zs f := by
  induction ids with
  | nil => simp [gsecsCells, stream]
  | cons s l ih =>
    simp only [List.map_cons, List.flatten_cons, gsecsCells_cons, stream_append]
    calc zs f ++ (secW f vol trk s ++ (l.map (secW f vol trk)).flatten)
        = (zs f ++ secW f vol trk s) ++ (l.map (secW f vol trk)).flatten := by simp
      _ = stream (gsecCells f vol trk (fmtSec f 20 s)) ++ (zs f ++ (l.map (secW f vol trk)).flatten) := by
          rw [zs_secW f hs]; simp
      _ = _ := by rw [ih]; simp

/-- the cells of a freshly formatted track, from the cell boundary in front of the first sync byte -/
def fmtCells (f : Fmt) (vol trk : Nat) (ids : List Nat) : List Cell :=
  List.replicate 40 (f.z, 0xff) ++ gsecsCells f vol trk (ids.map (fmtSec f 20))

theorem zs_trackW (f : Fmt) (hs : 8 ≤ f.syncBits) (vol trk : Nat) (ids : List Nat) :
    zs f ++ trackW f vol trk ids = stream (fmtCells f vol trk ids) ++ zs f := by
  unfold trackW fmtCells
  rw [stream_append]
  calc zs f ++ (syncW f 40 ++ (ids.map (secW f vol trk)).flatten)
      = (zs f ++ syncW f 40) ++ (ids.map (secW f vol trk)).flatten := by simp
    _ = stream (List.replicate 40 (f.z, 0xff)) ++ (zs f ++ (ids.map (secW f vol trk)).flatten) := by
        rw [zs_syncW f hs]; simp
    _ = _ := by rw [zs_secsW f hs]; simp

theorem syncOne_length (f : Fmt) (hs : 8 ≤ f.syncBits) : (syncOne f.syncBits).length = f.syncBits := by
  simp [syncOne, bitsOf_length, Nat.min_eq_right hs]; omega

theorem syncW_length (f : Fmt) (hs : 8 ≤ f.syncBits) (k : Nat) : (syncW f k).length = k * f.syncBits := by
  induction k with
  | zero => simp [syncW]
  | succ k ih =>
    have e1 : syncW f (k + 1) = syncOne f.syncBits ++ syncW f k := by simp [syncW, List.replicate_succ]
    rw [e1, List.length_append, ih, syncOne_length f hs, Nat.succ_mul]; omega

theorem secW_length (f : Fmt) (hs : 8 ≤ f.syncBits) (vol trk id : Nat) :
    (secW f vol trk id).length = (3 + 8 + 3) * 8 + 10 * f.syncBits + (3 + f.dataNibs + 3) * 8 + 20 * f.syncBits := by
  unfold secW Fmt.dataNibs
  cases h6 : f.six
  · simp only [Bool.false_eq_true, if_false, List.length_append, bytesBits_length, syncW_length f hs, Fmt.adrPro, encode44, epi,
      List.length_cons, List.length_nil, List.length_replicate]
    omega
  · simp only [if_true, List.length_append, bytesBits_length, syncW_length f hs, Fmt.adrPro, encode44, epi, datPro,
      List.length_cons, List.length_nil, enc62_length]
    omega

theorem trackW_length (f : Fmt) (hs : 8 ≤ f.syncBits) (vol trk : Nat) (ids : List Nat) :
    (trackW f vol trk ids).length = f.bitCount ids.length := by
  unfold trackW Fmt.bitCount
  rw [List.length_append, syncW_length f hs]
  have : ((ids.map (secW f vol trk)).flatten).length =
      ids.length * ((3 + 8 + 3) * 8 + 10 * f.syncBits + (3 + f.dataNibs + 3) * 8 + 20 * f.syncBits) := by
    induction ids with
    | nil => simp
    | cons s l ih =>
      simp only [List.map_cons, List.flatten_cons, List.length_append, ih, secW_length f hs, List.length_cons, Nat.succ_mul]
      omega
  rw [this]

/-! ## `format` establishes `GFmt` -/

theorem syncCells_length (f : Fmt) (k : Nat) : (syncCells f k).length = k := by
  cases k <;> simp [syncCells]

theorem syncCells_add (f : Fmt) (a b : Nat) (ha : 0 < a) :
    syncCells f (a + b) = syncCells f a ++ List.replicate b (f.z, 0xff) := by
  obtain ⟨a', rfl⟩ : ∃ a', a = a' + 1 := ⟨a - 1, by omega⟩
  rw [show a' + 1 + b = (a' + b) + 1 by omega]
  simp [syncCells, ← List.replicate_append_replicate]

theorem stream_pad (p : Nat) : stream (List.replicate p ((0, 0xff) : Cell)) = List.replicate (8 * p) true := by
  induction p with
  | zero => rfl
  | succ p ih =>
    rw [List.replicate_succ, stream_cons, ih, show 8 * (p + 1) = 8 + 8 * p by omega, ← List.replicate_append_replicate]
    rfl

theorem goodFld0 (f : Fmt) : GoodFld f (fld0 f) := by
  unfold fld0
  cases h6 : f.six
  · simp only [Bool.false_eq_true, if_false]; exact h6
  · simp only [if_true]
    exact ⟨enc62_clean _, by rw [enc62_length]; simp only [Fmt.dataNibs, h6, if_true]⟩

theorem goodG_fmtSec (f : Fmt) (gap id : Nat) (hid : id < 256) (hm : 16 + f.dataNibs + gap + 3 ≤ f.maxTries) :
    GoodG f (fmtSec f gap id) := by
  refine ⟨hid, goodFld0 f, ?_⟩
  simp only [FG, fmtSec, List.length_append, length_gfield f _ (goodFld0 f), syncCells_length]
  exact hm

/-- **The formatter establishes the track invariant.**  `t` holds the bits `format` writes for the sector
addresses `ids0 ++ [last]` (volume `vol`, track `trk`), optionally followed by `p` bytes `FF` (the unwritten
rest of a NIB track buffer, which belongs to the circular track there), pointer at bit 0.  Then the track is
in state `GFmt`: head in the gap of the last sector, inside the `z` zero bits that close the last sync byte
(`z = 0` for NIB). -/
theorem format_gfmt (f : Fmt) (hs : 8 ≤ f.syncBits) (vol trk : Nat) (ids0 : List Nat) (last p : Nat)
    (hm : 16 + f.dataNibs + (60 + p) + 3 ≤ f.maxTries)
    (hid : ∀ i ∈ ids0 ++ [last], i < 256) (hnd : (ids0 ++ [last]).Nodup) (hlen : ids0.length < 32)
    (hpz : p = 0 ∨ f.z = 0) (t : Trk)
    (hb : t.bits = trackW f vol trk (ids0 ++ [last]) ++ List.replicate (8 * p) true) (hp : t.pos = 0) :
    GFmt (f.bitCount (ids0.length + 1) + 8 * p) f vol trk t (fmtSec f (60 + p) last) (ids0.map (fmtSec f 20))
      (List.replicate 40 (f.z, 0xff)) (gfield f (fld0 f) ++ syncCells f (20 + p))
      (f.bitCount (ids0.length + 1) + 8 * p - f.z) f.z := by
  -- the cells ahead
  have hX : ahead f vol trk (fmtSec f (60 + p) last) (ids0.map (fmtSec f 20)) (List.replicate 40 (f.z, 0xff))
      (gfield f (fld0 f) ++ syncCells f (20 + p)) =
      fmtCells f vol trk (ids0 ++ [last]) ++ List.replicate p (f.z, 0xff) := by
    unfold ahead fmtCells
    rw [syncCells_add f 20 p (by omega)]
    simp [gsecsCells_append, gsecsCells_cons, gsecsCells_nil, gsecCells, FG, fmtSec]
  have hpad : zs f ++ List.replicate (8 * p) true = stream (List.replicate p (f.z, 0xff)) ++ zs f := by
    rcases hpz with h | h
    · subst h; simp [stream]
    · rw [h, stream_pad]; simp [zs, h]
  have hshift : zs f ++ t.bits = stream (fmtCells f vol trk (ids0 ++ [last]) ++ List.replicate p (f.z, 0xff)) ++ zs f := by
    rw [hb, ← List.append_assoc, zs_trackW f hs, stream_append, List.append_assoc, hpad, List.append_assoc]
  -- the stream starts with the zeros of the first sync cell
  obtain ⟨S', hS'⟩ : ∃ S', stream (fmtCells f vol trk (ids0 ++ [last]) ++ List.replicate p (f.z, 0xff)) = zs f ++ S' := by
    refine ⟨bitsOf 0xff 8 ++ stream (List.replicate 39 (f.z, 0xff) ++ gsecsCells f vol trk ((ids0 ++ [last]).map (fmtSec f 20)) ++
      List.replicate p (f.z, 0xff)), ?_⟩
    unfold fmtCells
    have : List.replicate 40 ((f.z, 0xff) : Cell) = (f.z, 0xff) :: List.replicate 39 (f.z, 0xff) := rfl
    rw [this]
    simp only [List.cons_append, stream_cons, cell_ff, List.append_assoc]
  have hbits : t.bits = S' ++ zs f := by
    rw [hS', List.append_assoc] at hshift
    exact List.append_cancel_left hshift
  have hzl : (zs f).length = f.z := by simp [zs]
  have hlenW : t.bits.length = f.bitCount (ids0.length + 1) + 8 * p := by
    rw [hb, List.length_append, trackW_length f hs]; simp
  have hn : blen (fmtCells f vol trk (ids0 ++ [last]) ++ List.replicate p (f.z, 0xff)) = f.bitCount (ids0.length + 1) + 8 * p := by
    have := congrArg List.length hshift
    simp only [List.length_append, hzl, hlenW] at this
    unfold blen; omega
  have hzn : f.z ≤ f.bitCount (ids0.length + 1) + 8 * p := by
    unfold Fmt.bitCount Fmt.z; omega
  have h0 : 0 < f.bitCount (ids0.length + 1) + 8 * p := by
    unfold Fmt.bitCount; omega
  refine ⟨?_, ?_, ?_, ?_, ?_, ?_⟩
  · show (gfield f (fld0 f) ++ syncCells f (20 + p)) ++ List.replicate 40 (f.z, 0xff) = FG f (fmtSec f (60 + p) last)
    simp only [FG, fmtSec]
    rw [show 60 + p = (20 + p) + 40 by omega, syncCells_add f (20 + p) 40 (by omega), List.append_assoc]
  · rw [hX]
    refine ⟨?_, hn, h0, ?_⟩
    · rw [hS', hbits, List.drop_left' hzl, List.take_left' hzl]
    · rw [hp, Nat.sub_add_cancel hzn, Nat.mod_self]
  · rw [hX]
    refine Or.inr ⟨(f.z, 0xff), List.replicate 39 (f.z, 0xff) ++ gsecsCells f vol trk ((ids0 ++ [last]).map (fmtSec f 20)) ++
      List.replicate p (f.z, 0xff), ?_, Nat.le_refl _⟩
    unfold fmtCells
    have : List.replicate 40 ((f.z, 0xff) : Cell) = (f.z, 0xff) :: List.replicate 39 (f.z, 0xff) := rfl
    rw [this]; simp
  · intro s hs'
    simp only [List.mem_cons, List.mem_map] at hs'
    rcases hs' with h | ⟨i, hi, h⟩
    · subst h; exact goodG_fmtSec f _ last (hid last (by simp)) hm
    · subst h; exact goodG_fmtSec f 20 i (hid i (by simp [hi])) (by omega)
  · have : ((fmtSec f (60 + p) last :: ids0.map (fmtSec f 20)).map (·.id)) = last :: ids0 := by
      simp [fmtSec, Function.comp_def]
    rw [this]
    have hperm : List.Perm (ids0 ++ [last]) (last :: ids0) := List.perm_append_comm
    exact (hperm.nodup_iff).1 hnd
  · simpa using hlen

/-- the track the formatter hands back: `bit_count` bits, every one written, pointer at 0 -/
theorem formatTrack_bits (f : Fmt) (hs : 8 ≤ f.syncBits) (vol trk : Nat) (ids : List Nat) (t0 : Trk)
    (h0 : t0.bits.length = f.bitCount ids.length) (hp0 : t0.pos = 0) :
    (formatTrack f vol trk ids t0).bits = trackW f vol trk ids ∧ (formatTrack f vol trk ids t0).pos = 0 := by
  have hl := trackW_length f hs vol trk ids
  have hn : 0 < f.bitCount ids.length := by unfold Fmt.bitCount; omega
  rw [formatTrack_eq]
  constructor
  · have := writeBits_bits (trackW f vol trk ids) t0 t0.bits [] (by simp) (by rw [h0, hl])
    simpa using this
  · have := writeBits_posAt (trackW f vol trk ids) t0 (f.bitCount ids.length) 0 ⟨h0, hn, by rw [hp0]; simp⟩
    rw [this.2.2, hl]; simp

end A2Verif.Model.Track
