import A2Verif.Lemmas.TrackG
import A2Verif.Lemmas.NibbleRT
/-!
The sector search over several sectors, the data field read (with and without a data field), the data
field write (6&2 and 5&3) — with the bit pointer — and `read_sector` / `write_sector` on a track in the
state `GFmt` (what the formatter and every later operation leave behind).
-/
namespace A2Verif.Model.Track
open Head A2Verif.Model.Nibble

/-- the cells ahead of the head, once around: the rest `pre` of the data area + gap the head is in, the
other sectors, the address field of the sector the head is in, and the part `fpart` already passed -/
def ahead (f : Fmt) (vol trk : Nat) (cur : GSec) (others : List GSec) (pre fpart : List Cell) : List Cell :=
  pre ++ gsecsCells f vol trk others ++ addrCells f vol trk cur.id ++ fpart

/-- **Sector search over the sectors in between**, with the pointer. -/
theorem findSectorLoop_skip_st (n : Nat) (f : Fmt) (vol trk sec : Nat) (hv : vol < 256) (ht : trk < 256) (hsec : sec < 256) :
    ∀ (l1 : List GSec) (fuel : Nat) (t : Trk) (pre tail : List Cell) (q k : Nat),
    Quiet f pre → pre.length + 3 ≤ f.maxTries → (∀ s ∈ l1, GoodG f s ∧ s.id ≠ sec) → l1.length < fuel →
    StK n t (pre ++ gsecsCells f vol trk l1 ++ addrCells f vol trk sec ++ tail) q k →
    SlackOk k (pre ++ gsecsCells f vol trk l1 ++ addrCells f vol trk sec ++ tail) →
    ∃ t' : Trk, findSectorLoop f trk sec fuel t = (.ok (), t') ∧
      St n t' (tail ++ pre ++ gsecsCells f vol trk l1 ++ addrCells f vol trk sec)
        (q + blen (pre ++ gsecsCells f vol trk l1 ++ addrCells f vol trk sec)) := by
  intro l1
  induction l1 with
  | nil =>
    intro fuel t pre tail q k hq hf _ hfu h hsl
    obtain ⟨j, rfl⟩ : ∃ j, fuel = j + 1 := ⟨fuel - 1, by simp at hfu; omega⟩
    obtain ⟨t', ht', heq⟩ := findSectorLoop_try_st n f vol trk sec sec j hv ht hsec t pre tail q k hq hf
      (by simpa [gsecsCells_nil] using h) (by simpa [gsecsCells_nil] using hsl)
    exact ⟨t', by rw [heq]; simp, ht'.cast (by simp [gsecsCells_nil]) (by simp [gsecsCells_nil])⟩
  | cons s l1 ih =>
    intro fuel t pre tail q k hq hf hl hfu h hsl
    obtain ⟨j, rfl⟩ : ∃ j, fuel = j + 1 := ⟨fuel - 1, by simp at hfu; omega⟩
    obtain ⟨⟨hid, hfld, hmax⟩, hne⟩ := hl s (by simp)
    have hX : pre ++ gsecsCells f vol trk (s :: l1) ++ addrCells f vol trk sec ++ tail =
        pre ++ addrCells f vol trk s.id ++ (FG f s ++ gsecsCells f vol trk l1 ++ addrCells f vol trk sec ++ tail) := by
      simp [gsecsCells_cons, gsecCells]
    obtain ⟨t1, ht1, heq⟩ := findSectorLoop_try_st n f vol trk s.id sec j hv ht hid t pre
      (FG f s ++ gsecsCells f vol trk l1 ++ addrCells f vol trk sec ++ tail) q k hq hf
      (by rw [← hX]; exact h) (by rw [← hX]; exact hsl)
    rw [if_neg (Ne.symm hne)] at heq
    obtain ⟨t', h1, h2⟩ := ih j t1 (FG f s) (tail ++ pre ++ addrCells f vol trk s.id)
      (q + blen (pre ++ addrCells f vol trk s.id)) 0
      (quiet_FG f s hfld) hmax (fun x hx => hl x (by simp [hx])) (by simp at hfu; omega)
      (ht1.cast (by simp) rfl) (slackOk_zero _)
    refine ⟨t', by rw [heq, h1], h2.cast (by simp [gsecsCells_cons, gsecCells]) ?_⟩
    simp only [gsecsCells_cons, gsecCells, blen_append]
    omega

/-- **A sector id that is not on the track is refused**: after its tries the search gives up with
`SectorNotFound` (the loop walks around the track, each try passes one address field). -/
theorem findSectorLoop_miss (n : Nat) (f : Fmt) (vol trk sec : Nat) (hv : vol < 256) (ht : trk < 256) :
    ∀ (fuel : Nat) (t : Trk) (cur : GSec) (others : List GSec) (pre fpart : List Cell) (q k : Nat),
    fpart ++ pre = FG f cur → StK n t (ahead f vol trk cur others pre fpart) q k →
    SlackOk k (ahead f vol trk cur others pre fpart) → (∀ s ∈ cur :: others, GoodG f s ∧ s.id ≠ sec) →
    ∃ t' : Trk, findSectorLoop f trk sec fuel t = (.error .sectorNotFound, t') := by
  intro fuel
  induction fuel with
  | zero => intro t _ _ _ _ _ _ _ _ _ _; exact ⟨t, rfl⟩
  | succ fuel ih =>
    intro t cur others pre fpart q k hsplit h hsl hg
    have hgc := hg cur (by simp)
    have hpq : Quiet f pre := by
      have : pre = (FG f cur).drop fpart.length := by rw [← hsplit]; simp
      rw [this]; exact quiet_FG_drop f cur hgc.1.2.1 _
    have hpl : pre.length + 3 ≤ f.maxTries := by
      have := congrArg List.length hsplit
      simp only [List.length_append] at this
      have := hgc.1.2.2
      omega
    cases others with
    | nil =>
      obtain ⟨t1, ht1, heq⟩ := findSectorLoop_try_st n f vol trk cur.id sec fuel hv ht hgc.1.1 t pre fpart q k hpq hpl
        (by simpa [ahead, gsecsCells_nil] using h) (by simpa [ahead, gsecsCells_nil] using hsl)
      rw [if_neg (Ne.symm hgc.2)] at heq
      obtain ⟨t', ht'⟩ := ih t1 cur [] (FG f cur) [] (q + blen (pre ++ addrCells f vol trk cur.id)) 0 (by simp)
        (ht1.cast (by simp [ahead, gsecsCells_nil, ← hsplit]) rfl) (slackOk_zero _) hg
      exact ⟨t', by rw [heq, ht']⟩
    | cons s l =>
      have hgs := hg s (by simp)
      have hX : ahead f vol trk cur (s :: l) pre fpart =
          pre ++ addrCells f vol trk s.id ++ (FG f s ++ gsecsCells f vol trk l ++ addrCells f vol trk cur.id ++ fpart) := by
        simp [ahead, gsecsCells_cons, gsecCells]
      obtain ⟨t1, ht1, heq⟩ := findSectorLoop_try_st n f vol trk s.id sec fuel hv ht hgs.1.1 t pre
        (FG f s ++ gsecsCells f vol trk l ++ addrCells f vol trk cur.id ++ fpart) q k hpq hpl
        (by rw [← hX]; exact h) (by rw [← hX]; exact hsl)
      rw [if_neg (Ne.symm hgs.2)] at heq
      obtain ⟨t', ht'⟩ := ih t1 s (l ++ [cur]) (FG f s) [] (q + blen (pre ++ addrCells f vol trk s.id)) 0 (by simp)
        (ht1.cast (by simp [ahead, gsecsCells_append, gsecsCells_cons, gsecsCells_nil, gsecCells, ← hsplit]) rfl)
        (slackOk_zero _)
        (by
          intro x hx
          simp only [List.mem_cons, List.mem_append, List.not_mem_nil, or_false] at hx
          rcases hx with h | h | h
          · exact hg x (by simp [h])
          · exact hg x (by simp [h])
          · exact hg x (by simp [h]))
      exact ⟨t', by rw [heq, ht']⟩

/-! ## the data field read -/

/-- what the decoder makes of the nibbles of a data field -/
def decRes' (f : Fmt) (nibs : List Nat) : Except TErr (List Nat) :=
  match (if f.six then dec62 nibs else dec53 nibs) with
  | .ok d => .ok d
  | .error .badChecksum => .error .badChecksum
  | .error _ => .error .invalidByte

/-- what `decode_sector` returns for a data area: the decoding of its nibbles, or 256 zeros if the sector
was never written -/
def gdecRes (f : Fmt) : Option (List Nat) → Except TErr (List Nat)
  | some nibs => decRes' f nibs
  | none => .ok (List.replicate 256 0)

/-- number of cells of the data area `decode_sector` passes: sync + prolog + nibbles, or the 40 bytes of the
capped prolog search -/
def readStop : Option (List Nat) → Nat
  | some nibs => 13 + nibs.length
  | none => 40

theorem decodeSector_st (n : Nat) (f : Fmt) (t : Trk) (nibs : List Nat) (rest : List Cell) (q : Nat)
    (hn : ∀ v ∈ nibs, CleanNib v) (hl : nibs.length = f.dataNibs) (hm : 13 ≤ f.maxTries)
    (h : St n t (fieldCells f nibs ++ rest) q) :
    (decodeSector f t).1 = decRes' f nibs ∧
    St n (decodeSector f t).2 ((fieldCells f nibs).drop (13 + nibs.length) ++ rest ++ (fieldCells f nibs).take (13 + nibs.length))
      (q + blen ((fieldCells f nibs).take (13 + nibs.length))) := by
  have htake : (fieldCells f nibs).take (13 + nibs.length) =
      syncCells f 10 ++ [(f.z, 0xd5), (0, 0xaa)] ++ [(0, 0xad)] ++ plain nibs := by
    have : fieldCells f nibs = (syncCells f 10 ++ [(f.z, 0xd5), (0, 0xaa)] ++ [(0, 0xad)] ++ plain nibs) ++ plain epi := by
      simp [fieldCells, plain]
    rw [this, List.take_left' (by simp [syncCells, plain]; omega)]
  have hdrop : (fieldCells f nibs).drop (13 + nibs.length) = plain epi := by
    have : fieldCells f nibs = (syncCells f 10 ++ [(f.z, 0xd5), (0, 0xaa)] ++ [(0, 0xad)] ++ plain nibs) ++ plain epi := by
      simp [fieldCells, plain]
    rw [this, List.drop_left' (by simp [syncCells, plain]; omega)]
  have hcells : fieldCells f nibs ++ rest =
      (syncCells f 10 ++ [(f.z, 0xd5), (0, 0xaa)]) ++ (0, 0xad) :: (plain nibs ++ (plain epi ++ rest)) := by
    simp [fieldCells, plain]
  have hrun : runM datPro proMask 0 ((syncCells f 10 ++ [(f.z, 0xd5), (0, 0xaa)]).map (fun c : Cell => c.2)) = some 2 := by
    simp only [datPro]
    rw [List.map_append, runM_append _ _ _ _ 0 0 (runM_quiet _ _ _ (syncCells_bytes f 10))]
    simp [runM, stepM, proMask]
  have hlen : (syncCells f 10 ++ [(f.z, 0xd5), (0, 0xaa)]).length = 12 := by simp [syncCells]
  obtain ⟨a1, a2⟩ := findPat_hit_st n f datPro proMask (some 40) t (syncCells f 10 ++ [(f.z, 0xd5), (0, 0xaa)]) (0, 0xad)
    (plain nibs ++ (plain epi ++ rest)) 2 q 0 (by simp [datPro])
    (by
      intro x hx
      simp only [List.mem_append, List.mem_cons, List.not_mem_nil, or_false] at hx
      rcases hx with (h | h | h) | h
      · exact syncCells_valid f 10 x h
      · subst h; simp [ValidCell]
      · subst h; simp [ValidCell]
      · subst h; simp [ValidCell])
    (by rw [← hcells]; exact h) (slackOk_zero _) hrun (by simp [stepM, proMask, datPro]) (by rw [hlen]; omega)
    (by intro c hc; cases hc; rw [hlen]; decide)
  have hpl : (plain nibs).length = f.dataNibs := by simp [plain, hl]
  obtain ⟨r1, r2⟩ := readLatchN_st n (plain nibs) (findPat f datPro proMask (some 40) t).2
    ((plain epi ++ rest) ++ (syncCells f 10 ++ [(f.z, 0xd5), (0, 0xaa)]) ++ [(0, 0xad)]) _
    (plain_valid _ (fun b hb => ⟨(hn b hb).1, (hn b hb).2.1⟩)) (a2.cast (by simp) rfl)
  rw [hpl, plain_bytes] at r1
  rw [hpl] at r2
  have hb : St n (readLatchN f.dataNibs (findPat f datPro proMask (some 40) t).2).2
      ((fieldCells f nibs).drop (13 + nibs.length) ++ rest ++ (fieldCells f nibs).take (13 + nibs.length))
      (q + blen ((fieldCells f nibs).take (13 + nibs.length))) := by
    refine r2.cast (by rw [htake, hdrop]; simp) ?_
    rw [htake]; simp only [blen_append]; omega
  simp only [decodeSector, a1, Bool.not_true, Bool.false_eq_true, if_false, r1, decRes']
  generalize (if f.six = true then dec62 nibs else dec53 nibs) = res
  rcases res with e | d
  · cases e <;> exact ⟨rfl, hb⟩
  · exact ⟨rfl, hb⟩

/-- a capped search over `cap` cells none of which completes the pattern fails behind them -/
theorem findPat_cap_st (n : Nat) (f : Fmt) (patt mask : List Nat) (t : Trk) (pre cs : List Cell) (m' q : Nat)
    (hp : patt.length ≠ 0) (hv : ∀ x ∈ pre, ValidCell x) (h : St n t (pre ++ cs) q)
    (hr : runM patt mask 0 (pre.map (·.2)) = some m') (hf : pre.length ≤ f.maxTries) :
    (findPat f patt mask (some pre.length) t).1 = false ∧
    St n (findPat f patt mask (some pre.length) t).2 (cs ++ pre) (q + blen pre) := by
  obtain ⟨t', ht', heq⟩ := findPatLoop_advance_st n patt mask (some pre.length) pre f.maxTries 0 0 m' t cs q 0 hv h
    (slackOk_zero _) hr hf (by intro c0 h0; cases h0; omega)
  have ht'' : St n t' (cs ++ pre) (q + blen pre) := by
    have e : (if pre = [] then 0 else 0) = 0 := by split <;> rfl
    rw [e] at ht'; exact ht'
  simp only [findPat, if_neg hp, heq]
  cases hfu : f.maxTries - pre.length with
  | zero => exact ⟨rfl, ht''⟩
  | succ j =>
    have : capped (some pre.length) (0 + pre.length) = true := by simp [capped]
    simp only [findPatLoop, this, if_true]
    exact ⟨trivial, ht''⟩

theorem blank_length (f : Fmt) : (blankCells f).length = 427 := by
  simp only [blankCells, syncCells, plain, List.length_append, List.length_cons, List.length_map, List.length_replicate]

theorem blank_valid (f : Fmt) : ∀ c ∈ blankCells f, ValidCell c := by
  intro c hc
  simp only [blankCells, List.mem_append, List.mem_cons] at hc
  rcases hc with h | h | h
  · exact syncCells_valid f 10 c h
  · subst h; simp [ValidCell]
  · exact plain_valid _ (by intro b hb; rw [List.eq_of_mem_replicate hb]; decide) c h

theorem blank_bytes (f : Fmt) : ∀ v ∈ (blankCells f).map (·.2), v < 256 ∧ v ≠ 0xd5 := by
  intro v hv
  simp only [blankCells, List.map_append, List.map_cons, plain_bytes, List.mem_append, List.mem_cons] at hv
  rcases hv with h | h | h
  · exact syncCells_bytes f 10 v h
  · subst h; decide
  · rw [List.eq_of_mem_replicate h]; decide

theorem decodeSector_blank_st (n : Nat) (f : Fmt) (t : Trk) (rest : List Cell) (q : Nat) (hm : 40 ≤ f.maxTries)
    (h : St n t (blankCells f ++ rest) q) :
    (decodeSector f t).1 = .ok (List.replicate 256 0) ∧
    St n (decodeSector f t).2 ((blankCells f).drop 40 ++ rest ++ (blankCells f).take 40) (q + blen ((blankCells f).take 40)) := by
  have hlen : ((blankCells f).take 40).length = 40 := by simp [blank_length]
  have hsplit : blankCells f ++ rest = (blankCells f).take 40 ++ ((blankCells f).drop 40 ++ rest) := by
    rw [← List.append_assoc, List.take_append_drop]
  have hrun : runM datPro proMask 0 (((blankCells f).take 40).map (fun c : Cell => c.2)) = some 0 := by
    unfold datPro
    apply runM_quiet
    intro v hv
    rw [List.map_take] at hv
    exact blank_bytes f v (List.mem_of_mem_take hv)
  obtain ⟨a1, a2⟩ := findPat_cap_st n f datPro proMask t ((blankCells f).take 40) ((blankCells f).drop 40 ++ rest) 0 q
    (by simp [datPro]) (fun x hx => blank_valid f x (List.mem_of_mem_take hx)) (by rw [← hsplit]; exact h) hrun (by omega)
  rw [hlen] at a1 a2
  simp only [decodeSector, a1]
  exact ⟨rfl, a2.cast (by rw [List.append_assoc]) rfl⟩

end A2Verif.Model.Track
