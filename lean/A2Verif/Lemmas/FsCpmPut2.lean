import A2Verif.Lemmas.FsCpmPut
/-!
# `put`: a failed `put` leaves the reading as it was; the shape of a successful one
-/
namespace A2Verif.FsCpm
open A2Verif.Fs.Cpm
open A2Verif.Read.Cpm (Dpb fileKey extNum entryPtrs pathOf slots)

theorem blockList_eq {d : Dpb} {e : Bytes} (he : e.length = 32) : Ext.blockList d e = entryPtrs d e := by
  unfold Ext.blockList Read.Cpm.entryPtrs ptrSize Read.Cpm.ptr16
  by_cases c : d.dsm < 256
  · rw [if_pos c, if_pos rfl, if_neg (by simp; omega)]
    unfold Ext.blockListBytes
    apply ext_getD
    · rw [slice_length (by omega)]; simp
    · intro i
      by_cases ci : i < 16
      · rw [getD_slice e 16 16 i ci]
        simp only [List.getD_eq_getElem?_getD, List.getElem?_map, List.getElem?_range ci, Option.map_some, Option.getD_some]
      · have l1 : (slice e 16 16).length ≤ i := by rw [slice_length (by omega)]; omega
        simp only [List.getD_eq_getElem?_getD, List.getElem?_eq_none l1, List.getElem?_map,
          List.getElem?_eq_none (show (List.range 16).length ≤ i by simp; omega), Option.map_none]
  · rw [if_neg c, if_neg (by decide), if_pos (by simp; omega)]

theorem owned_sub_used {d : Dpb} {r : Raw} (h : Inv d r) {e : Bytes} (he : e ∈ fents d r) {p : Nat} (hp : p ∈ ownedE d e) :
    p ∈ usedPtrs d (dirOf d r) := by
  unfold usedPtrs
  rw [List.mem_flatMap]
  refine ⟨e, (mem_fents.1 he).1, ?_⟩
  rw [if_pos ((isExtent_iff e).2 (mem_fents.1 he).2), blockList_eq (dirOf_entry_length h.shape h.dpb e (mem_fents.1 he).1)]
  exact (mem_ownedE hp).1

/-- an image that agrees with `r` on the reserved and referenced blocks reads as `r` does -/
theorem frame_volOf {d : Dpb} {r r' : Raw} (h : Inv d r) (hr : ResvOk d) (hf : Frame d (dirOf d r) r r') :
    Inv d r' ∧ volOf d r' = volOf d r := by
  have hs' : Shape d r' := ⟨by rw [hf.1, h.shape.size], hf.2.1⟩
  have hdir : dirOf d r' = dirOf d r := by
    have hbuf : dirBuf d r' = dirBuf d r := by
      unfold dirBuf
      congr 1
      apply List.map_congr_left
      intro i hi
      rw [List.mem_range] at hi
      unfold blk
      rw [hf.2.2 i (Or.inl ((hr i (by have := h.dpb.cover; have := h.dpb.inRange; omega)).2 (by
        rw [h.dpb.prefix_, List.mem_range]; have := h.dpb.cover; omega)))]
    unfold dirOf
    rw [hbuf]
  have hfe : fents d r' = fents d r := by unfold fents; rw [hdir]
  have hk : keys d r' = keys d r := by unfold keys; rw [hfe]
  have hes : ∀ k, esOf d r' k = esOf d r k := by intro k; unfold esOf; rw [hfe]
  refine ⟨⟨h.dpb, hs', ?_, ?_, ?_⟩, ?_⟩
  · intro k hk'
    rw [hk] at hk'
    rw [hes k]
    exact h.good k hk'
  · rw [hfe]; exact h.clean
  · rw [hfe]; exact h.noShare
  · unfold volOf filesOf
    rw [hk, hdir]
    congr 1
    apply List.map_congr_left
    intro k hk'
    rw [hes k]
    apply recOf_congr
    · intro e he p hp
      exact hf.2.2 p (Or.inr (owned_sub_used h (mem_esOf.1 he).1 hp))
    · rfl

theorem keeps_set_nonext {dir sdir : Dir} {idx : Nat} {x y : Bytes} (hk : KeepsFiles dir sdir) (hy : sdir[idx]? = some y)
    (hn : isExtent y = false) : KeepsFiles dir (sdir.set idx x) := by
  apply keeps_set hk
  intro e he
  by_cases c : isExtent e = true
  · have := hk.2 idx e he c
    rw [hy] at this
    cases this
    rw [c] at hn; cases hn
  · simpa using c

theorem tsMaybeSet_spec {dir0 sdir dir' : Dir} {lab now : Bytes} {lx0 which : Nat} (hk : KeepsFiles dir0 sdir)
    (hl : ∀ e ∈ sdir, e.length = 32) (h : tsMaybeSet sdir lab lx0 now which = .ok dir') :
    KeepsFiles dir0 dir' ∧ ∀ e ∈ dir', e.length = 32 := by
  unfold tsMaybeSet at h
  split at h
  · cases h; exact ⟨hk, hl⟩
  · split at h
    · cases h; exact ⟨hk, hl⟩
    · simp only [] at h
      cases hts : sdir[4 * (1 + lx0 / 4) - 1]? with
      | none => rw [hts] at h; cases h
      | some ts =>
        rw [hts] at h
        simp only [] at h
        by_cases hit : (!isTimestamp ts) = true
        · rw [if_pos hit] at h; cases h
        · rw [if_neg hit] at h
          by_cases hsub : lx0 % 4 + 1 > 3
          · rw [if_pos hsub] at h; cases h
          · rw [if_neg hsub] at h
            cases h
            have hts32 : ts.length = 32 := hl ts (List.mem_of_getElem? hts)
            have hnx : isExtent ts = false := by
              have : isTimestamp ts = true := by simpa using hit
              unfold isTimestamp at this
              unfold isExtent
              have e : status ts = TIMESTAMP := by simpa using this
              rw [e]; decide
            refine ⟨keeps_set_nonext hk hts hnx, len_set hl ?_⟩
            have hoff : (if which = 4 then tsCreateOff (lx0 % 4 + 1) else tsUpdateOff (lx0 % 4 + 1)) + (now.take 4).length ≤ 32 := by
              have : (now.take 4).length ≤ 4 := by simp; omega
              obtain ⟨o1, o2⟩ := tsOff_cases hsub
              split <;> omega
            rw [splice_length (by rw [hts32]; exact hoff), hts32]

/-- what a successful `put` did, as far as the frame goes: data written into free blocks (`s.r`), then a directory
that still holds every old file entry saved -/
structure PutDone (d : Dpb) (r r' : Raw) (f : FImg) : Prop where
  ex : ∃ (sr : Raw) (dir2 : Dir), Frame d (dirOf d r) r sr ∧ KeepsFiles (dirOf d r) dir2 ∧ (∀ e ∈ dir2, e.length = 32) ∧
    saveDirectory d sr dir2 = (.ok (), r')

/-- **every outcome of `put`**: an error leaves an image that differs from the old one in free blocks only; a success is
free-block writes followed by `save_directory` of a directory holding all old file entries -/
theorem put_outcome {d : Dpb} {r r' : Raw} {f : FImg} {now : Bytes} {res : R Unit} (h : Inv d r)
    (hop : put d r f now = (res, r')) :
    (okB res = false ∧ Frame d (dirOf d r) r r') ∨ (res = .ok () ∧ PutDone d r r' f) := by
  have hfr := Frame.refl (dir := dirOf d r) h.shape
  unfold put at hop
  split at hop
  · cases hop; exact Or.inl ⟨rfl, hfr⟩
  split at hop
  · cases hop; exact Or.inl ⟨rfl, hfr⟩
  simp only [] at hop
  split at hop
  · cases hop; exact Or.inl ⟨rfl, hfr⟩
  next user name hsplit =>
  split at hop
  · cases hop; exact Or.inl ⟨rfl, hfr⟩
  split at hop
  · cases hop; exact Or.inl ⟨rfl, hfr⟩
  rw [getDirectory_eq h.shape h.dpb] at hop
  simp only [] at hop
  generalize (if f.end_ % (extentCapacity d / blockSize d) > 0 then 1 else 0) = inc at hop
  split at hop
  · cases hop; exact Or.inl ⟨rfl, hfr⟩
  next files hb =>
  split at hop
  · cases hop; exact Or.inl ⟨rfl, hfr⟩
  split at hop
  · cases hop; exact Or.inl ⟨rfl, hfr⟩
  split at hop
  · cases hop; exact Or.inl ⟨rfl, hfr⟩
  next nfb hnfb =>
  split at hop
  · cases hop; exact Or.inl ⟨rfl, hfr⟩
  split at hop
  · cases hop; exact Or.inl ⟨rfl, hfr⟩
  -- the loops
  have hl := dirOf_entry_length h.shape h.dpb
  have hw0 : WInv d (dirOf d r) r { r := r, dir := dirOf d r } :=
    ⟨hfr, ⟨rfl, fun j e he _ => he⟩, hl, fun fx hfx => by cases hfx⟩
  split at hop
  next e s hloop =>
    cases hop
    exact Or.inl ⟨rfl, (extLoop_inv _ _ _ _ hw0 hloop).frame⟩
  next u s hloop =>
    have hs := extLoop_inv _ _ _ _ hw0 hloop
    split at hop
    next e hfin => cases hop; exact Or.inl ⟨rfl, hs.frame⟩
    next dir1 entry1 hfin =>
      have hd1 : KeepsFiles (dirOf d r) dir1 ∧ ∀ e ∈ dir1, e.length = 32 := by
        split at hfin
        · cases ho : openExtent d name user f s.dir with
          | error e => rw [ho] at hfin; cases hfin
          | ok p =>
            obtain ⟨idx, fx⟩ := p
            rw [ho] at hfin
            simp only [] at hfin
            obtain ⟨l32, y, hy, hny⟩ := openExtent_spec ho
            cases hc : closeExtent d idx fx s.dir 1 true f with
            | error e => rw [hc] at hfin; cases hfin
            | ok dir' =>
              rw [hc] at hfin
              simp only [Except.ok.injEq, Prod.mk.injEq] at hfin
              obtain ⟨rfl, _⟩ := hfin
              obtain ⟨x, hx, rfl⟩ := closeExtent_spec l32 hc
              exact ⟨keeps_set_nonext hs.keeps hy hny, len_set hs.len hx⟩
        · simp only [Except.ok.injEq, Prod.mk.injEq] at hfin
          obtain ⟨rfl, _⟩ := hfin
          exact ⟨hs.keeps, hs.len⟩
      split at hop
      next e hts => cases hop; exact Or.inl ⟨rfl, hs.frame⟩
      next dir2 hts =>
        have hd2 : KeepsFiles (dirOf d r) dir2 ∧ ∀ e ∈ dir2, e.length = 32 := by
          cases hfl : findLabel dir1 with
          | none => rw [hfl] at hts; simp only [] at hts; cases hts; exact hd1
          | some lab =>
            cases entry1 with
            | none => rw [hfl] at hts; simp only [] at hts; cases hts; exact hd1
            | some lx0 =>
              rw [hfl] at hts
              simp only [] at hts
              unfold tsMaybeSetCreate at hts
              cases h1 : tsMaybeSet dir1 lab lx0 now 4 with
              | error e => rw [h1] at hts; cases hts
              | ok dirA =>
                rw [h1] at hts
                simp only [] at hts
                obtain ⟨a, b⟩ := tsMaybeSet_spec hd1.1 hd1.2 h1
                exact tsMaybeSet_spec a b hts
        -- saving succeeds
        have hsh : Shape d s.r := ⟨by rw [hs.frame.1, h.shape.size], hs.frame.2.1⟩
        obtain ⟨r2, e1, _, _, _⟩ := saveDirectory_spec (dir := dir2) hsh h.dpb (by rw [hd2.1.1, dirOf_length]) hd2.2
        rw [e1] at hop
        cases hop
        exact Or.inr ⟨rfl, ⟨s.r, dir2, hs.frame, hd2.1, hd2.2, e1⟩⟩

/-- **a `put` that reports an error** (whatever the error, wherever it occurs) preserves the invariant and leaves
every file and the listing as they were -/
theorem put_error_refines {d : Dpb} {r r' : Raw} {f : FImg} {now : Bytes} {res : R Unit} (h : Inv d r) (hr : ResvOk d)
    (hop : put d r f now = (res, r')) (herr : okB res = false) (op : FsOp) :
    Inv d r' ∧ stepOk (cpmParams d) (volOf d r) op false (volOf d r') = true := by
  rcases put_outcome h hop with ⟨_, hf⟩ | ⟨hok, _⟩
  · obtain ⟨hinv', hv⟩ := frame_volOf h hr hf
    rw [hv]
    exact ⟨hinv', (refused_same h op).2⟩
  · rw [hok] at herr; cases herr

end A2Verif.FsCpm
