import A2Verif.Model.Fs.Dos3x
/-!
# Byte-level lemmas for the concrete DOS 3.x model

`splice` (field assignment; the generic lemmas are the ones of `Lemmas/FsPascalBytes.lean`, restated for this
namespace), `quantize`, and the VTOC free-sector bitmap: `trackMap`/`saveTrackMap` round trips and the effect of
`allocate`/`deallocate` on single bits (`Nat.testBit`).  Core Lean only.
-/
set_option linter.unusedSimpArgs false
namespace A2Verif.Fs.Dos3x

theorem getD_eq (b : Bytes) (i : Nat) : b.getD i 0 = (b[i]?).getD 0 := by
  simp [List.getD_eq_getElem?_getD]

theorem getD_take {b : Bytes} {n i : Nat} (h : i < n) : (b.take n).getD i 0 = b.getD i 0 := by
  simp [h]

theorem getD_append_left {a b : Bytes} {i : Nat} (h : i < a.length) : (a ++ b).getD i 0 = a.getD i 0 := by
  simp [List.getElem?_append_left h]

theorem slice_length {b : Bytes} {off len : Nat} (h : off + len ≤ b.length) : (slice b off len).length = len := by
  unfold slice
  simp [List.length_take, List.length_drop]
  omega

/-! ## `splice` -/

theorem splice_length {e new : Bytes} {off : Nat} (h : off + new.length ≤ e.length) :
    (splice e off new).length = e.length := by
  unfold splice
  simp [List.length_take, List.length_drop]
  omega

theorem getD_splice {e new : Bytes} {off i : Nat} (h : off + new.length ≤ e.length) :
    (splice e off new).getD i 0 = if off ≤ i ∧ i < off + new.length then new.getD (i - off) 0 else e.getD i 0 := by
  unfold splice
  simp only [getD_eq]
  by_cases h1 : i < off
  · have : ¬ (off ≤ i ∧ i < off + new.length) := by omega
    rw [if_neg this, List.append_assoc, List.getElem?_append_left (by simp [List.length_take]; omega),
      List.getElem?_take, if_pos h1]
  · by_cases h2 : i < off + new.length
    · rw [if_pos ⟨by omega, h2⟩, List.append_assoc, List.getElem?_append_right (by simp [List.length_take]; omega),
        List.getElem?_append_left (by simp [List.length_take]; omega)]
      congr 2
      simp [List.length_take]; omega
    · have : ¬ (off ≤ i ∧ i < off + new.length) := by omega
      rw [if_neg this, List.getElem?_append_right (by simp [List.length_take]; omega), List.getElem?_drop]
      congr 2
      simp [List.length_take]; omega

theorem getD_splice_other {e new : Bytes} {off p : Nat} (h : off + new.length ≤ e.length)
    (hp : p < off ∨ off + new.length ≤ p) : (splice e off new).getD p 0 = e.getD p 0 := by
  rw [getD_splice h, if_neg (by omega)]

theorem getD_splice_in {e new : Bytes} {off j : Nat} (h : off + new.length ≤ e.length) (hj : j < new.length) :
    (splice e off new).getD (off + j) 0 = new.getD j 0 := by
  rw [getD_splice h, if_pos ⟨by omega, by omega⟩]
  congr 1; omega

/-- a slice outside the spliced range is unchanged -/
theorem slice_splice_other {e new : Bytes} {off p len : Nat} (h : off + new.length ≤ e.length)
    (hp : p + len ≤ off ∨ off + new.length ≤ p) : slice (splice e off new) p len = slice e p len := by
  apply List.ext_getElem?
  intro i
  unfold slice
  simp only [List.getElem?_take, List.getElem?_drop]
  by_cases hi : i < len
  · simp only [if_pos hi]
    have := @getD_splice e new off (p + i) h
    rw [if_neg (by omega)] at this
    have e1 : (splice e off new).length = e.length := splice_length h
    by_cases hl : p + i < e.length
    · have a1 : (splice e off new)[p + i]? = some ((splice e off new)[p + i]'(by omega)) := List.getElem?_eq_getElem (by omega)
      have a2 : e[p + i]? = some (e[p + i]'hl) := List.getElem?_eq_getElem hl
      rw [getD_eq, getD_eq, a1, a2] at this
      rw [a1, a2]
      simpa using this
    · rw [List.getElem?_eq_none (by omega), List.getElem?_eq_none (by omega)]
  · simp [hi]

/-- the slice that was spliced in reads back -/
theorem slice_splice_same {e new : Bytes} {off : Nat} (h : off + new.length ≤ e.length) :
    slice (splice e off new) off new.length = new := by
  unfold slice splice
  rw [List.append_assoc, List.drop_append_of_le_length (by simp [List.length_take]; omega)]
  have : (e.take off).length = off := by simp [List.length_take]; omega
  rw [List.drop_of_length_le (by omega), List.nil_append, List.take_append_of_le_length (by omega), List.take_of_length_le (by omega)]

/-- splicing in what is already there changes nothing -/
theorem splice_self {e : Bytes} {off n : Nat} (h : off + n ≤ e.length) : splice e off (slice e off n) = e := by
  have hl : (slice e off n).length = n := slice_length h
  unfold splice
  rw [hl]
  unfold slice
  have : e.drop off = (e.drop off).take n ++ e.drop (off + n) := by
    rw [← List.drop_drop, List.take_append_drop]
  calc e.take off ++ (e.drop off).take n ++ e.drop (off + n)
      = e.take off ++ ((e.drop off).take n ++ e.drop (off + n)) := by rw [List.append_assoc]
    _ = e.take off ++ e.drop off := by rw [← this]
    _ = e := List.take_append_drop _ _

theorem all_lt_splice {e new : Bytes} {off : Nat} (he : ∀ x ∈ e, x < 256) (hn : ∀ x ∈ new, x < 256) :
    ∀ x ∈ splice e off new, x < 256 := by
  intro x hx
  unfold splice at hx
  simp only [List.mem_append] at hx
  rcases hx with (hx | hx) | hx
  · exact he x (List.mem_of_mem_take hx)
  · exact hn x hx
  · exact he x (List.mem_of_mem_drop hx)

/-! ## `quantize` -/

theorem quantize_length (d : Bytes) : (quantize d).length = 256 := by
  unfold quantize sectorSize
  simp [List.length_take]
  omega

theorem quantize_full {d : Bytes} (h : d.length = 256) : quantize d = d := by
  unfold quantize sectorSize
  rw [h, List.take_of_length_le (by omega)]
  simp

theorem getD_quantize {d : Bytes} {i : Nat} (h : i < d.length) (h2 : d.length ≤ 256) : (quantize d).getD i 0 = d.getD i 0 := by
  unfold quantize sectorSize
  rw [List.take_of_length_le h2, getD_append_left h]

theorem quantize_take {d : Bytes} (h : d.length ≤ 256) : (quantize d).take d.length = d := by
  unfold quantize sectorSize
  rw [List.take_of_length_le h, List.take_left]

/-! ## the bitmap -/

theorem be32_length (m : Nat) : (be32 m).length = 4 := rfl

theorem be32_lt (m : Nat) : ∀ x ∈ be32 m, x < 256 := by
  intro x hx
  simp only [be32, List.mem_cons, List.mem_nil_iff, or_false] at hx
  rcases hx with rfl | rfl | rfl | rfl <;> omega

/-- the 32-bit value of the bitmap word of track `t` -/
def mapVal (v : Bytes) (t : Nat) : Nat :=
  ((v.getD (0x38 + 4 * t) 0 * 256 + v.getD (0x38 + 4 * t + 1) 0) * 256 + v.getD (0x38 + 4 * t + 2) 0) * 256 + v.getD (0x38 + 4 * t + 3) 0

theorem trackMap_eq {v : Bytes} {t : Nat} (h : t < 35) : trackMap v t = .ok (mapVal v t) := by
  unfold trackMap mapVal Vtoc.bitmapOff
  rw [if_neg (by omega)]

theorem getD_lt {v : Bytes} (hv : ∀ x ∈ v, x < 256) (i : Nat) : v.getD i 0 < 256 := by
  rw [getD_eq]
  cases h : v[i]? with
  | none => simp
  | some x => simpa using hv x (List.mem_of_getElem? h)

theorem mapVal_lt {v : Bytes} (hv : ∀ x ∈ v, x < 256) (t : Nat) : mapVal v t < 4294967296 := by
  unfold mapVal
  have a := getD_lt hv (0x38 + 4 * t)
  have b := getD_lt hv (0x38 + 4 * t + 1)
  have c := getD_lt hv (0x38 + 4 * t + 2)
  have d := getD_lt hv (0x38 + 4 * t + 3)
  omega

theorem saveTrackMap_length {v : Bytes} {t m : Nat} (hl : v.length = 196) (ht : t < 35) :
    (saveTrackMap v t m).length = 196 := by
  unfold saveTrackMap Vtoc.bitmapOff
  rw [splice_length (by rw [be32_length]; omega), hl]

theorem saveTrackMap_lt {v : Bytes} {t m : Nat} (hv : ∀ x ∈ v, x < 256) : ∀ x ∈ saveTrackMap v t m, x < 256 :=
  all_lt_splice hv (be32_lt m)

theorem getD_saveTrackMap_low {v : Bytes} {t m i : Nat} (hl : v.length = 196) (ht : t < 35) (hi : i < 0x38) :
    (saveTrackMap v t m).getD i 0 = v.getD i 0 := by
  unfold saveTrackMap Vtoc.bitmapOff
  rw [getD_splice_other (by rw [be32_length]; omega) (by omega)]

theorem mapVal_save_same {v : Bytes} {t m : Nat} (hl : v.length = 196) (ht : t < 35) (hm : m < 4294967296) :
    mapVal (saveTrackMap v t m) t = m := by
  have hb : 0x38 + 4 * t + (be32 m).length ≤ v.length := by rw [be32_length]; omega
  unfold mapVal saveTrackMap Vtoc.bitmapOff
  have e0 := getD_splice_in (e := v) (new := be32 m) (off := 0x38 + 4 * t) (j := 0) hb (by rw [be32_length]; omega)
  have e1 := getD_splice_in (e := v) (new := be32 m) (off := 0x38 + 4 * t) (j := 1) hb (by rw [be32_length]; omega)
  have e2 := getD_splice_in (e := v) (new := be32 m) (off := 0x38 + 4 * t) (j := 2) hb (by rw [be32_length]; omega)
  have e3 := getD_splice_in (e := v) (new := be32 m) (off := 0x38 + 4 * t) (j := 3) hb (by rw [be32_length]; omega)
  rw [Nat.add_zero] at e0
  rw [e0, e1, e2, e3]
  simp only [be32, List.getD_cons_zero, List.getD_cons_succ]
  omega

theorem mapVal_save_other {v : Bytes} {t t' m : Nat} (hl : v.length = 196) (ht : t < 35) (hne : t' ≠ t) :
    mapVal (saveTrackMap v t m) t' = mapVal v t' := by
  have hb : 0x38 + 4 * t + (be32 m).length ≤ v.length := by rw [be32_length]; omega
  unfold mapVal saveTrackMap Vtoc.bitmapOff
  rw [getD_splice_other hb (by rw [be32_length]; omega), getD_splice_other hb (by rw [be32_length]; omega),
    getD_splice_other hb (by rw [be32_length]; omega), getD_splice_other hb (by rw [be32_length]; omega)]

/-- writing back the word that is there changes nothing -/
theorem saveTrackMap_self {v : Bytes} {t : Nat} (hl : v.length = 196) (hv : ∀ x ∈ v, x < 256) (ht : t < 35) :
    saveTrackMap v t (mapVal v t) = v := by
  unfold saveTrackMap Vtoc.bitmapOff
  have hs : be32 (mapVal v t) = slice v (0x38 + 4 * t) 4 := by
    have a := getD_lt hv (0x38 + 4 * t)
    have b := getD_lt hv (0x38 + 4 * t + 1)
    have c := getD_lt hv (0x38 + 4 * t + 2)
    have d := getD_lt hv (0x38 + 4 * t + 3)
    apply List.ext_getElem?
    intro i
    have hsl : (slice v (0x38 + 4 * t) 4).length = 4 := slice_length (by omega)
    by_cases hi : i < 4
    · have g : ∀ j, j < 4 → (slice v (0x38 + 4 * t) 4)[j]? = some (v.getD (0x38 + 4 * t + j) 0) := by
        intro j hj
        unfold slice
        rw [List.getElem?_take, if_pos hj, List.getElem?_drop, getD_eq]
        have : 0x38 + 4 * t + j < v.length := by omega
        rw [List.getElem?_eq_getElem this]; rfl
      rw [g i hi]
      unfold mapVal be32
      have : i = 0 ∨ i = 1 ∨ i = 2 ∨ i = 3 := by omega
      rcases this with rfl | rfl | rfl | rfl <;>
        (simp only [List.getElem?_cons_zero, List.getElem?_cons_succ, Option.some.injEq, Nat.add_zero]; omega)
    · rw [List.getElem?_eq_none (by rw [be32_length]; omega), List.getElem?_eq_none (by omega)]
  rw [hs]
  exact splice_self (by omega)

theorem one_shiftLeft_eq (e : Nat) : 1 <<< e = 2 ^ e := Nat.one_shiftLeft e

theorem u32Max_eq : u32Max = 2 ^ 32 - 1 := rfl

/-- clearing bit `e` of a 32-bit word -/
theorem testBit_clear {m e j : Nat} (hj : j < 32) :
    (m &&& ((1 <<< e) ^^^ u32Max)).testBit j = (m.testBit j && decide (j ≠ e)) := by
  rw [one_shiftLeft_eq, u32Max_eq, Nat.testBit_and, Nat.testBit_xor, Nat.testBit_two_pow, Nat.testBit_two_pow_sub_one]
  by_cases h : e = j <;> simp [h, hj, Ne.symm]

theorem clear_lt {m e : Nat} (hm : m < 4294967296) : m &&& ((1 <<< e) ^^^ u32Max) < 4294967296 :=
  Nat.lt_of_le_of_lt Nat.and_le_left hm

theorem testBit_set {m e j : Nat} : (m ||| (1 <<< e)).testBit j = (m.testBit j || decide (j = e)) := by
  rw [one_shiftLeft_eq, Nat.testBit_or, Nat.testBit_two_pow]
  by_cases h : e = j <;> simp [h, eq_comm]

theorem set_lt {m e : Nat} (hm : m < 4294967296) (he : e < 32) : m ||| (1 <<< e) < 4294967296 := by
  rw [one_shiftLeft_eq]
  exact Nat.or_lt_two_pow (n := 32) hm (Nat.pow_lt_pow_right (by decide) he)

theorem and_two_pow_eq (m e : Nat) : m &&& 2 ^ e = if m.testBit e then 2 ^ e else 0 := by
  apply Nat.eq_of_testBit_eq
  intro j
  rw [Nat.testBit_and, Nat.testBit_two_pow]
  by_cases h : e = j
  · subst h
    cases hb : m.testBit e <;> simp [hb, Nat.testBit_two_pow]
  · cases hb : m.testBit e <;> simp [hb, h, Nat.testBit_two_pow]

theorem and_bit_pos {m e : Nat} : (decide ((m &&& (1 <<< e)) > 0)) = m.testBit e := by
  rw [one_shiftLeft_eq, and_two_pow_eq]
  cases m.testBit e <;> simp [Nat.two_pow_pos]

end A2Verif.Fs.Dos3x
