import A2Verif.Lemmas.FsCpmAccept1
/-!
# `put` is accepted when it fits: the inner write loop (`slotLoop`) does not fail

While as many blocks are free as chunks remain, and a directory entry is free when an extent must be opened, every step of
`slotLoop` succeeds.  The invariant `SInv` of the success proof is carried along (it says where the open extent is stored).
-/
namespace A2Verif.FsCpm
open A2Verif.Fs.Cpm
open A2Verif.Read.Cpm (Dpb fileKey extNum entryPtrs pathOf slots)

/-! ## one step of `slotLoop`, as equations -/

theorem slotLoop_cons_none {d : Dpb} {name : Bytes} {user : Nat} {f : FImg} {x spe spl : Nat} {s : WState} {k : Nat}
    {rest : List (Nat × Nat)} (hch : f.chunks.lookup (x * spe + k / spl * spl + k % spl) = none) :
    slotLoop d name user f x spe spl s (pairOf spl k :: rest) = slotLoop d name user f x spe spl s rest := by
  unfold pairOf
  rw [slotLoop]
  simp only [hch]

theorem slotLoop_cons_reuse {d : Dpb} {name : Bytes} {user : Nat} {f : FImg} {x spe spl : Nat} {s : WState} {k : Nat}
    {rest : List (Nat × Nat)} {chunk fx fx' : Bytes} {b : Nat} {r2 : Raw}
    (hch : f.chunks.lookup (x * spe + k / spl * spl + k % spl) = some chunk) (hb : getAvailableBlock d s.dir = some b)
    (hsf : s.fx = some fx) (hsb : Ext.setBlockPtr d fx (k % spl) (k / spl) b = .ok fx') (hpl : s.ptr < s.dir.length)
    (hw : writeBlock d s.r chunk b 0 = .ok r2) :
    slotLoop d name user f x spe spl s (pairOf spl k :: rest) =
      slotLoop d name user f x spe spl
        { s with fx := some fx', ptr := s.ptr, entry1 := s.entry1, lxUsed := k / spl + 1, dir := s.dir.set s.ptr fx', r := r2 } rest := by
  unfold pairOf
  rw [slotLoop]
  simp only [hch, hb, hsf, hsb, hpl, not_true_eq_false, ↓reduceIte, hw]

theorem slotLoop_cons_open {d : Dpb} {name : Bytes} {user : Nat} {f : FImg} {x spe spl : Nat} {s : WState} {k : Nat}
    {rest : List (Nat × Nat)} {chunk fx fx' : Bytes} {b idx : Nat} {r2 : Raw}
    (hch : f.chunks.lookup (x * spe + k / spl * spl + k % spl) = some chunk) (hb : getAvailableBlock d s.dir = some b)
    (hsf : s.fx = none) (hoe : openExtent d name user f s.dir = .ok (idx, fx))
    (hsb : Ext.setBlockPtr d fx (k % spl) (k / spl) b = .ok fx') (hpl : idx < s.dir.length)
    (hw : writeBlock d s.r chunk b 0 = .ok r2) :
    slotLoop d name user f x spe spl s (pairOf spl k :: rest) =
      slotLoop d name user f x spe spl
        { s with fx := some fx', ptr := idx, entry1 := (if s.entry1.isNone then some idx else s.entry1), lxUsed := k / spl + 1,
                 dir := s.dir.set idx fx', r := r2 } rest := by
  unfold pairOf
  rw [slotLoop]
  simp only [hch, hb, hsf, hoe, hsb, hpl, not_true_eq_false, ↓reduceIte, hw]

theorem openExtent_some {d : Dpb} {name : Bytes} {user : Nat} {f : FImg} {dir : Dir} (hty : 3 ≤ f.fsType.length)
    (hl : dir.length = dirEntries d) (hfe : 0 < numFreeExtents dir) : ∃ idx fx, openExtent d name user f dir = .ok (idx, fx) := by
  obtain ⟨idx, hidx⟩ := getAvailableExtent_some hl hfe
  unfold openExtent
  simp only []
  rw [if_neg (by omega), hidx]
  exact ⟨idx, _, rfl⟩

theorem writeBlock_some {d : Dpb} {r : Raw} {chunk : Bytes} {b : Nat} (hb : b < r.units.size) : ∃ r2, writeBlock d r chunk b 0 = .ok r2 := by
  unfold writeBlock
  rw [if_neg (by omega), imgWrite_ok hb]
  exact ⟨_, rfl⟩

/-- the loops store entries only where an unused entry stood: the first entry created (`entry1`) and the open extent stand at
such a place, everything else (file entries, label, time stamps, passwords) is where it was -/
structure EOk (d : Dpb) (r : Raw) (s : WState) : Prop where
  e1 : ∀ (i : Nat), s.entry1 = some i → ∃ e0, (dirOf d r)[i]? = some e0 ∧ isExtentFree e0 = true
  nf : ∀ (j : Nat) (e0 : Bytes), (dirOf d r)[j]? = some e0 → isExtentFree e0 = false → s.dir[j]? = some e0
  op : ∀ fx, s.fx = some fx → ∃ e0, (dirOf d r)[s.ptr]? = some e0 ∧ isExtentFree e0 = true

theorem eok_set {d : Dpb} {r : Raw} {s : WState} {idx : Nat} {y : Bytes} (hE : EOk d r s)
    (hfree : ∃ e0, (dirOf d r)[idx]? = some e0 ∧ isExtentFree e0 = true) :
    ∀ (j : Nat) (e0 : Bytes), (dirOf d r)[j]? = some e0 → isExtentFree e0 = false → (s.dir.set idx y)[j]? = some e0 := by
  intro j e0 h0 hn
  have hne : idx ≠ j := by
    rintro rfl
    obtain ⟨e1, h1, h2⟩ := hfree
    rw [h0] at h1; cases h1
    rw [hn] at h2; cases h2
  rw [List.getElem?_set_ne hne]
  exact hE.nf j e0 h0 hn

/-- **the inner loop does not fail** while blocks and (when needed) a directory entry are free -/
theorem slotLoop_progress {d : Dpb} {r : Raw} {f : FImg} {user : Nat} {name : Bytes} {x : Nat}
    (h : Inv d r) (hd : DpbPut d) (hr : ResvOk d) (hu : user < 16) (ha : ∀ c ∈ f.chunks, c.2.length ≤ blockSize d)
    (hty : 3 ≤ f.fsType.length) :
    ∀ (n k0 : Nat) (s : WState), k0 + n = slots d →
      SInv d r f user (stringToFileName name).1 (stringToFileName name).2 x k0 s → EOk d r s →
      need f (x * slots d + k0) n ≤ (freeBlocks d s.dir).length →
      (s.fx = none → 0 < need f (x * slots d + k0) n → 0 < numFreeExtents s.dir) →
      ∃ s', slotLoop d name user f x (putSpe d) (putSpl d) s ((List.range' k0 n).map (pairOf (putSpl d))) = (.ok (), s') ∧
        EOk d r s' ∧
        (freeBlocks d s.dir).length ≤ (freeBlocks d s'.dir).length + need f (x * slots d + k0) n ∧
        numFreeExtents s.dir ≤ numFreeExtents s'.dir + 1 ∧
        ((s.fx ≠ none ∨ need f (x * slots d + k0) n = 0) → numFreeExtents s.dir ≤ numFreeExtents s'.dir) := by
  have ho := h.dpb
  intro n
  induction n with
  | zero =>
    intro k0 s _ _ hE _ _
    refine ⟨s, ?_, hE, Nat.le_add_right _ _, Nat.le_add_right _ _, fun _ => Nat.le_refl _⟩
    simp only [List.range'_zero, List.map_nil]
    rw [slotLoop]
  | succ n ih =>
    intro k0 s hk hs hE hFB hFE
    have hS : k0 < slots d := by omega
    have hspl := putSpl_pos hd
    have hglob : x * putSpe d + k0 / putSpl d * putSpl d + k0 % putSpl d = x * slots d + k0 := by
      rw [hd.2.1, Nat.add_assoc, Nat.div_add_mod']
    have hk0 : k0 / putSpl d * putSpl d + k0 % putSpl d = k0 := Nat.div_add_mod' _ _
    have hnext : x * slots d + k0 + 1 = x * slots d + (k0 + 1) := by omega
    rw [List.range'_succ, List.map_cons]
    cases hch : f.chunks.lookup (x * slots d + k0) with
    | none =>
      rw [need_succ_none hch, hnext] at hFB hFE ⊢
      obtain ⟨s', e1, e2, e3, e4, e5⟩ := ih (k0 + 1) s (by omega) (sinv_skip hs hS hch) hE hFB hFE
      refine ⟨s', ?_, e2, e3, e4, e5⟩
      rw [slotLoop_cons_none (by rw [hglob]; exact hch)]
      exact e1
    | some chunk =>
      rw [need_succ_some hch, hnext] at hFB hFE ⊢
      have hcl : chunk.length ≤ blockSize d := ha _ (lookup_mem hch)
      obtain ⟨b, hb⟩ := getAvailableBlock_some (d := d) (dir := s.dir) (by omega)
      obtain ⟨b1, b2, b3⟩ := getAvailableBlock_spec hb
      have hbsz : b < s.r.units.size := by
        rw [hs.w.frame.1, h.shape.size]; exact b1
      have hdl : s.dir.length = dirEntries d := by rw [hs.w.keeps.1, dirOf_length]
      have hslot : k0 / putSpl d * putSpl d + k0 % putSpl d < slots d := by rw [hk0]; exact hS
      have hres0 : isReserved d 0 = true := resv_zero ho hr
      cases hsf : s.fx with
      | some fx =>
        obtain ⟨o1, o2, o3, _⟩ := hs.opn fx hsf
        have hfxl : fx.length = 32 := o3.len
        obtain ⟨fx', hsb⟩ := setBlockPtr_ok hd fx b hslot
        obtain ⟨hl', hhead, hptr⟩ := setBlockPtr_spec hd hfxl (by unfold userBlocks at b1; exact b1) hsb
        rw [hk0] at hptr
        have hpl : s.ptr < s.dir.length := (hs.w.opn fx hsf).2.1
        obtain ⟨r2, hw⟩ := writeBlock_some (d := d) (chunk := chunk) hbsz
        have hs1 := sinv_alloc ho hr hu hs hS hch hcl hb (Or.inl ⟨hsf, rfl⟩) hl' hhead hptr hpl hw s.entry1 (k0 / putSpl d + 1) rfl
        have hE1 : EOk d r { s with fx := some fx', ptr := s.ptr, entry1 := s.entry1, lxUsed := k0 / putSpl d + 1, dir := s.dir.set s.ptr fx', r := r2 } :=
          ⟨hE.e1, eok_set hE (hE.op fx hsf), fun _ _ => hE.op fx hsf⟩
        obtain ⟨s', e1, e2, e3, e4, e5⟩ := ih (k0 + 1) _ (by omega) hs1 hE1
          (by
            have hstep : (freeBlocks d s.dir).length ≤ (freeBlocks d (s.dir.set s.ptr fx')).length + 1 := by
              apply freeBlocks_step b
              intro b' hb'
              rcases usedPtrs_set_sub hb' with h1 | ⟨_, h2⟩
              · exact Or.inl h1
              · rcases ptrs_after_set hl' hptr h2 with h3 | ⟨k, hk1, hk2⟩
                · exact Or.inr (Or.inl h3)
                · left; rw [← hk2]; exact mem_usedPtrs o1 (hdr_isExtent hu o3) hfxl hk1
            show need f (x * slots d + (k0 + 1)) n ≤ (freeBlocks d (s.dir.set s.ptr fx')).length
            omega)
          (by intro hc; cases hc)
        have hfe1 : numFreeExtents s.dir ≤ numFreeExtents (s.dir.set s.ptr fx') := by
          unfold numFreeExtents
          exact filter_set_le0 _ _ _ _ _ o1 (extent_not_free (hdr_isExtent hu o3))
        have hfb1 : (freeBlocks d s.dir).length ≤ (freeBlocks d (s.dir.set s.ptr fx')).length + 1 := by
          apply freeBlocks_step b
          intro b' hb'
          rcases usedPtrs_set_sub hb' with h1 | ⟨_, h2⟩
          · exact Or.inl h1
          · rcases ptrs_after_set hl' hptr h2 with h3 | ⟨k, hk1, hk2⟩
            · exact Or.inr (Or.inl h3)
            · left; rw [← hk2]; exact mem_usedPtrs o1 (hdr_isExtent hu o3) hfxl hk1
        have e3' : (freeBlocks d (s.dir.set s.ptr fx')).length ≤ (freeBlocks d s'.dir).length + need f (x * slots d + (k0 + 1)) n := e3
        have e5' : numFreeExtents (s.dir.set s.ptr fx') ≤ numFreeExtents s'.dir := e5 (Or.inl (by simp))
        refine ⟨s', ?_, e2, by omega, by omega, fun _ => by omega⟩
        rw [slotLoop_cons_reuse (by rw [hglob]; exact hch) hb hsf hsb hpl hw]
        exact e1
      | none =>
        have hfe0 : 0 < numFreeExtents s.dir := hFE hsf (by omega)
        obtain ⟨idx, fx, hoe⟩ := openExtent_some (d := d) (name := name) (user := user) (f := f) hty hdl hfe0
        obtain ⟨oh, oz, e, he, hfree⟩ := openExtent_full hoe
        have hfxl : fx.length = 32 := oh.len
        obtain ⟨fx', hsb⟩ := setBlockPtr_ok hd fx b hslot
        obtain ⟨hl', hhead, hptr⟩ := setBlockPtr_spec hd hfxl (by unfold userBlocks at b1; exact b1) hsb
        rw [hk0] at hptr
        have hpl : idx < s.dir.length := (List.getElem?_eq_some_iff.1 he).1
        obtain ⟨r2, hw⟩ := writeBlock_some (d := d) (chunk := chunk) hbsz
        have hs1 := sinv_alloc ho hr hu hs hS hch hcl hb (Or.inr ⟨hsf, oh, oz, e, he, hfree⟩) hl' hhead hptr hpl hw
          (if s.entry1.isNone then some idx else s.entry1) (k0 / putSpl d + 1) rfl
        have horig : ∃ e0, (dirOf d r)[idx]? = some e0 ∧ isExtentFree e0 = true := by
          have hlt : idx < (dirOf d r).length := by rw [← hs.w.keeps.1]; exact hpl
          have := hs.same idx _ e (List.getElem?_eq_getElem hlt) he (free_not_extent hfree)
          exact ⟨_, List.getElem?_eq_getElem hlt, by rw [← this]; exact hfree⟩
        have hE1 : EOk d r { s with fx := some fx', ptr := idx, entry1 := (if s.entry1.isNone then some idx else s.entry1), lxUsed := k0 / putSpl d + 1, dir := s.dir.set idx fx', r := r2 } := by
          refine ⟨?_, eok_set hE horig, fun _ _ => horig⟩
          intro i hi
          simp only [] at hi
          cases he1 : s.entry1 with
          | some j => rw [he1] at hi; simp only [Option.isNone_some, Bool.false_eq_true, ↓reduceIte] at hi; exact hE.e1 i (by rw [he1]; exact hi)
          | none =>
            rw [he1] at hi
            simp only [Option.isNone_none, ↓reduceIte, Option.some.injEq] at hi
            subst hi
            exact horig
        have hfb1 : (freeBlocks d s.dir).length ≤ (freeBlocks d (s.dir.set idx fx')).length + 1 := by
          apply freeBlocks_step b
          intro b' hb'
          rcases usedPtrs_set_sub hb' with h1 | ⟨_, h2⟩
          · exact Or.inl h1
          · rcases ptrs_after_set hl' hptr h2 with h3 | ⟨k, hk1, hk2⟩
            · exact Or.inr (Or.inl h3)
            · right; right; rw [← hk2, zero_tail_ptrs oz hk1]; exact hres0
        obtain ⟨s', e1, e2, e3, e4, e5⟩ := ih (k0 + 1) _ (by omega) hs1 hE1
          (by
            show need f (x * slots d + (k0 + 1)) n ≤ (freeBlocks d (s.dir.set idx fx')).length
            omega)
          (by intro hc; cases hc)
        have hfe1 : numFreeExtents s.dir ≤ numFreeExtents (s.dir.set idx fx') + 1 := by
          unfold numFreeExtents
          exact filter_set_le _ _ _ _
        have e3' : (freeBlocks d (s.dir.set idx fx')).length ≤ (freeBlocks d s'.dir).length + need f (x * slots d + (k0 + 1)) n := e3
        have e5' : numFreeExtents (s.dir.set idx fx') ≤ numFreeExtents s'.dir := e5 (Or.inl (by simp))
        refine ⟨s', ?_, e2, by omega, by omega, fun hc => ?_⟩
        · rw [slotLoop_cons_open (by rw [hglob]; exact hch) hb hsf hoe hsb hpl hw]
          exact e1
        · rcases hc with hc | hc
          · exact absurd rfl hc
          · omega

end A2Verif.FsCpm
