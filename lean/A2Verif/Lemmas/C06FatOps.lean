import A2Verif.Lemmas.C06Fat
/-!
# C06, FAT: every operation of the model respects the twin relation

By structural steps through the `do` blocks of `Model/Fs/Fat.lean` (`resp`), using the primitive lemmas of
`Lemmas/C06Fat.lean`.  Code following `M.get` is shown to read only the fixed parameters (`Resp.get_bind`).
The three functions that store a new buffer (`deallocate_block`, `write_block`, `expand_directory`) carry the
well-formedness of the buffer along (`Resp.withFat`, `Resp.lift_bind`).
-/
namespace A2Verif.Reload.Fat
open A2Verif.Fs.Fat A2Verif.FsFat

attribute [local irreducible] M.get M.lift M.setFat M.setRaw M.fail M.pure Fs.Fat.tryM Fs.Fat.buildFilesM
  Fs.Fat.readSector Fs.Fat.writeSector Fs.Fat.readBlock Fs.Fat.zapBlock Fs.Fat.getFatBuffer Fs.Fat.isBlockFree
  Fs.Fat.openFatBuffer Fs.Fat.readSectors

/-! ## the composite operations: one structural step at a time -/

syntax "resp_step" : tactic
macro_rules | `(tactic| resp_step) => `(tactic| first
  | exact Resp.pure _ | exact Resp.pure' _ | exact Resp.fail _ | exact Resp.lift _
  | exact Resp.readBlock _ | exact Resp.zapBlock _ _ | exact Resp.getFatBuffer | exact Resp.isBlockFree _
  | exact Resp.buildFilesM _
  | (refine Resp.get_bind (fun d hd => ?_) ?_
     focus (first | rfl | (subst hd; rfl))
     try simp only [Par.disk0_bpb, Par.disk0_typ, Par.disk0_lf])
  | apply Resp.bind
  | apply Resp.ite
  | apply Resp.tryM
  | intro _
  | split)
/-- walk through a `do` block of the model -/
macro "resp" : tactic => `(tactic| repeat' resp_step)
macro "resp_using " t:term : tactic => `(tactic| repeat' (first | exact $t | resp_step))

theorem Resp.freeLoop {P : Par} : ∀ (l : List Nat) (free : Nat), Resp P (freeLoop l free) := by
  intro l
  induction l with
  | nil => intro free; unfold Fs.Fat.freeLoop; resp
  | cons c cs ih => intro free; unfold Fs.Fat.freeLoop; resp_using (ih _)
macro_rules | `(tactic| resp_step) => `(tactic| exact Resp.freeLoop _ _)

theorem Resp.numFreeBlocks {P : Par} : Resp P numFreeBlocks := by
  unfold Fs.Fat.numFreeBlocks
  resp
macro_rules | `(tactic| resp_step) => `(tactic| exact Resp.numFreeBlocks)

theorem Resp.availLoop {P : Par} : ∀ (l : List Nat), Resp P (availLoop l) := by
  intro l
  induction l with
  | nil => unfold Fs.Fat.availLoop; resp
  | cons c cs ih => unfold Fs.Fat.availLoop; resp_using ih
macro_rules | `(tactic| resp_step) => `(tactic| exact Resp.availLoop _)

theorem Resp.getAvailableBlock {P : Par} : Resp P getAvailableBlock := by
  unfold Fs.Fat.getAvailableBlock
  resp
macro_rules | `(tactic| resp_step) => `(tactic| exact Resp.getAvailableBlock)


attribute [local irreducible] Fs.Fat.freeLoop Fs.Fat.numFreeBlocks Fs.Fat.availLoop Fs.Fat.getAvailableBlock

theorem bufOk_deallocate {b : Bpb} {f f' : Array Nat} {n : Nat} (hb : BufOk b f) (h : deallocate 12 f n = .ok f') : BufOk b f' :=
  bufOk_setCluster hb h

theorem bufOk_markLast {b : Bpb} {f f' : Array Nat} {n : Nat} (hb : BufOk b f) (h : markLast 12 f n = .ok f') : BufOk b f' :=
  bufOk_setCluster hb h

theorem Resp.deallocateBlock {P : Par} (n : Nat) : Resp P (deallocateBlock n) := by
  apply Resp.of_typ12; intro hP
  unfold Fs.Fat.deallocateBlock
  apply Resp.withFat; intro f hf
  refine Resp.get_bind (fun d hd => ?_) ?_
  · simp only [Par.typ_of hd, Par.disk0_typ]
  · simp only [Par.disk0_typ, hP]
    apply Resp.bind (Resp.lift _); intro last
    apply Resp.ite
    · apply Resp.lift_bind (BufOk P.bpb) (fun a ha => bufOk_deallocate hf ha)
      intro f' hf'
      exact Resp.bind (Resp.setFat hf') (fun _ => Resp.pure _)
    · apply Resp.bind (Resp.lift _); intro next
      apply Resp.lift_bind (BufOk P.bpb) (fun a ha => bufOk_deallocate hf ha)
      intro f' hf'
      exact Resp.bind (Resp.setFat hf') (fun _ => Resp.pure _)
macro_rules | `(tactic| resp_step) => `(tactic| exact Resp.deallocateBlock _)

theorem Resp.writeBlock {P : Par} (data : Bytes) (prev curr : Nat) : Resp P (writeBlock data prev curr) := by
  apply Resp.of_typ12; intro hP
  unfold Fs.Fat.writeBlock
  apply Resp.bind (Resp.zapBlock _ _); intro _
  apply Resp.withFat; intro f hf
  refine Resp.get_bind (fun d hd => ?_) ?_
  · simp only [Par.typ_of hd, Par.disk0_typ]
  · simp only [Par.disk0_typ, hP]
    by_cases hp : prev ≥ 2
    · simp only [if_pos hp]
      apply Resp.lift_bind (BufOk P.bpb) (fun a ha => bufOk_setCluster hf ha)
      intro f1 hf1
      apply Resp.lift_bind (BufOk P.bpb) (fun a ha => bufOk_markLast hf1 ha)
      intro f2 hf2
      exact Resp.setFat hf2
    · simp only [if_neg hp]
      rw [M_pure_bind]
      apply Resp.lift_bind (BufOk P.bpb) (fun a ha => bufOk_markLast hf ha)
      intro f2 hf2
      exact Resp.setFat hf2
macro_rules | `(tactic| resp_step) => `(tactic| exact Resp.writeBlock _ _ _)

attribute [local irreducible] Fs.Fat.deallocateBlock Fs.Fat.writeBlock

theorem Resp.nextCluster {P : Par} (n : Nat) : Resp P (nextCluster n) := by
  unfold Fs.Fat.nextCluster
  resp
macro_rules | `(tactic| resp_step) => `(tactic| exact Resp.nextCluster _)
attribute [local irreducible] Fs.Fat.nextCluster

theorem Resp.lastLoop {P : Par} : ∀ (fuel curr : Nat), Resp P (lastLoop fuel curr) := by
  intro fuel
  induction fuel with
  | zero => intro c; unfold Fs.Fat.lastLoop; resp
  | succ n ih => intro c; unfold Fs.Fat.lastLoop; resp_using (ih _)
macro_rules | `(tactic| resp_step) => `(tactic| exact Resp.lastLoop _ _)
attribute [local irreducible] Fs.Fat.lastLoop

theorem Resp.lastCluster {P : Par} (i : Nat) : Resp P (lastCluster i) := by
  unfold Fs.Fat.lastCluster
  resp
macro_rules | `(tactic| resp_step) => `(tactic| exact Resp.lastCluster _)
attribute [local irreducible] Fs.Fat.lastCluster

theorem Resp.chainDataLoop {P : Par} : ∀ (fuel curr : Nat), Resp P (chainDataLoop fuel curr) := by
  intro fuel
  induction fuel with
  | zero => intro c; unfold Fs.Fat.chainDataLoop; resp
  | succ n ih => intro c; unfold Fs.Fat.chainDataLoop; resp_using (ih _)
macro_rules | `(tactic| resp_step) => `(tactic| exact Resp.chainDataLoop _ _)
attribute [local irreducible] Fs.Fat.chainDataLoop

theorem Resp.getClusterChainData {P : Par} (i : Nat) : Resp P (getClusterChainData i) := by
  unfold Fs.Fat.getClusterChainData
  resp
macro_rules | `(tactic| resp_step) => `(tactic| exact Resp.getClusterChainData _)
attribute [local irreducible] Fs.Fat.getClusterChainData

theorem Resp.deallocLoop {P : Par} : ∀ (fuel curr : Nat), Resp P (deallocLoop fuel curr) := by
  intro fuel
  induction fuel with
  | zero => intro c; unfold Fs.Fat.deallocLoop; resp
  | succ n ih => intro c; unfold Fs.Fat.deallocLoop; resp_using (ih _)
macro_rules | `(tactic| resp_step) => `(tactic| exact Resp.deallocLoop _ _)
attribute [local irreducible] Fs.Fat.deallocLoop

theorem Resp.deallocateChain {P : Par} (i : Nat) : Resp P (deallocateChain i) := by
  unfold Fs.Fat.deallocateChain
  resp
macro_rules | `(tactic| resp_step) => `(tactic| exact Resp.deallocateChain _)
attribute [local irreducible] Fs.Fat.deallocateChain

theorem Resp.getRootDir {P : Par} : Resp P getRootDir := by
  unfold Fs.Fat.getRootDir
  refine Resp.get_bind (fun d hd => ?_) ?_
  · simp only [Par.bpb_of hd, Par.disk0_bpb]
  · simp only [Par.disk0_bpb]
    refine Resp.bind (Resp.readSectors _ ?_) (fun buf => Resp.pure _)
    intro s hs
    rw [List.mem_range'_1] at hs
    exact Or.inr hs.1
macro_rules | `(tactic| resp_step) => `(tactic| exact Resp.getRootDir)
attribute [local irreducible] Fs.Fat.getRootDir

theorem Resp.getDirectory {P : Par} (c : Option Nat) : Resp P (getDirectory c) := by
  unfold Fs.Fat.getDirectory
  resp
macro_rules | `(tactic| resp_step) => `(tactic| exact Resp.getDirectory _)
attribute [local irreducible] Fs.Fat.getDirectory

theorem Resp.hopLoop {P : Par} : ∀ (n c : Nat), Resp P (hopLoop n c) := by
  intro n
  induction n with
  | zero => intro c; unfold Fs.Fat.hopLoop; resp
  | succ n ih => intro c; unfold Fs.Fat.hopLoop; resp_using (ih _)
macro_rules | `(tactic| resp_step) => `(tactic| exact Resp.hopLoop _ _)
attribute [local irreducible] Fs.Fat.hopLoop

theorem Resp.expandDirectory {P : Par} (dir : Directory) (cluster1 : Nat) : Resp P (expandDirectory dir cluster1) := by
  apply Resp.of_typ12; intro hP
  unfold Fs.Fat.expandDirectory
  apply Resp.bind Resp.getAvailableBlock; intro x
  split
  · exact Resp.fail _
  · refine Resp.get_bind (fun d hd => ?_) ?_
    · subst hd; rfl
    · simp only [Par.disk0_bpb, Par.disk0_typ, hP]
      apply Resp.bind (Resp.lastCluster _); intro last
      apply Resp.withFat; intro f hf
      apply Resp.lift_bind (BufOk P.bpb) (fun a ha => bufOk_setCluster hf ha)
      intro f1 hf1
      apply Resp.lift_bind (BufOk P.bpb) (fun a ha => bufOk_markLast hf1 ha)
      intro f2 hf2
      exact Resp.bind (Resp.setFat hf2) (fun _ => Resp.bind (Resp.zapBlock _ _) (fun _ => Resp.pure _))
macro_rules | `(tactic| resp_step) => `(tactic| exact Resp.expandDirectory _ _)
attribute [local irreducible] Fs.Fat.expandDirectory

macro_rules | `(tactic| resp_step) => `(tactic| exact Resp.writeSector (Nat.le_add_right _ _) _)

theorem Resp.writebackDirectoryEntry {P : Par} (c1 : Option Nat) (idx : Nat) (dir : Directory) (entry : Bytes) :
    Resp P (writebackDirectoryEntry c1 idx dir entry) := by
  unfold Fs.Fat.writebackDirectoryEntry
  resp
macro_rules | `(tactic| resp_step) => `(tactic| exact Resp.writebackDirectoryEntry _ _ _ _)
attribute [local irreducible] Fs.Fat.writebackDirectoryEntry

theorem Resp.getAvailableEntry {P : Par} (dir : Directory) (c1 : Option Nat) : Resp P (getAvailableEntry dir c1) := by
  unfold Fs.Fat.getAvailableEntry
  resp
macro_rules | `(tactic| resp_step) => `(tactic| exact Resp.getAvailableEntry _ _)
attribute [local irreducible] Fs.Fat.getAvailableEntry

theorem Resp.gotoLoop {P : Par} : ∀ (l : List Bytes) (files : List (Bytes × FInfo)) (parent : FInfo), Resp P (gotoLoop l files parent) := by
  intro l
  induction l with
  | nil => intro files parent; unfold Fs.Fat.gotoLoop; resp
  | cons s rest ih => intro files parent; unfold Fs.Fat.gotoLoop; resp_using (ih _ _)
macro_rules | `(tactic| resp_step) => `(tactic| exact Resp.gotoLoop _ _ _)
attribute [local irreducible] Fs.Fat.gotoLoop

theorem Resp.gotoPath {P : Par} (path : Bytes) : Resp P (gotoPath path) := by
  unfold Fs.Fat.gotoPath
  resp
macro_rules | `(tactic| resp_step) => `(tactic| exact Resp.gotoPath _)
attribute [local irreducible] Fs.Fat.gotoPath

theorem Resp.prepareToWrite {P : Par} (path : Bytes) : Resp P (prepareToWrite path) := by
  unfold Fs.Fat.prepareToWrite
  resp
macro_rules | `(tactic| resp_step) => `(tactic| exact Resp.prepareToWrite _)
attribute [local irreducible] Fs.Fat.prepareToWrite

theorem Resp.writeLoop {P : Par} (chunks : List (Nat × Bytes)) : ∀ (l : List Nat) (entry : Bytes) (prev : Nat), Resp P (writeLoop chunks l entry prev) := by
  intro l
  induction l with
  | nil => intro e p; unfold Fs.Fat.writeLoop; resp
  | cons c rest ih => intro e p; unfold Fs.Fat.writeLoop; resp_using (ih _ _)
macro_rules | `(tactic| resp_step) => `(tactic| exact Resp.writeLoop _ _ _ _)
attribute [local irreducible] Fs.Fat.writeLoop

theorem Resp.writeFile {P : Par} (c1 : Option Nat) (idx : Nat) (dir : Directory) (f : FImg) : Resp P (writeFile c1 idx dir f) := by
  unfold Fs.Fat.writeFile
  resp
macro_rules | `(tactic| resp_step) => `(tactic| exact Resp.writeFile _ _ _ _)
attribute [local irreducible] Fs.Fat.writeFile

theorem Resp.put {P : Par} (f : FImg) (now : Stamp) : Resp P (put f now) := by
  unfold Fs.Fat.put
  resp

theorem Resp.modify {P : Par} (c1 : Option Nat) (idx : Nat) (dir : Directory) (set clear : Option Nat) (nn : Option Bytes) :
    Resp P (Fs.Fat.modify c1 idx dir set clear nn) := by
  unfold Fs.Fat.modify
  resp
macro_rules | `(tactic| resp_step) => `(tactic| exact Resp.modify _ _ _ _ _ _)
attribute [local irreducible] Fs.Fat.modify

theorem Resp.okToRename {P : Par} (o n : Bytes) : Resp P (okToRename o n) := by
  unfold Fs.Fat.okToRename
  resp
macro_rules | `(tactic| resp_step) => `(tactic| exact Resp.okToRename _ _)
attribute [local irreducible] Fs.Fat.okToRename

theorem Resp.modifyAt {P : Par} (parent : Option FInfo) (fi : FInfo) (set clear : Option Nat) (nn : Option Bytes) :
    Resp P (modifyAt parent fi set clear nn) := by
  unfold Fs.Fat.modifyAt
  resp
macro_rules | `(tactic| resp_step) => `(tactic| exact Resp.modifyAt _ _ _ _ _)
attribute [local irreducible] Fs.Fat.modifyAt

theorem Resp.rename {P : Par} (p n : Bytes) : Resp P (rename p n) := by
  unfold Fs.Fat.rename
  resp

theorem Resp.lock {P : Par} (p : Bytes) : Resp P (lock p) := by
  unfold Fs.Fat.lock
  resp

theorem Resp.unlock {P : Par} (p : Bytes) : Resp P (unlock p) := by
  unfold Fs.Fat.unlock
  resp

theorem Resp.retype {P : Par} (p : Bytes) (t : NewType) : Resp P (retype p t) := by
  unfold Fs.Fat.retype
  resp

theorem Resp.delete {P : Par} (p : Bytes) : Resp P (delete p) := by
  unfold Fs.Fat.delete
  resp

theorem Resp.mkdir {P : Par} (p : Bytes) (now : Stamp) : Resp P (mkdir p now) := by
  unfold Fs.Fat.mkdir
  resp

theorem Resp.get {P : Par} (p : Bytes) : Resp P (get p) := by
  unfold Fs.Fat.get
  resp

theorem Resp.statFree {P : Par} : Resp P statFree := by
  unfold Fs.Fat.statFree
  resp

theorem Resp.catalog {P : Par} (p : Bytes) : Resp P (catalog p) := by
  unfold Fs.Fat.catalog
  resp

end A2Verif.Reload.Fat
