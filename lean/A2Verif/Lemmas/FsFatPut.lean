import A2Verif.Lemmas.FsFatAlloc
/-!
# `write_file`/`put` of the concrete FAT model accept a file that fits (the acceptance clause of C04)

`writeFile_accepts`: with the FAT buffer open, every chunk `0 ..< end` present and `end ≤` the free count, `write_file`
returns `Ok` provided the final `writeback_directory_entry` succeeds on the state the cluster loop leaves;
`writebackRoot_ok` discharges that for an entry of the FAT12/16 root directory.  `fat_fits_is_accepted` puts them
together for `put` of a root-level file.
-/
namespace A2Verif.FsFat
open A2Verif A2Verif.Fs.Fat

theorem M_fail_apply {α : Type} (e : Err) (d : Disk) : (M.fail e : M α) d = (.error e, d) := rfl

/-- `fimg.end()` bounds every key -/
theorem foldl_max_le (cs : List (Nat × Bytes)) : ∀ (m : Nat), m ≤ cs.foldl (fun m c => max m (c.1 + 1)) m := by
  induction cs with
  | nil => intro m; simp
  | cons c t ih => intro m; simp only [List.foldl_cons]; exact Nat.le_trans (Nat.le_max_left _ _) (ih _)

/-- what `write_file` needs of the directory write-back: it succeeds on every state with the same geometry -/
def WbOk (d : Disk) (cluster1 : Option Nat) (idx : Nat) (dir : Directory) : Prop :=
  ∀ (d1 : Disk) (e1 : Bytes), d1.bpb = d.bpb → d1.raw.units.size = d.raw.units.size → d1.raw.unitLen = d.raw.unitLen → d1.typ = d.typ →
    ∃ d2, writebackDirectoryEntry cluster1 idx dir e1 d1 = (.ok (), d2)

theorem writeFile_accepts {d : Disk} {f : Array Nat} (w : WOk d f) {cluster1 : Option Nat} {idx : Nat} {dir : Directory} {fi : FImg}
    (hidx : idx < dir.length) (hch : ∀ k, k < fi.end → (fi.chunks.lookup k).isSome = true)
    (hfit : fi.end ≤ freeCount d.bpb f) (hwb : WbOk d cluster1 idx dir) :
    ∃ n d', writeFile cluster1 idx dir fi d = (.ok n, d') := by
  obtain ⟨e0, he0⟩ : ∃ e0, dirEntry dir idx = .ok e0 := by
    unfold dirEntry
    simp [List.getElem?_eq_getElem hidx]
  obtain ⟨entry', d', f', hrun, w', hb', hsz', hul', _, _, _⟩ :=
    writeLoop_ok fi.chunks (List.range fi.end) d f e0 0 w (fun k hk => hch k (by simpa using hk)) (by simpa using hfit) (Or.inl (by omega))
  obtain ⟨d2, hd2⟩ := hwb d' (Entry.setAttr entry' ARCHIVE) hb' hsz' hul' (by rw [w'.typ, w.typ])
  refine ⟨Entry.fileSize (Entry.setAttr entry' ARCHIVE), d2, ?_⟩
  unfold writeFile
  simp only [M_bind_apply, M.lift, he0]
  rw [numFreeBlocks_open w]
  simp only []
  have : ¬ freeCount d.bpb f < fi.end := by omega
  simp only [this, if_false, M_bind_apply, hrun, hd2, M_pure_apply]

/-- the geometry facts that make the write-back of root entry `idx` succeed: 512-byte sectors, a usable CHS
geometry, and the root sector holding the entry lies inside the image -/
structure RootGeo (d : Disk) (idx n : Nat) : Prop where
  bps : d.bpb.bps = 512
  spt : d.bpb.spt ≠ 0
  heads : d.bpb.heads ≠ 0
  hidx : idx < n
  whole : idx / 16 * 16 + 16 ≤ n
  chs : (d.bpb.rootBeg + idx / 16) / d.bpb.spt < d.raw.units.size / d.bpb.spt
  inImg : d.bpb.rootBeg + idx / 16 < d.raw.units.size

theorem writebackRoot_ok {d : Disk} {idx : Nat} {dir : Directory} (g : RootGeo d idx dir.length) : WbOk d none idx dir := by
  intro d1 e1 hb hsz _ _
  have hset : dirSet dir idx e1 = .ok (dir.set idx e1) := by simp [dirSet, g.hidx]
  have hraw : rawEntries (dir.set idx e1) ((d1.bpb.rootBeg + idx / 16 - d1.bpb.rootBeg) * 16) 16 =
      .ok (((dir.set idx e1).drop (idx / 16 * 16)).take 16).flatten := by
    have e : d1.bpb.rootBeg + idx / 16 - d1.bpb.rootBeg = idx / 16 := by omega
    have := g.whole
    simp [rawEntries, e, this]
  have hchs : getChs d1 (d1.bpb.rootBeg + idx / 16) = .ok (d1.bpb.rootBeg + idx / 16) := by
    have h1 := g.spt; have h2 := g.heads; have h3 := g.chs
    unfold getChs Raw.count
    rw [hb, hsz]
    simp [h1, h2]
    omega
  have hin : d1.bpb.rootBeg + idx / 16 < d1.raw.units.size := by rw [hb, hsz]; exact g.inImg
  let newUnit : Bytes := quantize (((dir.set idx e1).drop (idx / 16 * 16)).take 16).flatten d1.raw.unitLen
  refine ⟨{ d1 with raw := { d1.raw with units := d1.raw.units.setIfInBounds (d1.bpb.rootBeg + idx / 16) newUnit } }, ?_⟩
  unfold writebackDirectoryEntry
  have hbps : d1.bpb.secSize / entrySize = 16 := by simp [Bpb.secSize, hb, g.bps, entrySize]
  simp only [M_bind_apply, M.get, M.lift, hset, hbps]
  have h16 : ¬ (16 = 0) := by omega
  simp only [h16, if_false, M_bind_apply, M.lift, hraw]
  unfold writeSector
  simp only [M_bind_apply, M.get, M.lift, hchs, imgWriteSector, hin, if_true, M.setRaw]
  rfl

/-- **C04, acceptance** (root directory): a `put` whose file image is for this file system, whose path has been
accepted by `prepare_to_write` with a slot of the root directory, whose attribute byte is not that of a label or directory, whose chunks and length pass `put`'s own test (`storable`) (valid fresh name, the directory is not full), whose
chunks `0 ..< end` are all present and whose `end` does not exceed the free count, is accepted. -/
theorem fat_fits_is_accepted {d d1 : Disk} {f1 : Array Nat} {fi : FImg} {now : Stamp} {name : Bytes} {idx : Nat} {dir : Directory}
    (hfs : fi.fsOk = true) (hcl : fi.chunkLen = d.bpb.blockSize) (hacc : fi.dirOrLabel = false) (hsto : fi.storable = true)
    (hprep : prepareToWrite fi.fullPath d = (.ok (name, none, idx, dir), d1))
    (w : WOk d1 f1) (g : RootGeo d1 idx dir.length)
    (hmeta : 4 ≤ fi.eof.length ∧ 1 ≤ fi.access.length ∧ 5 ≤ fi.created.length ∧ 4 ≤ fi.modified.length)
    (hch : ∀ k, k < fi.end → (fi.chunks.lookup k).isSome = true) (hfit : fi.end ≤ freeCount d1.bpb f1) :
    ∃ n d', put fi now d = (.ok n, d') := by
  obtain ⟨entry, hentry⟩ : ∃ e, fimgToMetadata (entryCreate (stringToFileName name) 0 now) fi = .ok e := by
    unfold fimgToMetadata
    have : ¬ (fi.eof.length < 4 ∨ fi.access.length < 1 ∨ fi.created.length < 5 ∨ fi.modified.length < 4) := by omega
    rw [if_neg this]
    exact ⟨_, rfl⟩
  have hset : dirSet dir idx entry = .ok (dir.set idx entry) := by simp [dirSet, g.hidx]
  have g' : RootGeo d1 idx (dir.set idx entry).length := by simpa using g
  obtain ⟨n, d', hw⟩ := writeFile_accepts w (cluster1 := none) (idx := idx) (dir := dir.set idx entry) (fi := fi)
    (by simpa using g.hidx) hch hfit (writebackRoot_ok g')
  refine ⟨n, d', ?_⟩
  unfold put
  simp only [hfs, Bool.not_true, Bool.false_eq_true, if_false, M_bind_apply, M.get]
  have : ¬ (fi.chunkLen ≠ d.bpb.blockSize) := by simp [hcl]
  simp only [this, if_false, hacc, hsto, Bool.not_true, Bool.false_eq_true, M_bind_apply, hprep, M.lift, hentry, hset, hw]

end A2Verif.FsFat
