import A2Verif.Model.VolTrace
/-!
# Helper lemmas about `Vol`, `sameFiles`, `without` and `stepConds`

Prop-level readings of the Boolean conditions in `Model/Vol.lean` and `Model/VolSpec.lean`, the
per-operation content of `stepOk`, and the elementary facts about histories (`validFrom`, `finalVol`)
used by `Props/C01 … C06, C19`.  Core Lean only.
-/
namespace A2Verif

/-! ## small list facts -/

theorem match_opt_true {α : Type} (o : Option α) (k : α → Bool) :
    (match o with | some g => k g | none => false) = true ↔ ∃ g, o = some g ∧ k g = true := by
  cases o <;> simp

theorem match_opt2_true {α : Type} (o1 o2 : Option α) (k : α → α → Bool) :
    (match o1, o2 with | some f, some g => k f g | _, _ => false) = true ↔
      ∃ f g, o1 = some f ∧ o2 = some g ∧ k f g = true := by
  cases o1 <;> cases o2 <;> simp

theorem find_path_some {l : List FileRec} {q : Bytes} {f : FileRec}
    (h : l.find? (·.path == q) = some f) : f ∈ l ∧ f.path = q :=
  ⟨List.mem_of_find?_eq_some h, by simpa using List.find?_some h⟩

theorem find_path_isSome {l : List FileRec} {q : Bytes} :
    (l.find? (·.path == q)).isSome = true ↔ q ∈ l.map (·.path) := by
  rw [List.find?_isSome]
  simp only [beq_iff_eq, List.mem_map]

theorem find_path_none {l : List FileRec} {q : Bytes} :
    l.find? (·.path == q) = none ↔ q ∉ l.map (·.path) := by
  rw [← find_path_isSome]
  cases l.find? (·.path == q) <;> simp

/-- in a list with pairwise different paths, `find?` by path returns any member with that path -/
theorem find_path_of_mem {l : List FileRec} (nd : (l.map (·.path)).Nodup) {f : FileRec} (hf : f ∈ l) :
    l.find? (·.path == f.path) = some f := by
  induction l with
  | nil => cases hf
  | cons x xs ih =>
    rw [List.map_cons, List.nodup_cons] at nd
    rw [List.find?_cons]
    rcases List.mem_cons.1 hf with rfl | hm
    · simp
    · have hne : x.path ≠ f.path := fun e => nd.1 (e ▸ List.mem_map_of_mem hm)
      have : (x.path == f.path) = false := by simpa using hne
      rw [this]
      exact ih nd.2 hm

theorem nodup_of_nodup_map {α β : Type} (f : α → β) {l : List α} (h : (l.map f).Nodup) : l.Nodup := by
  induction l with
  | nil => exact List.nodup_nil
  | cons x xs ih =>
    rw [List.map_cons, List.nodup_cons] at h
    rw [List.nodup_cons]
    exact ⟨fun hm => h.1 (List.mem_map_of_mem hm), ih h.2⟩

/-! ## `sameRec`, `sameFiles`, `without` -/

theorem sameRec_file {f g : FileRec} (hd : f.isDir = false) (h : sameRec f g = true) : g = f := by
  unfold sameRec at h
  rw [hd] at h
  simp at h
  exact h.symm

theorem sameRec_path {f g : FileRec} (h : sameRec f g = true) : g.path = f.path := by
  unfold sameRec at h
  cases hd : f.isDir
  · rw [hd] at h; simp at h; rw [h]
  · rw [hd] at h; simp at h; exact h.1.2.symm

theorem sameRec_refl (f : FileRec) : sameRec f f = true := by
  unfold sameRec
  cases f.isDir <;> simp

theorem sameFiles_iff {a b : List FileRec} : sameFiles a b = true ↔
    (∀ f ∈ a, ∃ g, b.find? (·.path == f.path) = some g ∧ sameRec f g = true) ∧
    (∀ g ∈ b, (a.find? (·.path == g.path)).isSome = true) := by
  unfold sameFiles
  simp only [Bool.and_eq_true, List.all_eq_true]
  refine and_congr (forall_congr' fun f => imp_congr_right fun _ => ?_) Iff.rfl
  generalize List.find? (fun x => x.path == f.path) b = o
  cases o <;> simp

/-- a file (not a directory) found in `a` is found, identical, in `b` -/
theorem sameFiles_find {a b : List FileRec} (h : sameFiles a b = true) {q : Bytes} {f : FileRec}
    (hf : a.find? (·.path == q) = some f) (hd : f.isDir = false) :
    b.find? (·.path == q) = some f := by
  obtain ⟨hm, hp⟩ := find_path_some hf
  obtain ⟨g, hg, hs⟩ := (sameFiles_iff.1 h).1 f hm
  rw [sameRec_file hd hs, hp] at hg
  exact hg

/-- the two lists hold the same paths -/
theorem sameFiles_paths {a b : List FileRec} (h : sameFiles a b = true) (q : Bytes) :
    q ∈ a.map (·.path) ↔ q ∈ b.map (·.path) := by
  obtain ⟨h1, h2⟩ := sameFiles_iff.1 h
  constructor
  · intro hq
    obtain ⟨f, hf, rfl⟩ := List.mem_map.1 hq
    obtain ⟨g, hg, hs⟩ := h1 f hf
    obtain ⟨hgm, _⟩ := find_path_some hg
    exact List.mem_map.2 ⟨g, hgm, sameRec_path hs⟩
  · intro hq
    obtain ⟨g, hg, rfl⟩ := List.mem_map.1 hq
    exact find_path_isSome.1 (h2 g hg)

theorem without_find {fs : List FileRec} {ps : List Bytes} {q : Bytes} (hq : q ∉ ps) :
    (without fs ps).find? (·.path == q) = fs.find? (·.path == q) := by
  rw [without, List.find?_filter]
  congr 1
  funext a
  by_cases h : a.path = q
  · subst h; simpa using hq
  · simp [h]

theorem without_paths {fs : List FileRec} {ps : List Bytes} {q : Bytes} :
    q ∈ (without fs ps).map (·.path) ↔ q ∈ fs.map (·.path) ∧ q ∉ ps := by
  unfold without
  simp only [List.mem_map, List.mem_filter, Bool.not_eq_true', List.contains_eq_mem, decide_eq_false_iff_not]
  constructor
  · rintro ⟨f, ⟨hf, hn⟩, rfl⟩; exact ⟨⟨f, hf, rfl⟩, hn⟩
  · rintro ⟨⟨f, hf, rfl⟩, hn⟩; exact ⟨f, ⟨hf, hn⟩, rfl⟩

theorem without_mem {fs : List FileRec} {ps : List Bytes} {f : FileRec} :
    f ∈ without fs ps ↔ f ∈ fs ∧ f.path ∉ ps := by
  unfold without
  simp only [List.mem_filter, Bool.not_eq_true', List.contains_eq_mem, decide_eq_false_iff_not]

theorem without_sublist (fs : List FileRec) (ps : List Bytes) : (without fs ps).Sublist fs :=
  List.filter_sublist

/-! ## `Vol.lookup` and `Vol.paths` -/

theorem lookup_some {v : Vol} {q : Bytes} {f : FileRec} (h : v.lookup q = some f) : f ∈ v.files ∧ f.path = q :=
  find_path_some h

theorem mem_paths_iff {v : Vol} {q : Bytes} : q ∈ v.paths ↔ (v.lookup q).isSome = true :=
  find_path_isSome.symm

theorem not_mem_paths_iff {v : Vol} {q : Bytes} : q ∉ v.paths ↔ v.lookup q = none :=
  find_path_none.symm

theorem mem_paths_of_lookup {v : Vol} {q : Bytes} {f : FileRec} (h : v.lookup q = some f) : q ∈ v.paths :=
  mem_paths_iff.2 (by rw [h]; rfl)

/-! ## well-formedness, Prop level -/

theorem wfB_iff {v : Vol} : v.wfB = true ↔
    (∀ u ∈ v.allOwned, v.lo ≤ u ∧ u < v.hi) ∧
    (v.allOwned ++ v.sys).Nodup ∧
    (∀ u ∈ v.allOwned, u ∉ v.freeUnits) ∧
    (∀ u ∈ v.sys, u ∉ v.freeUnits) ∧
    (v.freeUnits.Nodup ∧ ∀ u ∈ v.freeUnits, v.lo ≤ u ∧ u < v.hi) ∧
    (v.files.map (·.path)).Nodup ∧
    (∀ f ∈ v.files, (f.chunks.map (·.1)).Pairwise (· < ·)) := by
  unfold Vol.wfB Vol.wfConds
  simp only [List.all_cons, List.all_nil, Bool.and_true, Bool.and_eq_true, List.all_eq_true,
    decide_eq_true_eq, Bool.not_eq_true', List.contains_eq_mem, decide_eq_false_iff_not]

theorem wfB_paths_nodup {v : Vol} (h : v.wfB = true) : v.paths.Nodup := (wfB_iff.1 h).2.2.2.2.2.1


/-! ## what `stepOk` says, operation by operation -/

section steps
variable {P : FsParams} {pre post : Vol}

/-- every checked step, successful or refused, leaves a well-formed volume -/
theorem stepOk_wf {op : FsOp} {ok : Bool} (h : stepOk P pre op ok post = true) : post.wfB = true := by
  cases op <;> cases ok <;>
    simp only [stepOk, stepConds, List.all_cons, List.all_nil, Bool.and_true, Bool.and_eq_true] at h <;>
    exact h.1

/-- a refused operation: same paths, every file record identical -/
theorem stepOk_refused {op : FsOp} (h : stepOk P pre op false post = true) :
    sameFiles pre.files post.files = true := by
  cases op <;>
    simp only [stepOk, stepConds, List.all_cons, List.all_nil, Bool.and_true, Bool.and_eq_true] at h <;>
    exact h.2

theorem stepOk_other (h : stepOk P pre .other true post = true) :
    sameFiles pre.files post.files = true := by
  simp only [stepOk, stepConds, List.all_cons, List.all_nil, Bool.and_true, Bool.and_eq_true] at h
  exact h.2

theorem stepOk_put {p : Bytes} {cs : List (Nat × Bytes)} {eof ty aux : Nat}
    (h : stepOk P pre (.put p cs eof ty aux) true post = true) :
    pre.lookup p = none ∧
    (∃ f, post.lookup p = some f ∧ chunksMatch cs f.chunks = true ∧ f.isDir = false ∧
      f.eof = P.eofRule eof ∧ (P.keepsType = true → f.ftype = ty) ∧ (P.keepsAux = true → f.aux = aux) ∧
      ∀ u ∈ f.owned, u ∈ pre.freeUnits) ∧
    sameFiles pre.files (without post.files [p]) = true := by
  simp only [stepOk, stepConds, List.all_cons, List.all_nil, Bool.and_true, Bool.and_eq_true] at h
  obtain ⟨_, h1, _, h3, h4, h5, h6, h7⟩ := h
  refine ⟨by simpa using h1, ?_, h7⟩
  cases hl : post.lookup p with
  | none => rw [hl] at h3; simp at h3
  | some f =>
    rw [hl] at h3 h4 h5 h6
    simp only [Bool.and_eq_true, Bool.not_eq_true', beq_iff_eq, Bool.or_eq_true, List.all_eq_true,
      List.contains_eq_mem, decide_eq_true_eq] at h3 h4 h5 h6
    refine ⟨f, rfl, h3.1, h3.2, h4, ?_, ?_, h6⟩
    · intro hk; rcases h5.1 with h | h
      · rw [hk] at h; cases h
      · exact h
    · intro hk; rcases h5.2 with h | h
      · rw [hk] at h; cases h
      · exact h

theorem stepOk_mkdir {p : Bytes} (h : stepOk P pre (.mkdir p) true post = true) :
    pre.lookup p = none ∧
    (∃ f, post.lookup p = some f ∧ f.isDir = true ∧ ∀ u ∈ f.owned, u ∈ pre.freeUnits) ∧
    sameFiles pre.files (without post.files [p]) = true := by
  simp only [stepOk, stepConds, List.all_cons, List.all_nil, Bool.and_true, Bool.and_eq_true] at h
  obtain ⟨_, h1, h2, h3⟩ := h
  refine ⟨by simpa using h1, ?_, h3⟩
  cases hl : post.lookup p with
  | none => rw [hl] at h2; simp at h2
  | some f =>
    rw [hl] at h2
    simp only [Bool.and_eq_true, List.all_eq_true, List.contains_eq_mem, decide_eq_true_eq] at h2
    exact ⟨f, rfl, h2.1, h2.2⟩

theorem stepOk_delete {p : Bytes} (h : stepOk P pre (.delete p) true post = true) :
    (∃ f, pre.lookup p = some f ∧ f.locked = false) ∧ post.lookup p = none ∧
    sameFiles (without pre.files [p]) post.files = true := by
  simp only [stepOk, stepConds, List.all_cons, List.all_nil, Bool.and_true, Bool.and_eq_true] at h
  obtain ⟨_, _, h2, h3, h4⟩ := h
  refine ⟨?_, by simpa using h3, h4⟩
  cases hl : pre.lookup p with
  | none => rw [hl] at h2; simp at h2
  | some f => rw [hl] at h2; exact ⟨f, rfl, by simpa using h2⟩

theorem stepOk_rename {p q : Bytes} (h : stepOk P pre (.rename p q) true post = true) :
    (∃ f g, pre.lookup p = some f ∧ post.lookup q = some g ∧ f.locked = false ∧
      g.chunks = f.chunks ∧ g.eof = f.eof ∧ g.owned = f.owned ∧ g.locked = f.locked ∧ g.isDir = f.isDir) ∧
    (p = q ∨ pre.lookup q = none) ∧ (p = q ∨ post.lookup p = none) ∧
    sameFiles (without pre.files [p, q]) (without post.files [p, q]) = true := by
  simp only [stepOk, stepConds, List.all_cons, List.all_nil, Bool.and_true, Bool.and_eq_true] at h
  obtain ⟨_, _, h2, h3, h4, h5, h6⟩ := h
  refine ⟨?_, by simpa using h3, by simpa using h4, h6⟩
  cases hl : pre.lookup p with
  | none => rw [hl] at h2; simp at h2
  | some f =>
    cases hm : post.lookup q with
    | none => rw [hl, hm] at h5; simp at h5
    | some g =>
      rw [hl] at h2; rw [hl, hm] at h5
      simp only [Bool.and_eq_true, beq_iff_eq] at h5
      obtain ⟨⟨⟨⟨a, b⟩, c⟩, d⟩, e⟩ := h5
      exact ⟨f, g, rfl, rfl, by simpa using h2, a, b, c, d, e⟩

theorem stepOk_lock {p : Bytes} (h : stepOk P pre (.lock p) true post = true) :
    (∃ f g, pre.lookup p = some f ∧ post.lookup p = some g ∧ g.locked = true ∧
      g.chunks = f.chunks ∧ g.eof = f.eof ∧ g.owned = f.owned ∧ g.ftype = f.ftype ∧ g.aux = f.aux ∧
      g.isDir = f.isDir) ∧
    sameFiles (without pre.files [p]) (without post.files [p]) = true := by
  simp only [stepOk, stepConds, List.all_cons, List.all_nil, Bool.and_true, Bool.and_eq_true] at h
  obtain ⟨_, _, h2, h3⟩ := h
  refine ⟨?_, h3⟩
  cases hl : pre.lookup p with
  | none => rw [hl] at h2; simp at h2
  | some f =>
    cases hm : post.lookup p with
    | none => rw [hl, hm] at h2; simp at h2
    | some g =>
      rw [hl, hm] at h2
      simp only [Bool.and_eq_true, beq_iff_eq] at h2
      obtain ⟨⟨⟨⟨⟨⟨a, b⟩, c⟩, d⟩, e⟩, k⟩, m⟩ := h2
      exact ⟨f, g, rfl, rfl, a, b, c, d, e, k, m⟩

theorem stepOk_unlock {p : Bytes} (h : stepOk P pre (.unlock p) true post = true) :
    (∃ f g, pre.lookup p = some f ∧ post.lookup p = some g ∧ g.locked = false ∧
      g.chunks = f.chunks ∧ g.eof = f.eof ∧ g.owned = f.owned ∧ g.ftype = f.ftype ∧ g.aux = f.aux ∧
      g.isDir = f.isDir) ∧
    sameFiles (without pre.files [p]) (without post.files [p]) = true := by
  simp only [stepOk, stepConds, List.all_cons, List.all_nil, Bool.and_true, Bool.and_eq_true] at h
  obtain ⟨_, _, h2, h3⟩ := h
  refine ⟨?_, h3⟩
  cases hl : pre.lookup p with
  | none => rw [hl] at h2; simp at h2
  | some f =>
    cases hm : post.lookup p with
    | none => rw [hl, hm] at h2; simp at h2
    | some g =>
      rw [hl, hm] at h2
      simp only [Bool.and_eq_true, beq_iff_eq, Bool.not_eq_true'] at h2
      obtain ⟨⟨⟨⟨⟨⟨a, b⟩, c⟩, d⟩, e⟩, k⟩, m⟩ := h2
      exact ⟨f, g, rfl, rfl, a, b, c, d, e, k, m⟩

theorem stepOk_retype {p : Bytes} (h : stepOk P pre (.retype p) true post = true) :
    (∃ f g, pre.lookup p = some f ∧ post.lookup p = some g ∧
      g.chunks = f.chunks ∧ g.eof = f.eof ∧ g.owned = f.owned ∧ g.isDir = f.isDir) ∧
    sameFiles (without pre.files [p]) (without post.files [p]) = true := by
  simp only [stepOk, stepConds, List.all_cons, List.all_nil, Bool.and_true, Bool.and_eq_true] at h
  obtain ⟨_, _, h2, h3⟩ := h
  refine ⟨?_, h3⟩
  cases hl : pre.lookup p with
  | none => rw [hl] at h2; simp at h2
  | some f =>
    cases hm : post.lookup p with
    | none => rw [hl, hm] at h2; simp at h2
    | some g =>
      rw [hl, hm] at h2
      simp only [Bool.and_eq_true, beq_iff_eq] at h2
      obtain ⟨⟨⟨a, b⟩, c⟩, d⟩ := h2
      exact ⟨f, g, rfl, rfl, a, b, c, d⟩

/-- The frame condition in one statement: for a path the operation does not name, whatever the result,
the bystander lists before and after (with the named paths removed) are `sameFiles`. -/
theorem stepOk_frame {op : FsOp} {ok : Bool} (h : stepOk P pre op ok post = true) :
    sameFiles (without pre.files op.targets) (without post.files op.targets) = true ∨
    sameFiles pre.files (without post.files op.targets) = true ∨
    sameFiles (without pre.files op.targets) post.files = true ∨
    sameFiles pre.files post.files = true := by
  cases ok with
  | false => exact Or.inr (Or.inr (Or.inr (stepOk_refused h)))
  | true =>
    cases op with
    | put p cs eof ty aux => exact Or.inr (Or.inl (stepOk_put h).2.2)
    | delete p => exact Or.inr (Or.inr (Or.inl (stepOk_delete h).2.2))
    | rename p q => exact Or.inl (stepOk_rename h).2.2.2
    | lock p => exact Or.inl (stepOk_lock h).2
    | unlock p => exact Or.inl (stepOk_unlock h).2
    | retype p => exact Or.inl (stepOk_retype h).2
    | mkdir p => exact Or.inr (Or.inl (stepOk_mkdir h).2.2)
    | other => exact Or.inr (Or.inr (Or.inr (stepOk_other h)))

/-- bystander files: found identical after the step -/
theorem stepOk_bystander_lookup {op : FsOp} {ok : Bool} (h : stepOk P pre op ok post = true)
    {q : Bytes} (hq : q ∉ op.targets) {f : FileRec} (hf : pre.lookup q = some f) (hd : f.isDir = false) :
    post.lookup q = some f := by
  unfold Vol.lookup at hf ⊢
  rcases stepOk_frame h with hs | hs | hs | hs
  · have := sameFiles_find hs (by rw [without_find hq]; exact hf) hd
    rwa [without_find hq] at this
  · have := sameFiles_find hs hf hd
    rwa [without_find hq] at this
  · exact sameFiles_find hs (by rw [without_find hq]; exact hf) hd
  · exact sameFiles_find hs hf hd

/-- bystander paths: listed after the step iff listed before -/
theorem stepOk_bystander_path {op : FsOp} {ok : Bool} (h : stepOk P pre op ok post = true)
    {q : Bytes} (hq : q ∉ op.targets) : q ∈ post.paths ↔ q ∈ pre.paths := by
  unfold Vol.paths
  rcases stepOk_frame h with hs | hs | hs | hs
  · have := sameFiles_paths hs q
    simp only [without_paths, hq, not_false_eq_true, and_true] at this
    exact this.symm
  · have := sameFiles_paths hs q
    simp only [without_paths, hq, not_false_eq_true, and_true] at this
    exact this.symm
  · have := sameFiles_paths hs q
    simp only [without_paths, hq, not_false_eq_true, and_true] at this
    exact this.symm
  · exact (sameFiles_paths hs q).symm

/-- a refused step (and a successful `other`) keeps every file record and the listing -/
theorem sameFiles_lookup {pre post : Vol} (hs : sameFiles pre.files post.files = true)
    {q : Bytes} {f : FileRec} (hf : pre.lookup q = some f) (hd : f.isDir = false) :
    post.lookup q = some f := sameFiles_find hs hf hd

end steps

/-! ## histories -/

@[simp] theorem finalVol_nil (v : Vol) : finalVol v [] = v := rfl

@[simp] theorem finalVol_cons (v : Vol) (s : Step) (rest : List Step) :
    finalVol v (s :: rest) = finalVol s.post rest := by
  cases rest with
  | nil => simp [finalVol]
  | cons t r =>
    unfold finalVol
    rw [List.getLast?_cons_cons]
    cases h : (t :: r).getLast? with
    | none => simp at h
    | some x => rfl

theorem validFrom_cons {P : FsParams} {v : Vol} {s : Step} {rest : List Step} :
    validFrom P v (s :: rest) ↔ stepOk P v s.op s.ok s.post = true ∧ validFrom P s.post rest := Iff.rfl

theorem validFrom_append {P : FsParams} {v : Vol} {t1 t2 : List Step} :
    validFrom P v (t1 ++ t2) ↔ validFrom P v t1 ∧ validFrom P (finalVol v t1) t2 := by
  induction t1 generalizing v with
  | nil => simp [validFrom]
  | cons s r ih => simp only [List.cons_append, validFrom_cons, finalVol_cons, ih, and_assoc]

theorem finalVol_append (v : Vol) (t1 t2 : List Step) :
    finalVol v (t1 ++ t2) = finalVol (finalVol v t1) t2 := by
  induction t1 generalizing v with
  | nil => rfl
  | cons s r ih => simp only [List.cons_append, finalVol_cons, ih]

/-- An invariant that every valid step preserves holds at the end of every valid history. -/
theorem history_induction {P : FsParams} (I : Vol → Prop)
    (step : ∀ pre op ok post, stepOk P pre op ok post = true → I pre → I post) :
    ∀ (tr : List Step) (v0 : Vol), validFrom P v0 tr → I v0 → I (finalVol v0 tr) := by
  intro tr
  induction tr with
  | nil => intro v0 _ h; exact h
  | cons s rest ih =>
    intro v0 hv h0
    rw [finalVol_cons]
    exact ih s.post hv.2 (step v0 s.op s.ok s.post hv.1 h0)

/-- the same, for an invariant whose preservation may depend on the step belonging to the history -/
theorem history_induction_mem {P : FsParams} (I : Vol → Prop) (tr : List Step)
    (step : ∀ s ∈ tr, ∀ pre, stepOk P pre s.op s.ok s.post = true → I pre → I s.post) :
    ∀ (v0 : Vol), validFrom P v0 tr → I v0 → I (finalVol v0 tr) := by
  induction tr with
  | nil => intro v0 _ h; exact h
  | cons s rest ih =>
    intro v0 hv h0
    rw [finalVol_cons]
    exact ih (fun t ht => step t (List.mem_cons_of_mem _ ht)) s.post hv.2
      (step s List.mem_cons_self v0 hv.1 h0)

end A2Verif

namespace A2Verif

instance validFromDecidable (P : FsParams) : (v : Vol) → (tr : List Step) → Decidable (validFrom P v tr)
  | _, [] => isTrue trivial
  | v, s :: rest =>
    match decEq (stepOk P v s.op s.ok s.post) true, validFromDecidable P s.post rest with
    | isTrue h1, isTrue h2 => isTrue ⟨h1, h2⟩
    | isFalse h1, _ => isFalse (fun h => h1 h.1)
    | _, isFalse h2 => isFalse (fun h => h2 h.2)

/-! ## a small concrete history used by the non-vacuity examples of `Props/C01 … C06, C19`

An 8-unit volume (units 0,1 system), file `A` on units 2,3.  History: store `B`; lock `A`; a refused
delete of the locked `A`; rename `B` to `C`; a refused store onto the existing name `C`; unlock `A`;
delete `A`. -/
namespace VolExample

def P0 : FsParams := { eofRule := id, keepsType := true, keepsAux := true, hasLock := true }

def fA : FileRec := { path := [65], ftype := 4, aux := 8192, eof := 4, chunks := [(0, [1, 2, 3, 4])], owned := [2, 3] }
def fAlocked : FileRec := { fA with access := 1, locked := true }
def fB : FileRec := { path := [66], ftype := 6, aux := 0, eof := 2, chunks := [(0, [9, 9, 0, 0])], owned := [4] }
def fC : FileRec := { fB with path := [67] }

def v0 : Vol := { lo := 0, hi := 8, sys := [0, 1], files := [fA], freeUnits := [4, 5, 6, 7] }
def v1 : Vol := { v0 with files := [fA, fB], freeUnits := [5, 6, 7] }
def v2 : Vol := { v1 with files := [fAlocked, fB] }
def v3 : Vol := { v1 with files := [fAlocked, fC] }
def v4 : Vol := { v1 with files := [fA, fC] }
def v5 : Vol := { v1 with files := [fC], freeUnits := [2, 3, 5, 6, 7] }

def putB : Step := ⟨.put [66] [(0, [9, 9])] 2 6 0, true, v1⟩
def lockA : Step := ⟨.lock [65], true, v2⟩
def delAref : Step := ⟨.delete [65], false, v2⟩
def renBC : Step := ⟨.rename [66] [67], true, v3⟩
def putCref : Step := ⟨.put [67] [(0, [5])] 1 6 0, false, v3⟩
def unlockA : Step := ⟨.unlock [65], true, v4⟩
def delA : Step := ⟨.delete [65], true, v5⟩

def hist : List Step := [putB, lockA, delAref, renBC, putCref, unlockA, delA]

theorem hist_valid : validFrom P0 v0 hist := by decide

theorem v0_wf : v0.wfB = true := by decide
theorem v0_noLeak : v0.noLeak = true := by decide

end VolExample
end A2Verif
