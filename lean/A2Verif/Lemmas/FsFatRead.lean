import A2Verif.Lemmas.FsFatInv
/-!
# The reader on the root directory, entry by entry

The model's `Directory::from_bytes` (`dirOfBytes`) and the reader's `activeEntries` cut the same 32-byte slices;
`dirEnts buf` is `act` of that entry list; the reading of the root is the `mapM` of the per-entry reading `rdEnt`.
Replacing one live entry by another one with the same status replaces exactly that entry's records
(`readFrom_replace`).  The reading depends on the image only through the data clusters (`readDirT_congr`).
-/
namespace A2Verif.FsFat
open A2Verif A2Verif.Fs.Fat A2Verif.Read.Fat A2Verif.Read.FatT

/-- the 32-byte slices of a buffer -/
def slices (buf : Bytes) (n off : Nat) : List Bytes := (List.range n).map (fun k => slice buf (off + 32 * k) 32)

theorem slices_succ (buf : Bytes) (n off : Nat) : slices buf (n + 1) off = slice buf off 32 :: slices buf n (off + 32) := by
  unfold slices
  rw [List.range_succ_eq_map]
  simp only [List.map_cons, List.map_map]
  congr 1
  apply List.map_congr_left
  intro k _
  simp only [Function.comp]
  congr 1
  omega

theorem chunkBy_eq_slices : ∀ (n : Nat) (buf : Bytes) (off : Nat), chunkBy 32 n (buf.drop off) = slices buf n off := by
  intro n
  induction n with
  | zero => intro _ _; rfl
  | succ n ih =>
    intro buf off
    rw [slices_succ, chunkBy]
    congr 1
    rw [List.drop_drop, ih]

theorem dirOfBytes_eq (buf : Bytes) : dirOfBytes buf = slices buf (buf.length / 32) 0 := by
  unfold dirOfBytes
  have := chunkBy_eq_slices (buf.length / 32) buf 0
  simpa using this

/-- the reader's selection on a list of entries -/
def act : List Bytes → List Bytes
  | [] => []
  | e :: es =>
    if e.getD 0 0 = 0 ∨ e.length < 32 then []
    else if e.getD 0 0 = 0xE5 ∨ e.getD 11 0 = 0x0F ∨ (e.getD 11 0 / 8) % 2 = 1 then act es
    else e :: act es

theorem activeEntries_eq : ∀ (n : Nat) (buf : Bytes) (off : Nat), activeEntries buf n off = act (slices buf n off) := by
  intro n
  induction n with
  | zero => intro _ _; rfl
  | succ n ih =>
    intro buf off
    rw [slices_succ, activeEntries, act]
    simp only [ih]

theorem dirEnts_eq (buf : Bytes) : dirEnts buf = (act (dirOfBytes buf)).filter (fun e => !(e.getD 0 0 = 46)) := by
  unfold dirEnts
  rw [activeEntries_eq, dirOfBytes_eq]

/-- an entry the reader passes over or stops at -/
def live (e : Bytes) : Prop := e.getD 0 0 ≠ 0 ∧ e.length = 32
/-- an entry the reader reports -/
def shown (e : Bytes) : Prop := live e ∧ e.getD 0 0 ≠ 0xE5 ∧ e.getD 11 0 ≠ 0x0F ∧ (e.getD 11 0 / 8) % 2 = 0 ∧ e.getD 0 0 ≠ 46

def keep (e : Bytes) : Bool := !(decide (e.getD 0 0 = 0xE5) || decide (e.getD 11 0 = 0x0F) || decide ((e.getD 11 0 / 8) % 2 = 1))

theorem act_append : ∀ (E1 X : List Bytes), (∀ x ∈ E1, live x) → act (E1 ++ X) = E1.filter keep ++ act X := by
  intro E1
  induction E1 with
  | nil => intro X _; rfl
  | cons a t ih =>
    intro X h
    have ha : live a := h a (by simp)
    have h1 : ¬ (a.getD 0 0 = 0 ∨ a.length < 32) := by unfold live at ha; omega
    rw [List.cons_append, act, if_neg h1, ih X (fun x hx => h x (by simp [hx])), List.filter_cons]
    by_cases hk : a.getD 0 0 = 0xE5 ∨ a.getD 11 0 = 0x0F ∨ (a.getD 11 0 / 8) % 2 = 1
    · have : keep a = false := by
        unfold keep
        rcases hk with h | h | h
        · rw [decide_eq_true h]; rfl
        · rw [decide_eq_true h]; simp only [Bool.or_true, Bool.true_or, Bool.not_true]
        · rw [decide_eq_true h]; simp only [Bool.or_true, Bool.not_true]
      rw [if_pos hk, this]
      simp only [Bool.false_eq_true, if_false]
    · have hk' := hk
      rw [not_or, not_or] at hk'
      have : keep a = true := by
        unfold keep
        rw [decide_eq_false hk'.1, decide_eq_false hk'.2.1, decide_eq_false hk'.2.2]; rfl
      rw [if_neg hk, this]
      simp only [if_true, List.cons_append]

theorem act_cons_shown (e : Bytes) (X : List Bytes) (h : shown e) : act (e :: X) = e :: act X := by
  obtain ⟨⟨h0, hl⟩, h1, h2, h3, _⟩ := h
  have a : ¬ (e.getD 0 0 = 0 ∨ e.length < 32) := by omega
  have b : ¬ (e.getD 0 0 = 0xE5 ∨ e.getD 11 0 = 0x0F ∨ (e.getD 11 0 / 8) % 2 = 1) := by omega
  rw [act, if_neg a, if_neg b]

/-- the reader's entries of a root that splits at a shown entry -/
theorem dirEnts_split {buf : Bytes} {E1 E2 : List Bytes} {e : Bytes} (hE : dirOfBytes buf = E1 ++ e :: E2)
    (h1 : ∀ x ∈ E1, live x) (he : shown e) :
    dirEnts buf = (E1.filter keep).filter (fun e => !(e.getD 0 0 = 46)) ++ e :: (act E2).filter (fun e => !(e.getD 0 0 = 46)) := by
  rw [dirEnts_eq, hE, act_append _ _ h1, act_cons_shown _ _ he, List.filter_append, List.filter_cons]
  have : (!(decide (e.getD 0 0 = 46))) = true := by rw [decide_eq_false he.2.2.2.2]; rfl
  rw [this]
  simp only [if_true]

/-! ## `mapM` in `Except` over a split list -/

theorem mapM_append_cons {ε α β : Type} (f : α → Except ε β) : ∀ (A1 : List α) (x : α) (A2 : List α) (res : List β),
    (A1 ++ x :: A2).mapM f = .ok res →
    ∃ R1 y R2, A1.mapM f = .ok R1 ∧ f x = .ok y ∧ A2.mapM f = .ok R2 ∧ res = R1 ++ y :: R2 := by
  intro A1
  induction A1 with
  | nil =>
    intro x A2 res h
    rw [List.nil_append, List.mapM_cons] at h
    cases hx : f x with
    | error e => rw [hx] at h; cases h
    | ok y =>
      rw [hx] at h
      cases h2 : A2.mapM f with
      | error e => rw [h2] at h; cases h
      | ok R2 =>
        rw [h2] at h
        injection h with h
        exact ⟨[], y, R2, rfl, rfl, rfl, h.symm⟩
  | cons a t ih =>
    intro x A2 res h
    rw [List.cons_append, List.mapM_cons] at h
    cases ha : f a with
    | error e => rw [ha] at h; cases h
    | ok b =>
      rw [ha] at h
      cases ht : (t ++ x :: A2).mapM f with
      | error e => rw [ht] at h; cases h
      | ok rt =>
        rw [ht] at h
        injection h with h
        obtain ⟨R1, y, R2, e1, e2, e3, e4⟩ := ih x A2 rt ht
        refine ⟨b :: R1, y, R2, ?_, e2, e3, ?_⟩
        · rw [List.mapM_cons, ha, e1]; rfl
        · rw [← h, e4]; rfl

theorem mapM_append_cons_ok {ε α β : Type} (f : α → Except ε β) : ∀ (A1 : List α) (x : α) (A2 : List α) (R1 : List β) (y : β) (R2 : List β),
    A1.mapM f = .ok R1 → f x = .ok y → A2.mapM f = .ok R2 → (A1 ++ x :: A2).mapM f = .ok (R1 ++ y :: R2) := by
  intro A1
  induction A1 with
  | nil =>
    intro x A2 R1 y R2 h1 h2 h3
    injection h1 with h1
    subst h1
    rw [List.nil_append, List.mapM_cons, h2, h3]; rfl
  | cons a t ih =>
    intro x A2 R1 y R2 h1 h2 h3
    rw [List.mapM_cons] at h1
    cases ha : f a with
    | error e => rw [ha] at h1; cases h1
    | ok b =>
      rw [ha] at h1
      cases ht : t.mapM f with
      | error e => rw [ht] at h1; cases h1
      | ok rt =>
        rw [ht] at h1
        injection h1 with h1
        subst h1
        rw [List.cons_append, List.mapM_cons, ha, ih x A2 rt y R2 ht h2 h3]; rfl

theorem mapM_append_ok {ε α β : Type} (f : α → Except ε β) : ∀ (A1 A2 : List α) (R1 R2 : List β),
    A1.mapM f = .ok R1 → A2.mapM f = .ok R2 → (A1 ++ A2).mapM f = .ok (R1 ++ R2) := by
  intro A1
  induction A1 with
  | nil =>
    intro A2 R1 R2 h1 h2
    injection h1 with h1
    subst h1
    exact h2
  | cons a t ih =>
    intro A2 R1 R2 h1 h2
    rw [List.mapM_cons] at h1
    cases ha : f a with
    | error e => rw [ha] at h1; cases h1
    | ok b =>
      rw [ha] at h1
      cases ht : t.mapM f with
      | error e => rw [ht] at h1; cases h1
      | ok rt =>
        rw [ht] at h1
        injection h1 with h1
        subst h1
        rw [List.cons_append, List.mapM_cons, ha, ih A2 rt R2 ht h2]; rfl

theorem act_cons_free (e : Bytes) (X : List Bytes) (h5 : e.getD 0 0 = 0xE5) (hl : e.length = 32) : act (e :: X) = act X := by
  have a : ¬ (e.getD 0 0 = 0 ∨ e.length < 32) := by omega
  rw [act, if_neg a, if_pos (Or.inl h5)]

/-! ## the per-entry reading -/

/-- what the reader makes of one directory entry (the body of the loop of `readDirT`) -/
def rdEnt (r : Raw) (b : Read.Fat.Bpb) (fat : Array Nat) (f16 : Bool) (hi fuel : Nat) (pfx : Bytes) (e : Bytes) :
    Except String (List FileRec) :=
  let path := entPath pfx e
  let attr := e.getD 11 0
  if (attr / 16) % 2 = 1 then do
    let cl ← chain fat f16 hi (hi + 1) (le16 e 26) []
    let datas ← cl.mapM (clusterData r b)
    let sub ← readDirT r b fat f16 hi fuel datas.flatten path
    pure (({ path := path, isDir := true, access := attr, owned := cl } : FileRec) :: sub)
  else do
    let f ← fileRec r b fat f16 hi path e
    pure [f]

theorem readDirT_succ (r : Raw) (b : Read.Fat.Bpb) (fat : Array Nat) (f16 : Bool) (hi fuel : Nat) (buf pfx : Bytes) :
    readDirT r b fat f16 hi (fuel + 1) buf pfx =
      (do let recs ← (dirEnts buf).mapM (rdEnt r b fat f16 hi fuel pfx); pure recs.flatten) := by
  rw [readDirT]
  rfl

theorem mapM_congr' {ε α β : Type} (f g : α → Except ε β) : ∀ (l : List α), (∀ x ∈ l, f x = g x) → l.mapM f = l.mapM g := by
  intro l
  induction l with
  | nil => intro _; rfl
  | cons a t ih =>
    intro h
    rw [List.mapM_cons, List.mapM_cons, h a (by simp), ih (fun x hx => h x (by simp [hx]))]

/-- the reading depends on the image only through the data clusters -/
theorem readDirT_congr {r r' : Raw} {b : Read.Fat.Bpb} (h : clusterData r b = clusterData r' b) (fat : Array Nat) (f16 : Bool) (hi : Nat) :
    ∀ (fuel : Nat) (buf pfx : Bytes), readDirT r b fat f16 hi fuel buf pfx = readDirT r' b fat f16 hi fuel buf pfx := by
  intro fuel
  induction fuel with
  | zero => intro _ _; rfl
  | succ n ih =>
    intro buf pfx
    rw [readDirT_succ, readDirT_succ]
    congr 1
    apply mapM_congr'
    intro e _
    unfold rdEnt fileRec
    simp only [h, ih]

theorem clusterData_congr {r r' : Raw} {b : Read.Fat.Bpb} (h : ∀ i, firstData b ≤ i → r.units[i]? = r'.units[i]?) :
    clusterData r b = clusterData r' b := by
  funext c
  unfold clusterData secs
  congr 1
  apply mapM_congr'
  intro k _
  unfold Raw.unit
  rw [h _ (by omega)]

/-- the root reading of an image whose root splits at a shown entry, and what it becomes when that entry is replaced -/
theorem readFrom_split {d : Disk} {f : Array Nat} {buf : Bytes} {E1 E2 : List Bytes} {e : Bytes} {v : Vol}
    (hE : dirOfBytes buf = E1 ++ e :: E2) (h1 : ∀ x ∈ E1, live x) (he : shown e) (h : readFrom d f buf = .ok v) :
    ∃ (R1 : List (List FileRec)) (y : List FileRec) (R2 : List (List FileRec)),
      rdEnt d.raw (rbpb d.bpb) f false (hiOf d.bpb) 32 [] e = .ok y ∧ v.files = R1.flatten ++ y ++ R2.flatten ∧
      v.lo = 2 ∧ v.hi = hiOf d.bpb ∧ v.sys = [] ∧ v.freeUnits = freeUnitsOf d.bpb f ∧
      (∀ (buf' : Bytes) (e' : Bytes) (y' : List FileRec), dirOfBytes buf' = E1 ++ e' :: E2 → shown e' →
        rdEnt d.raw (rbpb d.bpb) f false (hiOf d.bpb) 32 [] e' = .ok y' →
        readFrom d f buf' = .ok { v with files := R1.flatten ++ y' ++ R2.flatten }) ∧
      (∀ (buf' : Bytes) (e' : Bytes), dirOfBytes buf' = E1 ++ e' :: E2 → e'.getD 0 0 = 0xE5 → e'.length = 32 →
        readFrom d f buf' = .ok { v with files := R1.flatten ++ R2.flatten }) := by
  unfold readFrom at h
  rw [readDirT_succ, dirEnts_split hE h1 he] at h
  cases hm : (((E1.filter keep).filter (fun e => !(e.getD 0 0 = 46))) ++ e :: (act E2).filter (fun e => !(e.getD 0 0 = 46))).mapM
      (rdEnt d.raw (rbpb d.bpb) f false (hiOf d.bpb) 32 []) with
  | error er => rw [hm] at h; cases h
  | ok recs =>
    rw [hm] at h
    obtain ⟨R1, y, R2, e1, e2, e3, e4⟩ := mapM_append_cons _ _ _ _ _ hm
    have hv : v = { lo := 2, hi := hiOf d.bpb, sys := [], files := recs.flatten, freeUnits := freeUnitsOf d.bpb f } := by
      simp only [bind, Except.bind, pure, Except.pure, Except.map] at h
      injection h with h
      exact h.symm
    refine ⟨R1, y, R2, e2, ?_, by rw [hv], by rw [hv], by rw [hv], by rw [hv], ?_, ?_⟩
    · rw [hv, e4]; simp
    · intro buf' e' y' hE' he' hy'
      unfold readFrom
      rw [readDirT_succ, dirEnts_split hE' h1 he', mapM_append_cons_ok _ _ _ _ _ _ _ e1 hy' e3]
      simp only [bind, Except.bind, pure, Except.pure, Except.map]
      rw [hv]
      simp
    · intro buf' e' hE' h5 hl
      unfold readFrom
      rw [readDirT_succ, dirEnts_eq, hE', act_append _ _ h1, act_cons_free _ _ h5 hl, List.filter_append,
        mapM_append_ok _ _ _ _ _ e1 e3]
      simp only [bind, Except.bind, pure, Except.pure, Except.map]
      rw [hv]
      simp

end A2Verif.FsFat
