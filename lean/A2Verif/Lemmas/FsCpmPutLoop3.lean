import A2Verif.Lemmas.FsCpmPutLoop2
/-!
# Successful `put`: the inner write loop (`slotLoop`) maintains `SInv`
-/
namespace A2Verif.FsCpm
open A2Verif.Fs.Cpm
open A2Verif.Read.Cpm (Dpb fileKey extNum entryPtrs pathOf slots)

/-- the state of the write loops inside physical extent `x` after `k0` of its slots have been visited -/
structure SInv (d : Dpb) (r : Raw) (f : FImg) (user : Nat) (base typ : Bytes) (x k0 : Nat) (s : WState) : Prop where
  w : WInv d (dirOf d r) r s
  same : ∀ (j : Nat) (e0 e : Bytes), (dirOf d r)[j]? = some e0 → s.dir[j]? = some e → isExtent e = false → e = e0
  closed : ∀ (j : Nat) (e0 e : Bytes), (dirOf d r)[j]? = some e0 → isExtent e0 = false → s.dir[j]? = some e → isExtent e = true →
    (s.fx.isSome = true ∧ j = s.ptr) ∨
    (32 ≤ status e0 ∧ Hdr user base typ e ∧ ∃ x', x' < x ∧ XEnt d (dirOf d r) s.r f x' e)
  xinj : ∀ (i j : Nat) (e0i e0j ei ej : Bytes), (dirOf d r)[i]? = some e0i → isExtent e0i = false → (dirOf d r)[j]? = some e0j →
    isExtent e0j = false → s.dir[i]? = some ei → s.dir[j]? = some ej → isExtent ei = true → isExtent ej = true →
    ¬ (s.fx.isSome = true ∧ i = s.ptr) → ¬ (s.fx.isSome = true ∧ j = s.ptr) →
    extNum ei / (d.exm + 1) = extNum ej / (d.exm + 1) → i = j
  opn : ∀ fx, s.fx = some fx → s.dir[s.ptr]? = some fx ∧
    (∃ e0, (dirOf d r)[s.ptr]? = some e0 ∧ isExtent e0 = false ∧ 32 ≤ status e0) ∧ Hdr user base typ fx ∧
    (∀ k, k < slots d → k < k0 → SlotOk d (dirOf d r) s.r f x fx k) ∧
    (∀ k, k < slots d → k0 ≤ k → (entryPtrs d fx).getD k 0 = 0) ∧
    ∃ k1, k1 < k0 ∧ f.chunks.lookup (x * slots d + k1) ≠ none ∧ s.lxUsed = k1 / putSpl d + 1 ∧
      ∀ k, k1 < k → k < k0 → f.chunks.lookup (x * slots d + k) = none
  nopn : s.fx = none → ∀ k, k < k0 → f.chunks.lookup (x * slots d + k) = none
  dist : PtrsDistinct d s.dir
  cover : ∀ (g : Nat) (c : Bytes), f.chunks.lookup g = some c → g / slots d < x → ∃ (j : Nat) (e0 e : Bytes),
    (dirOf d r)[j]? = some e0 ∧ isExtent e0 = false ∧ s.dir[j]? = some e ∧ isExtent e = true ∧
    ¬ (s.fx.isSome = true ∧ j = s.ptr) ∧ extNum e / (d.exm + 1) = g / slots d
  crt : s.created = 0 → ∀ (g : Nat) (c : Bytes), f.chunks.lookup g = some c → ¬ g / slots d < x

theorem free_not_extent {e : Bytes} (h : isExtentFree e = true) : isExtent e = false := by
  have := free_status h
  unfold isExtent
  simp only [USER_END, decide_eq_false_iff_not]
  omega

/-- a slot without a chunk -/
theorem sinv_skip {d : Dpb} {r : Raw} {f : FImg} {user : Nat} {base typ : Bytes} {x k0 : Nat} {s : WState}
    (hs : SInv d r f user base typ x k0 s) (hS : k0 < slots d) (hch : f.chunks.lookup (x * slots d + k0) = none) :
    SInv d r f user base typ x (k0 + 1) s := by
  refine ⟨hs.w, hs.same, hs.closed, hs.xinj, ?_, ?_, hs.dist, hs.cover, hs.crt⟩
  · intro fx hfx
    obtain ⟨a, b, c, d1, d2, k1, e1, e2, e3, e4⟩ := hs.opn fx hfx
    refine ⟨a, b, c, ?_, fun k hk hk0 => d2 k hk (by omega), k1, by omega, e2, e3, ?_⟩
    · intro k hk hk0
      by_cases ck : k = k0
      · subst ck
        exact Or.inl ⟨hch, d2 k hk (Nat.le_refl _)⟩
      · exact d1 k hk (by omega)
    · intro k h1 h2
      by_cases ck : k = k0
      · subst ck; exact hch
      · exact e4 k h1 (by omega)
  · intro hfx k hk
    by_cases ck : k = k0
    · subst ck; exact hch
    · exact hs.nopn hfx k (by omega)

/-- a slot with a chunk: a block is allocated, the pointer set, the chunk written -/
theorem sinv_alloc {d : Dpb} {r : Raw} {f : FImg} {user : Nat} {base typ : Bytes} {x k0 : Nat} {s : WState}
    (ho : DpbOk d) (hr : ResvOk d) (hu : user < 16)
    (hs : SInv d r f user base typ x k0 s) (hS : k0 < slots d) {chunk : Bytes}
    (hch : f.chunks.lookup (x * slots d + k0) = some chunk) (hcl : chunk.length ≤ blockSize d)
    {b : Nat} (hb : getAvailableBlock d s.dir = some b) {ptr : Nat} {fx : Bytes}
    (hcase : (s.fx = some fx ∧ ptr = s.ptr) ∨
      (s.fx = none ∧ Hdr user base typ fx ∧ (∀ i, 12 ≤ i → fx.getD i 0 = 0) ∧ ∃ e, s.dir[ptr]? = some e ∧ isExtentFree e = true))
    {fx' : Bytes} (hl' : fx'.length = 32) (hhead : ∀ i, i < 16 → fx'.getD i 0 = fx.getD i 0)
    (hptr : ∀ k, k < slots d → (entryPtrs d fx').getD k 0 = if k = k0 then b else (entryPtrs d fx).getD k 0)
    (hpl : ptr < s.dir.length) {r2 : Raw} (hw : writeBlock d s.r chunk b 0 = .ok r2) (entry1 : Option Nat) (lxu : Nat)
    (hlxu : lxu = k0 / putSpl d + 1) :
    SInv d r f user base typ x (k0 + 1)
      { s with fx := some fx', ptr := ptr, entry1 := entry1, lxUsed := lxu, dir := s.dir.set ptr fx', r := r2 } := by
  obtain ⟨b1, b2, b3⟩ := getAvailableBlock_spec hb
  have hb0 : b ≠ 0 := by
    intro e; rw [e, resv_zero ho hr] at b2; cases b2
  have hnew : NewPtr d (dirOf d r) b := ⟨b1, b2, fun hm => b3 (usedPtrs_mono hs.w.keeps hm)⟩
  obtain ⟨hw1, hw2⟩ := writeBlock_spec hcl hw
  have hdlen : s.dir.length = (dirOf d r).length := hs.w.keeps.1
  -- what is known about `fx` and the entry at `ptr` in both cases
  have hfxH : Hdr user base typ fx := by
    rcases hcase with ⟨h1, _⟩ | ⟨_, h2, _⟩
    · exact (hs.opn fx h1).2.2.1
    · exact h2
  have hfxP : ∀ k, k < slots d → (entryPtrs d fx).getD k 0 = 0 ∨
      (s.dir[ptr]? = some fx ∧ isExtent fx = true) := by
    intro k hk
    rcases hcase with ⟨h1, h2⟩ | ⟨_, _, h3, _⟩
    · right; rw [h2]; exact ⟨(hs.opn fx h1).1, hdr_isExtent hu hfxH⟩
    · left; exact zero_tail_ptrs h3 hk
  have hfxNe : ∀ k, k < slots d → (entryPtrs d fx).getD k 0 = 0 ∨ (entryPtrs d fx).getD k 0 ≠ b := by
    intro k hk
    rcases hfxP k hk with h0 | ⟨h1, h2⟩
    · exact Or.inl h0
    · right
      intro e
      apply b3
      rw [← e]
      exact mem_usedPtrs h1 h2 hfxH.len hk
  have he0 : ∃ e0, (dirOf d r)[ptr]? = some e0 ∧ isExtent e0 = false ∧ 32 ≤ status e0 := by
    rcases hcase with ⟨h1, h2⟩ | ⟨_, _, _, e, he, hfree⟩
    · rw [h2]; exact (hs.opn fx h1).2.1
    · have hlt : ptr < (dirOf d r).length := by rw [← hdlen]; exact hpl
      have hne := free_not_extent hfree
      have := hs.same ptr _ e (List.getElem?_eq_getElem hlt) he hne
      refine ⟨_, List.getElem?_eq_getElem hlt, ?_, ?_⟩
      · rw [← this]; exact hne
      · rw [← this]; have := free_status hfree; omega
  have hfx'H : Hdr user base typ fx' := hdr_congr hl' (fun i hi => hhead i (by omega)) hfxH
  have hfx'X : isExtent fx' = true := hdr_isExtent hu hfx'H
  -- entries other than `ptr` that are file entries of the old working directory are not the open one
  have hnotopen : ∀ j, j ≠ ptr → ∀ e, s.dir[j]? = some e → isExtent e = true → ¬ (s.fx.isSome = true ∧ j = s.ptr) := by
    intro j hj e he hx
    rintro ⟨h1, h2⟩
    rcases hcase with ⟨_, c2⟩ | ⟨c1, _⟩
    · exact hj (by rw [h2, c2])
    · rw [c1] at h1; cases h1
  have hstab : ∀ j, j ≠ ptr → ∀ e, s.dir[j]? = some e → isExtent e = true →
      ∀ k, k < slots d → (entryPtrs d e).getD k 0 = 0 ∨ (entryPtrs d e).getD k 0 ≠ b := by
    intro j _ e he hx k hk
    right
    intro e'
    apply b3
    rw [← e']
    exact mem_usedPtrs he hx (hs.w.len e (List.mem_of_getElem? he)) hk
  refine ⟨?_, ?_, ?_, ?_, ?_, ?_, ?_, ?_, ?_⟩
  · -- WInv
    obtain ⟨e0, h1, h2, _⟩ := he0
    have hp : ∀ e, (dirOf d r)[ptr]? = some e → isExtent e = false := by
      intro e he; rw [h1] at he; cases he; exact h2
    refine ⟨frame_write hs.w.frame hs.w.keeps hb hw, keeps_set hs.w.keeps hp, len_set hs.w.len hl', ?_⟩
    intro fy hfy
    simp only [Option.some.injEq] at hfy
    subst hfy
    exact ⟨hl', by simp only [List.length_set]; exact hpl, hp⟩
  · intro j e0 e h0 hj hx
    by_cases c : j = ptr
    · exfalso
      rw [c] at hj
      simp only [List.getElem?_set_self hpl, Option.some.injEq] at hj
      rw [← hj, hfx'X] at hx; cases hx
    · simp only [List.getElem?_set_ne (fun e' => c e'.symm)] at hj
      exact hs.same j e0 e h0 hj hx
  · intro j e0 e h0 hn hj hx
    by_cases c : j = ptr
    · exact Or.inl ⟨rfl, c⟩
    · simp only [List.getElem?_set_ne (fun e' => c e'.symm)] at hj
      rcases hs.closed j e0 e h0 hn hj hx with h1 | ⟨h1, h2, x', h3, h4⟩
      · exact absurd h1 (hnotopen j c e hj hx)
      · exact Or.inr ⟨h1, h2, x', h3, xent_stable (hstab j c e hj hx) hw2 h4⟩
  · intro i j e0i e0j ei ej a1 a2 a3 a4 hi hj xi xj ni nj hph
    have ci : i ≠ ptr := fun c => ni ⟨rfl, c⟩
    have cj : j ≠ ptr := fun c => nj ⟨rfl, c⟩
    simp only [List.getElem?_set_ne (fun e' => ci e'.symm)] at hi
    simp only [List.getElem?_set_ne (fun e' => cj e'.symm)] at hj
    exact hs.xinj i j e0i e0j ei ej a1 a2 a3 a4 hi hj xi xj (hnotopen i ci ei hi xi) (hnotopen j cj ej hj xj) hph
  · intro fy hfy
    simp only [Option.some.injEq] at hfy
    subst hfy
    refine ⟨by simp only [List.getElem?_set_self hpl], he0, hfx'H, ?_, ?_, k0, by omega, by rw [hch]; simp, hlxu, ?_⟩
    · intro k hk hk0
      by_cases ck : k = k0
      · subst ck
        have : (entryPtrs d fx').getD k 0 = b := by rw [hptr k hk, if_pos rfl]
        exact Or.inr ⟨chunk, hch, by rw [this]; exact hb0, by rw [this]; exact hnew, by rw [this]; exact hw1⟩
      · have hpk : (entryPtrs d fx').getD k 0 = (entryPtrs d fx).getD k 0 := by rw [hptr k hk, if_neg ck]
        have hold : SlotOk d (dirOf d r) s.r f x fx k := by
          rcases hcase with ⟨h1, _⟩ | ⟨h1, _, h3, _⟩
          · exact (hs.opn fx h1).2.2.2.1 k hk (by omega)
          · exact Or.inl ⟨hs.nopn h1 k (by omega), zero_tail_ptrs (d := d) h3 hk⟩
        have := slotOk_stable (hfxNe k hk) hw2 hold
        unfold SlotOk at this ⊢
        rw [hpk]
        exact this
    · intro k hk hk0
      rw [hptr k hk, if_neg (by omega)]
      rcases hcase with ⟨h1, _⟩ | ⟨_, _, h3, _⟩
      · exact (hs.opn fx h1).2.2.2.2.1 k hk (by omega)
      · exact zero_tail_ptrs h3 hk
    · intro k h1 h2; omega
  · intro hfy; cases hfy
  · apply dist_set hs.dist hs.w.len (k0 := k0) (b := b)
    · intro k hk hne
      rw [hptr k hk, if_neg hne]
      rcases hfxP k hk with h0 | ⟨h1, h2⟩
      · exact Or.inl h0
      · exact Or.inr ⟨fx, h1, h2, rfl⟩
    · rw [hptr k0 hS, if_pos rfl]
    · exact b3
  · intro g c hg hlt
    obtain ⟨j, e0, e, a1, a2, a3, a4, a5, a6⟩ := hs.cover g c hg hlt
    have cj : j ≠ ptr := by
      intro cj
      rcases hcase with ⟨h1, h2⟩ | ⟨_, _, _, ef, hef, hfree⟩
      · exact a5 ⟨by rw [h1]; rfl, by rw [cj, h2]⟩
      · rw [cj, hef] at a3; cases a3
        rw [free_not_extent hfree] at a4; cases a4
    refine ⟨j, e0, e, a1, a2, by simp only [List.getElem?_set_ne (fun e' => cj e'.symm)]; exact a3, a4, fun h => cj h.2, a6⟩
  · exact hs.crt

end A2Verif.FsCpm
