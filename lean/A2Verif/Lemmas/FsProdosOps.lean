import A2Verif.Lemmas.FsProdosPut
import A2Verif.Lemmas.FsProdosDelete
/-!
# `delete` of a file: the exact image (`delete_file_spec`)

After `deallocate_file_blocks` (whose effect on the bitmap is `sapling_dealloc_frees_owned` /
`prodos_seedling_delete_frees_owned`) `delete` zeroes the storage/length byte of the entry and lowers the file count of
the directory.  Proved for an entry that sits in the key block of its directory (`get_key_directory` then returns at
once); an entry in a later block of the chain needs the walk along the `prev` links, not done.
-/
namespace A2Verif.FsProdos
open A2Verif.Fs.Prodos

theorem decFileCount_ok (k : DKind) (bytes : Bytes) (hk : k ≠ DKind.entry) (hc : le16 bytes (4 + 33) ≠ 0) :
    Dir.decFileCount { kind := k, bytes := bytes } =
      some { kind := k, bytes := splice bytes (4 + 33) (u16le (le16 bytes (4 + 33) - 1)) } := by
  unfold Dir.decFileCount Dir.fileCount
  cases k with
  | entry => exact absurd rfl hk
  | volKey => simp only; rw [if_neg hc]
  | subKey => simp only; rw [if_neg hc]

/-- a directory block after `delete_entry(idx)` and the write-back -/
def blockEntryDeleted (blk : Bytes) (idx : Nat) : Bytes :=
  quantize ((splice (blk.take dirLen) (Dir.entryOff idx) [0]).take blockSize)

/-- a key block after `dec_file_count()` and the write-back -/
def keyBlockDec (kblk : Bytes) : Bytes :=
  quantize ((splice (kblk.take dirLen) (4 + 33) (u16le (le16 (kblk.take dirLen) (4 + 33) - 1))).take blockSize)

theorem blockEntryDeleted_head (blk : Bytes) (idx k : Nat) (hk : k < 4) (hidx : 1 ≤ idx ∧ idx ≤ 13) (hlen : blk.length = 512) :
    (blockEntryDeleted blk idx).getD k 0 = blk.getD k 0 := by
  unfold blockEntryDeleted
  have hoff : 4 ≤ Dir.entryOff idx ∧ Dir.entryOff idx ≤ 472 := by unfold Dir.entryOff entryLen; omega
  have hl1 : (blk.take dirLen).length = 511 := by simp [hlen, dirLen]
  have hsl : k < (splice (blk.take dirLen) (Dir.entryOff idx) [0]).length := by
    unfold splice; simp only [List.length_append, List.length_take, hl1]; omega
  rw [getD_quantize_take _ k hsl (by unfold blockSize; omega)]
  rw [getD_splice_outside _ _ _ k (Or.inl (by omega)) (by rw [hl1]; omega)]
  simp only [List.getD_eq_getElem?_getD]
  rw [List.getElem?_take_of_lt (by unfold dirLen; omega)]

theorem readEntry_plain (d : Disk) (loc : Loc) (blk : Bytes) (hnb : d.bitmapBlocks.contains loc.block = false)
    (hblk : d.raw.units[loc.block]? = some blk) (hidx : IdxOkFor loc blk) :
    readEntry loc d = (.ok (slice (blk.take dirLen) (Dir.entryOff loc.idx) entryLen), d) := by
  unfold readEntry
  simp only [bind_def]
  rw [bind_ok _ _ d d _ (getDirectory_plain d loc.block blk hnb hblk)]
  unfold IdxOkFor at hidx
  unfold Dir.getEntry
  rw [if_pos hidx]; rfl

/-- `get_key_directory(b)` when block `b` is itself a key block (`prev = 0`) -/
theorem getKeyDirectory_self (d : Disk) (b : Nat) (blk : Bytes) (hnb : d.bitmapBlocks.contains b = false)
    (hblk : d.raw.units[b]? = some blk) (hlen : 2 ≤ blk.length) (hprev : blk.getD 0 0 = 0 ∧ blk.getD 1 0 = 0) :
    getKeyDirectory b d = (.ok (b, { kind := kindOf b blk, bytes := blk.take dirLen }), d) := by
  unfold getKeyDirectory keyDirLoop
  simp only [bind_def]
  rw [bind_ok _ _ d d _ (getDirectory_plain d b blk hnb hblk)]
  have hp : Dir.prev { kind := kindOf b blk, bytes := blk.take dirLen } = 0 := by
    unfold Dir.prev le16
    simp only [List.getD_eq_getElem?_getD] at *
    rw [List.getElem?_take_of_lt (by unfold dirLen; omega), List.getElem?_take_of_lt (by unfold dirLen; omega)]
    rw [hprev.1, hprev.2]
  simp only [hp, ↓reduceIte]
  rfl

/-- **`delete(path)` of a file whose entry sits in the key block of its directory**: after the file's blocks have been
released (`deallocate_file_blocks`, see `prodos_seedling_delete_frees_owned`, `prodos_sapling_delete_frees_owned`), the
entry's storage/length byte is zeroed and the directory's file count lowered; nothing else changes -/
theorem delete_file_spec (d dA : Disk) (bufA : Array Nat) (path : Bytes) (loc : Loc) (blk : Bytes)
    (hfind : findFile path d = (.ok loc, d))
    (hnb : d.bitmapBlocks.contains loc.block = false) (hblk : d.raw.units[loc.block]? = some blk) (hlen : blk.length = 512)
    (hidx : IdxOkFor loc blk)
    (hdest : Ent.access (slice (blk.take dirLen) (Dir.entryOff loc.idx) entryLen) &&& 0x80 ≠ 0)
    (hdea : deallocFileBlocks (slice (blk.take dirLen) (Dir.entryOff loc.idx) entryLen) d = (.ok (), dA))
    (hAbb : dA.bitmapBlocks = d.bitmapBlocks) (hAopen : dA.bitmap = some bufA) (hAblk : dA.raw.units[loc.block]? = some blk)
    (hcov : loc.block / 8 < bufA.size)
    (hprev : blk.getD 0 0 = 0 ∧ blk.getD 1 0 = 0)
    (hcount : le16 ((blockEntryDeleted blk loc.idx).take dirLen) (4 + 33) ≠ 0) :
    delete path {} d = (.ok (), { dA with
      raw := setUnit (setUnit dA.raw loc.block (blockEntryDeleted blk loc.idx)) loc.block (keyBlockDec (blockEntryDeleted blk loc.idx)),
      bitmap := some (clearBit (clearBit bufA loc.block) loc.block) }) := by
  have hsz : loc.block < dA.raw.units.size := by
    rcases Nat.lt_or_ge loc.block dA.raw.units.size with h | h
    · exact h
    · rw [Array.getElem?_eq_none h] at hAblk; cases hAblk
  have hnbA : dA.bitmapBlocks.contains loc.block = false := by rw [hAbb]; exact hnb
  have hrng := idxOk_range loc blk hidx
  unfold delete
  simp only [bind_def]
  rw [bind_ok _ _ d d _ (attempt_ok _ d d loc hfind)]
  try simp only []
  rw [bind_ok _ _ d d _ (readEntry_plain d loc blk hnb hblk hidx)]
  try simp only []
  rw [if_neg hdest, bind_ok _ _ d dA _ hdea]
  try simp only []
  rw [bind_ok _ _ dA dA _ (getDirectory_plain dA loc.block blk hnbA hAblk)]
  have hdel : Dir.deleteEntry { kind := kindOf loc.block blk, bytes := blk.take dirLen } loc.idx =
      some { kind := kindOf loc.block blk, bytes := splice (blk.take dirLen) (Dir.entryOff loc.idx) [0] } := by
    have h := hidx
    unfold IdxOkFor at h
    unfold Dir.deleteEntry; rw [if_pos h]
  rw [hdel, bind_ok _ _ dA dA _ (ofOption_some _ dA)]
  try simp only []
  have hw1 : writeBlock (splice (blk.take dirLen) (Dir.entryOff loc.idx) [0]) loc.block 0 dA =
      (.ok (), { dA with raw := setUnit dA.raw loc.block (blockEntryDeleted blk loc.idx), bitmap := some (clearBit bufA loc.block) }) :=
    writeBlock_plain dA bufA _ loc.block hnbA hsz hAopen hcov
  rw [bind_ok _ _ dA _ _ hw1]
  -- the key directory is the block just written
  have hbd0 := blockEntryDeleted_head blk loc.idx 0 (by omega) hrng hlen
  have hbd1 := blockEntryDeleted_head blk loc.idx 1 (by omega) hrng hlen
  have hbdlen : (blockEntryDeleted blk loc.idx).length = 512 := by
    unfold blockEntryDeleted quantize blockSize
    simp only [List.length_append, List.length_take, List.length_replicate]; omega
  have hkd := getKeyDirectory_self
    { dA with raw := setUnit dA.raw loc.block (blockEntryDeleted blk loc.idx), bitmap := some (clearBit bufA loc.block) }
    loc.block (blockEntryDeleted blk loc.idx) hnbA (setUnit_self _ _ _ hsz) (by rw [hbdlen]; omega)
    ⟨by rw [hbd0]; exact hprev.1, by rw [hbd1]; exact hprev.2⟩
  rw [bind_ok _ _ _ _ _ hkd]
  try simp only []
  have hkind : kindOf loc.block (blockEntryDeleted blk loc.idx) ≠ DKind.entry := by
    unfold kindOf
    rw [hbd0, hbd1, hprev.1, hprev.2]
    split <;> simp
  rw [decFileCount_ok _ _ hkind hcount, bind_ok _ _ _ _ _ (ofOption_some _ _)]
  try simp only []
  exact writeBlock_plain
    { dA with raw := setUnit dA.raw loc.block (blockEntryDeleted blk loc.idx), bitmap := some (clearBit bufA loc.block) }
    (clearBit bufA loc.block) _ loc.block hnbA (by rw [setUnit_size]; exact hsz) rfl (by rw [size_clearBit]; exact hcov)
end A2Verif.FsProdos
