import A2Verif.Lemmas.FsCpmRename3
/-!
# `put` of the concrete CP/M model: the write loops touch free blocks only

The loops of `write_file` write data into blocks `get_available_block` hands out and keep the directory in a
buffer.  Whatever happens — success or a failure in the middle — the image differs from the one before at most in
blocks no file entry pointed to and which are not reserved; the directory blocks are written by the final
`save_directory` only.  Consequence: a `put` that reports an error leaves the reading as it was.
-/
namespace A2Verif.FsCpm
open A2Verif.Fs.Cpm
open A2Verif.Read.Cpm (Dpb fileKey extNum entryPtrs pathOf slots)

/-- the reserved-block test of the model agrees with the reader's directory block list (checked per DPB by `decide`) -/
def ResvOk (d : Dpb) : Prop := ∀ b, b < d.dsm + 1 → (isReserved d b = true ↔ b ∈ Read.Cpm.dirBlocks d)

/-- the image `r'` agrees with `r` on every block that is reserved or referenced by the directory `dir` -/
def Frame (d : Dpb) (dir : Dir) (r r' : Raw) : Prop :=
  r'.units.size = r.units.size ∧ (∀ (i : Nat) (b : Bytes), r'.units[i]? = some b → b.length = blockSize d) ∧
  ∀ (i : Nat), (isReserved d i = true ∨ i ∈ usedPtrs d dir) → r'.units[i]? = r.units[i]?

theorem Frame.refl {d : Dpb} {dir : Dir} {r : Raw} (hs : Shape d r) : Frame d dir r r := ⟨rfl, hs.len, fun _ _ => rfl⟩

/-- the working directory `sdir` still holds every file entry of `dir` -/
def KeepsFiles (dir sdir : Dir) : Prop :=
  sdir.length = dir.length ∧ ∀ (j : Nat) (e : Bytes), dir[j]? = some e → isExtent e = true → sdir[j]? = some e

theorem usedPtrs_mono {d : Dpb} {dir sdir : Dir} (h : KeepsFiles dir sdir) {p : Nat} (hp : p ∈ usedPtrs d dir) : p ∈ usedPtrs d sdir := by
  unfold usedPtrs at hp ⊢
  rw [List.mem_flatMap] at hp ⊢
  obtain ⟨e, he, hpe⟩ := hp
  by_cases c : isExtent e = true
  · obtain ⟨j, hj, ej⟩ := List.mem_iff_getElem.1 he
    have hgj : dir[j]? = some e := by rw [List.getElem?_eq_getElem hj, ej]
    exact ⟨e, List.mem_of_getElem? (h.2 j e hgj c), hpe⟩
  · rw [if_neg c] at hpe; cases hpe

theorem getAvailableBlock_spec {d : Dpb} {sdir : Dir} {b : Nat} (h : getAvailableBlock d sdir = some b) :
    b < userBlocks d ∧ isReserved d b = false ∧ b ∉ usedPtrs d sdir := by
  unfold getAvailableBlock at h
  simp only [] at h
  have hm := List.mem_of_find?_eq_some h
  have hp := List.find?_some h
  simp only [Bool.and_eq_true, Bool.not_eq_true', List.contains_eq_mem, decide_eq_false_iff_not] at hp
  exact ⟨List.mem_range.1 hm, hp.1, hp.2⟩

/-- one data block written by the loop: a block that is neither reserved nor referenced -/
theorem frame_write {d : Dpb} {dir sdir : Dir} {r s s' : Raw} {chunk : Bytes} {b : Nat} (hf : Frame d dir r s) (hk : KeepsFiles dir sdir)
    (hb : getAvailableBlock d sdir = some b) (hw : writeBlock d s chunk b 0 = .ok s') : Frame d dir r s' := by
  obtain ⟨b1, b2, b3⟩ := getAvailableBlock_spec hb
  unfold writeBlock at hw
  rw [if_neg (by omega)] at hw
  unfold imgWrite at hw
  split at hw
  next hlt =>
    cases hw
    refine ⟨by simpa using hf.1, ?_, ?_⟩
    · intro i x hx
      simp only [Array.getElem?_setIfInBounds] at hx
      split at hx
      · first
          | (cases hx; exact quantize_length _ _)
          | (split at hx
             · cases hx; exact quantize_length _ _
             · cases hx)
      · exact hf.2.1 i x hx
    · intro i hi
      simp only [Array.getElem?_setIfInBounds]
      have hne : b ≠ i := by
        rintro rfl
        rcases hi with hi | hi
        · rw [b2] at hi; cases hi
        · exact b3 (usedPtrs_mono hk hi)
      rw [if_neg hne]
      exact hf.2.2 i hi
  · cases hw

/-! ## lengths of the entries the loops build -/

theorem setBlockPtr_length {d : Dpb} {e e' : Bytes} {slot lx b : Nat} (he : e.length = 32) (h : Ext.setBlockPtr d e slot lx b = .ok e') :
    e'.length = 32 := by
  unfold Ext.setBlockPtr at h
  simp only [] at h
  split at h
  · split at h
    · cases h; rw [splice_length (by rw [he]; simp; omega), he]
    · cases h
  · split at h
    · cases h; rw [splice_length (by rw [he]; simp [u16le]; omega), he]
    · cases h

theorem ext_new_length : Ext.new.length = 32 := by unfold Ext.new; simp

theorem openExtent_spec {d : Dpb} {name : Bytes} {user : Nat} {f : FImg} {sdir : Dir} {idx : Nat} {fx : Bytes}
    (h : openExtent d name user f sdir = .ok (idx, fx)) :
    fx.length = 32 ∧ ∃ e, sdir[idx]? = some e ∧ isExtent e = false := by
  unfold openExtent at h
  simp only [] at h
  split at h
  · cases h
  · cases hg : getAvailableExtent d sdir with
    | none => rw [hg] at h; cases h
    | some i =>
      rw [hg] at h
      cases h
      refine ⟨?_, ?_⟩
      · rw [splice0_length]
        split
        · exact setFlags_length (setName_length ext_new_length)
        · exact setFlags_length (setName_length ext_new_length)
      · unfold getAvailableExtent at hg
        have := List.find?_some hg
        cases he : sdir[idx]? with
        | none => rw [he] at this; cases this
        | some e =>
          rw [he] at this
          refine ⟨e, rfl, ?_⟩
          have hf : isExtentFree e = true := this
          unfold isExtentFree getType typeOfStatus at hf
          unfold isExtent
          by_cases c : status e < USER_END
          · rw [if_pos c] at hf; cases hf
          · simpa using c

/-- the invariant of the write loops of `put`, relative to the image `r` and directory `dir` they started from -/
structure WInv (d : Dpb) (dir : Dir) (r : Raw) (s : WState) : Prop where
  frame : Frame d dir r s.r
  keeps : KeepsFiles dir s.dir
  len : ∀ e ∈ s.dir, e.length = 32
  opn : ∀ fx, s.fx = some fx → fx.length = 32 ∧ s.ptr < s.dir.length ∧ ∀ e, dir[s.ptr]? = some e → isExtent e = false

theorem keeps_set {dir sdir : Dir} {ptr : Nat} {x : Bytes} (hk : KeepsFiles dir sdir)
    (hp : ∀ e, dir[ptr]? = some e → isExtent e = false) : KeepsFiles dir (sdir.set ptr x) := by
  refine ⟨by rw [List.length_set]; exact hk.1, fun j e he hx => ?_⟩
  have hne : ptr ≠ j := by
    rintro rfl
    have := hp e he
    rw [hx] at this; cases this
  rw [List.getElem?_set_ne hne]
  exact hk.2 j e he hx

theorem len_set {sdir : Dir} {ptr : Nat} {x : Bytes} (hl : ∀ e ∈ sdir, e.length = 32) (hx : x.length = 32) :
    ∀ e ∈ sdir.set ptr x, e.length = 32 := by
  intro e he
  rcases List.mem_or_eq_of_mem_set he with he | he
  · exact hl e he
  · rw [he]; exact hx

theorem slotLoop_inv {d : Dpb} {dir : Dir} {r : Raw} {name : Bytes} {user : Nat} {f : FImg} {x spe spl : Nat} :
    ∀ (l : List (Nat × Nat)) (s s' : WState) (res : R Unit), WInv d dir r s →
      slotLoop d name user f x spe spl s l = (res, s') → WInv d dir r s' := by
  intro l
  induction l with
  | nil => intro s s' res hs h; unfold slotLoop at h; cases h; exact hs
  | cons q rest ih =>
    intro s s' res hs h
    obtain ⟨lx, loc⟩ := q
    unfold slotLoop at h
    simp only [] at h
    split at h
    · exact ih _ _ _ hs h
    next chunk hchunk =>
      split at h
      · cases h; exact hs
      next iblock hib =>
        -- the extent in use
        split at h
        next e hopen =>
          cases h; exact hs
        next ptr fx entry1 hopen =>
          have hfx : fx.length = 32 ∧ (∀ e, dir[ptr]? = some e → isExtent e = false) := by
            cases hsf : s.fx with
            | some fx0 =>
              rw [hsf] at hopen
              simp only [Except.ok.injEq, Prod.mk.injEq] at hopen
              obtain ⟨rfl, rfl, _⟩ := hopen
              exact ⟨(hs.opn fx0 hsf).1, (hs.opn fx0 hsf).2.2⟩
            | none =>
              rw [hsf] at hopen
              simp only [] at hopen
              cases ho : openExtent d name user f s.dir with
              | error e => rw [ho] at hopen; cases hopen
              | ok p =>
                obtain ⟨idx, fx1⟩ := p
                rw [ho] at hopen
                simp only [Except.ok.injEq, Prod.mk.injEq] at hopen
                obtain ⟨rfl, rfl, _⟩ := hopen
                obtain ⟨a, e, he, hne⟩ := openExtent_spec ho
                refine ⟨a, fun e0 he0 => ?_⟩
                by_cases c : isExtent e0 = true
                · have := hs.keeps.2 _ e0 he0 c
                  rw [he] at this
                  cases this
                  rw [c] at hne; cases hne
                · simpa using c
          split at h
          · cases h; exact hs
          next fx' hsb =>
            have hfx' := setBlockPtr_length hfx.1 hsb
            split at h
            · cases h; exact hs
            next hpl =>
              have hpl' : ptr < s.dir.length := by simpa using hpl
              have hs1 : WInv d dir r { s with fx := some fx', ptr := ptr, entry1 := entry1, lxUsed := lx + 1, dir := s.dir.set ptr fx' } := by
                refine ⟨hs.frame, keeps_set hs.keeps hfx.2, len_set hs.len hfx', ?_⟩
                intro fy hfy
                simp only [Option.some.injEq] at hfy
                subst hfy
                exact ⟨hfx', by simp only [List.length_set]; exact hpl', hfx.2⟩
              split at h
              · cases h; exact hs1
              next r2 hw =>
                apply ih _ _ _ _ h
                refine ⟨frame_write hs.frame hs.keeps hib hw, hs1.keeps, hs1.len, hs1.opn⟩

theorem setDataPtr_length {e : Bytes} {i : Nat} (he : e.length = 32) : (Ext.setDataPtr e i).length = 32 := by
  unfold Ext.setDataPtr
  rw [splice_length (by rw [splice_length (by rw [he]; simp), he]; simp), splice_length (by rw [he]; simp), he]

theorem setEof_length {e : Bytes} {x : Nat} {v : Bool} (he : e.length = 32) : (Ext.setEof e x v).length = 32 := by
  unfold Ext.setEof
  simp only []
  rw [splice_length (by rw [splice_length (by rw [he]; simp), he]; simp), splice_length (by rw [he]; simp), he]

theorem closeExtent_spec {d : Dpb} {ptr : Nat} {fx : Bytes} {sdir dir' : Dir} {lxCount : Nat} {isLast : Bool} {f : FImg}
    (hfx : fx.length = 32) (h : closeExtent d ptr fx sdir lxCount isLast f = .ok dir') :
    ∃ x, x.length = 32 ∧ dir' = sdir.set ptr x := by
  unfold closeExtent at h
  split at h
  · cases h
  · simp only [] at h
    split at h
    · cases h
      exact ⟨_, setEof_length (setDataPtr_length hfx), rfl⟩
    · cases h

theorem extLoop_inv {d : Dpb} {dir : Dir} {r : Raw} {name : Bytes} {user : Nat} {f : FImg} {maxX spe spl : Nat} :
    ∀ (xs : List Nat) (s s' : WState) (res : R Unit), WInv d dir r s →
      extLoop d name user f maxX spe spl s xs = (res, s') → WInv d dir r s' := by
  intro xs
  induction xs with
  | nil => intro s s' res hs h; unfold extLoop at h; cases h; exact hs
  | cons x xs ih =>
    intro s s' res hs h
    unfold extLoop at h
    simp only [] at h
    have hs0 : WInv d dir r { s with lxUsed := 0 } := ⟨hs.frame, hs.keeps, hs.len, hs.opn⟩
    cases hsl : slotLoop d name user f x spe spl { s with lxUsed := 0 }
        ((List.range (d.exm + 1)).flatMap (fun lx => (List.range spl).map (fun loc => (lx, loc)))) with
    | mk res1 s1 =>
      rw [hsl] at h
      have hs1 := slotLoop_inv _ _ _ _ hs0 hsl
      cases res1 with
      | error e => simp only [] at h; cases h; exact hs1
      | ok u =>
        simp only [] at h
        cases hfx : s1.fx with
        | none => rw [hfx] at h; simp only [] at h; exact ih _ _ _ hs1 h
        | some fx =>
          rw [hfx] at h
          simp only [] at h
          obtain ⟨l32, hpl, hpe⟩ := hs1.opn fx hfx
          split at h
          · cases h; exact hs1
          next dir' hce =>
            obtain ⟨y, hy, rfl⟩ := closeExtent_spec l32 hce
            apply ih _ _ _ _ h
            exact ⟨hs1.frame, keeps_set hs1.keeps hpe, len_set hs1.len hy, fun fy hfy => by cases hfy⟩

end A2Verif.FsCpm
