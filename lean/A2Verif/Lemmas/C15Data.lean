import A2Verif.Lemmas.C15
/-!
Content invariants of `try_data_run`'s scan and the round trip of the data pseudo-ops it emits.
-/
namespace A2Verif.C15
open A2Verif.Gen.Opcodes A2Verif.Dasm A2Verif.Asm

/-- what the five counters mean after the scan has looked at `rest[0..i)` -/
structure ScanSem (rest : List Nat) (i : Nat) (s : Scan) : Prop where
  posS : ∀ k, k < s.pos → probablyString (rest.getD k 0) 0 = true
  negS : ∀ k, k < s.neg → probablyString (rest.getD k 0) 128 = true
  posI : s.posOk = true → s.pos = i
  negI : s.negOk = true → s.neg = i
  uniS : ∀ k, k ≤ s.uni → rest.getD k 0 = rest.getD 0 0
  uniI : s.uniOk = true → s.uni = i - 1
  p2S : ∀ k, 2 ≤ k → k < s.p2 + 2 → rest.getD k 0 = rest.getD (k - 2) 0
  p2I : s.p2Ok = true → s.p2 = i - 2
  p4S : ∀ k, 4 ≤ k → k < s.p4 + 4 → rest.getD k 0 = rest.getD (k - 4) 0
  p4I : s.p4Ok = true → s.p4 = i - 4

theorem scanStep_sem (rest : List Nat) (i : Nat) (s : Scan) (h : ScanSem rest i s) :
    ScanSem rest (i + 1) (scanStep rest i s) := by
  obtain ⟨a1, a2, a3, a4, a5, a6, a7, a8, a9, a10⟩ := h
  refine ⟨?_, ?_, ?_, ?_, ?_, ?_, ?_, ?_, ?_, ?_⟩
  · intro k hk
    simp only [scanStep] at hk
    split at hk
    · rename_i hc
      simp only [Bool.and_eq_true] at hc
      by_cases hki : k < s.pos
      · exact a1 k hki
      · have : k = i := by have := a3 hc.1; omega
        rw [this]; exact hc.2
    · exact a1 k hk
  · intro k hk
    simp only [scanStep] at hk
    split at hk
    · rename_i hc
      simp only [Bool.and_eq_true] at hc
      by_cases hki : k < s.neg
      · exact a2 k hki
      · have : k = i := by have := a4 hc.1; omega
        rw [this]; exact hc.2
    · exact a2 k hk
  · intro hok
    simp only [scanStep, Bool.and_eq_true] at hok ⊢
    have := a3 hok.1
    rw [if_pos hok]; omega
  · intro hok
    simp only [scanStep, Bool.and_eq_true] at hok ⊢
    have := a4 hok.1
    rw [if_pos hok]; omega
  · intro k hk
    simp only [scanStep] at hk
    split at hk
    · rename_i hc
      simp only [Bool.and_eq_true, decide_eq_true_eq, beq_iff_eq] at hc
      obtain ⟨⟨h1, h2⟩, h3⟩ := hc
      have hu := a6 h1
      by_cases hki : k ≤ s.uni
      · exact a5 k hki
      · have : k = i := by omega
        rw [this, h3]; exact a5 (i - 1) (by omega)
    · exact a5 k hk
  · intro hok
    simp only [scanStep] at hok ⊢
    split at hok
    · rename_i hc
      simp only [hc, if_true]
      simp only [Bool.and_eq_true, decide_eq_true_eq, beq_iff_eq] at hc
      have hu := a6 hc.1.1
      omega
    · rename_i hc
      simp only [hc, Bool.false_eq_true, if_false]
      split at hok
      · simp at hok
      · have hu := a6 hok; omega
  · intro k hk2 hk
    simp only [scanStep] at hk
    split at hk
    · rename_i hc
      simp only [Bool.and_eq_true, decide_eq_true_eq, beq_iff_eq] at hc
      obtain ⟨⟨h1, h2⟩, h3⟩ := hc
      have hu := a8 h1
      by_cases hki : k < s.p2 + 2
      · exact a7 k hk2 hki
      · have : k = i := by omega
        rw [this, h3]
    · exact a7 k hk2 hk
  · intro hok
    simp only [scanStep] at hok ⊢
    split at hok
    · rename_i hc
      simp only [hc, if_true]
      simp only [Bool.and_eq_true, decide_eq_true_eq, beq_iff_eq] at hc
      have hu := a8 hc.1.1
      omega
    · rename_i hc
      simp only [hc, Bool.false_eq_true, if_false]
      split at hok
      · simp at hok
      · have hu := a8 hok; omega
  · intro k hk4 hk
    simp only [scanStep] at hk
    split at hk
    · rename_i hc
      simp only [Bool.and_eq_true, decide_eq_true_eq, beq_iff_eq] at hc
      obtain ⟨⟨h1, h2⟩, h3⟩ := hc
      have hu := a10 h1
      by_cases hki : k < s.p4 + 4
      · exact a9 k hk4 hki
      · have : k = i := by omega
        rw [this, h3]
    · exact a9 k hk4 hk
  · intro hok
    simp only [scanStep] at hok ⊢
    split at hok
    · rename_i hc
      simp only [hc, if_true]
      simp only [Bool.and_eq_true, decide_eq_true_eq, beq_iff_eq] at hc
      have hu := a10 hc.1.1
      omega
    · rename_i hc
      simp only [hc, Bool.false_eq_true, if_false]
      split at hok
      · simp at hok
      · have hu := a10 hok; omega

theorem scan_sem (rest : List Nat) : ∀ (fuel i : Nat) (s : Scan), ScanSem rest i s →
    ∃ j, ScanSem rest j (scan rest fuel i s) := by
  intro fuel
  induction fuel with
  | zero => intro i s h; exact ⟨i, h⟩
  | succ fuel ih =>
    intro i s h
    simp only [scan]
    split
    · exact ih (i + 1) _ (scanStep_sem rest i s h)
    · exact ⟨i, h⟩

theorem scan_sem_init (rest : List Nat) : ScanSem rest 0 {} :=
  ⟨by simp, by simp, by simp, by simp, by simp, by simp, by intro k h1 h2; simp at h2; omega, by simp,
   by intro k h1 h2; simp at h2; omega, by simp⟩

theorem bits80 : ∀ y : Fin 256,
    (y.val ||| 0x80) = (if y.val < 128 then y.val + 128 else y.val) ∧
    (y.val ^^^ 0x80) = (if y.val < 128 then y.val + 128 else y.val - 128) := by
  decide +kernel

theorem or80_lo (y : Nat) (h : y < 128) : y ||| 0x80 = y + 128 := by
  have := (bits80 ⟨y, by omega⟩).1; simp only [h, if_true] at this; exact this
theorem xor80_lo (y : Nat) (h : y < 128) : y ^^^ 0x80 = y + 128 := by
  have := (bits80 ⟨y, by omega⟩).2; simp only [h, if_true] at this; exact this
theorem xor80_hi (y : Nat) (h : 128 ≤ y) (h2 : y < 256) : y ^^^ 0x80 = y - 128 := by
  have := (bits80 ⟨y, h2⟩).2
  have hn : ¬ y < 128 := by omega
  simp only [hn, if_false] at this; exact this

theorem set_last_inner (d y : Nat) : ∀ (fr : List Nat) (l : Nat),
    (d :: (fr ++ [l, d])).set (fr.length + 1) y = d :: (fr ++ [y, d]) := by
  intro fr
  induction fr with
  | nil => intro l; rfl
  | cons a fr ih =>
    intro l
    have := ih l
    simp only [List.cons_append, List.length_cons, List.set_cons_succ] at this ⊢
    rw [List.cons.injEq] at this
    rw [this.2]

theorem getD_last_inner (d : Nat) : ∀ (fr : List Nat) (l : Nat),
    (d :: (fr ++ [l, d])).getD (fr.length + 1) 0 = l := by
  intro fr
  induction fr with
  | nil => intro l; rfl
  | cons a fr ih => intro l; simpa using ih l

theorem getLast_wrap (d : Nat) (xs : List Nat) : (d :: (xs ++ [d])).getLast? = some d := by
  rw [show d :: (xs ++ [d]) = (d :: xs) ++ [d] from rfl, List.getLast?_concat]

theorem take_inner (x d : Nat) (fr : List Nat) : List.take (fr.length + 1) (fr ++ [x, d]) = fr ++ [x] := by
  rw [show fr ++ [x, d] = (fr ++ [x]) ++ [d] by simp]
  exact List.take_left' (by simp)

theorem strCore_asc (d : Nat) (t : List Nat) : strCore (d :: (t ++ [d])) false = .ok t := by
  simp only [strCore]
  have hlen : (d :: (t ++ [d])).length = t.length + 2 := by simp
  have hl : (d :: (t ++ [d])).getLast? = some d := getLast_wrap d t
  rw [hlen, hl]
  have hc : (decide (t.length + 2 < 2) || (d :: (t ++ [d])).head? != some d) = false := by simp
  rw [hc]
  simp only [Bool.false_eq_true, if_false]
  by_cases ht : t.length + 2 > 2
  · rw [if_pos ht]
    rw [show t.length + 2 - 2 = t.length by omega]
    simp only [List.drop_succ_cons, List.drop_zero]
    rw [List.take_left' rfl]
  · rw [if_neg ht]
    have : t = [] := List.eq_nil_of_length_eq_zero (by omega)
    simp [this]

theorem strCore_dci (d l : Nat) (fr : List Nat) :
    strCore (d :: ((fr ++ [l]) ++ [d])) true = .ok (fr ++ [l ^^^ 0x80]) := by
  simp only [strCore]
  have hlen : (d :: ((fr ++ [l]) ++ [d])).length = fr.length + 3 := by simp
  have hl : (d :: ((fr ++ [l]) ++ [d])).getLast? = some d := getLast_wrap d _
  rw [hlen, hl]
  have hc : (decide (fr.length + 3 < 2) || (d :: ((fr ++ [l]) ++ [d])).head? != some d) = false := by simp
  rw [hc]
  simp only [Bool.false_eq_true, if_false]
  rw [if_pos (by omega)]
  have e : d :: ((fr ++ [l]) ++ [d]) = d :: (fr ++ [l, d]) := by simp
  rw [e]
  simp only [if_true, show fr.length + 3 - 2 = fr.length + 1 by omega]
  rw [getD_last_inner, set_last_inner]
  simp only [List.drop_succ_cons, List.drop_zero]
  rw [take_inner]

theorem ps_hi (c : Nat) (h : probablyString c 128 = true) : 160 ≤ c := by
  simp [probablyString, isAlphanum] at h; omega
theorem ps_lo (c : Nat) (h : probablyString c 0 = true) : 32 ≤ c ∧ c < 123 := by
  simp [probablyString, isAlphanum] at h; omega

/-- sign function selected by the delimiter -/
def signOf (neg : Bool) (x : Nat) : Nat := if neg then x ||| 0x80 else x

theorem signStep_wrap (neg : Bool) (s : List Nat) :
    signStep ([delimOf neg s] ++ s ++ [delimOf neg s])
      = signOf neg (delimOf neg s) :: (s.map (signOf neg) ++ [signOf neg (delimOf neg s)]) := by
  cases neg
  · have hd : ¬ delimOf false s < 39 := by
      simp only [delimOf, Bool.false_eq_true, if_false]; split <;> omega
    have hm : s.map (signOf false) = s := by
      have : signOf false = id := by funext x; rfl
      rw [this, List.map_id]
    simp [signStep, hd, hm]
    simp [signOf]
  · have hd : delimOf true s < 39 := by
      simp only [delimOf, if_true]; split <;> omega
    simp [signStep, hd, signOf]

theorem asc_bytes (q : Quirks) (c : ACfg) (pc addr : Nat) (neg : Bool) (s : List Nat) (zero : Bool) :
    lineBytes q c pc (.asc addr neg s zero) = .ok (s.map (signOf neg) ++ (if zero then [0] else [])) := by
  simp only [lineBytes, pushStrings, signStep_wrap, strCore_asc]

theorem dci_bytes (q : Quirks) (c : ACfg) (pc addr : Nat) (neg : Bool) (fr : List Nat) (l : Nat) :
    lineBytes q c pc (.dci addr neg (fr ++ [l])) = .ok (fr.map (signOf neg) ++ [signOf neg l ^^^ 0x80]) := by
  simp only [lineBytes, pushStrings, signStep_wrap, List.map_append, List.map_cons, List.map_nil, strCore_dci]

theorem take_eq_replicate (rest : List Nat) (n v : Nat) (hn : n ≤ rest.length)
    (h : ∀ k, k < n → rest.getD k 0 = v) : rest.take n = List.replicate n v := by
  apply List.ext_getElem
  · simp; omega
  · intro k h1 h2
    have hk : k < n := by simp at h2; exact h2
    have := h k hk
    simp only [List.getElem_take, List.getElem_replicate]
    rw [← this]
    simp [List.getD_eq_getElem?_getD, List.getElem?_eq_getElem (by omega : k < rest.length)]

theorem take_map_neg (rest : List Nat) (n : Nat) (hb : ∀ x ∈ rest, x < 256)
    (h : ∀ k, k < n → probablyString (rest.getD k 0) 128 = true) :
    ((rest.take n).map (· - 128)).map (signOf true) = rest.take n := by
  rw [List.map_map]
  apply List.ext_getElem
  · simp
  · intro k h1 h2
    simp only [List.length_map, List.length_take] at h1
    have hk : k < n := by omega
    have hkl : k < rest.length := by omega
    simp only [List.getElem_map, List.getElem_take, Function.comp]
    have hps := h k hk
    rw [List.getD_eq_getElem?_getD, List.getElem?_eq_getElem hkl] at hps
    simp only [Option.getD_some] at hps
    have h160 := ps_hi _ hps
    have h256 := hb rest[k] (List.getElem_mem hkl)
    simp only [signOf, if_true]
    rw [or80_lo _ (by omega)]; omega

theorem take_succ_some (rest : List Nat) (n x : Nat) (h : rest[n]? = some x) :
    rest.take (n + 1) = rest.take n ++ [x] := by
  rw [List.take_add_one, h]; rfl

theorem pushString_content (q : Quirks) (c : ACfg) (addr : Nat) (neg : Bool) (raw : List Nat) (chars : List Nat)
    (rest : List Nat) (n : Nat) (hraw : raw = rest.take n) (_hn : n ≤ rest.length) (hb : ∀ x ∈ rest, x < 256)
    (hchars : chars.map (signOf neg) = raw) (hlen : chars.length = n)
    (b : List Nat) (hok : lineBytes q c addr (pushString addr neg chars (rest[n]?)).1 = .ok b) :
    b = rest.take (pushString addr neg chars (rest[n]?)).2 := by
  unfold pushString at hok ⊢
  cases hla : rest[n]? with
  | none =>
    simp only [hla] at hok ⊢
    rw [asc_bytes] at hok
    simp only [Bool.false_eq_true, if_false, List.append_nil, Except.ok.injEq] at hok
    rw [← hok, hchars, hraw, hlen]
  | some x =>
    simp only [hla] at hok ⊢
    have hxl : n < rest.length := (List.getElem?_eq_some_iff.mp hla).1
    have hx256 : x < 256 := by
      have := (List.getElem?_eq_some_iff.mp hla).2
      rw [← this]; exact hb _ (List.getElem_mem hxl)
    by_cases h0 : (x == 0) = true
    · simp only [h0, if_true] at hok ⊢
      rw [asc_bytes] at hok
      simp only [if_true, Except.ok.injEq] at hok
      have : x = 0 := by simpa using h0
      rw [← hok, hchars, hraw, hlen, take_succ_some rest n x hla, this]
    · simp only [h0, Bool.false_eq_true, if_false] at hok ⊢
      by_cases h1 : probablyString x (if neg = true then 0 else 128) = true
      · simp only [h1, if_true] at hok ⊢
        rw [dci_bytes] at hok
        simp only [Except.ok.injEq] at hok
        rw [← hok, hchars, hraw, hlen, take_succ_some rest n x hla]
        congr 2
        cases neg
        · simp only [Bool.false_eq_true, if_false] at h1 ⊢
          have := ps_hi x h1
          simp only [signOf, Bool.false_eq_true, if_false]
          rw [xor80_lo _ (by omega)]; omega
        · simp only [if_true] at h1 ⊢
          have := ps_lo x h1
          simp only [signOf, if_true, Nat.sub_zero]
          rw [or80_lo _ (by omega), xor80_hi _ (by omega) (by omega)]; omega
      · simp only [h1, Bool.false_eq_true, if_false] at hok ⊢
        rw [asc_bytes] at hok
        simp only [Bool.false_eq_true, if_false, List.append_nil, Except.ok.injEq] at hok
        rw [← hok, hchars, hraw, hlen]

/-- **content of a data run**: whatever `try_data_run` emits, if the assembler accepts the line then the bytes
are exactly the bytes of the run -/
theorem tryDataRun_content (q : Quirks) (c : ACfg) (addr : Nat) (rest : List Nat) (r : Line × Nat)
    (hb : ∀ x ∈ rest, x < 256) (h : tryDataRun addr rest = some r)
    (b : List Nat) (hok : lineBytes q c addr r.1 = .ok b) : b = rest.take r.2 := by
  obtain ⟨j, hinv⟩ := scan_inv rest rest.length 0 {} ⟨by omega, by simp, by simp, by simp, by simp, by simp⟩
  obtain ⟨j', hsem⟩ := scan_sem rest rest.length 0 {} (scan_sem_init rest)
  obtain ⟨h1, h2, h3, h4, h5, h6⟩ := hinv
  obtain ⟨s1, s2, _, _, s5, _, _, _, _, _⟩ := hsem
  simp only [tryDataRun] at h
  generalize scan rest rest.length 0 {} = s at *
  have hp2 : (if s.p2 > 0 then (s.p2 + 2) - (s.p2 + 2) % 2 else 0) ≤ j ∧
      (if s.p2 > 0 then (s.p2 + 2) - (s.p2 + 2) % 2 else 0) % 2 = 0 := by split <;> omega
  have hp4 : (if s.p4 > 0 then (s.p4 + 4) - (s.p4 + 4) % 4 else 0) ≤ j ∧
      (if s.p4 > 0 then (s.p4 + 4) - (s.p4 + 4) % 4 else 0) % 4 = 0 := by split <;> omega
  generalize (if s.p2 > 0 then (s.p2 + 2) - (s.p2 + 2) % 2 else 0) = p2 at *
  generalize (if s.p4 > 0 then (s.p4 + 4) - (s.p4 + 4) % 4 else 0) = p4 at *
  generalize huni : (if s.uni > 0 then s.uni + 1 else 0) = uni at *
  split at h
  · -- DS
    rename_i hc
    obtain rfl := Option.some.inj h
    simp at hc
    have hu : s.uni > 0 ∧ uni = s.uni + 1 := by
      split at huni <;> omega
    obtain ⟨hu, rfl⟩ := hu
    simp only [lineBytes] at hok
    split at hok
    · simp at hok
    · simp only [Except.ok.injEq] at hok
      have hlen : s.uni + 1 ≤ rest.length := by omega
      have h0 : rest.getD 0 0 < 256 := by
        rcases rest with _ | ⟨a, tl⟩
        · simp at hlen
        · simpa using hb a (by simp)
      rw [← hok, Nat.mod_eq_of_lt h0]
      exact (take_eq_replicate rest (s.uni + 1) _ hlen (fun k hk => s5 k (by omega))).symm
  · split at h
    · -- period 2
      rename_i _ hc
      obtain rfl := Option.some.inj h
      simp at hc
      simp only [lineBytes] at hok
      split at hok
      · simp at hok
      · rename_i hr
        simp only [Except.ok.injEq] at hok
        have : p2 = 2 := by omega
        rw [← hok, this]
    · split at h
      · -- period 4
        rename_i _ _ hc
        obtain rfl := Option.some.inj h
        simp at hc
        simp only [lineBytes] at hok
        split at hok
        · simp at hok
        · rename_i hr
          simp only [Except.ok.injEq] at hok
          have : p4 = 4 := by omega
          rw [← hok, this]
      · split at h
        · -- positive ASCII
          obtain rfl := Option.some.inj h
          have hm : (rest.take s.pos).map (signOf false) = rest.take s.pos := by
            have : signOf false = id := by funext x; rfl
            rw [this, List.map_id]
          exact pushString_content q c addr false (rest.take s.pos) (rest.take s.pos) rest s.pos rfl (by omega) hb hm
            (by simp [List.length_take]; omega) b hok
        · split at h
          · -- negative ASCII
            obtain rfl := Option.some.inj h
            exact pushString_content q c addr true (rest.take s.neg) ((rest.take s.neg).map (· - 128)) rest s.neg rfl
              (by omega) hb (take_map_neg rest s.neg hb s2) (by simp [List.length_take]; omega) b hok
          · simp at h

/-- one turn of the disassembly loop, arbitrary input: the emitted line assembles to exactly the bytes it
consumed, or is refused -/
theorem step_content (cfg : Cfg) (ver : Ver) (addr : Nat) (rest : List Nat)
    (hc : compat cfg.proc ver = true) (hne : rest ≠ []) (hb : ∀ x ∈ rest, x < 256) (b : List Nat)
    (hok : lineBytes Quirks.fixed ⟨cfg.proc, ver, cfg.m8, cfg.x8⟩ addr (step Quirks.fixed cfg addr rest).1 = .ok b) :
    b = rest.take (step Quirks.fixed cfg addr rest).2 := by
  rcases rest with _ | ⟨op, tl⟩
  · exact absurd rfl hne
  · have hop : op < 256 := hb op (by simp)
    have hbt : ∀ x ∈ tl, x < 256 := fun x hx => hb x (by simp [hx])
    cases hi : isInstruction cfg (op :: tl) with
    | some i =>
      obtain ⟨h1, h2⟩ := instr_roundtrip cfg ver addr op tl i hc hop hbt hi
      have hstep : step Quirks.fixed cfg addr (op :: tl) = pushInstruction Quirks.fixed addr op tl i := by
        simp [step, hi]
      rw [hstep] at hok ⊢
      rw [h1] at hok
      simp only [Except.ok.injEq] at hok
      rw [← hok, h2, Nat.add_comm]; rfl
    | none =>
      cases hd : tryDataRun addr (op :: tl) with
      | some r =>
        have hstep : step Quirks.fixed cfg addr (op :: tl) = r := by simp [step, hi, hd]
        rw [hstep] at hok ⊢
        exact tryDataRun_content _ _ addr (op :: tl) r hb hd b hok
      | none =>
        have hstep : step Quirks.fixed cfg addr (op :: tl) = (.dfb addr op, 1) := by simp [step, hi, hd]
        rw [hstep] at hok ⊢
        simp only [lineBytes, Except.ok.injEq] at hok
        rw [← hok, Nat.mod_eq_of_lt hop]; rfl

theorem go_never_differs (cfg : Cfg) (ver : Ver) (hc : compat cfg.proc ver = true) :
    ∀ (fuel addr : Nat) (rest : List Nat), rest.length ≤ fuel → (∀ x ∈ rest, x < 256) → ∀ b,
      asmAll Quirks.fixed ⟨cfg.proc, ver, cfg.m8, cfg.x8⟩ addr (go Quirks.fixed cfg fuel addr rest) = .ok b → b = rest := by
  intro fuel
  induction fuel with
  | zero =>
    intro addr rest hl _ b hok
    have : rest = [] := List.eq_nil_of_length_eq_zero (by omega)
    subst this
    simp [go, asmAll] at hok; exact hok
  | succ fuel ih =>
    intro addr rest hl hb b hok
    rcases rest with _ | ⟨op, tl⟩
    · simp [go, asmAll] at hok; exact hok
    · obtain ⟨_, _, s3, s4⟩ := step_ok Quirks.fixed cfg addr (op :: tl) (by simp) hb
      simp only [go, asmAll] at hok
      split at hok
      · simp at hok
      · rename_i b1 hb1
        have e1 := step_content cfg ver addr (op :: tl) hc (by simp) hb b1 hb1
        have hlen1 : b1.length = (step Quirks.fixed cfg addr (op :: tl)).2 := by
          rw [e1, List.length_take]; omega
        split at hok
        · simp at hok
        · rename_i b2 hb2
          simp only [Except.ok.injEq] at hok
          have hl' : ((op :: tl).drop (step Quirks.fixed cfg addr (op :: tl)).2).length ≤ fuel := by
            simp only [List.length_drop]; simp at hl ⊢; omega
          have hb' : ∀ x ∈ (op :: tl).drop (step Quirks.fixed cfg addr (op :: tl)).2, x < 256 :=
            fun x hx => hb x (List.mem_of_mem_drop hx)
          have hq : (Quirks.fixed.mvnPcBug && isMov (step Quirks.fixed cfg addr (op :: tl)).1) = false := by
            simp [Quirks.fixed]
          rw [hq, hlen1] at hb2
          simp only [Bool.false_eq_true, if_false, Nat.add_zero] at hb2
          have e2 := ih _ _ hl' hb' b2 hb2
          rw [← hok, e1, e2, List.take_append_drop]

/-- characters between the delimiters of a string line -/
def lineChars : Line → List Nat
  | .asc _ _ s _ => s
  | .dci _ _ s => s
  | _ => []

theorem ps_shift (c : Nat) (h : probablyString c 128 = true) : probablyString (c - 128) 0 = true := by
  simp [probablyString, isAlphanum] at h ⊢; omega

theorem pushString_printable (addr : Nat) (neg : Bool) (chars : List Nat) (la : Option Nat)
    (h : ∀ ch ∈ chars, probablyString ch 0 = true) :
    ∀ ch ∈ lineChars (pushString addr neg chars la).1, probablyString ch 0 = true := by
  unfold pushString
  cases la with
  | none => simpa [lineChars] using h
  | some x =>
    by_cases h0 : (x == 0) = true
    · simpa [h0, lineChars] using h
    · by_cases h1 : probablyString x (if neg = true then 0 else 128) = true
      · simp only [h0, h1, Bool.false_eq_true, if_false, if_true, lineChars]
        intro ch hch
        rcases List.mem_append.mp hch with hm | hm
        · exact h ch hm
        · have : ch = x - (if neg = true then 0 else 128) := by simpa using hm
          rw [this]
          cases neg
          · simp only [Bool.false_eq_true, if_false] at h1 ⊢; exact ps_shift x h1
          · simpa using h1
      · simpa [h0, h1, lineChars] using h

/-- the characters of every `ASC` / `DCI` line are letters, digits, blank, comma or period (7 bit): no
delimiter, no control character, no `;` — what the text-layer assumption about strings needs -/
theorem tryDataRun_printable (addr : Nat) (rest : List Nat) (r : Line × Nat)
    (h : tryDataRun addr rest = some r) : ∀ ch ∈ lineChars r.1, probablyString ch 0 = true := by
  obtain ⟨j, hinv⟩ := scan_inv rest rest.length 0 {} ⟨by omega, by simp, by simp, by simp, by simp, by simp⟩
  obtain ⟨j', hsem⟩ := scan_sem rest rest.length 0 {} (scan_sem_init rest)
  obtain ⟨h1, h2, h3, _, _, _⟩ := hinv
  obtain ⟨s1, s2, _, _, _, _, _, _, _, _⟩ := hsem
  simp only [tryDataRun] at h
  generalize scan rest rest.length 0 {} = s at *
  generalize (if s.p2 > 0 then (s.p2 + 2) - (s.p2 + 2) % 2 else 0) = p2 at *
  generalize (if s.p4 > 0 then (s.p4 + 4) - (s.p4 + 4) % 4 else 0) = p4 at *
  generalize (if s.uni > 0 then s.uni + 1 else 0) = uni at *
  have getD_take : ∀ (n : Nat) (x : Nat), x ∈ rest.take n → ∃ k, k < n ∧ rest.getD k 0 = x := by
    intro n x hx
    obtain ⟨k, hk, hkx⟩ := List.getElem_of_mem hx
    simp only [List.length_take] at hk
    refine ⟨k, by omega, ?_⟩
    rw [List.getElem_take] at hkx
    rw [List.getD_eq_getElem?_getD, List.getElem?_eq_getElem (by omega)]; simpa using hkx
  split at h
  · obtain rfl := Option.some.inj h; simp [lineChars]
  · split at h
    · obtain rfl := Option.some.inj h; simp [lineChars]
    · split at h
      · obtain rfl := Option.some.inj h; simp [lineChars]
      · split at h
        · obtain rfl := Option.some.inj h
          apply pushString_printable
          intro ch hch
          obtain ⟨k, hk, hkx⟩ := getD_take _ _ hch
          rw [← hkx]; exact s1 k hk
        · split at h
          · obtain rfl := Option.some.inj h
            apply pushString_printable
            intro ch hch
            obtain ⟨y, hy, rfl⟩ := List.mem_map.mp hch
            obtain ⟨k, hk, hkx⟩ := getD_take _ _ hy
            rw [← hkx]; exact ps_shift _ (s2 k hk)
          · simp at h

theorem periodic_iter (rest : List Nat) (p n : Nat)
    (h : ∀ k, p ≤ k → k < n → rest.getD k 0 = rest.getD (k - p) 0) :
    ∀ m k, k + m * p < n → rest.getD (k + m * p) 0 = rest.getD k 0 := by
  intro m
  induction m with
  | zero => intro k _; simp
  | succ m ih =>
    intro k hk
    have e : k + (m + 1) * p = (k + m * p) + p := by rw [Nat.succ_mul]; omega
    rw [e] at hk ⊢
    rw [h _ (by omega) hk, Nat.add_sub_cancel]
    exact ih k (by omega)

theorem take_periodic (rest : List Nat) (p : Nat) (hp : 0 < p)
    (n : Nat) (h : ∀ k, p ≤ k → k < n → rest.getD k 0 = rest.getD (k - p) 0) :
    ∀ r, r * p ≤ n → n ≤ rest.length → rest.take (r * p) = lupBytes r (rest.take p) := by
  intro r
  induction r with
  | zero => intro _ _; simp [lupBytes]
  | succ r ih =>
    intro hr hn
    have hr' : r * p ≤ n := by rw [Nat.succ_mul] at hr; omega
    rw [Nat.succ_mul, List.take_add, ih hr' hn]
    simp only [lupBytes, List.replicate_succ', List.flatten_append, List.flatten_cons, List.flatten_nil,
      List.append_nil]
    congr 1
    rw [Nat.succ_mul] at hr
    apply List.ext_getElem
    · simp [List.length_take]; omega
    · intro t h1 h2
      simp only [List.length_take, List.length_drop] at h1 h2
      simp only [List.getElem_take, List.getElem_drop]
      have hper := periodic_iter rest p n h r t (by omega)
      rw [List.getD_eq_getElem?_getD, List.getD_eq_getElem?_getD,
        List.getElem?_eq_getElem (by omega), List.getElem?_eq_getElem (by omega)] at hper
      simp only [Option.getD_some] at hper
      rw [← hper]; congr 1; omega

theorem pushString_not_hex (addr : Nat) (neg : Bool) (chars : List Nat) (la : Option Nat) (a reps : Nat)
    (body : List Nat) (k : Nat) : pushString addr neg chars la ≠ (.hex a reps body, k) := by
  unfold pushString
  cases la with
  | none => simp
  | some x =>
    by_cases h0 : (x == 0) = true
    · simp [h0]
    · by_cases h1 : probablyString x (if neg = true then 0 else 128) = true
      · simp [h0, h1]
      · simp [h0, h1]

/-- **`LUP` expansion**: a pattern line `LUP r` / `HEX body` / `--^` (or a bare `HEX body`, `r = 1`) emitted by
`try_data_run` stands, read as Merlin reads it (body repeated `r` times), for exactly the bytes of the run -/
theorem tryDataRun_lup (addr : Nat) (rest : List Nat) (a reps : Nat) (body : List Nat) (k : Nat)
    (h : tryDataRun addr rest = some (.hex a reps body, k)) : lupBytes reps body = rest.take k := by
  obtain ⟨j, hinv⟩ := scan_inv rest rest.length 0 {} ⟨by omega, by simp, by simp, by simp, by simp, by simp⟩
  obtain ⟨j', hsem⟩ := scan_sem rest rest.length 0 {} (scan_sem_init rest)
  obtain ⟨h1, h2, h3, h4, h5, h6⟩ := hinv
  obtain ⟨_, _, _, _, _, _, s7, _, s9, _⟩ := hsem
  simp only [tryDataRun] at h
  generalize scan rest rest.length 0 {} = s at *
  generalize (if s.uni > 0 then s.uni + 1 else 0) = uni at *
  generalize hp2 : (if s.p2 > 0 then (s.p2 + 2) - (s.p2 + 2) % 2 else 0) = p2 at *
  generalize hp4 : (if s.p4 > 0 then (s.p4 + 4) - (s.p4 + 4) % 4 else 0) = p4 at *
  split at h
  · have := Option.some.inj h; simp at this
  · split at h
    · rename_i _ hc
      have e := Option.some.inj h
      simp only [Prod.mk.injEq, Line.hex.injEq] at e
      obtain ⟨⟨_, rfl, rfl⟩, rfl⟩ := e
      simp at hc
      have hs : s.p2 > 0 ∧ p2 = (s.p2 + 2) - (s.p2 + 2) % 2 := by split at hp2 <;> omega
      have hr : p2 / 2 * 2 = p2 := by omega
      have := take_periodic rest 2 (by omega) (s.p2 + 2) s7 (p2 / 2) (by omega) (by omega)
      rw [hr] at this; exact this.symm
    · split at h
      · rename_i _ _ hc
        have e := Option.some.inj h
        simp only [Prod.mk.injEq, Line.hex.injEq] at e
        obtain ⟨⟨_, rfl, rfl⟩, rfl⟩ := e
        simp at hc
        have hs : s.p4 > 0 ∧ p4 = (s.p4 + 4) - (s.p4 + 4) % 4 := by split at hp4 <;> omega
        have hr : p4 / 4 * 4 = p4 := by omega
        have := take_periodic rest 4 (by omega) (s.p4 + 4) s9 (p4 / 4) (by omega) (by omega)
        rw [hr] at this; exact this.symm
      · split at h
        · exact absurd (Option.some.inj h) (pushString_not_hex _ _ _ _ _ _ _ _)
        · split at h
          · exact absurd (Option.some.inj h) (pushString_not_hex _ _ _ _ _ _ _ _)
          · simp at h

end A2Verif.C15
