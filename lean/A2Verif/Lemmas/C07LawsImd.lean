import A2Verif.Props.C08Img
import A2Verif.Lemmas.C07LawsMulti
/-!
# C07 store laws of an IMD image (whole object: all tracks, head position and cached buffer offset per track)

Per-track laws from `A2Verif.C08.imd_read_sector`, `imd_write_sector`, `imd_absent_refused` (`Props/C08Img.lean`), on
tracks whose records all have a data area (what `Imd::create` makes, and what every write keeps); lifted to the object
with `multi_laws`.  `rd` / `wr` are `Obj.readSector` / `Obj.writeSector` of `Model/C08Imd.lean` (`imd_rd_is_model`).
-/
namespace A2Verif.C07All
open A2Verif.Model.AddrMap (TrackRec)
open A2Verif.Model.C09Imd A2Verif.Model.C08Imd A2Verif.Model.C08Ring
open A2Verif.Lemmas.C09Imd A2Verif.Lemmas.C08Imd A2Verif.Gen.C09Const A2Verif.C08

def resOpt : Res (List Nat) → Option (List Nat)
  | .ok d => some d
  | _ => none

def resOk : Res Unit → Bool
  | .ok _ => true
  | _ => false

def imdMulti : Multi Obj TrackSt where
  get := fun o => o.tracks
  put := fun o ts => { o with tracks := ts }
  key := fun t => (t.trk.cylinder, t.trk.head &&& IMD_HEAD_MASK)
  find := findTrack
  rdT := fun t s => (resOpt (readTrack t s).1, (readTrack t s).2)
  wrT := fun t s d => (resOk (writeTrack t s d).1, (writeTrack t s d).2)

theorem imd_find_first : ∀ (ts : List TrackSt) (c h i : Nat) (hi : i < ts.length),
    imdMulti.key ts[i] = (c, h) → (∀ j (hj : j < i), imdMulti.key (ts[j]'(Nat.lt_trans hj hi)) ≠ (c, h)) →
    findTrack ts c h = some i := by
  intro ts
  induction ts with
  | nil => intro c h i hi; cases hi
  | cons t ts ih =>
    intro c h i hi hk hfirst
    cases i with
    | zero =>
      have : t.trk.cylinder = c ∧ t.trk.head &&& IMD_HEAD_MASK = h := by
        simp only [imdMulti, List.getElem_cons_zero, Prod.mk.injEq] at hk; exact hk
      simp [findTrack, this]
    | succ k =>
      have h0 := hfirst 0 (Nat.succ_pos k)
      have hne : ¬ (t.trk.cylinder = c ∧ t.trk.head &&& IMD_HEAD_MASK = h) := by
        intro hc; apply h0; simp only [imdMulti, List.getElem_cons_zero]; rw [hc.1, hc.2]
      have := ih c h k (by simpa using hi) (by simpa using hk) (by
        intro j hj
        have := hfirst (j + 1) (by omega)
        simpa using this)
      simp [findTrack, hne, this]

theorem imd_find_some : ∀ (ts : List TrackSt) (c h i : Nat), findTrack ts c h = some i →
    ∃ hi : i < ts.length, imdMulti.key ts[i] = (c, h) := by
  intro ts
  induction ts with
  | nil => intro c h i hf; simp [findTrack] at hf
  | cons t ts ih =>
    intro c h i hf
    unfold findTrack at hf
    split at hf
    · rename_i hc
      simp only [Option.some.injEq] at hf
      subst hf
      exact ⟨by simp, by simp only [imdMulti, List.getElem_cons_zero]; rw [hc.1, hc.2]⟩
    · cases hr : findTrack ts c h with
      | none => rw [hr] at hf; cases hf
      | some k =>
        rw [hr] at hf
        simp only [Option.map_some, Option.some.injEq] at hf
        subst hf
        obtain ⟨hk, hkey⟩ := ih c h k hr
        exact ⟨by simpa using hk, by simpa using hkey⟩

theorem imd_multi_ok : MultiOk imdMulti where
  get_put := fun _ _ => rfl
  find_first := by
    intro ts i hi hfirst
    exact imd_find_first ts _ _ i hi rfl hfirst
  find_some := imd_find_some

/-- a track of the image, with respect to its geometry record: well-formed records that all have a data area, the
header fields and the sector map of the record, pairwise different sector ids -/
def ImdTInv (r : TrackRec) (t : TrackSt) : Prop :=
  ∃ recs, Inv t recs ∧ t.trk.cylinder = r.cyl ∧ t.trk.head &&& IMD_HEAD_MASK = r.head ∧ t.trk.sectorMap = r.ids ∧
    t.trk.shift = r.shift ∧ r.ids.Nodup ∧ ∀ x ∈ recs, hasData x.code = true

/-- what a track returns depends only on its records and sector map -/
theorem imd_view (t : TrackSt) (recs : List Sec) (h : Inv t recs) (hnd : t.trk.sectorMap.Nodup)
    (hall : ∀ x ∈ recs, hasData x.code = true) (j : Nat) (hj : j < recs.length) (s : Nat)
    (hid : t.trk.sectorMap[j]? = some s) : (readTrack t s).1 = .ok recs[j].data := by
  rw [(imd_read_sector t recs h j s hj hid hnd).1]
  simp [hall _ (List.getElem_mem hj)]

theorem mem_index (l : List Nat) (s : Nat) (h : s ∈ l) : ∃ i, ∃ hi : i < l.length, l[i]? = some s := by
  obtain ⟨i, hi, e⟩ := List.getElem_of_mem h
  exact ⟨i, hi, by rw [List.getElem?_eq_getElem hi, e]⟩

theorem imd_trk_laws : TrkLaws imdMulti ImdTInv where
  key_eq := by
    intro r t ⟨_, _, h1, h2, _⟩
    simp only [imdMulti]; rw [h1, h2]
  rd_ok := by
    intro r t s ⟨recs, hI, h1, h2, h3, h4, hnd, hall⟩ hs
    rw [← h3] at hs hnd
    obtain ⟨i, hi, hid⟩ := mem_index _ s hs
    have hir : i < recs.length := by rw [← hI.map]; exact hi
    obtain ⟨hr, hI', htrk⟩ := imd_read_sector t recs hI i s hir hid hnd
    have hd := hall _ (List.getElem_mem hir)
    refine ⟨recs[i].data, st t recs i, ?_, ?_, ⟨recs, hI', by rw [htrk]; exact ⟨h1, h2, h3, h4, by rw [← h3]; exact hnd, hall⟩⟩, ?_⟩
    · simp [imdMulti, hr, hd, resOpt]
    · rw [(hasData_wf t.trk.shift recs[i] (hI.wf _ (List.getElem_mem hir))).1 hd, secSize_eq, h4]
    · intro s' hs'
      rw [← h3] at hs'
      obtain ⟨j, hj, hjd⟩ := mem_index _ s' hs'
      have hjr : j < recs.length := by rw [← hI.map]; exact hj
      show resOpt (readTrack (st t recs i) s').1 = resOpt (readTrack t s').1
      rw [imd_view _ recs hI' (by rw [htrk]; exact hnd) hall j hjr s' (by rw [htrk]; exact hjd),
        imd_view t recs hI hnd hall j hjr s' hjd]
  wr_ok := by
    intro r t s d _ ⟨recs, hI, h1, h2, h3, h4, hnd, hall⟩ hs
    rw [← h3] at hs hnd
    obtain ⟨i, hi, hid⟩ := mem_index _ s hs
    have hir : i < recs.length := by rw [← hI.map]; exact hi
    have hd := hall _ (List.getElem_mem hir)
    obtain ⟨t', hw, hI', htrk⟩ := imd_write_sector t recs hI i s hir hid hnd d hd
    have hall' : ∀ x ∈ recs.set i ⟨recs[i].code, quantize d (secSize t.trk.shift)⟩, hasData x.code = true := by
      intro x hx
      rcases List.mem_or_eq_of_mem_set hx with hm | he
      · exact hall x hm
      · subst he; exact hd
    have hmap : t'.trk.sectorMap = t.trk.sectorMap := by rw [htrk]
    have hlen : (recs.set i ⟨recs[i].code, quantize d (secSize t.trk.shift)⟩).length = recs.length := List.length_set
    refine ⟨t', by simp [imdMulti, hw, resOk], ⟨_, hI', ?_, ?_, ?_, ?_, by rw [← h3]; exact hnd, hall'⟩, ?_, ?_⟩
    · rw [htrk]; exact h1
    · rw [htrk]; exact h2
    · rw [htrk]; exact h3
    · rw [htrk]; exact h4
    · show resOpt (readTrack t' s).1 = _
      rw [imd_view t' _ hI' (by rw [hmap]; exact hnd) hall' i (by rw [hlen]; exact hir) s (by rw [hmap]; exact hid)]
      simp only [List.getElem_set_self, resOpt, secSize_eq, h4]
      rfl
    · intro s' hs' hne
      rw [← h3] at hs'
      obtain ⟨j, hj, hjd⟩ := mem_index _ s' hs'
      have hjr : j < recs.length := by rw [← hI.map]; exact hj
      have hji : i ≠ j := by
        intro e; subst e; rw [hid] at hjd; exact hne (Option.some.inj hjd).symm
      show resOpt (readTrack t' s').1 = resOpt (readTrack t s').1
      rw [imd_view t' _ hI' (by rw [hmap]; exact hnd) hall' j (by rw [hlen]; exact hjr) s' (by rw [hmap]; exact hjd),
        imd_view t recs hI hnd hall j hjr s' hjd, List.getElem_set_ne hji]
  bad := by
    intro r t s d ⟨recs, hI, h1, h2, h3, h4, hnd, hall⟩ hs
    rw [← h3] at hs hnd
    have hab : ∀ j : Nat, t.trk.sectorMap[j]? ≠ some s := by
      intro j hj; exact hs (List.mem_of_getElem? hj)
    obtain ⟨t', hr, hw, hI', htrk⟩ := imd_absent_refused t recs hI s d hab
    have hT' : ImdTInv r t' := ⟨recs, hI', by rw [htrk]; exact ⟨h1, h2, h3, h4, by rw [← h3]; exact hnd, hall⟩⟩
    have hfr : ∀ s', s' ∈ r.ids → (imdMulti.rdT t' s').1 = (imdMulti.rdT t s').1 := by
      intro s' hs'
      rw [← h3] at hs'
      obtain ⟨j, hj, hjd⟩ := mem_index _ s' hs'
      have hjr : j < recs.length := by rw [← hI.map]; exact hj
      show resOpt (readTrack t' s').1 = resOpt (readTrack t s').1
      rw [imd_view t' recs hI' (by rw [htrk]; exact hnd) hall j hjr s' (by rw [htrk]; exact hjd),
        imd_view t recs hI hnd hall j hjr s' hjd]
    exact ⟨⟨t', by simp [imdMulti, hr, resOpt], hT', hfr⟩, ⟨t', by simp [imdMulti, hw, resOk], hT', hfr⟩⟩

/-- the IMD object as a sector store -/
def imdStore (g : List TrackRec) (u : CHS → Nat) : SecStore := multiStore imdMulti ImdTInv g u

/-- `rd` / `wr` of `imdStore` ARE `Obj.readSector` / `Obj.writeSector` of the C08 model -/
theorem imd_rd_is_model (g : List TrackRec) (u : CHS → Nat) (o : Obj) (a : CHS) :
    (imdStore g u).rd o a = (resOpt (o.readSector a.1 a.2.1 a.2.2).1, (o.readSector a.1 a.2.1 a.2.2).2) ∧
    ∀ d, (imdStore g u).wr o a d = (resOk (o.writeSector a.1 a.2.1 a.2.2 d).1, (o.writeSector a.1 a.2.1 a.2.2 d).2) := by
  constructor
  · simp only [imdStore, multiStore, imdMulti, Obj.readSector]
    cases findTrack o.tracks a.1 a.2.1 with
    | none => rfl
    | some i =>
      dsimp only
      cases o.tracks[i]? <;> rfl
  · intro d
    simp only [imdStore, multiStore, imdMulti, Obj.writeSector]
    cases findTrack o.tracks a.1 a.2.1 with
    | none => rfl
    | some i =>
      dsimp only
      cases o.tracks[i]? <;> rfl

/-! ## `Imd::create` -/

/-- `imd::Track::create`: all records normal (type 1), zero filled; head pointer and cached offset 0.  (The mode byte
and the head-map flag 0x40 of KAYPRO4's odd tracks, which `get_track_mut` masks away, are not represented.) -/
def imdFreshTrack (r : TrackRec) : TrackSt :=
  { trk := { mode := 0, cylinder := r.cyl, head := r.head, sectors := r.nsec, shift := r.shift, sectorMap := r.ids,
             cylMap := [], headMap := [],
             buf := flatten (r.ids.map fun _ => ⟨1, List.replicate (128 * 2 ^ r.shift) 0⟩) },
    headPos := 0, bufOffset := 0 }

/-- `Imd::create(kind)` for a layout with geometry `g` -/
def imdCreate (g : List TrackRec) : Obj := { header := [], comment := [], tracks := g.map imdFreshTrack }

/-- what the geometry of a layout has to satisfy (decided for every layout in `Props/C07All.lean`) -/
def geomFineB (g : List TrackRec) : Bool :=
  g.all fun r => decide (r.head < 16) && decide (r.ids.Nodup)

theorem and15 : ∀ h : Fin 16, h.val &&& IMD_HEAD_MASK = h.val := by decide

def freshRecs (r : TrackRec) : List Sec := r.ids.map fun _ => ⟨1, List.replicate (128 * 2 ^ r.shift) 0⟩

theorem imd_fresh_inv (r : TrackRec) : Inv (imdFreshTrack r) (freshRecs r) := by
  refine ⟨?_, rfl, by simp [imdFreshTrack, freshRecs], ?_, by simp [imdFreshTrack, offs_zero]⟩
  · intro s hs
    obtain ⟨_, _, rfl⟩ := List.mem_map.1 hs
    exact Or.inr ⟨Or.inl rfl, by simp [imdFreshTrack, secSize_eq]⟩
  · intro hne
    show 0 < _
    exact List.length_pos_iff.2 hne

theorem fresh_all (r : TrackRec) : ∀ x ∈ freshRecs r, hasData x.code = true := by
  intro x hx
  obtain ⟨_, _, rfl⟩ := List.mem_map.1 hx
  rfl

theorem imd_fresh_tinv (r : TrackRec) (hh : r.head < 16) (hnd : r.ids.Nodup) : ImdTInv r (imdFreshTrack r) :=
  ⟨freshRecs r, imd_fresh_inv r, rfl, and15 ⟨r.head, hh⟩, rfl, rfl, hnd, fresh_all r⟩

theorem imd_create_shows (g : List TrackRec) (u : CHS → Nat) (hg : GeomOk g) (hf : geomFineB g = true)
    (hu : ∀ i (hi : i < g.length) (sec : Nat), u (g[i].cyl, g[i].head, sec) = 128 * 2 ^ g[i].shift) :
    Shows (imdStore g u) (imdCreate g) (zeros u) := by
  have hfine : ∀ i (hi : i < g.length), g[i].head < 16 ∧ g[i].ids.Nodup := by
    intro i hi
    have := (List.all_eq_true.mp hf) g[i] (List.getElem_mem hi)
    simpa using this
  have hI : MInv imdMulti ImdTInv g (imdCreate g) := by
    refine ⟨by simp [imdMulti, imdCreate], ?_⟩
    intro i hi hj
    have : (imdMulti.get (imdCreate g))[i] = imdFreshTrack g[i] := by simp [imdMulti, imdCreate]
    rw [this]
    exact imd_fresh_tinv g[i] (hfine i hi).1 (hfine i hi).2
  refine ⟨hI, ?_⟩
  intro a ha
  obtain ⟨c, h, sec⟩ := a
  obtain ⟨i, hi, hc, hh, hs⟩ := (validG_spec g c h sec).1 ha
  subst hc; subst hh
  have hj : i < (imdMulti.get (imdCreate g)).length := by rw [hI.1]; exact hi
  show ((multiStore imdMulti ImdTInv g u).rd (imdCreate g) (g[i].cyl, g[i].head, sec)).1 = _
  rw [multi_rd_at imdMulti ImdTInv g u imd_multi_ok imd_trk_laws hg _ hI i hi sec hj]
  have ht : (imdMulti.get (imdCreate g))[i] = imdFreshTrack g[i] := by simp [imdMulti, imdCreate]
  rw [ht]
  obtain ⟨j, hjl, hjd⟩ := mem_index _ sec hs
  have hjr : j < (freshRecs g[i]).length := by simpa [freshRecs] using hjl
  show resOpt (readTrack (imdFreshTrack g[i]) sec).1 = _
  rw [imd_view _ _ (imd_fresh_inv g[i]) (hfine i hi).2 (fresh_all g[i]) j hjr sec hjd]
  simp [resOpt, freshRecs, zeros, hu i hi sec]

end A2Verif.C07All
