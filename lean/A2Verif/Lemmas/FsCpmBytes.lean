import A2Verif.Lemmas.FsCpmLoop
/-!
# Byte-level facts about `set_flags`, `set_name` and what the reader looks at in an entry
-/
namespace A2Verif.FsCpm
open A2Verif.Fs.Cpm
open A2Verif.Read.Cpm (Dpb fileKey extNum entryPtrs pathOf slots)

theorem getD_splice {e new : Bytes} {off : Nat} (h : off ≤ e.length) (i : Nat) :
    (splice e off new).getD i 0 = if i < off then e.getD i 0 else if i < off + new.length then new.getD (i - off) 0 else e.getD i 0 := by
  unfold splice
  simp only [List.getD_eq_getElem?_getD]
  by_cases c1 : i < off
  · rw [if_pos c1, List.append_assoc, List.getElem?_append_left (by rw [List.length_take]; omega), List.getElem?_take, if_pos c1]
  · rw [if_neg c1, List.append_assoc, List.getElem?_append_right (by rw [List.length_take]; omega), List.length_take,
      Nat.min_eq_left h]
    by_cases c2 : i < off + new.length
    · rw [if_pos c2, List.getElem?_append_left (by omega)]
    · rw [if_neg c2, List.getElem?_append_right (by omega), List.getElem?_drop]
      congr 2
      omega

/-- the bytes of an entry after `set_flags` -/
theorem setFlags_getD {e f1 f2 : Bytes} (he : e.length = 32) (i : Nat) :
    (Ext.setFlags e f1 f2).getD i 0 =
      if 1 ≤ i ∧ i < 9 then hi (f1.getD (i - 1) 0) + lo (e.getD i 0)
      else if 9 ≤ i ∧ i < 12 then hi (f2.getD (i - 9) 0) + lo (e.getD i 0)
      else e.getD i 0 := by
  unfold Ext.setFlags
  have l1 : ((List.range 8).map (fun i => hi (f1.getD i 0) + lo ((Ext.name e).getD i 0))).length = 8 := by simp
  have l2 : ((List.range 3).map (fun i => hi (f2.getD i 0) + lo ((Ext.typ e).getD i 0))).length = 3 := by simp
  have ls : (splice e 1 ((List.range 8).map (fun i => hi (f1.getD i 0) + lo ((Ext.name e).getD i 0)))).length = 32 := by
    rw [splice_length (by rw [l1, he]; decide), he]
  rw [getD_splice (by rw [ls]; decide), l2, getD_splice (by rw [he]; decide), l1]
  by_cases c0 : i < 1
  · rw [if_pos (show i < 9 by omega), if_pos c0, if_neg (by omega), if_neg (by omega)]
  · by_cases c1 : i < 9
    · rw [if_pos c1, if_neg c0, if_pos (show i < 1 + 8 by omega), if_pos ⟨by omega, c1⟩]
      simp only [List.getD_eq_getElem?_getD, List.getElem?_map, List.getElem?_range (show i - 1 < 8 by omega), Option.map_some,
        Option.getD_some]
      have := getD_slice e 1 8 (i - 1) (by omega)
      simp only [List.getD_eq_getElem?_getD] at this
      have e1 : 1 + (i - 1) = i := by omega
      rw [e1] at this
      unfold Ext.name
      rw [this]
    · by_cases c2 : i < 9 + 3
      · rw [if_neg c1, if_pos c2, if_neg (by omega), if_pos ⟨by omega, by omega⟩]
        simp only [List.getD_eq_getElem?_getD, List.getElem?_map, List.getElem?_range (show i - 9 < 3 by omega), Option.map_some,
          Option.getD_some]
        have := getD_slice e 9 3 (i - 9) (by omega)
        simp only [List.getD_eq_getElem?_getD] at this
        have e1 : 9 + (i - 9) = i := by omega
        rw [e1] at this
        unfold Ext.typ
        rw [this]
      · rw [if_neg c1, if_neg c2, if_neg c0, if_neg (by omega), if_neg (by omega), if_neg (by omega)]

theorem setFlags_length {e f1 f2 : Bytes} (he : e.length = 32) : (Ext.setFlags e f1 f2).length = 32 := by
  unfold Ext.setFlags
  have l1 : ((List.range 8).map (fun i => hi (f1.getD i 0) + lo ((Ext.name e).getD i 0))).length = 8 := by simp
  have l2 : ((List.range 3).map (fun i => hi (f2.getD i 0) + lo ((Ext.typ e).getD i 0))).length = 3 := by simp
  rw [splice_length (by rw [splice_length (by rw [l1, he]; decide), l2, he]; decide), splice_length (by rw [l1, he]; decide), he]

/-- the bytes of an entry after `set_name` -/
theorem setName_getD {e nm ty : Bytes} (he : e.length = 32) (i : Nat) :
    (Ext.setName e nm ty).getD i 0 =
      if 1 ≤ i ∧ i < 9 then lo (nm.getD (i - 1) 0) + hi (e.getD i 0)
      else if 9 ≤ i ∧ i < 12 then lo (ty.getD (i - 9) 0) + hi (e.getD i 0)
      else e.getD i 0 := by
  unfold Ext.setName
  have l1 : ((List.range 8).map (fun i => lo (nm.getD i 0) + hi ((Ext.name e).getD i 0))).length = 8 := by simp
  have l2 : ((List.range 3).map (fun i => lo (ty.getD i 0) + hi ((Ext.typ e).getD i 0))).length = 3 := by simp
  have ls : (splice e 1 ((List.range 8).map (fun i => lo (nm.getD i 0) + hi ((Ext.name e).getD i 0)))).length = 32 := by
    rw [splice_length (by rw [l1, he]; decide), he]
  rw [getD_splice (by rw [ls]; decide), l2, getD_splice (by rw [he]; decide), l1]
  by_cases c0 : i < 1
  · rw [if_pos (show i < 9 by omega), if_pos c0, if_neg (by omega), if_neg (by omega)]
  · by_cases c1 : i < 9
    · rw [if_pos c1, if_neg c0, if_pos (show i < 1 + 8 by omega), if_pos ⟨by omega, c1⟩]
      simp only [List.getD_eq_getElem?_getD, List.getElem?_map, List.getElem?_range (show i - 1 < 8 by omega), Option.map_some,
        Option.getD_some]
      have := getD_slice e 1 8 (i - 1) (by omega)
      simp only [List.getD_eq_getElem?_getD] at this
      have e1 : 1 + (i - 1) = i := by omega
      rw [e1] at this
      unfold Ext.name
      rw [this]
    · by_cases c2 : i < 9 + 3
      · rw [if_neg c1, if_pos c2, if_neg (by omega), if_pos ⟨by omega, by omega⟩]
        simp only [List.getD_eq_getElem?_getD, List.getElem?_map, List.getElem?_range (show i - 9 < 3 by omega), Option.map_some,
          Option.getD_some]
        have := getD_slice e 9 3 (i - 9) (by omega)
        simp only [List.getD_eq_getElem?_getD] at this
        have e1 : 9 + (i - 9) = i := by omega
        rw [e1] at this
        unfold Ext.typ
        rw [this]
      · rw [if_neg c1, if_neg c2, if_neg c0, if_neg (by omega), if_neg (by omega), if_neg (by omega)]

theorem setName_length {e nm ty : Bytes} (he : e.length = 32) : (Ext.setName e nm ty).length = 32 := by
  unfold Ext.setName
  have l1 : ((List.range 8).map (fun i => lo (nm.getD i 0) + hi ((Ext.name e).getD i 0))).length = 8 := by simp
  have l2 : ((List.range 3).map (fun i => lo (ty.getD i 0) + hi ((Ext.typ e).getD i 0))).length = 3 := by simp
  rw [splice_length (by rw [splice_length (by rw [l1, he]; decide), l2, he]; decide), splice_length (by rw [l1, he]; decide), he]

/-! ## what the reader looks at -/

/-- two entries with the same bytes from offset 12 on (extent counters, record counts, block pointers) -/
structure SameTail (e e' : Bytes) : Prop where
  len : e.length = 32
  len' : e'.length = 32
  tail : ∀ i, 12 ≤ i → e'.getD i 0 = e.getD i 0

theorem le16_congr {e e' : Bytes} {off : Nat} (h0 : e'.getD off 0 = e.getD off 0) (h1 : e'.getD (off + 1) 0 = e.getD (off + 1) 0) :
    le16 e' off = le16 e off := by
  unfold le16; rw [h0, h1]

theorem SameTail.extNum {e e' : Bytes} (h : SameTail e e') : extNum e' = extNum e := by
  unfold Read.Cpm.extNum; rw [h.tail 14 (by omega), h.tail 12 (by omega)]

theorem SameTail.entryPtrs {e e' : Bytes} (h : SameTail e e') (d : Dpb) : entryPtrs d e' = entryPtrs d e := by
  unfold Read.Cpm.entryPtrs
  split
  · apply List.map_congr_left
    intro k _
    exact le16_congr (h.tail _ (by omega)) (h.tail _ (by omega))
  · apply List.map_congr_left
    intro k _
    exact h.tail _ (by omega)

theorem SameTail.ownedE {e e' : Bytes} (h : SameTail e e') (d : Dpb) : ownedE d e' = ownedE d e := by
  unfold FsCpm.ownedE nzPtrs; rw [h.entryPtrs]

theorem SameTail.chunksE {e e' : Bytes} (h : SameTail e e') (r : Raw) (d : Dpb) : chunksE r d e' = chunksE r d e := by
  unfold FsCpm.chunksE nzPtrs; rw [h.entryPtrs, h.extNum]

theorem SameTail.ptrsOkB {e e' : Bytes} (h : SameTail e e') (d : Dpb) : ptrsOkB d e' = ptrsOkB d e := by
  unfold FsCpm.ptrsOkB; rw [h.entryPtrs]

end A2Verif.FsCpm
