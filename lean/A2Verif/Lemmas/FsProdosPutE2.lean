import A2Verif.Lemmas.FsProdosPutE
/-!
# What the reader finds under the entry of a tree file

`group_read`: the reader's `treeIndex` on the index block of one group.  `tree_read`: on any image that agrees with the final
one on the blocks taken, an entry with the storage type, key pointer and block count of the entry under construction reads as
the record with the chunks of the file image and exactly the blocks taken as owned blocks, in the order master index block,
then group by group the index block and its data blocks.
-/
namespace A2Verif.FsProdos
open A2Verif.Fs.Prodos
open A2Verif.Read.Prodos (entryAt dirChain idxPtr indexEntries readData trimName)
open A2Verif.Read.ProdosT

/-- the chunks of group `j` with local index below `n`, as the reader returns them -/
def grpChunks (f : FImg) (j n : Nat) : List (Nat × Bytes) :=
  (List.range n).filterMap (fun k => (f.chunks.lookup (256 * j + k)).map (fun data => (256 * j + k, quantize (data.take blockSize))))

/-- **the reader on the index block of one group** -/
theorem group_read {f : FImg} {d2 dc : Disk} {bm cnt : Nat} {Al : List Nat} (ctx : LoopCtx d2 bm cnt) (a : AState d2 bm cnt dc Al)
    (r : Raw) (hr : ∀ j ∈ Al, r.units[j]? = dc.raw.units[j]?) (j q : Nat) (ps : List Nat)
    (g : GroupOk f dc.raw Al j q ps) (hq : q ≠ 0) (hlen : ps.length ≤ 256) :
    treeIndex r d2.total (j, q) = .ok (grpChunks f j ps.length, q :: ps.filter (· ≠ 0)) := by
  obtain ⟨hqt, _, _, hunit⟩ := unit_of_al ctx a r hr q (g.ipal hq)
  have hps : indexEntries (unitAt dc.raw q) (256 * j) = entriesOf (256 * j) ps := indexEntries_is _ _ _ (g.blk hq) hlen
  have hmem : ∀ x ∈ entriesOf (256 * j) ps, x.2 ∈ Al := by
    intro x hx
    have : x.2 ∈ (entriesOf (256 * j) ps).map (·.2) := List.mem_map_of_mem hx
    rw [entriesOf_snd] at this
    obtain ⟨hxP, hx0⟩ := List.mem_filter.mp this
    exact g.pal x.2 hxP (by simpa using hx0)
  have hrd : readData r d2.total (entriesOf (256 * j) ps) = .ok ((entriesOf (256 * j) ps).map (fun x => (x.1, unitAt r x.2))) :=
    readData_ok r d2.total _ (fun x hx => by
      obtain ⟨h1, h2, _, _⟩ := unit_of_al ctx a r hr x.2 (hmem x hx); exact ⟨h1, h2⟩)
  have hchunks : (entriesOf (256 * j) ps).map (fun x => (x.1, unitAt r x.2)) = grpChunks f j ps.length := by
    unfold entriesOf grpChunks
    rw [List.map_filterMap]
    apply filterMap_congr_mem
    intro k hk
    have hkc := List.mem_range.mp hk
    cases hl : f.chunks.lookup (256 * j + k) with
    | none => rw [g.hole k hkc hl]; rfl
    | some data =>
      obtain ⟨h0, hu⟩ := g.dat k hkc data hl
      rw [if_neg h0]
      obtain ⟨_, _, hur, _⟩ := unit_of_al ctx a r hr _ (g.pal _ (getD_mem_of_lt _ _ hkc) h0)
      simp only [Option.map_some, hur, hu]
  unfold treeIndex
  simp only
  rw [if_neg (by omega), hunit]
  simp only [hps, hrd, hchunks, entriesOf_snd]

/-- the (group number, index block) pairs of the non-zero pointers of a master index, from group `j0` on -/
def idxsOfQ : Nat → List Nat → List (Nat × Nat)
  | _, [] => []
  | j0, q :: Q => (if q = 0 then [] else [(j0, q)]) ++ idxsOfQ (j0 + 1) Q

theorem idxsOfQ_eq : ∀ (Q : List Nat) (j0 : Nat),
    (List.range' j0 Q.length).filterMap (fun k => if Q.getD (k - j0) 0 = 0 then none else some (k, Q.getD (k - j0) 0)) = idxsOfQ j0 Q
  | [], _ => rfl
  | q :: Q, j0 => by
    rw [List.length_cons, List.range'_succ, List.filterMap_cons, idxsOfQ]
    have ih := idxsOfQ_eq Q (j0 + 1)
    have hcongr : (List.range' (j0 + 1) Q.length).filterMap
        (fun k => if (q :: Q).getD (k - j0) 0 = 0 then none else some (k, (q :: Q).getD (k - j0) 0)) =
        (List.range' (j0 + 1) Q.length).filterMap
        (fun k => if Q.getD (k - (j0 + 1)) 0 = 0 then none else some (k, Q.getD (k - (j0 + 1)) 0)) := by
      apply filterMap_congr_mem
      intro k hk
      rw [List.mem_range'_1] at hk
      have : k - j0 = (k - (j0 + 1)) + 1 := by omega
      rw [this]
      simp only [List.getD_eq_getElem?_getD, List.getElem?_cons_succ]
    rw [hcongr, ih]
    simp only [Nat.sub_self, List.getD_eq_getElem?_getD, List.getElem?_cons_zero, Option.getD_some]
    by_cases hq : q = 0
    · simp [hq]
    · simp [hq]

/-- the reader's view of a master index buffer -/
theorem masterEntries_is (mb : Bytes) (Q : List Nat) (h : IdxIs mb Q) (hn : Q.length ≤ 128) :
    (List.range 128).filterMap (fun k => let p := idxPtr mb k; if p = 0 then none else some (k, p)) = idxsOfQ 0 Q := by
  rw [← idxsOfQ_eq Q 0]
  have hsplit : List.range 128 = List.range' 0 Q.length ++ List.range' Q.length (128 - Q.length) := by
    rw [List.range_eq_range']
    have : 128 = Q.length + (128 - Q.length) := by omega
    conv => lhs; rw [this]
    rw [← List.range'_append_1]
    simp
  rw [hsplit, List.filterMap_append]
  have hhi : (List.range' Q.length (128 - Q.length)).filterMap
      (fun k => let p := idxPtr mb k; if p = 0 then none else some (k, p)) = [] := by
    rw [List.filterMap_eq_nil_iff]
    intro k hk
    rw [List.mem_range'_1] at hk
    have := h.ptr k (by omega)
    simp only [List.getD_eq_getElem?_getD] at this
    rw [List.getElem?_eq_none (by omega)] at this
    simp at this
    simp [this]
  rw [hhi, List.append_nil]
  apply filterMap_congr_mem
  intro k hk
  rw [List.mem_range'_1] at hk
  simp only [h.ptr k (by omega), Nat.sub_zero]

/-- what the reader's `treeIndex` returns group by group -/
def partsOf (f : FImg) : Nat → List (Nat × List Nat) → List (List (Nat × Bytes) × List Nat)
  | _, [] => []
  | j0, q :: GG => (if q.1 = 0 then [] else [(grpChunks f j0 q.2.length, q.1 :: q.2.filter (· ≠ 0))]) ++ partsOf f (j0 + 1) GG

theorem parts_read {f : FImg} {d2 dc : Disk} {bm cnt : Nat} {Al : List Nat} (ctx : LoopCtx d2 bm cnt) (a : AState d2 bm cnt dc Al)
    (r : Raw) (hr : ∀ j ∈ Al, r.units[j]? = dc.raw.units[j]?) :
    ∀ (GG : List (Nat × List Nat)) (j0 : Nat),
      (∀ i (h : i < GG.length), GG[i].2.length ≤ 256 ∧ GroupOk f dc.raw Al (j0 + i) GG[i].1 GG[i].2) →
      (idxsOfQ j0 (GG.map (·.1))).mapM (treeIndex r d2.total) = .ok (partsOf f j0 GG)
  | [], _, _ => rfl
  | q :: GG, j0, h => by
    have ih := parts_read ctx a r hr GG (j0 + 1) (fun i hi => by
      have := h (i + 1) (by simp; omega)
      simp only [List.getElem_cons_succ] at this
      rw [show j0 + (i + 1) = j0 + 1 + i by omega] at this
      exact this)
    have h0 := h 0 (by simp)
    simp only [List.getElem_cons_zero, Nat.add_zero] at h0
    rw [List.map_cons, idxsOfQ, partsOf]
    by_cases hq : q.1 = 0
    · rw [if_pos hq, if_pos hq, List.nil_append, List.nil_append]; exact ih
    · rw [if_neg hq, if_neg hq, List.singleton_append, List.singleton_append, List.mapM_cons,
        group_read ctx a r hr j0 q.1 q.2 h0.2 hq h0.1, ih]
      rfl

theorem partsOf_owned (f : FImg) : ∀ (GG : List (Nat × List Nat)) (j0 : Nat), ((partsOf f j0 GG).map (·.2)).flatten = ownedOf GG
  | [], _ => rfl
  | q :: GG, j0 => by
    rw [partsOf, List.map_append, List.flatten_append, partsOf_owned f GG (j0 + 1)]
    show _ = ownedOf ([q] ++ GG)
    rw [ownedOf_append, ownedOf_single]
    congr 1
    unfold grpOwned
    by_cases hq : q.1 = 0 <;> simp [hq]

/-- the chunks of the groups one after the other -/
def allChunks (f : FImg) : Nat → List (Nat × List Nat) → List (Nat × Bytes)
  | _, [] => []
  | j0, q :: GG => grpChunks f j0 q.2.length ++ allChunks f (j0 + 1) GG

theorem partsOf_chunks (f : FImg) : ∀ (GG : List (Nat × List Nat)) (j0 : Nat),
    (∀ i (h : i < GG.length), GG[i].1 = 0 → grpChunks f (j0 + i) GG[i].2.length = []) →
    ((partsOf f j0 GG).map (·.1)).flatten = allChunks f j0 GG
  | [], _, _ => rfl
  | q :: GG, j0, h => by
    have ih := partsOf_chunks f GG (j0 + 1) (fun i hi h0 => by
      have := h (i + 1) (by simp; omega) (by simpa using h0)
      simp only [List.getElem_cons_succ] at this
      rw [show j0 + (i + 1) = j0 + 1 + i by omega] at this
      exact this)
    rw [partsOf, allChunks, List.map_append, List.flatten_append, ih]
    congr 1
    by_cases hq : q.1 = 0
    · have := h 0 (by simp) (by simpa using hq)
      simp only [List.getElem_cons_zero, Nat.add_zero] at this
      rw [if_pos hq, this]; rfl
    · rw [if_neg hq]; simp

/-- the chunk at index `k`, as the reader returns it -/
def chunkQ (f : FImg) (k : Nat) : Option (Nat × Bytes) := (f.chunks.lookup k).map (fun data => (k, quantize (data.take blockSize)))

theorem grpChunks_range' (f : FImg) (j n : Nat) : grpChunks f j n = (List.range' (256 * j) n).filterMap (chunkQ f) := by
  unfold grpChunks
  rw [List.range'_eq_map_range, List.filterMap_map]
  rfl

theorem allChunks_range' (f : FImg) (l : Nat × List Nat) : ∀ (G : List (Nat × List Nat)) (j0 : Nat), (∀ g ∈ G, g.2.length = 256) →
    allChunks f j0 (G ++ [l]) = (List.range' (256 * j0) (256 * G.length + l.2.length)).filterMap (chunkQ f)
  | [], j0, _ => by
    show grpChunks f j0 l.2.length ++ [] = _
    rw [List.append_nil, grpChunks_range']; simp
  | g :: G, j0, h => by
    have ih := allChunks_range' f l G (j0 + 1) (fun x hx => h x (List.mem_cons_of_mem _ hx))
    show grpChunks f j0 g.2.length ++ allChunks f (j0 + 1) (G ++ [l]) = _
    rw [ih, grpChunks_range', h g List.mem_cons_self, ← List.filterMap_append]
    congr 1
    rw [show 256 * (j0 + 1) = 256 * j0 + 256 by omega, List.range'_append_1]
    congr 1
    simp only [List.length_cons]; omega

/-- a group without index block has no chunks -/
theorem grpChunks_nil {f : FImg} {r : Raw} {Al : List Nat} {j : Nat} {ps : List Nat} (g : GroupOk f r Al j 0 ps) :
    grpChunks f j ps.length = [] := by
  unfold grpChunks
  rw [List.filterMap_eq_nil_iff]
  intro k hk
  have hkl := List.mem_range.mp hk
  cases hl : f.chunks.lookup (256 * j + k) with
  | none => rfl
  | some data => exact absurd (g.zero rfl _ (getD_mem_of_lt _ _ hkl)) (g.dat k hkl data hl).1

/-- **the reader on a tree file** -/
theorem tree_read {f : FImg} {d2 : Disk} {bm cnt : Nat} {e0 : Bytes} {c : Nat} {s : WS} {dc : Disk} {Al : List Nat}
    {G : List (Nat × List Nat)} {P : List Nat} (ctx : LoopCtx d2 bm cnt) (inv : TreeInv f d2 bm cnt e0 c s dc Al G P)
    (hmc : s.masterCount ≤ 127)
    (r : Raw) (hr : ∀ j ∈ Al, r.units[j]? = dc.raw.units[j]?) (e : Bytes) (hsame : SameBlocks s.entry e) (pfx : Bytes) :
    Read.ProdosT.readFile r d2.total e pfx =
      .ok { baseRec e pfx with
        chunks := (List.range c).filterMap (chunkQ f),
        owned := s.masterPtr :: ownedOf (G ++ [(s.indexPtr, P)]) } := by
  have hst : e.getD 0 0 / 16 = 3 := by
    rw [hsame.st, inv.ent.b0]; have := Nat.mod_lt (e0.getD 0 0) (by decide : 16 > 0); omega
  have hkey : le16 e 0x11 = s.masterPtr := by rw [hsame.key]; exact inv.ent.key
  have hused : le16 e 0x13 = Al.length := by rw [hsame.used]; exact inv.ent.used
  have hMAl : s.masterPtr ∈ Al := (inv.ownAl _).mp List.mem_cons_self
  obtain ⟨_, _, _, hunit⟩ := unit_of_al ctx inv.a r hr s.masterPtr hMAl
  have hidx := masterEntries_is s.masterBuf ((G ++ [(s.indexPtr, P)]).map (·.1)) (by rw [List.map_append]; exact inv.mbuf)
    (by rw [List.length_map, List.length_append, inv.gl]; simp; omega)
  have hparts := parts_read ctx inv.a r hr (G ++ [(s.indexPtr, P)]) 0 (fun i hi => by
    rw [List.length_append, List.length_singleton] at hi
    by_cases hil : i < G.length
    · rw [List.getElem_append_left hil, Nat.zero_add]
      exact ⟨by rw [(inv.gfin i hil).1]; omega, (inv.gfin i hil).2⟩
    · have hie : i = G.length := by omega
      subst hie
      rw [List.getElem_append_right (Nat.le_refl _)]
      simp only [Nat.sub_self, List.getElem_cons_zero, Nat.zero_add]
      refine ⟨by rw [inv.plen]; exact inv.icr, ?_⟩
      rw [inv.gl]; exact inv.gcur)
  have hchunks : ((partsOf f 0 (G ++ [(s.indexPtr, P)])).map (·.1)).flatten = (List.range c).filterMap (chunkQ f) := by
    rw [partsOf_chunks f _ 0 (fun i hi h0 => by
      rw [List.length_append, List.length_singleton] at hi
      rw [Nat.zero_add]
      by_cases hil : i < G.length
      · rw [List.getElem_append_left hil] at h0 ⊢
        have := (inv.gfin i hil).2
        rw [h0] at this
        exact grpChunks_nil this
      · have hie : i = G.length := by omega
        subst hie
        rw [List.getElem_append_right (Nat.le_refl _)] at h0 ⊢
        simp only [Nat.sub_self, List.getElem_cons_zero] at h0 ⊢
        have := inv.gcur
        rw [h0, ← inv.gl] at this
        exact grpChunks_nil this)]
    rw [allChunks_range' f _ G 0 (fun g hg => by
      obtain ⟨i, hi, rfl⟩ := List.getElem_of_mem hg
      exact (inv.gfin i hi).1)]
    simp only [Nat.mul_zero]
    rw [inv.gl, inv.plen, ← inv.cc, List.range_eq_range']
  unfold Read.ProdosT.readFile
  simp only [hst, hkey, hused, hunit, inv.mblk, hidx, hparts, hchunks, partsOf_owned]
  rw [if_neg (by decide), if_neg (by decide)]
  simp only [List.length_cons, inv.olen]
  rw [if_neg (by omega)]

end A2Verif.FsProdos
