import A2Verif.Lemmas.RenumberStep
/-!
Part 17 (C16): `apply_edits` on the edit list of the move path
`[line_sep at end_pos, block at (ins,0)] ++ deletions of the selected rows ++ label edits of the other rows`.
-/
namespace A2Verif.Lemmas.Renumber
open A2Verif.Model.Renumber

/-- the rows after a move, from source row `k` on: `N` are the (label-edited) source rows `k, k+1, …`; the
selected rows `a..b` are dropped, every other row is kept in order, and the block `B` is emitted immediately in
front of source row `ins`. -/
def placeFrom (a b ins : Nat) (B : List (List Nat)) : Nat → List (List Nat) → List (List Nat)
  | _, [] => []
  | k, n :: N =>
    (if a ≤ k ∧ k ≤ b then [] else (if k = ins then B else []) ++ [n]) ++ placeFrom a b ins B (k + 1) N

/-- the deletion of row `l` as `build_edits` writes it -/
def delEdit (l : Nat) : Edit := ⟨⟨⟨l, 0⟩, ⟨l + 1, 0⟩⟩, []⟩

/-- the edit list `build_edits` returns when it moves rows `a..b` in front of row `ins` (`L` rows, the last
one `lastLen` characters long) -/
def moveEdits (L a b ins lastLen : Nat) (sep upd : List Nat) (U : List Edit) : List Edit :=
  [⟨⟨⟨L - 1, lastLen⟩, ⟨L - 1, lastLen⟩⟩, sep⟩, ⟨⟨⟨ins, 0⟩, ⟨ins, 0⟩⟩, upd⟩] ++ (rangeList a b).map delEdit ++ U

/-- the edit starts at or behind `end_pos` -/
def isHead (L lastLen : Nat) (e : Edit) : Bool :=
  decide (L ≤ e.rng.s.line ∨ (e.rng.s.line + 1 = L ∧ lastLen ≤ e.rng.s.ch))

/-- the situation of a move: rows `a..b` of `rows` go in front of row `ins` (outside `a..b+1`); `B` is the
pre-edited block, `U` the label edits of the other rows -/
structure MoveCtx (rows : List (List Nat)) (a b ins : Nat) (last sep upd : List Nat) (B : List (List Nat))
    (U : List Edit) : Prop where
  hnl : ∀ l ∈ rows, NoNl l
  hab : a ≤ b
  hbL : b < rows.length
  hins : ins < a ∨ b + 2 ≤ ins
  hinsL : ins ≤ rows.length
  hlast : rows[rows.length - 1]? = some last
  hsep : crlfToLf sep = [10]
  hupd : crlfToLf upd = joinT B
  hB : ∀ x ∈ B, NoNl x
  hBne : B ≠ []
  hinsNe : ∀ l, rows[ins]? = some l → l ≠ []
  hbNe : ∀ l, rows[b]? = some l → l ≠ []
  hU : ∀ ed ∈ U, ed.rng.e.line = ed.rng.s.line ∧ NoNl ed.new ∧ ed.rng.s.ch < ed.rng.e.ch ∧ ed.new ≠ [] ∧
    ¬ (a ≤ ed.rng.s.line ∧ ed.rng.s.line ≤ b) ∧ ∃ l, rows[ed.rng.s.line]? = some l ∧ ed.rng.e.ch ≤ l.length
  hUdis : U.Pairwise DisjE

theorem mem_rangeList (a b l : Nat) : l ∈ rangeList a b ↔ a ≤ l ∧ l ≤ b := by
  unfold rangeList
  simp only [List.mem_map, List.mem_range]
  constructor
  · rintro ⟨i, hi, rfl⟩; omega
  · intro h; exact ⟨l - a, by omega, by omega⟩

theorem range_filter_eq (n j : Nat) (h : j < n) : (List.range n).filter (fun i => i == j) = [j] := by
  induction n with
  | zero => omega
  | succ n ih =>
    rw [List.range_succ, List.filter_append]
    by_cases hj : j = n
    · subst hj
      have : (List.range j).filter (fun i => i == j) = [] := by
        apply List.filter_eq_nil_iff.mpr
        intro a ha
        have := List.mem_range.mp ha
        simp; omega
      simp [this]
    · have : ([n].filter fun i => i == j) = [] := by
        apply List.filter_eq_nil_iff.mpr
        intro a ha
        simp at ha
        simp; omega
      rw [this, ih (by omega)]; simp

theorem dels_filter (a b k : Nat) (h : a ≤ k ∧ k ≤ b) :
    ((rangeList a b).map delEdit).filter (fun e => e.rng.s.line == k) = [delEdit k] := by
  unfold rangeList
  rw [List.map_map, List.filter_map]
  have hc : (List.range (b + 1 - a)).filter ((fun e : Edit => e.rng.s.line == k) ∘ (delEdit ∘ fun x => x + a)) =
      (List.range (b + 1 - a)).filter (fun i => i == k - a) := by
    apply List.filter_congr
    intro x _
    simp only [Function.comp, delEdit]
    rw [Bool.eq_iff_iff]
    simp only [beq_iff_eq]
    omega
  rw [hc, range_filter_eq _ _ (by omega)]
  simp only [List.map_cons, List.map_nil, Function.comp]
  congr 2
  omega

theorem dels_filter_none (a b k : Nat) (h : ¬ (a ≤ k ∧ k ≤ b)) :
    ((rangeList a b).map delEdit).filter (fun e => e.rng.s.line == k) = [] := by
  apply List.filter_eq_nil_iff.mpr
  intro e he
  obtain ⟨l, hl, rfl⟩ := List.mem_map.mp he
  have := (mem_rangeList a b l).mp hl
  simp only [delEdit, beq_iff_eq]
  omega

theorem placeFrom_ne_nil (a b ins : Nat) (B : List (List Nat)) (k : Nat) (N : List (List Nat)) (j : Nat)
    (hj : j < N.length) (hout : ¬ (a ≤ k + j ∧ k + j ≤ b)) : placeFrom a b ins B k N ≠ [] := by
  induction N generalizing k j with
  | nil => cases hj
  | cons n N ih =>
    unfold placeFrom
    cases j with
    | zero =>
      simp only [Nat.add_zero] at hout
      rw [if_neg hout]; simp
    | succ j =>
      have := ih (k + 1) j (by simpa using hj) (by rw [Nat.add_assoc, Nat.add_comm 1 j]; exact hout)
      simp [this]

section
variable {rows : List (List Nat)} {a b ins : Nat} {last sep upd : List Nat} {B : List (List Nat)} {U : List Edit}

theorem MoveCtx.Lpos (c : MoveCtx rows a b ins last sep upd B U) : 0 < rows.length := by
  have := c.hbL; omega

theorem MoveCtx.lastNe (c : MoveCtx rows a b ins last sep upd B U) (h : ins + 1 = rows.length ∨ b + 1 = rows.length) :
    0 < last.length := by
  have hl := c.hlast
  rcases h with h | h
  · have : rows.length - 1 = ins := by omega
    rw [this] at hl
    exact List.length_pos_iff.mpr (c.hinsNe _ hl)
  · have : rows.length - 1 = b := by omega
    rw [this] at hl
    exact List.length_pos_iff.mpr (c.hbNe _ hl)

theorem MoveCtx.head_E1 (c : MoveCtx rows a b ins last sep upd B U) :
    isHead rows.length last.length ⟨⟨⟨ins, 0⟩, ⟨ins, 0⟩⟩, upd⟩ = decide (ins = rows.length) := by
  have h1 := c.hinsL
  by_cases h : ins = rows.length
  · simp [isHead, h]
  · have : ¬ (ins + 1 = rows.length ∧ last.length ≤ 0) := by
      rintro ⟨h2, h3⟩
      have := c.lastNe (Or.inl h2)
      omega
    simp only [isHead, h, decide_false, decide_eq_false_iff_not]
    omega

theorem MoveCtx.head_del (c : MoveCtx rows a b ins last sep upd B U) :
    ∀ e ∈ (rangeList a b).map delEdit, isHead rows.length last.length e = false := by
  intro e he
  obtain ⟨l, hl, rfl⟩ := List.mem_map.mp he
  have := (mem_rangeList a b l).mp hl
  have hb := c.hbL
  have : ¬ (l + 1 = rows.length ∧ last.length ≤ 0) := by
    rintro ⟨h2, h3⟩
    have := c.lastNe (Or.inr (by omega))
    omega
  unfold isHead
  exact decide_eq_false (by simp only [delEdit]; omega)

theorem MoveCtx.head_U (c : MoveCtx rows a b ins last sep upd B U) :
    ∀ e ∈ U, isHead rows.length last.length e = false := by
  intro e he
  obtain ⟨_, _, h3, _, _, l, hl, h6⟩ := c.hU e he
  have hlt : e.rng.s.line < rows.length := by
    rcases Nat.lt_or_ge e.rng.s.line rows.length with h' | h'
    · exact h'
    · rw [List.getElem?_eq_none h'] at hl; cases hl
  have : ¬ (e.rng.s.line + 1 = rows.length ∧ last.length ≤ e.rng.s.ch) := by
    rintro ⟨h7, h8⟩
    have hlast := c.hlast
    have : rows.length - 1 = e.rng.s.line := by omega
    rw [this, hl] at hlast
    injection hlast with hlast
    subst hlast
    omega
  simp only [isHead, decide_eq_false_iff_not]
  omega

theorem MoveCtx.head_E0 (c : MoveCtx rows a b ins last sep upd B U) :
    isHead rows.length last.length ⟨⟨⟨rows.length - 1, last.length⟩, ⟨rows.length - 1, last.length⟩⟩, sep⟩ = true := by
  have := c.Lpos
  simp only [isHead, decide_eq_true_eq]
  omega

/-- the part of the edit list that starts at or behind `end_pos` -/
theorem MoveCtx.edits_head (c : MoveCtx rows a b ins last sep upd B U) :
    (moveEdits rows.length a b ins last.length sep upd U).filter (isHead rows.length last.length) =
      ⟨⟨⟨rows.length - 1, last.length⟩, ⟨rows.length - 1, last.length⟩⟩, sep⟩ ::
        (if ins = rows.length then [⟨⟨⟨ins, 0⟩, ⟨ins, 0⟩⟩, upd⟩] else []) := by
  unfold moveEdits
  have e1 : ((rangeList a b).map delEdit).filter (isHead rows.length last.length) = [] :=
    List.filter_eq_nil_iff.mpr (fun e he => by simp [c.head_del e he])
  have e2 : U.filter (isHead rows.length last.length) = [] :=
    List.filter_eq_nil_iff.mpr (fun e he => by simp [c.head_U e he])
  rw [List.filter_append, List.filter_append, e1, e2]
  simp only [List.filter_cons, c.head_E0, c.head_E1, ↓reduceIte, List.filter_nil, List.append_nil]
  by_cases h : ins = rows.length <;> simp [h]

/-- the rest of the edit list -/
theorem MoveCtx.edits_tail (c : MoveCtx rows a b ins last sep upd B U) :
    (moveEdits rows.length a b ins last.length sep upd U).filter (fun e => !isHead rows.length last.length e) =
      (if ins = rows.length then [] else [⟨⟨⟨ins, 0⟩, ⟨ins, 0⟩⟩, upd⟩]) ++ (rangeList a b).map delEdit ++ U := by
  unfold moveEdits
  have e1 : ((rangeList a b).map delEdit).filter (fun e => !isHead rows.length last.length e) =
      (rangeList a b).map delEdit :=
    List.filter_eq_self.mpr (fun e he => by simp [c.head_del e he])
  have e2 : U.filter (fun e => !isHead rows.length last.length e) = U :=
    List.filter_eq_self.mpr (fun e he => by simp [c.head_U e he])
  rw [List.filter_append, List.filter_append, e1, e2]
  simp only [List.filter_cons, c.head_E0, c.head_E1, Bool.not_true, Bool.false_eq_true, ↓reduceIte, List.filter_nil]
  by_cases h : ins = rows.length <;> simp [h]

/-- what the label edits `U` make of source row `r` (`l`): the simultaneous substitution of exactly the edits
addressed to that row -/
def RowSpec (U : List Edit) (r : Nat) (l : List Nat) (n : Option (List Nat)) : Prop :=
  ∃ as, Chain 0 l.length as ∧ n = some (substAsc 0 l as) ∧ ∀ x, x ∈ as ↔ ∃ ed ∈ U, ed.rng.s.line = r ∧ x = toE1 ed

/-- the block insertion is applied after every label edit of the insertion row, also after one that starts at
column 0 like the insertion itself (it stands later in the edit list) -/
theorem MoveCtx.e1_last (c : MoveCtx rows a b ins last sep upd B U) (x : Edit) (hx : x ∈ U)
    (hrow : x.rng.s.line = ins) :
    ¬ AppliedBefore (moveEdits rows.length a b ins last.length sep upd U) ⟨⟨⟨ins, 0⟩, ⟨ins, 0⟩⟩, upd⟩ x := by
  rintro ⟨hge, htie⟩
  obtain ⟨_, _, hw, _, _, _⟩ := c.hU x hx
  unfold EditGe at hge
  simp only at hge
  have hch : x.rng.s.ch = 0 := by omega
  obtain ⟨i, j, hji, hi, hj⟩ := htie (by unfold EditGe; simp only; omega)
  unfold moveEdits at hi hj
  simp only [List.cons_append, List.nil_append] at hi hj
  match i, hji, hi with
  | 0, hji, _ => omega
  | 1, hji, _ =>
    have : j = 0 := by omega
    subst this
    simp only [List.getElem?_cons_zero, Option.some.injEq] at hj
    rw [← hj] at hw
    simp at hw
  | i + 2, _, hi =>
    simp only [List.getElem?_cons_succ] at hi
    have hmem := List.mem_of_getElem? hi
    rcases List.mem_append.mp hmem with h | h
    · obtain ⟨l, _, hl⟩ := List.mem_map.mp h
      unfold delEdit at hl
      injection hl with hl _
      injection hl with h1 h2
      injection h1 with h1 _
      injection h2 with h2 _
      omega
    · obtain ⟨_, _, hw', _, _, _⟩ := c.hU _ h
      simp at hw'

theorem applyLoop_one (e : Edit) (d : List Nat) :
    applyLoop 0 [e] d = replaceRange d ⟨⟨e.rng.s.line, e.rng.s.ch⟩, ⟨e.rng.e.line, e.rng.e.ch⟩⟩ e.new := by
  simp only [applyLoop, Nat.not_lt_zero, or_self, ↓reduceIte, Nat.sub_zero]
  cases replaceRange d _ e.new <;> rfl

/-- the head of the application order: (the block appended behind the last row, if `ins` is the row count,) then
the line separator at `end_pos` -/
theorem MoveCtx.head_phase (c : MoveCtx rows a b ins last sep upd B U) {d : List Nat} {t : Bool}
    (hd : IsDoc d rows t) (es : List Edit) (H : List Edit)
    (hperm : H.Perm (⟨⟨⟨rows.length - 1, last.length⟩, ⟨rows.length - 1, last.length⟩⟩, sep⟩ ::
        (if ins = rows.length then [(⟨⟨⟨ins, 0⟩, ⟨ins, 0⟩⟩, upd⟩ : Edit)] else [])))
    (hord : H.Pairwise (AppliedBefore es)) :
    applyLoop 0 H d =
      .ok (joinT (rows ++ (if t then [[]] else []) ++ (if ins = rows.length then B else []))) := by
  have hL := c.Lpos
  by_cases h : ins = rows.length
  · simp only [h, ↓reduceIte] at hperm ⊢
    rcases perm_pair hperm with hH | hH
    · rw [hH] at hord
      have := List.rel_of_pairwise_cons hord (List.mem_singleton.mpr rfl)
      unfold AppliedBefore EditGe at this
      simp only at this
      omega
    · rw [hH]
      simp only [applyLoop, Nat.not_lt_zero, or_self, ↓reduceIte, Nat.sub_zero]
      have hpush := replaceRange_push d upd
      rw [splitLines_isDoc hd] at hpush
      rw [hpush, c.hupd]
      simp only [Res.bind]
      rw [head_sep hd last c.hlast B c.hB sep c.hsep]
  · simp only [h, ↓reduceIte] at hperm ⊢
    rw [List.perm_singleton.mp hperm, applyLoop_one]
    have := head_sep hd last c.hlast [] (by simp) sep c.hsep
    simpa [joinT] using this

/-- **the rows, bottom-up.**  After all edits starting on rows `≥ L-m` have been applied, the first `L-m` rows are
untouched and the rest is in its final arrangement. -/
theorem MoveCtx.rows_phase (c : MoveCtx rows a b ins last sep upd B U) (es S' : List Edit) (X : List (List Nat))
    (hX : ∀ x ∈ X, NoNl x)
    (hes : es = moveEdits rows.length a b ins last.length sep upd U)
    (hperm : S'.Perm ((if ins = rows.length then [] else [(⟨⟨⟨ins, 0⟩, ⟨ins, 0⟩⟩, upd⟩ : Edit)]) ++
      (rangeList a b).map delEdit ++ U))
    (hord : S'.Pairwise (AppliedBefore es))
    (hFne : X ≠ [] ∨ b + 1 < rows.length) :
    ∀ m, m ≤ rows.length → ∃ N : List (List Nat), N.length = m ∧ (∀ n ∈ N, NoNl n) ∧
      (∀ j l, rows[rows.length - m + j]? = some l → RowSpec U (rows.length - m + j) l N[j]?) ∧
      applyLoop 0 (S'.filter (fun e => decide (rows.length - m ≤ e.rng.s.line))) (joinT (rows ++ X)) =
        .ok (joinT (rows.take (rows.length - m) ++ placeFrom a b ins B (rows.length - m) N ++ X)) := by
  have hL := c.Lpos
  have hmemS : ∀ e ∈ S', e.rng.s.line < rows.length ∧
      (e = ⟨⟨⟨ins, 0⟩, ⟨ins, 0⟩⟩, upd⟩ ∧ ins ≠ rows.length ∨ e ∈ (rangeList a b).map delEdit ∨ e ∈ U) := by
    intro e he
    have := hperm.mem_iff.mp he
    simp only [List.mem_append] at this
    rcases this with (h | h) | h
    · split at h
      · cases h
      · rename_i hne
        simp only [List.mem_singleton] at h
        have := c.hinsL
        exact ⟨by rw [h]; simp only; omega, Or.inl ⟨h, hne⟩⟩
    · refine ⟨?_, Or.inr (Or.inl h)⟩
      obtain ⟨l, hl, rfl⟩ := List.mem_map.mp h
      have := (mem_rangeList a b l).mp hl
      have := c.hbL
      simp only [delEdit]; omega
    · refine ⟨?_, Or.inr (Or.inr h)⟩
      obtain ⟨_, _, _, _, _, l, hl, _⟩ := c.hU e h
      rcases Nat.lt_or_ge e.rng.s.line rows.length with h' | h'
      · exact h'
      · rw [List.getElem?_eq_none h'] at hl; cases hl
  intro m
  induction m with
  | zero =>
    intro _
    refine ⟨[], rfl, by simp, ?_, ?_⟩
    · intro j l hl
      rw [List.getElem?_eq_none (by omega)] at hl; cases hl
    · have : S'.filter (fun e => decide (rows.length - 0 ≤ e.rng.s.line)) = [] := by
        apply List.filter_eq_nil_iff.mpr
        intro e he
        have := (hmemS e he).1
        simp; omega
      rw [this]
      simp [applyLoop, placeFrom]
  | succ m ih =>
    intro hm
    obtain ⟨N, hNlen, hNnl, hNspec, hloop⟩ := ih (by omega)
    -- the row to process
    have hk1 : rows.length - m = (rows.length - (m + 1)) + 1 := by omega
    generalize hk : rows.length - (m + 1) = k at *
    rw [hk1] at hNspec hloop
    have hkL : k < rows.length := by omega
    obtain ⟨l, hl⟩ : ∃ l, rows[k]? = some l := ⟨rows[k], List.getElem?_eq_getElem hkL⟩
    have htake : rows.take (k + 1) = rows.take k ++ [l] := by rw [List.take_add_one, hl]; rfl
    have hprelen : (rows.take k).length = k := by simp; omega
    -- split the application order at row k
    have hsplit : S'.filter (fun e => decide (k ≤ e.rng.s.line)) =
        S'.filter (fun e => decide (k + 1 ≤ e.rng.s.line)) ++ S'.filter (fun e => e.rng.s.line == k) := by
      have hp := filter_split (AppliedBefore es) (fun e => decide (k + 1 ≤ e.rng.s.line))
        (S'.filter (fun e => decide (k ≤ e.rng.s.line))) (hord.filter _) (by
          intro x _ y _ hx hy hR
          have := hR.1
          unfold EditGe at this
          simp only [decide_eq_true_eq, decide_eq_false_iff_not] at hx hy
          omega)
      rw [List.filter_filter, List.filter_filter] at hp
      rw [hp]
      congr 1
      · apply List.filter_congr
        intro x _
        rw [Bool.eq_iff_iff]; simp only [Bool.and_eq_true, decide_eq_true_eq]; omega
      · apply List.filter_congr
        intro x _
        rw [Bool.eq_iff_iff]
        simp only [Bool.and_eq_true, Bool.not_eq_true', decide_eq_false_iff_not, decide_eq_true_eq, beq_iff_eq]
        omega
    rw [hsplit, applyLoop_append, hloop]
    simp only [Res.bind]
    -- the edits of row k
    have hTperm : (S'.filter (fun e => e.rng.s.line == k)).Perm
        ((if ins = k then [(⟨⟨⟨ins, 0⟩, ⟨ins, 0⟩⟩, upd⟩ : Edit)] else []) ++
          ((rangeList a b).map delEdit).filter (fun e => e.rng.s.line == k) ++
          U.filter (fun e => e.rng.s.line == k)) := by
      have := hperm.filter (fun e => e.rng.s.line == k)
      rw [List.filter_append, List.filter_append] at this
      refine this.trans ?_
      have : (if ins = rows.length then [] else [(⟨⟨⟨ins, 0⟩, ⟨ins, 0⟩⟩, upd⟩ : Edit)]).filter
          (fun e => e.rng.s.line == k) = (if ins = k then [(⟨⟨⟨ins, 0⟩, ⟨ins, 0⟩⟩, upd⟩ : Edit)] else []) := by
        by_cases h2 : ins = k
        · have h1 : ¬ ins = rows.length := by omega
          rw [if_neg h1, if_pos h2]
          simp [h2]
        · by_cases h1 : ins = rows.length
          · rw [if_pos h1, if_neg h2]; rfl
          · rw [if_neg h1, if_neg h2]
            simp [h2]
      rw [this]
    have hTord : (S'.filter (fun e => e.rng.s.line == k)).Pairwise (AppliedBefore es) := hord.filter _
    have hUk : ∀ ed ∈ U.filter (fun e => e.rng.s.line == k),
        ed.rng.s.line = (rows.take k).length ∧ ed.rng.e.line = ed.rng.s.line ∧ NoNl ed.new ∧
        ed.rng.s.ch < ed.rng.e.ch ∧ ed.rng.e.ch ≤ l.length ∧ ed.new ≠ [] := by
      intro ed hed
      obtain ⟨hu, hr⟩ := List.mem_filter.mp hed
      simp only [beq_iff_eq] at hr
      obtain ⟨h1, h2, h3, h4, _, l', hl', h6⟩ := c.hU ed hu
      rw [hr, hl] at hl'
      injection hl' with hl'
      subst hl'
      exact ⟨by rw [hprelen]; exact hr, h1, h2, h3, h6, h4⟩
    have hUkdis : (U.filter (fun e => e.rng.s.line == k)).Pairwise DisjE := c.hUdis.filter _
    have hcurnl : ∀ x ∈ rows.take k ++ l :: (placeFrom a b ins B (k + 1) N ++ X), NoNl x := by
      intro x hx
      rcases List.mem_append.mp hx with h | h
      · exact c.hnl x (List.mem_of_mem_take h)
      · rcases List.mem_cons.mp h with rfl | h
        · exact c.hnl _ (List.mem_of_getElem? hl)
        · rcases List.mem_append.mp h with h | h
          · -- rows of the placement are rows of N or of B
            have : ∀ (k : Nat) (N : List (List Nat)), (∀ n ∈ N, NoNl n) →
                ∀ x ∈ placeFrom a b ins B k N, NoNl x := by
              intro k N
              induction N generalizing k with
              | nil => intro _ x hx; simp [placeFrom] at hx
              | cons n N ihN =>
                intro hn x hx
                unfold placeFrom at hx
                rcases List.mem_append.mp hx with hx | hx
                · split at hx
                  · cases hx
                  · rcases List.mem_append.mp hx with hx | hx
                    · split at hx
                      · exact c.hB x hx
                      · cases hx
                    · simp only [List.mem_singleton] at hx
                      rw [hx]; exact hn n (by simp)
                · exact ihN (k + 1) (fun n' hn' => hn n' (List.mem_cons_of_mem _ hn')) x hx
            exact this _ _ hNnl x h
          · exact hX x h
    have hcur : rows.take (k + 1) ++ placeFrom a b ins B (k + 1) N ++ X =
        rows.take k ++ l :: (placeFrom a b ins B (k + 1) N ++ X) := by rw [htake]; simp
    rw [hcur]
    have hspecTail : ∀ j l', rows[k + (j + 1)]? = some l' → RowSpec U (k + (j + 1)) l' N[j]? := by
      intro j l' hl'
      have := hNspec j l' (by rw [show k + 1 + j = k + (j + 1) by omega]; exact hl')
      rw [show k + 1 + j = k + (j + 1) by omega] at this
      exact this
    by_cases hsel : a ≤ k ∧ k ≤ b
    · -- a selected row: its deletion
      have hik : ¬ ins = k := by have := c.hins; omega
      have hUnone : U.filter (fun e => e.rng.s.line == k) = [] := by
        apply List.filter_eq_nil_iff.mpr
        intro e he
        obtain ⟨_, _, _, _, hout, _⟩ := c.hU e he
        simp only [beq_iff_eq]
        intro h; rw [h] at hout; exact hout hsel
      rw [dels_filter a b k hsel, hUnone] at hTperm
      simp only [hik, ↓reduceIte, List.nil_append, List.append_nil] at hTperm
      rw [List.perm_singleton.mp hTperm, applyLoop_one]
      have hFne' : placeFrom a b ins B (k + 1) N ++ X ≠ [] := by
        rcases hFne with h | h
        · simp [h]
        · have := placeFrom_ne_nil a b ins B (k + 1) N (b - k) (by omega) (by omega)
          simp [this]
      have hdel := step_del (rows.take k) (placeFrom a b ins B (k + 1) N ++ X) l hcurnl hFne'
      rw [hprelen] at hdel
      simp only [delEdit]
      rw [hdel]
      refine ⟨l :: N, by simp [hNlen], ?_, ?_, ?_⟩
      · intro n hn
        rcases List.mem_cons.mp hn with rfl | hn
        · exact c.hnl _ (List.mem_of_getElem? hl)
        · exact hNnl n hn
      · intro j l' hl'
        cases j with
        | zero =>
          simp only [Nat.add_zero] at hl' ⊢
          rw [hl] at hl'; injection hl' with hl'; subst hl'
          refine ⟨[], trivial, by simp [substAsc], ?_⟩
          intro x
          simp only [List.not_mem_nil, false_iff, not_exists, not_and]
          intro ed hed hr
          obtain ⟨_, _, _, _, hout, _⟩ := c.hU ed hed
          rw [hr] at hout; exact absurd hsel hout
        | succ j => simpa using hspecTail j l' hl'
      · congr 2
        simp [placeFrom, hsel]
    · -- an unselected row: its label edits, then the block if this is the insertion row
      rw [dels_filter_none a b k hsel] at hTperm
      simp only [List.append_nil] at hTperm
      by_cases hik : ins = k
      · -- labels, then the insertion
        simp only [hik, ↓reduceIte] at hTperm
        subst hik
        have hTsplit := filter_split (AppliedBefore es) (fun e => decide (e ≠ (⟨⟨⟨ins, 0⟩, ⟨ins, 0⟩⟩, upd⟩ : Edit)))
          (S'.filter (fun e => e.rng.s.line == ins)) hTord (by
            intro x hx y hy hpx hpy hR
            simp only [decide_eq_true_eq, decide_eq_false_iff_not, Decidable.not_not] at hpx hpy
            subst hpy
            have hxU : x ∈ U.filter (fun e => e.rng.s.line == ins) := by
              have := hTperm.mem_iff.mp hx
              simp only [List.singleton_append, List.mem_cons] at this
              rcases this with h | h
              · exact absurd h hpx
              · exact h
            obtain ⟨hxU', hxr⟩ := List.mem_filter.mp hxU
            simp only [beq_iff_eq] at hxr
            rw [hes] at hR
            exact c.e1_last x hxU' hxr hR)
        have hp1 : ((S'.filter (fun e => e.rng.s.line == ins)).filter
            (fun e => decide (e ≠ (⟨⟨⟨ins, 0⟩, ⟨ins, 0⟩⟩, upd⟩ : Edit)))).Perm
            (U.filter (fun e => e.rng.s.line == ins)) := by
          have := hTperm.filter (fun e => decide (e ≠ (⟨⟨⟨ins, 0⟩, ⟨ins, 0⟩⟩, upd⟩ : Edit)))
          refine this.trans ?_
          simp only [List.singleton_append, List.filter_cons, ne_eq, not_true_eq_false, decide_false,
            Bool.false_eq_true, ↓reduceIte]
          rw [List.filter_eq_self.mpr]
          intro e he
          obtain ⟨hu, _⟩ := List.mem_filter.mp he
          obtain ⟨_, _, hw, _, _, _⟩ := c.hU e hu
          simp only [decide_eq_true_eq]
          intro heq; rw [heq] at hw; simp at hw
        have hp2 : ((S'.filter (fun e => e.rng.s.line == ins)).filter
            (fun e => !decide (e ≠ (⟨⟨⟨ins, 0⟩, ⟨ins, 0⟩⟩, upd⟩ : Edit)))) =
            [(⟨⟨⟨ins, 0⟩, ⟨ins, 0⟩⟩, upd⟩ : Edit)] := by
          have := hTperm.filter (fun e => !decide (e ≠ (⟨⟨⟨ins, 0⟩, ⟨ins, 0⟩⟩, upd⟩ : Edit)))
          apply List.perm_singleton.mp
          refine this.trans ?_
          simp only [List.singleton_append, List.filter_cons, ne_eq, not_true_eq_false, decide_false,
            Bool.not_false, ↓reduceIte]
          rw [List.filter_eq_nil_iff.mpr]
          intro e he
          obtain ⟨hu, _⟩ := List.mem_filter.mp he
          obtain ⟨_, _, hw, _, _, _⟩ := c.hU e hu
          simp only [Bool.not_eq_true', decide_eq_false_iff_not, Decidable.not_not]
          intro heq; rw [heq] at hw; simp at hw
        rw [hTsplit, hp2, applyLoop_append]
        have hfitT : ∀ ed ∈ (S'.filter (fun e => e.rng.s.line == ins)).filter
            (fun e => decide (e ≠ (⟨⟨⟨ins, 0⟩, ⟨ins, 0⟩⟩, upd⟩ : Edit))),
            ed.rng.s.line = (rows.take ins).length ∧ ed.rng.e.line = ed.rng.s.line ∧ NoNl ed.new ∧
            ed.rng.s.ch < ed.rng.e.ch ∧ ed.rng.e.ch ≤ l.length ∧ ed.new ≠ [] :=
          fun ed hed => hUk ed (hp1.mem_iff.mp hed)
        have hgeT := ((hTord.filter (fun e => decide (e ≠ (⟨⟨⟨ins, 0⟩, ⟨ins, 0⟩⟩, upd⟩ : Edit)))).imp
          (fun {a b} (h : AppliedBefore es a b) => h.1))
        have hdisT := (hp1.pairwise_iff (fun {x y} (h : DisjE x y) => disjE_symm h)).mpr hUkdis
        obtain ⟨as, hc, hm, hnn, happ⟩ := step_labels (rows.take ins) (placeFrom a b ins B (ins + 1) N ++ X) l hcurnl _
          hfitT hgeT hdisT
        rw [happ]
        simp only [Res.bind]
        rw [applyLoop_one]
        have hnl2 : ∀ x ∈ rows.take ins ++ (substAsc 0 l as :: (placeFrom a b ins B (ins + 1) N ++ X)), NoNl x := by
          intro x hx
          rcases List.mem_append.mp hx with h | h
          · exact hcurnl x (List.mem_append_left _ h)
          · rcases List.mem_cons.mp h with rfl | h
            · exact hnn
            · exact hcurnl x (List.mem_append_right _ (List.mem_cons_of_mem _ h))
        have hins := step_ins (rows.take ins) (substAsc 0 l as :: (placeFrom a b ins B (ins + 1) N ++ X)) hnl2
          (by simp) upd B c.hupd
        rw [hprelen] at hins
        simp only []
        rw [hins]
        refine ⟨substAsc 0 l as :: N, by simp [hNlen], ?_, ?_, ?_⟩
        · intro n hn
          rcases List.mem_cons.mp hn with rfl | hn
          · exact hnn
          · exact hNnl n hn
        · intro j l' hl'
          cases j with
          | zero =>
            simp only [Nat.add_zero] at hl' ⊢
            rw [hl] at hl'; injection hl' with hl'; subst hl'
            refine ⟨as, hc, by simp, ?_⟩
            intro x
            rw [hm]
            constructor
            · rintro ⟨ed, hed, rfl⟩
              obtain ⟨hu, hr⟩ := List.mem_filter.mp (hp1.mem_iff.mp hed)
              exact ⟨ed, hu, by simpa using hr, rfl⟩
            · rintro ⟨ed, hed, hr, rfl⟩
              exact ⟨ed, hp1.mem_iff.mpr (List.mem_filter.mpr ⟨hed, by simpa using hr⟩), rfl⟩
          | succ j => simpa using hspecTail j l' hl'
        · congr 2
          simp [placeFrom, hsel]
      · -- labels only
        simp only [hik, ↓reduceIte, List.nil_append] at hTperm
        have hfitT : ∀ ed ∈ S'.filter (fun e => e.rng.s.line == k),
            ed.rng.s.line = (rows.take k).length ∧ ed.rng.e.line = ed.rng.s.line ∧ NoNl ed.new ∧
            ed.rng.s.ch < ed.rng.e.ch ∧ ed.rng.e.ch ≤ l.length ∧ ed.new ≠ [] :=
          fun ed hed => hUk ed (hTperm.mem_iff.mp hed)
        have hgeT := (hTord.imp (fun {a b} (h : AppliedBefore es a b) => h.1))
        have hdisT := (hTperm.pairwise_iff (fun {x y} (h : DisjE x y) => disjE_symm h)).mpr hUkdis
        obtain ⟨as, hc, hm, hnn, happ⟩ := step_labels (rows.take k) (placeFrom a b ins B (k + 1) N ++ X) l hcurnl _
          hfitT hgeT hdisT
        rw [happ]
        refine ⟨substAsc 0 l as :: N, by simp [hNlen], ?_, ?_, ?_⟩
        · intro n hn
          rcases List.mem_cons.mp hn with rfl | hn
          · exact hnn
          · exact hNnl n hn
        · intro j l' hl'
          cases j with
          | zero =>
            simp only [Nat.add_zero] at hl' ⊢
            rw [hl] at hl'; injection hl' with hl'; subst hl'
            refine ⟨as, hc, by simp, ?_⟩
            intro x
            rw [hm]
            constructor
            · rintro ⟨ed, hed, rfl⟩
              obtain ⟨hu, hr⟩ := List.mem_filter.mp (hTperm.mem_iff.mp hed)
              exact ⟨ed, hu, by simpa using hr, rfl⟩
            · rintro ⟨ed, hed, hr, rfl⟩
              exact ⟨ed, hTperm.mem_iff.mpr (List.mem_filter.mpr ⟨hed, by simpa using hr⟩), rfl⟩
          | succ j => simpa using hspecTail j l' hl'
        · congr 2
          simp [placeFrom, hsel, Ne.symm hik]

/-- rows in front of `k` do not matter for the rows from `k` on: splitting the application order at row `k` -/
theorem split_at_row (es S' : List Edit) (hord : S'.Pairwise (AppliedBefore es)) (k : Nat) :
    S' = S'.filter (fun e => decide (k ≤ e.rng.s.line)) ++ S'.filter (fun e => !decide (k ≤ e.rng.s.line)) :=
  filter_split (AppliedBefore es) (fun e => decide (k ≤ e.rng.s.line)) S' hord (by
    intro x _ y _ hx hy hR
    have := hR.1
    unfold EditGe at this
    simp only [decide_eq_true_eq, decide_eq_false_iff_not] at hx hy
    omega)

/-- **`apply_edits` on the edit list of a move** (LF text, the loop).  Unless the last row is selected in a text
without final newline, the loop succeeds and the result is the text of: the label-edited rows `N` with the selected
rows dropped and the block `B` in front of source row `ins`; an empty row if the text ended with a newline; the
block here if `ins` is the row count. -/
theorem MoveCtx.applyLoop_move (c : MoveCtx rows a b ins last sep upd B U) {d : List Nat} {t : Bool}
    (hd : IsDoc d rows t) (hok : t = true ∨ b + 1 < rows.length) :
    ∃ N : List (List Nat), N.length = rows.length ∧ (∀ n ∈ N, NoNl n) ∧
      (∀ r l, rows[r]? = some l → RowSpec U r l N[r]?) ∧
      applyLoop 0 (sortDesc (moveEdits rows.length a b ins last.length sep upd U)) d =
        .ok (joinT (placeFrom a b ins B 0 N ++ ((if t then [[]] else []) ++ (if ins = rows.length then B else [])))) := by
  generalize hes : moveEdits rows.length a b ins last.length sep upd U = es
  have hperm := sortDesc_perm es
  have hord := sortDesc_order es
  have hsplit := filter_split (AppliedBefore es) (isHead rows.length last.length) (sortDesc es) hord (by
    intro x _ y _ hx hy hR
    have := hR.1
    have hL := c.Lpos
    unfold EditGe at this
    unfold isHead at hx hy
    simp only [decide_eq_true_eq, decide_eq_false_iff_not] at hx hy
    omega)
  have hH := c.head_phase hd es ((sortDesc es).filter (isHead rows.length last.length))
    (by rw [← c.edits_head, hes]; exact hperm.filter _) (hord.filter _)
  have hXnl : ∀ x ∈ (if t then [[]] else []) ++ (if ins = rows.length then B else []), NoNl x := by
    intro x hx
    rcases List.mem_append.mp hx with h | h
    · split at h
      · simp only [List.mem_singleton] at h; rw [h]; intro c hc; cases hc
      · cases h
    · split at h
      · exact c.hB x h
      · cases h
  obtain ⟨N, hlen, hnl, hspec, hloop⟩ := c.rows_phase es ((sortDesc es).filter (fun e => !isHead rows.length last.length e))
    ((if t then [[]] else []) ++ (if ins = rows.length then B else [])) hXnl hes.symm
    (by rw [← c.edits_tail, hes]; exact hperm.filter _) (hord.filter _)
    (by rcases hok with h | h
        · left; simp [h]
        · right; exact h) rows.length (Nat.le_refl _)
  refine ⟨N, hlen, hnl, ?_, ?_⟩
  · intro r l hl
    have := hspec r l (by simpa using hl)
    simpa using this
  · rw [hsplit, applyLoop_append, hH]
    simp only [Res.bind]
    have hall : ((sortDesc es).filter (fun e => !isHead rows.length last.length e)).filter
        (fun e => decide (rows.length - rows.length ≤ e.rng.s.line)) =
        (sortDesc es).filter (fun e => !isHead rows.length last.length e) :=
      List.filter_eq_self.mpr (fun e _ => by simp)
    rw [hall] at hloop
    rw [List.append_assoc, hloop]
    simp

/-- … and when the last row is selected in a text without final newline the deletion of that row has no end
position: `apply_edits` fails (`Err`), the request is refused although it is harmless. -/
theorem MoveCtx.applyLoop_move_err (c : MoveCtx rows a b ins last sep upd B U) {d : List Nat}
    (hd : IsDoc d rows false) (hb : b + 1 = rows.length) :
    applyLoop 0 (sortDesc (moveEdits rows.length a b ins last.length sep upd U)) d = .err := by
  generalize hes : moveEdits rows.length a b ins last.length sep upd U = es
  have hperm := sortDesc_perm es
  have hord := sortDesc_order es
  have hinsL : ¬ ins = rows.length := by have h1 := c.hins; have h2 := c.hinsL; have h3 := c.hab; omega
  have hsplit := filter_split (AppliedBefore es) (isHead rows.length last.length) (sortDesc es) hord (by
    intro x _ y _ hx hy hR
    have := hR.1
    have hL := c.Lpos
    unfold EditGe at this
    unfold isHead at hx hy
    simp only [decide_eq_true_eq, decide_eq_false_iff_not] at hx hy
    omega)
  have hH := c.head_phase hd es ((sortDesc es).filter (isHead rows.length last.length))
    (by rw [← c.edits_head, hes]; exact hperm.filter _) (hord.filter _)
  generalize hS' : (sortDesc es).filter (fun e => !isHead rows.length last.length e) = S' at hsplit
  have hperm' : S'.Perm ((if ins = rows.length then [] else [(⟨⟨⟨ins, 0⟩, ⟨ins, 0⟩⟩, upd⟩ : Edit)]) ++
      (rangeList a b).map delEdit ++ U) := by
    rw [← hS', ← c.edits_tail, hes]; exact hperm.filter _
  have hord' : S'.Pairwise (AppliedBefore es) := by rw [← hS']; exact hord.filter _
  have hsp := split_at_row es S' hord' b
  -- the edits starting on row b or later: only the deletion of row b
  have hTb : S'.filter (fun e => decide (b ≤ e.rng.s.line)) = [delEdit b] := by
    apply List.perm_singleton.mp
    refine (hperm'.filter _).trans ?_
    rw [List.filter_append, List.filter_append]
    have e1 : (if ins = rows.length then [] else [(⟨⟨⟨ins, 0⟩, ⟨ins, 0⟩⟩, upd⟩ : Edit)]).filter
        (fun e => decide (b ≤ e.rng.s.line)) = [] := by
      rw [if_neg hinsL]
      have : ¬ b ≤ ins := by have h1 := c.hins; have h2 := c.hinsL; have h3 := c.hab; omega
      simp [this]
    have e2 : ((rangeList a b).map delEdit).filter (fun e => decide (b ≤ e.rng.s.line)) =
        ((rangeList a b).map delEdit).filter (fun e => e.rng.s.line == b) := by
      apply List.filter_congr
      intro e he
      obtain ⟨l, hl, rfl⟩ := List.mem_map.mp he
      have := (mem_rangeList a b l).mp hl
      rw [Bool.eq_iff_iff]
      show (decide (b ≤ l) = true ↔ (l == b) = true)
      simp only [decide_eq_true_eq, beq_iff_eq]
      omega
    have e3 : U.filter (fun e => decide (b ≤ e.rng.s.line)) = [] := by
      apply List.filter_eq_nil_iff.mpr
      intro e he
      obtain ⟨_, _, _, _, hout, l, hl, _⟩ := c.hU e he
      have hlt : e.rng.s.line < rows.length := by
        rcases Nat.lt_or_ge e.rng.s.line rows.length with h' | h'
        · exact h'
        · rw [List.getElem?_eq_none h'] at hl; cases hl
      have := c.hab
      simp only [decide_eq_true_eq]
      omega
    rw [e1, e2, e3, dels_filter a b b ⟨c.hab, Nat.le_refl _⟩]
    simp
  rw [hsplit, applyLoop_append, hH]
  simp only [Res.bind, Bool.false_eq_true, ↓reduceIte, hinsL, List.append_nil]
  rw [hsp, hTb, applyLoop_append, applyLoop_one]
  have hrows : rows = rows.take b ++ [last] := by
    have hl := c.hlast
    have : rows.length - 1 = b := by omega
    rw [this] at hl
    have h1 : rows.take (b + 1) = rows := List.take_of_length_le (by omega)
    rw [List.take_add_one, hl] at h1
    exact h1.symm
  have herr := step_del_last (rows.take b) last (by rw [← hrows]; exact c.hnl)
  rw [← hrows] at herr
  have hlen : (rows.take b).length = b := by simp; omega
  rw [hlen] at herr
  simp only [delEdit]
  rw [herr]
  rfl

theorem MoveCtx.two_rows (c : MoveCtx rows a b ins last sep upd B U) : 2 ≤ rows.length := by
  have h1 := c.hins; have h2 := c.hinsL; have h3 := c.hab; have h4 := c.hbL
  omega

/-- the CRLF wrapper of `apply_edits` around the loop, for a text of at least two rows -/
theorem applyEdits_two_rows {d : List Nat} {rows : List (List Nat)} {t : Bool} (hd : IsDoc d rows t)
    (h2 : 2 ≤ rows.length) (crlf : Bool) (es : List Edit) :
    applyEdits (if crlf then lfToCrlf d else d) es 0 =
      (applyLoop 0 (sortDesc es) d).bind fun ans => .ok (if crlf then lfToCrlf ans else ans) := by
  have hcr := noCR_isDoc hd
  have hcnt := countLf_isDoc hd
  have hpos : 0 < countLf d := by cases t <;> simp at hcnt <;> omega
  unfold applyEdits
  cases crlf with
  | true =>
    have := counts_lfToCrlf d hcr
    simp only [↓reduceIte, crlfToLf_lfToCrlf d hcr, this.1, this.2, beq_self_eq_true]
  | false =>
    have : (0 == countLf d) = false := by simp; omega
    simp only [Bool.false_eq_true, ↓reduceIte, crlfToLf_noCR d hcr, countCrlf_noCR d hcr, this]

/-- **`apply_edits` on the edit list of a move**, LF or CRLF text -/
theorem MoveCtx.applyEdits_move (c : MoveCtx rows a b ins last sep upd B U) {d : List Nat} {t : Bool}
    (hd : IsDoc d rows t) (crlf : Bool) (hok : t = true ∨ b + 1 < rows.length) :
    ∃ N : List (List Nat), N.length = rows.length ∧ (∀ n ∈ N, NoNl n) ∧
      (∀ r l, rows[r]? = some l → RowSpec U r l N[r]?) ∧
      applyEdits (if crlf then lfToCrlf d else d) (moveEdits rows.length a b ins last.length sep upd U) 0 =
        .ok (if crlf then
            lfToCrlf (joinT (placeFrom a b ins B 0 N ++ ((if t then [[]] else []) ++ (if ins = rows.length then B else []))))
          else joinT (placeFrom a b ins B 0 N ++ ((if t then [[]] else []) ++ (if ins = rows.length then B else [])))) := by
  obtain ⟨N, h1, h2, h3, h4⟩ := c.applyLoop_move hd hok
  refine ⟨N, h1, h2, h3, ?_⟩
  rw [applyEdits_two_rows hd c.two_rows crlf, h4]
  rfl

theorem MoveCtx.applyEdits_move_err (c : MoveCtx rows a b ins last sep upd B U) {d : List Nat}
    (hd : IsDoc d rows false) (crlf : Bool) (hb : b + 1 = rows.length) :
    applyEdits (if crlf then lfToCrlf d else d) (moveEdits rows.length a b ins last.length sep upd U) 0 = .err := by
  rw [applyEdits_two_rows hd c.two_rows crlf, c.applyLoop_move_err hd hb]
  rfl

/-- the placement does not look at the entries of the selected rows -/
theorem placeFrom_congr (a b ins : Nat) (B : List (List Nat)) (k : Nat) (N N' : List (List Nat))
    (hlen : N.length = N'.length) (h : ∀ j, ¬ (a ≤ k + j ∧ k + j ≤ b) → N[j]? = N'[j]?) :
    placeFrom a b ins B k N = placeFrom a b ins B k N' := by
  induction N generalizing k N' with
  | nil =>
    cases N' with
    | nil => rfl
    | cons _ _ => simp at hlen
  | cons n N ih =>
    cases N' with
    | nil => simp at hlen
    | cons n' N' =>
      unfold placeFrom
      have ih' := ih (k + 1) N' (by simpa using hlen) (by
        intro j hj
        have := h (j + 1) (by rw [← Nat.add_assoc, Nat.add_right_comm]; exact hj)
        simpa using this)
      rw [ih']
      congr 1
      by_cases hs : a ≤ k ∧ k ≤ b
      · simp [hs]
      · have := h 0 (by simpa using hs)
        simp only [List.getElem?_cons_zero, Option.some.injEq] at this
        rw [this]

end

end A2Verif.Lemmas.Renumber
