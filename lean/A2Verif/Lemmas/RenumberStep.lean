import A2Verif.Lemmas.RenumberScan
import A2Verif.Lemmas.RenumberOrder
import A2Verif.Lemmas.RenumberMove
/-!
Part 16 (C16): what one group of edits of the move path does to a text of `\n`-terminated rows
(`pre ++ [l] ++ F`, the group addressing row `pre.length`), and the head of the application order (the
insertion behind the last row, the line separator appended to the last row).
-/
namespace A2Verif.Lemmas.Renumber
open A2Verif.Model.Renumber

theorem perm_pair {α : Type} {x y : α} {l : List α} (h : l.Perm [x, y]) : l = [x, y] ∨ l = [y, x] := by
  have hlen := h.length_eq
  match l, hlen with
  | [p, q], _ =>
    have hp : p ∈ [x, y] := h.mem_iff.mp (by simp)
    simp only [List.mem_cons, List.not_mem_nil, or_false] at hp
    rcases hp with rfl | rfl
    · have := List.perm_singleton.mp h.cons_inv
      left; rw [this]
    · have h2 : [p, q].Perm [p, x] := h.trans (List.Perm.swap _ _ _)
      have := List.perm_singleton.mp h2.cons_inv
      right; rw [this]

/-- **label edits on one row.**  `T` (in application order: descending, pairwise disjoint) are valid label edits
of row `k = pre.length` of the rows `pre ++ l :: F`; the loop replaces that row by the simultaneous substitution
and leaves every other row alone. -/
theorem step_labels (pre F : List (List Nat)) (l : List Nat) (hnl : ∀ x ∈ pre ++ l :: F, NoNl x)
    (T : List Edit)
    (hfit : ∀ ed ∈ T, ed.rng.s.line = pre.length ∧ ed.rng.e.line = ed.rng.s.line ∧ NoNl ed.new ∧
      ed.rng.s.ch < ed.rng.e.ch ∧ ed.rng.e.ch ≤ l.length ∧ ed.new ≠ [])
    (hge : T.Pairwise EditGe) (hdis : T.Pairwise DisjE) :
    ∃ as, Chain 0 l.length as ∧ (∀ x, x ∈ as ↔ ∃ ed ∈ T, x = toE1 ed) ∧ NoNl (substAsc 0 l as) ∧
      applyLoop 0 T (joinT (pre ++ l :: F)) = .ok (joinT (pre ++ substAsc 0 l as :: F)) := by
  have hk : (pre ++ l :: F)[pre.length]? = some l := by simp
  have hd : IsDoc (joinT (pre ++ l :: F)) (pre ++ l :: F) true := ⟨hnl, by simp⟩
  have hfit' : ∀ ed ∈ T, EditOn (pre ++ l :: F) ed ∧ ed.rng.s.ch < ed.rng.e.ch ∧ ed.new ≠ [] := by
    intro ed hed
    obtain ⟨h1, h2, h3, h4, h5, h6⟩ := hfit ed hed
    exact ⟨⟨h2, h3, l, by rw [h1]; exact hk, Nat.le_of_lt h4, h5⟩, h4, h6⟩
  obtain ⟨d', ls', hloop, hd', hlen, hspec⟩ := applyLoop_disjoint hd T hfit' hge hdis
  have hd'eq : d' = joinT ls' := by simpa [IsDoc] using hd'.2
  obtain ⟨as, hc, hrow, hm⟩ := hspec pre.length l hk
  refine ⟨as, hc, ?_, ?_, ?_⟩
  · intro x
    rw [hm]
    constructor
    · rintro ⟨ed, hed, _, rfl⟩; exact ⟨ed, hed, rfl⟩
    · rintro ⟨ed, hed, rfl⟩; exact ⟨ed, hed, (hfit ed hed).1, rfl⟩
  · exact hd'.1 _ (List.mem_of_getElem? hrow)
  · rw [hloop, hd'eq]
    congr 2
    apply List.ext_getElem?
    intro r
    by_cases hr : r = pre.length
    · subst hr; rw [hrow]; simp
    · cases hg : (pre ++ l :: F)[r]? with
      | none =>
        have h1 : (pre ++ l :: F).length ≤ r := List.getElem?_eq_none_iff.mp hg
        have h2 : (pre ++ substAsc 0 l as :: F).length ≤ r := by simp at h1 ⊢; omega
        rw [List.getElem?_eq_none (by omega), List.getElem?_eq_none h2]
      | some lr =>
        obtain ⟨as', _, hrow', hm'⟩ := hspec r lr hg
        have hnil : as' = [] := by
          apply List.eq_nil_iff_forall_not_mem.mpr
          intro x hx
          obtain ⟨ed, hed, hrr, _⟩ := (hm' x).mp hx
          exact hr (by rw [← hrr]; exact (hfit ed hed).1)
        rw [hrow', hnil]
        simp only [substAsc]
        rw [← hg]
        rcases Nat.lt_or_ge r pre.length with h' | h'
        · rw [List.getElem?_append_left h', List.getElem?_append_left h']
        · rw [List.getElem?_append_right h', List.getElem?_append_right h']
          have : r - pre.length = (r - pre.length - 1) + 1 := by omega
          rw [this]; simp

/-- **deletion of row `k = pre.length`** when a row follows -/
theorem step_del (pre F : List (List Nat)) (l : List Nat) (hnl : ∀ x ∈ pre ++ l :: F, NoNl x) (hF : F ≠ []) :
    replaceRange (joinT (pre ++ l :: F)) ⟨⟨pre.length, 0⟩, ⟨pre.length + 1, 0⟩⟩ [] = .ok (joinT (pre ++ F)) := by
  have hlen : pre.length + 1 < (pre ++ l :: F).length := by
    have := List.length_pos_iff.mpr hF
    simp; omega
  rw [replaceRange_del _ hnl pre.length hlen]
  congr 2
  rw [List.eraseIdx_eq_take_drop_succ]
  rw [List.take_left' rfl]
  have : pre ++ l :: F = (pre ++ [l]) ++ F := by simp
  rw [this, List.drop_left' (by simp)]

/-- deletion of the last row: `Err` -/
theorem step_del_last (pre : List (List Nat)) (l : List Nat) (hnl : ∀ x ∈ pre ++ [l], NoNl x) :
    replaceRange (joinT (pre ++ [l])) ⟨⟨pre.length, 0⟩, ⟨pre.length + 1, 0⟩⟩ [] = .err :=
  replaceRange_del_last _ hnl pre.length (by simp)

/-- **insertion of the block in front of row `k = pre.length`** -/
theorem step_ins (pre G : List (List Nat)) (hnl : ∀ x ∈ pre ++ G, NoNl x) (hG : G ≠ [])
    (new : List Nat) (B : List (List Nat)) (hB : crlfToLf new = joinT B) :
    replaceRange (joinT (pre ++ G)) ⟨⟨pre.length, 0⟩, ⟨pre.length, 0⟩⟩ new = .ok (joinT (pre ++ B ++ G)) := by
  have hlen : pre.length < (pre ++ G).length := by
    have := List.length_pos_iff.mpr hG
    simp; omega
  rw [replaceRange_ins _ hnl pre.length hlen new B hB, List.take_left' rfl, List.drop_left' rfl]

/-! the head of the application order -/

theorem splitLines_ne_nil (x : List Nat) (h : x ≠ []) : splitLines x ≠ [] := by
  cases x with
  | nil => exact absurd rfl h
  | cons c cs =>
    unfold splitLines
    split
    · simp at *
    · simp
    · split
      · simp
      · split <;> simp

/-- the line separator inserted at `end_pos` of a document (with or without final newline), possibly after a
block `B` has been appended behind the last row: the result is the text of the rows, an empty row when the
document ended with a newline, and the block. -/
theorem head_sep {d : List Nat} {rows : List (List Nat)} {t : Bool} (hd : IsDoc d rows t)
    (last : List Nat) (hlast : rows[rows.length - 1]? = some last) (B : List (List Nat))
    (hB : ∀ x ∈ B, NoNl x) (sep : List Nat) (hsep : crlfToLf sep = [10]) :
    replaceRange (d ++ joinT B) ⟨⟨rows.length - 1, last.length⟩, ⟨rows.length - 1, last.length⟩⟩ sep =
      .ok (joinT (rows ++ (if t then [[]] else []) ++ B)) := by
  have hpos : 0 < rows.length := by
    rcases Nat.lt_or_ge 0 rows.length with h | h
    · exact h
    · rw [List.getElem?_eq_none (by omega)] at hlast; cases hlast
  cases t with
  | true =>
    have hdj : d = joinT rows := by simpa [IsDoc] using hd.2
    subst hdj
    have hnl : ∀ x ∈ rows ++ B, NoNl x := by
      intro x hx
      rcases List.mem_append.mp hx with h | h
      · exact hd.1 x h
      · exact hB x h
    rw [← joinT_append]
    have hl' : (rows ++ B)[rows.length - 1]? = some last := by
      rw [List.getElem?_append_left (by omega)]; exact hlast
    rw [replaceRange_nl (rows ++ B) hnl (rows.length - 1) last hl' sep hsep]
    have e1 : rows.length - 1 + 1 = rows.length := by omega
    rw [e1, List.take_left' rfl, List.drop_left' rfl]
    simp
  | false =>
    obtain ⟨hdJ, pre, last', hls, hne⟩ : d ++ [10] = joinT rows ∧ ∃ pre last, rows = pre ++ [last] ∧ last ≠ [] := by
      simpa [IsDoc] using hd.2
    subst hls
    have hpl : (pre ++ [last']).length - 1 = pre.length := by simp
    rw [hpl] at hlast ⊢
    have : last' = last := by simpa using hlast
    subst this
    have hnlp : ∀ x ∈ pre, NoNl x := fun x hx => hd.1 x (by simp [hx])
    have hdeq : d = joinT pre ++ last' := by
      have : d ++ [10] = (joinT pre ++ last') ++ [10] := by rw [hdJ, joinT_append]; simp [joinT]
      exact List.append_cancel_right this
    have hsl : splitLines (d ++ joinT B) = pre ++ splitLines (last' ++ joinT B) := by
      rw [hdeq, List.append_assoc, splitLines_joinT_append pre _ hnlp]
    have hne2 : splitLines (last' ++ joinT B) ≠ [] := splitLines_ne_nil _ (by simp [hne])
    have hlen : pre.length < (splitLines (d ++ joinT B)).length := by
      rw [hsl]
      have := List.length_pos_iff.mpr hne2
      simp; omega
    rw [replaceRange_two (d ++ joinT B) pre.length last'.length pre.length last'.length sep (Nat.le_refl _) hlen]
    have hoff : off (splitLines (d ++ joinT B)) pre.length = (joinT pre).length := by
      unfold off; rw [hsl, List.take_left' rfl]
    rw [hoff]
    have hdl : (joinT pre).length + last'.length = d.length := by rw [hdeq]; simp
    rw [if_pos (by simp; omega), hdl, List.take_left' rfl, List.drop_left' rfl, hsep]
    congr 1
    simp only [Bool.false_eq_true, ↓reduceIte, List.append_nil, joinT_append]
    rw [← joinT_append, ← hdJ]

end A2Verif.Lemmas.Renumber
