import A2Verif.Lemmas.FsCpmRename2
/-!
# Extended file names: `split_user_filename`, `is_name_valid`, `string_to_file_name` against the key `get_file` looks for
-/
namespace A2Verif.FsCpm
open A2Verif.Fs.Cpm
open A2Verif.Read.Cpm (Dpb fileKey trimR)

/-! ## `split` -/

theorem splitOn_cons_eq {c x : Nat} (xs : Bytes) (h : x = c) : splitOn c (x :: xs) = [] :: splitOn c xs := by
  conv => lhs; unfold splitOn
  rw [if_pos h]

theorem splitOn_cons_ne {c x : Nat} (xs : Bytes) (h : x ≠ c) :
    splitOn c (x :: xs) = match splitOn c xs with
      | [] => [[x]]
      | p :: ps => (x :: p) :: ps := by
  conv => lhs; unfold splitOn
  rw [if_neg h]
  cases splitOn c xs <;> rfl

theorem splitOn_ne_nil (c : Nat) : ∀ s : Bytes, splitOn c s ≠ []
  | [] => by simp [splitOn]
  | x :: xs => by
    by_cases h : x = c
    · rw [splitOn_cons_eq xs h]; simp
    · rw [splitOn_cons_ne xs h]; split <;> simp

theorem splitOn_not_mem {c : Nat} : ∀ {s : Bytes}, c ∉ s → splitOn c s = [s]
  | [], _ => rfl
  | x :: xs, h => by
    have hx : x ≠ c := fun e => h (e ▸ List.mem_cons_self)
    rw [splitOn_cons_ne xs hx, splitOn_not_mem (fun m => h (List.mem_cons_of_mem _ m))]

theorem splitOn_append {c : Nat} : ∀ {a : Bytes} (b : Bytes), c ∉ a → splitOn c (a ++ [c] ++ b) = a :: splitOn c b
  | [], b, _ => by
    show splitOn c (c :: b) = _
    rw [splitOn_cons_eq b rfl]
  | x :: a, b, h => by
    have hx : x ≠ c := fun e => h (e ▸ List.mem_cons_self)
    show splitOn c (x :: (a ++ [c] ++ b)) = _
    rw [splitOn_cons_ne _ hx, splitOn_append b (fun m => h (List.mem_cons_of_mem _ m))]

/-- the parts of a split contain no separator and join back to the string -/
theorem splitOn_spec (c : Nat) : ∀ s : Bytes, (∀ p ∈ splitOn c s, c ∉ p) ∧
    (match splitOn c s with
     | [a] => s = a
     | a :: rest => ∃ t, s = a ++ [c] ++ t ∧ splitOn c t = rest
     | [] => False)
  | [] => by simp [splitOn]
  | x :: xs => by
    obtain ⟨ih1, ih2⟩ := splitOn_spec c xs
    by_cases hx : x = c
    · rw [splitOn_cons_eq xs hx]
      refine ⟨?_, ?_⟩
      · intro p hp
        rcases List.mem_cons.1 hp with rfl | hp
        · simp
        · exact ih1 p hp
      · have hne := splitOn_ne_nil c xs
        cases hs : splitOn c xs with
        | nil => exact absurd hs hne
        | cons a rest => exact ⟨xs, by rw [hx]; rfl, hs⟩
    · rw [splitOn_cons_ne xs hx]
      cases hs : splitOn c xs with
      | nil => exact absurd hs (splitOn_ne_nil c xs)
      | cons p ps =>
        rw [hs] at ih1 ih2
        refine ⟨?_, ?_⟩
        · intro q hq
          rcases List.mem_cons.1 hq with rfl | hq
          · intro hm
            rcases List.mem_cons.1 hm with e | hm
            · exact hx e.symm
            · exact ih1 p List.mem_cons_self hm
          · exact ih1 q (List.mem_cons_of_mem _ hq)
        · cases ps with
          | nil =>
            simp only at ih2 ⊢
            rw [ih2]
          | cons q qs =>
            simp only at ih2 ⊢
            obtain ⟨t, e1, e2⟩ := ih2
            exact ⟨t, by rw [e1]; rfl, e2⟩

theorem upperByte_eq_iff (c x : Nat) (hc : c = 46 ∨ c = 58) : upperByte x = c ↔ x = c := by
  unfold upperByte
  split <;> omega

theorem splitOn_upper (c : Nat) (hc : c = 46 ∨ c = 58) : ∀ s : Bytes, splitOn c (upper s) = (splitOn c s).map upper
  | [] => rfl
  | x :: xs => by
    show splitOn c (upperByte x :: upper xs) = _
    by_cases hx : x = c
    · rw [splitOn_cons_eq _ ((upperByte_eq_iff c x hc).2 hx), splitOn_cons_eq _ hx, splitOn_upper c hc xs]
      rfl
    · rw [splitOn_cons_ne _ (fun e => hx ((upperByte_eq_iff c x hc).1 e)), splitOn_cons_ne _ hx, splitOn_upper c hc xs]
      cases splitOn c xs with
      | nil => rfl
      | cons p ps => rfl

theorem trimEnd_fix {s : Bytes} (h : ∀ c ∈ s, isAsciiSpace c = false) : trimEnd s = s := by
  unfold trimEnd
  rw [dropWhile_head_neg, List.reverse_reverse]
  intro x hx
  have : x ∈ s.reverse := List.mem_of_mem_head? (Option.mem_def.2 hx)
  exact h x (List.mem_reverse.1 this)

/-! ## valid names -/

theorem charOk_fin : ∀ c : Fin 128, charOk c.val = true →
    okChar (upperByte c.val) = true ∧ upperByte c.val % 128 = upperByte c.val ∧ isAsciiSpace c.val = false ∧ c.val ≠ 46 ∧ c.val ≠ 58 := by decide

theorem charOk_facts {c : Nat} (h : charOk c = true) :
    okChar (upperByte c) = true ∧ upperByte c % 128 = upperByte c ∧ isAsciiSpace c = false ∧ c ≠ 46 ∧ c ≠ 58 := by
  have hlt : c < 128 := by
    unfold charOk at h
    simp only [Bool.and_eq_true, decide_eq_true_eq] at h
    exact h.1.1
  exact charOk_fin ⟨c, hlt⟩ h

theorem trimR_pad {B : Bytes} (h : ∀ c ∈ B, okChar c = true) (n : Nat) : trimR (B ++ List.replicate n 32) = B := by
  unfold Read.Cpm.trimR
  rw [List.reverse_append, List.reverse_replicate, dropWhile_replicate_append (by decide)]
  rw [dropWhile_head_neg, List.reverse_reverse]
  intro x hx
  have : x ∈ B := List.mem_reverse.1 (List.mem_of_mem_head? (Option.mem_def.2 hx))
  have := (okChar_ne (h x this)).2.2
  simpa using this

/-- a blank-padded field of stored characters is clean -/
theorem clean_pad {B : Bytes} (h : ∀ c ∈ B, okChar c = true) {n : Nat} (hl : B.length ≤ n) : cleanField (padTo n B) = true := by
  have hp : padTo n B = B ++ List.replicate (n - B.length) 32 := by
    unfold padTo; rw [List.take_of_length_le hl]
  unfold cleanField
  rw [hp, trimR_pad h, Bool.and_eq_true]
  refine ⟨List.all_eq_true.2 h, ?_⟩
  simp

theorem map_mod_fix {l : Bytes} (h : ∀ c ∈ l, c % 128 = c) : l.map (· % 128) = l := by
  conv => rhs; rw [← List.map_id l]
  exact List.map_congr_left h

/-- what `string_to_file_name` makes of a valid name, and the parts of the name -/
structure NameParts (name base ext : Bytes) : Prop where
  ok : ∀ c ∈ base ++ ext, charOk c = true
  lb : base.length ≤ 8
  le : ext.length ≤ 3
  shape : (name = base ∧ ext = [] ∧ 46 ∉ name) ∨ (name = base ++ [46] ++ ext ∧ 46 ∈ name)
  s2fn : stringToFileName name = (padTo 8 (upper base), padTo 3 (upper ext))

theorem nameParts {name : Bytes} (hv : isNameValid name = true) : ∃ base ext, NameParts name base ext := by
  unfold isNameValid at hv
  simp only [] at hv
  have hspec := splitOn_spec 46 name
  have hup := splitOn_upper 46 (Or.inl rfl) name
  cases hs : splitOn 46 name with
  | nil => exact absurd hs (splitOn_ne_nil 46 name)
  | cons base rest =>
    rw [hs] at hv hspec hup
    cases rest with
    | nil =>
      simp only [List.length_cons, List.length_nil, List.headD_cons, List.drop_succ_cons, List.drop_zero, List.headD_nil,
        List.append_nil, Bool.and_eq_true, decide_eq_true_eq, List.all_eq_true] at hv
      rw [if_neg (by omega)] at hv
      simp only [Bool.and_eq_true, decide_eq_true_eq, List.all_eq_true] at hv
      obtain ⟨h1, h2⟩ := hspec
      simp only at h2
      refine ⟨base, [], ⟨by simpa using hv.1.1, of_decide_eq_true hv.1.2, by simp, Or.inl ⟨h2, rfl, by rw [h2]; exact h1 base List.mem_cons_self⟩, ?_⟩⟩
      unfold stringToFileName
      simp only []
      rw [hup]
      rfl
    | cons ext rest2 =>
      cases rest2 with
      | nil =>
        simp only [List.length_cons, List.length_nil, List.headD_cons, List.drop_succ_cons, List.drop_zero] at hv
        rw [if_neg (by omega)] at hv
        simp only [Bool.and_eq_true, decide_eq_true_eq, List.all_eq_true] at hv
        obtain ⟨h1, h2⟩ := hspec
        simp only at h2
        obtain ⟨t, e1, e2⟩ := h2
        have ht := splitOn_spec 46 t
        rw [e2] at ht
        have et : t = ext := ht.2
        refine ⟨base, ext, ⟨by simpa using hv.1.1, of_decide_eq_true hv.1.2, hv.2, Or.inr ⟨by rw [e1, et], by rw [e1]; simp⟩, ?_⟩⟩
        unfold stringToFileName
        simp only []
        rw [hup]
        rfl
      | cons x xs =>
        simp only [List.length_cons] at hv
        rw [if_pos (by omega)] at hv
        cases hv

/-! ## the key of a canonically spelled extended name -/

/-- an extended name a2kit handles consistently: valid 8+3 name, user prefix (if any) in canonical decimal spelling -/
def xnameOk (x : Bytes) : Bool :=
  match splitUserFilename x with
  | .ok (u, name) => isNameValid name && (x == if x.contains 58 then decDigits u ++ [58] ++ name else name)
  | .error _ => false

theorem decDigits_facts : ∀ u : Fin 16, upper (decDigits u.val) = decDigits u.val ∧ 46 ∉ decDigits u.val ∧
    (∀ c ∈ decDigits u.val, isAsciiSpace c = false) := by decide

theorem upper_append (a b : Bytes) : upper (a ++ b) = upper a ++ upper b := by unfold upper; rw [List.map_append]

theorem split_no58 {x : Bytes} (h : 58 ∉ x) : splitUserFilename x = .ok (0, x) := by
  unfold splitUserFilename
  rw [splitOn_not_mem h]

/-- the key `get_file` looks for, for a canonically spelled name: user, upper-case base and extension -/
theorem canonKey_ok {x name : Bytes} {u : Nat} (hu : u < 16) (hx : splitUserFilename x = .ok (u, name))
    (hv : isNameValid name = true) (hc : x = if x.contains 58 then decDigits u ++ [58] ++ name else name) :
    ∃ base ext, NameParts name base ext ∧ canonKey x = decDigits u ++ [58] ++ (upper base ++ [46] ++ upper ext) := by
  obtain ⟨base, ext, np⟩ := nameParts hv
  refine ⟨base, ext, np, ?_⟩
  obtain ⟨dup, d46, dsp⟩ := decDigits_facts ⟨u, hu⟩
  simp only at dup d46 dsp
  have hokb : ∀ c ∈ base, charOk c = true := fun c hc => np.ok c (List.mem_append_left _ hc)
  have hoke : ∀ c ∈ ext, charOk c = true := fun c hc => np.ok c (List.mem_append_right _ hc)
  have nb58 : 58 ∉ base := fun m => (charOk_facts (hokb 58 m)).2.2.2.2 rfl
  have ne58 : 58 ∉ ext := fun m => (charOk_facts (hoke 58 m)).2.2.2.2 rfl
  have nb46 : 46 ∉ base := fun m => (charOk_facts (hokb 46 m)).2.2.2.1 rfl
  -- the name as base.ext
  have hname58 : 58 ∉ name := by
    rcases np.shape with ⟨e, _, _⟩ | ⟨e, _⟩
    · rw [e]; exact nb58
    · rw [e]; simp [nb58, ne58]
  have hnsp : ∀ c ∈ name, isAsciiSpace c = false := by
    intro c hc
    rcases np.shape with ⟨e, _, _⟩ | ⟨e, _⟩
    · rw [e] at hc; exact (charOk_facts (hokb c hc)).2.2.1
    · rw [e] at hc
      simp only [List.mem_append, List.mem_singleton] at hc
      rcases hc with (hc | hc) | hc
      · exact (charOk_facts (hokb c hc)).2.2.1
      · rw [hc]; decide
      · exact (charOk_facts (hoke c hc)).2.2.1
  -- the prefix
  have key : ∀ (pre : Bytes), (∀ c ∈ pre, isAsciiSpace c = false) → 46 ∉ pre → upper pre = pre → x = pre ++ name →
      (if x.contains 46 then trimEnd x else trimEnd x ++ [46]) = pre ++ (base ++ [46] ++ ext) := by
    intro pre psp p46 _ hxp
    have hxs : ∀ c ∈ x, isAsciiSpace c = false := by
      intro c hc
      rw [hxp] at hc
      rcases List.mem_append.1 hc with hc | hc
      · exact psp c hc
      · exact hnsp c hc
    rw [trimEnd_fix hxs]
    rcases np.shape with ⟨e, ee, n46⟩ | ⟨e, m46⟩
    · have : x.contains 46 = false := by
        rw [hxp]; simp [p46, n46]
      rw [this, hxp, e, ee]
      simp
    · have : x.contains 46 = true := by
        rw [hxp]; simp [m46]
      rw [this, hxp, e]
      simp
  unfold canonKey
  simp only []
  by_cases c58 : x.contains 58 = true
  · rw [if_pos c58] at hc
    rw [key (decDigits u ++ [58]) (by
        intro c hc'
        rcases List.mem_append.1 hc' with h | h
        · exact dsp c h
        · rw [List.mem_singleton.1 h]; decide) (by simp [d46]) (by rw [upper_append, dup]; rfl) hc]
    rw [if_pos (by simp)]
    rw [upper_append, upper_append, upper_append, upper_append, dup]
    simp [upper, upperByte]
  · rw [if_neg c58] at hc
    have hx58 : 58 ∉ x := by simpa using c58
    have := split_no58 hx58
    rw [hx] at this
    have hu0 : u = 0 := by cases this; rfl
    rw [key [] (by intro c hc'; cases hc') (by simp) rfl (by simpa using hc)]
    rw [if_neg (by simp [nb58, ne58])]
    rw [hu0, upper_append, upper_append]
    simp [upper, upperByte, decDigits]

end A2Verif.FsCpm
