import A2Verif.Lemmas.FsFatPutRun
/-!
# Sub-directories: the directory buffer a2kit reads along a cluster chain, and the write-back of one entry

`blockData d c` is the content of cluster `c`, `chainData d cl` the concatenation over a chain.  For a link chain `cl` from
`c1` (`IsChain`): `get_directory(Some(c1))` yields `dirOfBytes (chainData d cl)` and leaves the state alone
(`getDirectory_chain`); the reader's `clusterData` of the same clusters is the same data (`reader_chainData`).
**`writebackSub_spec`: `writeback_directory_entry` of entry `idx` of a sub-directory — for every `idx`, in whichever
cluster of the chain it lies — rewrites exactly the cluster `cl[idx / entries_per_cluster]`, with the entries of that
cluster in which only entry `idx` is replaced; no other unit and no FAT entry changes, so the directory read afterwards is
the old one with entry `idx` replaced.**
-/
namespace A2Verif.FsFat
open A2Verif A2Verif.Fs.Fat A2Verif.Read.Fat A2Verif.Read.FatT

/-- the content of cluster `c` -/
def blockData (d : Disk) (c : Nat) : Bytes :=
  ((List.range d.bpb.spc).map (fun i => d.raw.units.getD (d.bpb.firstClusterSec c + i) [])).flatten

/-- the data along a chain of clusters -/
def chainData (d : Disk) (cl : List Nat) : Bytes := (cl.map (blockData d)).flatten

theorem app_eq (a b : Bytes) : app a b = a ++ b := by
  unfold app
  split
  · rename_i h
    simp at h
    simp [h]
  · rfl

theorem imgReadBlock_ok (r : Raw) : ∀ (ss : List Nat), (∀ s ∈ ss, s < r.units.size) →
    imgReadBlock r ss = .ok (ss.map (fun s => r.units.getD s [])).flatten := by
  intro ss
  induction ss with
  | nil => intro _; rfl
  | cons s t ih =>
    intro h
    have hs : s < r.units.size := h s (by simp)
    rw [imgReadBlock, Array.getElem?_eq_getElem hs, ih (fun x hx => h x (by simp [hx]))]
    simp only [app_eq, List.map_cons, List.flatten_cons]
    congr 2
    simp [Array.getD, hs]

theorem clus_in_img {d : Disk} (g : Geo d) {c : Nat} (hc : clusInRng d.bpb c = true) :
    ∀ s ∈ List.range' (d.bpb.firstClusterSec c) d.bpb.spc, s < d.raw.units.size := by
  obtain ⟨f, _⟩ : ∃ f : Array Nat, True := ⟨#[], trivial⟩
  intro s hs
  have ⟨h2, h3⟩ := clusInRng_bounds hc
  have h1 := (usable_le (b := d.bpb)).1
  have hfit := g.fits
  rw [List.mem_range'_1] at hs
  unfold Bpb.firstClusterSec at hs
  unfold Bpb.dataRgnSecs at h1
  have hspc : 0 < d.bpb.spc := Nat.pos_of_ne_zero g.spc
  have hmul : (c - 2 + 1) * d.bpb.spc ≤ (d.bpb.totSec - d.bpb.firstDataSec) := by
    have : c - 2 + 1 ≤ (d.bpb.totSec - d.bpb.firstDataSec) / d.bpb.spc := by unfold firstDataCluster at h3; omega
    calc (c - 2 + 1) * d.bpb.spc ≤ ((d.bpb.totSec - d.bpb.firstDataSec) / d.bpb.spc) * d.bpb.spc := Nat.mul_le_mul_right _ this
      _ ≤ d.bpb.totSec - d.bpb.firstDataSec := Nat.div_mul_le_self _ _
  rw [Nat.add_mul] at hmul
  omega

theorem blockData_length {d : Disk} (g : Geo d) {c : Nat} (hc : clusInRng d.bpb c = true) : (blockData d c).length = d.bpb.spc * 512 := by
  unfold blockData
  have : AllLen 512 ((List.range d.bpb.spc).map (fun i => d.raw.units.getD (d.bpb.firstClusterSec c + i) [])) := by
    intro x hx
    obtain ⟨i, hi, rfl⟩ := List.mem_map.mp hx
    have hs := clus_in_img g hc (d.bpb.firstClusterSec c + i) (by rw [List.mem_range'_1]; have := List.mem_range.mp hi; omega)
    simp only [Array.getD, hs, dite_true]
    exact g.usz _ hs
  rw [flatten_length_of this]
  simp
  omega

theorem blockSize_eq {d : Disk} (g : Geo d) : d.bpb.blockSize = d.bpb.spc * 512 := by
  unfold Bpb.blockSize; rw [g.bps]

/-- `read_block` of a data cluster -/
theorem readBlock_eq {d : Disk} (g : Geo d) {c : Nat} (hc : clusInRng d.bpb c = true) : readBlock c d = (.ok (blockData d c), d) := by
  have hc2 := (clusInRng_bounds hc).1
  have hsecs : clusSecs d.bpb c = .ok (List.range' (d.bpb.firstClusterSec c) d.bpb.spc) := by
    unfold clusSecs; simp; omega
  have hrd : imgReadBlock d.raw (List.range' (d.bpb.firstClusterSec c) d.bpb.spc) = .ok (blockData d c) := by
    rw [imgReadBlock_ok _ _ (clus_in_img g hc)]
    unfold blockData
    rw [range'_eq_map, List.map_map]
    rfl
  have hl := blockData_length g hc
  unfold readBlock
  simp only [M_bind_apply, M.get, M.lift, hsecs, hrd, blockSize_eq g]
  have : ¬ ((blockData d c).length < d.bpb.spc * 512) := by omega
  simp only [this, if_false, M_pure_apply]
  rw [takeN_of_le (by omega)]

/-- the reader reads the same data -/
theorem reader_blockData {d : Disk} (g : Geo d) {c : Nat} (hc : clusInRng d.bpb c = true) :
    clusterData d.raw (rbpb d.bpb) c = .ok (blockData d c) := by
  have hc2 := (clusInRng_bounds hc).1
  unfold clusterData
  rw [firstData_eq g]
  have hfc : d.bpb.firstDataSec + (c - 2) * (rbpb d.bpb).spc = d.bpb.firstClusterSec c := by
    unfold Bpb.firstClusterSec rbpb; simp only; omega
  rw [hfc]
  show secs d.raw (d.bpb.firstClusterSec c) d.bpb.spc "cluster" = .ok (blockData d c)
  rw [secs_ok]
  · rfl
  · intro k hk
    exact clus_in_img g hc _ (by rw [List.mem_range'_1]; omega)

theorem reader_chainData {d : Disk} (g : Geo d) {cl : List Nat} (hcl : ∀ c ∈ cl, clusInRng d.bpb c = true) :
    cl.mapM (clusterData d.raw (rbpb d.bpb)) = .ok (cl.map (blockData d)) :=
  mapM_ok _ _ _ (fun c hc => reader_blockData g (hcl c hc))

theorem isChain_inRng {d : Disk} {f : Array Nat} {c : Nat} {cl : List Nat} (h : IsChain f (hiOf d.bpb) c cl) :
    ∀ x ∈ cl, clusInRng d.bpb x = true := by
  intro x hx
  have := h.bounds x hx
  unfold hiOf at this
  unfold clusInRng firstDataCluster
  simp
  omega

/-- `next_cluster` on a cluster of a link chain -/
theorem nextCluster_eq {d : Disk} {f : Array Nat} (w : WOk d f) (hhi : hiOf d.bpb ≤ 0xFF7) {c : Nat} (hc : clusInRng d.bpb c = true)
    (hnd : nxt f c ≠ 0xFF7) :
    nextCluster c d = (.ok (if 0xFF8 ≤ nxt f c then none else some (nxt f c)), d) := by
  have hin : InBuf f c := w.inbuf c (clusInRng_bounds hc).2
  have hg : getCluster 12 f c = .ok (nxt f c) := getCluster12_eq hin
  have hdm : isDamaged 12 f c = .ok false := by
    unfold isDamaged
    rw [hg]
    have : badCluster 12 = 0xFF7 := rfl
    simp only [Except.map, this]
    congr 1
    simpa using hnd
  have hla : isLast 12 f c = .ok (decide (0xFF8 ≤ nxt f c)) := by
    unfold isLast
    rw [hg]
    rfl
  unfold nextCluster
  simp only [M_bind_apply, M.get, hc, Bool.not_true, Bool.false_eq_true, if_false, getFatBuffer_open w.fat, M.lift, w.typ,
    hdm, hla, hg]
  by_cases hl : 0xFF8 ≤ nxt f c
  · simp only [hl, decide_true, if_true, M_pure_apply]
  · simp only [hl, decide_false, Bool.false_eq_true, if_false, M_bind_apply, M.lift, M_pure_apply]

/-- the walk of `get_cluster_chain_data` along a link chain -/
theorem chainDataLoop_chain {d : Disk} {f : Array Nat} (g : Geo d) (w : WOk d f) : ∀ {c : Nat} {cl : List Nat},
    IsChain f (hiOf d.bpb) c cl → ∀ fuel, cl.length ≤ fuel → chainDataLoop fuel c d = (.ok (chainData d cl), d) := by
  have hhi := hiOf_le g
  intro c cl h
  induction h with
  | @last c h1 h2 h3 =>
    intro fuel hl
    cases fuel with
    | zero => simp at hl
    | succ n =>
      have hc : clusInRng d.bpb c = true := by unfold clusInRng hiOf firstDataCluster at *; simp; omega
      rw [chainDataLoop]
      simp only [M_bind_apply, M.get, hc, Bool.not_true, Bool.false_eq_true, if_false, readBlock_eq g hc,
        nextCluster_eq w hhi hc (by omega), h3, if_true, M_pure_apply]
      simp [chainData]
  | @link c cl' h1 h2 h3 h4 hrest ih =>
    intro fuel hl
    cases fuel with
    | zero => simp at hl
    | succ n =>
      have hc : clusInRng d.bpb c = true := by unfold clusInRng hiOf firstDataCluster at *; simp; omega
      have hnl : ¬ (0xFF8 ≤ nxt f c) := by omega
      have hnb := (hrest.bounds _ hrest.head_mem).2
      have hn7 : nxt f c ≠ 0xFF7 := by omega
      have hl' : cl'.length ≤ n := by simp at hl; omega
      rw [chainDataLoop]
      simp only [M_bind_apply, M.get, hc, Bool.not_true, Bool.false_eq_true, if_false, readBlock_eq g hc,
        nextCluster_eq w hhi hc hn7, hnl, ih n hl', M_pure_apply]
      simp [chainData]

/-- `get_directory(Some(c1))` for a first cluster from which a link chain starts -/
theorem getDirectory_chain {d : Disk} {f : Array Nat} (g : Geo d) (w : WOk d f) {c1 : Nat} {cl : List Nat}
    (h : IsChain f (hiOf d.bpb) c1 cl) (hnd : cl.Nodup) : getDirectory (some c1) d = (.ok (dirOfBytes (chainData d cl)), d) := by
  have hc1 := isChain_inRng h c1 h.head_mem
  have hc2 := (clusInRng_bounds hc1).1
  have hlen := chain_length_le h hnd
  unfold getDirectory getClusterChainData
  have hne : ¬ (c1 = 0) := by omega
  simp only [M_bind_apply, hne, if_false, M.get, hc1, Bool.not_true, Bool.false_eq_true]
  rw [chainDataLoop_chain g w h d.bpb.clusterCountUsable (by unfold hiOf at hlen; omega)]
  rfl

/-! ## list plumbing: blocks of `n` entries -/

theorem block_of_flatten {q : Nat} (L : List Bytes) (hA : AllLen q L) {k : Nat} (hk : k < L.length) :
    (L.flatten.drop (q * k)).take q = L[k] := by
  have := flatten_window L k 1 hA
  rw [Nat.mul_one] at this
  rw [← this]
  have : (L.drop k).take 1 = [L[k]] := by
    rw [List.drop_eq_getElem_cons hk, List.take_succ_cons, List.take_zero]
  rw [this]
  simp

theorem flatten_groups_n (n : Nat) : ∀ (m : Nat) (L : List Bytes), L.length = m * n →
    ((List.range m).map (fun k => ((L.drop (k * n)).take n).flatten)).flatten = L.flatten := by
  intro m
  induction m with
  | zero => intro L h; simp at h; simp [h]
  | succ m ih =>
    intro L h
    rw [List.range_succ, List.map_append, List.flatten_append]
    have h1 : (L.take (m * n)).length = m * n := by
      simp
      rw [h, Nat.succ_mul]; omega
    have e : (List.range m).map (fun k => ((L.drop (k * n)).take n).flatten) =
        (List.range m).map (fun k => (((L.take (m * n)).drop (k * n)).take n).flatten) := by
      apply List.map_congr_left
      intro k hk
      have hk' : k < m := by simpa using hk
      rw [List.drop_take, List.take_take]
      congr 2
      have : (k + 1) * n ≤ m * n := Nat.mul_le_mul_right n hk'
      rw [Nat.add_mul] at this
      omega
    rw [e, ih _ h1]
    simp only [List.map_cons, List.map_nil, List.flatten_cons, List.flatten_nil, List.append_nil]
    have : (L.drop (m * n)).take n = L.drop (m * n) := by
      apply List.take_of_length_le
      simp
      rw [h, Nat.succ_mul]; omega
    rw [this, ← List.flatten_append, List.take_append_drop]

/-! ## the directory buffer of a chain -/

/-- entries per cluster -/
def epcOf (b : Fs.Fat.Bpb) : Nat := b.spc * 16

theorem chainBlocks_allLen {d : Disk} (g : Geo d) {cl : List Nat} (hcl : ∀ c ∈ cl, clusInRng d.bpb c = true) :
    AllLen (d.bpb.spc * 512) (cl.map (blockData d)) := by
  intro x hx
  obtain ⟨c, hc, rfl⟩ := List.mem_map.mp hx
  exact blockData_length g (hcl c hc)

theorem chainData_length {d : Disk} (g : Geo d) {cl : List Nat} (hcl : ∀ c ∈ cl, clusInRng d.bpb c = true) :
    (chainData d cl).length = cl.length * (d.bpb.spc * 512) := by
  unfold chainData
  rw [flatten_length_of (chainBlocks_allLen g hcl)]
  simp [Nat.mul_comm]

/-- the entry list of a chain directory: 32-byte entries, `epc` per cluster, flattening to the chain data; and cluster `k`
holds the `k`-th block of `epc` entries -/
theorem chainDir_spec {d : Disk} (g : Geo d) {cl : List Nat} (hcl : ∀ c ∈ cl, clusInRng d.bpb c = true) :
    AllLen 32 (dirOfBytes (chainData d cl)) ∧ (dirOfBytes (chainData d cl)).length = cl.length * epcOf d.bpb ∧
      (dirOfBytes (chainData d cl)).flatten = chainData d cl ∧
      ∀ k c, cl[k]? = some c → blockData d c = (((dirOfBytes (chainData d cl)).drop (k * epcOf d.bpb)).take (epcOf d.bpb)).flatten := by
  have hl := chainData_length g hcl
  have e32 : cl.length * (d.bpb.spc * 512) = 32 * (cl.length * (d.bpb.spc * 16)) := by
    have : d.bpb.spc * 512 = 32 * (d.bpb.spc * 16) := by omega
    rw [this, Nat.mul_left_comm]
  obtain ⟨h1, h2, h3⟩ := dirOfBytes_spec (buf := chainData d cl) (by rw [hl, e32]; omega)
  have hlen : (dirOfBytes (chainData d cl)).length = cl.length * epcOf d.bpb := by
    rw [h2, hl, e32, Nat.mul_div_cancel_left _ (by omega : 0 < 32)]; rfl
  refine ⟨h1, hlen, h3, ?_⟩
  intro k c hk
  have hkl : k < cl.length := by
    by_cases h : k < cl.length
    · exact h
    · rw [List.getElem?_eq_none (by omega)] at hk; cases hk
  rw [flatten_window _ _ _ h1, h3]
  have hA := chainBlocks_allLen g hcl
  have hb := block_of_flatten (cl.map (blockData d)) hA (k := k) (by simpa using hkl)
  have e1 : 32 * (k * epcOf d.bpb) = d.bpb.spc * 512 * k := by
    unfold epcOf
    rw [Nat.mul_comm k, ← Nat.mul_assoc]
    congr 1
    omega
  have e2 : 32 * epcOf d.bpb = d.bpb.spc * 512 := by unfold epcOf; omega
  rw [e1, e2]
  unfold chainData
  rw [hb]
  simp only [List.getElem_map]
  congr 1
  rw [List.getElem?_eq_getElem hkl] at hk
  injection hk with hk
  exact hk.symm

/-- `hops` links from the first cluster of a chain lead to `cl[hops]` -/
theorem hopLoop_chain {d : Disk} {f : Array Nat} (w : WOk d f) {hi : Nat} : ∀ {c : Nat} {cl : List Nat}, IsChain f hi c cl →
    (∀ x ∈ cl, InBuf f x) → ∀ (n : Nat) (x : Nat), cl[n]? = some x → hopLoop n c d = (.ok x, d) := by
  intro c cl h
  induction h with
  | @last c _ _ _ =>
    intro _ n x hx
    cases n with
    | zero =>
      simp only [List.getElem?_cons_zero, Option.some.injEq] at hx
      subst hx
      rfl
    | succ n => simp at hx
  | @link c cl' _ _ _ _ _ ih =>
    intro hin n x hx
    cases n with
    | zero =>
      simp only [List.getElem?_cons_zero, Option.some.injEq] at hx
      subst hx
      rfl
    | succ n =>
      simp only [List.getElem?_cons_succ] at hx
      rw [hopLoop]
      simp only [M_bind_apply, getFatBuffer_open w.fat, M.get, M.lift, w.typ, getCluster12_eq (hin c (by simp))]
      exact ih (fun y hy => hin y (by simp [hy])) n x hx

/-- **`writeback_directory_entry` of a sub-directory writes the entry at its own cluster and offset and nothing else** -/
theorem writebackSub_spec {d : Disk} {f : Array Nat} (g : Geo d) (w : WOk d f) {c1 : Nat} {cl : List Nat}
    (h : IsChain f (hiOf d.bpb) c1 cl) (hnd : cl.Nodup) {idx : Nat} (hidx : idx < (dirOfBytes (chainData d cl)).length)
    {e' : Bytes} (he : e'.length = 32) :
    ∃ r' c, writebackDirectoryEntry (some c1) idx (dirOfBytes (chainData d cl)) e' d = (.ok (), { d with raw := r' }) ∧
      r'.units.size = d.raw.units.size ∧ r'.unitLen = d.raw.unitLen ∧ cl[idx / epcOf d.bpb]? = some c ∧
      (∀ u, u ∉ List.range' (d.bpb.firstClusterSec c) d.bpb.spc → r'.units[u]? = d.raw.units[u]?) ∧
      dirOfBytes (chainData { d with raw := r' } cl) = (dirOfBytes (chainData d cl)).set idx e' ∧
      Geo { d with raw := r' } := by
  have hcl := isChain_inRng h
  obtain ⟨hA, hlen, hflat, hblk⟩ := chainDir_spec g hcl
  have hspc : 0 < d.bpb.spc := Nat.pos_of_ne_zero g.spc
  have hepc : 0 < epcOf d.bpb := by unfold epcOf; omega
  have hhops : idx / epcOf d.bpb < cl.length := by
    rw [Nat.div_lt_iff_lt_mul hepc, ← hlen]; exact hidx
  obtain ⟨c, hc⟩ : ∃ c, cl[idx / epcOf d.bpb]? = some c := ⟨cl[idx / epcOf d.bpb], List.getElem?_eq_getElem hhops⟩
  have hcm : c ∈ cl := List.mem_of_getElem? hc
  have hcr := hcl c hcm
  have hc2 := (clusInRng_bounds hcr).1
  let dir' := (dirOfBytes (chainData d cl)).set idx e'
  have hA' : AllLen 32 dir' := hA.set idx he
  have hlen' : dir'.length = cl.length * epcOf d.bpb := by simp [dir', hlen]
  let data := ((dir'.drop (idx / epcOf d.bpb * epcOf d.bpb)).take (epcOf d.bpb)).flatten
  have hwhole : idx / epcOf d.bpb * epcOf d.bpb + epcOf d.bpb ≤ dir'.length := by
    rw [hlen']
    have : (idx / epcOf d.bpb + 1) * epcOf d.bpb ≤ cl.length * epcOf d.bpb := Nat.mul_le_mul_right _ hhops
    rw [Nat.add_mul] at this
    omega
  have hdlen : data.length = d.bpb.spc * 512 := by
    have hAw : AllLen 32 ((dir'.drop (idx / epcOf d.bpb * epcOf d.bpb)).take (epcOf d.bpb)) := by
      intro x hx
      exact hA' x (List.mem_of_mem_drop (List.mem_of_mem_take hx))
    show (((dir'.drop (idx / epcOf d.bpb * epcOf d.bpb)).take (epcOf d.bpb)).flatten).length = _
    rw [flatten_length_of hAw]
    simp
    rw [Nat.min_eq_left (by omega)]
    unfold epcOf; omega
  obtain ⟨r', hz, hsz, hul, hfr, hdat⟩ := zapBlock_full (d := d) data hc2 g.ulen (clus_in_img g hcr)
  have hq : quantize (takeN data d.bpb.blockSize) (d.bpb.spc * 512) = data := by
    rw [takeN_of_le (by rw [blockSize_eq g]; omega)]
    unfold quantize
    rw [if_pos hdlen]
  rw [hq] at hdat
  have hgeo : Geo ({ d with raw := r' } : Disk) := by
    obtain ⟨s0, hs0, hb0⟩ := g.boot
    have hlow : ∀ u, u < d.bpb.firstDataSec → r'.units[u]? = d.raw.units[u]? := by
      intro u hu
      apply hfr
      rw [List.mem_range'_1]
      unfold Bpb.firstClusterSec
      omega
    refine { boot := ⟨s0, ?_, hb0⟩, ulen := by rw [← g.ulen]; exact hul, usz := ?_, bps := g.bps, spc := g.spc, nfat := g.nfat,
             fat16 := g.fat16, spt := g.spt, heads := g.heads, typ := g.typ, ftyp := g.ftyp, rsvd := g.rsvd,
             fits := by show _ ∧ d.bpb.totSec ≤ r'.units.size; rw [hsz]; exact g.fits,
             chs := by show ∀ s, s < d.bpb.totSec → s / d.bpb.spt < r'.units.size / d.bpb.spt; rw [hsz]; exact g.chs }
    · show r'.units[0]? = some s0
      rw [hlow 0 (by have := g.rsvd; unfold Bpb.firstDataSec; omega)]; exact hs0
    · intro i hi
      have hi' : i < d.raw.units.size := by rw [← hsz]; exact hi
      have hget : r'.units[i]? = some (r'.units[i]) := Array.getElem?_eq_getElem hi
      show (r'.units[i]).length = 512
      by_cases hm : i ∈ List.range' (d.bpb.firstClusterSec c) d.bpb.spc
      · rw [List.mem_range'_1] at hm
        have := hdat (i - d.bpb.firstClusterSec c) (by omega)
        have e : d.bpb.firstClusterSec c + (i - d.bpb.firstClusterSec c) = i := by omega
        rw [e, hget] at this
        injection this with this
        rw [this]
        simp only [List.length_take, List.length_drop, hdlen]
        have : (i - d.bpb.firstClusterSec c + 1) * 512 ≤ d.bpb.spc * 512 := Nat.mul_le_mul_right _ (by omega)
        rw [Nat.add_mul] at this
        omega
      · have := hfr i hm
        rw [hget, Array.getElem?_eq_getElem hi'] at this
        injection this with this
        rw [this]; exact g.usz i hi'
  refine ⟨r', c, ?_, hsz, hul, hc, hfr, ?_, hgeo⟩
  · -- the run
    have hset : dirSet (dirOfBytes (chainData d cl)) idx e' = .ok dir' := by simp [dirSet, hidx, dir']
    have hepcv : d.bpb.blockSize / entrySize = epcOf d.bpb := by
      rw [blockSize_eq g]; unfold epcOf entrySize; omega
    have hraw : rawEntries dir' (idx / epcOf d.bpb * epcOf d.bpb) (epcOf d.bpb) = .ok data := by
      unfold rawEntries
      rw [if_pos hwhole]
    have hne : ¬ (epcOf d.bpb = 0) := by omega
    unfold writebackDirectoryEntry
    simp only [M_bind_apply, M.get, M.lift, hset, hepcv, hne, if_false,
      hopLoop_chain w h (fun x hx => w.inbuf x (clusInRng_bounds (hcl x hx)).2) _ _ hc, hraw]
    exact hz
  · -- the directory read afterwards
    have hcl' : ∀ x ∈ cl, clusInRng ({ d with raw := r' } : Disk).bpb x = true := hcl
    have hblocks : cl.map (blockData { d with raw := r' }) =
        (List.range cl.length).map (fun k => ((dir'.drop (k * epcOf d.bpb)).take (epcOf d.bpb)).flatten) := by
      apply List.ext_getElem?
      intro k
      simp only [List.getElem?_map, List.getElem?_range]
      by_cases hk : k < cl.length
      · rw [List.getElem?_eq_getElem hk, List.getElem?_range hk]
        simp only [Option.map_some]
        congr 1
        by_cases hkh : k = idx / epcOf d.bpb
        · -- the rewritten cluster
          subst hkh
          have hck : cl[idx / epcOf d.bpb] = c := by
            rw [List.getElem?_eq_getElem hk] at hc
            injection hc
          rw [hck]
          show ((List.range d.bpb.spc).map (fun i => r'.units.getD (d.bpb.firstClusterSec c + i) [])).flatten = data
          have : (List.range d.bpb.spc).map (fun i => r'.units.getD (d.bpb.firstClusterSec c + i) []) =
              (List.range d.bpb.spc).map (fun j => (data.drop (j * 512)).take 512) := by
            apply List.map_congr_left
            intro i hi
            rw [Array.getD_eq_getD_getElem?, hdat i (List.mem_range.mp hi)]
            rfl
          rw [this]
          exact flatten_chunks _ _ hdlen
        · -- an untouched cluster
          have hck := hblk k cl[k] (List.getElem?_eq_getElem hk)
          have hne : cl[k] ≠ c := by
            intro e
            have h1 : cl[k]? = some c := by rw [List.getElem?_eq_getElem hk, e]
            have := (List.getElem?_inj hk hnd).mp (h1.trans hc.symm)
            exact hkh this
          have hsame : blockData { d with raw := r' } cl[k] = blockData d cl[k] := by
            unfold blockData
            congr 1
            apply List.map_congr_left
            intro i hi
            have hi' : i < d.bpb.spc := List.mem_range.mp hi
            show r'.units.getD (d.bpb.firstClusterSec cl[k] + i) [] = d.raw.units.getD (d.bpb.firstClusterSec cl[k] + i) []
            rw [Array.getD_eq_getD_getElem?, Array.getD_eq_getD_getElem?, hfr]
            have hk2 := (clusInRng_bounds (hcl cl[k] (List.getElem_mem hk))).1
            exact secs_disjoint hk2 hc2 hne (by rw [List.mem_range'_1]; omega)
          rw [hsame, hck]
          show (((dirOfBytes (chainData d cl)).drop (k * epcOf d.bpb)).take (epcOf d.bpb)).flatten = _
          rw [window_set_other]
          rcases Nat.lt_or_gt_of_ne hkh with hlt | hgt
          · right
            have : (k + 1) * epcOf d.bpb ≤ idx / epcOf d.bpb * epcOf d.bpb := Nat.mul_le_mul_right _ hlt
            have := Nat.div_mul_le_self idx (epcOf d.bpb)
            rw [Nat.add_mul] at *
            omega
          · left
            have : (idx / epcOf d.bpb + 1) * epcOf d.bpb ≤ k * epcOf d.bpb := Nat.mul_le_mul_right _ hgt
            have h2 := Nat.lt_div_mul_add (a := idx) hepc
            rw [Nat.add_mul] at this
            omega
      · rw [List.getElem?_eq_none (by omega), List.getElem?_eq_none (by simp; omega)]
        rfl
    have hcd : chainData { d with raw := r' } cl = dir'.flatten := by
      unfold chainData
      rw [hblocks]
      exact flatten_groups_n (epcOf d.bpb) cl.length dir' hlen'
    rw [hcd, dirOfBytes_flatten hA']

end A2Verif.FsFat
