import A2Verif.Lemmas.RenumberFinal
/-!
Part 13 (C16): the pre-edited block of the move path — `apply_edits(sel_txt, sel_edits, sel.start.line)`.
-/
namespace A2Verif.Lemmas.Renumber
open A2Verif.Model.Renumber

/-- core of `applyEdits_disjoint` for a list that is already in application order -/
theorem applyLoop_disjoint {d : List Nat} {ls : List (List Nat)} {t : Bool} (hd : IsDoc d ls t) (S : List Edit)
    (hfit : ∀ ed ∈ S, EditOn ls ed ∧ ed.rng.s.ch < ed.rng.e.ch ∧ ed.new ≠ [])
    (hge : S.Pairwise EditGe) (hdis : S.Pairwise DisjE) :
    ∃ d' ls', applyLoop 0 S d = .ok d' ∧ IsDoc d' ls' t ∧ ls'.length = ls.length ∧
      ∀ r l, ls[r]? = some l → ∃ as, Chain 0 l.length as ∧ ls'[r]? = some (substAsc 0 l as) ∧
        ∀ x, x ∈ as ↔ ∃ ed ∈ S, ed.rng.s.line = r ∧ x = toE1 ed := by
  have hfits : Fits ls S := fun ed hed => (hfit ed hed).1
  have hbefore : S.Pairwise Before := by
    refine List.Pairwise.imp_of_mem ?_ (hge.and hdis)
    intro a b ha hb hab
    have h1 := (hfit a ha).2.1
    obtain ⟨hge, hdj⟩ := hab
    unfold EditGe at hge
    unfold DisjE at hdj
    unfold Before
    omega
  have hv := validSeq_of_fits S ls hfits hbefore
  obtain ⟨d', happ, hd', hlen⟩ := applyLoop_doc hd S hv (fun ed hed => (hfit ed hed).2.2)
  refine ⟨d', _, happ, hd', hlen, ?_⟩
  intro r l hl
  let ds := (S.filter (fun ed => ed.rng.s.line == r)).map toE1
  have hrowf := foldl_rowsStep_getElem? S ls r
  rw [hl] at hrowf
  have hp : ds.Pairwise (fun a b => b.e ≤ a.s) := by
    show (List.map toE1 _).Pairwise _
    rw [List.pairwise_map]
    refine List.Pairwise.imp_of_mem ?_ (hbefore.filter _)
    intro a b ha hb hab
    have ra := (List.mem_filter.mp ha).2
    have rb := (List.mem_filter.mp hb).2
    simp only [beq_iff_eq] at ra rb
    unfold Before at hab
    simp only [toE1]
    omega
  have hr : ∀ x ∈ ds, x.s ≤ x.e ∧ x.e ≤ l.length := by
    intro x hx
    obtain ⟨ed, hed, rfl⟩ := List.mem_map.mp hx
    obtain ⟨hin, hrow⟩ := List.mem_filter.mp hed
    simp only [beq_iff_eq] at hrow
    obtain ⟨⟨_, _, l', hl', h1, h2⟩, _, _⟩ := hfit ed hin
    rw [hrow, hl] at hl'
    injection hl' with hl'
    subst hl'
    exact ⟨h1, h2⟩
  obtain ⟨hc, heq⟩ := foldl_replace1_eq_subst l ds hp hr
  refine ⟨ds.reverse, hc, ?_, ?_⟩
  · rw [hrowf]; simp only [Option.map_some]; rw [← heq]
  · intro x
    simp only [List.mem_reverse]
    constructor
    · intro hx
      obtain ⟨ed, hed, rfl⟩ := List.mem_map.mp hx
      obtain ⟨hin, hrow⟩ := List.mem_filter.mp hed
      simp only [beq_iff_eq] at hrow
      exact ⟨ed, hin, hrow, rfl⟩
    · rintro ⟨ed, hed, hrow, rfl⟩
      exact List.mem_map.mpr ⟨ed, List.mem_filter.mpr ⟨hed, by simpa using hrow⟩, rfl⟩

/-- the CRLF wrapper of `apply_edits`, given what the loop did -/
theorem applyEdits_wrap {d : List Nat} {ls : List (List Nat)} {t : Bool} (hd : IsDoc d ls t) (crlf : Bool)
    (es : List Edit) (row : Nat) {d' : List Nat} {ls' : List (List Nat)}
    (hloop : applyLoop row (sortDesc es) d = .ok d') (hd' : IsDoc d' ls' t) (hlen : ls'.length = ls.length) :
    applyEdits (if crlf then lfToCrlf d else d) es row = .ok (if crlf then lfToCrlf d' else d') := by
  have hcr := noCR_isDoc hd
  unfold applyEdits
  cases crlf with
  | true =>
    simp only [↓reduceIte, crlfToLf_lfToCrlf d hcr, hloop, Res.bind]
    have := counts_lfToCrlf d hcr
    simp [this.1, this.2]
  | false =>
    simp only [Bool.false_eq_true, ↓reduceIte, crlfToLf_noCR d hcr, hloop, Res.bind, countCrlf_noCR d hcr]
    by_cases h0 : countLf d = 0
    · have c1 := countLf_isDoc hd
      have c2 := countLf_isDoc hd'
      have : countLf d' = 0 := by omega
      simp [h0, lfToCrlf_of_countLf_zero d' this]
    · have : (0 == countLf d) = false := by simp; omega
      simp [this]

/-- `line - row` of `apply_edits` -/
def shiftEdit (row : Nat) (e : Edit) : Edit :=
  ⟨⟨⟨e.rng.s.line - row, e.rng.s.ch⟩, ⟨e.rng.e.line - row, e.rng.e.ch⟩⟩, e.new⟩

theorem bind_congr {α β : Type} (r : Res α) (f g : α → Res β) (h : ∀ x, f x = g x) : r.bind f = r.bind g := by
  cases r <;> simp [Res.bind, h]

theorem applyLoop_shift (row : Nat) (S : List Edit) (d : List Nat)
    (h : ∀ e ∈ S, row ≤ e.rng.s.line ∧ row ≤ e.rng.e.line) :
    applyLoop row S d = applyLoop 0 (S.map (shiftEdit row)) d := by
  induction S generalizing d with
  | nil => rfl
  | cons e es ih =>
    have he := h e (by simp)
    have ih' := fun d => ih d (fun x hx => h x (List.mem_cons_of_mem _ hx))
    simp only [applyLoop, List.map_cons, shiftEdit, Nat.not_lt_zero, or_self, ↓reduceIte, Nat.sub_zero]
    rw [if_neg (by omega)]
    exact bind_congr _ _ _ ih'

/-- `apply_edits(doc, edits, row)` with a row offset, for pairwise disjoint single-row edits -/
theorem applyEdits_row_disjoint {d : List Nat} {ls : List (List Nat)} {t : Bool} (hd : IsDoc d ls t)
    (crlf : Bool) (es : List Edit) (row : Nat)
    (hfit : ∀ ed ∈ es, (row ≤ ed.rng.s.line ∧ ed.rng.e.line = ed.rng.s.line) ∧ EditOn ls (shiftEdit row ed) ∧
      ed.rng.s.ch < ed.rng.e.ch ∧ ed.new ≠ [])
    (hdis : es.Pairwise DisjE) :
    ∃ d' ls', applyEdits (if crlf then lfToCrlf d else d) es row = .ok (if crlf then lfToCrlf d' else d') ∧
      IsDoc d' ls' t ∧ ls'.length = ls.length ∧
      ∀ r l, ls[r]? = some l → ∃ as, Chain 0 l.length as ∧ ls'[r]? = some (substAsc 0 l as) ∧
        ∀ x, x ∈ as ↔ ∃ ed ∈ es, ed.rng.s.line = row + r ∧ x = toE1 ed := by
  have hperm := sortDesc_perm es
  have hmem : ∀ ed, ed ∈ sortDesc es ↔ ed ∈ es := fun ed => hperm.mem_iff
  -- both ends of every edit are on rows ≥ row
  have hrowge : ∀ ed ∈ es, row ≤ ed.rng.s.line ∧ row ≤ ed.rng.e.line := by
    intro ed hed
    obtain ⟨⟨h1, h2⟩, _, _⟩ := hfit ed hed
    omega
  have hfit' : ∀ ed ∈ (sortDesc es).map (shiftEdit row),
      EditOn ls ed ∧ ed.rng.s.ch < ed.rng.e.ch ∧ ed.new ≠ [] := by
    intro ed' hed'
    obtain ⟨ed, hed, rfl⟩ := List.mem_map.mp hed'
    obtain ⟨_, h2, h3, h4⟩ := hfit ed ((hmem ed).mp hed)
    exact ⟨h2, h3, h4⟩
  have hge' : ((sortDesc es).map (shiftEdit row)).Pairwise EditGe := by
    rw [List.pairwise_map]
    refine List.Pairwise.imp_of_mem ?_ (sortDesc_sorted es)
    intro a b ha hb hab
    have ra := (hrowge a ((hmem a).mp ha)).1
    have rb := (hrowge b ((hmem b).mp hb)).1
    unfold EditGe at hab ⊢
    simp only [shiftEdit]
    omega
  have hdis' : ((sortDesc es).map (shiftEdit row)).Pairwise DisjE := by
    rw [List.pairwise_map]
    refine List.Pairwise.imp_of_mem ?_ ((hperm.pairwise_iff (fun h => disjE_symm h)).mpr hdis)
    intro a b ha hb hab
    have ra := (hrowge a ((hmem a).mp ha)).1
    have rb := (hrowge b ((hmem b).mp hb)).1
    unfold DisjE at hab ⊢
    simp only [shiftEdit]
    omega
  obtain ⟨d', ls', hloop, hd', hlen, hspec⟩ := applyLoop_disjoint hd _ hfit' hge' hdis'
  have hloop' : applyLoop row (sortDesc es) d = .ok d' := by
    rw [applyLoop_shift row (sortDesc es) d (fun e he => hrowge e ((hmem e).mp he))]; exact hloop
  refine ⟨d', ls', applyEdits_wrap hd crlf es row hloop' hd' hlen, hd', hlen, ?_⟩
  intro r l hl
  obtain ⟨as, hc, hrow, hm⟩ := hspec r l hl
  refine ⟨as, hc, hrow, ?_⟩
  intro x
  rw [hm]
  constructor
  · rintro ⟨ed', hed', hr, rfl⟩
    obtain ⟨ed, hed, rfl⟩ := List.mem_map.mp hed'
    have := (hrowge ed ((hmem ed).mp hed)).1
    simp only [shiftEdit] at hr
    exact ⟨ed, (hmem ed).mp hed, by omega, rfl⟩
  · rintro ⟨ed, hed, hr, rfl⟩
    exact ⟨shiftEdit row ed, List.mem_map.mpr ⟨ed, (hmem ed).mpr hed, rfl⟩, by simp only [shiftEdit]; omega, rfl⟩

/-! `sel_txt` as a document -/

theorem lfToCrlf_append (a b : List Nat) : lfToCrlf (a ++ b) = lfToCrlf a ++ lfToCrlf b := by
  induction a with
  | nil => rfl
  | cons c cs ih =>
    simp only [List.cons_append, lfToCrlf, ih]
    split <;> simp

theorem lfToCrlf_noNl (l : List Nat) (h : NoNl l) : lfToCrlf l = l :=
  lfToCrlf_of_countLf_zero l (countLf_noNl l h)

theorem flatMap_sep_eq (rs : List (List Nat)) (h : ∀ l ∈ rs, NoNl l) :
    rs.flatMap (fun l => l ++ [CR, LF]) = lfToCrlf (joinT rs) ∧ rs.flatMap (fun l => l ++ [LF]) = joinT rs := by
  refine ⟨?_, rfl⟩
  induction rs with
  | nil => rfl
  | cons l ls ih =>
    have : joinT (l :: ls) = l ++ ([10] ++ joinT ls) := by simp [joinT]
    rw [this, lfToCrlf_append, lfToCrlf_append, lfToCrlf_noNl l (h l (by simp)),
      ← ih (fun l' hl' => h l' (by simp [hl']))]
    simp [lfToCrlf, CR, LF]

end A2Verif.Lemmas.Renumber
