import A2Verif.Lemmas.FsProdosDelM
import A2Verif.Lemmas.FsProdosVol
/-!
# `delete` of a file of the volume directory: the reading of the image afterwards

`delImage` (what the model writes, `delete_trace`) byte by byte (`delUnit_*`), then the located reading of the new
image (`readDir_change_split`: the slot has become inactive, every other record is read as before), the reading of the
volume after the write-back (`read_wbRaw`), and the abstract step (`vol_erase`).
-/
namespace A2Verif.FsProdos
open A2Verif.Fs.Prodos
open A2Verif.Read.Prodos (entryAt dirChain idxPtr indexEntries readData trimName bitmapFree)
open A2Verif.Read.ProdosT

/-- unit `b` of `delImage raw1 B idx` -/
def delUnit (raw1 : Raw) (B idx b : Nat) : Bytes :=
  let u2 := if b = B then patched (unitAt raw1 b) (Dir.entryOff idx) [0] else unitAt raw1 b
  if b = 2 then patched u2 37 (u16le (le16 (u2.take dirLen) 37 - 1)) else u2

theorem delImage_size (raw1 : Raw) (B idx : Nat) : (delImage raw1 B idx).units.size = raw1.units.size := by
  unfold delImage; simp only [setUnit_size]

theorem delImage_other (raw1 : Raw) (B idx j : Nat) (hB : j ≠ B) (h2 : j ≠ 2) :
    (delImage raw1 B idx).units[j]? = raw1.units[j]? := by
  unfold delImage
  simp only
  rw [setUnit_other _ _ _ _ (Ne.symm h2), setUnit_other _ _ _ _ (Ne.symm hB)]

theorem delImage_unit (raw1 : Raw) (B idx b : Nat) (hBsz : B < raw1.units.size) (h2sz : 2 < raw1.units.size) :
    unitAt (delImage raw1 B idx) b = delUnit raw1 B idx b := by
  unfold delImage delUnit
  simp only
  have hu2 : ∀ c, unitAt (setUnit raw1 B (patched (unitAt raw1 B) (Dir.entryOff idx) [0])) c =
      if c = B then patched (unitAt raw1 c) (Dir.entryOff idx) [0] else unitAt raw1 c := by
    intro c
    by_cases hc : c = B
    · subst hc; rw [if_pos rfl]; unfold unitAt; rw [setUnit_self _ _ _ hBsz]; rfl
    · rw [if_neg hc, unitAt_setUnit_other _ _ _ _ (Ne.symm hc)]
  by_cases hb : b = 2
  · subst hb
    rw [if_pos rfl]
    unfold unitAt
    rw [setUnit_self _ _ _ (by rw [setUnit_size]; exact h2sz)]
    simp only [Option.getD_some]
    have := hu2 2
    unfold unitAt at this
    rw [this]
  · rw [if_neg hb, unitAt_setUnit_other _ _ _ _ (Ne.symm hb), hu2 b]

/-- bytes of a unit of the chain after `delete` that are neither the zeroed first byte of the slot nor the file count -/
theorem delUnit_getD_same (raw1 : Raw) (B k b j : Nat) (hlen : (unitAt raw1 b).length = 512) (hk : k < 13) (hj : j < 511)
    (hjoff : b = B → j ≠ 4 + k * 39) (hj37 : b = 2 → j ≠ 37 ∧ j ≠ 38) :
    (delUnit raw1 B (k + 1) b).getD j 0 = (unitAt raw1 b).getD j 0 := by
  have hoff : Dir.entryOff (k + 1) = 4 + k * 39 := by rw [entryOff_eq' _ (by omega)]; simp
  unfold delUnit
  simp only
  have hu2 : (if b = B then patched (unitAt raw1 b) (Dir.entryOff (k + 1)) [0] else unitAt raw1 b).getD j 0 = (unitAt raw1 b).getD j 0 := by
    split
    · next hb =>
      rw [hoff, getD_patched_out _ _ _ j hlen (by simp; omega) (by have := hjoff hb; simp; omega) hj]
    · rfl
  have hl2 : (if b = B then patched (unitAt raw1 b) (Dir.entryOff (k + 1)) [0] else unitAt raw1 b).length = 512 := by
    split
    · exact patched_length _ _ _
    · exact hlen
  split
  · next hb =>
    obtain ⟨h37, h38⟩ := hj37 hb
    rw [getD_patched_out _ _ _ j hl2 (by show 37 + 2 ≤ 511; omega) (by show j < 37 ∨ 37 + 2 ≤ j; omega) hj, hu2]
  · exact hu2

theorem delUnit_length (raw1 : Raw) (B idx b : Nat) (hlen : (unitAt raw1 b).length = 512) : (delUnit raw1 B idx b).length = 512 := by
  unfold delUnit
  simp only
  split
  · exact patched_length _ _ _
  · split
    · exact patched_length _ _ _
    · exact hlen

theorem u16le_bytes (v : Nat) : ∀ x ∈ u16le v, x < 256 := by
  intro x hx
  unfold u16le at hx
  simp only [List.mem_cons, List.mem_nil_iff, or_false] at hx
  rcases hx with rfl | rfl <;> omega

theorem delUnit_bytes (raw1 : Raw) (B k b : Nat) (hlen : (unitAt raw1 b).length = 512) (hk : k < 13)
    (hb : ∀ x ∈ unitAt raw1 b, x < 256) : ∀ x ∈ delUnit raw1 B (k + 1) b, x < 256 := by
  have hoff : Dir.entryOff (k + 1) = 4 + k * 39 := by rw [entryOff_eq' _ (by omega)]; simp
  unfold delUnit
  simp only
  have hb2 : ∀ x ∈ (if b = B then patched (unitAt raw1 b) (Dir.entryOff (k + 1)) [0] else unitAt raw1 b), x < 256 := by
    split
    · rw [hoff]
      exact patched_bytes _ _ _ hlen (by simp; omega) hb (by simp)
    · exact hb
  have hl2 : (if b = B then patched (unitAt raw1 b) (Dir.entryOff (k + 1)) [0] else unitAt raw1 b).length = 512 := by
    split
    · exact patched_length _ _ _
    · exact hlen
  split
  · exact patched_bytes _ _ _ hl2 (by show 37 + 2 ≤ 511; omega) hb2 (u16le_bytes _)
  · exact hb2

/-- the zeroed first byte of the slot -/
theorem delUnit_slot_zero (raw1 : Raw) (B k : Nat) (hlen : (unitAt raw1 B).length = 512) (hk : k < 13) (hkey : B = 2 → 1 ≤ k) :
    (delUnit raw1 B (k + 1) B).getD (4 + k * 39) 0 = 0 := by
  have hoff : Dir.entryOff (k + 1) = 4 + k * 39 := by rw [entryOff_eq' _ (by omega)]; simp
  unfold delUnit
  simp only [↓reduceIte]
  have h0 : (patched (unitAt raw1 B) (Dir.entryOff (k + 1)) [0]).getD (4 + k * 39) 0 = 0 := by
    rw [hoff, getD_patched _ _ _ _ hlen (by simp; omega), if_pos (by simp)]
    simp
  split
  · next hb =>
    have := hkey hb
    rw [getD_patched_out _ _ _ _ (patched_length _ _ _) (by show 37 + 2 ≤ 511; omega) (by show _ < 37 ∨ 37 + 2 ≤ _; omega) (by omega)]
    exact h0
  · exact h0

theorem le16_lt (b : Bytes) (off : Nat) (h : ∀ x ∈ b, x < 256) : le16 b off < 65536 := by
  have hg : ∀ j, b.getD j 0 < 256 := by
    intro j
    simp only [List.getD_eq_getElem?_getD]
    by_cases hj : j < b.length
    · rw [List.getElem?_eq_getElem hj]; exact h _ (List.getElem_mem hj)
    · rw [List.getElem?_eq_none (by omega)]; decide
  unfold le16
  have := hg off; have := hg (off + 1); omega

/-- the lowered file count -/
theorem delUnit_count (raw1 : Raw) (B k : Nat) (hlen : (unitAt raw1 2).length = 512) (hk : k < 13) (hkey : B = 2 → 1 ≤ k)
    (hb : ∀ x ∈ unitAt raw1 2, x < 256) : le16 (delUnit raw1 B (k + 1) 2) 37 = le16 (unitAt raw1 2) 37 - 1 := by
  have hoff : Dir.entryOff (k + 1) = 4 + k * 39 := by rw [entryOff_eq' _ (by omega)]; simp
  unfold delUnit
  simp only [↓reduceIte]
  have hl2 : (if 2 = B then patched (unitAt raw1 2) (Dir.entryOff (k + 1)) [0] else unitAt raw1 2).length = 512 := by
    split
    · exact patched_length _ _ _
    · exact hlen
  have hc2 : le16 ((if 2 = B then patched (unitAt raw1 2) (Dir.entryOff (k + 1)) [0] else unitAt raw1 2).take dirLen) 37 =
      le16 (unitAt raw1 2) 37 := by
    rw [le16_take _ dirLen 37 (by unfold dirLen; omega)]
    split
    · next hb2 =>
      have := hkey hb2.symm
      rw [hoff, le16_patched_out _ _ _ 37 hlen (by simp; omega) (Or.inl (by omega)) (by omega)]
    · rfl
  rw [hc2, le16_patched_self _ 37 _ hl2 (by omega) (by have := le16_lt _ 37 hb; omega)]

/-! ## the reading -/

/-- every unit of `r'` is a block of 512 bytes if every unit of `r` is and `r'` is `r` up to swapped halves -/
theorem shape_swapOnly {r r' : Raw} (h : ShapeOk r) (hs : SwapOnly r r') : ShapeOk r' := by
  intro u hu
  obtain ⟨j, hj, rfl⟩ := List.getElem_of_mem hu
  have hj' : j < r'.units.size := by simpa using hj
  have hget : r'.units[j]? = some r'.units.toList[j] := by
    rw [Array.getElem?_eq_getElem hj']; simp
  rcases hs j _ hget with h1 | ⟨ib, h1, h2⟩
  · have hjr : j < r.units.size := by
      rcases Nat.lt_or_ge j r.units.size with hh | hh
      · exact hh
      · rw [Array.getElem?_eq_none hh] at h1; cases h1
    have := h.unit hjr
    rw [unitAt_of_get h1] at this
    exact this
  · have hjr : j < r.units.size := by
      rcases Nat.lt_or_ge j r.units.size with hh | hh
      · exact hh
      · rw [Array.getElem?_eq_none hh] at h1; cases h1
    have := h.unit hjr
    rw [unitAt_of_get h1] at this
    rw [h2]
    exact swappedBlock_shape ib this.1 this.2

/-- a shape check unit by unit -/
theorem shapeOk_of_units {r : Raw} (h : ∀ j, j < r.units.size → (unitAt r j).length = 512 ∧ ∀ x ∈ unitAt r j, x < 256) : ShapeOk r := by
  intro u hu
  obtain ⟨j, hj, rfl⟩ := List.getElem_of_mem hu
  have hj' : j < r.units.size := by simpa using hj
  have := h j hj'
  unfold unitAt at this
  rw [Array.getElem?_eq_getElem hj'] at this
  simpa using this

theorem nodup_flatMap_disjoint {α β : Type} (hh : α → List β) (s1 s2 : List α) (a : α)
    (hnd : ((s1 ++ a :: s2).flatMap hh).Nodup) : ∀ b ∈ s1 ++ s2, ∀ u ∈ hh b, u ∉ hh a := by
  rw [List.flatMap_append, List.flatMap_cons, List.nodup_append] at hnd
  obtain ⟨_, hnd2, hnd3⟩ := hnd
  rw [List.nodup_append] at hnd2
  intro b hb u hu hua
  rcases List.mem_append.mp hb with hb1 | hb2
  · exact hnd3 u (List.mem_flatMap.mpr ⟨b, hb1, hu⟩) u (List.mem_append_left _ hua) rfl
  · exact hnd2.2.2 u hua u (List.mem_flatMap.mpr ⟨b, hb2, hu⟩) rfl

/-- the owned blocks of the records of a located reading, slot by slot -/
theorem allOwned_slots (fs : List LRec) (slots : List (Bytes × Nat × Nat)) (g : Bytes × Nat × Nat → List LRec)
    (h : fs = slots.flatMap g) :
    (fs.map (·.1)).flatMap (·.owned) = slots.flatMap (fun y => ((g y).map (·.1)).flatMap (·.owned)) := by
  rw [h, List.map_flatMap, List.flatMap_assoc]

theorem filter_range_nodup (n : Nat) (p : Nat → Bool) : ((List.range n).filter p).Nodup :=
  List.Nodup.sublist List.filter_sublist List.nodup_range

/-- what `Inv` gives about the blocks of the volume directory: they exist, are full blocks, none is a bitmap block or
owned by a record -/
theorem root_chain_facts {r : Raw} (hinv : Inv r) (v : Vol) (fsL : List LRec) (ch : List Nat)
    (hread : Read.ProdosT.read r = .ok v) (htree : readTree r (hdrTotal r) = .ok (fsL, ch)) :
    v.wfB = true ∧ v.noLeak = true ∧ Root r ch ∧
    v = { lo := 0, hi := hdrTotal r, sys := [0, 1] ++ ch ++ (List.range (nbmOf (hdrTotal r))).map (· + hdrBm r),
          files := fsL.map (·.1), freeUnits := (List.range (hdrTotal r)).filter (freeB (bufOf r (hdrBm r) (nbmOf (hdrTotal r)))),
          label := slice (unitAt r 2) 5 ((unitAt r 2).getD 4 0 % 16) } ∧
    dirChain r (hdrTotal r) 1000 2 [] = .ok ch ∧ IsChain r 2 ch ∧ ch.Nodup ∧
    (∀ b ∈ ch, b < hdrTotal r ∧ b ∉ bmRange (hdrBm r) (nbmOf (hdrTotal r)) ∧ b ∉ v.allOwned ∧ b ∈ v.sys) ∧
    2 ∈ ch ∧ 6 ≤ hdrTotal r ∧ 3 ≤ hdrBm r ∧ hdrBm r + nbmOf (hdrTotal r) ≤ hdrTotal r ∧
    (unitAt r 2).getD 4 0 / 16 = 0xF := by
  obtain ⟨v', fsL', ch', hr', hw, hn, hroot, hk2, hst, h6, h3, hbt, ht', hv⟩ := hinv.facts
  have e1 : v' = v := by rw [hread] at hr'; injection hr' with h; exact h.symm
  subst e1
  have e2 : fsL' = fsL ∧ ch' = ch := by
    rw [htree] at ht'; injection ht' with h; injection h with h1 h2; exact ⟨h1.symm, h2.symm⟩
  obtain ⟨rfl, rfl⟩ := e2
  have hc := readDir_chain r (hdrTotal r) 69 2 [] 0 fsL' ch' htree
  obtain ⟨hic, hlt, hnd⟩ := dirChain_ok r (hdrTotal r) 1000 2 ch' hc
  have h2 : 2 ∈ ch' := dirChain_start_mem r (hdrTotal r) 1000 2 ch' (by omega) hc
  have hsys : ∀ b ∈ ch', b ∈ v'.sys := by intro b hb; rw [hv]; simp [hb]
  have hndw := (wfB_iff.1 hw).2.1
  refine ⟨hw, hn, hroot, hv, hc, hic, hnd, ?_, h2, h6, h3, hbt, hst⟩
  intro b hb
  refine ⟨hlt b hb, ?_, ?_, hsys b hb⟩
  · intro hm
    rw [mem_bmRange] at hm
    have hin : b ∈ (List.range (nbmOf (hdrTotal r))).map (· + hdrBm r) := by
      rw [List.mem_map]; exact ⟨b - hdrBm r, List.mem_range.mpr (by omega), by omega⟩
    have hsn : v'.sys.Nodup := (List.nodup_append.mp hndw).2.1
    rw [hv] at hsn
    simp only at hsn
    rw [List.nodup_append] at hsn
    exact hsn.2.2 b (by simp [hb]) b hin rfl
  · intro ho
    rw [List.nodup_append] at hndw
    exact hndw.2.2 b ho b (hsys b hb) rfl

/-- the slots before / after the slot at `loc` -/
def sBefore : List (Bytes × Nat × Nat) → Nat × Nat → List (Bytes × Nat × Nat)
  | [], _ => []
  | a :: l, loc => if a.2 = loc then [] else a :: sBefore l loc

def sAfter : List (Bytes × Nat × Nat) → Nat × Nat → List (Bytes × Nat × Nat)
  | [], _ => []
  | a :: l, loc => if a.2 = loc then l else sAfter l loc

theorem split_canon : ∀ (l : List (Bytes × Nat × Nat)), (l.map (·.2)).Nodup → ∀ x ∈ l,
    l = sBefore l x.2 ++ x :: sAfter l x.2 ∧ (∀ y ∈ sBefore l x.2, y.2 ≠ x.2) ∧ (∀ y ∈ sAfter l x.2, y.2 ≠ x.2)
  | [], _, x, hx => by cases hx
  | a :: l, hnd, x, hx => by
    rw [List.map_cons, List.nodup_cons] at hnd
    unfold sBefore sAfter
    by_cases ha : a.2 = x.2
    · have hax : x = a := by
        rcases List.mem_cons.mp hx with h | h
        · exact h
        · exact absurd (List.mem_map_of_mem h) (ha ▸ hnd.1)
      subst hax
      simp only [↓reduceIte, List.nil_append, List.not_mem_nil, false_implies, implies_true, true_and]
      intro y hy he
      exact hnd.1 (he ▸ List.mem_map_of_mem hy)
    · have hxl : x ∈ l := by
        rcases List.mem_cons.mp hx with h | h
        · exact absurd (by rw [h]) ha
        · exact h
      obtain ⟨i1, i2, i3⟩ := split_canon l hnd.2 x hxl
      simp only [ha, ↓reduceIte, List.cons_append]
      refine ⟨by rw [← i1], ?_, i3⟩
      intro y hy
      rcases List.mem_cons.mp hy with rfl | hy'
      · exact ha
      · exact i2 y hy'

/-- **a slot of the volume directory of an `Inv` image**: the slot list splits at it, the record list of the volume
splits accordingly, and the blocks of the records of the other slots are not blocks of the records of this slot -/
theorem slot_split_facts {r : Raw} (hinv : Inv r) (v : Vol) (fsL : List LRec) (ch : List Nat)
    (hread : Read.ProdosT.read r = .ok v) (htree : readTree r (hdrTotal r) = .ok (fsL, ch))
    (x : Bytes × Nat × Nat) (hxm : x ∈ dirSlots r 2 ch) :
    let s1 := sBefore (dirSlots r 2 ch) x.2
    let s2 := sAfter (dirSlots r 2 ch) x.2
    let g := slotRecs 69 r (hdrTotal r) [] 0
    dirSlots r 2 ch = s1 ++ x :: s2 ∧ (∀ y ∈ s1, y.2 ≠ x.2) ∧ (∀ y ∈ s2, y.2 ≠ x.2) ∧
      fsL = s1.flatMap g ++ g x ++ s2.flatMap g ∧
      v.files = (s1.flatMap g).map (·.1) ++ (g x).map (·.1) ++ (s2.flatMap g).map (·.1) ∧
      (∀ y ∈ s1 ++ s2, ∀ u ∈ ((g y).map (·.1)).flatMap (·.owned), u ∈ v.allOwned ∧ u ∉ ((g x).map (·.1)).flatMap (·.owned)) ∧
      (((g x).map (·.1)).flatMap (·.owned)).Nodup ∧ (∀ u ∈ ((g x).map (·.1)).flatMap (·.owned), u ∈ v.allOwned) ∧
      (∀ y ∈ dirSlots r 2 ch, isAct y = true → ∃ z, RE 69 r (hdrTotal r) [] 0 y = .ok z) ∧
      ((dirSlots r 2 ch).filter isAct).length = le16 (unitAt r 2) 37 := by
  intro s1 s2 g
  obtain ⟨hw, hn, hroot, hv, hc, hic, hnd, hchf, h2, h6, h3, hbt, hstv⟩ := root_chain_facts hinv v fsL ch hread htree
  have htree' : readDir (69 + 1) r (hdrTotal r) 2 [] 0 = .ok (fsL, ch) := htree
  obtain ⟨hfs, hall, hcnt⟩ := readDir_slots r (hdrTotal r) 69 2 [] 0 fsL ch (by omega) hroot.geo htree'
  obtain ⟨hsplit, h1, h2'⟩ := split_canon (dirSlots r 2 ch) (dirSlots_locs_nodup r 2 ch hnd) x hxm
  have hfs2 : fsL = s1.flatMap g ++ g x ++ s2.flatMap g := by
    rw [hfs]
    conv => lhs; rw [hsplit]
    rw [List.flatMap_append, List.flatMap_cons, List.append_assoc]
  have hfiles : v.files = (s1.flatMap g).map (·.1) ++ (g x).map (·.1) ++ (s2.flatMap g).map (·.1) := by
    rw [hv]; simp only; rw [hfs2]; simp
  have hao : v.allOwned = (s1 ++ x :: s2).flatMap (fun y => ((g y).map (·.1)).flatMap (·.owned)) := by
    unfold Vol.allOwned
    rw [hv]; simp only
    rw [← hsplit]
    exact allOwned_slots fsL _ _ hfs
  have hndw := (wfB_iff.1 hw).2.1
  have hndo : v.allOwned.Nodup := (List.nodup_append.mp hndw).1
  refine ⟨hsplit, h1, h2', hfs2, hfiles, ?_, ?_, ?_, hall, hcnt⟩
  · intro y hy u hu
    refine ⟨?_, ?_⟩
    · rw [hao, List.mem_flatMap]
      refine ⟨y, ?_, hu⟩
      rcases List.mem_append.mp hy with a | a
      · exact List.mem_append_left _ a
      · exact List.mem_append_right _ (List.mem_cons_of_mem _ a)
    · rw [hao] at hndo
      exact nodup_flatMap_disjoint _ s1 s2 x hndo y hy u hu
  · rw [hao, List.flatMap_append, List.flatMap_cons] at hndo
    exact (List.nodup_append.mp (List.nodup_append.mp hndo).2.1).1
  · intro u hu
    rw [hao, List.mem_flatMap]
    exact ⟨x, by simp, hu⟩

/-- a file slot: its records are the one record `readFile` makes -/
theorem slot_file_rec {r : Raw} (hinv : Inv r) (v : Vol) (fsL : List LRec) (ch : List Nat)
    (hread : Read.ProdosT.read r = .ok v) (htree : readTree r (hdrTotal r) = .ok (fsL, ch))
    (x : Bytes × Nat × Nat) (hxm : x ∈ dirSlots r 2 ch)
    (hst : x.1.getD 0 0 / 16 = 1 ∨ x.1.getD 0 0 / 16 = 2 ∨ x.1.getD 0 0 / 16 = 3) :
    ∃ f, readFile r (hdrTotal r) x.1 [] = .ok f ∧ slotRecs 69 r (hdrTotal r) [] 0 x = [(f, x.2)] ∧
      f.owned = ownedOfEntry r x.1 ∧ ¬ (le16 x.1 0x11 = 0 ∨ le16 x.1 0x11 ≥ hdrTotal r) := by
  obtain ⟨hw, hn, hroot, hv, hc, hic, hnd, hchf, h2, h6, h3, hbt, hstv⟩ := root_chain_facts hinv v fsL ch hread htree
  obtain ⟨_, _, _, _, _, _, _, _, hall, _⟩ := slot_split_facts hinv v fsL ch hread htree x hxm
  have hact : isAct x = true := by
    unfold isAct; simp only [ne_eq, decide_eq_true_eq]; omega
  obtain ⟨z, hz⟩ := hall x hxm hact
  obtain ⟨f, hzf, hrf, hkey⟩ := RE_file 69 r (hdrTotal r) [] 0 x z hst hz
  subst hzf
  have hclean : x.1.getD 0 0 / 16 = 3 → MasterClean (unitAt r (le16 x.1 0x11)) := by
    intro h3'
    rcases (hroot.slots x hxm).file (by omega) with h0 | ⟨_, _, hcl⟩
    · rw [h0] at h3'; simp at h3'
    · exact hcl h3'
  refine ⟨f, hrf, ?_, readFile_owned r (hdrTotal r) x.1 [] f hrf hst hclean, hkey⟩
  unfold slotRecs; rw [if_pos hact, hz]; rfl

end A2Verif.FsProdos
