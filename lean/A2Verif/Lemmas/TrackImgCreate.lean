import A2Verif.Lemmas.TrackImgOps
/-!
`create` (the formatters of NIB / WOZ1 / WOZ2) establishes the image invariant `ImgInv`; the TMAP it
writes is injective on whole tracks and the TRKS entries describe pairwise disjoint buffers.
-/
namespace A2Verif.Model.TrackImg
open A2Verif.Model.Track A2Verif.Model.Nibble

/-! ## generic: an image whose 35 track buffers hold freshly formatted tracks -/

theorem canon_of_fmt {n : Nat} {t : Trk} {X : List Cell} {k : Nat} (hp : t.pos = 0) (hk : k ≤ n)
    (h : StK n t X (n - k) k) : Canon n t.bits (n - k) X := by
  obtain ⟨h1, h2, h3, _⟩ := h
  have hSl : (stream X).length = n := h2
  have hb : t.bits = rot k (stream X) := h1
  refine ⟨by rw [hb, rot_length]; exact hSl, h3, h2, ?_⟩
  rw [hb, rot_rot (stream X) ((n - k) % n) k (by rw [hSl]; exact Nat.le_of_lt (Nat.mod_lt _ h3)) (by rw [hSl]; exact hk)
    (by rw [hSl]; exact h3), hSl]
  have : ((n - k) % n + k) % n = 0 := by
    rw [Nat.mod_add_mod, Nat.sub_add_cancel hk, Nat.mod_self]
  rw [this, rot_zero]

theorem getD_append_length {α} (l : List α) (x d : α) : (l ++ [x]).getD l.length d = x := by
  rw [List.getD_eq_getElem?_getD, List.getElem?_append_right (Nat.le_refl _)]
  simp

/-- **A freshly formatted image satisfies the invariant.** -/
theorem fresh_inv (img : TrackImg) (offs : Nat → Nat) (cap n vol p : Nat) (ids0 : List Nat) (last : Nat)
    (hlay : Layout img offs cap n) (hv : vol < 256) (hs : 8 ≤ (fmtOf img cap).syncBits) (hnone : img.headPtr = none)
    (hm : 16 + (fmtOf img cap).dataNibs + (60 + p) + 3 ≤ (fmtOf img cap).maxTries)
    (hid : ∀ i ∈ ids0 ++ [last], i < 256) (hnd : (ids0 ++ [last]).Nodup) (hlen : ids0.length < 32)
    (hpz : p = 0 ∨ (fmtOf img cap).z = 0)
    (hn : n = (fmtOf img cap).bitCount (ids0.length + 1) + 8 * p)
    (hbits : ∀ t, t < 35 → trackBits img.bytes (offs t) cap n =
      trackW (fmtOf img cap) vol t (ids0 ++ [last]) ++ List.replicate (8 * p) true) :
    ImgInv img offs cap n vol (n - (fmtOf img cap).z + blen (List.replicate 40 ((fmtOf img cap).z, 0xff)))
      (ids0.map (fun _ => 20) ++ [60 + p]) (ids0 ++ [last])
      (fun _ => ids0.map (fmtSec (fmtOf img cap) 20) ++ [fmtSec (fmtOf img cap) (60 + p) last])
      ids0.length (16 + (fmtOf img cap).dataNibs + (20 + p)) (fmtOf img cap).z := by
  generalize hf : fmtOf img cap = f at *
  -- one track
  have hF : ∀ t, t < 35 → GFmt n f vol t (⟨trackBits img.bytes (offs t) cap n, 0⟩ : Trk) (fmtSec f (60 + p) last)
      (ids0.map (fmtSec f 20)) (List.replicate 40 (f.z, 0xff)) (gfield f (fld0 f) ++ syncCells f (20 + p)) (n - f.z) f.z := by
    intro t ht
    have hb := hbits t ht
    rw [hn] at hb ⊢
    exact format_gfmt f hs vol t ids0 last p hm hid hnd hlen hpz _ hb rfl
  have hzn : f.z ≤ n := by rw [hn]; unfold Fmt.bitCount Fmt.z; omega
  have hsync60 : syncCells f (60 + p) = syncCells f (20 + p) ++ List.replicate 40 (f.z, 0xff) := by
    rw [show 60 + p = (20 + p) + 40 by omega, syncCells_add f (20 + p) 40 (by omega)]
  have hX : ahead f vol 0 (fmtSec f (60 + p) last) (ids0.map (fmtSec f 20)) (List.replicate 40 (f.z, 0xff))
      (gfield f (fld0 f) ++ syncCells f (20 + p)) = ahead f vol 0 (fmtSec f (60 + p) last) (ids0.map (fmtSec f 20))
        (List.replicate 40 (f.z, 0xff)) (gfield f (fld0 f) ++ syncCells f (20 + p)) := rfl
  have hcanon : ∀ t, t < 35 → Canon n (trackBits img.bytes (offs t) cap n) (n - f.z + blen (List.replicate 40 (f.z, 0xff)))
      (gsecsCells f vol t (ids0.map (fmtSec f 20) ++ [fmtSec f (60 + p) last])) := by
    intro t ht
    have h1 := canon_of_fmt (t := (⟨trackBits img.bytes (offs t) cap n, 0⟩ : Trk)) rfl hzn (hF t ht).st
    have h2 : Canon n (trackBits img.bytes (offs t) cap n) (n - f.z)
        (List.replicate 40 (f.z, 0xff) ++ (gsecsCells f vol t (ids0.map (fmtSec f 20)) ++ addrCells f vol t last ++
          (gfield f (fld0 f) ++ syncCells f (20 + p)))) := by
      refine canon_congr h1 ?_ rfl
      simp [ahead, fmtSec, List.append_assoc]
    have h3 := canon_rotate _ _ h2
    refine canon_congr h3 ?_ rfl
    simp [gsecsCells_append, gsecsCells_cons, gsecsCells_nil, gsecCells, FG, fmtSec, hsync60, List.append_assoc]
  have hgood : ∀ s ∈ ids0.map (fmtSec f 20) ++ [fmtSec f (60 + p) last], GoodG f s := by
    intro s hs'
    simp only [List.mem_append, List.mem_map, List.mem_cons, List.not_mem_nil, or_false] at hs'
    rcases hs' with ⟨i, hi, h⟩ | h
    · subst h; exact goodG_fmtSec f 20 i (hid i (by simp [hi])) (by omega)
    · subst h; exact goodG_fmtSec f _ last (hid last (by simp)) hm
  have hgetD : (ids0.map (fun _ => 20) ++ [60 + p]).getD ids0.length 0 = 60 + p := by
    have := getD_append_length (ids0.map (fun _ => 20)) (60 + p) 0
    simpa using this
  have hlg : (gfield f (fld0 f)).length = 16 + f.dataNibs := length_gfield f _ (goodFld0 f)
  have hptr : startPtr img n = (n - f.z + blen (List.replicate 40 (f.z, 0xff)) +
      headBits f (ids0.map (fun _ => 20) ++ [60 + p]) ids0.length (16 + f.dataNibs + (20 + p)) + f.z) % n := by
    have h0 : startPtr img n = 0 := by simp [startPtr, hnone]
    rw [h0]
    have hb := headBits_eq f vol 0 (ids0.map (fmtSec f 20)) [] (fmtSec f (60 + p) last) (16 + f.dataNibs + (20 + p))
      (fun s hs' => (hgood s hs').2.1)
    have e1 : ((ids0.map (fmtSec f 20) ++ [fmtSec f (60 + p) last]).map (·.gap)) = ids0.map (fun _ => 20) ++ [60 + p] := by
      simp [fmtSec, Function.comp_def]
    have e2 : (FG f (fmtSec f (60 + p) last)).take (16 + f.dataNibs + (20 + p)) = gfield f (fld0 f) ++ syncCells f (20 + p) := by
      simp only [FG, fmtSec, hsync60]
      rw [← List.append_assoc, List.take_left' (by simp [hlg, syncCells_length])]
    rw [e1, e2, List.length_map] at hb
    rw [← hb]
    have hbl := (hF 0 (by omega)).st.2.1
    simp only [ahead, blen_append] at hbl
    have : n - f.z + blen (List.replicate 40 (f.z, 0xff)) +
        blen (gsecsCells f vol 0 (ids0.map (fmtSec f 20)) ++ addrCells f vol 0 (fmtSec f (60 + p) last).id ++
          (gfield f (fld0 f) ++ syncCells f (20 + p))) + f.z = n + n := by
      simp only [blen_append, fmtSec] at hbl ⊢
      omega
    rw [this, ← Nat.two_mul, Nat.mul_mod_left]
  have hslack : SlackOk f.z ((FG f (refSec f ((ids0.map (fun _ => 20) ++ [60 + p]).getD ids0.length 0))).drop (16 + f.dataNibs + (20 + p))) := by
    rw [hgetD]
    have : (FG f (refSec f (60 + p))).drop (16 + f.dataNibs + (20 + p)) = List.replicate 40 (f.z, 0xff) := by
      simp only [FG, refSec, hsync60]
      have hlr : (gfield f (some (List.replicate f.dataNibs 0xff))).length = 16 + f.dataNibs :=
        length_gfield f _ (goodFld_ref f (60 + p))
      rw [← List.append_assoc, List.drop_left' (by rw [List.length_append, syncCells_length, hlr])]
    rw [this]
    exact Or.inr ⟨(f.z, 0xff), List.replicate 39 (f.z, 0xff), rfl, Nat.le_refl _⟩
  subst hf
  exact {
    lay := hlay
    vol_lt := hv
    sync := hs
    canon := hcanon
    gapsEq := by intro t _; simp [fmtSec, Function.comp_def]
    idsEq := by intro t _; simp [fmtSec, Function.comp_def]
    good := fun t _ => hgood
    nodup := hnd
    len := by simp; omega
    ha := by simp
    hc0 := by rw [hgetD]; omega
    ptr := hptr
    slack := hslack
    kle := hzn }

/-! ## the buffers `create` lays down -/

theorem length_flatten_chunks (g : Nat → List Nat) (cap : Nat) : ∀ m, (∀ i, i < m → (g i).length = cap) →
    (((List.range m).map g).flatten).length = m * cap := by
  intro m
  induction m with
  | zero => intro _; simp
  | succ m ih =>
    intro h
    rw [List.range_succ, List.map_append, List.flatten_append, List.length_append, ih (fun i hi => h i (by omega))]
    simp [h m (by omega), Nat.succ_mul]

theorem slice_flatten_chunks (g : Nat → List Nat) (cap : Nat) : ∀ m, (∀ i, i < m → (g i).length = cap) →
    ∀ t, t < m → ((((List.range m).map g).flatten).drop (t * cap)).take cap = g t := by
  intro m
  induction m with
  | zero => intro _ t ht; omega
  | succ m ih =>
    intro h t ht
    have hl := length_flatten_chunks g cap m (fun i hi => h i (by omega))
    rw [List.range_succ, List.map_append, List.flatten_append]
    simp only [List.map_cons, List.map_nil, List.flatten_cons, List.flatten_nil, List.append_nil]
    by_cases htm : t < m
    · have h1 : t * cap + cap ≤ m * cap := by
        have : (t + 1) * cap ≤ m * cap := Nat.mul_le_mul_right cap (by omega)
        rw [Nat.succ_mul] at this; exact this
      rw [List.drop_append_of_le_length (by rw [hl]; omega),
        List.take_append_of_le_length (by rw [List.length_drop, hl]; omega)]
      exact ih (fun i hi => h i (by omega)) t htm
    · have : t = m := by omega
      subst this
      rw [List.drop_left' hl, List.take_of_length_le (by rw [h t (by omega)]; exact Nat.le_refl _)]

/-- the buffer `format` returns, as bits: everything it wrote, then the untouched fill -/
theorem formatBuf_unpack (f : Fmt) (hs : 8 ≤ f.syncBits) (vol trk cap : Nat)
    (hle : f.bitCount (secIds f.six).length ≤ cap * 8) :
    unpack (formatBuf Trk f vol trk (cap * 8)) = trackW f vol trk (secIds f.six) ++
      List.replicate (cap * 8 - f.bitCount (secIds f.six).length) (decide (f.syncBits ≤ 8)) ∧
    (formatBuf Trk f vol trk (cap * 8)).length = cap := by
  have hT := formatTrack_bits f hs vol trk (secIds f.six)
    (TrackRep.load (List.replicate (f.bitCount (secIds f.six).length) (decide (f.syncBits ≤ 8))) 0 : Trk)
    (by show (rot 0 _).length = _; rw [rot_length, List.length_replicate]) rfl
  have hU : (TrackRep.unload (formatTrack f vol trk (secIds f.six)
      (TrackRep.load (List.replicate (f.bitCount (secIds f.six).length) (decide (f.syncBits ≤ 8))) 0 : Trk)) : List Bool) =
      trackW f vol trk (secIds f.six) := by
    show rot (_ - _) _ = _
    rw [hT.2, hT.1]; simp [rot]
  have hlen : (trackW f vol trk (secIds f.six) ++
      List.replicate (cap * 8 - f.bitCount (secIds f.six).length) (decide (f.syncBits ≤ 8))).length = 8 * cap := by
    rw [List.length_append, trackW_length f hs, List.length_replicate]; omega
  unfold formatBuf
  simp only [hU]
  exact ⟨unpack_pack cap _ hlen, pack_length cap _ hlen⟩

/-! ## the TMAP the formatter writes -/

/-- **The TMAP condition.**  `TMap::create` maps every whole track `t < 35` to TRKS entry `t` (directly: the
quarter-track search is not needed), so the lookup is injective on whole tracks. -/
theorem tmapCreate_lookup : ∀ t : Fin 35, getTrkIdx tmapCreate t.val = .ok t.val := by decide +kernel

theorem tmapCreate_injective (t u i : Nat) (ht : t < 35) (hu : u < 35) (h1 : getTrkIdx tmapCreate t = .ok i)
    (h2 : getTrkIdx tmapCreate u = .ok i) : t = u := by
  rw [tmapCreate_lookup ⟨t, ht⟩] at h1
  rw [tmapCreate_lookup ⟨u, hu⟩] at h2
  simp only [IRes.ok.injEq] at h1 h2
  omega

end A2Verif.Model.TrackImg
