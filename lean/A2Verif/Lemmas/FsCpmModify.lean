import A2Verif.Lemmas.FsCpmAccess
/-!
# `lock`, `unlock`, `retype` of the concrete CP/M model refine the abstract operations
-/
namespace A2Verif.FsCpm
open A2Verif.Fs.Cpm
open A2Verif.Read.Cpm (Dpb fileKey extNum entryPtrs pathOf slots)

theorem map_onKey_other {d : Dpb} {r : Raw} {K0 k : List Nat} (g : Bytes → Bytes) (hk : k ≠ K0) :
    (esOf d r k).map (onKey K0 g) = esOf d r k := by
  conv => rhs; rw [← List.map_id (esOf d r k)]
  apply List.map_congr_left
  intro e he
  unfold onKey
  rw [if_neg (fun c => hk ((mem_esOf.1 he).2 ▸ c.2))]
  rfl

theorem map_onKey_self {d : Dpb} {r : Raw} {K0 : List Nat} (g : Bytes → Bytes) :
    (esOf d r K0).map (onKey K0 g) = (esOf d r K0).map g := by
  apply List.map_congr_left
  intro e he
  unfold onKey
  rw [if_pos ⟨(mem_fents.1 (mem_esOf.1 he).1).2, (mem_esOf.1 he).2⟩]

/-- what a successful `modify` without a new name does, in terms of the two readings -/
structure Touched (d : Dpb) (r r' : Raw) (xname : Bytes) (access : List Nat) : Prop where
  inv : Inv d r'
  ex : ∃ f f' e, (volOf d r).lookup (canon xname) = some f ∧ (volOf d r').lookup (canon xname) = some f' ∧
    f'.chunks = f.chunks ∧ f'.eof = f.eof ∧ f'.owned = f.owned ∧ f'.ftype = f.ftype ∧ f'.aux = f.aux ∧ f'.isDir = f.isDir ∧
    e.length = 32 ∧ e.getD 9 0 < 256 ∧ f.locked = decide (e.getD 9 0 ≥ 128) ∧
    f'.locked = decide ((setAccess access e).getD 9 0 ≥ 128)
  frame : sameFiles (without (volOf d r).files [canon xname]) (without (volOf d r').files [canon xname]) = true

theorem modify_none_spec {d : Dpb} {r r' : Raw} {xname : Bytes} {access : List Nat} {res : R Unit} (h : Inv d r)
    (hop : Fs.Cpm.modify d r xname none access = (res, r')) :
    (okB res = false ∧ r' = r) ∨ (okB res = true ∧ Touched d r r' xname access) := by
  unfold Fs.Cpm.modify at hop
  cases hsp : splitUserFilename xname with
  | error e => rw [hsp] at hop; cases hop; exact Or.inl ⟨rfl, rfl⟩
  | ok un =>
    obtain ⟨u, oldName⟩ := un
    rw [hsp] at hop
    simp only [] at hop
    by_cases cv : (!isNameValid oldName) = true
    · rw [if_pos cv] at hop; cases hop; exact Or.inl ⟨rfl, rfl⟩
    rw [if_neg cv, getDirectory_eq h.shape h.dpb] at hop
    simp only [] at hop
    cases hb : buildFiles d d.v3 (dirOf d r) with
    | error e => rw [hb] at hop; cases hop; exact Or.inl ⟨rfl, rfl⟩
    | ok files =>
      rw [hb] at hop
      simp only [] at hop
      cases hg : getFile xname files with
      | none => rw [hg] at hop; cases hop; exact Or.inl ⟨rfl, rfl⟩
      | some fi =>
        rw [hg] at hop
        simp only [] at hop
        rw [accessLoop_eq] at hop
        cases hloop : entryLoop (fun _ => none) (setAccess access) (dirOf d r) fi.entries with
        | error e => rw [hloop] at hop; cases hop; exact Or.inl ⟨rfl, rfl⟩
        | ok dir2 =>
          rw [hloop] at hop
          simp only [] at hop
          have kb := keepsBody_setAccess access
          obtain ⟨hres, hinv', K0, hK0, hpath, hfiles', _⟩ := touch_files h hb hg (setAccess access) kb
            (setAccess_idem access) (fun _ => none) hloop hop
          right
          subst hres
          refine ⟨rfl, hinv', ?_, ?_⟩
          · obtain ⟨eh, resth, hes, hmh, hkh⟩ := esOf_head hK0
            have hl := dirOf_entry_length h.shape h.dpb
            have hle : ∀ e ∈ esOf d r K0, e.length = 32 := fun e he => hl e (mem_fents.1 (mem_esOf.1 he).1).1
            have hne : esOf d r K0 ≠ [] := by rw [hes]; simp
            obtain ⟨p1, p2, p3, p4, p5, p6, p7, p8⟩ := recOf_map_keep (r := r) (d := d) (ents := dirOf d r) kb hne hle
            obtain ⟨l1, l2, _⟩ := touched_lookups (keys d r) (fun k => recOf r d (dirOf d r) (esOf d r k))
              (fun k => recOf r d (dirOf d r) ((esOf d r k).map (onKey K0 (setAccess access)))) K0 hK0 rfl hfiles'
              (fun k _ hk => by simp only [map_onKey_other _ hk])
              (by simp only [map_onKey_self]; exact p1) (volOf_wf h) (volOf_wf hinv')
            rw [hpath] at l1 l2
            rw [map_onKey_self] at l2
            refine ⟨_, _, eh, l1, l2, p2, p3, p4, p5, p6, p7, hl eh (mem_fents.1 hmh).1, (h.clean eh hmh).b9, ?_, ?_⟩
            · show decide (((esOf d r K0).headD []).getD 9 0 ≥ 128) = _
              rw [hes]; rfl
            · rw [p8, hes]; rfl
          · obtain ⟨eh, resth, hes, hmh, hkh⟩ := esOf_head hK0
            have hl := dirOf_entry_length h.shape h.dpb
            have hle : ∀ e ∈ esOf d r K0, e.length = 32 := fun e he => hl e (mem_fents.1 (mem_esOf.1 he).1).1
            have hne : esOf d r K0 ≠ [] := by rw [hes]; simp
            obtain ⟨p1, _⟩ := recOf_map_keep (r := r) (d := d) (ents := dirOf d r) kb hne hle
            obtain ⟨_, _, l3⟩ := touched_lookups (keys d r) (fun k => recOf r d (dirOf d r) (esOf d r k))
              (fun k => recOf r d (dirOf d r) ((esOf d r k).map (onKey K0 (setAccess access)))) K0 hK0 rfl hfiles'
              (fun k _ hk => by simp only [map_onKey_other _ hk])
              (by simp only [map_onKey_self]; exact p1) (volOf_wf h) (volOf_wf hinv')
            rw [hpath] at l3
            exact l3

theorem okB_false_refused {P : FsParams} {d : Dpb} {r r' : Raw} {res : R Unit} (h : Inv d r) (op : FsOp)
    (hf : okB res = false) (hr : r' = r) : Inv d r' ∧ stepOk P (volOf d r) op (okB res) (volOf d r') = true := by
  subst hr
  rw [hf]
  exact refused_same h op

/-- **`lock` refines the abstract `lock`** -/
theorem lock_refines {d : Dpb} {r r' : Raw} {xname : Bytes} {res : R Unit} (h : Inv d r) (hop : lock d r xname = (res, r')) :
    Inv d r' ∧ stepOk (cpmParams d) (volOf d r) (.lock (canon xname)) (okB res) (volOf d r') = true := by
  unfold lock at hop
  rcases modify_none_spec h hop with ⟨hf, hr⟩ | ⟨ht, T⟩
  · exact okB_false_refused h _ hf hr
  · refine ⟨T.inv, ?_⟩
    obtain ⟨f, f', e, l1, l2, c1, c2, c3, c4, c5, c6, he, h9, _, hl'⟩ := T.ex
    rw [ht]
    have hlocked : f'.locked = true := by
      rw [hl', setAccess_getD _ e he 9 (by omega) (by omega)]
      simp only [decide_eq_true_eq]
      show hi (newFlag 1 (hi (e.getD 9 0))) + lo (e.getD 9 0) ≥ 128
      unfold newFlag hi lo
      simp only [show (1 : Nat) ≠ 2 by decide, ↓reduceIte]
      omega
    simp only [stepOk, stepConds, List.all_cons, List.all_nil, Bool.and_true, Bool.and_eq_true]
    refine ⟨volOf_wf T.inv, by rw [l1]; rfl, ?_, T.frame⟩
    rw [l1, l2]
    simp [hlocked, c1, c2, c3, c4, c5, c6]

/-- **`unlock` refines the abstract `unlock`** -/
theorem unlock_refines {d : Dpb} {r r' : Raw} {xname : Bytes} {res : R Unit} (h : Inv d r) (hop : unlock d r xname = (res, r')) :
    Inv d r' ∧ stepOk (cpmParams d) (volOf d r) (.unlock (canon xname)) (okB res) (volOf d r') = true := by
  unfold unlock at hop
  rcases modify_none_spec h hop with ⟨hf, hr⟩ | ⟨ht, T⟩
  · exact okB_false_refused h _ hf hr
  · refine ⟨T.inv, ?_⟩
    obtain ⟨f, f', e, l1, l2, c1, c2, c3, c4, c5, c6, he, h9, _, hl'⟩ := T.ex
    rw [ht]
    have hlocked : f'.locked = false := by
      rw [hl', setAccess_getD _ e he 9 (by omega) (by omega)]
      simp only [decide_eq_false_iff_not]
      show ¬ hi (newFlag 2 (hi (e.getD 9 0))) + lo (e.getD 9 0) ≥ 128
      unfold newFlag hi lo
      simp only [↓reduceIte]
      omega
    simp only [stepOk, stepConds, List.all_cons, List.all_nil, Bool.and_true, Bool.and_eq_true]
    refine ⟨volOf_wf T.inv, by rw [l1]; rfl, ?_, T.frame⟩
    rw [l1, l2]
    simp [hlocked, c1, c2, c3, c4, c5, c6]

/-- **`retype` refines the abstract `retype`** (`sys`/`dir` set or clear the system flag; any other type is refused) -/
theorem retype_refines {d : Dpb} {r r' : Raw} {xname ty : Bytes} {res : R Unit} (h : Inv d r) (hop : retype d r xname ty = (res, r')) :
    Inv d r' ∧ stepOk (cpmParams d) (volOf d r) (.retype (canon xname)) (okB res) (volOf d r') = true := by
  have key : ∀ access, Fs.Cpm.modify d r xname none access = (res, r') →
      Inv d r' ∧ stepOk (cpmParams d) (volOf d r) (.retype (canon xname)) (okB res) (volOf d r') = true := by
    intro access hm
    rcases modify_none_spec h hm with ⟨hf, hr⟩ | ⟨ht, T⟩
    · exact okB_false_refused h _ hf hr
    · refine ⟨T.inv, ?_⟩
      obtain ⟨f, f', e, l1, l2, c1, c2, c3, c4, c5, c6, _⟩ := T.ex
      rw [ht]
      simp only [stepOk, stepConds, List.all_cons, List.all_nil, Bool.and_true, Bool.and_eq_true]
      refine ⟨volOf_wf T.inv, by rw [l1]; rfl, ?_, T.frame⟩
      rw [l1, l2]
      simp [c1, c2, c3, c6]
  unfold retype at hop
  split at hop
  · exact key _ hop
  · split at hop
    · exact key _ hop
    · cases hop; exact refused_same h _

end A2Verif.FsCpm
