/-!
# C12: a recursive directory walk with a nesting cap and a visit budget, for arbitrary per-directory work

The shape shared by `fat::Disk::tree_node` / `glob_node` (and `prodos::Disk::tree_node` / `glob_node`) after the repairs
`c12fs-fat-directory-visit-budget` / `c12fs-prodos-directory-visit-budget`:

```
fn node(dir, depth, visits) -> Result {
    if depth > MAX_DIRECTORY_DEPTH { return cap_branch }            // Err at HEAD
    *visits += 1; if *visits > limit { return Err }                 // the budget
    for item in items(dir) {                                        // whatever the directory holds
        if let Some(ptr) = item.sub { let sub = load(ptr)?; node(sub, depth+1, visits)? }
        item.post()?                                                // metadata, chain lengths, …
    }
    Ok
}
```

Everything file-system specific is a **parameter** (`Skel`): the state `σ` (image, buffers), the directory object `δ`,
what a directory holds (`items`), how a sub-directory is loaded (`load`, may fail, may change the state), what else is
done per entry (`post`, may fail, may change the state).  The theorem bounds the number of directories entered by
`limit + 1` for every instance — cycles, shared sub-directories, any cap-branch flavour.  Core Lean only.
-/
namespace A2Verif.C12FsWalk

/-- outcome of a step: `true` = `Ok`, `false` = `Err` (which `?` propagates) -/
abbrev Res := Bool

/-- one entry of a directory as the loop sees it -/
structure Item (σ : Type) where
  /-- `Some(ptr)`: a sub-directory entry to descend into -/
  sub : Option Nat
  /-- the rest of the loop body for this entry -/
  post : σ → Res × σ

/-- the file-system specific parts -/
structure Skel (σ δ : Type) where
  items : δ → List (Item σ)
  load : Nat → σ → Option δ × σ

/-- state of the walk: file-system state and the visit counter -/
abbrev St (σ : Type) := σ × Nat

variable {σ δ : Type}

/-- the loop over the entries of one directory; `rec` = the walk one level deeper -/
def itemLoop (k : Skel σ δ) (rec : δ → St σ → Res × St σ) : List (Item σ) → St σ → Res × St σ
  | [], s => (true, s)
  | it :: rest, s =>
    let descend : Res × St σ :=
      match it.sub with
      | none => (true, s)
      | some ptr =>
        match k.load ptr s.1 with
        | (none, st') => (false, (st', s.2))
        | (some sub, st') => rec sub (st', s.2)
    match descend with
    | (false, s') => (false, s')
    | (true, s') =>
      match it.post s'.1 with
      | (false, st'') => (false, (st'', s'.2))
      | (true, st'') => itemLoop k rec rest (st'', s'.2)

/-- the walk with `depthLeft` nesting levels before the cap -/
def walk (k : Skel σ δ) (budget capErr : Bool) (limit : Nat) : Nat → δ → St σ → Res × St σ
  | 0, _, s => (!capErr, s)
  | depthLeft + 1, dir, s =>
    let v := s.2 + 1
    if budget ∧ v > limit then (false, (s.1, v))
    else itemLoop k (walk k budget capErr limit depthLeft) (k.items dir) (s.1, v)

/-- the visit counter stays within the budget (strictly on success) and never decreases -/
def Post (limit : Nat) (v : Nat) (res : Res × St σ) : Prop :=
  res.2.2 ≤ limit + 1 ∧ (res.1 = true → res.2.2 ≤ limit) ∧ v ≤ res.2.2

def RecOk (limit : Nat) (rec : δ → St σ → Res × St σ) : Prop :=
  ∀ (d : δ) (s : St σ), s.2 ≤ limit → Post limit s.2 (rec d s)

theorem itemLoop_post (k : Skel σ δ) {limit : Nat} {rec : δ → St σ → Res × St σ} (hrec : RecOk limit rec) :
    ∀ (its : List (Item σ)) (s : St σ), s.2 ≤ limit → Post limit s.2 (itemLoop k rec its s) := by
  intro its
  induction its with
  | nil => intro s hs; exact ⟨by show s.2 ≤ limit + 1; omega, fun _ => hs, Nat.le_refl _⟩
  | cons it rest ih =>
    intro s hs
    unfold itemLoop
    -- the descent
    have hdesc : Post limit s.2 (match it.sub with
        | none => (true, s)
        | some ptr =>
          match k.load ptr s.1 with
          | (none, st') => (false, (st', s.2))
          | (some sub, st') => rec sub (st', s.2)) := by
      cases it.sub with
      | none => exact ⟨by show s.2 ≤ limit + 1; omega, fun _ => hs, Nat.le_refl _⟩
      | some ptr =>
        simp only []
        cases hl : k.load ptr s.1 with
        | mk od st' =>
          cases od with
          | none => exact ⟨by show s.2 ≤ limit + 1; omega, (fun h => by cases h), Nat.le_refl _⟩
          | some sub => exact hrec sub (st', s.2) hs
    simp only []
    generalize (match it.sub with
        | none => (true, s)
        | some ptr =>
          match k.load ptr s.1 with
          | (none, st') => (false, (st', s.2))
          | (some sub, st') => rec sub (st', s.2)) = dres at hdesc
    obtain ⟨b, s'⟩ := dres
    obtain ⟨h1, h2, h3⟩ := hdesc
    cases b with
    | false => exact ⟨h1, (fun h => by cases h), h3⟩
    | true =>
      have hs' : s'.2 ≤ limit := h2 rfl
      simp only []
      cases hp : it.post s'.1 with
      | mk pb st'' =>
        cases pb with
        | false => exact ⟨by show s'.2 ≤ limit + 1; omega, (fun h => by cases h), h3⟩
        | true =>
          obtain ⟨g1, g2, g3⟩ := ih (st'', s'.2) hs'
          exact ⟨g1, g2, Nat.le_trans h3 g3⟩

/-- **the walk with the budget enters at most `limit + 1` directories**, whatever the directories hold, however they
are loaded, whatever the nesting-cap branch returns -/
theorem walk_post (k : Skel σ δ) (capErr : Bool) (limit : Nat) : ∀ depth : Nat, RecOk limit (walk k true capErr limit depth) := by
  intro depth
  induction depth with
  | zero =>
    intro d s hs
    unfold walk
    exact ⟨by show s.2 ≤ limit + 1; omega, fun _ => hs, Nat.le_refl _⟩
  | succ n ih =>
    intro d s hs
    unfold walk
    simp only [true_and]
    split
    · exact ⟨by show s.2 + 1 ≤ limit + 1; omega, (fun h => by cases h), by show s.2 ≤ s.2 + 1; omega⟩
    · rename_i hb
      have hv : s.2 + 1 ≤ limit := by
        have : ¬ (s.2 + 1 > limit) := hb
        omega
      obtain ⟨h1, h2, h3⟩ := itemLoop_post k ih (k.items d) (s.1, s.2 + 1) hv
      have h3' : s.2 + 1 ≤ (itemLoop k (walk k true capErr limit n) (k.items d) (s.1, s.2 + 1)).2.2 := h3
      exact ⟨h1, h2, by omega⟩

end A2Verif.C12FsWalk
