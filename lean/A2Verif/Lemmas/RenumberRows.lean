import A2Verif.Lemmas.RenumberText
/-!
Part 8 (C16): a descending, pairwise disjoint sequence of single-row edits is a `ValidSeq`, and the rows it
produces are the per-row simultaneous substitutions.
-/
namespace A2Verif.Lemmas.Renumber
open A2Verif.Model.Renumber

def toE1 (ed : Edit) : E1 := ⟨ed.rng.s.ch, ed.rng.e.ch, ed.new⟩

/-- `a` is applied before `b`: on the same row `b` lies entirely to the left of `a` -/
def Before (a b : Edit) : Prop := a.rng.s.line ≠ b.rng.s.line ∨ b.rng.e.ch ≤ a.rng.s.ch

/-- every edit of `es` is a valid single-row edit of the rows `ls` -/
def Fits (ls : List (List Nat)) (es : List Edit) : Prop := ∀ ed ∈ es, EditOn ls ed

theorem fits_step {ls : List (List Nat)} {ed : Edit} {es : List Edit} (hf : Fits ls (ed :: es))
    (hb : ∀ x ∈ es, Before ed x) : Fits (rowsStep ls ed) es := by
  intro x hx
  obtain ⟨hxl, hxn, lx, hlx, hx1, hx2⟩ := hf x (List.mem_cons_of_mem _ hx)
  obtain ⟨_, _, l, hl, h1, h2⟩ := hf ed (by simp)
  refine ⟨hxl, hxn, ?_⟩
  unfold rowsStep
  by_cases hrow : ed.rng.s.line = x.rng.s.line
  · have hlt : ed.rng.s.line < ls.length := by
      rcases Nat.lt_or_ge ed.rng.s.line ls.length with h' | h'
      · exact h'
      · rw [List.getElem?_eq_none h'] at hl; cases hl
    rw [← hrow, List.getElem?_set_self hlt, hl]
    rw [← hrow, hl] at hlx
    injection hlx with hlx
    subst hlx
    refine ⟨_, rfl, hx1, ?_⟩
    rcases hb x hx with hne | hle
    · exact absurd hrow hne
    · simp [replace1]; omega
  · rw [List.getElem?_set_ne hrow]
    exact ⟨lx, hlx, hx1, hx2⟩

theorem validSeq_of_fits (es : List Edit) (ls : List (List Nat)) (hf : Fits ls es)
    (hp : es.Pairwise Before) : ValidSeq ls es := by
  induction es generalizing ls with
  | nil => exact .nil ls
  | cons ed es ih =>
    have hp' := List.pairwise_cons.mp hp
    exact .cons (hf ed (by simp)) (ih _ (fits_step hf hp'.1) hp'.2)

/-- the rows after the whole sequence: row `r` has received exactly the edits addressed to it, in order -/
theorem foldl_rowsStep_getElem? (es : List Edit) (ls : List (List Nat)) (r : Nat) :
    (es.foldl rowsStep ls)[r]? =
      ls[r]?.map (fun l => ((es.filter (fun ed => ed.rng.s.line == r)).map toE1).foldl replace1 l) := by
  induction es generalizing ls with
  | nil => simp
  | cons ed es ih =>
    simp only [List.foldl_cons, ih, List.filter_cons]
    unfold rowsStep
    by_cases hrow : ed.rng.s.line = r
    · subst hrow
      simp only [beq_self_eq_true, ↓reduceIte, List.map_cons, List.foldl_cons]
      rw [List.getElem?_set]
      simp only [↓reduceIte]
      by_cases hlt : ed.rng.s.line < ls.length
      · simp [hlt, toE1]
      · simp [hlt]
    · have : (ed.rng.s.line == r) = false := by simp [hrow]
      simp only [this, Bool.false_eq_true, ↓reduceIte]
      rw [List.getElem?_set_ne hrow]

/-! descending chains on one row -/

/-- edits in application order on one row: each inside `[0,m]`, each entirely left of the previous one -/
def ChainDesc : Nat → List E1 → Prop
  | _, [] => True
  | m, d :: rest => d.s ≤ d.e ∧ d.e ≤ m ∧ ChainDesc d.s rest

theorem chain_mono {off off' len : Nat} {xs : List E1} (h : Chain off len xs) (ho : off' ≤ off) :
    Chain off' len xs := by
  cases xs with
  | nil => trivial
  | cons x xs => exact ⟨Nat.le_trans ho h.1, h.2⟩

theorem chain_of_chainDesc (len : Nat) (ds : List E1) (m : Nat) (tail : List E1)
    (h : ChainDesc m ds) (hm : m ≤ len) (ht : Chain m len tail) : Chain 0 len (ds.reverse ++ tail) := by
  induction ds generalizing m tail with
  | nil => simpa using chain_mono ht (Nat.zero_le _)
  | cons d rest ih =>
    obtain ⟨h1, h2, h3⟩ := h
    simp only [List.reverse_cons, List.append_assoc, List.singleton_append]
    apply ih d.s (d :: tail) h3 (by omega)
    exact ⟨Nat.le_refl _, h1, by omega, chain_mono ht h2⟩

theorem foldl_replace1_eq_seqDesc (l : List Nat) (ds : List E1) : ds.foldl replace1 l = seqDesc l ds.reverse := by
  induction ds generalizing l with
  | nil => rfl
  | cons d rest ih =>
    rw [List.foldl_cons, ih]
    simp only [List.reverse_cons]
    -- seqDesc over `xs ++ [d]` applies `d` first
    have : ∀ (xs : List E1) (l : List Nat), seqDesc l (xs ++ [d]) = seqDesc (replace1 l d) xs := by
      intro xs
      induction xs with
      | nil => intro l; rfl
      | cons x xs ihx => intro l; simp only [List.cons_append, seqDesc, ihx]
    rw [this]

theorem chainDesc_of_pairwise (ds : List E1) (m : Nat) (hp : ds.Pairwise (fun a b => b.e ≤ a.s))
    (hr : ∀ d ∈ ds, d.s ≤ d.e ∧ d.e ≤ m) : ChainDesc m ds := by
  induction ds generalizing m with
  | nil => trivial
  | cons d rest ih =>
    have hp' := List.pairwise_cons.mp hp
    refine ⟨(hr d (by simp)).1, (hr d (by simp)).2, ih d.s hp'.2 ?_⟩
    intro x hx
    exact ⟨(hr x (List.mem_cons_of_mem _ hx)).1, hp'.1 x hx⟩

/-- bottom-up application of a descending disjoint sequence on one row is the simultaneous substitution of
the same edits read in ascending order -/
theorem foldl_replace1_eq_subst (l : List Nat) (ds : List E1) (hp : ds.Pairwise (fun a b => b.e ≤ a.s))
    (hr : ∀ d ∈ ds, d.s ≤ d.e ∧ d.e ≤ l.length) :
    Chain 0 l.length ds.reverse ∧ ds.foldl replace1 l = substAsc 0 l ds.reverse := by
  have hc : Chain 0 l.length ds.reverse := by
    simpa using chain_of_chainDesc l.length ds l.length [] (chainDesc_of_pairwise ds _ hp hr) (Nat.le_refl _) trivial
  exact ⟨hc, by rw [foldl_replace1_eq_seqDesc, seqDesc_eq_subst l _ hc]⟩

end A2Verif.Lemmas.Renumber
