import A2Verif.Lemmas.FsProdosOps
/-!
# The bitmap buffer of the concrete ProDOS model: open, closed, written back

a2kit keeps the volume bitmap in memory (`maybe_bitmap`).  Between two calls of the API the buffer may be closed
(`from_img`, or after `get_img()` wrote it back) or open (after `stat()`); an operation opens it at the first use.
`effBuf d bm cnt` is the buffer the model *works with* in either state: the open buffer, or what
`open_bitmap_buffer` will load.  The primitives (`allocate_block`, `deallocate_block`, `num_free_blocks`,
`get_available_block`, `write_block`) are described for both states at once (`St d bm cnt`): whatever the state
before, afterwards the buffer is open (`mkD`).  `flush_open` / `flush_closed` describe `get_img()`, `bufOf_wbRaw` is the
round trip: what is written back is what the next `open_bitmap_buffer` loads.
-/
namespace A2Verif.FsProdos
open A2Verif.Fs.Prodos

/-- `bitmap_blocks` of an opened buffer -/
def bmRange (bm cnt : Nat) : List Nat := List.range' bm cnt

theorem mem_bmRange {bm cnt i : Nat} : i ∈ bmRange bm cnt ↔ bm ≤ i ∧ i < bm + cnt := by
  unfold bmRange; rw [List.mem_range'_1]

/-- the buffer the model works with: the open buffer, or what `open_bitmap_buffer` will load -/
def effBuf (d : Disk) (bm cnt : Nat) : Array Nat :=
  match d.bitmap with
  | some b => b
  | none => bufOf d.raw bm cnt

/-- a disk object with an open buffer -/
def mkD (d : Disk) (raw : Raw) (buf : Array Nat) (bm cnt : Nat) : Disk :=
  { d with raw := raw, bitmap := some buf, bitmapBlocks := bmRange bm cnt }

/-- the disk with its buffer opened -/
def openD (d : Disk) (bm cnt : Nat) : Disk := mkD d d.raw (effBuf d bm cnt) bm cnt

/-- the states of the file system object between and inside operations: the volume header names the bitmap blocks
`bm … bm+cnt-1`, they exist, and the buffer is closed (with `bitmap_blocks` empty, as after `from_img`, or stale, as after
`get_img()`) or open -/
structure St (d : Disk) (bm cnt : Nat) : Prop where
  hdr : ∃ kb, d.raw.units[2]? = some kb ∧ le16 kb 39 = bm
  hcnt : d.bmCount = cnt
  bm3 : 3 ≤ bm
  exist : ∀ i ∈ bmRange bm cnt, i < d.raw.units.size
  bb : (d.bitmap = none ∧ (d.bitmapBlocks = [] ∨ d.bitmapBlocks = bmRange bm cnt)) ∨
       (∃ b, d.bitmap = some b ∧ d.bitmapBlocks = bmRange bm cnt)

theorem St.notBB {d : Disk} {bm cnt : Nat} (h : St d bm cnt) {i : Nat} (hi : i ∉ bmRange bm cnt) :
    d.bitmapBlocks.contains i = false := by
  rcases h.bb with ⟨_, hb | hb⟩ | ⟨_, _, hb⟩
  · rw [hb]; rfl
  · rw [hb]; simpa using hi
  · rw [hb]; simpa using hi

theorem St.two {d : Disk} {bm cnt : Nat} (h : St d bm cnt) : d.bitmapBlocks.contains 2 = false :=
  h.notBB (by rw [mem_bmRange]; have := h.bm3; omega)

theorem openD_of_open {d : Disk} {bm cnt : Nat} {b : Array Nat} (hb : d.bitmap = some b) (hbb : d.bitmapBlocks = bmRange bm cnt) :
    openD d bm cnt = d := by
  cases d with
  | mk raw total bitmap bitmapBlocks src =>
    simp only at hb hbb
    subst hb; subst hbb
    rfl

/-- `open_bitmap_buffer` in either state -/
theorem openBitmap_st {d : Disk} {bm cnt : Nat} (h : St d bm cnt) : openBitmap d = (.ok (), openD d bm cnt) := by
  rcases h.bb with ⟨hc, _⟩ | ⟨b, hb, hbb⟩
  · obtain ⟨kb, hkb, hbm⟩ := h.hdr
    have hex : ∀ i ∈ List.range' (le16 kb 39) d.bmCount, i < d.raw.units.size := by
      rw [hbm, h.hcnt]; exact h.exist
    rw [openBitmap_closed d kb hc hkb hex, hbm, h.hcnt]
    unfold openD mkD effBuf bmRange
    rw [hc]
  · rw [openBitmap_open d b hb, openD_of_open hb hbb]

/-- `get_bitmap_buffer` in either state: the effective buffer, afterwards open -/
theorem getBitmap_st {d : Disk} {bm cnt : Nat} (h : St d bm cnt) : getBitmap d = (.ok (effBuf d bm cnt), openD d bm cnt) := by
  unfold getBitmap
  simp only [M.bind, openBitmap_st h, M.get, M.ofOption]
  rfl

theorem effBuf_mkD (d : Disk) (raw : Raw) (buf : Array Nat) (bm cnt : Nat) : effBuf (mkD d raw buf bm cnt) bm cnt = buf := rfl

theorem mkD_mkD (d : Disk) (r r' : Raw) (b b' : Array Nat) (bm cnt : Nat) : mkD (mkD d r b bm cnt) r' b' bm cnt = mkD d r' b' bm cnt := rfl

/-- `allocate_block(i)` in either state -/
theorem allocate_st {d : Disk} {bm cnt : Nat} (h : St d bm cnt) (i : Nat) (hi : i / 8 < (effBuf d bm cnt).size) :
    allocate i d = (.ok (), mkD d d.raw (clearBit (effBuf d bm cnt) i) bm cnt) := by
  unfold allocate
  simp only [bind_def, M.bind, getBitmap_st h]
  rw [Array.getElem?_eq_getElem hi]
  simp only [setBitmap, clearBit, Array.getElem?_eq_getElem hi]
  rfl

/-- `deallocate_block(i)` in either state -/
theorem deallocate_st {d : Disk} {bm cnt : Nat} (h : St d bm cnt) (i : Nat) (hi : i / 8 < (effBuf d bm cnt).size) :
    deallocate i d = (.ok (), mkD d d.raw (setBit (effBuf d bm cnt) i) bm cnt) := by
  unfold deallocate
  simp only [bind_def, M.bind, getBitmap_st h]
  rw [Array.getElem?_eq_getElem hi]
  simp only [setBitmap, setBit, Array.getElem?_eq_getElem hi]
  rfl

/-- `num_free_blocks` in either state: the number of blocks the effective buffer marks free; the buffer is open afterwards -/
theorem numFreeBlocks_st {d : Disk} {bm cnt : Nat} (h : St d bm cnt) (ht : d.total ≠ 0) (hcov : d.total ≤ 8 * (effBuf d bm cnt).size) :
    numFreeBlocks d = (.ok (freeBlocks (effBuf d bm cnt) d.total).length, openD d bm cnt) := by
  unfold numFreeBlocks
  simp only [bind_def, M.bind, M.get, ht, ↓reduceIte, getBitmap_st h, M.lift]
  rw [countFreeFrom_eq _ d.total 0 0 (by omega)]
  simp [freeBlocks, range_eq_range']

/-- `get_available_block` in either state: first fit on the effective buffer -/
theorem getAvailableBlock_st {d : Disk} {bm cnt : Nat} (h : St d bm cnt) (ht : d.total ≠ 0) (hcov : d.total ≤ 8 * (effBuf d bm cnt).size) :
    getAvailableBlock d = (.ok (((List.range d.total).find? (freeB (effBuf d bm cnt))).map (· % 65536)), openD d bm cnt) := by
  unfold getAvailableBlock
  simp only [bind_def, M.bind, M.get, ht, ↓reduceIte, getBitmap_st h, M.lift]
  rw [firstFreeFrom_eq _ d.total 0 (by omega)]
  simp [range_eq_range']

/-- `read_block` of a block that is not a bitmap block, in either state -/
theorem readBlock_st {d : Disk} {bm cnt : Nat} (h : St d bm cnt) (i : Nat) (blk : Bytes) (hi : i ∉ bmRange bm cnt)
    (hblk : d.raw.units[i]? = some blk) : readBlock i d = (.ok blk, d) :=
  readBlock_plain d i blk (h.notBB hi) hblk

theorem getDirectory_st {d : Disk} {bm cnt : Nat} (h : St d bm cnt) (i : Nat) (blk : Bytes) (hi : i ∉ bmRange bm cnt)
    (hblk : d.raw.units[i]? = some blk) :
    getDirectory i d = (.ok { kind := kindOf i blk, bytes := blk.take dirLen }, d) :=
  getDirectory_plain d i blk (h.notBB hi) hblk

theorem unitAt_setUnit_other (r : Raw) (i j : Nat) (b : Bytes) (h : i ≠ j) : unitAt (setUnit r i b) j = unitAt r j := by
  unfold unitAt; rw [setUnit_other r i j b h]

/-- writing a block that is not a bitmap block does not change what `open_bitmap_buffer` loads -/
theorem bufOf_setUnit (r : Raw) (i : Nat) (b : Bytes) (bm cnt : Nat) (hi : i ∉ bmRange bm cnt) :
    bufOf (setUnit r i b) bm cnt = bufOf r bm cnt := by
  unfold bufOf
  congr 2
  apply List.map_congr_left
  intro j hj
  exact unitAt_setUnit_other r i j b (fun e => hi (e ▸ hj))

/-- the state after a block (not a bitmap block) has been replaced; writing block 2 must keep the bitmap pointer -/
theorem St.setUnit {d : Disk} {bm cnt : Nat} (h : St d bm cnt) (i : Nat) (b : Bytes)
    (hhdr : i = 2 → le16 b 39 = bm) : St { d with raw := setUnit d.raw i b } bm cnt := by
  refine ⟨?_, h.hcnt, h.bm3, fun j hj => by rw [setUnit_size]; exact h.exist j hj, h.bb⟩
  obtain ⟨kb, hkb, hbm⟩ := h.hdr
  by_cases hi : i = 2
  · subst hi
    have hsz : 2 < d.raw.units.size := by
      rcases Nat.lt_or_ge 2 d.raw.units.size with hh | hh
      · exact hh
      · rw [Array.getElem?_eq_none hh] at hkb; cases hkb
    exact ⟨b, setUnit_self _ _ _ hsz, hhdr rfl⟩
  · exact ⟨kb, by show (A2Verif.FsProdos.setUnit d.raw i b).units[2]? = _; rw [setUnit_other _ _ _ _ hi]; exact hkb, hbm⟩

theorem St.ofMk {d : Disk} {raw : Raw} {buf : Array Nat} {bm cnt : Nat}
    (hhdr : ∃ kb, raw.units[2]? = some kb ∧ le16 kb 39 = bm) (hcnt : d.bmCount = cnt) (hbm3 : 3 ≤ bm)
    (hex : ∀ i ∈ bmRange bm cnt, i < raw.units.size) : St (mkD d raw buf bm cnt) bm cnt :=
  ⟨hhdr, hcnt, hbm3, hex, Or.inr ⟨buf, rfl, rfl⟩⟩

/-- the open state reached from a state `St` with another image and buffer -/
theorem St.toOpen {d : Disk} {bm cnt : Nat} (h : St d bm cnt) (buf : Array Nat) : St (mkD d d.raw buf bm cnt) bm cnt :=
  St.ofMk h.hdr h.hcnt h.bm3 h.exist

/-- **`write_block(data, i, 0)` in either state**, for a block that exists and is not a bitmap block (writing block 2
must keep the bitmap pointer of the header): the unit is replaced, its bit cleared, the buffer is open afterwards -/
theorem writeBlock_st {d : Disk} {bm cnt : Nat} (h : St d bm cnt) (data : Bytes) (i : Nat)
    (hi : i ∉ bmRange bm cnt) (hsz : i < d.raw.units.size) (hcov : i / 8 < (effBuf d bm cnt).size)
    (hhdr : i = 2 → le16 (quantize (data.take blockSize)) 39 = bm) :
    writeBlock data i 0 d =
      (.ok (), mkD d (setUnit d.raw i (quantize (data.take blockSize))) (clearBit (effBuf d bm cnt) i) bm cnt) := by
  have hnb := h.notBB hi
  unfold writeBlock
  simp only [bind_def, M.bind, M.get, hnb, Bool.false_eq_true, ↓reduceIte]
  have hz : zapBlock data i 0 d = (.ok (), { d with raw := setUnit d.raw i (quantize (data.take blockSize)) }) := by
    unfold zapBlock
    simp only [Nat.not_lt_zero, ↓reduceIte, hnb, Bool.false_eq_true, imgWrite, hsz, blockSlice, List.drop_zero, setUnit]
  rw [hz]
  simp only
  have h1 := h.setUnit i (quantize (data.take blockSize)) hhdr
  have he : effBuf { d with raw := setUnit d.raw i (quantize (data.take blockSize)) } bm cnt = effBuf d bm cnt := by
    unfold effBuf
    cases hb : d.bitmap with
    | some b => rfl
    | none => simp only; exact bufOf_setUnit d.raw i _ bm cnt hi
  rw [allocate_st h1 i (by rw [he]; exact hcov), he]
  rfl

/-! ## `get_img()`: the write-back -/

/-- the image after the buffer `data` has been written to the blocks `is` (first bitmap block `first`) -/
def wbUnits (data : Bytes) (first : Nat) : List Nat → Raw → Raw
  | [], r => r
  | i :: is, r => wbUnits data first is (setUnit r i (quantize (blockSlice data ((i - first) * blockSize))))

/-- the image with the buffer written back -/
def wbRaw (r : Raw) (bm cnt : Nat) (buf : Array Nat) : Raw := wbUnits buf.toList bm (bmRange bm cnt) r

theorem wbUnits_size (data : Bytes) (first : Nat) : ∀ (is : List Nat) (r : Raw), (wbUnits data first is r).units.size = r.units.size
  | [], _ => rfl
  | i :: is, r => by rw [wbUnits, wbUnits_size data first is, setUnit_size]

theorem wbUnits_other (data : Bytes) (first : Nat) : ∀ (is : List Nat) (r : Raw) (j : Nat), j ∉ is →
    (wbUnits data first is r).units[j]? = r.units[j]?
  | [], _, _, _ => rfl
  | i :: is, r, j, hj => by
    rw [wbUnits, wbUnits_other data first is _ j (fun h => hj (List.mem_cons_of_mem _ h)),
      setUnit_other _ _ _ _ (fun e => hj (by subst e; exact List.mem_cons_self))]

theorem wbUnits_mem (data : Bytes) (first : Nat) : ∀ (is : List Nat) (r : Raw) (j : Nat), is.Nodup → j ∈ is → j < r.units.size →
    (wbUnits data first is r).units[j]? = some (quantize (blockSlice data ((j - first) * blockSize)))
  | [], _, _, _, hj, _ => by cases hj
  | i :: is, r, j, hnd, hj, hsz => by
    rw [List.nodup_cons] at hnd
    rw [wbUnits]
    rcases List.mem_cons.mp hj with rfl | hj'
    · rw [wbUnits_other data first is _ j hnd.1, setUnit_self _ _ _ hsz]
    · exact wbUnits_mem data first is _ j hnd.2 hj' (by rw [setUnit_size]; exact hsz)

/-- the loop of `writeback_bitmap_buffer` once the buffer has been dropped (or on a closed buffer) -/
theorem forEach_zap_closed (data : Bytes) (first : Nat) : ∀ (is : List Nat) (d : Disk), d.bitmap = none →
    (∀ i ∈ is, i < d.raw.units.size ∧ (i - first) * blockSize ≤ data.length) →
    forEach (fun i => zapBlock data i ((i - first) * blockSize)) is d = (.ok (), { d with raw := wbUnits data first is d.raw })
  | [], d, _, _ => by cases d; rfl
  | i :: is, d, hc, h => by
    obtain ⟨hsz, hlen⟩ := h i List.mem_cons_self
    unfold forEach
    have hz : zapBlock data i ((i - first) * blockSize) d =
        (.ok (), { d with raw := setUnit d.raw i (quantize (blockSlice data ((i - first) * blockSize))) }) := by
      unfold zapBlock
      rw [if_neg (by omega)]
      have hd1 : (if d.bitmapBlocks.contains i = true then { d with bitmap := none } else d) = d := by
        split
        · cases d with
          | mk raw total bitmap bitmapBlocks src => simp only at hc; subst hc; rfl
        · rfl
      simp only [hd1, imgWrite, hsz, ↓reduceIte, setUnit]
    rw [bind_ok _ _ d _ _ hz]
    exact forEach_zap_closed data first is
      { d with raw := setUnit d.raw i (quantize (blockSlice data ((i - first) * blockSize))) } hc (fun j hj => by
      rw [setUnit_size]; exact h j (List.mem_cons_of_mem _ hj))

/-- `get_img()` on a closed buffer changes nothing -/
theorem flush_closed {d : Disk} (hc : d.bitmap = none) : d.flush = (.ok (), d) := by
  unfold Disk.flush writeback
  simp only [bind_def, M.bind, M.get, hc, pure_def, M.pure]

/-- **`get_img()` on an open buffer**: the buffer is written to the bitmap blocks and dropped -/
theorem flush_open {d : Disk} {bm cnt : Nat} {buf : Array Nat} (h : St d bm cnt) (hb : d.bitmap = some buf)
    (hsize : buf.size = blockSize * cnt) (hpos : 0 < cnt) :
    d.flush = (.ok (), { d with raw := wbRaw d.raw bm cnt buf, bitmap := none }) := by
  have hbb : d.bitmapBlocks = bmRange bm cnt := by
    rcases h.bb with ⟨hc, _⟩ | ⟨_, _, hbb⟩
    · rw [hc] at hb; cases hb
    · exact hbb
  have hcnt : 0 < cnt := hpos
  have hr : bmRange bm cnt = bm :: List.range' (bm + 1) (cnt - 1) := by
    unfold bmRange
    obtain ⟨c, rfl⟩ : ∃ c, cnt = c + 1 := ⟨cnt - 1, by omega⟩
    rw [List.range'_succ]; simp
  have hsz : bm < d.raw.units.size := h.exist bm (by rw [hr]; exact List.mem_cons_self)
  have hex := h.exist
  have hc2 := h.hcnt
  cases d with
  | mk raw total bitmap bitmapBlocks src =>
    simp only at hb hbb hsz hex hc2
    subst hb; subst hbb
    unfold Disk.flush writeback
    simp only [bind_def, M.bind, M.get, hc2]
    rw [hr]
    simp only
    rw [← show bmRange bm cnt = List.range' bm cnt from rfl, hr]
    unfold forEach
    have hz : zapBlock buf.toList bm ((bm - bm) * blockSize)
          { raw := raw, total := total, bitmap := some buf, bitmapBlocks := bm :: List.range' (bm + 1) (cnt - 1), src := src } =
        (.ok (), { raw := setUnit raw bm (quantize (blockSlice buf.toList ((bm - bm) * blockSize))), total := total,
                   bitmap := none, bitmapBlocks := bm :: List.range' (bm + 1) (cnt - 1), src := src }) := by
      unfold zapBlock
      rw [if_neg (by simp)]
      simp only [List.contains_cons, BEq.rfl, Bool.true_or, ↓reduceIte, imgWrite, hsz, setUnit]
    rw [bind_ok _ _ _ _ _ hz]
    rw [forEach_zap_closed buf.toList bm (List.range' (bm + 1) (cnt - 1))
      { raw := setUnit raw bm (quantize (blockSlice buf.toList ((bm - bm) * blockSize))), total := total,
        bitmap := none, bitmapBlocks := bm :: List.range' (bm + 1) (cnt - 1), src := src } rfl (fun j hj => by
      have hj' : j ∈ bmRange bm cnt := by rw [hr]; exact List.mem_cons_of_mem _ hj
      refine ⟨by rw [setUnit_size]; exact hex j hj', ?_⟩
      rw [mem_bmRange] at hj'
      rw [Array.length_toList, hsize]
      have : (j - bm) * blockSize ≤ cnt * blockSize := Nat.mul_le_mul_right _ (by omega)
      rw [Nat.mul_comm blockSize cnt]; exact this)]
    unfold wbRaw
    rw [hr]
    rfl

/-! ## the round trip -/

theorem drop_take_flatten (n : Nat) (hn : 0 < n) : ∀ (cnt : Nat) (l : Bytes), l.length = n * cnt →
    ((List.range cnt).map (fun k => (l.drop (k * n)).take n)).flatten = l
  | 0, l, h => by
    have : l = [] := List.eq_nil_of_length_eq_zero (by simpa using h)
    subst this; rfl
  | cnt + 1, l, h => by
    rw [List.range_succ_eq_map, List.map_cons, List.flatten_cons, List.map_map]
    have ih := drop_take_flatten n hn cnt (l.drop n) (by rw [List.length_drop, h, Nat.mul_succ]; omega)
    have hfun : ((fun k => (l.drop (k * n)).take n) ∘ Nat.succ) = (fun k => ((l.drop n).drop (k * n)).take n) := by
      funext k
      simp only [Function.comp, List.drop_drop]
      rw [Nat.succ_mul, Nat.add_comm]
    rw [hfun, ih]
    simp

theorem quantize_full (x : Bytes) (h : x.length = blockSize) : quantize x = x := by
  unfold quantize
  rw [List.take_of_length_le (by omega), h, Nat.sub_self]
  simp

/-- a unit of the image after the write-back -/
theorem wbRaw_get (r : Raw) (bm cnt : Nat) (buf : Array Nat) (hex : ∀ i ∈ bmRange bm cnt, i < r.units.size) (j : Nat) :
    (wbRaw r bm cnt buf).units[j]? =
      if j ∈ bmRange bm cnt then some (quantize (blockSlice buf.toList ((j - bm) * blockSize))) else r.units[j]? := by
  unfold wbRaw
  by_cases hj : j ∈ bmRange bm cnt
  · rw [if_pos hj]
    exact wbUnits_mem _ _ _ _ j (by unfold bmRange; exact List.nodup_range') hj (hex j hj)
  · rw [if_neg hj]
    exact wbUnits_other _ _ _ _ j hj

theorem wbRaw_size (r : Raw) (bm cnt : Nat) (buf : Array Nat) : (wbRaw r bm cnt buf).units.size = r.units.size :=
  wbUnits_size _ _ _ _

/-- **round trip**: what `get_img()` writes back is what the next `open_bitmap_buffer` loads -/
theorem bufOf_wbRaw (r : Raw) (bm cnt : Nat) (buf : Array Nat) (hex : ∀ i ∈ bmRange bm cnt, i < r.units.size)
    (hsize : buf.size = blockSize * cnt) : bufOf (wbRaw r bm cnt buf) bm cnt = buf := by
  unfold bufOf
  have hu : ∀ k, k < cnt → unitAt (wbRaw r bm cnt buf) (bm + k) = (buf.toList.drop (k * blockSize)).take blockSize := by
    intro k hk
    unfold unitAt
    rw [wbRaw_get r bm cnt buf hex, if_pos (by rw [mem_bmRange]; omega)]
    simp only [Option.getD_some]
    have e : bm + k - bm = k := by omega
    rw [e]
    apply quantize_full
    unfold blockSlice
    rw [List.length_take, List.length_drop, Array.length_toList, hsize]
    have : (k + 1) * blockSize ≤ cnt * blockSize := Nat.mul_le_mul_right _ (by omega)
    rw [Nat.succ_mul] at this
    rw [Nat.mul_comm blockSize cnt]
    omega
  have hmap : (List.range' bm cnt).map (unitAt (wbRaw r bm cnt buf)) =
      (List.range cnt).map (fun k => (buf.toList.drop (k * blockSize)).take blockSize) := by
    rw [List.range'_eq_map_range, List.map_map]
    apply List.map_congr_left
    intro k hk
    exact hu k (List.mem_range.mp hk)
  rw [hmap, drop_take_flatten blockSize (by decide) cnt buf.toList (by rw [Array.length_toList, hsize])]

/-- an image all of whose bitmap blocks are full blocks is its own write-back -/
theorem wbRaw_bufOf_get (r : Raw) (bm cnt : Nat) (hex : ∀ i ∈ bmRange bm cnt, i < r.units.size)
    (hlen : ∀ i ∈ bmRange bm cnt, (unitAt r i).length = blockSize) (j : Nat) :
    (wbRaw r bm cnt (bufOf r bm cnt)).units[j]? = r.units[j]? := by
  rw [wbRaw_get r bm cnt _ hex]
  by_cases hj : j ∈ bmRange bm cnt
  · rw [if_pos hj]
    have hjsz := hex j hj
    rw [units_get_unitAt r j hjsz]
    congr 1
    rw [mem_bmRange] at hj
    -- the slice of the concatenation at the `j - bm`-th block is that block
    have key : ∀ (cnt k : Nat) (bm : Nat), k < cnt → (∀ i, i < cnt → (unitAt r (bm + i)).length = blockSize) →
        blockSlice (((List.range' bm cnt).map (unitAt r)).flatten) (k * blockSize) = unitAt r (bm + k) := by
      intro cnt
      induction cnt with
      | zero => intro k bm hk; omega
      | succ c ih =>
        intro k bm hk hl
        rw [List.range'_succ, List.map_cons, List.flatten_cons]
        unfold blockSlice
        cases k with
        | zero =>
          have h0 := hl 0 (by omega)
          simp only [Nat.zero_mul, List.drop_zero, Nat.add_zero] at h0 ⊢
          rw [List.take_append_of_le_length (by omega), List.take_of_length_le (by omega)]
        | succ k =>
          have h0 := hl 0 (by omega)
          simp only [Nat.add_zero] at h0
          have he : (k + 1) * blockSize = (unitAt r bm).length + k * blockSize := by rw [h0, Nat.succ_mul]; omega
          rw [he, List.drop_append, List.drop_of_length_le (by omega), List.nil_append, Nat.add_sub_cancel_left]
          have := ih k (bm + 1) (by omega) (fun i hi => by
            have := hl (i + 1) (by omega)
            rw [show bm + (i + 1) = bm + 1 + i by omega] at this; exact this)
          unfold blockSlice at this
          rw [this]
          congr 1; omega
    have hk := key cnt (j - bm) bm (by omega) (fun i hi => by
      exact hlen (bm + i) (by rw [mem_bmRange]; omega))
    have e : bm + (j - bm) = j := by omega
    rw [e] at hk
    unfold bufOf
    rw [List.toList_toArray, hk]
    exact quantize_full _ (hlen j (by rw [mem_bmRange]; omega))
  · rw [if_neg hj]

end A2Verif.FsProdos
