import A2Verif.Lemmas.FsDosRefine
/-!
# `init` establishes the invariant

`init(254, false, 17, 35, c)` on a blank `35·c`-sector image (`c` = 16: `init33`, `c` = 13: `init32`): the VTOC is
zapped in, the buffer reopened, the catalog sectors `c−1 … 1` of track 17 are written through `write_sector`.
The resulting working state satisfies `WInv` with the layout "catalog = track 17 sectors c−1 down to 1, no
files" and the format-time system units `initSys c` (VTOC, catalog, track 0).  Core Lean only.
-/
set_option linter.unusedSimpArgs false
namespace A2Verif.Fs.Dos3x
open A2Verif.FsDos A2Verif.Read.Dos3x

/-- a blank container of 35 tracks -/
def blank (c : Nat) : Disk :=
  { raw := { unitLen := 256, units := Array.replicate (35 * c) (zeros 256) }, c := c, vtoc := none }

/-- the catalog sector `init` writes at track 17 sector `s` -/
def dirSec (s : Nat) : Bytes := if s = 1 then zeros 256 else splice (zeros 256) 1 [vtocTrack, s - 1]

theorem zeros_length (n : Nat) : (zeros n).length = n := List.length_replicate

theorem dirSec_length (s : Nat) : (dirSec s).length = 256 := by
  unfold dirSec
  split
  · exact zeros_length 256
  · rw [splice_length (by rw [zeros_length]; simp)]; exact zeros_length 256

/-- the catalog chain of a fresh volume: track 17, sectors `s, s−1, …, 1` -/
def catFrom (c : Nat) : Nat → List Nat
  | 0 => []
  | s + 1 => (vtocTrack * c + (s + 1)) :: catFrom c s

def initLay (c : Nat) : Lay := { cat := catFrom c (c - 1), tsls := [] }

/-- units the fresh volume marks used without a file leading to them: VTOC, catalog, track 0 -/
def initSys (c : Nat) : List Nat := (vtocTrack * c) :: catFrom c (c - 1) ++ List.range c

theorem initDirs_spec {w : W} (h : WOk w) (hm : mapVal w.v vtocTrack = 0) : ∀ (secs : List Nat),
    (∀ s ∈ secs, 2 ≤ s ∧ s < w.c) →
    ∃ w', initDirs secs w = (.ok (), w') ∧ WOk w' ∧ w'.v = w.v ∧ w'.c = w.c ∧
      ∀ u, sec w'.img u = if (∃ s ∈ secs, u = vtocTrack * w.c + s) then dirSec (u - vtocTrack * w.c) else sec w.img u := by
  intro secs
  induction secs generalizing w with
  | nil => intro _; exact ⟨w, rfl, h, rfl, rfl, fun u => by simp⟩
  | cons s rest ih =>
    intro hs
    have hs1 := hs s List.mem_cons_self
    have hused : bitFree w.v w.c vtocTrack s = false := by unfold bitFree; rw [hm]; simp
    have hne : ¬ (vtocTrack = vtocTrack ∧ s = 0) := by omega
    have hd : (splice (zeros 256) 1 [vtocTrack, s - 1]).length = 256 := by
      rw [splice_length (by rw [zeros_length]; simp)]; exact zeros_length 256
    have hw := writeSectorM_used h (t := vtocTrack) (by decide) hs1.2 hne hd hused
    have hok1 := wrote_ok h (t := vtocTrack) (by decide) hs1.2 hd
    obtain ⟨w', hrun, hok', hv', hc', hsec⟩ := ih hok1 hm (fun x hx => hs x (List.mem_cons_of_mem _ hx))
    refine ⟨w', ?_, hok', hv', hc', ?_⟩
    · rw [initDirs]
      simp only [M.bind_apply, hw]
      exact hrun
    · intro u
      rw [hsec u]
      have hc1 : (w.wrote vtocTrack s (splice (zeros 256) 1 [vtocTrack, s - 1]) w.v).c = w.c := rfl
      simp only [hc1]
      rw [sec_wrote h (by decide) hs1.2 hne]
      by_cases hr : ∃ x ∈ rest, u = vtocTrack * w.c + x
      · obtain ⟨x, hx, hux⟩ := hr
        rw [if_pos ⟨x, hx, hux⟩, if_pos ⟨x, List.mem_cons_of_mem _ hx, hux⟩]
      · rw [if_neg hr]
        by_cases hus : u = vtocTrack * w.c + s
        · rw [if_pos hus, if_pos ⟨s, List.mem_cons_self, hus⟩, hus]
          have e1 : vtocTrack * w.c + s - vtocTrack * w.c = s := by omega
          rw [e1]
          unfold dirSec
          rw [if_neg (by omega)]
        · rw [if_neg hus, if_neg]
          rintro ⟨x, hx, hux⟩
          rcases List.mem_cons.1 hx with rfl | hx
          · exact hus hux
          · exact hr ⟨x, hx, hux⟩


theorem mem_catFrom {c s u : Nat} : u ∈ catFrom c s ↔ ∃ k, 1 ≤ k ∧ k ≤ s ∧ u = vtocTrack * c + k := by
  induction s with
  | zero => simp [catFrom]; intro k h1 h2; omega
  | succ s ih =>
    simp only [catFrom, List.mem_cons, ih]
    constructor
    · rintro (rfl | ⟨k, h1, h2, rfl⟩)
      · exact ⟨s + 1, by omega, by omega, rfl⟩
      · exact ⟨k, h1, by omega, rfl⟩
    · rintro ⟨k, h1, h2, rfl⟩
      by_cases hk : k = s + 1
      · left; rw [hk]
      · right; exact ⟨k, h1, by omega, rfl⟩

theorem catFrom_nodup (c s : Nat) : (catFrom c s).Nodup := by
  induction s with
  | zero => exact List.nodup_nil
  | succ s ih =>
    simp only [catFrom]
    refine List.nodup_cons.2 ⟨?_, ih⟩
    rw [mem_catFrom]
    rintro ⟨k, _, h2, h3⟩
    omega

theorem catFrom_length (c s : Nat) : (catFrom c s).length = s := by
  induction s with
  | zero => rfl
  | succ s ih => simp [catFrom, ih]

theorem getD_zeros (n i : Nat) : (zeros n).getD i 0 = 0 := by
  unfold zeros
  rw [getD_eq]
  by_cases h : i < n
  · rw [List.getElem?_replicate, if_pos h]; rfl
  · rw [List.getElem?_eq_none (by rw [List.length_replicate]; omega)]; rfl

theorem dirSec_getD_high (s i : Nat) (hi : 3 ≤ i) : (dirSec s).getD i 0 = 0 := by
  unfold dirSec
  split
  · exact getD_zeros _ _
  · rw [getD_splice_other (by rw [zeros_length]; simp) (by simp; omega)]; exact getD_zeros _ _

theorem dirSec_next (s : Nat) : (dirSec s).getD 1 0 = (if s = 1 then 0 else vtocTrack) ∧ (dirSec s).getD 2 0 = (if s = 1 then 0 else s - 1) := by
  unfold dirSec
  by_cases h : s = 1
  · simp only [h, if_true]; exact ⟨getD_zeros _ _, getD_zeros _ _⟩
  · simp only [h, if_false]
    have hb : 1 + [vtocTrack, s - 1].length ≤ (zeros 256).length := by rw [zeros_length]; simp
    have e0 := getD_splice_in (e := zeros 256) (new := [vtocTrack, s - 1]) (off := 1) (j := 0) hb (by simp)
    have e1 := getD_splice_in (e := zeros 256) (new := [vtocTrack, s - 1]) (off := 1) (j := 1) hb (by simp)
    exact ⟨by simpa using e0, by simpa using e1⟩

/-- the catalog chain of a state whose track-17 sectors `1 … c−1` are the `dirSec`s -/
theorem catChain_init {r : Raw} {c : Nat} (hsz : r.units.size = 35 * c)
    (hsec : ∀ s, 1 ≤ s → s < c → sec r (vtocTrack * c + s) = dirSec s) :
    ∀ s, 1 ≤ s → s < c → CatChain r c vtocTrack s (catFrom c s) := by
  intro s
  induction s with
  | zero => intro h; omega
  | succ s ih =>
    intro _ hlt
    simp only [catFrom]
    have hu : vtocTrack * c + (s + 1) < r.units.size := by rw [hsz]; unfold vtocTrack; omega
    refine ⟨by unfold vtocTrack; omega, by decide, hlt, rfl, hu, ?_⟩
    rw [hsec (s + 1) (by omega) hlt, (dirSec_next (s + 1)).1, (dirSec_next (s + 1)).2]
    by_cases h0 : s = 0
    · subst h0; simp [catFrom, CatChain]
    · rw [if_neg (by omega), if_neg (by omega)]
      exact ih (by omega) (by omega)

theorem init_live_nil {r : Raw} {c : Nat} (hsec : ∀ s, 1 ≤ s → s < c → sec r (vtocTrack * c + s) = dirSec s) :
    liveOf r (catFrom c (c - 1)) = [] := by
  unfold liveOf
  rw [List.filter_eq_nil_iff]
  intro e he
  unfold entsOf at he
  obtain ⟨u, hu, he⟩ := List.mem_flatMap.1 he
  obtain ⟨k, h1, h2, rfl⟩ := mem_catFrom.1 hu
  rw [hsec k h1 (by omega), entsOfSec_eq] at he
  obtain ⟨j, _, rfl⟩ := List.mem_map.1 he
  unfold isLive entryAt
  rw [getD_slice (by omega), dirSec_getD_high _ _ (by omega)]
  simp

set_option maxRecDepth 100000 in
theorem initVtoc_facts (c : Nat) (hc : c = 13 ∨ c = 16) :
    (initVtoc 254 c).length = 196 ∧ (∀ x ∈ initVtoc 254 c, x < 256) ∧ Vtoc.tracks (initVtoc 254 c) = 35 ∧
    Vtoc.sectors (initVtoc 254 c) = c ∧ Vtoc.bytesPerSector (initVtoc 254 c) = 256 ∧ Vtoc.maxPairs (initVtoc 254 c) = 122 ∧
    mapVal (initVtoc 254 c) vtocTrack = 0 ∧ (initVtoc 254 c).getD 1 0 = vtocTrack ∧ (initVtoc 254 c).getD 2 0 = c - 1 ∧
    (initVtoc 254 c).getD 6 0 = 254 ∧ (initVtoc 254 c).getD 0x30 0 = 17 := by
  rcases hc with rfl | rfl <;> decide +kernel


/-- the reading of a fresh volume, as an explicit value (no image in it) -/
def initVol (c : Nat) : Vol :=
  { lo := 0, hi := 35 * c,
    sys := fixedOf c (initLay c) ++ (initSys c).filter (fun u => !(fixedOf c (initLay c)).contains u),
    files := [],
    freeUnits := (List.range (35 * c)).filter (fun u => sectorFree (quantize (initVtoc 254 c)) (geo c) (u / c) (u % c)),
    label := [254] }

set_option maxRecDepth 100000 in
theorem initVol_sys (c : Nat) (hc : c = 13 ∨ c = 16) :
    (initVol c).sys.Nodup ∧
    (initVol c).sys.all (fun u => !sectorFree (quantize (initVtoc 254 c)) (geo c) (u / c) (u % c)) = true := by
  rcases hc with rfl | rfl <;> decide +kernel

/-- C04 on a fresh volume: every sector is a system sector (VTOC, catalog track, track 0) or marked free -/
theorem initVol_noLeak (c : Nat) (hc : c = 13 ∨ c = 16) : (initVol c).noLeak = true := by
  have key : ∀ u : Fin (35 * c), (initVol c).sys.contains u.val = true ∨
      sectorFree (quantize (initVtoc 254 c)) (geo c) (u.val / c) (u.val % c) = true := by
    rcases hc with rfl | rfl <;> decide +kernel
  rw [noLeak_iff]
  intro u _ h2
  rcases key ⟨u, h2⟩ with h | h
  · right; left; simpa using h
  · right; right
    show u ∈ (List.range (35 * c)).filter (fun u => sectorFree (quantize (initVtoc 254 c)) (geo c) (u / c) (u % c))
    exact List.mem_filter.2 ⟨List.mem_range.2 h2, h⟩

theorem initVol_wf (c : Nat) (hc : c = 13 ∨ c = 16) : (initVol c).wfB = true := by
  obtain ⟨h1, h2⟩ := initVol_sys c hc
  rw [wfB_iff]
  have hao : (initVol c).allOwned = [] := rfl
  refine ⟨(by rw [hao]; intro u hu; cases hu), (by rw [hao]; exact h1), (by rw [hao]; intro u hu; cases hu), ?_, ⟨?_, ?_⟩,
    List.nodup_nil, (by intro f hf; cases hf)⟩
  · intro u hu hf
    have := List.all_eq_true.1 h2 u hu
    have hf' : u ∈ (List.range (35 * c)).filter (fun u => sectorFree (quantize (initVtoc 254 c)) (geo c) (u / c) (u % c)) := hf
    rw [List.mem_filter] at hf'
    rw [hf'.2] at this
    exact absurd this (by decide)
  · exact (List.filter_sublist (l := List.range (35 * c))).nodup List.nodup_range
  · intro u hu
    have hf' : u ∈ (List.range (35 * c)).filter (fun u => sectorFree (quantize (initVtoc 254 c)) (geo c) (u / c) (u % c)) := hu
    rw [List.mem_filter, List.mem_range] at hf'
    exact ⟨Nat.zero_le _, hf'.1⟩

theorem blank_sec (c u : Nat) : sec (blank c).raw u = if u < 35 * c then zeros 256 else [] := by
  unfold sec blank
  simp only [Array.getElem?_replicate]
  split <;> rfl

/-- `init33` / `init32` on a blank image succeed and establish the invariant of the working state -/
theorem init_winv {c : Nat} (hc : c = 13 ∨ c = 16) :
    ∃ w, init (blank c) 254 c = (.ok (), w.toDisk) ∧ WInv w (initSys c) (initLay c) ∧ w.c = c ∧
      volOf w.img w.c (initSys c) (initLay c) = initVol c := by
  obtain ⟨ivl, ivlt, ivT, ivS, ivB, ivP, ivM, iv1, iv2, iv6, iv30⟩ := initVtoc_facts c hc
  have hc0 : 0 < c := by rcases hc with rfl | rfl <;> omega
  have h17 : vtocTrack * c < 35 * c := by unfold vtocTrack; omega
  -- the zap of the VTOC
  have hsz0 : (blank c).raw.units.size = 35 * c := by simp [blank]
  have htr : imgTracks c (blank c).raw = 35 := by unfold imgTracks; rw [hsz0]; exact Nat.mul_div_cancel _ hc0
  generalize hr1 : ({ (blank c).raw with units := (blank c).raw.units.setIfInBounds (vtocTrack * c + 0) (quantize (initVtoc 254 c)) } : Raw) = r1
  have hzap : imgWrite c (blank c).raw vtocTrack 0 (initVtoc 254 c) = .ok r1 := by
    unfold imgWrite
    rw [htr, if_neg (by unfold vtocTrack; omega), if_pos (by rw [hsz0]; omega), hr1]
  have hsz1 : r1.units.size = 35 * c := by rw [← hr1]; simp [blank]
  have hsec1 : ∀ u, sec r1 u = if u = vtocTrack * c then quantize (initVtoc 254 c) else if u < 35 * c then zeros 256 else [] := by
    intro u
    have hb := blank_sec c u
    rw [← hr1]
    unfold sec at hb ⊢
    simp only [Array.getElem?_setIfInBounds, Nat.add_zero]
    by_cases hu : vtocTrack * c = u
    · subst hu; simp [hsz0, h17]
    · have : ¬ u = vtocTrack * c := fun e => hu e.symm
      simp only [hu, if_false, this]
      exact hb
  -- reopening the buffer
  have hread : imgRead c r1 vtocTrack 0 = .ok (quantize (initVtoc 254 c)) := by
    unfold imgRead imgTracks
    rw [hsz1, Nat.mul_div_cancel _ hc0, if_neg (by unfold vtocTrack; omega)]
    have := hsec1 (vtocTrack * c)
    rw [if_pos rfl] at this
    unfold sec at this
    rw [Nat.add_zero]
    cases hg : r1.units[vtocTrack * c]? with
    | none =>
      rw [Array.getElem?_eq_none_iff] at hg
      omega
    | some b => rw [hg] at this; simp only [Option.getD_some] at this; rw [this]
  have hopen : openVtoc { raw := r1, c := c, vtoc := none } = .ok (initVtoc 254 c) := by
    unfold openVtoc
    simp only [hread]
    rw [if_neg (by rw [quantize_length]; unfold vtocLen; omega)]
    have ht : (quantize (initVtoc 254 c)).take vtocLen = initVtoc 254 c := by
      have := quantize_take (d := initVtoc 254 c) (by omega)
      rw [ivl] at this; exact this
    rw [ht, ivP, if_neg (by omega)]
  generalize hw1 : (W.mk c r1 (initVtoc 254 c)) = w1
  have hok1 : WOk w1 := by
    rw [← hw1]
    refine ⟨hc, hsz1, ivl, ivlt, ivT, ivS, ivB, ivP, ?_⟩
    intro u hu
    simp only at hu ⊢
    rw [hsec1 u]
    split
    · exact quantize_length _
    · rw [if_pos (by omega)]; exact zeros_length 256
  have hm1 : mapVal w1.v vtocTrack = 0 := by rw [← hw1]; exact ivM
  have hc1 : w1.c = c := by rw [← hw1]
  -- the first catalog sector
  have hused : bitFree w1.v w1.c vtocTrack 1 = false := by unfold bitFree; rw [hm1]; simp
  have hwr := writeSectorM_used hok1 (t := vtocTrack) (s := 1) (data := zeros 256) (by decide)
    (by rw [hc1]; rcases hc with rfl | rfl <;> omega) (by omega) (zeros_length 256) hused
  have hok2 := wrote_ok hok1 (t := vtocTrack) (s := 1) (data := zeros 256) (by decide)
    (by rw [hc1]; rcases hc with rfl | rfl <;> omega) (zeros_length 256)
  obtain ⟨w', hrun, hok', hv', hc', hsec'⟩ := initDirs_spec hok2 hm1 (rng 2 c) (by
    intro s hs
    unfold rng at hs
    rw [List.mem_range'] at hs
    obtain ⟨i, hi, rfl⟩ := hs
    show 2 ≤ 2 + 1 * i ∧ 2 + 1 * i < w1.c
    rw [hc1]; omega)
  have hcw : w'.c = c := by rw [hc']; exact hc1
  have hvw : w'.v = initVtoc 254 c := by rw [hv']; show w1.v = _; rw [← hw1]
  -- the sectors of track 17
  have hsecF : ∀ s, 1 ≤ s → s < c → sec w'.img (vtocTrack * c + s) = dirSec s := by
    intro s h1 h2
    rw [hsec' _]
    have hcc : (w1.wrote vtocTrack 1 (zeros 256) w1.v).c = c := hc1
    simp only [hcc]
    by_cases hs2 : 2 ≤ s
    · rw [if_pos ⟨s, by unfold rng; rw [List.mem_range']; exact ⟨s - 2, by omega, by omega⟩, rfl⟩]
      congr 1; omega
    · have hs1 : s = 1 := by omega
      subst hs1
      rw [if_neg]
      · have := sec_wrote hok1 (t := vtocTrack) (s := 1) (by decide) (by rw [hc1]; omega) (by omega) (zeros 256) (vtocTrack * c + 1)
        rw [hc1] at this
        rw [this, if_pos rfl]
        rfl
      · rintro ⟨x, hx, hux⟩
        unfold rng at hx
        rw [List.mem_range'] at hx
        obtain ⟨i, _, rfl⟩ := hx
        omega
  have hszF : w'.img.units.size = 35 * c := by rw [W.img_size, hok'.size, hcw]
  have hvtF : vtocOf w'.img c = quantize (initVtoc 254 c) := by have := vtocOf_img hok'; rw [hcw, hvw] at this; exact this
  have hgv : ∀ i, i < 196 → (vtocOf w'.img c).getD i 0 = (initVtoc 254 c).getD i 0 := by
    intro i hi; rw [hvtF, getD_quantize (by omega) (by omega)]
  have hlive : liveOf w'.img (initLay c).cat = [] := init_live_nil hsecF
  have hdesc : Describes w'.img c (initLay c) := by
    refine ⟨hc, hszF, by rw [hgv _ (by omega)]; exact ivT, by rw [hgv _ (by omega)]; exact ivS,
      by rw [hgv _ (by omega)]; exact ivP, ?_, catFrom_nodup _ _, by show (catFrom c (c - 1)).length < 100; rw [catFrom_length]; rcases hc with rfl | rfl <;> omega, ?_⟩
    · rw [hgv _ (by omega), hgv _ (by omega), iv1, iv2]
      exact catChain_init hszF hsecF (c - 1) (by rcases hc with rfl | rfl <;> omega) (by omega)
    · rw [hlive]; exact All2.nil
  have hvol : volOf w'.img c (initSys c) (initLay c) = initVol c := by
    unfold volOf initVol filesOf freeOf
    rw [hlive, hvtF, getD_quantize (by omega) (by omega), iv6]
    rfl
  refine ⟨w', ?_, ⟨hok', by rw [hcw]; exact hdesc, by rw [hcw, hvol]; exact initVol_wf c hc, ?_, ?_, ?_,
    by rw [hvw]; exact iv1, by rw [hvw]; unfold Vtoc.lastTrack; rw [iv30]; decide⟩, hcw, by rw [hcw]; exact hvol⟩
  · have hcond : ¬ (¬ (254 > 0 ∧ 254 < 255) ∨ ¬ (c = 13 ∨ c = 16 ∨ c = 32)) := by rcases hc with rfl | rfl <;> simp
    have hbc : (blank c).c = c := rfl
    unfold init
    rw [if_neg hcond, hbc, hzap]
    simp only
    unfold Disk.run
    simp only [hopen]
    rw [hw1]
    simp only [M.bind_apply, hwr, hrun]
  · rw [hlive]; intro e he; cases he
  · show catFrom c (c - 1) ≠ []
    intro e
    have := congrArg List.length e
    rw [catFrom_length] at this
    simp at this
    rcases hc with rfl | rfl <;> omega
  · intro s hs
    rw [hcw] at hs ⊢
    unfold initSys
    refine ⟨?_, ?_⟩
    · apply List.mem_cons_of_mem
      exact List.mem_append_right _ (List.mem_range.2 hs)
    · by_cases h0 : s = 0
      · subst h0; exact List.mem_cons_self
      · apply List.mem_cons_of_mem
        exact List.mem_append_left _ (mem_catFrom.2 ⟨s, by omega, by omega, rfl⟩)

end A2Verif.Fs.Dos3x
