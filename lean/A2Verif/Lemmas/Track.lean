import A2Verif.Model.Track
import A2Verif.Lemmas.Nibble
/-!
Lemmas about the circular bit track, for the head-relative list instance `Trk`:
bits → latch cells → pattern search → field writes.  A *cell* `(z, b)` is `z` zero bits followed by the
eight bits of a byte `b` with the high bit set (the zeros are the tail of the preceding 9/10-bit sync
byte).  Core Lean only.
-/
namespace A2Verif.Model.Track
open Head

/-! ## bits -/

@[simp] theorem next_cons (b : Bool) (rest : List Bool) (p : Nat) :
    (next (⟨b :: rest, p⟩ : Trk)) = (b, ⟨rest ++ [b], (p + 1) % (rest.length + 1)⟩) := rfl

theorem next_bits (t : Trk) (b : Bool) (rest : List Bool) (h : t.bits = b :: rest) :
    (next t).1 = b ∧ (next t).2.bits = rest ++ [b] := by
  cases t with
  | mk bits pos => simp only at h; subst h; exact ⟨rfl, rfl⟩

theorem put_bits (t : Trk) (x b : Bool) (rest : List Bool) (h : t.bits = b :: rest) :
    (put x t).bits = rest ++ [x] := by
  cases t with
  | mk bits pos => simp only at h; subst h; rfl

theorem len_eq (t : Trk) : len t = t.bits.length := rfl

/-- writing `xs` over the first `xs.length` bits moves them (new) to the back -/
theorem writeBits_bits (xs : List Bool) : ∀ (t : Trk) (old rest : List Bool), t.bits = old ++ rest →
    old.length = xs.length → (writeBits xs t).bits = rest ++ xs := by
  induction xs with
  | nil =>
    intro t old rest h hl
    have : old = [] := List.eq_nil_of_length_eq_zero (by simpa using hl)
    subst this
    simpa [writeBits] using h
  | cons x xs ih =>
    intro t old rest h hl
    rcases old with _ | ⟨o, old⟩
    · simp at hl
    · have hp := put_bits t x o (old ++ rest) (by simpa using h)
      simp only [writeBits]
      rw [ih (put x t) old (rest ++ [x]) (by rw [hp]; simp) (by simpa using hl)]
      simp

/-- reading `k` bits moves them to the back and folds them into the value -/
def foldVal (v : Nat) (bs : List Bool) : Nat := bs.foldl (fun v x => (v * 2 + (if x then 1 else 0)) % 256) v

theorem readVal_bits : ∀ (k v : Nat) (t : Trk) (bs rest : List Bool), t.bits = bs ++ rest → bs.length = k →
    (readVal k v t).1 = foldVal v bs ∧ (readVal k v t).2.bits = rest ++ bs := by
  intro k
  induction k with
  | zero =>
    intro v t bs rest h hl
    have : bs = [] := List.eq_nil_of_length_eq_zero hl
    subst this
    simp [readVal, foldVal] at h ⊢
    exact h
  | succ k ih =>
    intro v t bs rest h hl
    rcases bs with _ | ⟨b, bs⟩
    · simp at hl
    · obtain ⟨h1, h2⟩ := next_bits t b (bs ++ rest) (by simpa using h)
      simp only [readVal, h1]
      obtain ⟨r1, r2⟩ := ih ((v * 2 + (if b then 1 else 0)) % 256) (next t).2 bs (rest ++ [b]) (by rw [h2]; simp) (by simpa using hl)
      refine ⟨by rw [r1]; simp [foldVal], by rw [r2]; simp⟩

theorem skipZeros_bits : ∀ (z fuel : Nat) (t : Trk) (rest : List Bool), t.bits = List.replicate z false ++ true :: rest →
    z < fuel → (skipZeros fuel t).2.bits = rest ++ List.replicate z false ++ [true] := by
  intro z
  induction z with
  | zero =>
    intro fuel t rest h hf
    rcases fuel with _ | fuel
    · omega
    · obtain ⟨h1, h2⟩ := next_bits t true rest (by simpa using h)
      simp [skipZeros, h1, h2]
  | succ z ih =>
    intro fuel t rest h hf
    rcases fuel with _ | fuel
    · omega
    · obtain ⟨h1, h2⟩ := next_bits t false (List.replicate z false ++ true :: rest) (by simpa [List.replicate_succ] using h)
      simp only [skipZeros, h1]
      have := ih fuel (next t).2 (rest ++ [false]) (by rw [h2]; simp) (by omega)
      simp only [Bool.false_eq_true, if_false]
      rw [this]
      simp [List.replicate_succ]

/-! ## cells -/

abbrev Cell := Nat × Nat

def cellBits (c : Cell) : List Bool := List.replicate c.1 false ++ bitsOf c.2 8

def stream (cs : List Cell) : List Bool := (cs.map cellBits).flatten

def ValidCell (c : Cell) : Prop := 128 ≤ c.2 ∧ c.2 < 256

theorem stream_cons (c : Cell) (cs : List Cell) : stream (c :: cs) = cellBits c ++ stream cs := by
  simp [stream]

theorem stream_append (a b : List Cell) : stream (a ++ b) = stream a ++ stream b := by
  simp [stream]

set_option maxRecDepth 100000 in
theorem bits8_latch : ∀ b : Fin 256, 128 ≤ b.val →
    bitsOf b.val 8 = true :: (bitsOf b.val 8).tail ∧ foldVal 1 (bitsOf b.val 8).tail = b.val ∧
    (bitsOf b.val 8).length = 8 := by decide +kernel

/-- **Latch alignment.** With the head at a cell boundary the soft latch returns the byte of the next
cell and stops at the next boundary — whatever the (0, 1, 2 …) zero bits in front of the byte. -/
theorem readLatch1_cell (t : Trk) (c : Cell) (cs : List Cell) (hv : ValidCell c) (h : t.bits = stream (c :: cs)) :
    (readLatch1 t).1 = c.2 ∧ (readLatch1 t).2.bits = stream (cs ++ [c]) := by
  obtain ⟨b1, b2, b3⟩ := bits8_latch ⟨c.2, hv.2⟩ hv.1
  simp only at b1 b2 b3
  have hb : t.bits = List.replicate c.1 false ++ true :: ((bitsOf c.2 8).tail ++ stream cs) := by
    rw [h, stream_cons, cellBits, b1]; simp
  have hlen : c.1 < len t := by
    rw [len_eq, hb]; simp
  have hs := skipZeros_bits c.1 (len t) t _ hb hlen
  have htl : (bitsOf c.2 8).tail.length = 7 := by
    rw [List.length_tail, b3]
  obtain ⟨r1, r2⟩ := readVal_bits 7 1 (skipZeros (len t) t).2 (bitsOf c.2 8).tail
    (stream cs ++ List.replicate c.1 false ++ [true]) (by rw [hs]; simp) htl
  refine ⟨by simp only [readLatch1]; rw [r1, b2], ?_⟩
  simp only [readLatch1]
  rw [r2, stream_append, stream_cons, cellBits]
  conv => rhs; rw [b1]
  simp [stream]

/-- reading a run of cells through the latch returns their bytes and rotates the track by that run -/
theorem readLatchN_cells : ∀ (pre : List Cell) (t : Trk) (cs : List Cell), (∀ c ∈ pre, ValidCell c) →
    t.bits = stream (pre ++ cs) →
    (readLatchN pre.length t).1 = pre.map (·.2) ∧ (readLatchN pre.length t).2.bits = stream (cs ++ pre) := by
  intro pre
  induction pre with
  | nil => intro t cs _ h; simpa [readLatchN] using h
  | cons c pre ih =>
    intro t cs hv h
    obtain ⟨l1, l2⟩ := readLatch1_cell t c (pre ++ cs) (hv c (by simp)) (by simpa using h)
    obtain ⟨r1, r2⟩ := ih (readLatch1 t).2 (cs ++ [c]) (fun x hx => hv x (by simp [hx])) (by rw [l2]; simp)
    simp only [List.length_cons, readLatchN, List.map_cons]
    exact ⟨by rw [l1, r1], by rw [r2]; simp⟩


/-! ## the byte pattern search -/

/-- one step of the matcher of `find_byte_pattern`: new value of `matches` -/
def stepM (patt mask : List Nat) (m v : Nat) : Nat :=
  if v &&& mask.getD m 0 = patt.getD m 0 &&& mask.getD m 0 then m + 1 else 0

/-- the matcher run over bytes that do not complete the pattern: `some` final state, `none` = completed -/
def runM (patt mask : List Nat) : Nat → List Nat → Option Nat
  | m, [] => some m
  | m, v :: vs => if stepM patt mask m v = patt.length then none else runM patt mask (stepM patt mask m v) vs

theorem runM_append (patt mask : List Nat) : ∀ (a b : List Nat) (m m' : Nat), runM patt mask m a = some m' →
    runM patt mask m (a ++ b) = runM patt mask m' b := by
  intro a
  induction a with
  | nil => intro b m m' h; simp [runM] at h; subst h; rfl
  | cons v vs ih =>
    intro b m m' h
    simp only [runM] at h
    split at h
    · exact absurd h (by simp)
    · rename_i hne
      simp only [List.cons_append, runM, if_neg hne]
      exact ih b _ _ h

def capOk (cap : Option Nat) (k : Nat) : Prop := ∀ c, cap = some c → k ≤ c

theorem capped_false (cap : Option Nat) (tries : Nat) (h : capOk cap (tries + 1)) : capped cap tries = false := by
  cases cap with
  | none => rfl
  | some c0 => have := h c0 rfl; simp [capped]; omega

/-- the search walks over a run of cells whose bytes do not complete the pattern -/
theorem findPatLoop_advance (patt mask : List Nat) (cap : Option Nat) : ∀ (pre : List Cell) (fuel tries m m' : Nat)
    (t : Trk) (cs : List Cell), (∀ c ∈ pre, ValidCell c) → t.bits = stream (pre ++ cs) →
    runM patt mask m (pre.map (·.2)) = some m' → pre.length ≤ fuel → capOk cap (tries + pre.length) →
    ∃ t' : Trk, t'.bits = stream (cs ++ pre) ∧
      findPatLoop patt mask cap fuel tries m t = findPatLoop patt mask cap (fuel - pre.length) (tries + pre.length) m' t' := by
  intro pre
  induction pre with
  | nil =>
    intro fuel tries m m' t cs _ h hr _ _
    simp [runM] at hr; subst hr
    exact ⟨t, by simpa using h, by simp⟩
  | cons c pre ih =>
    intro fuel tries m m' t cs hv h hr hf hc
    rcases fuel with _ | fuel
    · simp at hf
    · obtain ⟨l1, l2⟩ := readLatch1_cell t c (pre ++ cs) (hv c (by simp)) (by simpa using h)
      simp only [List.map_cons, runM] at hr
      split at hr
      · exact absurd hr (by simp)
      · rename_i hne
        have hcap : capped cap tries = false := by
          apply capped_false
          intro c0 h0
          have := hc c0 h0
          simp only [List.length_cons] at this
          omega
        obtain ⟨t', ht', heq⟩ := ih fuel (tries + 1) (stepM patt mask m c.2) m' (readLatch1 t).2 (cs ++ [c])
          (fun x hx => hv x (by simp [hx])) (by rw [l2]; simp) hr (by simpa using hf)
          (by intro c0 h0; have := hc c0 h0; simp only [List.length_cons] at this; omega)
        refine ⟨t', by rw [ht']; simp, ?_⟩
        simp only [findPatLoop, hcap, Bool.false_eq_true, if_false, l1]
        have hstep : (if c.2 &&& mask.getD m 0 = patt.getD m 0 &&& mask.getD m 0 then m + 1 else 0) = stepM patt mask m c.2 := rfl
        rw [hstep, if_neg hne, heq]
        simp only [List.length_cons]
        congr 1 <;> omega

/-- the search stops behind the cell that completes the pattern -/
theorem findPatLoop_hit (patt mask : List Nat) (cap : Option Nat) (fuel tries m : Nat) (t : Trk) (c : Cell)
    (cs : List Cell) (hv : ValidCell c) (h : t.bits = stream (c :: cs)) (hs : stepM patt mask m c.2 = patt.length)
    (hc : capOk cap (tries + 1)) :
    (findPatLoop patt mask cap (fuel + 1) tries m t).1 = true ∧
    (findPatLoop patt mask cap (fuel + 1) tries m t).2.bits = stream (cs ++ [c]) := by
  obtain ⟨l1, l2⟩ := readLatch1_cell t c cs hv h
  have hcap : capped cap tries = false := capped_false cap tries hc
  have hstep : (if c.2 &&& mask.getD m 0 = patt.getD m 0 &&& mask.getD m 0 then m + 1 else 0) = stepM patt mask m c.2 := rfl
  simp only [findPatLoop, hcap, Bool.false_eq_true, if_false, l1, hstep, hs, if_true]
  exact ⟨trivial, l2⟩

/-- **Pattern search.** If the cells ahead are `pre ++ c :: cs`, the matcher runs over `pre` without
completing and `c` completes the pattern, `find_byte_pattern` succeeds with the head just behind `c`. -/
theorem findPat_hit (f : Fmt) (patt mask : List Nat) (cap : Option Nat) (t : Trk) (pre : List Cell) (c : Cell)
    (cs : List Cell) (m : Nat) (hp : patt.length ≠ 0) (hv : ∀ x ∈ pre ++ [c], ValidCell x)
    (h : t.bits = stream (pre ++ c :: cs)) (hr : runM patt mask 0 (pre.map (·.2)) = some m)
    (hs : stepM patt mask m c.2 = patt.length) (hf : pre.length + 1 ≤ f.maxTries) (hc : capOk cap (pre.length + 1)) :
    (findPat f patt mask cap t).1 = true ∧ (findPat f patt mask cap t).2.bits = stream (cs ++ pre ++ [c]) := by
  obtain ⟨t', ht', heq⟩ := findPatLoop_advance patt mask cap pre f.maxTries 0 0 m t (c :: cs)
    (fun x hx => hv x (by simp [hx])) h hr (by omega) (by intro c0 h0; have := hc c0 h0; omega)
  simp only [findPat, if_neg hp, heq]
  obtain ⟨k, hk⟩ : ∃ k, f.maxTries - pre.length = k + 1 := ⟨f.maxTries - pre.length - 1, by omega⟩
  rw [hk]
  obtain ⟨r1, r2⟩ := findPatLoop_hit patt mask cap k (0 + pre.length) m t' c (cs ++ pre) (hv c (by simp))
    (by rw [ht']; simp) hs (by intro c0 h0; have := hc c0 h0; omega)
  exact ⟨r1, by rw [r2]⟩

/-! ### which runs of bytes the three standard searches walk over -/

/-- with an all-ones mask a byte matches a pattern byte only if it is that byte -/
theorem and_ff_eq (v p : Nat) (hv : v < 256) (hp : p < 256) : (v &&& 0xff = p &&& 0xff) ↔ v = p := by
  have h8 : (0xff : Nat) = 2 ^ 8 - 1 := rfl
  rw [h8, Nat.and_two_pow_sub_one_eq_mod, Nat.and_two_pow_sub_one_eq_mod, Nat.mod_eq_of_lt hv, Nat.mod_eq_of_lt hp]

/-- a run of bytes without `D5` leaves a `D5 …` search (mask `FF FF FF`) in state 0 -/
theorem runM_quiet (x y : Nat) : ∀ (bs : List Nat), (∀ v ∈ bs, v < 256 ∧ v ≠ 0xd5) →
    runM [0xd5, x, y] proMask 0 bs = some 0 := by
  intro bs
  induction bs with
  | nil => intro _; rfl
  | cons v vs ih =>
    intro h
    have hv := h v (by simp)
    have hstep : stepM [0xd5, x, y] proMask 0 v = 0 := by
      simp only [stepM, proMask, List.getD_cons_zero]
      rw [if_neg]
      rw [and_ff_eq v 0xd5 hv.1 (by decide)]
      exact hv.2
    simp only [runM, hstep]
    exact ih (fun w hw => h w (by simp [hw]))

end A2Verif.Model.Track
