import A2Verif.Lemmas.FsProdosPath
/-!
# Steps of the model, whatever the buffer state

`Next d d' bm cnt raw' buf'`: the disk object `d'` is `d` with the image `raw'` and the effective buffer `buf'` (open or
closed).  The primitives that touch the bitmap are restated as `Next` steps, so that an operation can be followed from a
closed or an open buffer alike.  `flush_next`: `get_img()` writes the effective buffer into the image and closes the
buffer; on a closed buffer the image is unchanged (`wbRaw_bufOf`).
-/
namespace A2Verif.FsProdos
open A2Verif.Fs.Prodos

/-- `d'` is `d` with image `raw'` and effective buffer `buf'` -/
structure Next (d d' : Disk) (bm cnt : Nat) (raw' : Raw) (buf' : Array Nat) : Prop where
  st : St d' bm cnt
  raw : d'.raw = raw'
  eff : effBuf d' bm cnt = buf'
  total : d'.total = d.total
  src : d'.src = d.src

theorem Next.refl {d : Disk} {bm cnt : Nat} (h : St d bm cnt) : Next d d bm cnt d.raw (effBuf d bm cnt) :=
  ⟨h, rfl, rfl, rfl, rfl⟩

theorem Next.trans {d d1 d2 : Disk} {bm cnt : Nat} {r1 r2 : Raw} {b1 b2 : Array Nat}
    (h1 : Next d d1 bm cnt r1 b1) (h2 : Next d1 d2 bm cnt r2 b2) : Next d d2 bm cnt r2 b2 :=
  ⟨h2.st, h2.raw, h2.eff, h2.total.trans h1.total, h2.src.trans h1.src⟩

theorem mkD_congr (d d' : Disk) (raw : Raw) (buf : Array Nat) (bm cnt : Nat) (ht : d'.total = d.total) (hs : d'.src = d.src) :
    mkD d' raw buf bm cnt = mkD d raw buf bm cnt := by
  unfold mkD; rw [ht, hs]

/-- the open state with image `raw'` and buffer `buf'` is a `Next` state (the image must keep the bitmap pointer and the
bitmap blocks) -/
theorem Next.ofMk {d : Disk} {bm cnt : Nat} (h : St d bm cnt) (raw' : Raw) (buf' : Array Nat)
    (hhdr : ∃ kb, raw'.units[2]? = some kb ∧ le16 kb 39 = bm) (hex : ∀ i ∈ bmRange bm cnt, i < raw'.units.size) :
    Next d (mkD d raw' buf' bm cnt) bm cnt raw' buf' :=
  ⟨St.ofMk hhdr h.hcnt h.bm3 hex, rfl, rfl, rfl, rfl⟩

theorem St.next_same_raw {d : Disk} {bm cnt : Nat} (h : St d bm cnt) (buf' : Array Nat) :
    Next d (mkD d d.raw buf' bm cnt) bm cnt d.raw buf' :=
  Next.ofMk h d.raw buf' h.hdr h.exist

/-- `deallocate_block(i)` as a step -/
theorem deallocate_next {d : Disk} {bm cnt : Nat} (h : St d bm cnt) (i : Nat) (hi : i / 8 < (effBuf d bm cnt).size) :
    ∃ d', deallocate i d = (.ok (), d') ∧ Next d d' bm cnt d.raw (setBit (effBuf d bm cnt) i) :=
  ⟨_, deallocate_st h i hi, h.next_same_raw _⟩

/-- `allocate_block(i)` as a step -/
theorem allocate_next {d : Disk} {bm cnt : Nat} (h : St d bm cnt) (i : Nat) (hi : i / 8 < (effBuf d bm cnt).size) :
    ∃ d', allocate i d = (.ok (), d') ∧ Next d d' bm cnt d.raw (clearBit (effBuf d bm cnt) i) :=
  ⟨_, allocate_st h i hi, h.next_same_raw _⟩

/-- `write_block(data, i, 0)` as a step -/
theorem writeBlock_next {d : Disk} {bm cnt : Nat} (h : St d bm cnt) (data : Bytes) (i : Nat)
    (hi : i ∉ bmRange bm cnt) (hsz : i < d.raw.units.size) (hcov : i / 8 < (effBuf d bm cnt).size)
    (hhdr : i = 2 → le16 (quantize (data.take blockSize)) 39 = bm) :
    ∃ d', writeBlock data i 0 d = (.ok (), d') ∧
      Next d d' bm cnt (setUnit d.raw i (quantize (data.take blockSize))) (clearBit (effBuf d bm cnt) i) := by
  refine ⟨_, writeBlock_st h data i hi hsz hcov hhdr, ?_⟩
  have h1 := h.setUnit i (quantize (data.take blockSize)) hhdr
  exact Next.ofMk h _ _ h1.hdr h1.exist

/-! ## `get_img()` -/

/-- an image whose bitmap blocks are full blocks is its own write-back -/
theorem wbRaw_bufOf (r : Raw) (bm cnt : Nat) (hex : ∀ i ∈ bmRange bm cnt, i < r.units.size)
    (hlen : ∀ i ∈ bmRange bm cnt, (unitAt r i).length = blockSize) : wbRaw r bm cnt (bufOf r bm cnt) = r := by
  have hu : (wbRaw r bm cnt (bufOf r bm cnt)).units = r.units := by
    apply Array.ext_getElem?
    intro j
    exact wbRaw_bufOf_get r bm cnt hex hlen j
  have hl : ∀ (data : Bytes) (first : Nat) (is : List Nat) (x : Raw), (wbUnits data first is x).unitLen = x.unitLen := by
    intro data first is
    induction is with
    | nil => intro x; rfl
    | cons i is ih => intro x; rw [wbUnits, ih]; rfl
  cases hr : wbRaw r bm cnt (bufOf r bm cnt) with
  | mk ul us =>
    cases r with
    | mk ul' us' =>
      have h1 : ul = ul' := by
        have := hl (bufOf ⟨ul', us'⟩ bm cnt).toList bm (bmRange bm cnt) ⟨ul', us'⟩
        unfold wbRaw at hr
        rw [hr] at this; exact this
      have h2 : us = us' := by rw [hr] at hu; exact hu
      rw [h1, h2]

/-- **`get_img()` from either buffer state**: the image afterwards is the image with the effective buffer in the bitmap
blocks, the buffer is closed -/
theorem flush_next {d : Disk} {bm cnt : Nat} (h : St d bm cnt) (hsize : (effBuf d bm cnt).size = blockSize * cnt) (hpos : 0 < cnt)
    (hlen : ∀ i ∈ bmRange bm cnt, (unitAt d.raw i).length = blockSize) :
    ∃ d', d.flush = (.ok (), d') ∧ d'.raw = wbRaw d.raw bm cnt (effBuf d bm cnt) ∧ d'.bitmap = none ∧
      (d'.bitmapBlocks = [] ∨ d'.bitmapBlocks = bmRange bm cnt) ∧ d'.total = d.total ∧ d'.src = d.src := by
  rcases h.bb with ⟨hc, hb⟩ | ⟨b, hb, hbb⟩
  · refine ⟨d, flush_closed hc, ?_, hc, hb, rfl, rfl⟩
    have : effBuf d bm cnt = bufOf d.raw bm cnt := by unfold effBuf; rw [hc]
    rw [this, wbRaw_bufOf d.raw bm cnt h.exist hlen]
  · have he : effBuf d bm cnt = b := by unfold effBuf; rw [hb]
    rw [he] at hsize ⊢
    exact ⟨_, flush_open h hb hsize hpos, rfl, rfl, Or.inr hbb, rfl, rfl⟩

end A2Verif.FsProdos
