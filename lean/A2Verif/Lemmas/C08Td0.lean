import A2Verif.Lemmas.C09Td0
import A2Verif.Lemmas.C08Ring
import A2Verif.Model.C08Td0
/-!
TD0 sector access on tracks with flagged sectors and any data encoding, and the comment block at object level.
-/
namespace A2Verif.Lemmas.C08Td0
open A2Verif.Model.C09Td0 A2Verif.Model.C09Crc A2Verif.Model.C08Td0 A2Verif.Model.C08Ring A2Verif.Lemmas.C09Td0
open A2Verif.Lemmas.C08Ring A2Verif.Gen.Td0

/-- the ids of the sector records in rotation order -/
def ids (t : TrackSt) : List Nat := t.trk.sectors.map (·.id)

/-- the state with the head on record `q` -/
def on (t : TrackSt) (q : Nat) : TrackSt := { t with headPos := q }

@[simp] theorem on_trk (t : TrackSt) (q : Nat) : (on t q).trk = t.trk := rfl
@[simp] theorem on_headPos (t : TrackSt) (q : Nat) : (on t q).headPos = q := rfl
@[simp] theorem on_on (t : TrackSt) (p q : Nat) : on (on t p) q = on t q := rfl
theorem on_self (t : TrackSt) : on t t.headPos = t := by cases t; rfl
@[simp] theorem ids_on (t : TrackSt) (q : Nat) : ids (on t q) = ids t := rfl
@[simp] theorem ids_length (t : TrackSt) : (ids t).length = t.trk.sectors.length := by simp [ids]

/-- the search loop is the rotating-head search on the list of ids -/
theorem seek_eq (t : TrackSt) (hn : 0 < t.trk.sectors.length) (sec k : Nat) :
    seek sec k t =
      match ringSeek (ids t) sec k t.headPos with
      | (some i, _) => .found (on t i)
      | (none, q) => .notFound (on t q) := by
  induction k generalizing t with
  | zero => simp [seek, ringSeek, on_self]
  | succ k ih =>
    have hq := nextPos_lt t.trk.sectors.length t.headPos hn
    have hadv : advSector t = on t (nextPos t.trk.sectors.length t.headPos) := rfl
    simp only [seek, hadv, ringSeek, ids_length, on_trk, on_headPos]
    rw [List.getElem?_eq_getElem hq]
    have hid : (ids t)[nextPos t.trk.sectors.length t.headPos]? = some (t.trk.sectors[nextPos t.trk.sectors.length t.headPos]).id := by
      simp [ids, List.getElem?_eq_getElem hq]
    rw [hid]
    by_cases he : sec = (t.trk.sectors[nextPos t.trk.sectors.length t.headPos]).id
    · have : some (t.trk.sectors[nextPos t.trk.sectors.length t.headPos]).id = some sec := by rw [he]
      simp only [if_pos he, if_pos this]
    · have : ¬ (some (t.trk.sectors[nextPos t.trk.sectors.length t.headPos]).id = some sec) := by
        intro hc; exact he (Option.some.inj hc).symm
      simp only [if_neg he, if_neg this]
      rw [ih (on t (nextPos t.trk.sectors.length t.headPos)) hn]
      simp only [ids_on, on_headPos, on_on]

/-- the flags after `pack`: the no-data bits are gone -/
def packedFlags (f : Nat) : Nat := if f &&& NO_DATA_MASK > 0 then f &&& (NO_DATA_MASK ^^^ 255) else f

theorem packedFlags_clear (f : Nat) : packedFlags f &&& NO_DATA_MASK = 0 := by
  unfold packedFlags
  split
  · rw [Nat.and_assoc]
    have : (NO_DATA_MASK ^^^ 255) &&& NO_DATA_MASK = 0 := by decide
    rw [this]; simp
  · omega

/-- `pack` accepts every quantized buffer and `unpack` returns it -/
theorem pack_quantized (shift : Nat) (hs : shift ≤ 6) (dat : List Nat) :
    ∃ rec, pack shift (quantize dat (secSize shift)) = some rec ∧ unpack shift rec = some (quantize dat (secSize shift)) := by
  have h := unpack_pack shift hs (quantize dat (secSize shift)) (quantize_length _ _)
  cases hp : pack shift (quantize dat (secSize shift)) with
  | none => simp [hp] at h
  | some rec => exact ⟨rec, rfl, by simpa [hp] using h⟩

/-- `read_sector` with the head found on record `i` -/
theorem read_at (t : TrackSt) (i : Nat) (hi : i < t.trk.sectors.length) (sec : Nat)
    (hs : seek sec t.trk.sectors.length t = .found (on t i)) :
    readTrack t sec = (match unpackSector t.trk.sectors[i] with | some d => .ok d | none => .err, on t i) := by
  simp only [readTrack, hs, on_trk, on_headPos, List.getElem?_eq_getElem hi]
  by_cases hf : t.trk.sectors[i].flags &&& NO_DATA_MASK = 0
  · simp only [hf, if_true]
    cases unpackSector t.trk.sectors[i] <;> rfl
  · have hu : unpackSector t.trk.sectors[i] = none := by
      simp only [unpackSector]; rw [if_pos (by omega)]
    simp only [hf, if_false, hu]

/-- the record after a write: header kept, no-data flags dropped, new data block -/
def written (s : Sector) (rec : List Nat) : Sector :=
  let f := packedFlags s.flags
  { s with flags := f, data := rec }

/-- the track after a write to record `i` -/
def setSector (t : TrackSt) (i : Nat) (s' : Sector) : TrackSt :=
  let ss := t.trk.sectors.set i s'
  let trk' : Track := { t.trk with sectors := ss }
  { trk := trk', headPos := i }

/-- `write_sector` with the head found on record `i`: the record is replaced whatever its flags and encoding were -/
theorem write_at (t : TrackSt) (i : Nat) (hi : i < t.trk.sectors.length) (sec : Nat) (dat : List Nat)
    (hsh : t.trk.sectors[i].shift ≤ 6)
    (hs : seek sec t.trk.sectors.length t = .found (on t i)) :
    ∃ rec, pack t.trk.sectors[i].shift (quantize dat (secSize t.trk.sectors[i].shift)) = some rec ∧
      unpack t.trk.sectors[i].shift rec = some (quantize dat (secSize t.trk.sectors[i].shift)) ∧
      writeTrack t sec dat = (.ok (), setSector t i (written t.trk.sectors[i] rec)) := by
  obtain ⟨rec, hp, hu⟩ := pack_quantized t.trk.sectors[i].shift hsh dat
  refine ⟨rec, hp, hu, ?_⟩
  simp only [writeTrack, hs, on_trk, on_headPos, List.getElem?_eq_getElem hi, packSector, hp, packedFlags, setSector, written]

/-! the comment block -/

theorem replCRLF_mem (z : Nat) (t : List Nat) : ∀ b ∈ replCRLF z t, b ∈ t ∨ b = z := by
  induction t using replCRLF.induct with
  | case1 => simp [replCRLF]
  | case2 b => simp [replCRLF]
  | case3 a b r hab ih =>
    intro x hx
    simp only [replCRLF, if_pos hab, List.mem_cons] at hx
    rcases hx with h | h
    · exact Or.inr h
    · rcases ih x h with h' | h'
      · exact Or.inl (by simp [h'])
      · exact Or.inr h'
  | case4 a b r hab ih =>
    intro x hx
    simp only [replCRLF, if_neg hab, List.mem_cons] at hx
    rcases hx with h | h
    · exact Or.inl (by simp [h])
    · rcases ih x h with h' | h'
      · exact Or.inl (by simp only [List.mem_cons] at h' ⊢; exact Or.inr h')
      · exact Or.inr h'

theorem replCRLF_length_le (z : Nat) (t : List Nat) : (replCRLF z t).length ≤ t.length := by
  induction t using replCRLF.induct with
  | case1 => simp [replCRLF]
  | case2 b => simp [replCRLF]
  | case3 a b r hab ih => simp only [replCRLF, if_pos hab, List.length_cons]; omega
  | case4 a b r hab ih => simp only [replCRLF, if_neg hab, List.length_cons] at *; omega

theorem replCRLF_length_lt (z : Nat) (t : List Nat) (h : noCRLF t = false) : (replCRLF z t).length < t.length := by
  induction t using replCRLF.induct with
  | case1 => simp [noCRLF] at h
  | case2 b => simp [noCRLF] at h
  | case3 a b r hab ih =>
    have := replCRLF_length_le z r
    simp only [replCRLF, if_pos hab, List.length_cons]; omega
  | case4 a b r hab ih =>
    have hn : noCRLF (b :: r) = false := by
      simp only [noCRLF, Bool.and_eq_false_iff, Bool.not_eq_false', Bool.and_eq_true, beq_iff_eq] at h
      rcases h with h | h
      · exact absurd h hab
      · exact h
    have := ih hn
    simp only [replCRLF, if_neg hab, List.length_cons] at *; omega

/-- `normalize_notes` reaches its fixpoint: no CR LF pair is left, and no byte appears that was not there (but LF) -/
theorem normLoop_spec (f : Nat) (t : List Nat) (hf : t.length ≤ f) :
    noCRLF (normLoop f t) = true ∧ ∀ b ∈ normLoop f t, b ∈ t ∨ b = 10 := by
  induction f generalizing t with
  | zero =>
    have : t = [] := List.eq_nil_of_length_eq_zero (by omega)
    subst this
    simp [normLoop, noCRLF]
  | succ f ih =>
    simp only [normLoop]
    by_cases hc : noCRLF t = true
    · simp only [hc, if_true]
      exact ⟨trivial, fun b hb => Or.inl hb⟩
    · have hc' : noCRLF t = false := by simpa using hc
      simp only [hc', Bool.false_eq_true, if_false]
      have hlt := replCRLF_length_lt 10 t hc'
      obtain ⟨h1, h2⟩ := ih (replCRLF 10 t) (by omega)
      refine ⟨h1, fun b hb => ?_⟩
      rcases h2 b hb with h | h
      · exact replCRLF_mem 10 t b h
      · exact Or.inr h

theorem normalizeNotes_spec (v : List Nat) (h0 : 0 ∉ v) :
    noCRLF (normalizeNotes v) = true ∧ ∀ b ∈ normalizeNotes v, b ≠ 0 := by
  obtain ⟨h1, h2⟩ := normLoop_spec v.length v (Nat.le_refl _)
  refine ⟨h1, fun b hb hz => ?_⟩
  rcases h2 b hb with h | h
  · subst hz; exact h0 h
  · omega

/-- `to_bytes` as written is the serialisation of the C09 container model, and what it leaves in the object is
the canonical comment header -/
theorem saveImg_bytes (x : Image) : (saveImg x).1 = toBytesNormal x := by
  simp only [saveImg, toBytesNormal, head10, commentBody]
  cases x.comment <;> simp [refreshComment]

theorem saveImg_obj (x : Image) :
    (saveImg x).2 = { canon x with tracks := x.tracks } := by
  simp only [saveImg, canon, head10, commentBody]
  cases x.comment <;> simp [refreshComment]

/-! what `from_bytes` accepts is well formed -/

theorem readSectors_wf (n : Nat) (bs : List Nat) (ss : List Sector) (rest : List Nat)
    (h : readSectors n bs = some (ss, rest)) : ss.length = n ∧ ∀ s ∈ ss, SectorWf s := by
  fun_induction readSectors n bs generalizing ss rest with
  | case1 bytes =>
    simp only [Option.some.injEq, Prod.mk.injEq] at h
    obtain ⟨rfl, _⟩ := h
    simp
  | case2 n c hh i sh fl crc r hsh => simp at h
  | case3 n c hh i sh fl crc hsh hfl l0 l1 r2 len hlen => simp at h
  | case4 n c hh i sh fl crc hsh hfl l0 l1 r2 len hlen ss' rest' hr ih =>
    simp only [Option.some.injEq, Prod.mk.injEq] at h
    obtain ⟨rfl, rfl⟩ := h
    obtain ⟨h1, h2⟩ := ih ss' rest' hr
    refine ⟨by simp [h1], ?_⟩
    intro s hs
    simp only [List.mem_cons] at hs
    rcases hs with rfl | hs
    · refine ⟨by simp only; omega, Or.inr ⟨hfl, l0, l1, r2.take len, rfl, ?_⟩⟩
      simp only [List.length_take, len]; omega
    · exact h2 s hs
  | case5 n c hh i sh fl crc hsh hfl l0 l1 r2 len hlen hr => simp at h
  | case6 n c hh i sh fl crc r hsh hfl hx => simp at h
  | case7 n c hh i sh fl crc r hsh hfl ss' rest' hr ih =>
    simp only [Option.some.injEq, Prod.mk.injEq] at h
    obtain ⟨rfl, rfl⟩ := h
    obtain ⟨h1, h2⟩ := ih ss' rest' hr
    refine ⟨by simp [h1], ?_⟩
    intro s hs
    simp only [List.mem_cons] at hs
    rcases hs with rfl | hs
    · exact ⟨by simp only; omega, Or.inl ⟨hfl, rfl⟩⟩
    · exact h2 s hs
  | case8 n c hh i sh fl crc r hsh hfl hr => simp at h
  | case9 n bytes hx => simp at h

theorem readTracks_wf (fuel : Nat) (bs : List Nat) (ts : List Track) (h : readTracks fuel bs = some ts) :
    ∀ t ∈ ts, TrackWf t := by
  induction fuel generalizing bs ts with
  | zero => simp [readTracks] at h
  | succ f ih =>
    unfold readTracks at h
    split at h
    · simp only [Option.some.injEq] at h; subst h; simp
    · rename_i b tl
      split at h
      · simp only [Option.some.injEq] at h; subst h; simp
      · rename_i hb
        split at h
        · rename_i n c hd crc r heq
          split at h
          · rename_i ss rest hrs
            split at h
            · rename_i ts' hrt
              simp only [Option.some.injEq] at h
              subst h
              intro t ht
              simp only [List.mem_cons] at ht
              rcases ht with rfl | ht
              · obtain ⟨h1, h2⟩ := readSectors_wf _ _ _ _ hrs
                have hn : n = b := by
                  have := congrArg List.head? heq
                  simp at this
                  exact this.symm
                exact ⟨h1.symm, by simp only; rw [hn]; exact hb, h2⟩
              · exact ih _ _ hrt t ht
            · simp at h
          · simp at h
        · simp at h

/-- the notes of a loaded file never contain a NUL or a CR LF pair, whatever bytes (and whatever the lossy UTF-8 conversion
made of them) the file held -/
theorem decodeText_spec (e : List Nat) : noCRLF (decodeText e) = true ∧ ∀ b ∈ decodeText e, b ≠ 0 := by
  apply normalizeNotes_spec
  intro h0
  simp only [List.mem_map] at h0
  obtain ⟨a, _, ha⟩ := h0
  by_cases hz : a = 0
  · simp [hz] at ha
  · simp [hz] at ha

theorem clipEnd_le (t : List Nat) (n : Nat) : clipEnd t n ≤ n := by
  induction n with
  | zero => simp [clipEnd]
  | succ n ih => simp only [clipEnd]; split <;> omega

theorem clipNotes_length (limit : Nat) (t : List Nat) : (clipNotes limit t).length ≤ limit := by
  unfold clipNotes
  split
  · have := clipEnd_le t limit
    simp only [List.length_take]; omega
  · omega

theorem noCRLF_take (t : List Nat) (n : Nat) (h : noCRLF t = true) : noCRLF (t.take n) = true := by
  induction t using noCRLF.induct generalizing n with
  | case1 => simp [noCRLF]
  | case2 a => cases n <;> simp [noCRLF]
  | case3 a b r ih =>
    simp only [noCRLF, Bool.and_eq_true, Bool.not_eq_eq_eq_not, Bool.not_true] at h
    match n with
    | 0 => simp [noCRLF]
    | 1 => simp [noCRLF]
    | n + 2 =>
      have := ih (n + 1) h.2
      simp only [List.take_succ_cons] at this ⊢
      simp only [noCRLF, Bool.and_eq_true, Bool.not_eq_eq_eq_not, Bool.not_true]
      exact ⟨h.1, this⟩

theorem clipNotes_spec (limit : Nat) (t : List Nat) (hc : noCRLF t = true) (h0 : ∀ b ∈ t, b ≠ 0) :
    noCRLF (clipNotes limit t) = true ∧ ∀ b ∈ clipNotes limit t, b ≠ 0 := by
  unfold clipNotes
  split
  · exact ⟨noCRLF_take t _ hc, fun b hb => h0 b (List.mem_of_mem_take hb)⟩
  · exact ⟨hc, h0⟩

/-- without a CR LF pair the stored form has the length of the notes (every LF becomes one NUL) -/
theorem encodeText_length (t : List Nat) (hc : noCRLF t = true) : (encodeText t).length = t.length := by
  simp [encodeText, replCRLF_id 0 t hc]

end A2Verif.Lemmas.C08Td0
