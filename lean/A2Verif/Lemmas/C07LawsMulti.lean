import A2Verif.Model.AddrMap
import A2Verif.Lemmas.C07Laws
/-!
# C07 store laws of an image made of track records (IMD, TD0): from per-track laws to the whole image

`Imd::read_sector` / `Td0::read_sector` first select the track (`get_track_mut`: the FIRST track whose cylinder and
masked head match), then run the per-track search.  `multiStore` is that composition over any per-track operations;
`multi_laws`: if every track satisfies the per-track laws (`TrkLaws`, the form of `C08.imd_read_after_write_and_frame` /
`td0_read_after_write_and_frame`) with respect to its record of the geometry `g`, and no two records of `g` share
(cylinder, head), the image satisfies `SecLaws` — reads and writes on one track never change what another track returns.
-/
namespace A2Verif.C07All
open A2Verif.Model.AddrMap (TrackRec)

/-- physical sectors of a geometry: some record has this cylinder, head and sector id -/
def validG (g : List TrackRec) (a : CHS) : Bool :=
  g.any fun r => decide (r.cyl = a.1) && decide (r.head = a.2.1) && r.ids.contains a.2.2

/-- no two track records for the same (cylinder, head) -/
def GeomOk (g : List TrackRec) : Prop := (g.map fun r => (r.cyl, r.head)).Nodup

theorem validG_spec (g : List TrackRec) (c h s : Nat) :
    validG g (c, h, s) = true ↔ ∃ i, ∃ hi : i < g.length, g[i].cyl = c ∧ g[i].head = h ∧ s ∈ g[i].ids := by
  simp only [validG, List.any_eq_true, Bool.and_eq_true, decide_eq_true_eq, List.contains_iff_mem]
  constructor
  · rintro ⟨r, hr, ⟨h1, h2⟩, h3⟩
    obtain ⟨i, hi, rfl⟩ := List.getElem_of_mem hr
    exact ⟨i, hi, h1, h2, h3⟩
  · rintro ⟨i, hi, h1, h2, h3⟩
    exact ⟨g[i], List.getElem_mem hi, ⟨h1, h2⟩, h3⟩

theorem geom_index (g : List TrackRec) (hg : GeomOk g) (i j : Nat) (hi : i < g.length) (hj : j < g.length)
    (hc : g[i].cyl = g[j].cyl) (hh : g[i].head = g[j].head) : i = j := by
  have hp := List.pairwise_iff_getElem.1 hg
  rcases Nat.lt_trichotomy i j with h | h | h
  · exact absurd (by rw [List.getElem_map, List.getElem_map, hc, hh]) (hp i j (by simpa using hi) (by simpa using hj) h)
  · exact h
  · exact absurd (by rw [List.getElem_map, List.getElem_map, hc, hh]) (hp j i (by simpa using hj) (by simpa using hi) h)

theorem getElem_of_eq' {α : Type} {l l' : List α} (h : l = l') (i : Nat) (hi : i < l.length) :
    l[i] = l'[i]'(h ▸ hi) := by subst h; rfl

/-- per-track operations and how the image selects a track -/
structure Multi (St T : Type) where
  get : St → List T
  put : St → List T → St
  key : T → Nat × Nat
  find : List T → Nat → Nat → Option Nat
  rdT : T → Nat → Option (List Nat) × T
  wrT : T → Nat → List Nat → Bool × T

structure MultiOk {St T : Type} (M : Multi St T) : Prop where
  get_put : ∀ s ts, M.get (M.put s ts) = ts
  find_first : ∀ (ts : List T) (i : Nat) (hi : i < ts.length),
    (∀ j (hj : j < i), M.key (ts[j]'(Nat.lt_trans hj hi)) ≠ M.key ts[i]) → M.find ts (M.key ts[i]).1 (M.key ts[i]).2 = some i
  find_some : ∀ (ts : List T) (c h i : Nat), M.find ts c h = some i → ∃ hi : i < ts.length, M.key ts[i] = (c, h)

/-- per-track laws with respect to a geometry record -/
structure TrkLaws {St T : Type} (M : Multi St T) (TInv : TrackRec → T → Prop) : Prop where
  key_eq : ∀ r t, TInv r t → M.key t = (r.cyl, r.head)
  rd_ok : ∀ r t s, TInv r t → s ∈ r.ids →
    ∃ d t', M.rdT t s = (some d, t') ∧ d.length = 128 * 2 ^ r.shift ∧ TInv r t' ∧
      ∀ s', s' ∈ r.ids → (M.rdT t' s').1 = (M.rdT t s').1
  wr_ok : ∀ r t s d, Bytes d → TInv r t → s ∈ r.ids →
    ∃ t', M.wrT t s d = (true, t') ∧ TInv r t' ∧ (M.rdT t' s).1 = some (pad d (128 * 2 ^ r.shift)) ∧
      ∀ s', s' ∈ r.ids → s' ≠ s → (M.rdT t' s').1 = (M.rdT t s').1
  bad : ∀ r t s d, TInv r t → s ∉ r.ids →
    (∃ t', M.rdT t s = (none, t') ∧ TInv r t' ∧ ∀ s', s' ∈ r.ids → (M.rdT t' s').1 = (M.rdT t s').1) ∧
    (∃ t', M.wrT t s d = (false, t') ∧ TInv r t' ∧ ∀ s', s' ∈ r.ids → (M.rdT t' s').1 = (M.rdT t s').1)

/-- the image invariant: one track per geometry record, each satisfying its invariant -/
def MInv {St T : Type} (M : Multi St T) (TInv : TrackRec → T → Prop) (g : List TrackRec) (s : St) : Prop :=
  (M.get s).length = g.length ∧ ∀ i (hi : i < g.length) (hj : i < (M.get s).length), TInv g[i] (M.get s)[i]

/-- `read_sector` / `write_sector` of the image object: `get_track_mut`, then the track routine -/
def multiStore {St T : Type} (M : Multi St T) (TInv : TrackRec → T → Prop) (g : List TrackRec) (u : CHS → Nat) : SecStore where
  St := St
  Inv := MInv M TInv g
  valid := validG g
  unit := u
  rd := fun s a =>
    match M.find (M.get s) a.1 a.2.1 with
    | none => (none, s)
    | some i =>
      match (M.get s)[i]? with
      | none => (none, s)
      | some t => ((M.rdT t a.2.2).1, M.put s ((M.get s).set i (M.rdT t a.2.2).2))
  wr := fun s a d =>
    match M.find (M.get s) a.1 a.2.1 with
    | none => (false, s)
    | some i =>
      match (M.get s)[i]? with
      | none => (false, s)
      | some t => ((M.wrT t a.2.2 d).1, M.put s ((M.get s).set i (M.wrT t a.2.2 d).2))

section
variable {St T : Type} (M : Multi St T) (TInv : TrackRec → T → Prop) (g : List TrackRec) (u : CHS → Nat)
  (hM : MultiOk M) (L : TrkLaws M TInv) (hg : GeomOk g)
include hM L hg

theorem minv_find (s : St) (hI : MInv M TInv g s) (i : Nat) (hi : i < g.length) :
    M.find (M.get s) g[i].cyl g[i].head = some i ∧ ∃ hj : i < (M.get s).length, TInv g[i] (M.get s)[i] := by
  have hj : i < (M.get s).length := by rw [hI.1]; exact hi
  have hk := L.key_eq _ _ (hI.2 i hi hj)
  have := hM.find_first (M.get s) i hj (by
    intro j hji hke
    have hjg : j < g.length := Nat.lt_trans hji hi
    have hkj := L.key_eq _ _ (hI.2 j hjg (Nat.lt_trans hji hj))
    rw [hkj, hk] at hke
    have := geom_index g hg j i hjg hi (congrArg Prod.fst hke) (congrArg Prod.snd hke)
    omega)
  rw [hk] at this
  exact ⟨this, hj, hI.2 i hi hj⟩

theorem minv_set (s : St) (hI : MInv M TInv g s) (i : Nat) (hi : i < g.length) (t' : T) (ht : TInv g[i] t') :
    MInv M TInv g (M.put s ((M.get s).set i t')) := by
  refine ⟨by rw [hM.get_put, List.length_set]; exact hI.1, ?_⟩
  intro k hk hkj
  simp only [hM.get_put] at hkj ⊢
  rw [List.getElem_set]
  split
  · rename_i h; subst h; exact ht
  · exact hI.2 k hk (by simpa using hkj)

/-- what a read at a located address returns -/
theorem multi_rd_at (s : St) (hI : MInv M TInv g s) (i : Nat) (hi : i < g.length) (sec : Nat) (hj : i < (M.get s).length) :
    (multiStore M TInv g u).rd s (g[i].cyl, g[i].head, sec) =
      ((M.rdT (M.get s)[i] sec).1, M.put s ((M.get s).set i (M.rdT (M.get s)[i] sec).2)) := by
  have hf := (minv_find M TInv g hM L hg s hI i hi).1
  simp only [multiStore, hf, List.getElem?_eq_getElem hj]

theorem multi_wr_at (s : St) (hI : MInv M TInv g s) (i : Nat) (hi : i < g.length) (sec : Nat) (d : List Nat)
    (hj : i < (M.get s).length) :
    (multiStore M TInv g u).wr s (g[i].cyl, g[i].head, sec) d =
      ((M.wrT (M.get s)[i] sec d).1, M.put s ((M.get s).set i (M.wrT (M.get s)[i] sec d).2)) := by
  have hf := (minv_find M TInv g hM L hg s hI i hi).1
  simp only [multiStore, hf, List.getElem?_eq_getElem hj]

/-- replacing track `i` by a track that returns the same reads changes no read of the image -/
theorem multi_frame (s : St) (hI : MInv M TInv g s) (i : Nat) (hi : i < g.length) (hj : i < (M.get s).length) (t' : T)
    (ht : TInv g[i] t') (b : CHS) (hb : validG g b = true)
    (hsame : (b.1, b.2.1) = (g[i].cyl, g[i].head) → b.2.2 ∈ g[i].ids → (M.rdT t' b.2.2).1 = (M.rdT (M.get s)[i] b.2.2).1) :
    ((multiStore M TInv g u).rd (M.put s ((M.get s).set i t')) b).1 = ((multiStore M TInv g u).rd s b).1 := by
  obtain ⟨c, h, sec⟩ := b
  obtain ⟨k, hk, hc, hh, hs⟩ := (validG_spec g c h sec).1 hb
  subst hc; subst hh
  have hI' := minv_set M TInv g hM L hg s hI i hi t' ht
  have hkj : k < (M.get s).length := by rw [hI.1]; exact hk
  have hkj' : k < (M.get (M.put s ((M.get s).set i t'))).length := by rw [hI'.1]; exact hk
  rw [multi_rd_at M TInv g u hM L hg _ hI' k hk sec hkj', multi_rd_at M TInv g u hM L hg s hI k hk sec hkj]
  show (M.rdT (M.get (M.put s ((M.get s).set i t')))[k] sec).1 = (M.rdT (M.get s)[k] sec).1
  rw [getElem_of_eq' (hM.get_put s ((M.get s).set i t')) k hkj', List.getElem_set]
  split
  · rename_i hik; subst hik; exact hsame rfl hs
  · rfl

theorem multi_laws (hu : ∀ i (hi : i < g.length) (sec : Nat), u (g[i].cyl, g[i].head, sec) = 128 * 2 ^ g[i].shift) :
    SecLaws (multiStore M TInv g u) where
  rd_valid := by
    intro s a hI hv
    obtain ⟨c, h, sec⟩ := a
    obtain ⟨i, hi, hc, hh, hs⟩ := (validG_spec g c h sec).1 hv
    subst hc; subst hh
    obtain ⟨_, hj, hT⟩ := minv_find M TInv g hM L hg s hI i hi
    obtain ⟨d, t', e, hl, hT', hf⟩ := L.rd_ok _ _ sec hT hs
    refine ⟨d, M.put s ((M.get s).set i t'), ?_, by rw [hl]; exact (hu i hi sec).symm,
      minv_set M TInv g hM L hg s hI i hi t' hT', ?_⟩
    · simp only [multi_rd_at M TInv g u hM L hg s hI i hi sec hj, e] <;> rfl
    · intro b hb
      exact multi_frame M TInv g u hM L hg s hI i hi hj t' hT' b hb (fun _ hs' => hf _ hs')
  wr_valid := by
    intro s a d hbd hI hv
    obtain ⟨c, h, sec⟩ := a
    obtain ⟨i, hi, hc, hh, hs⟩ := (validG_spec g c h sec).1 hv
    subst hc; subst hh
    obtain ⟨_, hj, hT⟩ := minv_find M TInv g hM L hg s hI i hi
    obtain ⟨t', e, hT', hr, hf⟩ := L.wr_ok _ _ sec d hbd hT hs
    have hI' := minv_set M TInv g hM L hg s hI i hi t' hT'
    refine ⟨M.put s ((M.get s).set i t'), ?_, hI', ?_, ?_⟩
    · simp only [multi_wr_at M TInv g u hM L hg s hI i hi sec d hj, e] <;> rfl
    · have hj' : i < (M.get (M.put s ((M.get s).set i t'))).length := by rw [hI'.1]; exact hi
      rw [multi_rd_at M TInv g u hM L hg _ hI' i hi sec hj']
      show (M.rdT (M.get (M.put s ((M.get s).set i t')))[i] sec).1 = some (pad d (u (g[i].cyl, g[i].head, sec)))
      rw [getElem_of_eq' (hM.get_put s ((M.get s).set i t')) i hj', List.getElem_set_self, hr, hu i hi sec]
    · intro b hb hne
      apply multi_frame M TInv g u hM L hg s hI i hi hj t' hT' b hb
      intro hk hs'
      apply hf _ hs'
      intro heq
      apply hne
      obtain ⟨c', h', s'⟩ := b
      simp only [Prod.mk.injEq] at hk
      simp only at heq
      rw [hk.1, hk.2, heq]
  refused := by
    intro s a d hI hv
    obtain ⟨c, h, sec⟩ := a
    have hvv : validG g (c, h, sec) = false := hv
    cases hfd : M.find (M.get s) c h with
    | none =>
      exact ⟨⟨s, by simp [multiStore, hfd], hI, fun _ _ => rfl⟩, ⟨s, by simp [multiStore, hfd], hI, fun _ _ => rfl⟩⟩
    | some i =>
      obtain ⟨hj, hk⟩ := hM.find_some _ _ _ _ hfd
      have hi : i < g.length := by rw [← hI.1]; exact hj
      have hT := hI.2 i hi hj
      have hkey := L.key_eq _ _ hT
      rw [hkey] at hk
      have hc : g[i].cyl = c := congrArg Prod.fst hk
      have hh : g[i].head = h := congrArg Prod.snd hk
      have hns : sec ∉ g[i].ids := by
        intro hs
        have := (validG_spec g c h sec).2 ⟨i, hi, hc, hh, hs⟩
        rw [hvv] at this; cases this
      obtain ⟨⟨t1, e1, hT1, f1⟩, ⟨t2, e2, hT2, f2⟩⟩ := L.bad _ _ sec d hT hns
      subst hc; subst hh
      refine ⟨⟨M.put s ((M.get s).set i t1), ?_, minv_set M TInv g hM L hg s hI i hi t1 hT1, ?_⟩,
              ⟨M.put s ((M.get s).set i t2), ?_, minv_set M TInv g hM L hg s hI i hi t2 hT2, ?_⟩⟩
      · simp only [multi_rd_at M TInv g u hM L hg s hI i hi sec hj, e1] <;> rfl
      · intro b hb
        exact multi_frame M TInv g u hM L hg s hI i hi hj t1 hT1 b hb (fun _ hs' => f1 _ hs')
      · simp only [multi_wr_at M TInv g u hM L hg s hI i hi sec d hj, e2] <;> rfl
      · intro b hb
        exact multi_frame M TInv g u hM L hg s hI i hi hj t2 hT2 b hb (fun _ hs' => f2 _ hs')
end

end A2Verif.C07All
