import A2Verif.Lemmas.FsDosAlloc
/-!
# `put`, part A: general sector writes, the directory-slot search, reserving a sector in the buffer

Core Lean only.
-/
set_option linter.unusedSimpArgs false
namespace A2Verif.Fs.Dos3x
open A2Verif.FsDos A2Verif.Read.Dos3x

/-! ## sector writes with arbitrary data and a changing buffer -/

theorem quantize_take_min (d : Bytes) (n : Nat) (hn : n = 256) : quantize (d.take (min d.length n)) = quantize d := by
  subst hn
  unfold quantize sectorSize
  by_cases h : d.length ≤ 256
  · rw [Nat.min_eq_left h, List.take_of_length_le (Nat.le_refl _)]
  · have h' : 256 ≤ d.length := by omega
    rw [Nat.min_eq_right h', List.take_take, Nat.min_self, List.length_take, Nat.min_eq_left h']
    have : 256 - d.length = 0 := by omega
    rw [this]

theorem writeSectorM_gen {w : W} (h : WOk w) {t s : Nat} (data : Bytes) (ht : t < 35) (hs : s < w.c)
    (hne : ¬ (t = vtocTrack ∧ s = 0)) :
    writeSectorM data t s w = (.ok (), w.wrote t s (quantize data) (alloc' w.v w.c t s)) := by
  unfold writeSectorM
  simp only [M.bind_apply, if_neg hne, M.pure_apply, M.getV_apply]
  unfold zapM
  rw [imgWrite_ok h ht hs, h.vBps, quantize_take_min data 256 rfl]
  simp only
  unfold allocM M.modV
  simp only
  rw [allocate_eq h.vSpt h.hc ht hs]
  rfl

theorem sec_wrote' {w : W} (h : WOk w) {t s : Nat} (ht : t < 35) (hs : s < w.c) (data v' : Bytes) {x : Nat}
    (hx : x ≠ vtocTrack * w.c) : sec (w.wrote t s data v').img x = if x = t * w.c + s then data else sec w.img x := by
  have hu : t * w.c + s < w.raw.units.size := by rw [h.size]; exact unit_lt ht hs
  rw [W.sec_img, W.sec_img]
  have hc : (w.wrote t s data v').c = w.c := rfl
  simp only [hc, hx, false_and, if_false]
  unfold sec W.wrote
  simp only [Array.getElem?_setIfInBounds]
  by_cases hxe : t * w.c + s = x
  · subst hxe; simp [hu]
  · have : ¬ x = t * w.c + s := fun e => hxe e.symm
    simp [hxe, this]

theorem wrote_ok' {w : W} (h : WOk w) {t s : Nat} (ht : t < 35) (hs : s < w.c) {data v' : Bytes} (hd : data.length = 256)
    (hv : VOk v' w.c) : WOk (w.wrote t s data v') :=
  (wrote_ok h ht hs hd).setV hv

theorem wrote_size (w : W) (t s : Nat) (data v' : Bytes) : (w.wrote t s data v').img.units.size = w.img.units.size := by
  rw [W.img_size, W.img_size]; simp [W.wrote]

/-! ## the directory-slot search -/

/-- first sector of the chain with a free entry: (track, sector, entry index) -/
def slotIn (r : Raw) (c : Nat) : List Nat → Option (Nat × Nat × Nat)
  | [] => none
  | u :: rest =>
    match freeEntry (sec r u) with
    | some e => some (u / c, u % c, e)
    | none => slotIn r c rest

theorem slotLoop_ok {w : W} (h : WOk w) : ∀ (cat : List Nat) (fuel t s : Nat) (buf : Bytes),
    CatChain w.img w.c t s cat → cat ≠ [] → cat.length ≤ fuel → buf.length = 256 →
    slotLoop fuel t s buf w = (match slotIn w.img w.c cat with | some x => .ok x | none => .error .diskFull, w) := by
  intro cat
  induction cat with
  | nil => intro _ _ _ _ _ hne; exact absurd rfl hne
  | cons u rest ih =>
    intro fuel t s buf hch _ hf hb
    obtain ⟨_, ht, hs, hu, hsz, hrest⟩ := hch
    cases fuel with
    | zero => simp at hf
    | succ n =>
      rw [W.img_size] at hsz
      have hbl : (sec w.img u).length = 256 := sec_img_length h hsz
      rw [slotLoop]
      simp only [M.bind_apply, M.getV_apply, M.lift_apply, verifyTs_ok h ht hs, readSectorM_ok h ht hs hb, ← hu]
      have hfs : fullSector (sec w.img u) = .ok () := by unfold fullSector sectorSize; rw [if_neg (by omega)]
      simp only [hfs, slotIn]
      cases hm : freeEntry (sec w.img u) with
      | some e =>
        simp only
        rw [hu, (div_mod_unit hs).1, (div_mod_unit hs).2]
        rfl
      | none =>
        simp only [Dir.nextTrack, Dir.nextSector]
        by_cases hz : (sec w.img u).getD 1 0 = 0 ∧ (sec w.img u).getD 2 0 = 0
        · simp only [hz, and_self, ↓reduceIte]
          rw [hz.1, hz.2] at hrest
          rw [catChain_zero hrest]
          rfl
        · simp only [hz, ↓reduceIte]
          exact ih n _ _ _ hrest (catChain_ne hrest hz) (by simpa using hf) hbl

theorem slotIn_some {r : Raw} {c : Nat} : ∀ {cat : List Nat} {t s e : Nat}, slotIn r c cat = some (t, s, e) →
    ∃ u ∈ cat, t = u / c ∧ s = u % c ∧ freeEntry (sec r u) = some e := by
  intro cat
  induction cat with
  | nil => intro t s e h; simp [slotIn] at h
  | cons x rest ih =>
    intro t s e h
    simp only [slotIn] at h
    cases hm : freeEntry (sec r x) with
    | some e' =>
      rw [hm] at h
      simp only [Option.some.injEq, Prod.mk.injEq] at h
      obtain ⟨rfl, rfl, rfl⟩ := h
      exact ⟨x, List.mem_cons_self, rfl, rfl, hm⟩
    | none =>
      rw [hm] at h
      obtain ⟨u, hu, h'⟩ := ih h
      exact ⟨u, List.mem_cons_of_mem _ hu, h'⟩

theorem freeEntry_some {b : Bytes} {e : Nat} (h : freeEntry b = some e) : e < 7 ∧ isLive (entryAt b e) = false := by
  unfold freeEntry at h
  have hm := List.mem_of_find?_eq_some h
  have hp := List.find?_some h
  simp only [decide_eq_true_eq] at hp
  refine ⟨List.mem_range.1 hm, ?_⟩
  unfold isLive
  rw [← dir_tslTrack_eq]
  simp only [decide_eq_false_iff_not]
  omega


/-! ## buffers in which every free sector can be found by the search -/

structure AOk (v : Bytes) (c : Nat) : Prop where
  ok : VOk v c
  track1 : Vtoc.track1 v = vtocTrack
  lastTrack : 1 ≤ Vtoc.lastTrack v
  noSys : ∀ u, u < 35 * c → isFreeU v c u = true → 1 ≤ u / c ∧ u / c ≠ vtocTrack

theorem sb_sub_sys {r : Raw} {c : Nat} {sb : List Nat} {L : Lay} {x : Nat} (hx : x ∈ sb) : x ∈ (volOf r c sb L).sys := by
  show x ∈ fixedOf c L ++ sb.filter (fun u => !(fixedOf c L).contains u)
  by_cases h : x ∈ fixedOf c L
  · exact List.mem_append_left _ h
  · exact List.mem_append_right _ (List.mem_filter.2 ⟨hx, by simpa using h⟩)

theorem sys_not_free {w : W} {sb : List Nat} {L : Lay} (hi : WInv w sb L) {x : Nat} (hx : x ∈ (volOf w.img w.c sb L).sys) :
    ¬ (x < 35 * w.c ∧ isFreeU w.v w.c x = true) := by
  intro h
  have := (wfB_iff.1 hi.wf).2.2.2.1 x hx
  apply this
  show x ∈ freeOf w.img w.c
  rw [freeOf_eq hi.ok]
  exact mem_freeList.2 h

theorem winv_aok {w : W} {sb : List Nat} {L : Lay} (hi : WInv w sb L) : AOk w.v w.c := by
  refine ⟨hi.ok.vok, hi.track1, hi.lastTrack, ?_⟩
  intro u hu hf
  have hc0 : 0 < w.c := by rcases hi.ok.hc with e | e <;> omega
  have hdm : w.c * (u / w.c) + u % w.c = u := Nat.div_add_mod u w.c
  have hm := Nat.mod_lt u hc0
  constructor
  · rcases Nat.eq_zero_or_pos (u / w.c) with h0 | h0
    · exfalso
      rw [h0, Nat.mul_zero, Nat.zero_add] at hdm
      exact sys_not_free hi (sb_sub_sys (r := w.img) (L := L) (hi.cover _ hm).1) ⟨by rw [hdm]; exact hu, by rw [hdm]; exact hf⟩
    · exact h0
  · intro h17
    rw [h17, Nat.mul_comm] at hdm
    exact sys_not_free hi (sb_sub_sys (r := w.img) (L := L) (hi.cover _ hm).2) ⟨by rw [hdm]; exact hu, by rw [hdm]; exact hf⟩

theorem aok_taken {v v' : Bytes} {c : Nat} {S : List Nat} (h : AOk v c) (ht : Taken v v' c S) (hl : 1 ≤ Vtoc.lastTrack v') : AOk v' c := by
  refine ⟨ht.ok, ?_, hl, ?_⟩
  · unfold Vtoc.track1; rw [ht.low 1 (by decide) (by decide) (by decide)]; exact h.track1
  · intro u hu hf
    rw [isFreeU_taken ht hu] at hf
    simp only [Bool.and_eq_true] at hf
    exact h.noSys u hu hf.1

/-- while the buffer has a free sector, `get_next_free_sector` returns one -/
theorem alloc_step {v : Bytes} {c : Nat} (h : AOk v c) (hn : 0 < nfree v c) (pj : Bool) :
    ∃ t s, nextFree v pj = .ok (t, s) ∧ 1 ≤ t ∧ t < 35 ∧ s < c ∧ isFreeU v c (t * c + s) = true := by
  have hc0 : 0 < c := by rcases h.ok.hc with e | e <;> omega
  have hex : ∃ u, u ∈ freeList v c := by
    unfold nfree at hn
    cases hl : freeList v c with
    | nil => rw [hl] at hn; simp at hn
    | cons a _ => exact ⟨a, List.mem_cons_self⟩
  obtain ⟨u, hu⟩ := hex
  obtain ⟨hu1, hu2⟩ := mem_freeList.1 hu
  obtain ⟨n1, n2⟩ := h.noSys u hu1 hu2
  obtain ⟨t, s, hr, a, b, c', d⟩ := nextFree_spec h.ok h.track1 h.lastTrack pj
    ⟨u / c, u % c, n1, (Nat.div_lt_iff_lt_mul hc0).2 hu1, n2, Nat.mod_lt _ hc0, hu2⟩
  exact ⟨t, s, hr, a, b, c', by rw [isFreeU_unit c']; exact d⟩

/-! ## reserving sectors in the buffer only -/

/-- marking free sectors used in the buffer (nothing else changes) keeps the invariant with the same layout and
the same files -/
theorem winv_taken {w : W} {sb : List Nat} {L : Lay} (hi : WInv w sb L) {v' : Bytes} {S : List Nat}
    (ht : Taken w.v v' w.c S) (hl : 1 ≤ Vtoc.lastTrack v') :
    WInv (w.withV v') sb L ∧ (volOf (w.withV v').img w.c sb L).files = (volOf w.img w.c sb L).files := by
  have hok' : WOk (w.withV v') := hi.ok.setV ht.ok
  have hd := hi.desc
  have hsz : (w.withV v').img.units.size = w.img.units.size := by rw [W.img_size, W.img_size]; rfl
  have hcat17 : ∀ x ∈ L.cat, x ≠ vtocTrack * w.c := fun x hx => (cat_unit_facts hi.wf hx).1
  have hown17 := owned_ne_vtoc hi.wf
  have hgv : ∀ i, i < 0x38 → i ≠ 0x30 → i ≠ 0x31 → (vtocOf (w.withV v').img w.c).getD i 0 = (vtocOf w.img w.c).getD i 0 := by
    intro i hi' a b
    have := getD_vtocOf hok' (i := i) (by omega)
    rw [show (w.withV v').c = w.c from rfl, show (w.withV v').v = v' from rfl] at this
    rw [this, ht.low i hi' a b, getD_vtocOf hi.ok (by omega)]
  have hents : entsOf (w.withV v').img L.cat = entsOf w.img L.cat :=
    entsOf_congr (fun x hx => withV_sec v' (hcat17 x hx))
  have hlive : liveOf (w.withV v').img L.cat = liveOf w.img L.cat := by unfold liveOf; rw [hents]
  have hF := filesOf_congr (r' := (w.withV v').img) hsz hd.files (fun f hf x hx =>
    withV_sec v' (fun (e : x = vtocTrack * w.c) => hown17 f hf (e ▸ hx)))
  have hfiles : (volOf (w.withV v').img w.c sb L).files = (volOf w.img w.c sb L).files := by
    show filesOf (w.withV v').img w.c (liveOf (w.withV v').img L.cat) L.tsls = filesOf w.img w.c (liveOf w.img L.cat) L.tsls
    rw [hlive]; exact hF.1
  have hcatch : CatChain (w.withV v').img w.c ((vtocOf w.img w.c).getD 1 0) ((vtocOf w.img w.c).getD 2 0) L.cat := by
    apply CatChain.congr hsz _ hd.cat
    intro x hx
    rw [withV_sec v' (hcat17 x hx)]; exact ⟨rfl, rfl⟩
  refine ⟨⟨hok', ?_, ?_, ?_, hi.catNe, hi.cover, ?_, hl⟩, hfiles⟩
  · show Describes (w.withV v').img w.c L
    refine ⟨hd.hc, by rw [hsz]; exact hd.size, by rw [hgv _ (by decide) (by decide) (by decide)]; exact hd.vTracks,
      by rw [hgv _ (by decide) (by decide) (by decide)]; exact hd.vSpt, by rw [hgv _ (by decide) (by decide) (by decide)]; exact hd.vPairs,
      by rw [hgv _ (by decide) (by decide) (by decide), hgv _ (by decide) (by decide) (by decide)]; exact hcatch,
      hd.catNodup, hd.catLen, ?_⟩
    rw [hlive]; exact hF.2
  · show (volOf (w.withV v').img w.c sb L).wfB = true
    obtain ⟨h1, h2, h3, h4, h5, h6, h7⟩ := wfB_iff.1 hi.wf
    have hao : (volOf (w.withV v').img w.c sb L).allOwned = (volOf w.img w.c sb L).allOwned := by
      unfold Vol.allOwned; rw [hfiles]
    have hfr : ∀ x, x ∈ (volOf (w.withV v').img w.c sb L).freeUnits → x ∈ (volOf w.img w.c sb L).freeUnits := by
      intro x hx
      have hx' : x ∈ freeOf (w.withV v').img w.c := hx
      show x ∈ freeOf w.img w.c
      have e1 := freeOf_eq hok'
      rw [show (w.withV v').c = w.c from rfl, show (w.withV v').v = v' from rfl] at e1
      rw [e1] at hx'
      rw [freeOf_eq hi.ok]
      obtain ⟨a, b⟩ := mem_freeList.1 hx'
      rw [isFreeU_taken ht a] at b
      simp only [Bool.and_eq_true] at b
      exact mem_freeList.2 ⟨a, b.1⟩
    rw [wfB_iff]
    refine ⟨by rw [hao]; exact h1, by rw [hao]; exact h2, ?_, ?_, ⟨?_, ?_⟩, by rw [hfiles]; exact h6, by rw [hfiles]; exact h7⟩
    · rw [hao]; intro u hu hf; exact h3 u hu (hfr u hf)
    · intro u hu hf; exact h4 u hu (hfr u hf)
    · exact (List.filter_sublist (l := List.range (35 * w.c))).nodup List.nodup_range
    · intro u hu; exact h5.2 u (hfr u hu)
  · intro e he
    have he' : e ∈ liveOf (w.withV v').img L.cat := he
    rw [hlive] at he'
    exact hi.names e he'
  · show Vtoc.track1 v' = vtocTrack
    unfold Vtoc.track1; rw [ht.low 1 (by decide) (by decide) (by decide)]; exact hi.track1

end A2Verif.Fs.Dos3x
